(* Proofs/MsgTextParse.v -- the Content-Type rewritten by the UTF-8 fallback of set_text always
   parses back with charset = utf-8:  header_charset (fallback_ctype ct) = Some utf-8, for every ct.
   Lemmas on split / strip / the ordered dict. *)
From Coq Require Import String.
From Coq Require Import List Bool NArith Lia.
From MV Require Import Base.Bytes Model.MsgText.
Import ListNotations.

(* ---------- split ---------- *)
Lemma split1_notin c a : ~ In c a -> split1 c a = (a, None).
Proof.
  induction a as [|x a IH]; intros H; cbn [split1]; [reflexivity|].
  destruct (byte_eqb x c) eqn:E.
  - apply byte_eqb_eq in E. subst. exfalso. apply H. left. reflexivity.
  - rewrite IH; [reflexivity | intros Hi; apply H; right; exact Hi].
Qed.

Lemma split1_app c a b : ~ In c a -> split1 c (a ++ c :: b) = (a, Some b).
Proof.
  induction a as [|x a IH]; intros H; cbn [split1 app].
  - rewrite byte_eqb_refl. reflexivity.
  - destruct (byte_eqb x c) eqn:E.
    + apply byte_eqb_eq in E. subst. exfalso. apply H. left. reflexivity.
    + rewrite IH; [reflexivity | intros Hi; apply H; right; exact Hi].
Qed.

(* s = head (+ c + tail); the head never contains c *)
Lemma split1_spec c s a ob : split1 c s = (a, ob) ->
  ~ In c a /\ match ob with Some b => s = a ++ c :: b | None => s = a end.
Proof.
  revert a ob. induction s as [|x s IH]; intros a ob H; cbn [split1] in H.
  - injection H as <- <-. split; [intros [] | reflexivity].
  - destruct (byte_eqb x c) eqn:E.
    + injection H as <- <-. apply byte_eqb_eq in E. subst. split; [intros [] | reflexivity].
    + destruct (split1 c s) as [a' b'] eqn:Es. injection H as <- <-.
      destruct (IH a' b' eq_refl) as [Hn Hs]. split.
      * intros [Hx | Hi]; [subst; rewrite byte_eqb_refl in E; discriminate | exact (Hn Hi)].
      * destruct b'; cbn [app]; congruence.
Qed.

Lemma split_on_notin c a : ~ In c a -> split_on c a = [a].
Proof.
  induction a as [|x a IH]; intros H; cbn [split_on]; [reflexivity|].
  destruct (byte_eqb x c) eqn:E.
  - apply byte_eqb_eq in E. subst. exfalso. apply H. left. reflexivity.
  - rewrite IH; [reflexivity | intros Hi; apply H; right; exact Hi].
Qed.

Lemma split_on_app c a r : ~ In c a -> split_on c (a ++ c :: r) = a :: split_on c r.
Proof.
  induction a as [|x a IH]; intros H; cbn [split_on app].
  - rewrite byte_eqb_refl. reflexivity.
  - destruct (byte_eqb x c) eqn:E.
    + apply byte_eqb_eq in E. subst. exfalso. apply H. left. reflexivity.
    + rewrite IH; [reflexivity | intros Hi; apply H; right; exact Hi].
Qed.

Lemma split_on_pieces c s : Forall (fun p => ~ In c p) (split_on c s).
Proof.
  induction s as [|x s IH]; cbn [split_on].
  - constructor; [intros [] | constructor].
  - destruct (byte_eqb x c) eqn:E.
    + constructor; [intros [] | exact IH].
    + destruct (split_on c s) as [|h t]; [constructor; [|constructor]|].
      * intros [Hx | []]. subst. rewrite byte_eqb_refl in E. discriminate.
      * inversion IH as [|? ? Hh Ht]; subst. constructor; [|exact Ht].
        intros [Hx | Hi]; [subst; rewrite byte_eqb_refl in E; discriminate | exact (Hh Hi)].
Qed.

(* ---------- strip ---------- *)
Lemma lstrip_In x s : In x (lstrip s) -> In x s.
Proof.
  induction s as [|y s IH]; cbn [lstrip]; [intros []|].
  destruct (is_ws y); intros H; [right; apply IH; exact H | exact H].
Qed.

Lemma rstrip_In x s : In x (rstrip s) -> In x s.
Proof.
  induction s as [|y s IH]; cbn [rstrip]; [intros []|].
  destruct (rstrip s) as [|r0 r] eqn:E.
  - destruct (is_ws y); [intros [] | intros [H | []]; left; exact H].
  - intros [H | H]; [left; exact H | right; apply IH; exact H].
Qed.

Lemma strip_In x s : In x (strip s) -> In x s.
Proof. unfold strip. intros H. apply lstrip_In, rstrip_In, H. Qed.

Lemma rstrip_cons_nonws x s : is_ws x = false -> rstrip (x :: s) = x :: rstrip s.
Proof. intros H. cbn [rstrip]. destruct (rstrip s); [rewrite H|]; reflexivity. Qed.

Lemma rstrip_cons x s : rstrip (x :: s)
  = match rstrip s with [] => if is_ws x then [] else [x] | r => x :: r end.
Proof. reflexivity. Qed.

Lemma rstrip_idem s : rstrip (rstrip s) = rstrip s.
Proof.
  induction s as [|x s IH]; [reflexivity|]. rewrite rstrip_cons.
  destruct (rstrip s) as [|r0 r] eqn:E.
  - destruct (is_ws x) eqn:W; [reflexivity|]. rewrite rstrip_cons. cbn [rstrip]. rewrite W. reflexivity.
  - rewrite rstrip_cons. rewrite IH. reflexivity.
Qed.

Lemma lstrip_head s : match lstrip s with [] => True | x :: _ => is_ws x = false end.
Proof.
  induction s as [|y s IH]; cbn [lstrip]; [exact I|].
  destruct (is_ws y) eqn:W; [exact IH | exact W].
Qed.

Lemma lstrip_nonws x s : is_ws x = false -> lstrip (x :: s) = x :: s.
Proof. intros H. cbn [lstrip]. rewrite H. reflexivity. Qed.

Lemma strip_idem s : strip (strip s) = strip s.
Proof.
  unfold strip. pose proof (lstrip_head s) as H. destruct (lstrip s) as [|x l]; [reflexivity|].
  rewrite (rstrip_cons_nonws x l H). rewrite (lstrip_nonws x _ H).
  rewrite <- (rstrip_cons_nonws x l H). apply rstrip_idem.
Qed.

Lemma strip_space_cons s : strip (x20 :: s) = strip s.
Proof. reflexivity. Qed.

(* ---------- dict ---------- *)
Definition keys (d : dict) : list bytes := map fst d.

Lemma dict_get_set_same d k v : dict_get (dict_set d k v) k = Some v.
Proof.
  induction d as [|[k' v'] d IH]; cbn [dict_set dict_get].
  - rewrite bytes_eqb_refl. reflexivity.
  - destruct (bytes_eqb k' k) eqn:E; cbn [dict_get]; rewrite E; [reflexivity | exact IH].
Qed.

Lemma dict_get_set_other d k v k2 : k <> k2 -> dict_get (dict_set d k v) k2 = dict_get d k2.
Proof.
  intros Hne. induction d as [|[k' v'] d IH]; cbn [dict_set dict_get].
  - destruct (bytes_eqb k k2) eqn:E; [apply bytes_eqb_eq in E; contradiction | reflexivity].
  - destruct (bytes_eqb k' k) eqn:E; cbn [dict_get].
    + apply bytes_eqb_eq in E. subst k'.
      destruct (bytes_eqb k k2) eqn:E2; [apply bytes_eqb_eq in E2; contradiction | reflexivity].
    + destruct (bytes_eqb k' k2); [reflexivity | exact IH].
Qed.

Lemma dict_get_notin d k : ~ In k (keys d) -> dict_get d k = None.
Proof.
  induction d as [|[k' v'] d IH]; intros H; cbn [dict_get]; [reflexivity|].
  destruct (bytes_eqb k' k) eqn:E.
  - apply bytes_eqb_eq in E. subst. exfalso. apply H. left. reflexivity.
  - apply IH. intros Hi. apply H. right. exact Hi.
Qed.

Lemma keys_dict_set d k v : In k (keys d) /\ keys (dict_set d k v) = keys d
                            \/ ~ In k (keys d) /\ keys (dict_set d k v) = keys d ++ [k].
Proof.
  induction d as [|[k' v'] d IH]; cbn [dict_set keys map fst].
  - right. split; [intros [] | reflexivity].
  - destruct (bytes_eqb k' k) eqn:E.
    + apply bytes_eqb_eq in E. subst. left. split; [left; reflexivity | reflexivity].
    + fold (keys d). fold (keys (dict_set d k v)). destruct IH as [[Hi He] | [Hn He]].
      * left. split; [right; exact Hi | cbn [map fst]; f_equal; exact He].
      * right. split.
        -- intros [Hx | Hi]; [subst; rewrite bytes_eqb_refl in E; discriminate | exact (Hn Hi)].
        -- cbn [map fst app]. f_equal. exact He.
Qed.

Lemma NoDup_app_single (l : list bytes) k : NoDup l -> ~ In k l -> NoDup (l ++ [k]).
Proof.
  induction 1 as [|x l Hx Hl IH]; intros Hk; cbn [app].
  - constructor; [intros [] | constructor].
  - constructor.
    + intros Hi. apply in_app_or in Hi as [Hi | [Hi | []]]; [exact (Hx Hi) | subst; apply Hk; left; reflexivity].
    + apply IH. intros Hi. apply Hk. right. exact Hi.
Qed.

Lemma dict_set_nodup d k v : NoDup (keys d) -> NoDup (keys (dict_set d k v)).
Proof.
  intros H. destruct (keys_dict_set d k v) as [[_ ->] | [Hn ->]]; [exact H | apply NoDup_app_single; assumption].
Qed.

(* every entry satisfies P *)
Lemma dict_set_Forall (P : bytes * bytes -> Prop) d k v :
  (forall k0 v0, P (k0, v0) -> P (k0, v)) -> P (k, v) -> Forall P d -> Forall P (dict_set d k v).
Proof.
  intros Hrep Hkv. induction 1 as [|[k' v'] d Hp Hd IH]; cbn [dict_set].
  - constructor; [exact Hkv | constructor].
  - destruct (bytes_eqb k' k) eqn:E.
    + apply bytes_eqb_eq in E. subst k'. constructor; [exact Hkv | exact Hd].
    + constructor; [exact Hp | exact IH].
Qed.

Definition setp (acc : dict) (p : bytes * bytes) : dict := dict_set acc (fst p) (snd p).

Lemma dict_get_fold d : NoDup (keys d) -> forall acc k,
  dict_get (fold_left setp d acc) k
  = match dict_get d k with Some v => Some v | None => dict_get acc k end.
Proof.
  induction d as [|[k1 v1] d IH]; intros Hnd acc k; cbn [fold_left dict_get]; [reflexivity|].
  cbn [keys map fst] in Hnd. inversion Hnd as [|? ? Hnot Hnd']; subst.
  rewrite (IH Hnd'). unfold setp. cbn [fst snd].
  destruct (bytes_eqb k1 k) eqn:E.
  - apply bytes_eqb_eq in E. subst k. rewrite (dict_get_notin d k1 Hnot). apply dict_get_set_same.
  - destruct (dict_get d k); [reflexivity|]. apply dict_get_set_other.
    intros ->. rewrite bytes_eqb_refl in E. discriminate.
Qed.

(* ---------- well-formed parameter dictionaries ---------- *)
Definition wf_entry (p : bytes * bytes) : Prop :=
  ~ In semi (fst p) /\ ~ In eqs (fst p) /\ strip (fst p) = fst p
  /\ ~ In semi (snd p) /\ strip (snd p) = snd p.

Definition wf_dict (d : dict) : Prop := Forall wf_entry d /\ NoDup (keys d).

Lemma wf_dict_set d k v : wf_dict d -> wf_entry (k, v) -> wf_dict (dict_set d k v).
Proof.
  intros [HF HN] Hkv. split; [|apply dict_set_nodup; exact HN].
  apply dict_set_Forall; [|exact Hkv | exact HF].
  intros k0 v0 (A & Bq & Cc & _ & _). destruct Hkv as (_ & _ & _ & D & E). cbn [fst snd] in *.
  repeat split; assumption.
Qed.

Lemma add_clause_wf d i : ~ In semi i -> wf_dict d -> wf_dict (add_clause d i).
Proof.
  intros Hi Hd. unfold add_clause. destruct (split1 eqs i) as [k [v|]] eqn:E; [|exact Hd].
  destruct (split1_spec _ _ _ _ E) as [Hk Hs]. apply wf_dict_set; [exact Hd|].
  assert (Hks : ~ In semi k) by (intros H; apply Hi; rewrite Hs; apply in_or_app; left; exact H).
  assert (Hvs : ~ In semi v) by (intros H; apply Hi; rewrite Hs; apply in_or_app; right; right; exact H).
  unfold wf_entry. cbn [fst snd]. repeat split.
  - intros H. apply Hks, (strip_In _ _ H).
  - intros H. apply Hk, (strip_In _ _ H).
  - apply strip_idem.
  - intros H. apply Hvs, (strip_In _ _ H).
  - apply strip_idem.
Qed.

Lemma fold_add_clause_wf l : Forall (fun p => ~ In semi p) l -> forall d, wf_dict d ->
  wf_dict (fold_left add_clause l d).
Proof.
  induction 1 as [|i l Hi Hl IH]; intros d Hd; cbn [fold_left]; [exact Hd|].
  apply IH, add_clause_wf; assumption.
Qed.

Lemma upper_to_lower y : is_upper y = true -> is_lower (to_lower y) = true.
Proof.
  revert y. intros y. pose proof (forall_bytes (fun y => implb (is_upper y) (is_lower (to_lower y)))) as H.
  specialize (H ltac:(vm_compute; reflexivity) y). cbv beta in H.
  intros U. rewrite U in H. exact H.
Qed.

Lemma to_lower_not (c : byte) : is_lower c = false -> forall y, to_lower y = c -> y = c.
Proof.
  intros Hc y Hy. destruct (is_upper y) eqn:U.
  - apply upper_to_lower in U. rewrite Hy in U. congruence.
  - unfold to_lower in Hy. rewrite U in Hy. exact Hy.
Qed.

Lemma lower_notin c s : is_lower c = false -> ~ In c s -> ~ In c (lower s).
Proof.
  intros Hc Hn Hi. unfold lower in Hi. apply in_map_iff in Hi as (y & Hy & Hin).
  apply (to_lower_not c Hc) in Hy. subst. exact (Hn Hin).
Qed.

Lemma parse_wf c t st d : parse_content_type c = Some (t, st, d) ->
  ~ In semi t /\ ~ In slash t /\ ~ In semi st /\ wf_dict d.
Proof.
  unfold parse_content_type. destruct (split1 semi c) as [p0 rest] eqn:E0.
  destruct (split1 slash p0) as [t0 [st0|]] eqn:E1; [|discriminate].
  intros H. injection H as <- <- <-.
  destruct (split1_spec _ _ _ _ E0) as [Hp0 _]. destruct (split1_spec _ _ _ _ E1) as [Ht0 Hs].
  assert (A : ~ In semi t0) by (intros H; apply Hp0; rewrite Hs; apply in_or_app; left; exact H).
  assert (Bq : ~ In semi st0) by (intros H; apply Hp0; rewrite Hs; apply in_or_app; right; right; exact H).
  repeat split; try (apply lower_notin; [reflexivity | assumption]).
  - destruct rest as [r|]; [|constructor].
    apply fold_add_clause_wf; [apply split_on_pieces | split; constructor].
  - destruct rest as [r|]; [|constructor].
    apply fold_add_clause_wf; [apply split_on_pieces | split; constructor].
Qed.

(* ---------- re-parsing an assembled content type ---------- *)
Definition sp_kv (p : bytes * bytes) : bytes := x20 :: kv p.

Lemma kv_nosemi p : wf_entry p -> ~ In semi (sp_kv p).
Proof.
  intros (A & _ & _ & D & _). unfold sp_kv, kv. intros [H | H]; [discriminate H|].
  apply in_app_or in H as [H | H]; [exact (A H)|].
  cbn [app] in H. destruct H as [H | H]; [discriminate H | exact (D H)].
Qed.

Lemma split_join d : d <> [] -> Forall wf_entry d ->
  split_on semi (x20 :: join (B "; ") (map kv d)) = map sp_kv d.
Proof.
  intros Hne HF. induction HF as [|p d Hp Hd IH]; [contradiction|].
  destruct d as [|q d'].
  - cbn [map join]. apply (split_on_notin semi (sp_kv p)). apply kv_nosemi, Hp.
  - change (map kv (p :: q :: d')) with (kv p :: map kv (q :: d')).
    change (join (B "; ") (kv p :: map kv (q :: d')))
      with (kv p ++ (semi :: x20 :: join (B "; ") (map kv (q :: d')))).
    change (x20 :: kv p ++ semi :: x20 :: join (B "; ") (map kv (q :: d')))
      with (sp_kv p ++ semi :: (x20 :: join (B "; ") (map kv (q :: d')))).
    rewrite split_on_app by (apply kv_nosemi, Hp).
    rewrite IH by discriminate. reflexivity.
Qed.

Lemma add_clause_sp_kv acc p : wf_entry p -> add_clause acc (sp_kv p) = setp acc p.
Proof.
  intros (_ & Bq & Cc & _ & E). unfold add_clause, sp_kv, kv.
  change (x20 :: fst p ++ [eqs] ++ snd p) with ((x20 :: fst p) ++ eqs :: snd p).
  rewrite split1_app.
  - rewrite strip_space_cons, Cc, E. reflexivity.
  - intros [H | H]; [discriminate H | exact (Bq H)].
Qed.

Lemma fold_add_clause_sp_kv d : Forall wf_entry d -> forall acc,
  fold_left add_clause (map sp_kv d) acc = fold_left setp d acc.
Proof.
  induction 1 as [|p d Hp Hd IH]; intros acc; cbn [map fold_left]; [reflexivity|].
  rewrite add_clause_sp_kv by exact Hp. apply IH.
Qed.

Lemma parse_assemble_get t st d : ~ In semi t -> ~ In slash t -> ~ In semi st ->
  d <> [] -> wf_dict d ->
  header_charset (assemble_content_type t st d) = dict_get d (B "charset").
Proof.
  intros Ht Hsl Hst Hne [HF HN]. unfold header_charset, parse_content_type, assemble_content_type.
  destruct d as [|p0 d0] eqn:Ed; [contradiction|]. rewrite <- Ed in *.
  change (t ++ [slash] ++ st ++ B "; " ++ join (B "; ") (map kv d))
    with (t ++ [slash] ++ st ++ semi :: x20 :: join (B "; ") (map kv d)).
  replace (t ++ [slash] ++ st ++ semi :: x20 :: join (B "; ") (map kv d))
    with ((t ++ slash :: st) ++ semi :: (x20 :: join (B "; ") (map kv d)))
    by (rewrite <- app_assoc; reflexivity).
  rewrite split1_app.
  2:{ intros H. apply in_app_or in H as [H | [H | H]]; [exact (Ht H) | discriminate H | exact (Hst H)]. }
  rewrite (split1_app slash t st Hsl).
  rewrite (split_join d Hne HF).
  rewrite fold_add_clause_sp_kv by exact HF.
  rewrite (dict_get_fold d HN). destruct (dict_get d (B "charset")); reflexivity.
Qed.

Theorem fallback_charset ct : header_charset (fallback_ctype ct) = Some (B "utf-8").
Proof.
  unfold fallback_ctype. destruct (parse_content_type ct) as [[[t st] d]|] eqn:E; [|vm_compute; reflexivity].
  destruct (parse_wf _ _ _ _ E) as (A & Bq & Cc & Hd).
  rewrite parse_assemble_get; try assumption.
  - apply dict_get_set_same.
  - destruct d as [|[k' v'] d']; cbn [dict_set]; [discriminate|]. destruct (bytes_eqb k' (B "charset")); discriminate.
  - apply wf_dict_set; [exact Hd|]. unfold wf_entry. cbn [fst snd].
    repeat split; try (vm_compute; reflexivity);
      intros H; vm_compute in H; repeat (destruct H as [H | H]; [discriminate H|]); exact H.
Qed.
