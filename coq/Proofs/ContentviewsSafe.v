(* Proofs/ContentviewsSafe.v -- prettify_message: totality, the final filter, view selection.
   All statements quantify over arbitrary views (partial functions), registries, data,
   metadata and view names. *)
From Coq Require Import List Bool NArith ZArith Lia.
From MV Require Import Base.Bytes Model.Strutils Model.WsUtf8 Model.Contentviews.
Import ListNotations.
Local Open Scope N_scope.

(* a C0 control or DEL other than TAB, LF, CR *)
Definition bad0 (c : N) : bool := is_c0_or_del c && negb (is_spacing c).

Lemma ecc_strutils t : ecc false t = escape_control_characters t true.
Proof.
  unfold ecc, escape_control_characters. apply map_ext. intro c.
  unfold replaced. cbn [andb]. rewrite orb_false_r. reflexivity.
Qed.

Lemma ecc_clean c1 t c : In c (ecc c1 t) -> bad0 c = false /\ (c1 = true -> is_c1 c = false).
Proof.
  unfold ecc. rewrite in_map_iff. intros (x & E & _).
  destruct (replaced c1 x) eqn:R.
  - subst c. split; [reflexivity | intros _; reflexivity].
  - subst c. unfold replaced in R. apply orb_false_iff in R. destruct R as [R0 R1].
    split; [exact R0|]. intros ->. exact R1.
Qed.

Lemma ecc_length c1 t : length (ecc c1 t) = length t.
Proof. apply map_length. Qed.

(* what the filter keeps it keeps unchanged *)
Lemma ecc_id c1 t : forallb (fun c => negb (replaced c1 c)) t = true -> ecc c1 t = t.
Proof.
  induction t as [|c t IH]; [reflexivity|]. cbn [forallb ecc map]. intro H.
  apply andb_true_iff in H. destruct H as [Hc Ht].
  apply negb_true_iff in Hc. rewrite Hc. f_equal. exact (IH Ht).
Qed.

Lemma content_missing_clean c : In c CONTENT_MISSING -> bad0 c = false /\ is_c1 c = false.
Proof.
  intro H.
  assert (forallb (fun c => negb (bad0 c) && negb (is_c1 c)) CONTENT_MISSING = true) as F
    by (vm_compute; reflexivity).
  rewrite forallb_forall in F. specialize (F c H). apply andb_true_iff in F.
  destruct F as [A B]. apply negb_true_iff in A. apply negb_true_iff in B. auto.
Qed.

Section Safe.
Variable M : Type.
Notation view := (view M).

(* ---------- the max_prio loop ---------- *)
Lemma best_spec (d : bytes) (m : M) : forall (reg : list view) cur p v,
  best reg d m cur = Some (p, v) ->
  (cur = Some (p, v) \/ (In v reg /\ v_prio v d m = Some p))
  /\ (forall q w, cur = Some (q, w) -> (q <= p)%Z)
  /\ (forall w q, In w reg -> v_prio w d m = Some q -> (q <= p)%Z).
Proof.
  induction reg as [|x reg IH]; intros cur p v H.
  - cbn in H. subst cur. split; [left; reflexivity|]. split.
    + intros q w E. inversion E. lia.
    + intros w q [].
  - cbn [best] in H. destruct (v_prio x d m) as [px|] eqn:Px.
    + destruct cur as [[q0 w0]|].
      * destruct (q0 <? px)%Z eqn:L.
        -- apply IH in H. destruct H as (A & B & C). split; [|split].
           ++ destruct A as [A|[A1 A2]]; [inversion A; subst; right; split; [left; reflexivity|exact Px]
                                         | right; split; [right; exact A1 | exact A2]].
           ++ intros q w E. inversion E; subst. specialize (B px x eq_refl).
              apply Z.ltb_lt in L. lia.
           ++ intros w q [<-|Hin] Pw; [rewrite Px in Pw; inversion Pw; subst; exact (B q x eq_refl)
                                      | exact (C w q Hin Pw)].
        -- apply IH in H. destruct H as (A & B & C). split; [|split].
           ++ destruct A as [A|[A1 A2]]; [left; exact A | right; split; [right; exact A1 | exact A2]].
           ++ exact B.
           ++ intros w q [<-|Hin] Pw; [| exact (C w q Hin Pw)].
              rewrite Px in Pw. inversion Pw; subst. specialize (B q0 w0 eq_refl).
              apply Z.ltb_ge in L. lia.
      * apply IH in H. destruct H as (A & B & C). split; [|split].
        -- destruct A as [A|[A1 A2]]; [inversion A; subst; right; split; [left; reflexivity|exact Px]
                                      | right; split; [right; exact A1 | exact A2]].
        -- intros q w E. discriminate E.
        -- intros w q [<-|Hin] Pw; [rewrite Px in Pw; inversion Pw; subst; exact (B q x eq_refl)
                                   | exact (C w q Hin Pw)].
    + apply IH in H. destruct H as (A & B & C). split; [|split].
      * destruct A as [A|[A1 A2]]; [left; exact A | right; split; [right; exact A1 | exact A2]].
      * exact B.
      * intros w q [<-|Hin] Pw; [rewrite Px in Pw; discriminate Pw | exact (C w q Hin Pw)].
Qed.

Lemma best_some (d : bytes) (m : M) : forall (reg : list view) cur,
  (cur <> None \/ exists v, In v reg /\ v_prio v d m <> None) -> best reg d m cur <> None.
Proof.
  induction reg as [|x reg IH]; intros cur H.
  - cbn. destruct H as [H|(v & [] & _)]. exact H.
  - cbn [best]. destruct (v_prio x d m) as [px|] eqn:Px.
    + destruct cur as [[q0 w0]|].
      * destruct (q0 <? px)%Z; apply IH; left; discriminate.
      * apply IH; left; discriminate.
    + apply IH. destruct H as [H|(v & [<-|Hin] & Hv)]; [left; exact H | congruence | right; exists v; auto].
Qed.

(* the first view among those of maximal priority wins: a later view replaces the current
   one only when strictly greater *)
Lemma best_first (d : bytes) (m : M) : forall (reg : list view) q w,
  (forall x px, In x reg -> v_prio x d m = Some px -> (px <= q)%Z) ->
  best reg d m (Some (q, w)) = Some (q, w).
Proof.
  induction reg as [|x reg IH]; intros q w H; [reflexivity|].
  cbn [best]. destruct (v_prio x d m) as [px|] eqn:Px.
  - assert (px <= q)%Z as L by (apply (H x px); [left; reflexivity | exact Px]).
    destruct (q <? px)%Z eqn:E; [apply Z.ltb_lt in E; lia|].
    apply IH. intros y py Hy. apply H. right. exact Hy.
  - apply IH. intros y py Hy. apply H. right. exact Hy.
Qed.

Lemma getitem_in : forall (reg : list view) item v,
  getitem reg item = Some v -> In v reg /\ text_eqb (v_key v) (lower_text item) = true.
Proof.
  induction reg as [|w reg IH]; intros item v H; [discriminate H|].
  cbn [getitem] in H. destruct (text_eqb (v_key w) (lower_text item)) eqn:E.
  - inversion H; subst. split; [left; reflexivity | exact E].
  - destruct (IH item v H) as [A B]. split; [right; exact A | exact B].
Qed.

(* ---------- get_view ---------- *)
(* automatic choice (or unknown explicit name): a registered view whose priority is defined
   and not below any other defined priority *)
Theorem get_view_auto_max (reg : list view) d m name v :
  (text_eqb name AUTO = true \/ getitem reg (lower_text name) = None) ->
  get_view reg d m name = Some v ->
  In v reg /\ exists p, v_prio v d m = Some p /\
    forall w q, In w reg -> v_prio w d m = Some q -> (q <= p)%Z.
Proof.
  intros Hn H. unfold get_view in H.
  assert (option_map snd (best reg d m None) = Some v) as H'.
  { destruct Hn as [Hn|Hn]; [rewrite Hn in H; exact H|].
    destruct (text_eqb name AUTO); [exact H | rewrite Hn in H; exact H]. }
  destruct (best reg d m None) as [[p v']|] eqn:B; [|discriminate H'].
  cbn in H'. inversion H'; subst v'. apply best_spec in B. destruct B as (A & _ & C).
  destruct A as [A|[A1 A2]]; [discriminate A|].
  split; [exact A1|]. exists p. split; [exact A2 | exact C].
Qed.

(* explicit choice of a registered name: exactly that view *)
Theorem get_view_explicit (reg : list view) d m name v :
  text_eqb name AUTO = false -> getitem reg (lower_text name) = Some v ->
  get_view reg d m name = Some v.
Proof. intros Hn Hg. unfold get_view. rewrite Hn, Hg. reflexivity. Qed.

Theorem get_view_defined (reg : list view) d m name :
  (exists v, In v reg /\ v_prio v d m <> None) -> get_view reg d m name <> None.
Proof.
  intro H. unfold get_view.
  destruct (if text_eqb name AUTO then None else getitem reg (lower_text name)); [discriminate|].
  pose proof (best_some d m reg None (or_intror H)) as B.
  destruct (best reg d m None); [discriminate | congruence].
Qed.

(* ---------- prettify_message ---------- *)
(* Totality: with a raw view that never fails on this input, and one view whose
   render_priority works, prettify_message returns a result: every failure of the chosen
   view is absorbed. *)
Theorem prettify_message_total c1 (rawv : view) (reg : list view) data enc m name :
  (forall d, data = Some d -> exists t, v_prettify rawv d m = inl t) ->
  (forall d, data = Some d -> exists v, In v reg /\ v_prio v d m <> None) ->
  exists r, prettify_message c1 rawv reg data enc m name = Some r.
Proof.
  intros Hraw Hprio. unfold prettify_message. destruct data as [d|]; [|eexists; reflexivity].
  pose proof (get_view_defined reg d m name (Hprio d eq_refl)) as G.
  destruct (get_view reg d m name) as [v|]; [|congruence].
  destruct (v_prettify v d m) as [t|err]; [eexists; reflexivity|].
  destruct (text_eqb name AUTO); [|eexists; reflexivity].
  destruct (Hraw d eq_refl) as (t & ->). eexists; reflexivity.
Qed.

(* The only ways out: no view has a working render_priority (AssertionError in get_view), or
   the chosen view and then the raw view both fail under automatic choice. *)
Theorem prettify_message_none_inv c1 (rawv : view) (reg : list view) d enc m name :
  prettify_message c1 rawv reg (Some d) enc m name = None ->
  (forall v, In v reg -> v_prio v d m = None)
  \/ (text_eqb name AUTO = true /\ exists e, v_prettify rawv d m = inr e).
Proof.
  unfold prettify_message. intro H.
  destruct (get_view reg d m name) as [v|] eqn:G.
  - right. destruct (v_prettify v d m) as [t|err]; [discriminate H|].
    destruct (text_eqb name AUTO); [|discriminate H]. split; [reflexivity|].
    destruct (v_prettify rawv d m) as [t|e]; [discriminate H | exists e; reflexivity].
  - left. intros v Hin. destruct (v_prio v d m) eqn:P; [|reflexivity]. exfalso.
    apply (get_view_defined reg d m name); [|exact G]. exists v. split; [exact Hin | congruence].
Qed.

(* Filter: whatever the views return, the text of the result has no C0 control or DEL other
   than TAB / LF / CR; and no C1 control either when the live filter replaces them. *)
Theorem prettify_message_filtered c1 (rawv : view) (reg : list view) data enc m name r :
  prettify_message c1 rawv reg data enc m name = Some r ->
  forall c, In c (r_text r) -> bad0 c = false /\ (c1 = true -> is_c1 c = false).
Proof.
  unfold prettify_message. intros H c Hc. destruct data as [d|].
  - destruct (get_view reg d m name) as [v|]; [|discriminate H].
    match type of H with
    | match ?X with Some _ => _ | None => _ end = _ => destruct X as [r0|]; [|discriminate H]
    end.
    inversion H; subst r. cbn [set_text r_text] in Hc. exact (ecc_clean c1 _ c Hc).
  - inversion H; subst r. cbn [r_text] in Hc. destruct (content_missing_clean c Hc) as [A B]. auto.
Qed.

(* what the result is, by case *)
Theorem prettify_message_ok c1 (rawv : view) (reg : list view) d enc m name v t :
  get_view reg d m name = Some v -> v_prettify v d m = inl t ->
  prettify_message c1 rawv reg (Some d) enc m name
  = Some (mkRes (ecc c1 t) (v_syntax v) (Some (v_name v)) enc).
Proof. intros G P. unfold prettify_message. rewrite G, P. reflexivity. Qed.

Theorem prettify_message_fallback c1 (rawv : view) (reg : list view) d enc m v err t :
  get_view reg d m AUTO = Some v -> v_prettify v d m = inr err -> v_prettify rawv d m = inl t ->
  prettify_message c1 rawv reg (Some d) enc m AUTO
  = Some (mkRes (ecc c1 t) (v_syntax rawv) (Some (v_name rawv))
                (enc ++ FAILED_PREFIX ++ v_name v ++ [93])).
Proof. intros G P R. unfold prettify_message. rewrite G, P, R. reflexivity. Qed.

Theorem prettify_message_error c1 (rawv : view) (reg : list view) d enc m name v err :
  text_eqb name AUTO = false ->
  get_view reg d m name = Some v -> v_prettify v d m = inr err ->
  prettify_message c1 rawv reg (Some d) enc m name
  = Some (mkRes (ecc c1 (COULDNT_PREFIX ++ v_name v ++ [58; 10] ++ err)) S_ERROR (Some (v_name v)) enc).
Proof. intros N G P. unfold prettify_message. rewrite G, P, N. reflexivity. Qed.

End Safe.

(* ---------- the C1 question ---------- *)
(* With the unchanged filter (c1 = false) the raw view lets U+009B (CSI) through. *)
Definition c1_body : bytes := [x61; xc2; x9b; x33; x31; x6d].
Lemma c1_passes :
  exists r, prettify_message false (raw_view (M:=unit) 1) [raw_view 1] (Some c1_body) [] tt AUTO = Some r
            /\ In 155 (r_text r) /\ is_c1 155 = true.
Proof. eexists. split; [vm_compute; reflexivity|]. split; [cbn; auto | reflexivity]. Qed.

(* ... and with a filter that replaces C1 controls it does not. *)
Lemma c1_replaced :
  exists r, prettify_message true (raw_view (M:=unit) 1) [raw_view 1] (Some c1_body) [] tt AUTO = Some r
            /\ r_text r = [97; 46; 51; 49; 109].
Proof. eexists. split; vm_compute; reflexivity. Qed.

(* non-trivial instance: a registry of three views; the best one fails; explicit choice shows
   the error, filtered (ESC in the exception text becomes a dot); automatic choice falls back. *)
Definition failing : view unit :=
  mkView (T [x4a; x53; x4f; x4e]) (T [x79; x61; x6d; x6c]) (fun _ _ => Some 5%Z) (fun _ _ => inr [27; 66; 111; 111; 109]).
Definition noprio : view unit :=
  mkView (T [x58]) S_NONE (fun _ _ => None) (fun _ _ => inl [1; 2; 3]).
Definition sample_reg : list (view unit) := register (register (register [] noprio) (raw_view 1)) failing.

Lemma sample_explicit :
  option_map r_text (prettify_message false (raw_view 1) sample_reg (Some [x41; x00; x09]) [] tt (T [x6a; x73; x6f; x6e]))
  = Some (COULDNT_PREFIX ++ T [x4a; x53; x4f; x4e] ++ [58; 10] ++ [46; 66; 111; 111; 109]).
Proof. vm_compute. reflexivity. Qed.

Lemma sample_auto :
  prettify_message false (raw_view 1) sample_reg (Some [x41; x00; x09]) [] tt AUTO
  = Some (mkRes [65; 46; 9] S_NONE (Some RAW_NAME) (FAILED_PREFIX ++ T [x4a; x53; x4f; x4e] ++ [93])).
Proof. vm_compute. reflexivity. Qed.

Lemma sample_total_hyps :
  (forall d, exists t, v_prettify (raw_view (M:=unit) 1) d tt = inl t)
  /\ (exists v, In v sample_reg /\ v_prio v [x41] tt <> None)
  /\ length sample_reg = 3%nat.
Proof.
  split; [intro d; eexists; reflexivity|]. split; [|reflexivity].
  exists (raw_view 1). split; [vm_compute; auto | discriminate].
Qed.
