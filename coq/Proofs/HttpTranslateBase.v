(* Proofs/HttpTranslateBase.v -- C06: per-byte facts, trimming, multidict operations, and what the
   hyper-h2 validation contract (h2_validate) gives for every field of an accepted header block. *)
From Coq Require Import List Bool NArith ZArith Lia.
From MV Require Import Base.Bytes Model.Http1Msg Model.Rfc9112 Model.HttpTranslate Proofs.Http1Lines Proofs.Http1Roundtrip.
Import ListNotations.

(* ---------- per-byte sweeps *)
Ltac sweep P := let b := fresh "b" in intros b; revert b; apply (forall_bytes P); vm_compute; reflexivity.

Lemma method_char_tchar : forall c, Bool.eqb (method_char c) (is_tchar c) = true.
Proof. sweep (fun c => Bool.eqb (method_char c) (is_tchar c)). Qed.

Lemma method_char_is_tchar c : method_char c = is_tchar c.
Proof. apply eqb_prop, method_char_tchar. Qed.

Lemma name_char_lower : forall c, implb (h2_name_char_ok c) (byte_eqb (to_lower c) c) = true.
Proof. sweep (fun c => implb (h2_name_char_ok c) (byte_eqb (to_lower c) c)). Qed.

Lemma bad_value_char_spec : forall c,
  Bool.eqb (is_bad_value_char c) (is_cr_or_nul c || byte_eqb rLF c) = true.
Proof. sweep (fun c => Bool.eqb (is_bad_value_char c) (is_cr_or_nul c || byte_eqb rLF c)). Qed.

Lemma sp_ht_ows c : is_sp_ht c = is_ows c.
Proof. reflexivity. Qed.

Lemma path_char_vchar : forall c, Bool.eqb (negb (bad_path_char c)) (is_vchar_obs c) = true.
Proof. sweep (fun c => Bool.eqb (negb (bad_path_char c)) (is_vchar_obs c)). Qed.

Lemma tchar_not_cr : forall c, implb (is_tchar c) (negb (byte_eqb c rCR)) = true.
Proof. sweep (fun c => implb (is_tchar c) (negb (byte_eqb c rCR))). Qed.

Lemma digit_facts : forall c, implb (is_digit c)
  (negb (is_ows c) && negb (byte_eqb c x2c) && negb (is_cr_or_nul c) && negb (byte_eqb rLF c)) = true.
Proof. sweep (fun c => implb (is_digit c) (negb (is_ows c) && negb (byte_eqb c x2c) && negb (is_cr_or_nul c) && negb (byte_eqb rLF c))). Qed.

(* ---------- names accepted by h2 are already lower case *)
Lemma h2_name_lower n : forallb h2_name_char_ok n = true -> lower n = n.
Proof.
  induction n as [|c n IH]; intros H; [reflexivity|].
  simpl in H. apply andb_true_iff in H as [Hc Hn].
  unfold lower in *. cbn [map]. rewrite (IH Hn).
  pose proof (name_char_lower c) as K. rewrite Hc in K. simpl in K. apply byte_eqb_eq in K. rewrite K. reflexivity.
Qed.

(* ---------- values accepted by h2: clean and without OWS at the ends *)
Lemma no_bad_clean v : existsb is_bad_value_char v = false -> clean v = true.
Proof.
  induction v as [|c v IH]; intros H; [reflexivity|].
  simpl in H. apply orb_false_iff in H as [Hc Hv]. specialize (IH Hv).
  pose proof (bad_value_char_spec c) as K. apply eqb_prop in K. rewrite Hc in K. symmetry in K.
  apply orb_false_iff in K as [K1 K2].
  unfold clean, no_lf in *. cbn [existsb]. rewrite K1, K2. simpl.
  apply andb_true_iff in IH as [I1 I2]. apply negb_true_iff in I1. apply negb_true_iff in I2. rewrite I1, I2. reflexivity.
Qed.

Lemma ltrim_id v : match v with [] => True | c :: _ => is_ows c = false end -> ltrim_ows v = v.
Proof. destruct v as [|c v]; intros H; [reflexivity|]. simpl. rewrite H. reflexivity. Qed.

Lemma rtrim_id v : forall d, v <> [] -> is_ows (last v d) = false -> rtrim_ows v = v.
Proof.
  induction v as [|c v IH]; intros d Hne Hl; [congruence|].
  destruct v as [|c2 v].
  - simpl in *. rewrite Hl. reflexivity.
  - assert (E : rtrim_ows (c2 :: v) = c2 :: v) by (apply (IH d); [discriminate | exact Hl]).
    change (rtrim_ows (c :: c2 :: v)) with
      (match rtrim_ows (c2 :: v) with [] => if is_ows c then [] else [c] | t => c :: t end).
    rewrite E. reflexivity.
Qed.

Definition vok (v : bytes) : Prop := clean v = true /\ trim_ows v = v.

Lemma h2_value_vok v : h2_value_ok v = true -> vok v.
Proof.
  unfold h2_value_ok, vok. destruct v as [|c0 v]; intros H; [split; reflexivity|].
  apply andb_true_iff in H as [H L]. apply andb_true_iff in H as [B F].
  apply negb_true_iff in B, F, L. split; [apply no_bad_clean; exact B|].
  unfold trim_ows. rewrite ltrim_id by exact F. apply (rtrim_id _ c0); [discriminate | exact L].
Qed.

(* ---------- filter / multidict facts *)
Lemma filter_filter_other (lk k : bytes) (h : headers) : k <> lk ->
  filter (name_ci k) (filter (fun g => negb (name_ci lk g)) h) = filter (name_ci k) h.
Proof.
  intros N. induction h as [|f h IH]; [reflexivity|]. cbn [filter].
  destruct (name_ci lk f) eqn:E; cbn [negb].
  - rewrite IH. unfold name_ci in *. apply bytes_eqb_eq in E.
    destruct (bytes_eqb (lower (fst f)) k) eqn:E2; [apply bytes_eqb_eq in E2; exfalso; apply N; rewrite <- E2; exact E | reflexivity].
  - cbn [filter]. rewrite IH. reflexivity.
Qed.

Lemma hset_go_other lk v k : k <> lk -> forall h r,
  hset_go lk v h = Some r -> filter (name_ci k) r = filter (name_ci k) h.
Proof.
  intros N. induction h as [|f h IH]; intros r H; [discriminate|]. cbn [hset_go] in H.
  destruct (name_ci lk f) eqn:E.
  - injection H as <-. cbn [filter]. rewrite (filter_filter_other lk k h N).
    unfold name_ci in *. cbn [fst]. apply bytes_eqb_eq in E.
    destruct (bytes_eqb (lower (fst f)) k) eqn:E2; [apply bytes_eqb_eq in E2; exfalso; apply N; rewrite <- E2; exact E | reflexivity].
  - destruct (hset_go lk v h) as [r'|] eqn:E2; [|discriminate]. injection H as <-.
    cbn [filter]. rewrite (IH r' eq_refl). reflexivity.
Qed.

Lemma hset_go_none lk v h : filter (name_ci lk) h = [] -> hset_go lk v h = None.
Proof.
  induction h as [|f h IH]; intros H; [reflexivity|]. cbn [filter hset_go] in *.
  destruct (name_ci lk f); [discriminate|]. rewrite (IH H). reflexivity.
Qed.

Lemma hset_go_some lk v h : filter (name_ci lk) h <> [] -> exists r, hset_go lk v h = Some r.
Proof.
  induction h as [|f h IH]; intros H; [cbn in H; congruence|]. cbn [filter hset_go] in *.
  destruct (name_ci lk f); [eexists; reflexivity|]. destruct (IH H) as [r ->]. eexists; reflexivity.
Qed.

(* every field of the result is an old field or an old field with the new value *)
Lemma hset_go_forall (Q : header -> Prop) lk v : forall h r,
  Forall Q h -> (forall f, In f h -> Q (fst f, v)) -> hset_go lk v h = Some r -> Forall Q r.
Proof.
  induction h as [|f h IH]; intros r F N H; [discriminate|]. cbn [hset_go] in H.
  inversion F as [|? ? Qf Fh]; subst.
  destruct (name_ci lk f).
  - injection H as <-. constructor; [apply N; left; reflexivity|].
    apply Forall_forall. intros g Hg. apply filter_In in Hg as [Hg _]. rewrite Forall_forall in Fh. auto.
  - destruct (hset_go lk v h) as [r'|] eqn:E; [|discriminate]. injection H as <-.
    constructor; [exact Qf|]. apply (IH r' Fh); [intros g Hg; apply N; right; exact Hg | reflexivity].
Qed.

Lemma get_all_filter key h : get_all key h = map snd (filter (name_ci (lower key)) h).
Proof. reflexivity. Qed.

Lemma hcontains_false key h : hcontains key h = false -> filter (name_ci (lower key)) h = [].
Proof.
  unfold hcontains. rewrite get_all_filter. destruct (filter (name_ci (lower key)) h); [reflexivity|discriminate].
Qed.

Lemma field_values_filter k (h : headers) : field_values k h = map snd (filter (name_ci k) h).
Proof. reflexivity. Qed.

(* ---------- split_pseudo_headers *)
Lemma split_pseudo_spec : forall h acc p f,
  split_pseudo_headers h acc = Some (p, f) ->
  exists q, p = acc ++ q /\ h = q ++ f /\ Forall (fun x => is_pseudo (fst x) = true) q
            /\ match f with [] => True | x :: _ => is_pseudo (fst x) = false end.
Proof.
  induction h as [|[n v] h IH]; intros acc p f H; cbn [split_pseudo_headers] in H.
  - injection H as <- <-. exists []. rewrite app_nil_r. repeat split; constructor.
  - destruct (is_pseudo n) eqn:P.
    + destruct (mem n (map fst acc)); [discriminate|].
      destruct (IH _ _ _ H) as (q & E1 & E2 & F & T).
      exists ((n, v) :: q). rewrite E1, <- app_assoc. split; [reflexivity|]. split; [rewrite E2; reflexivity|].
      split; [constructor; [exact P | exact F] | exact T].
    + injection H as <- <-. exists []. rewrite app_nil_r. repeat split; try constructor. exact P.
Qed.

Lemma assoc_exact_in k d v : assoc_exact k d = Some v -> In (k, v) d.
Proof.
  induction d as [|[n x] d IH]; intros H; [discriminate|]. cbn [assoc_exact] in H.
  destruct (bytes_eqb n k) eqn:E.
  - apply bytes_eqb_eq in E. subst. injection H as ->. left; reflexivity.
  - right. apply IH. exact H.
Qed.

Lemma dict_pop_in k d v d' : dict_pop k d = (Some v, d') -> In (k, v) d /\ incl d' d.
Proof.
  unfold dict_pop. intros H. injection H as H1 H2. split; [apply assoc_exact_in; exact H1|].
  subst d'. intros x Hx. apply filter_In in Hx as [Hx _]. exact Hx.
Qed.

(* ---------- digits *)
Lemma last_cons_indep {A} (s : list A) : forall c d d', last (c :: s) d = last (c :: s) d'.
Proof.
  induction s as [|x s IH]; intros c d d'; [reflexivity|].
  change (last (c :: x :: s) d) with (last (x :: s) d). change (last (c :: x :: s) d') with (last (x :: s) d'). apply IH.
Qed.

Lemma dec_value_digits v : forall acc, forallb is_digit v = true ->
  dec_value v acc = Some (fold_left (fun a c => (a * 10 + (bN c - 48))%N) v acc).
Proof.
  induction v as [|c v IH]; intros acc H; [reflexivity|].
  simpl in H. apply andb_true_iff in H as [Hc Hv]. cbn [dec_value fold_left]. rewrite Hc. apply IH. exact Hv.
Qed.

Lemma parse_dec_digits v : all_digits v = true -> parse_dec v = Some (digits_value v).
Proof.
  unfold all_digits, parse_dec, digits_value. destruct v as [|c v]; [discriminate|]. intros H. apply dec_value_digits. exact H.
Qed.

Lemma split_comma_nocomma v : forall cur, forallb is_digit v = true -> split_comma v cur = [rev cur ++ v].
Proof.
  induction v as [|c v IH]; intros cur H; cbn [split_comma].
  - rewrite app_nil_r. reflexivity.
  - simpl in H. apply andb_true_iff in H as [Hc Hv].
    pose proof (digit_facts c) as K. rewrite Hc in K. simpl in K.
    repeat (apply andb_true_iff in K as [K ?]).
    match goal with X : negb (byte_eqb c x2c) = true |- _ => apply negb_true_iff in X; rewrite X end.
    rewrite (IH (c :: cur) Hv). cbn [rev]. rewrite <- app_assoc. reflexivity.
Qed.

Lemma digits_vok v : all_digits v = true -> vok v /\ v <> [].
Proof.
  unfold all_digits. destruct v as [|c0 v]; [discriminate|]. intros H. split; [|discriminate].
  apply h2_value_vok. unfold h2_value_ok.
  assert (A : forall s, forallb is_digit s = true -> existsb is_bad_value_char s = false).
  { induction s as [|c s IH]; intros Hs; [reflexivity|]. simpl in Hs. apply andb_true_iff in Hs as [Hc Hs].
    cbn [existsb]. rewrite (IH Hs), orb_false_r.
    pose proof (digit_facts c) as K. rewrite Hc in K. simpl in K. repeat (apply andb_true_iff in K as [K ?]).
    pose proof (bad_value_char_spec c) as B. apply eqb_prop in B. rewrite B.
    repeat match goal with X : negb _ = true |- _ => apply negb_true_iff in X end.
    match goal with X : is_cr_or_nul c = false, Y : byte_eqb rLF c = false |- _ => rewrite X, Y end. reflexivity. }
  assert (L : forall s d, forallb is_digit (d :: s) = true -> is_sp_ht (last (d :: s) d) = false).
  { induction s as [|c s IH]; intros d Hs.
    - simpl in Hs. rewrite andb_true_r in Hs. pose proof (digit_facts d) as K. rewrite Hs in K. simpl in K.
      repeat (apply andb_true_iff in K as [K ?]). cbn [last]. rewrite sp_ht_ows. apply negb_true_iff. assumption.
    - cbn [forallb] in Hs. apply andb_true_iff in Hs as [_ Hs].
      change (last (d :: c :: s) d) with (last (c :: s) d).
      rewrite (last_cons_indep s c d c). apply IH. exact Hs. }
  rewrite (A _ H), (L v c0 H). cbn [negb andb].
  simpl in H. apply andb_true_iff in H as [Hc _]. pose proof (digit_facts c0) as K. rewrite Hc in K. simpl in K.
  repeat (apply andb_true_iff in K as [K ?]). rewrite sp_ht_ows, andb_true_r. assumption.
Qed.
