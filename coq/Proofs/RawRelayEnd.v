(* Proofs/RawRelayEnd.v -- T2b for Model.RawRelay: idle and not done implies some peer can still send. *)
From Coq Require Import List Bool Arith Lia.
From MV Require Import Base.Bytes Model.RawRelay Proofs.RawRelay.
Import ListNotations.

(* ---------- T2b: once both peers have stopped sending and the layer is idle, the flow has ended *)
Definition closed_of (Y : side) (e : event) : bool := match e with EClosed f => side_eqb f Y | _ => false end.
Definition I6 st (q : list event) (out : list cmd) : Prop :=
  crashed st = false ->
  (ph st = PStart -> wait st = NoWait -> q = [] /\ can_read (client st) = true /\ eof_s st = false /\
     (server_open (cf st) = true -> pr (cf st) = UDP -> can_read (server st) = true)) /\
  (ph st = PStart -> eof_c st = false) /\
  (ph st <> PDone -> eof_c st = true -> eof_s st = true -> False) /\
  (ph st <> PDone -> forall Y, can_read (conn_of st Y) = false ->
     eof_of st Y = true \/ existsb (closed_of Y) q = true \/
     (Y = Server /\ ph st = PStart /\ (server_open (cf st) = false \/ wait st = NoWait))).

Ltac fin6 :=
  simpl in *;
  repeat match goal with
  | H : negb _ = true |- _ => apply negb_true_iff in H
  | H : negb _ = false |- _ => apply negb_false_iff in H
  | H : _ || _ = false |- _ => apply orb_false_iff in H; destruct H
  | H : _ || _ = true |- _ => apply orb_true_iff in H; destruct H
  end; simpl in *; try congruence; try discriminate; auto.

Ltac split6 :=
  repeat match goal with
  | |- _ /\ _ => split
  | |- _ -> _ => intro
  | |- forall _, _ => intro
  end.
Ltac use6 HJ :=
  match goal with
  | Y : side |- _ \/ _ =>
      let HH := fresh in
      (assert (HH : can_read (conn_of _ Y) = false) by (simpl; fin6));
      destruct Y; simpl in *; fin6
  | _ => idtac
  end.

Lemma I6_handle st e q out st' o :
  wait_ph_ok st ->
  I6 st (e :: q) out -> waiting st = false -> crashed st = false -> handle st e = (st', o) -> I6 st' q (out ++ o).
Proof.
  intros Hp H Hw Hc Hh. unfold I6 in *. intros Hc'. specialize (H Hc). destruct H as (HL & HM & HK & HJ).
  unfold waiting in Hw. destruct (wait st) eqn:Ew; try discriminate. clear Hw.
  unfold handle in Hh.
  destruct (ph st) eqn:Eph.
  - destruct (HL eq_refl eq_refl) as (A & _). discriminate.
  - destruct e as [|f d|f|fc d|a err]; simpl in Hh.
    all: unfold_layer; unfold env_cmd, set_conn in *.
    all: split_run Hh; inversion Hh; subst; clear Hh; simpl in *; rewrite ?Ew in *; try discriminate.
    all: split6; try congruence; try discriminate; try (exfalso; apply HK; auto; congruence; fail).
    all: try match goal with
         | Y : side, H : can_read _ = false |- _ =>
             let D := fresh in
             (assert (D := HJ ltac:(discriminate) Y)); destruct Y; simpl in *; fin6;
             try (destruct (D H) as [D1|[D1|(D1 & D2 & _)]]; fin6; fail);
             try (destruct (D eq_refl) as [D1|[D1|(D1 & D2 & _)]]; fin6; fail)
         end.
  - destruct e as [|f d|f|fc d|a err]; simpl in Hh; inversion Hh; subst; clear Hh; simpl in *;
      split6; congruence.
Qed.

Ltac j6 HJ :=
  try match goal with
  | Y : side, H : can_read _ = false |- _ =>
      let D := fresh in
      (assert (D := HJ ltac:(first [discriminate | congruence]) Y)); destruct Y; simpl in *; fin6;
      try (destruct (D H) as [D1|[D1|(D1 & D2 & [D3|D3])]]; fin6; fail);
      try (destruct (D eq_refl) as [D1|[D1|(D1 & D2 & [D3|D3])]]; fin6; fail)
  end.

Lemma I6_resume st q out a err st' o :
  wait_ph_ok st ->
  I6 st q out -> waiting st = true -> crashed st = false -> resume st a err = (st', o) -> I6 st' q (out ++ o).
Proof.
  intros Hp H _ Hc Hr. unfold resume in Hr.
  destruct (wait st) eqn:Ew; [inversion Hr; subst; exact H|..].
  all: unfold I6 in *; intros Hc'; specialize (H Hc); destruct H as (HL & HM & HK & HJ); unfold wait_ph_ok in Hp; rewrite Ew in Hp.
  all: unfold_layer; unfold env_cmd, set_conn, connected_state in *.
  all: split_run Hr; inversion Hr; subst; clear Hr; simpl in *; rewrite ?Ew, ?Hp in *; try discriminate.
  all: split6; try congruence; try discriminate; try (apply HM; auto; fail);
       try (exfalso; apply HK; auto; congruence; fail).
  all: j6 HJ.
  all: try (intuition congruence).
Qed.

Lemma I6_enqueue st q out e :
  not_reply e -> waiting st = true -> crashed st = false -> I6 st q out -> I6 (env_arrive st e) (q ++ [e]) out.
Proof.
  intros He Hw Hc H. unfold I6 in *. rewrite crashed_env_arrive. intros Hc'. specialize (H Hc).
  destruct H as (HL & HM & HK & HJ). unfold waiting in Hw.
  destruct e as [|f d|f|fc d|a err]; try contradiction; simpl env_arrive.
  1,2,4: (split6; try (destruct (wait st); discriminate); auto;
          match goal with
          | Y : side, H : can_read _ = false |- _ =>
              destruct (HJ ltac:(assumption) Y H) as [D|[D|D]]; [left; exact D | right; left; rewrite existsb_app, D; reflexivity | right; right; exact D]
          end).
  destruct (pr (cf st)), f; simpl; split6; try (destruct (wait st); discriminate); auto;
    try (apply HM; auto; fail); try (apply (HK ltac:(assumption)); auto; fail);
    match goal with
    | Y : side, H : can_read _ = false |- _ =>
        destruct Y; simpl in *;
        try (right; left; rewrite existsb_app; simpl; rewrite orb_true_r; reflexivity);
        try (destruct (HJ ltac:(assumption) Server H) as [D|[D|D]]; [left; exact D | right; left; rewrite existsb_app, D; reflexivity | right; right; exact D]);
        try (destruct (HJ ltac:(assumption) Client H) as [D|[D|D]]; [left; exact D | right; left; rewrite existsb_app, D; reflexivity | right; right; exact D])
    end.
Qed.

Lemma I6_direct st e out st' o :
  not_reply e -> I6 st [] out -> waiting st = false -> crashed st = false ->
  handle (env_arrive st e) e = (st', o) -> I6 st' [] (out ++ o).
Proof.
  intros He H Hw Hc Hh. unfold I6 in *. intros Hc'. specialize (H Hc). destruct H as (HL & HM & HK & HJ).
  unfold waiting in Hw. destruct (wait st) eqn:Ew; try discriminate. clear Hw.
  unfold handle in Hh.
  destruct e as [|f d|f|fc d|a err]; try contradiction; simpl env_arrive in Hh.
  4: { (* EInject *)
    destruct (ph st) eqn:Eph; simpl in Hh; unfold_layer; split_run Hh; inversion Hh; subst; clear Hh;
      simpl in *; rewrite ?Ew in *; try discriminate; split6; try congruence; try discriminate;
      try (apply HM; auto; fail); try (exfalso; apply HK; auto; congruence; fail); j6 HJ; try (intuition congruence). }
  2: { (* EData *)
    destruct (ph st) eqn:Eph; simpl in Hh; unfold_layer; split_run Hh; inversion Hh; subst; clear Hh;
      simpl in *; rewrite ?Ew in *; try discriminate; split6; try congruence; try discriminate;
      try (apply HM; auto; fail); try (exfalso; apply HK; auto; congruence; fail); j6 HJ; try (intuition congruence). }
  - (* EStart *)
    destruct (ph st) eqn:Eph; simpl in Hh; try (inversion Hh; subst; simpl in *; congruence).
    destruct (HL eq_refl eq_refl) as (_ & L1 & L2 & L3). specialize (HM eq_refl).
    unfold_layer; unfold env_cmd, set_conn, connected_state in *.
    split_run Hh; inversion Hh; subst; clear Hh; simpl in *; rewrite ?Ew in *; try discriminate.
    all: split6; try congruence; try discriminate.
    all: j6 HJ.
    all: try (intuition congruence).
  - (* EClosed *)
    destruct (ph st) eqn:Eph.
    + assert (E : ph (env_arrive st (EClosed f)) = PStart) by (simpl; destruct (pr (cf st)), f; exact Eph).
      simpl env_arrive in E. rewrite E in Hh. inversion Hh; subst. simpl in Hc'.
      destruct (pr (cf st)), f; simpl in Hc'; discriminate.
    + assert (E : ph (env_arrive st (EClosed f)) = PRelay) by (simpl; destruct (pr (cf st)), f; exact Eph).
      simpl env_arrive in E. rewrite E in Hh.
      unfold_layer; unfold env_cmd, set_conn in *.
      destruct (pr (cf st)) eqn:Epr, f; simpl in Hh; rewrite ?Epr in Hh; simpl in Hh;
        split_run Hh; inversion Hh; subst; clear Hh; simpl in *; rewrite ?Ew in *; try discriminate;
        split6; try congruence; try discriminate; try (exfalso; apply HK; auto; congruence; fail);
        j6 HJ; try (intuition congruence).
    + assert (E : ph (env_arrive st (EClosed f)) = PDone) by (simpl; destruct (pr (cf st)), f; exact Eph).
      simpl env_arrive in E. rewrite E in Hh. inversion Hh; subst.
      split6; destruct (pr (cf st)), f; simpl in *; congruence.
Qed.

Definition I26 st q out : Prop := I2 st q out /\ I6 st q out.

Lemma both_closed_ends pol c evs :
  let '(st, out) := run pol (init c) evs in
  crashed st = false -> wait st = NoWait -> ph st <> PDone ->
  can_read (client st) || can_read (server st) = true.
Proof.
  destruct (run pol (init c) evs) as [st out] eqn:H.
  assert (H0 : Inv I26 (init c) []).
  { split; [|reflexivity]. split.
    - split; [exact Logic.I|]. unfold ended, has_flow. simpl. rewrite andb_false_r. reflexivity.
    - unfold I6. simpl. intros _. split6; auto; try discriminate.
      + unfold connected_state. destruct (server_open c); [|discriminate]. rewrite H3. reflexivity.
      + destruct Y; simpl in *; [discriminate|]. right; right. auto. }
  assert (HR : Inv I26 st ([] ++ out)).
  { refine (I_run pol Gtrue I26 _ _ _ _ (fun _ _ _ _ h => h) evs _ _ _ _ (guarded_true pol evs _) H0 H).
    - intros s e q ou s' o' [A B] Hw Hc Hh. split; [eapply I2_handle | eapply I6_handle]; eauto. apply A.
    - intros s e ou s' o' _ He [A B] Hw Hc Hh. split; [|eapply I6_direct; eauto].
      eapply I2_handle; [apply (I2_arrive s [] ou e He Hc A) | rewrite waiting_env_arrive; exact Hw
                        | rewrite crashed_env_arrive; exact Hc | exact Hh].
    - intros s q ou e _ He Hw Hc [A B]. split; [apply I2_arrive | apply I6_enqueue]; auto.
    - intros s q ou a a0 err s' o' _ [A B] Hw Hc Hr. split; [eapply I2_resume | eapply I6_resume]; eauto. apply A. }
  destruct HR as [[_ HI] HS].
  intros Hc Hw Hp. unfold I6 in HI.
  assert (Hq : queue st = []) by (apply HS; [unfold waiting; rewrite Hw; reflexivity | exact Hc]).
  rewrite Hq in HI. destruct (HI Hc) as (HL & HM & HK & HJ).
  destruct (can_read (client st)) eqn:E1; [reflexivity|].
  destruct (can_read (server st)) eqn:E2; [reflexivity|]. exfalso.
  destruct (HJ Hp Client E1) as [A|[A|(A & _)]]; simpl in A; try discriminate.
  destruct (HJ Hp Server E2) as [B|[B|(_ & B & _)]]; simpl in B; try discriminate.
  - exact (HK Hp A B).
  - rewrite (HM B) in A. discriminate.
Qed.
