(* Proofs/QuicDemuxMain.v -- the C30 theorems restated purely in terms of the model. *)
From Coq Require Import NArith Arith List Bool Lia.
From MV Require Import Base.Bytes Model.QuicIdsPrelude Gen.QuicIds Model.QuicDemux
  Proofs.QuicIds Proofs.QuicDemuxCore Proofs.QuicDemuxInv Proofs.QuicDemuxRun Proofs.QuicDemuxWrite
  Proofs.QuicDemuxLocal Proofs.QuicAlloc.
Import ListNotations.
Open Scope N_scope.

(* o is a stream command for stream `id` of the QUIC connection on side `to` *)
Definition targets (o : out) (to : side) (id : N) : Prop :=
  match o with
  | OSend _ s i _ _ | OReset _ s i _ | OStop _ s i _ => s = to /\ i = id
  | _ => False
  end.
Definition ids_of {C} (s : side) (st : state C) := match s with Cl => client_ids st | Sv => server_ids st end.

Section Main.
Variable C : Type.
Variable child_step : C -> connst * connst -> cevent -> C * list ccmd.
Variable new_child : nat -> C.
Notation run := (run C child_step new_child).
Notation step := (step C child_step new_child).

Lemma hasA_iff (st : state C) L s id :
  hasA (idl C st) L s id <-> exists l, nth_error (layers st) L = Some l /\ stream_id l s = Some id.
Proof.
  unfold hasA, idl. rewrite nth_error_map. split.
  - intros (p & Hp & Hk). destruct (nth_error (layers st) L) as [l|]; cbn in Hp; [|discriminate].
    inversion Hp; subst p. exists l. split; auto; try (rewrite <- (pid_ids C); auto).
  - intros (l & Hl & Hk). rewrite Hl. cbn. eexists; split; [reflexivity|]. try (rewrite (pid_ids C)); auto.
Qed.

Theorem pairing evs : let st := run evs in
  (forall k L, dict_get k (client_ids st) = Some L <-> exists l, nth_error (layers st) L = Some l /\ cid l = k) /\
  (forall k L, dict_get k (server_ids st) = Some L <-> exists l, nth_error (layers st) L = Some l /\ sid l = Some k) /\
  (forall L l s, nth_error (layers st) L = Some l -> sid l = Some s ->
     stream_is_unidirectional s = stream_is_unidirectional (cid l) /\
     stream_is_client_initiated s = stream_is_client_initiated (cid l)) /\
  (forall L1 L2 l1 l2, nth_error (layers st) L1 = Some l1 -> nth_error (layers st) L2 = Some l2 ->
     cid l1 = cid l2 \/ (exists s, sid l1 = Some s /\ sid l2 = Some s) -> L1 = L2).
Proof.
  cbn. destruct (Inv_run C child_step new_child evs) as [HA _]. set (st := run evs) in *.
  assert (Hc : forall k L, dict_get k (client_ids st) = Some L <-> exists l, nth_error (layers st) L = Some l /\ cid l = k).
  { intros k L. rewrite (inv_cmap _ _ _ _ _ HA), hasA_iff. split; intros (l & A & B); exists l; split; auto; cbn in *; congruence. }
  assert (Hs : forall k L, dict_get k (server_ids st) = Some L <-> exists l, nth_error (layers st) L = Some l /\ sid l = Some k).
  { intros k L. rewrite (inv_smap _ _ _ _ _ HA), hasA_iff. reflexivity. }
  split; [exact Hc|]. split; [exact Hs|]. split.
  - intros L l s Hl Hsid. apply nth_idl in Hl. unfold ids in Hl. rewrite Hsid in Hl.
    pose proof (inv_class _ _ _ _ _ HA L _ _ Hl) as Hm. destruct (same_class_same_bits _ _ Hm); auto.
  - intros L1 L2 l1 l2 H1 H2 [E|(s & E1 & E2)].
    + assert (A : dict_get (cid l1) (client_ids st) = Some L1) by (apply Hc; eauto).
      assert (B : dict_get (cid l1) (client_ids st) = Some L2) by (apply Hc; eauto).
      congruence.
    + assert (A : dict_get s (server_ids st) = Some L1) by (apply Hs; eauto).
      assert (B : dict_get s (server_ids st) = Some L2) by (apply Hs; eauto).
      congruence.
Qed.

Theorem commands_target_registered_ids evs : let st := run evs in
  forall o to id, In o (outs st) -> targets o to id ->
  exists L l, nth_error (layers st) L = Some l /\ stream_id l to = Some id /\ dict_get id (ids_of to st) = Some L.
Proof.
  cbn. intros o to id Hin Ht. destruct (Inv_run C child_step new_child evs) as [HA _]. set (st := run evs) in *.
  pose proof (inv_outs _ _ _ _ _ HA) as Hf. rewrite Forall_forall in Hf. specialize (Hf o Hin).
  assert (Hh : exists L, hasA (idl C st) L to id).
  { destruct o; cbn in Ht; try contradiction; destruct Ht as [-> ->]; eexists; exact Hf. }
  destruct Hh as (L & Hh). pose proof Hh as Hh2. apply hasA_iff in Hh. destruct Hh as (l & Hl & Hk).
  exists L, l. split; auto. split; auto.
  destruct to; [apply (inv_cmap _ _ _ _ _ HA) | apply (inv_smap _ _ _ _ _ HA)]; auto.
Qed.

Theorem signals_reach_only_paired_stream evs from id k :
  let st := run evs in let st' := step st (SStream from id k) in
  exists new, outs st' = new ++ outs st /\
    forall o to id', In o new -> targets o to id' ->
      exists L l, nth_error (layers st') L = Some l /\ stream_id l from = Some id /\ stream_id l to = Some id'.
Proof.
  cbn. pose proof (Inv_run C child_step new_child evs) as HI. set (st := run evs) in *.
  assert (Hnil : exists new, outs st = new ++ outs st /\ forall o to id', In o new -> targets o to id' ->
            exists L l, nth_error (layers st) L = Some l /\ stream_id l from = Some id /\ stream_id l to = Some id').
  { exists []. split; auto. intros o to id' []. }
  unfold QuicDemux.step. destruct (err st); [exact Hnil|]. destruct (done st); [exact Hnil|].
  destruct (stream_event_local C child_step new_child st from id k HI) as (new & E & Hloc).
  pose proof (Inv_handle_stream C child_step new_child from id k st HI) as [HA' _].
  set (st' := handle_stream C child_step new_child from id k st) in *.
  exists new. split; auto. intros o to id' Hin Ht.
  destruct (Hloc o Hin) as (L & Hg & Hh).
  pose proof (inv_outs _ _ _ _ _ HA') as Hf. rewrite Forall_forall in Hf.
  assert (Hin' : In o (outs st')) by (rewrite E; apply in_or_app; auto). specialize (Hf o Hin').
  assert (Hh2 : hasA (idl C st') L to id').
  { destruct o; cbn in Ht, Hg; try contradiction; destruct Ht as [-> ->]; subst; exact Hf. }
  apply hasA_iff in Hh. apply hasA_iff in Hh2.
  destruct Hh as (l & Hl & Hk). destruct Hh2 as (l2 & Hl2 & Hk2).
  rewrite Hl in Hl2. inversion Hl2; subst l2. eauto.
Qed.

End Main.

(* ------------------------------------------------------------ concrete witnesses *)
Definition tcp_run := run tcpst tcp_step (fun _ => TStart).

Lemma stop_sending_fails :
  exists evs, err (tcp_run evs) = Some UnexpectedStreamEvent /\
              err (tcp_run (removelast evs)) = None /\
              outs (tcp_run evs) = outs (tcp_run (removelast evs)).
Proof.
  exists [SStream Cl 0 (KData [x61] false); SStream Cl 0 (KStop 5)]. vm_compute. auto.
Qed.

Definition demo_evs : list sevent :=
  [SStream Cl 0 (KData [x61] true); SStream Sv 3 (KData [x62] false); SStream Cl 4 (KData [x63] false);
   SStream Cl 4 (KReset 7); SStream Sv 0 (KData [x64] false); SStream Cl 0 (KData [x65] false)].

Lemma demo_run :
  err (tcp_run demo_evs) = None /\
  rev (outs (tcp_run demo_evs)) =
    [OSend 0 Sv 0 [x61] false; OSend 0 Sv 0 [] true; OSend 1 Cl 3 [x62] false; OSend 2 Sv 4 [x63] false;
     OReset 2 Sv 4 7; OSend 0 Cl 0 [x64] false] /\
  client_ids (tcp_run demo_evs) = [(0, 0%nat); (3, 1%nat); (4, 2%nat)] /\
  server_ids (tcp_run demo_evs) = [(0, 0%nat); (3, 1%nat); (4, 2%nat)].
Proof. vm_compute. auto. Qed.
