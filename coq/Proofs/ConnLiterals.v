(* Proofs/ConnLiterals.v -- every value the TLS stacks report passes the typed-field check of the
   connection state with the domains as spelled in connection.py (Gen/ConnectionLiterals.v). *)
From Coq Require Import List Bool.
From MV Require Import Base.Bytes Model.ConnLiterals Gen.ConnectionLiterals.
Import ListNotations.

Lemma forallb_In {A} (f : A -> bool) l : forallb f l = true -> forall x, In x l -> f x = true.
Proof. intros H x Hx. rewrite forallb_forall in H. auto. Qed.

Theorem reported_tls_versions_accepted :
  forall v, In v reported_tls_versions -> opt_literal_ok tls_version_src (Some v) = true.
Proof. apply (forallb_In (fun v => opt_literal_ok tls_version_src (Some v))). vm_compute. reflexivity. Qed.

Theorem reported_transports_accepted :
  forall v, In v reported_transports -> literal_ok transport_protocol_src v = true.
Proof. apply (forallb_In (literal_ok transport_protocol_src)). vm_compute. reflexivity. Qed.

(* the source domains are exactly the pinned ones: any drift of the annotation is a broken proof *)
Theorem typed_domains_pinned :
  tls_version_src = reported_tls_versions /\ transport_protocol_src = reported_transports.
Proof. split; vm_compute; reflexivity. Qed.
