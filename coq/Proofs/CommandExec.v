(* Proofs/CommandExec.v -- command lines built from well-formed atoms separated by lexer
   whitespace: the lexer returns exactly the atoms and separators, execute hands the unquoted
   atoms to call_strings, and the character-level specification spec_words agrees. *)
From Coq Require Import List Bool Arith NArith Lia.
From MV Require Import Base.Bytes Model.Command Proofs.CommandLex.
Import ListNotations.
Open Scope N_scope.
Arguments in_chars : simpl never.
Arguments is_uspace : simpl never.

(* ---------- atoms ---------- *)
Inductive atom :=
| Plain (w : str)                 (* a bare word *)
| Quoted (q : char) (body : str). (* q body q *)

Definition atom_text (a : atom) : str :=
  match a with Plain w => w | Quoted q b => q :: b ++ [q] end.
Definition atom_value (a : atom) : str :=
  match a with Plain w => w | Quoted _ b => b end.
Definition atom_ok (a : atom) : bool :=
  match a with
  | Plain w => nonempty w && no_special w && negb (isspace w)
  | Quoted q b => is_quote q && negb (in_chars q b)
  end.
Definition sep_ok (w : str) : bool := nonempty w && all_ws w.
Definition item_ok (it : str * atom) : bool := sep_ok (fst it) && atom_ok (snd it).

Definition tail_text (rest : list (str * atom)) (trail : str) : str :=
  flat_map (fun it => fst it ++ atom_text (snd it)) rest ++ trail.
Definition line_text (lead : str) (a0 : atom) (rest : list (str * atom)) (trail : str) : str :=
  lead ++ atom_text a0 ++ tail_text rest trail.

Definition no_tab (s : str) : bool := negb (in_chars c_tab s).
Definition nonsp (t : str) : bool := negb (isspace t).

(* ---------- character facts ---------- *)
Lemma in_chars_cons c x l : in_chars c (x :: l) = (c =? x) || in_chars c l.
Proof. reflexivity. Qed.

Lemma ws_uspace c : in_chars c WS = true -> is_uspace c = true.
Proof.
  rewrite in_chars_In. unfold WS. simpl.
  intros [H | [H | [H | [H | []]]]]; subst; reflexivity.
Qed.

Lemma ws_isspace w : nonempty w = true -> all_ws w = true -> isspace w = true.
Proof.
  destruct w as [|c w]; [discriminate|]. intros _ H. unfold isspace.
  apply forallb_forall. intros x Hx. unfold all_ws in H. rewrite forallb_forall in H.
  apply ws_uspace, H, Hx.
Qed.

Lemma quote_not_uspace q : is_quote q = true -> is_uspace q = false.
Proof. intros H. destruct (is_quote_cases q H); subst; reflexivity. Qed.

Lemma atom_text_nonsp a : atom_ok a = true -> nonsp (atom_text a) = true.
Proof.
  destruct a as [w | q b]; simpl; intros H.
  - apply andb_true_iff in H as [_ H]. exact H.
  - apply andb_true_iff in H as [Hq _]. unfold nonsp, isspace. simpl.
    rewrite (quote_not_uspace q Hq). reflexivity.
Qed.

(* first character of an atom is not lexer whitespace; of a separator it is *)
Lemma atom_stops_ws a r : atom_ok a = true -> stops p_ws (atom_text a ++ r) = true.
Proof.
  destruct a as [w | q b]; simpl; intros H.
  - apply andb_true_iff in H as [H _]. apply andb_true_iff in H as [Hn Hs].
    destruct w as [|c w]; [discriminate|]. unfold no_special in Hs. cbn [forallb] in Hs.
    apply andb_true_iff in Hs as [Hc _]. apply negb_true_iff in Hc. cbn [app stops].
    unfold p_ws. destruct (in_chars c WS) eqn:E; [|reflexivity].
    apply ws_special in E. rewrite E in Hc. discriminate.
  - apply andb_true_iff in H as [Hq _]. unfold p_ws. unfold is_quote in Hq.
    rewrite (quote_not_ws q Hq). reflexivity.
Qed.

Definition starts_ws (s : str) : bool :=
  match s with [] => true | c :: _ => in_chars c WS end.

Lemma starts_ws_stops_plain s : starts_ws s = true -> stops p_plain s = true.
Proof.
  destruct s as [|c s]; [reflexivity|]. simpl. intros H. unfold p_plain.
  rewrite (ws_special c H). reflexivity.
Qed.

Lemma sep_starts_ws w r : sep_ok w = true -> starts_ws (w ++ r) = true.
Proof.
  unfold sep_ok. intros H. apply andb_true_iff in H as [Hn Hw].
  destruct w as [|c w]; [discriminate|]. simpl in *. apply andb_true_iff in Hw. tauto.
Qed.

Lemma tail_starts_ws rest trail :
  forallb item_ok rest = true -> all_ws trail = true -> starts_ws (tail_text rest trail) = true.
Proof.
  unfold tail_text. destruct rest as [|[sep a] rest]; simpl; intros Hr Ht.
  - destruct trail as [|c t]; [reflexivity|]. simpl in *. apply andb_true_iff in Ht. tauto.
  - apply andb_true_iff in Hr as [Hi _]. unfold item_ok in Hi. simpl in Hi.
    apply andb_true_iff in Hi as [Hs _]. rewrite <- !app_assoc. apply sep_starts_ws, Hs.
Qed.

(* ---------- the lexer on one atom ---------- *)
Lemma mf_atom a r :
  atom_ok a = true -> starts_ws r = true ->
  match_first (atom_text a ++ r) = Some (atom_text a, r).
Proof.
  destruct a as [w | q b]; simpl; intros H Hr.
  - apply andb_true_iff in H as [H _]. apply andb_true_iff in H as [Hn Hs].
    apply mf_plain; auto using starts_ws_stops_plain.
  - apply andb_true_iff in H as [Hq Hb]. apply negb_true_iff in Hb.
    rewrite <- app_assoc. simpl. apply mf_quoted_closed; assumption.
Qed.

Lemma lex_tail rest : forall trail,
  forallb item_ok rest = true -> all_ws trail = true ->
  exists ts, lex (tail_text rest trail) = LexOk ts
             /\ filter nonsp ts = map (fun it => atom_text (snd it)) rest.
Proof.
  induction rest as [|[sep a] rest IH]; intros trail Hr Ht.
  - unfold tail_text. simpl. destruct trail as [|c t].
    + exists []. split; reflexivity.
    + exists [c :: t]. split.
      * rewrite (lex_cons (c :: t) (c :: t) []).
        -- reflexivity.
        -- rewrite <- (app_nil_r (c :: t)) at 1. apply mf_ws; auto.
      * simpl. unfold nonsp. rewrite (ws_isspace (c :: t)) by auto. reflexivity.
  - simpl in Hr. apply andb_true_iff in Hr as [Hi Hr]. unfold item_ok in Hi. simpl in Hi.
    apply andb_true_iff in Hi as [Hs Ha].
    destruct (IH trail Hr Ht) as [ts [H1 H2]].
    pose proof (tail_starts_ws rest trail Hr Ht) as Hst.
    assert (E : tail_text ((sep, a) :: rest) trail = sep ++ atom_text a ++ tail_text rest trail).
    { unfold tail_text. simpl. rewrite <- !app_assoc. reflexivity. }
    rewrite E. exists (sep :: atom_text a :: ts). split.
    + unfold sep_ok in Hs. apply andb_true_iff in Hs as [Hn Hw].
      rewrite (lex_cons _ sep (atom_text a ++ tail_text rest trail))
        by (apply mf_ws; auto using atom_stops_ws).
      rewrite (lex_cons _ (atom_text a) (tail_text rest trail)) by (apply mf_atom; assumption).
      rewrite H1. reflexivity.
    + unfold sep_ok in Hs. apply andb_true_iff in Hs as [Hn Hw].
      simpl. unfold nonsp at 1. rewrite (ws_isspace sep Hn Hw). simpl.
      rewrite (atom_text_nonsp a Ha). rewrite H2. reflexivity.
Qed.

Lemma lex_line lead a0 rest trail :
  all_ws lead = true -> atom_ok a0 = true -> forallb item_ok rest = true -> all_ws trail = true ->
  exists ts, lex (line_text lead a0 rest trail) = LexOk ts
             /\ ts <> []
             /\ filter nonsp ts = atom_text a0 :: map (fun it => atom_text (snd it)) rest.
Proof.
  intros Hl Ha Hr Ht. destruct (lex_tail rest trail Hr Ht) as [ts [H1 H2]].
  pose proof (tail_starts_ws rest trail Hr Ht) as Hst.
  assert (L0 : lex (atom_text a0 ++ tail_text rest trail) = LexOk (atom_text a0 :: ts)).
  { rewrite (lex_cons _ (atom_text a0) (tail_text rest trail)) by (apply mf_atom; assumption).
    rewrite H1. reflexivity. }
  unfold line_text. destruct lead as [|c l].
  - exists (atom_text a0 :: ts). simpl app. split; [exact L0|]. split; [discriminate|].
    simpl. rewrite (atom_text_nonsp a0 Ha), H2. reflexivity.
  - exists ((c :: l) :: atom_text a0 :: ts). split; [|split; [discriminate|]].
    + rewrite (lex_cons _ (c :: l) (atom_text a0 ++ tail_text rest trail))
        by (apply mf_ws; auto using atom_stops_ws).
      rewrite L0. reflexivity.
    + simpl. unfold nonsp at 1. rewrite (ws_isspace (c :: l)) by auto. simpl.
      rewrite (atom_text_nonsp a0 Ha), H2. reflexivity.
Qed.

(* ---------- unquote on atoms ---------- *)
Lemma unquote_atom a : atom_ok a = true -> unquote (atom_text a) = atom_value a.
Proof.
  destruct a as [w | q b]; simpl; intros H.
  - apply andb_true_iff in H as [H _]. apply andb_true_iff in H as [_ Hs].
    destruct w as [|c [|d w]]; try reflexivity. simpl in Hs. apply andb_true_iff in Hs as [Hc _].
    unfold unquote. destruct (in_chars c QUOTES) eqn:E; [|reflexivity].
    apply quote_special in E. rewrite E in Hc. discriminate.
  - apply andb_true_iff in H as [Hq _]. unfold unquote.
    destruct (b ++ [q]) as [|d r] eqn:E; [destruct b; discriminate|]. rewrite <- E.
    unfold is_quote in Hq. rewrite Hq, last_last, N.eqb_refl, removelast_last. reflexivity.
Qed.

(* ---------- parse_partial / execute_call on a parsed line ---------- *)
Lemma nonspace_values_filter ts :
  nonspace_values (map (fun part => (part, isspace part)) ts) = filter nonsp ts.
Proof.
  unfold nonspace_values. induction ts as [|t ts IH]; [reflexivity|].
  simpl. unfold nonsp at 1. destruct (isspace t); simpl; rewrite IH; reflexivity.
Qed.

Lemma execute_call_lexed kt s ts :
  parse_string kt s = LexOk ts -> ts <> [] ->
  execute_call kt s = match map unquote (filter nonsp ts) with
                      | [] => CallUnpackError
                      | n :: a => CallStrings n a
                      end.
Proof.
  intros H Hne. unfold execute_call, parse_partial. rewrite H.
  rewrite nonspace_values_filter. destruct ts; [contradiction | reflexivity].
Qed.

(* ---------- expandtabs is the identity without tabs ---------- *)
Lemma expandtabs_no_tab s : forall col, no_tab s = true -> expandtabs_go col s = s.
Proof.
  induction s as [|c s IH]; intros col H; [reflexivity|].
  unfold no_tab in *. rewrite in_chars_cons, negb_orb in H. apply andb_true_iff in H as [Hc Hs].
  apply negb_true_iff in Hc. rewrite N.eqb_sym in Hc. cbn [expandtabs_go]. rewrite Hc.
  destruct ((c =? c_lf) || (c =? c_cr)); rewrite IH by exact Hs; reflexivity.
Qed.

Lemma parse_string_no_tab kt s : kt = true \/ no_tab s = true -> parse_string kt s = lex s.
Proof.
  unfold parse_string. intros [-> | H]; [reflexivity|]. destruct kt; [reflexivity|].
  unfold expandtabs. rewrite expandtabs_no_tab by exact H. reflexivity.
Qed.

(* ---------- the generative theorem for execute ---------- *)
Lemma execute_call_line kt lead a0 rest trail :
  all_ws lead = true -> atom_ok a0 = true -> forallb item_ok rest = true -> all_ws trail = true ->
  kt = true \/ no_tab (line_text lead a0 rest trail) = true ->
  exists parts,
    parse_partial kt (line_text lead a0 rest trail) = PPOk parts
    /\ nonspace_values parts = atom_text a0 :: map (fun it => atom_text (snd it)) rest
    /\ execute_call kt (line_text lead a0 rest trail)
       = CallStrings (atom_value a0) (map (fun it => atom_value (snd it)) rest).
Proof.
  intros Hl Ha Hr Ht Hk.
  destruct (lex_line lead a0 rest trail Hl Ha Hr Ht) as [ts [H1 [Hne H2]]].
  assert (P : parse_string kt (line_text lead a0 rest trail) = LexOk ts)
    by (rewrite parse_string_no_tab by exact Hk; exact H1).
  exists (map (fun part => (part, isspace part)) ts). split; [|split].
  - unfold parse_partial. rewrite P. reflexivity.
  - rewrite nonspace_values_filter. exact H2.
  - rewrite (execute_call_lexed kt _ ts P Hne), H2. simpl.
    rewrite (unquote_atom a0 Ha). f_equal.
    clear -Hr. induction rest as [|[sep a] rest IH]; [reflexivity|].
    simpl in *. apply andb_true_iff in Hr as [Hi Hr]. unfold item_ok in Hi. simpl in Hi.
    apply andb_true_iff in Hi as [_ Ha]. rewrite (unquote_atom a Ha), (IH Hr). reflexivity.
Qed.

(* ---------- the character-level specification on the same lines ---------- *)
Definition pushall (w : str) (cur : option str) : option str :=
  fold_left (fun cur c => push c cur) w cur.

Lemma pushall_some w : forall x, pushall w (Some x) = Some (rev w ++ x).
Proof.
  induction w as [|c w IH]; intros x; [reflexivity|].
  unfold pushall in *. simpl. rewrite IH. simpl. rewrite <- app_assoc. reflexivity.
Qed.

Lemma pushall_cons c w : pushall (c :: w) None = Some (rev (c :: w)).
Proof. unfold pushall. simpl. fold (pushall w (Some [c])). rewrite pushall_some. reflexivity. Qed.

Lemma spec_plain_run w : forall cur rest,
  no_special w = true -> spec_go None cur (w ++ rest) = spec_go None (pushall w cur) rest.
Proof.
  induction w as [|c w IH]; intros cur rest H; [reflexivity|].
  simpl in H. apply andb_true_iff in H as [Hc Hw]. apply negb_true_iff in Hc.
  simpl app. cbn [spec_go].
  assert (in_chars c WS = false) as ->.
  { destruct (in_chars c WS) eqn:E; [|reflexivity]. apply ws_special in E. congruence. }
  assert (in_chars c QUOTES = false) as ->.
  { destruct (in_chars c QUOTES) eqn:E; [|reflexivity]. apply quote_special in E. congruence. }
  rewrite IH by exact Hw. reflexivity.
Qed.

Lemma spec_quoted_body q b : forall cur rest,
  in_chars q b = false ->
  spec_go (Some q) cur (b ++ q :: rest) = spec_go None (push q (pushall b cur)) rest.
Proof.
  induction b as [|c b IH]; intros cur rest H.
  - simpl. rewrite N.eqb_refl. reflexivity.
  - unfold in_chars in H. simpl in H. apply orb_false_iff in H as [Hc Hb].
    simpl app. cbn [spec_go]. rewrite N.eqb_sym, Hc. rewrite IH by exact Hb. reflexivity.
Qed.

Lemma spec_atom a rest :
  atom_ok a = true ->
  spec_go None None (atom_text a ++ rest) = spec_go None (Some (rev (atom_text a))) rest.
Proof.
  destruct a as [w | q b]; simpl; intros H.
  - apply andb_true_iff in H as [H _]. apply andb_true_iff in H as [Hn Hs].
    rewrite spec_plain_run by exact Hs. destruct w as [|c w]; [discriminate|].
    rewrite pushall_cons. reflexivity.
  - apply andb_true_iff in H as [Hq Hb]. apply negb_true_iff in Hb.
    unfold is_quote in Hq. rewrite (quote_not_ws q Hq), Hq.
    rewrite <- app_assoc. simpl app. rewrite spec_quoted_body by exact Hb.
    rewrite pushall_some. simpl. rewrite rev_app_distr. reflexivity.
Qed.

Lemma spec_flush_tail cur tail :
  starts_ws tail = true -> spec_go None (Some cur) tail = rev cur :: spec_words tail.
Proof.
  destruct tail as [|c r]; simpl; intros H; [reflexivity|].
  unfold spec_words. simpl. rewrite H. reflexivity.
Qed.

Lemma spec_ws_run w : forall rest, all_ws w = true -> spec_go None None (w ++ rest) = spec_go None None rest.
Proof.
  induction w as [|c w IH]; intros rest H; [reflexivity|].
  simpl in H. apply andb_true_iff in H as [Hc Hw]. simpl. rewrite Hc. simpl. apply IH, Hw.
Qed.

Lemma spec_tail rest : forall trail,
  forallb item_ok rest = true -> all_ws trail = true ->
  spec_words (tail_text rest trail) = map (fun it => atom_text (snd it)) rest.
Proof.
  induction rest as [|[sep a] rest IH]; intros trail Hr Ht.
  - unfold tail_text, spec_words. simpl. rewrite <- (app_nil_r trail).
    rewrite spec_ws_run by exact Ht. reflexivity.
  - simpl in Hr. apply andb_true_iff in Hr as [Hi Hr]. unfold item_ok in Hi. simpl in Hi.
    apply andb_true_iff in Hi as [Hs Ha]. unfold sep_ok in Hs. apply andb_true_iff in Hs as [_ Hw].
    assert (E : tail_text ((sep, a) :: rest) trail = sep ++ atom_text a ++ tail_text rest trail).
    { unfold tail_text. simpl. rewrite <- !app_assoc. reflexivity. }
    rewrite E. unfold spec_words. rewrite spec_ws_run by exact Hw.
    rewrite spec_atom by exact Ha.
    rewrite spec_flush_tail by (apply tail_starts_ws; assumption).
    rewrite rev_involutive, IH by assumption. reflexivity.
Qed.

Lemma spec_line lead a0 rest trail :
  all_ws lead = true -> atom_ok a0 = true -> forallb item_ok rest = true -> all_ws trail = true ->
  spec_words (line_text lead a0 rest trail)
  = atom_text a0 :: map (fun it => atom_text (snd it)) rest.
Proof.
  intros Hl Ha Hr Ht. unfold line_text, spec_words. rewrite spec_ws_run by exact Hl.
  rewrite spec_atom by exact Ha.
  rewrite spec_flush_tail by (apply tail_starts_ws; assumption).
  rewrite rev_involutive, spec_tail by assumption. reflexivity.
Qed.
