(* Proofs/HeadersRefine.v -- the line-by-line model of _MultiDict/Headers (Model/Headers.v)
   refines the abstract ordered multimap (Model/MultimapSpec.v): every operation returns the
   result of the specification and commutes with the abstraction, hence so does every history. *)
From Coq Require Import List Bool NArith ZArith Lia.
From MV Require Import Base.Bytes Model.Headers Model.MultimapSpec.
Import ListNotations.

Lemma bytes_eqb_sym a b : bytes_eqb a b = bytes_eqb b a.
Proof.
  destruct (bytes_eqb a b) eqn:E1, (bytes_eqb b a) eqn:E2; try reflexivity.
  - apply bytes_eqb_eq in E1. subst. rewrite bytes_eqb_refl in E2. discriminate.
  - apply bytes_eqb_eq in E2. subst. rewrite bytes_eqb_refl in E1. discriminate.
Qed.

Lemma filter_map_comm {A B} (g : A -> B) (P : B -> bool) l :
  filter P (map g l) = map g (filter (fun x => P (g x)) l).
Proof.
  induction l as [|x l IH]; simpl; [reflexivity|].
  destruct (P (g x)); simpl; rewrite IH; reflexivity.
Qed.

Lemma existsb_filter {A} (P : A -> bool) l :
  existsb P l = match filter P l with [] => false | _ :: _ => true end.
Proof.
  induction l as [|x l IH]; simpl; [reflexivity|].
  destruct (P x); simpl; [reflexivity | exact IH].
Qed.

Lemma unabs_abs fs : unabs (abs fs) = fs.
Proof.
  unfold unabs, abs. rewrite map_map. rewrite <- (map_id fs) at 2.
  apply map_ext. intros [k v]. reflexivity.
Qed.

Lemma abs_inj a b : abs a = abs b -> a = b.
Proof. intros H. rewrite <- (unabs_abs a), <- (unabs_abs b), H. reflexivity. Qed.

Lemma abs_app a b : abs (a ++ b) = abs a ++ abs b.
Proof. apply map_app. Qed.

Lemma abs_length fs : length (abs fs) = length fs.
Proof. apply map_length. Qed.

(* ---------------------------------------------------------------- lookups *)
Lemma filter_abs c fs :
  filter (s_match bytes_eqb c) (abs fs) = abs (filter (fun f => bytes_eqb (_kconv (fst f)) c) fs).
Proof. unfold abs. rewrite filter_map_comm. reflexivity. Qed.

Lemma get_all_refines fs k : get_all fs k = s_get_all bytes_eqb (abs fs) (lower k).
Proof.
  unfold get_all, s_get_all, _kconv. rewrite filter_abs. unfold abs. rewrite map_map.
  apply map_ext. intros [a b]. reflexivity.
Qed.

Lemma contains_get_all (m : list hentry) (c : bytes) :
  s_contains bytes_eqb m c = match s_get_all bytes_eqb m c with [] => false | _ :: _ => true end.
Proof.
  unfold s_contains, s_get_all. rewrite existsb_filter.
  destruct (filter (s_match bytes_eqb c) m); reflexivity.
Qed.

Lemma getitem_refines fs k :
  getitem fs k = s_getitem bytes_eqb _reduce_values (abs fs) (lower k).
Proof.
  unfold getitem, s_getitem. rewrite contains_get_all, <- get_all_refines.
  destruct (get_all fs k); reflexivity.
Qed.

Lemma contains_refines fs k : contains fs k = s_contains bytes_eqb (abs fs) (lower k).
Proof.
  unfold contains. rewrite getitem_refines. unfold s_getitem.
  destruct (s_contains bytes_eqb (abs fs) (lower k)); reflexivity.
Qed.

Lemma others_abs c fs :
  s_others bytes_eqb c (abs fs) = abs (filter (fun f => negb (bytes_eqb c (_kconv (fst f)))) fs).
Proof.
  unfold s_others, abs. rewrite filter_map_comm. f_equal.
  apply filter_ext. intros [a b]. unfold s_match, e_canon, _kconv. simpl.
  rewrite bytes_eqb_sym. reflexivity.
Qed.

Lemma delitem_refines fs k :
  option_map abs (delitem fs k) = s_delitem bytes_eqb (abs fs) (lower k).
Proof.
  unfold delitem, s_delitem. rewrite contains_refines.
  destruct (s_contains bytes_eqb (abs fs) (lower k)); simpl; [|reflexivity].
  rewrite others_abs. reflexivity.
Qed.

(* ---------------------------------------------------------------- set_all *)
Lemma set_all_loop_refines c fs : forall vs acc,
  abs (fst (set_all_loop c fs vs acc)) = abs acc ++ s_replace bytes_eqb c vs (abs fs)
  /\ snd (set_all_loop c fs vs acc) = skipn (s_count bytes_eqb (abs fs) c) vs.
Proof.
  induction fs as [|[k v] fs IH]; intros vs acc; simpl.
  - rewrite app_nil_r. split; reflexivity.
  - unfold s_count, s_match, e_canon, _kconv in *. simpl.
    destruct (bytes_eqb (lower k) c) eqn:E; simpl.
    + destruct vs as [|v0 vs].
      * destruct (IH [] acc) as [H1 H2]. split; [exact H1|].
        rewrite H2, skipn_nil. reflexivity.
      * destruct (IH vs (acc ++ [(k, v0)])) as [H1 H2]. split; [|exact H2].
        etransitivity; [exact H1|]. rewrite abs_app, <- app_assoc. reflexivity.
    + destruct (IH vs (acc ++ [(k, v)])) as [H1 H2]. split; [|exact H2].
      etransitivity; [exact H1|]. rewrite abs_app, <- app_assoc. reflexivity.
Qed.

Lemma set_all_rest_eq k vs : forall acc,
  set_all_rest k vs acc = acc ++ map (fun v => (k, v)) vs.
Proof.
  induction vs as [|v vs IH]; intros acc; simpl.
  - rewrite app_nil_r. reflexivity.
  - rewrite IH, <- app_assoc. reflexivity.
Qed.

Lemma set_all_refines fs k vs :
  abs (set_all fs k vs) = s_set_all lower bytes_eqb (abs fs) k vs.
Proof.
  unfold set_all, s_set_all, _kconv.
  destruct (set_all_loop_refines (lower k) fs vs []) as [H1 H2].
  destruct (set_all_loop (lower k) fs vs []) as [nf rest]. simpl in H1, H2.
  rewrite set_all_rest_eq, abs_app, H1, H2. f_equal.
  unfold abs. rewrite map_map. reflexivity.
Qed.

(* ---------------------------------------------------------------- insert / add *)
Lemma slice_index_pos i n : slice_index i n = s_pos i n.
Proof.
  unfold slice_index, s_pos. cbv zeta.
  destruct (Z.ltb_spec i 0) as [A|A]; cbv iota.
  - destruct (Z.ltb_spec (i + Z.of_nat n) 0) as [B|B]; cbv iota.
    + destruct (Z.ltb_spec (Z.of_nat n) 0); lia.
    + destruct (Z.ltb_spec (Z.of_nat n) (i + Z.of_nat n)); lia.
  - destruct (Z.ltb_spec i 0) as [B|B]; cbv iota; [lia|].
    destruct (Z.ltb_spec (Z.of_nat n) i); lia.
Qed.

Lemma insert_refines fs i k v :
  abs (insert fs i k v) = s_insert lower (abs fs) i k v.
Proof.
  unfold insert, s_insert. rewrite abs_length, slice_index_pos.
  rewrite !abs_app. unfold abs. rewrite firstn_map, skipn_map. reflexivity.
Qed.

Lemma slice_index_len n : slice_index (Z.of_nat n) n = n.
Proof. rewrite slice_index_pos. unfold s_pos. destruct (Z.ltb_spec (Z.of_nat n) 0); lia. Qed.

Lemma add_eq fs k v : add fs k v = fs ++ [(k, v)].
Proof.
  unfold add, insert. rewrite slice_index_len, firstn_all, skipn_all. rewrite app_nil_r. reflexivity.
Qed.

Lemma add_refines fs k v : abs (add fs k v) = s_add lower (abs fs) k v.
Proof. rewrite add_eq, abs_app. reflexivity. Qed.

(* ---------------------------------------------------------------- iteration / length *)
Lemma iter_loop_refines fs : forall seen (pre : list hentry),
  (forall c, mem c seen = existsb (s_match bytes_eqb c) pre) ->
  iter_loop fs seen = map e_spelled (s_firsts bytes_eqb pre (abs fs)).
Proof.
  induction fs as [|[k v] fs IH]; intros seen pre Hinv; simpl; [reflexivity|].
  unfold e_canon at 1. simpl. unfold _kconv. rewrite <- Hinv.
  assert (Hnext : forall seen',
            (forall c, mem c seen' = bytes_eqb (lower k) c || mem c seen) ->
            forall c, mem c seen' = existsb (s_match bytes_eqb c) ((lower k, k, v) :: pre)).
  { intros seen' H c. rewrite H. simpl. unfold s_match at 1, e_canon. simpl. rewrite Hinv. reflexivity. }
  destruct (mem (lower k) seen) eqn:E; simpl.
  - apply IH. apply Hnext. intros c.
    destruct (bytes_eqb (lower k) c) eqn:E2; [|reflexivity].
    apply bytes_eqb_eq in E2. subst c. exact E.
  - unfold e_spelled at 1. simpl. f_equal. apply IH. apply Hnext. intros c. simpl.
    rewrite bytes_eqb_sym. reflexivity.
Qed.

Lemma iter_refines fs : iter fs = s_iter bytes_eqb (abs fs).
Proof. unfold iter, s_iter. apply iter_loop_refines. intros c. reflexivity. Qed.

Lemma set_of_length fs : forall acc seen,
  (forall c, mem c acc = mem c seen) ->
  length (set_of (map (fun f => _kconv (fst f)) fs) acc) = length acc + length (iter_loop fs seen).
Proof.
  induction fs as [|[k v] fs IH]; intros acc seen Hinv; simpl; [lia|].
  rewrite Hinv. destruct (mem (_kconv k) seen) eqn:E; simpl.
  - apply IH. exact Hinv.
  - rewrite (IH (_kconv k :: acc) (_kconv k :: seen)); [simpl; lia|].
    intros c. simpl. rewrite Hinv. reflexivity.
Qed.

Lemma len_iter fs : len fs = N.of_nat (length (iter fs)).
Proof. unfold len, iter. rewrite (set_of_length fs [] []); [reflexivity|]. intros c; reflexivity. Qed.

Lemma len_refines fs : len fs = s_len bytes_eqb (abs fs).
Proof. unfold s_len. rewrite len_iter, iter_refines. reflexivity. Qed.

Lemma eq_refines a b : eq a b = s_eq (abs a) (abs b).
Proof. unfold eq, s_eq. rewrite !unabs_abs. reflexivity. Qed.

(* ---------------------------------------------------------------- steps and histories *)
Lemma sreg_abs st t : sreg (abs_state st) t = abs (reg st t).
Proof. destruct st, t; reflexivity. Qed.

Lemma set_sreg_abs st t fs : set_sreg (abs_state st) t (abs fs) = abs_state (set_reg st t fs).
Proof. destruct st, t; reflexivity. Qed.

Lemma step_refines st o :
  s_step (abs_state st) o = (fst (step st o), abs_state (snd (step st o))).
Proof.
  destruct o; simpl; rewrite ?sreg_abs.
  - rewrite <- getitem_refines. reflexivity.
  - rewrite <- contains_refines. reflexivity.
  - unfold setitem. rewrite <- set_all_refines, set_sreg_abs. reflexivity.
  - rewrite <- delitem_refines. destruct (delitem (reg st t) key); simpl; [|reflexivity].
    rewrite set_sreg_abs. reflexivity.
  - rewrite <- get_all_refines. reflexivity.
  - rewrite <- set_all_refines, set_sreg_abs. reflexivity.
  - rewrite <- add_refines, set_sreg_abs. reflexivity.
  - rewrite <- insert_refines, set_sreg_abs. reflexivity.
  - rewrite <- iter_refines. reflexivity.
  - rewrite <- len_refines. reflexivity.
  - destruct st as [a b]. simpl. rewrite <- eq_refines. reflexivity.
  - unfold copy. rewrite set_sreg_abs. reflexivity.
Qed.

(* every history: same observations (results and fields tuples), related final states *)
Theorem run_refines : forall ops st,
  s_run (abs_state st) ops = (fst (run_ops st ops), abs_state (snd (run_ops st ops))).
Proof.
  induction ops as [|o ops IH]; intros st; simpl; [reflexivity|].
  rewrite step_refines. destruct (step st o) as [r st'] eqn:E. simpl.
  rewrite IH. destruct (run_ops st' ops) as [obs st''] eqn:E2. simpl.
  rewrite sreg_abs, unabs_abs. reflexivity.
Qed.
