(* Proofs/StrutilsC51.v — C51 statements about the literal pipeline model. *)
From Coq Require Import List Bool NArith.
From MV Require Import Base.Bytes Model.Strutils Proofs.StrutilsDecode Proofs.StrutilsPipeline.
Import ListNotations.

Lemma roundtrip data ks eq :
  escaped_str_to_bytes (bytes_to_escaped_str data ks eq) = Some data.
Proof. unfold escaped_str_to_bytes. rewrite pipeline_is_direct. apply decode_direct. Qed.

Lemma no_control data ks eq :
  forall c, In c (bytes_to_escaped_str data ks eq) ->
    is_cc (bN c) = false \/ (ks = true /\ is_spacing (bN c) = true).
Proof.
  intros c Hin. rewrite pipeline_is_direct in Hin.
  pose proof (direct_no_cc ks eq data) as H. rewrite forallb_forall in H.
  specialize (H c Hin). unfold char_ok in H.
  apply orb_true_iff in H as [H|H].
  - left. apply negb_true_iff in H. exact H.
  - right. apply andb_true_iff in H. exact H.
Qed.

(* non-vacuity: a concrete string exercising quotes, backslash parity, spacing, high bytes *)
Definition sample : bytes := [x5c; x27; x5c; x5c; x6e; x0a; x09; x00; xff; x22; x41].
Lemma sample_roundtrips :
  escaped_str_to_bytes (bytes_to_escaped_str sample true false) = Some sample
  /\ bytes_to_escaped_str sample true false <> sample.
Proof. split; [vm_compute; reflexivity | vm_compute; discriminate]. Qed.
