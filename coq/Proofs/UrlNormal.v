(* Proofs/UrlNormal.v -- for EVERY accepted URL the path and port that url.parse returns are already
   normal: parsing the URL that is read back returns them unchanged. *)
From Coq Require Import List Bool Arith NArith ZArith Lia.
From MV Require Import Base.Bytes Model.Url Proofs.UrlLemmas Proofs.UrlDec Proofs.UrlParse Proofs.UrlRequest.
Import ListNotations.

Definition join_params (pp params : bytes) : bytes := if is_nil params then pp else pp ++ cSEMI :: params.
Definition qpart (q : bytes) : bytes := if is_nil q then [] else cQM :: q.
Definition fpart (f : bytes) : bytes := if is_nil f then [] else cHASH :: f.
Definition SPJ (x : bytes) : bytes := let '(pp, params) := split_params_of s_http x in join_params pp params.
Definition slash (x : bytes) : bytes := if starts_with [cSLASH] x then x else cSLASH :: x.

Lemma unparse_path_eq pp params q f :
  unparse_path pp params q f = join_params pp params ++ qpart q ++ fpart f.
Proof.
  unfold unparse_path, join_params, qpart, fpart.
  destruct (is_nil params), (is_nil q), (is_nil f); rewrite ?app_nil_r, <- ?app_assoc; reflexivity.
Qed.

Lemma forallb_app_l {A} (P : A -> bool) a b : forallb P (a ++ b) = true -> forallb P a = true.
Proof. rewrite forallb_app. intros H. apply andb_true_iff in H. tauto. Qed.
Lemma forallb_app_r {A} (P : A -> bool) a b : forallb P (a ++ b) = true -> forallb P b = true.
Proof. rewrite forallb_app. intros H. apply andb_true_iff in H. tauto. Qed.
Lemma forallb_tl {A} (P : A -> bool) x l : forallb P (x :: l) = true -> forallb P l = true.
Proof. simpl. intros H. apply andb_true_iff in H. tauto. Qed.
Lemma mem_app_false c a b : mem c (a ++ b) = false -> mem c a = false /\ mem c b = false.
Proof. rewrite mem_app. apply orb_false_iff. Qed.

(* a path whose last segment has no semicolon is returned whole by the params split *)
Lemma SPJ_plain a s1 : mem cSLASH s1 = false -> mem cSEMI s1 = false -> SPJ (a ++ cSLASH :: s1) = a ++ cSLASH :: s1.
Proof.
  intros NS NM. unfold SPJ, split_params_of. change (in_list s_http uses_params) with true. cbn [andb].
  destruct (mem cSEMI (a ++ cSLASH :: s1)) eqn:M; [|reflexivity].
  unfold splitparams.
  assert (mem cSLASH (a ++ cSLASH :: s1) = true) as MS
    by (rewrite mem_app, mem_cons, byte_eqb_refl, orb_true_r; reflexivity).
  rewrite MS, (rpartition_app _ _ _ NS), (partition_notin _ _ NM). reflexivity.
Qed.

(* the params split either gives the text back or only drops a final semicolon of the last segment *)
Lemma SPJ_cases x : mem cSLASH x = true ->
  SPJ x = x \/ exists a s1, x = (a ++ cSLASH :: s1) ++ [cSEMI] /\ mem cSLASH s1 = false
                            /\ mem cSEMI s1 = false /\ SPJ x = a ++ cSLASH :: s1.
Proof.
  intros MS. unfold SPJ, split_params_of. change (in_list s_http uses_params) with true. cbn [andb].
  destruct (mem cSEMI x) eqn:M; [|left; reflexivity].
  unfold splitparams. rewrite MS.
  destruct (rpartition cSLASH x) as [[a fl] seg] eqn:RP.
  destruct (rpartition_spec _ _ _ _ _ RP) as [NS E]. destruct fl.
  2:{ destruct E as [-> _]. congruence. }
  destruct (partition cSEMI seg) as [[s1 found] params] eqn:PP.
  destruct (partition_spec _ _ _ _ _ PP) as [NM E2]. destruct found; [|left; reflexivity].
  subst seg. destruct (mem_app_false _ _ _ NS) as [NS1 _].
  unfold join_params. destruct params as [|c params]; cbn [is_nil].
  - right. exists a, s1. subst x. rewrite <- app_assoc. auto.
  - left. subst x. rewrite <- app_assoc. reflexivity.
Qed.

Lemma SPJ_props x : starts_with [cSLASH] x = true ->
  SPJ (SPJ x) = SPJ x /\ starts_with [cSLASH] (SPJ x) = true
  /\ (forall P : byte -> bool, forallb P x = true -> forallb P (SPJ x) = true)
  /\ (forall c, mem c x = false -> mem c (SPJ x) = false).
Proof.
  intros ST. destruct (starts_slash _ ST) as [t Ex].
  assert (mem cSLASH x = true) as MS by (subst x; reflexivity).
  destruct (SPJ_cases x MS) as [E | (a & s1 & Ex2 & NS & NM & E)].
  - rewrite !E. auto.
  - rewrite E. split; [apply SPJ_plain; assumption|]. split.
    + destruct a as [|a0 a']; [reflexivity|]. rewrite Ex2 in Ex. inversion Ex. subst. reflexivity.
    + split.
      * intros P H. rewrite Ex2 in H. apply (forallb_app_l _ _ _ H).
      * intros c H. rewrite Ex2 in H. apply (mem_app_false _ _ _ H).
Qed.

Lemma mem_qpart c q : c <> cQM -> mem c q = false -> mem c (qpart q) = false.
Proof.
  intros NE H. unfold qpart. destruct (is_nil q); [reflexivity|]. rewrite mem_cons, H, orb_false_r.
  apply byte_eqb_neq. exact NE.
Qed.

(* re-parsing a normal path *)
Lemma reparse_build Y q f :
  starts_with [cSLASH] Y = true -> mem cHASH Y = false -> mem cQM Y = false -> mem cHASH q = false ->
  SPJ Y = Y ->
  reparse_path (Y ++ qpart q ++ fpart f) = Y ++ qpart q ++ fpart f.
Proof.
  intros ST NH NQ NHq ID. unfold reparse_path, split_fq.
  assert (mem cHASH (Y ++ qpart q) = false) as NH2.
  { rewrite mem_app, NH, (mem_qpart cHASH q) by (discriminate || exact NHq). reflexivity. }
  assert (partition cHASH (Y ++ qpart q ++ fpart f) = (Y ++ qpart q, negb (is_nil f), f)) as P1.
  { unfold fpart. destruct f as [|c f]; cbn [is_nil negb].
    - rewrite app_nil_r. apply partition_notin. exact NH2.
    - rewrite app_assoc. apply partition_app. exact NH2. }
  rewrite P1.
  assert (partition cQM (Y ++ qpart q) = (Y, negb (is_nil q), q)) as P2.
  { unfold qpart. destruct q as [|c q]; cbn [is_nil negb].
    - rewrite app_nil_r. apply partition_notin. exact NQ.
    - apply partition_app. exact NQ. }
  rewrite P2. unfold SPJ in ID. destruct (split_params_of s_http Y) as [pp params].
  rewrite unparse_path_eq, ID.
  destruct (starts_slash _ ST) as [t ->]. reflexivity.
Qed.

(* the path url.parse returns is a fixpoint of re-parsing *)
Lemma parsed_path_normal p1 q f :
  p1 = [] \/ starts_with [cSLASH] p1 = true ->
  mem cHASH p1 = false -> mem cQM p1 = false -> mem cHASH q = false ->
  let '(pp, params) := split_params_of s_http p1 in
  let pa := slash (unparse_path pp params q f) in
  reparse_path pa = pa /\ starts_with [cSLASH] pa = true
  /\ (forall P : byte -> bool, P cSLASH = true -> P cQM = true -> P cHASH = true ->
        forallb P p1 = true -> forallb P q = true -> forallb P f = true -> forallb P pa = true).
Proof.
  intros SH NH NQ NHq.
  destruct (split_params_of s_http p1) as [pp params] eqn:SP. cbv zeta.
  rewrite unparse_path_eq.
  assert (join_params pp params = SPJ p1) as EJ by (unfold SPJ; rewrite SP; reflexivity).
  rewrite EJ.
  assert (forall P : byte -> bool, P cQM = true -> P cHASH = true -> forallb P q = true -> forallb P f = true ->
          forallb P (qpart q ++ fpart f) = true) as QF.
  { intros P Pq Ph Fq Ff. unfold qpart, fpart. rewrite forallb_app.
    destruct (is_nil q), (is_nil f); simpl; rewrite ?Pq, ?Ph, ?Fq, ?Ff; reflexivity. }
  destruct SH as [-> | ST].
  - change (SPJ []) with (@nil byte). cbn [app].
    assert (slash (qpart q ++ fpart f) = [cSLASH] ++ qpart q ++ fpart f) as ES.
    { unfold slash, qpart, fpart. destruct (is_nil q), (is_nil f); reflexivity. }
    rewrite ES. split; [apply reparse_build; reflexivity || assumption|]. split; [reflexivity|].
    intros P Ps Pq Ph _ Fq Ff. cbn [app forallb]. rewrite Ps. apply QF; assumption.
  - destruct (SPJ_props p1 ST) as (ID & ST2 & FP & MP).
    assert (slash (SPJ p1 ++ qpart q ++ fpart f) = SPJ p1 ++ qpart q ++ fpart f) as ES.
    { unfold slash. destruct (starts_slash _ ST2) as [t ->]. reflexivity. }
    rewrite ES. split; [apply reparse_build; auto|]. split.
    + destruct (starts_slash _ ST2) as [t ->]. reflexivity.
    + intros P Ps Pq Ph Fp Fq Ff. rewrite forallb_app, (FP P Fp). apply QF; assumption.
Qed.

(* ---------- inversion of the splitter ---------- *)
Lemma lstrip_forallb (P : byte -> bool) s : forallb P s = true -> forallb P (lstrip_c0 s) = true.
Proof.
  induction s as [|x s IH]; simpl; intros H; [reflexivity|].
  destruct (c0_or_space x); [apply andb_true_iff in H; apply IH; tauto | exact H].
Qed.

Lemma split_scheme_forallb (P : byte -> bool) u s url :
  forallb P u = true -> split_scheme u = (s, url) -> forallb P url = true.
Proof.
  intros H. unfold split_scheme. destruct (partition cCOLON u) as [[pre found] post] eqn:PP.
  destruct (partition_spec _ _ _ _ _ PP) as [_ E].
  destruct pre as [|c pre']; [intros X; inversion X; subst; exact H|].
  destruct (found && is_alpha c && forallb scheme_char (c :: pre')) eqn:C; intros X; inversion X; subst; [|exact H].
  destruct found; [|discriminate]. rewrite E in H. apply forallb_app_r in H. simpl in H.
  apply andb_true_iff in H. tauto.
Qed.

Lemma skipn_forallb {A} (P : A -> bool) n l : forallb P l = true -> forallb P (skipn n l) = true.
Proof.
  revert l. induction n as [|n IH]; intros l H; [exact H|]. destruct l as [|x l]; [reflexivity|].
  simpl in *. apply andb_true_iff in H. apply IH. tauto.
Qed.

Lemma urlsplit_inv u s nl p1 q f :
  all_ascii u = true -> urlsplit u = Some (s, nl, p1, q, f) -> nl <> [] ->
  (p1 = [] \/ starts_with [cSLASH] p1 = true)
  /\ mem cHASH p1 = false /\ mem cQM p1 = false /\ mem cHASH q = false
  /\ forallb path_char p1 = true /\ forallb path_char q = true /\ forallb path_char f = true.
Proof.
  intros AA. unfold urlsplit.
  assert (forallb path_char (remove_unsafe (lstrip_c0 u)) = true) as PC.
  { unfold path_char. apply forallb_forall. intros b Hb. unfold remove_unsafe in Hb.
    apply filter_In in Hb as [Hb1 Hb2]. rewrite Hb2, andb_true_r.
    pose proof (lstrip_forallb is_ascii u AA) as L. rewrite forallb_forall in L. apply L. exact Hb1. }
  destruct (split_scheme (remove_unsafe (lstrip_c0 u))) as [s' url] eqn:SS.
  pose proof (split_scheme_forallb _ _ _ _ PC SS) as PU.
  unfold urlsplit_rest. destruct (starts_with [cSLASH; cSLASH] url).
  2:{ destruct (split_fq url) as [[? ?] ?]. intros H; inversion H; subst. congruence. }
  destruct (span (fun b => negb (is_delim b)) (skipn 2 url)) as [netloc rest] eqn:SP.
  destruct (span_spec _ _ _ _ SP) as (E & _ & HD).
  destruct (netloc_ok netloc); [|discriminate].
  assert (forallb path_char rest = true) as PR.
  { pose proof (skipn_forallb path_char 2 url PU) as K. rewrite E in K. apply (forallb_app_r _ _ _ K). }
  unfold split_fq. destruct (partition cHASH rest) as [[url1 fl1] frag] eqn:P1.
  destruct (partition cQM url1) as [[url2 fl2] query] eqn:P2.
  intros H _. inversion H; subst; clear H.
  destruct (partition_spec _ _ _ _ _ P1) as [NH E1].
  destruct (partition_spec _ _ _ _ _ P2) as [NQ E2].
  assert (url1 = p1 ++ (if fl2 then cQM :: q else [])) as EU1
    by (destruct fl2; [exact E2 | destruct E2 as [-> ->]; rewrite app_nil_r; reflexivity]).
  assert (rest = url1 ++ (if fl1 then cHASH :: f else [])) as ER
    by (destruct fl1; [exact E1 | destruct E1 as [-> ->]; rewrite app_nil_r; reflexivity]).
  assert (mem cHASH p1 = false /\ mem cHASH q = false) as [NHp NHq].
  { rewrite EU1 in NH. apply mem_app_false in NH as [A B]. split; [exact A|].
    destruct fl2; [|destruct E2 as [_ ->]; reflexivity]. rewrite mem_cons in B. apply orb_false_iff in B. tauto. }
  assert (forallb path_char url1 = true /\ forallb path_char f = true) as [PU1 PF].
  { rewrite ER in PR. split; [apply (forallb_app_l _ _ _ PR)|].
    destruct fl1; [|destruct E1 as [_ ->]; reflexivity].
    apply forallb_app_r in PR. apply (forallb_tl _ _ _ PR). }
  assert (forallb path_char p1 = true /\ forallb path_char q = true) as [PP1 PQ].
  { rewrite EU1 in PU1. split; [apply (forallb_app_l _ _ _ PU1)|].
    destruct fl2; [|destruct E2 as [_ ->]; reflexivity].
    apply forallb_app_r in PU1. apply (forallb_tl _ _ _ PU1). }
  repeat split; auto.
  destruct p1 as [|x t]; [left; reflexivity|right].
  rewrite ER, EU1 in HD. cbn [app] in HD.
  simpl in NHp, NQ. apply orb_false_iff in NHp as [X1 _]. apply orb_false_iff in NQ as [X2 _].
  unfold is_delim in HD. apply negb_false_iff in HD.
  rewrite (byte_eqb_sym x cQM), X2, (byte_eqb_sym x cHASH), X1, !orb_false_r in HD.
  simpl. rewrite byte_eqb_sym, HD. reflexivity.
Qed.

(* ---------- url.parse: port bound and normal path for every accepted http(s) URL ---------- *)
Section Accepted.
Variable ace : bytes -> option str.
Variable uenc : str -> option bytes.

Theorem parse_port_path_normal u s hb p pa :
  parse ace uenc u = Some (s, hb, p, pa) -> http_scheme s ->
  (1 <= p <= 65535)%Z /\ wf_path pa.
Proof.
  unfold parse. destruct (all_ascii u) eqn:AA; [|discriminate]. cbn [negb].
  unfold urlparse. destruct (urlsplit u) as [[[[[s0 nl] p1] q] f]|] eqn:US; [|discriminate].
  destruct (split_params_of s0 p1) as [pp params] eqn:SP.
  destruct (hostname nl) as [hn|] eqn:HN; [|discriminate].
  destruct (idna_encode uenc hn) as [host|]; [|discriminate].
  destruct (port_of nl) as [po|] eqn:PO; [|discriminate].
  destruct (is_valid_host_b ace host); [|discriminate].
  intros H Hs. inversion H; subst; clear H.
  assert (nl <> []) as NN by (intros ->; discriminate).
  destruct (urlsplit_inv _ _ _ _ _ _ AA US NN) as (SH & NHp & NQp & NHq & P1 & PQ & PF).
  assert (split_params_of s p1 = split_params_of s_http p1) as SPE by (destruct Hs as [-> | ->]; reflexivity).
  rewrite SPE in SP. pose proof (parsed_path_normal p1 q f SH NHp NQp NHq) as N. rewrite SP in N.
  cbv zeta in N. unfold slash in N. destruct N as (N1 & N2 & N3).
  split.
  - unfold port_of in PO. destruct (snd (hostinfo nl)) as [pt|].
    + destruct (forallb is_digit pt); [|discriminate].
      destruct (dec_value pt <=? 65535)%N eqn:B; [|discriminate]. inversion PO; subst.
      apply N.leb_le in B. destruct (dec_value pt =? 0)%N eqn:Z0.
      * destruct (bytes_eqb s s_https); lia.
      * apply N.eqb_neq in Z0. lia.
    + inversion PO; subst. destruct (bytes_eqb s s_https); lia.
  - split; [exact N2|]. split; [|exact N1].
    apply (N3 path_char); auto.
Qed.

(* the host-related half of wf_dest, as a condition on the host that was read back *)
Definition host_wf (h : bytes) : Prop :=
  h <> [] /\ forallb host_char h = true
  /\ (if mem cCOLON h then starts_with [cLBR] h = false /\ check_bracketed_host h = true else mem cLBR h = false)
  /\ lower (fst (fst (partition cPCT h))) = fst (fst (partition cPCT h))
  /\ label_len_ok (split cDOT h) = true
  /\ is_valid_host_b ace h = true.

Lemma host_wf_b_spec h : host_wf_b ace h = true <-> host_wf h.
Proof.
  unfold host_wf_b, host_wf. rewrite !andb_true_iff, negb_true_iff, is_nil_false, bytes_eqb_eq.
  change (forallb host_char_b h) with (forallb host_char h).
  destruct (mem cCOLON h); rewrite ?andb_true_iff, ?negb_true_iff; tauto.
Qed.

Lemma set_url_fields r u r1 :
  set_url ace uenc r u = (r1, true) ->
  exists s hb p pa h, parse ace uenc u = Some (s, hb, p, pa) /\ idna_decode ace hb = Some h
    /\ r_scheme r1 = s /\ r_host r1 = h /\ r_port r1 = p /\ r_path r1 = pa /\ r_connect r1 = r_connect r.
Proof.
  pose proof (set_url_shape ace uenc r u) as S.
  destruct (parse ace uenc u) as [[[[s hb] p] pa]|]; [|rewrite S; discriminate].
  destruct S as (h & D & E). rewrite E. intros H. inversion H; subst; clear H.
  exists s, hb, p, pa, h. split; [reflexivity|]. split; [exact D|].
  destruct (U_fields uenc (with_port (update_host_and_authority uenc (with_host (with_scheme r s) h)) p))
    as (F1 & F2 & F3 & _ & _ & F6).
  destruct (U_fields uenc (with_host (with_scheme r s) h)) as (G1 & G2 & _ & _ & _ & G6).
  destruct r as [s0 h0 p0 pa0 a0 hs0 h20 c0].
  destruct (update_host_and_authority uenc (with_port (update_host_and_authority uenc
             (with_host (with_scheme (mkReq s0 h0 p0 pa0 a0 hs0 h20 c0) s) h)) p)) eqn:EU.
  destruct (update_host_and_authority uenc (with_host (with_scheme (mkReq s0 h0 p0 pa0 a0 hs0 h20 c0) s) h)) eqn:EU2.
  cbn in *. subst. auto 10.
Qed.

(* every accepted http(s) URL: if the host read back is one that round-trips, assigning the URL
   read back changes nothing *)
Theorem accepted_url_reassignable r u r1 :
  set_url ace uenc r u = (r1, true) -> r_connect r = false ->
  http_scheme (r_scheme r1) -> host_wf (r_host r1) ->
  idna_decode ace (r_host r1) = Some (r_host r1) ->
  set_url ace uenc r1 (get_url r1) = (r1, true).
Proof.
  intros SU NC Hs (W1 & W2 & W3 & W4 & W5 & W6) D.
  pose proof (set_url_ok_consistent ace uenc _ _ _ SU) as C.
  destruct (set_url_fields _ _ _ SU) as (s & hb & p & pa & h & P & _ & F1 & F2 & F3 & F4 & F5).
  rewrite F1 in Hs. destruct (parse_port_path_normal _ _ _ _ _ P Hs) as [PB WP].
  apply url_fixpoint; auto.
  - congruence.
  - rewrite F1, F3. constructor; auto.
  - rewrite F4. exact WP.
Qed.

End Accepted.
