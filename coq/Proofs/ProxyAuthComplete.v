(* Proofs/ProxyAuthComplete.v -- completeness: a properly encoded Basic credential for a pair the
   validator accepts is accepted on the HTTP paths (for the repaired split(COLON, 1); for the code as
   found only when the password has no colon, with a counterexample otherwise) and on the SOCKS5 path. *)
From Coq Require Import Arith NArith List Bool Lia.
From MV Require Import Base.Bytes Model.ProxyAuth Proofs.ProxyAuthCodec Proofs.ProxyAuthHooks.
Import ListNotations.
Local Open Scope N_scope.
Implicit Types V : validator.

Lemma str_eqb_refl (s : str) : str_eqb s s = true.
Proof. induction s as [|c s IH]; [reflexivity|]. cbn. rewrite N.eqb_refl. exact IH. Qed.

(* letters that lower to a letter of the scheme word are ASCII and not whitespace *)
Definition chk_letter (b : byte) : bool :=
  implb (existsb (N.eqb (cp_lower (bN b))) BASIC) ((bN b <? 128) && negb (is_space (bN b))).
Lemma letters_ok : forall b, chk_letter b = true.
Proof. apply forall_bytes. vm_compute. reflexivity. Qed.

Lemma letter_facts b x : cp_lower (bN b) = x -> In x BASIC -> (bN b <? 128) = true /\ negb (is_space (bN b)) = true.
Proof.
  intros E I. pose proof (letters_ok b) as K. unfold chk_letter in K.
  assert (X : existsb (N.eqb (cp_lower (bN b))) BASIC = true).
  { apply existsb_exists. exists x. split; [exact I|]. rewrite E. apply N.eqb_refl. }
  rewrite X in K. cbn [implb] in K. apply andb_prop in K. exact K.
Qed.

Lemma scheme_facts sb : str_lower (ascii sb) = BASIC ->
  all_ascii sb = true /\ nospace (ascii sb) = true /\ ascii sb <> [].
Proof.
  intros H. unfold str_lower, ascii, BASIC in H.
  destruct sb as [|b1 [|b2 [|b3 [|b4 [|b5 [|b6 r]]]]]]; cbn [map] in H; try discriminate.
  injection H as E1 E2 E3 E4 E5.
  destruct (letter_facts b1 _ E1) as [A1 B1]; [cbn; tauto|].
  destruct (letter_facts b2 _ E2) as [A2 B2]; [cbn; tauto|].
  destruct (letter_facts b3 _ E3) as [A3 B3]; [cbn; tauto|].
  destruct (letter_facts b4 _ E4) as [A4 B4]; [cbn; tauto|].
  destruct (letter_facts b5 _ E5) as [A5 B5]; [cbn; tauto|].
  unfold all_ascii, nospace, ascii. cbn [map forallb].
  rewrite A1, A2, A3, A4, A5, B1, B2, B3, B4, B5. repeat split; try reflexivity. discriminate.
Qed.

Lemma encode_cp_nonempty c a : encode_cp c = Some a -> a <> [].
Proof.
  unfold encode_cp. intros H.
  destruct (c <? 128); [injection H as <-; discriminate|].
  destruct (c <? 2048); [injection H as <-; discriminate|].
  destruct (c <? 65536).
  { destruct ((55296 <=? c) && (c <? 57344)); [discriminate|injection H as <-; discriminate]. }
  destruct (c <? 1114112); [injection H as <-; discriminate|discriminate].
Qed.

Lemma encode_strict_nonempty c s raw : encode_strict (c :: s) = Some raw -> raw <> [].
Proof.
  cbn [encode_strict]. destruct (encode_cp c) as [a|] eqn:E; [|discriminate].
  destruct (encode_strict s); [|discriminate]. intros H. injection H as <-.
  apply encode_cp_nonempty in E. destruct a; [congruence|discriminate].
Qed.

Lemma pair_nonempty (u p : str) : exists c s, u ++ COLON :: p = c :: s.
Proof. destruct u as [|c u]; [exists COLON, p|exists c, (u ++ COLON :: p)]; reflexivity. Qed.

(* what a standards-conforming client sends: scheme (any letter case) SP base64(utf-8(user COLON password)) *)
Definition proper_value (sb : bytes) (raw : bytes) : bytes := sb ++ x20 :: b64encode raw.

Theorem proper_credentials_parse ms1 sb u p raw :
  str_lower (ascii sb) = BASIC -> nocolon u = true -> (ms1 = true \/ nocolon p = true) ->
  encode_strict (u ++ COLON :: p) = Some raw ->
  parse_http_basic_auth ms1 (ascii (proper_value sb raw)) = Some (ascii sb, u, p).
Proof.
  intros Hs Hu Hp He.
  destruct (scheme_facts sb Hs) as (As & Ns & Es).
  destruct (b64encode_chars raw) as [At Nt].
  assert (Et : ascii (b64encode raw) <> []).
  { destruct (pair_nonempty u p) as (c & s & E). rewrite E in He.
    pose proof (encode_strict_nonempty _ _ _ He) as R. destruct raw as [|a raw]; [congruence|].
    pose proof (b64encode_nonempty a raw) as B. destruct (b64encode (a :: raw)); [congruence|discriminate]. }
  unfold proper_value, parse_http_basic_auth.
  replace (ascii (sb ++ x20 :: b64encode raw)) with (ascii sb ++ 32 :: ascii (b64encode raw))
    by (unfold ascii; rewrite map_app; reflexivity).
  rewrite split_ws_two by assumption.
  rewrite Hs, str_eqb_refl. cbn [negb].
  rewrite (enc_ascii _ At). rewrite a2b_roundtrip. rewrite (dec_enc h_replace _ _ He).
  destruct Hp as [->|Hp].
  - rewrite split_on1_pair by exact Hu. reflexivity.
  - destruct ms1.
    + rewrite split_on1_pair by exact Hu. reflexivity.
    + rewrite split_on_pair by assumption. reflexivity.
Qed.

(* the request has exactly one header with the name of its entry path, carrying that value *)
Definition carries (ip : bool) (hs : headers) (value : bytes) : Prop :=
  exists n, filter (name_is (http_auth_header ip)) hs = [(n, value)].

Theorem proper_header_creds ms1 c ip rp sm hs sb u p raw :
  carries ip hs (proper_value sb raw) ->
  str_lower (ascii sb) = BASIC -> nocolon u = true -> (ms1 = true \/ nocolon p = true) ->
  encode_strict (u ++ COLON :: p) = Some raw ->
  creds_of ms1 (new_flow c ip rp sm hs) = Some (u, p).
Proof.
  intros [n Hc] Hs Hu Hp He. unfold creds_of. cbn [new_flow f_is_proxy f_hdrs].
  unfold headers_get, get_all. rewrite Hc. cbn [map snd join_comma].
  destruct (scheme_facts sb Hs) as (As & _ & _). destruct (b64encode_chars raw) as [At _].
  rewrite dec_ascii.
  - rewrite (proper_credentials_parse ms1 sb u p raw Hs Hu Hp He). reflexivity.
  - unfold proper_value. rewrite all_ascii_app, As. cbn [andb]. unfold all_ascii in *. cbn [forallb]. exact At.
Qed.

(* completeness on the HTTP entry paths *)
Theorem complete_request ms1 V st c ip sm hs sb u p raw :
  V u p = true -> lookup c st = None -> carries ip hs (proper_value sb raw) ->
  str_lower (ascii sb) = BASIC -> nocolon u = true -> (ms1 = true \/ nocolon p = true) ->
  encode_strict (u ++ COLON :: p) = Some raw ->
  step ms1 (Some V) st (EReq c ip false false sm hs) =
    (st, OHttp (pass_flow c ip false sm hs u p) [OpenServer; ToServer (headers_del (http_auth_header ip) hs)]).
Proof.
  intros HV L Hc Hs Hu Hp He. apply valid_request_forwarded; auto.
  eapply proper_header_creds; eauto.
Qed.

Theorem complete_connect ms1 V st c ip rp sm hs sb u p raw :
  V u p = true -> carries ip hs (proper_value sb raw) ->
  str_lower (ascii sb) = BASIC -> nocolon u = true -> (ms1 = true \/ nocolon p = true) ->
  encode_strict (u ++ COLON :: p) = Some raw ->
  step ms1 (Some V) st (EReq c ip true rp sm hs) =
    (set_auth c (u, p) st, OHttp (pass_flow c ip rp sm hs u p) [Tunnel; ToClient 200]).
Proof.
  intros HV Hc Hs Hu Hp He. apply valid_connect_tunnel; auto.
  eapply proper_header_creds; eauto.
Qed.

(* the code as found rejects a proper credential whose password contains a colon, on both HTTP hooks *)
Definition cex_u : str := [117].
Definition cex_p : str := [112; 58; 113].
Definition cex_raw : bytes := [x75; x3a; x70; x3a; x71].
Definition cex_sb : bytes := [x42; x61; x73; x69; x63].

Theorem colon_password_rejected :
  exists V u p raw sb,
    V u p = true /\ nocolon u = true /\ str_lower (ascii sb) = BASIC /\
    encode_strict (u ++ COLON :: p) = Some raw /\
    forall st c ip sm, lookup c st = None ->
      let hs := [(http_auth_header ip, proper_value sb raw)] in
      carries ip hs (proper_value sb raw) /\
      step false (Some V) st (EReq c ip false false sm hs) =
        (st, OHttp (deny_flow c ip false sm hs) (if sm then [Crash] else [ToClient (auth_required_status ip)])) /\
      step false (Some V) st (EReq c ip true false sm hs) =
        (st, OHttp (deny_flow c ip false sm hs) [ToClient (auth_required_status ip)]).
Proof.
  exists (fun _ _ => true), cex_u, cex_p, cex_raw, cex_sb.
  repeat split; try reflexivity.
  - destruct ip; [exists PROXY_AUTHORIZATION|exists AUTHORIZATION]; vm_compute; reflexivity.
  - apply unauth_request_denied; [assumption|].
    intros (u & p & H1 & _). destruct ip; vm_compute in H1; discriminate.
  - apply unauth_connect_denied.
    intros (u & p & H1 & _). destruct ip; vm_compute in H1; discriminate.
Qed.

(* completeness on the SOCKS5 path: any pair, colons included *)
Theorem complete_socks V st c ver u p ub pb :
  V u p = true -> encode_strict u = Some ub -> encode_strict p = Some pb ->
  blen ub < 256 -> blen pb < 256 ->
  state_auth (Some V) st c (ver :: Nb (blen ub) :: ub ++ Nb (blen pb) :: pb) =
    (set_auth c (u, p) st, SOk [x01; x00] []).
Proof.
  intros HV Eu Ep Lu Lp.
  pose proof (state_auth_parse_msg ver ub pb Lu Lp) as P.
  rewrite (socks_valid_accepted V st c _ ub pb [] P);
    rewrite (dec_enc h_backslashreplace _ _ Eu), (dec_enc h_backslashreplace _ _ Ep); [reflexivity|exact HV].
Qed.

(* hypotheses of the completeness theorems are satisfiable by a non-trivial credential (non-ASCII user, colon in the password) *)
Definition sample_u : str := [252; 115].                 (* u-umlaut s *)
Definition sample_p : str := [112; 58; 8364].            (* p COLON euro-sign *)
Definition sample_raw : bytes := [xc3; xbc; x73; x3a; x70; x3a; xe2; x82; xac].
Definition sample_hs : headers :=
  [([x48; x6f; x73; x74], [x65]); (PROXY_AUTHORIZATION, proper_value cex_sb sample_raw); ([x58], [x31])].

Theorem sample_nonvacuous :
  encode_strict (sample_u ++ COLON :: sample_p) = Some sample_raw /\ nocolon sample_u = true /\
  carries true sample_hs (proper_value cex_sb sample_raw) /\
  step true (Some (fun u p => str_eqb u sample_u && str_eqb p sample_p)) [] (EReq 7 true false false false sample_hs) =
    ([], OHttp (pass_flow 7 true false false sample_hs sample_u sample_p)
               [OpenServer; ToServer [([x48; x6f; x73; x74], [x65]); ([x58], [x31])]]) /\
  step false (Some (fun u p => str_eqb u sample_u && str_eqb p sample_p)) [] (EReq 7 true false false false sample_hs) =
    ([], OHttp (deny_flow 7 true false false sample_hs) [ToClient 407]).
Proof.
  repeat split; try (vm_compute; reflexivity).
  exists PROXY_AUTHORIZATION. vm_compute. reflexivity.
Qed.

(* ---------------------------------------------------------------- the two code variants, separately *)
Theorem complete_request_fixed V st c ip sm hs sb u p raw :
  V u p = true -> lookup c st = None -> carries ip hs (proper_value sb raw) ->
  str_lower (ascii sb) = BASIC -> nocolon u = true -> encode_strict (u ++ COLON :: p) = Some raw ->
  step true (Some V) st (EReq c ip false false sm hs) =
    (st, OHttp (pass_flow c ip false sm hs u p) [OpenServer; ToServer (headers_del (http_auth_header ip) hs)]).
Proof. intros. eapply complete_request; eauto. Qed.

Theorem complete_connect_fixed V st c ip rp sm hs sb u p raw :
  V u p = true -> carries ip hs (proper_value sb raw) ->
  str_lower (ascii sb) = BASIC -> nocolon u = true -> encode_strict (u ++ COLON :: p) = Some raw ->
  step true (Some V) st (EReq c ip true rp sm hs) =
    (set_auth c (u, p) st, OHttp (pass_flow c ip rp sm hs u p) [Tunnel; ToClient 200]).
Proof. intros. eapply complete_connect; eauto. Qed.

Theorem complete_request_partial V st c ip sm hs sb u p raw :
  nocolon p = true ->
  V u p = true -> lookup c st = None -> carries ip hs (proper_value sb raw) ->
  str_lower (ascii sb) = BASIC -> nocolon u = true -> encode_strict (u ++ COLON :: p) = Some raw ->
  step false (Some V) st (EReq c ip false false sm hs) =
    (st, OHttp (pass_flow c ip false sm hs u p) [OpenServer; ToServer (headers_del (http_auth_header ip) hs)]).
Proof. intros. eapply complete_request; eauto. Qed.

Theorem complete_connect_partial V st c ip rp sm hs sb u p raw :
  nocolon p = true ->
  V u p = true -> carries ip hs (proper_value sb raw) ->
  str_lower (ascii sb) = BASIC -> nocolon u = true -> encode_strict (u ++ COLON :: p) = Some raw ->
  step false (Some V) st (EReq c ip true rp sm hs) =
    (set_auth c (u, p) st, OHttp (pass_flow c ip rp sm hs u p) [Tunnel; ToClient 200]).
Proof. intros. eapply complete_connect; eauto. Qed.

(* the denial is answered with 407/401 unless the body was already being streamed *)
Theorem unauth_request_answered ms1 V st c ip hs :
  lookup c st = None -> ~ valid_creds ms1 V (new_flow c ip false false hs) ->
  step ms1 (Some V) st (EReq c ip false false false hs) =
    (st, OHttp (deny_flow c ip false false hs) [ToClient (auth_required_status ip)]).
Proof. intros L H. apply (unauth_request_denied ms1 V st c ip false hs L H). Qed.

Theorem unauth_streaming_no_answer :
  exists ms1 V st c ip hs,
    lookup c st = None /\ ~ valid_creds ms1 V (new_flow c ip false true hs) /\
    step ms1 (Some V) st (EReq c ip false false true hs) = (st, OHttp (deny_flow c ip false true hs) [Crash]).
Proof.
  exists true, (fun _ _ => true), [], 0, true, [].
  assert (H : ~ valid_creds true (fun _ _ => true) (new_flow 0 true false true [])).
  { intros (u & p & H1 & _). vm_compute in H1. discriminate. }
  split; [reflexivity|]. split; [exact H|]. apply (unauth_request_denied true _ [] 0 true true [] eq_refl H).
Qed.

(* in every case of a denial nothing goes to the server side *)
Theorem unauth_nothing_forwarded ms1 V st c ip ic rp sm hs :
  (ic = true \/ (rp = false /\ lookup c st = None)) -> ~ valid_creds ms1 V (new_flow c ip rp sm hs) ->
  fst (step ms1 (Some V) st (EReq c ip ic rp sm hs)) = st /\
  ~ reaches_server (snd (step ms1 (Some V) st (EReq c ip ic rp sm hs))).
Proof.
  intros [->|[-> L]] H.
  - rewrite (unauth_connect_denied ms1 V st c ip rp sm hs H). split; [reflexivity|]. cbn. discriminate.
  - destruct ic.
    + rewrite (unauth_connect_denied ms1 V st c ip false sm hs H). split; [reflexivity|]. cbn. discriminate.
    + rewrite (unauth_request_denied ms1 V st c ip sm hs L H). split; [reflexivity|]. destruct sm; cbn; discriminate.
Qed.
