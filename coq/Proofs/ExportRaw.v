(* Proofs/ExportRaw.v -- the raw export (assemble_request of the cleaned request) is read back by the reference
   HTTP/1 parser of Model/Rfc9112.v as the same method, target, version, fields and body.  Built on the C01 lemmas. *)
From Coq Require Import List Bool NArith.
From MV Require Import Base.Bytes Model.Http1Msg Model.Rfc9112 Model.Export Proofs.Http1Lines Proofs.Http1Roundtrip
  Proofs.Http1Chunks.
Import ListNotations.

(* identity framing: cleanup_request has set content-length to the length of the content *)
Theorem raw_request_reads_back_length o r c : Inv_req r -> send_chunked (rq_headers r) = false ->
  exists raw, raw_request r (Some c) [] = Ok raw
    /\ parse_request_head o raw = POk (rq_method r, req_target r, rq_version r, rq_headers r, c)
    /\ read_body o (BLLen (N.of_nat (length c))) c = POk (c, [], []).
Proof.
  intros I S. unfold raw_request, assemble_body. rewrite S. cbn [concat]. rewrite app_nil_r.
  eexists. split; [reflexivity|]. split.
  - apply head_roundtrip_request, I.
  - rewrite <- (app_nil_r c) at 2. apply body_reframe_length.
Qed.

(* chunked framing: a non-empty content is sent as one chunk and the last-chunk *)
Theorem raw_request_reads_back_chunked o r c : Inv_req r -> send_chunked (rq_headers r) = true -> c <> [] ->
  exists raw body, raw_request r (Some c) [] = Ok raw
    /\ parse_request_head o raw = POk (rq_method r, req_target r, rq_version r, rq_headers r, body)
    /\ read_body o BLChunked body = POk (c, [], []).
Proof.
  intros I S NE. unfold raw_request, assemble_body. rewrite S.
  destruct c as [|x c]; [contradiction|]. cbn [map concat]. rewrite app_nil_r.
  eexists. eexists. split; [reflexivity|]. split.
  - apply head_roundtrip_request, I.
  - pose proof (body_reframe_read_body o [x :: c] []) as H. cbn [map concat] in H.
    rewrite !app_nil_r in H. rewrite app_nil_r in H || idtac. apply H. repeat constructor. discriminate.
Qed.

(* exports are pure: after any history of exports the flow is unchanged, and every output is the output of that
   exporter on the initial flow (so a raw export after curl/httpie exports reads back as the captured request) *)
Theorem exports_pure v p a s fs :
  snd (export_history v p a s fs) = s
  /\ fst (export_history v p a s fs) = map (fun f => fst (export_step v p a s f)) fs.
Proof.
  induction fs as [|f fs IH]; [split; reflexivity|].
  cbn [export_history map].
  assert (E : export_step v p a s f = (fst (export_step v p a s f), s)) by reflexivity.
  rewrite E at 1 2. clear E.
  destruct (export_history v p a s fs) as [os s2]. cbn [fst snd] in *. destruct IH as [IH1 IH2]. subst.
  split; reflexivity.
Qed.

(* a missing body is an error, never a truncated export *)
Lemma raw_request_missing_content r t : raw_request r None t = OtherError.
Proof. reflexivity. Qed.
