(* Proofs/ConnHandlerTeardown.v -- when handle_client has returned, every upstream connection that
   existed when it took its final snapshot of transports is past handle_connection (its task is done
   or only waits for the server_disconnected hook to return). *)
From Coq Require Import List Bool Arith Lia.
From MV Require Import Model.ConnHandler Proofs.ConnHandlerBase Proofs.ConnHandlerPair.
Import ListNotations.

Definition settled (p : cpc) : bool := match p with PHookDisc _ | PDone _ => true | _ => false end.
Definition settledc (s : st) (c : nat) : Prop := settled (c_pc (getc s c)) = true.

Definition TD (s : st) : Prop :=
  match mainpc s with
  | MWaitAll ws => exists n, teardown_n s = Some n /\ n <= length (conns s) /\
                             forall c, 1 <= c -> c < n -> In c ws \/ settledc s c
  | MDone _ => exists n, teardown_n s = Some n /\ n <= length (conns s) /\
                         forall c, 1 <= c -> c < n -> settledc s c
  | _ => True
  end.

Lemma settled_kpc : forall p q, kpc p = kpc q -> settled p = settled q.
Proof. intros p q H. destruct p, q; simpl in *; try discriminate; auto; inversion H; auto. Qed.

Lemma settled_ksoft : forall x y, ksoft x y -> settled (c_pc y) = settled (c_pc x).
Proof. intros x y (_ & K & _). apply settled_kpc; auto. Qed.

Lemma TD_gen : forall s s',
  mainpc s' = mainpc s -> teardown_n s' = teardown_n s -> length (conns s) <= length (conns s') ->
  (forall c, 1 <= c -> c < length (conns s) -> settledc s c -> settledc s' c) -> TD s -> TD s'.
Proof.
  intros s s' M T L H D. unfold TD in *. rewrite M, T. destruct (mainpc s); auto.
  - destruct D as (n & E & Ln & D). exists n. repeat split; auto; try lia.
    intros c C1 C2. destruct (D c C1 C2); auto. right. apply H; auto. lia.
  - destruct D as (n & E & Ln & D). exists n. repeat split; auto; try lia.
    intros c C1 C2. apply H; auto. lia.
Qed.

Lemma TD_frame : forall s s', frame s s' -> TD s -> TD s'.
Proof.
  intros s s' F. pose proof (frame_len _ _ F) as L. apply TD_gen; auto; try apply F.
  intros c C1 C2 S. unfold settledc in *. rewrite (settled_ksoft _ _ (psoft_ksoft _ _ (frame_getc _ _ c F C2))). auto.
Qed.

Lemma TD_same : forall s s', conns s' = conns s -> mainpc s' = mainpc s -> teardown_n s' = teardown_n s -> TD s -> TD s'.
Proof. intros s s' C M T. apply TD_gen; auto; unfold settledc, getc; rewrite C; auto. Qed.

(* own step of a settled task *)
Lemma len_wake_next : forall S a, length (conns (wake_next S a)) = length (conns S).
Proof. intros. unfold wake_next. destruct (first_pending S (semq S a)); auto. simpl. apply upd_length. Qed.
Lemma len_release_of : forall S c, length (conns (release_of S c)) = length (conns S).
Proof. intros. unfold release_of, sem_release. destruct (c_addr (getc S c)); auto. rewrite len_wake_next. auto. Qed.
Lemma pc_finish : forall S c x k, c < length (conns S) -> c_pc (getc (finish S c x k) c) = PDone x.
Proof. intros. unfold finish. change (getc (emit ?s ?e) c) with (getc s c). rewrite getc_setc_same; auto. Qed.

Lemma settled_own : forall s c, c < length (conns s) -> settledc s c -> settledc (run_conn s c) c.
Proof.
  intros s c L S. unfold settledc in *. unfold run_conn.
  destruct (c_pc (getc s c)) eqn:E; try discriminate.
  - destruct (c_cf (getc s c)); rewrite pc_finish; auto; rewrite len_release_of, len_setc; auto.
  - rewrite E. auto.
Qed.

Lemma TD_run_conn : forall s c, c < length (conns s) -> TD s -> TD (run_conn s c).
Proof.
  intros s c L. destruct (oframe_run_conn s c) as [OL OO ON OM OT _]. apply TD_gen; auto.
  intros c' C1 C2 S. destruct (Nat.eq_dec c' c).
  - subst. apply settled_own; auto.
  - unfold settledc in *. rewrite (settled_ksoft _ _ (OO c' n C2)). auto.
Qed.

Lemma TD_run_hook : forall s k, TD s -> TD (run_hook s k).
Proof.
  intros s k D. unfold run_hook. destruct (geth s k); auto.
  - apply (TD_same (server_event s (LHookDone k))); try reflexivity. eapply TD_frame; [apply frame_server_event|exact D].
Qed.

Lemma in_waited : forall l i c, In c (waited l i) <->
  exists j, c = i + j /\ j < length l /\ c_entry (nth j l dconn) && c_task (nth j l dconn) = true.
Proof.
  induction l; simpl; intros.
  - split; [tauto|]. intros (j & _ & B & _). lia.
  - assert (R : In c (waited l (S i)) <->
                exists j, c = i + S j /\ S j < S (length l) /\ c_entry (nth j l dconn) && c_task (nth j l dconn) = true).
    { rewrite IHl. split; intros (j & A & B & C); exists j; repeat split; auto; lia. }
    destruct (c_entry a && c_task a) eqn:E; simpl; rewrite R; split.
    + intros [H | (j & A & B & C)].
      * exists 0. repeat split; auto; lia.
      * exists (S j). auto.
    + intros (j & A & B & C). destruct j; [left; lia|right; exists j; auto].
    + intros (j & A & B & C). exists (S j). auto.
    + intros (j & A & B & C). destruct j; [congruence|exists j; auto].
Qed.

Lemma wok_unsettled : forall x, wok x -> settled (c_pc x) = false -> c_entry x = true /\ c_task x = true.
Proof. unfold wok. intros x W S. destruct (c_pc x); simpl in *; try discriminate; tauto. Qed.

Lemma TD_run_main : forall s, Inv1 s -> main_ready s = true -> TD s -> TD (run_main s).
Proof.
  intros s [I _] R D. unfold run_main. destruct (mainpc s) eqn:E.
  - unfold TD. simpl. auto.
  - unfold TD. match goal with |- context [client_err ?S1] => destruct (client_err S1) end; simpl; auto.
  - unfold TD. simpl. auto.
  - match goal with |- context [existsb c_entry (conns ?S0)] => set (s0 := S0) end.
    assert (K : forall c, 1 <= c -> c < length (conns s) ->
                In c (waited (conns s0) 0) \/ settledc (cancel_all s0 (length (conns s)) 0) c).
    { intros c C1 C2. destruct (settled (c_pc (getc s c))) eqn:S.
      - right. unfold settledc.
        rewrite (settled_ksoft _ _ (psoft_ksoft _ _ (frame_getc s0 _ c (frame_cancel_all _ s0 0) C2))). auto.
      - left. assert (C : Nat.eqb c 0 = false) by (apply Nat.eqb_neq; lia).
        destruct (wok_unsettled _ (proj2 (I c C)) S) as [A B].
        apply in_waited. exists c. simpl. fold (getc s c). rewrite A, B. repeat split; auto. }
    pose proof (frame_cancel_all (length (conns s)) s0 0) as FC.
    assert (FT : teardown_n (cancel_all s0 (length (conns s)) 0) = Some (length (conns s))) by (rewrite (f_td _ _ FC); reflexivity).
    assert (FL : length (conns s) <= length (conns (cancel_all s0 (length (conns s)) 0))) by (apply (frame_len _ _ FC)).
    destruct (existsb c_entry (conns s0)) eqn:EX.
    + destruct (waited (conns s0) 0) eqn:W.
      * unfold TD. simpl. exists (length (conns s)). split; [exact FT|split; [exact FL|]].
        intros c C1 C2. destruct (K c C1 C2) as [[]|H]. exact H.
      * unfold TD. simpl. exists (length (conns s)). split; [exact FT|split; [exact FL|]]. exact K.
    + unfold TD. simpl. exists (length (conns s)). repeat split; auto.
      intros c C1 C2. destruct (settled (c_pc (getc s c))) eqn:S; [exact S|].
      assert (C : Nat.eqb c 0 = false) by (apply Nat.eqb_neq; lia).
      destruct (wok_unsettled _ (proj2 (I c C)) S) as [A B].
      assert (X : existsb c_entry (conns s) = true).
      { apply existsb_exists. exists (getc s c). split; auto. apply nth_In. auto. }
      simpl in EX. congruence.
  - unfold TD in D. rewrite E in D. destruct D as (n & T & Ln & D).
    unfold main_ready in R. rewrite E in R. unfold all_done in R. rewrite forallb_forall in R.
    unfold TD. simpl. exists n. repeat split; auto. intros c C1 C2. destruct (D c C1 C2) as [H | H]; auto.
    specialize (R c H). unfold settledc. change (getc (main_finish s 0) c) with (getc s c).
    destruct (c_pc (getc s c)); simpl in *; auto; discriminate.
  - exact D.
Qed.

Definition Inv3 (s : st) : Prop := Inv1 s /\ TD s.

Lemma inv3_step : forall s i s', step s i = Some s' -> Inv3 s -> Inv3 s'.
Proof.
  intros s i s' H [I D]. split; [eapply inv1_step; eauto|].
  destruct i; simpl in H.
  - destruct t.
    + destruct (mainpc s) eqn:E; try discriminate; destruct (mwk s); try discriminate; inversion H; subst;
        unfold TD; simpl; try rewrite E; auto.
    + destruct (_ && _ && _); inversion H; subst. eapply TD_frame; eauto. apply frame_setc. apply psoft_any_flags.
    + destruct (geth s k) as [|[|]|]; try discriminate. destruct (k <? length (hooks s)); inversion H; subst.
      eapply TD_same; [| | |exact D]; reflexivity.
  - destruct (c_pc (getc s c)); try discriminate. destruct (_ && _); inversion H; subst.
    eapply TD_frame; eauto. apply frame_setc. apply psoft_any_flags.
  - destruct (c_pc (getc s c)); try discriminate. destruct (_ && _); inversion H; subst.
    eapply TD_frame; eauto. apply frame_setc. apply psoft_any_flags.
  - inversion H; subst. destruct (_ && _); auto. eapply TD_frame; eauto using frame_cancel.
  - destruct (_ && _); inversion H; subst. eapply TD_frame; eauto. apply frame_setc. apply psoft_any_flags.
  - destruct (_ && _); inversion H; subst. eapply TD_frame; eauto. apply frame_setc. apply psoft_any_flags.
  - destruct (c_pc (getc s c)); try discriminate. destruct (_ && _); inversion H; subst.
    eapply TD_frame; eauto. apply frame_setc. apply psoft_any_flags.
  - destruct t.
    + destruct (main_ready s) eqn:R; simpl in H; [|discriminate]. destruct (negb thrown); inversion H; subst.
      apply TD_run_main; auto.
    + destruct (conn_ready s c) eqn:R; simpl in H; [|discriminate].
      destruct (Bool.eqb _ _); inversion H; subst. apply TD_run_conn; auto.
      unfold conn_ready in R. repeat (apply andb_true_iff in R as [R ?]). apply Nat.ltb_lt in R. auto.
    + destruct (_ && _); inversion H; subst. apply TD_run_hook; auto.
Qed.

Lemma inv3_run : forall l s, Inv3 s -> Inv3 (run s l).
Proof.
  induction l; simpl; intros; auto. apply IHl. unfold step'. destruct (step s a) eqn:E; auto.
  eapply inv3_step; eauto.
Qed.

Theorem teardown_invariant : forall sc l, Inv3 (run (init sc) l).
Proof. intros. apply inv3_run. split. apply inv1_init. unfold TD. simpl. auto. Qed.

(* after handle_client returned: no upstream connection known at the final snapshot still owns an
   open writer, except one whose server_connected hook was cancelled *)
Theorem no_open_writer_after_done : forall sc l k n c,
  let s := run (init sc) l in
  mainpc s = MDone k -> teardown_n s = Some n -> 1 <= c -> c < n ->
  c_writer (getc s c) = WOpen -> c_pc (getc s c) = PDone XLostConnectedHook.
Proof.
  intros sc l k n c s M T C1 C2 W. destruct (teardown_invariant sc l) as [[I _] D]. fold s in I, D.
  unfold TD in D. rewrite M in D. destruct D as (n' & T' & _ & D). rewrite T in T'. inversion T'; subst n'.
  specialize (D c C1 C2). assert (C : Nat.eqb c 0 = false) by (apply Nat.eqb_neq; lia).
  destruct (I c C) as [_ K]. unfold wok in K. rewrite W in K. unfold settledc in D.
  destruct (c_pc (getc s c)) as [| | | | | | | | | | | |x]; simpl in *; try discriminate; try (destruct K; discriminate).
  destruct x; simpl in K; try discriminate; try (destruct K; discriminate); auto.
Qed.
