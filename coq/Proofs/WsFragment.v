(* Proofs/WsFragment.v -- Fragmentizer: the fragments concatenate to the content, only the last one
   is final, original lengths are reused when the length is unchanged, otherwise FRAGMENT_SIZE
   chunks; binary payloads are exact; text payloads are exact iff every fragment is valid UTF-8,
   in particular when the content is valid and every cut is at a code-point boundary. *)
From Coq Require Import List Bool Arith NArith Lia.
From MV Require Import Base.Bytes Model.WsUtf8 Model.Websocket Proofs.WsUtf8.
Import ListNotations.

(* what wsproto puts on the wire for an event handed to send (contract) *)
Definition wire_payload (e : wsevent) : bytes :=
  match e with WText d _ _ => encode d | WBytes d _ _ => d | _ => [] end.

(* every fragment but the last is not final, the last is *)
Inductive wf_frags : list (bytes * bool) -> Prop :=
| wf_last d : wf_frags [(d, true)]
| wf_cons d r : wf_frags r -> wf_frags ((d, false) :: r).

Lemma reuse_wf : forall lens c, wf_frags (reuse lens c).
Proof.
  induction lens as [|l rest IH]; intros c; cbn [reuse]; [constructor|].
  destruct rest as [|l2 rest']; [constructor|]. constructor. apply IH.
Qed.

Lemma reuse_concat : forall lens c, concat (map fst (reuse lens c)) = c.
Proof.
  induction lens as [|l rest IH]; intros c; cbn [reuse]; [cbn; apply app_nil_r|].
  destruct rest as [|l2 rest']; [cbn; apply app_nil_r|].
  cbn [map fst concat]. rewrite IH. apply firstn_skipn.
Qed.

Lemma reuse_lens : forall lens c, lens <> [] -> length c = sum_nat lens ->
  map (fun df => length (fst df)) (reuse lens c) = lens.
Proof.
  induction lens as [|l rest IH]; intros c Hne Hlen; [contradiction|].
  cbn [reuse]. destruct rest as [|l2 rest'].
  - cbn in *. f_equal. lia.
  - cbn [map fst]. cbn [sum_nat fold_right] in Hlen. f_equal.
    + apply firstn_length_le. lia.
    + apply IH; [discriminate|]. rewrite skipn_length. cbn [sum_nat fold_right]. lia.
Qed.

Lemma rechunk_wf : forall fuel fs c fr, rechunk fuel fs c = Some fr -> wf_frags fr.
Proof.
  induction fuel as [|f IH]; intros fs c fr H; [discriminate|]. cbn [rechunk] in H.
  destruct (fs <? length c).
  - destruct (rechunk f fs (skipn fs c)) as [r|] eqn:E; [|discriminate]. cbn in H. injection H as <-.
    constructor. eapply IH; exact E.
  - injection H as <-. constructor.
Qed.

Lemma rechunk_concat : forall fuel fs c fr, rechunk fuel fs c = Some fr -> concat (map fst fr) = c.
Proof.
  induction fuel as [|f IH]; intros fs c fr H; [discriminate|]. cbn [rechunk] in H.
  destruct (fs <? length c).
  - destruct (rechunk f fs (skipn fs c)) as [r|] eqn:E; [|discriminate]. cbn in H. injection H as <-.
    cbn [map fst concat]. rewrite (IH _ _ _ E). apply firstn_skipn.
  - injection H as <-. cbn. apply app_nil_r.
Qed.

Lemma rechunk_total : forall fuel fs c, 0 < fs -> length c < fuel -> exists fr, rechunk fuel fs c = Some fr.
Proof.
  induction fuel as [|f IH]; intros fs c Hfs Hl; [lia|]. cbn [rechunk].
  destruct (fs <? length c) eqn:E; [|eauto].
  apply Nat.ltb_lt in E.
  destruct (IH fs (skipn fs c) Hfs) as [r Hr]; [rewrite skipn_length; lia|].
  rewrite Hr. cbn. eauto.
Qed.

(* sizes after re-chunking: every non-final fragment has exactly fs bytes, the final one at most fs *)
Inductive chunk_sizes (fs : nat) : list (bytes * bool) -> Prop :=
| cs_last d : length d <= fs -> chunk_sizes fs [(d, true)]
| cs_cons d r : length d = fs -> chunk_sizes fs r -> chunk_sizes fs ((d, false) :: r).

Lemma rechunk_sizes : forall fuel fs c fr, rechunk fuel fs c = Some fr -> chunk_sizes fs fr.
Proof.
  induction fuel as [|f IH]; intros fs c fr H; [discriminate|]. cbn [rechunk] in H.
  destruct (fs <? length c) eqn:E.
  - apply Nat.ltb_lt in E.
    destruct (rechunk f fs (skipn fs c)) as [r|] eqn:Er; [|discriminate]. cbn in H. injection H as <-.
    constructor; [apply firstn_length_le; lia|eapply IH; exact Er].
  - apply Nat.ltb_ge in E. injection H as <-. constructor. exact E.
Qed.

(* the final fragment of a re-chunked non-empty content is not empty *)
Lemma rechunk_last_nonempty : forall fuel fs c fr, 0 < fs -> rechunk fuel fs c = Some fr -> c <> [] ->
  Forall (fun df => fst df <> []) fr.
Proof.
  induction fuel as [|f IH]; intros fs c fr Hfs H Hc; [discriminate|]. cbn [rechunk] in H.
  destruct (fs <? length c) eqn:E.
  - apply Nat.ltb_lt in E.
    destruct (rechunk f fs (skipn fs c)) as [r|] eqn:Er; [|discriminate]. cbn in H. injection H as <-.
    constructor.
    + cbn. intros H0. apply (f_equal (@length byte)) in H0. rewrite firstn_length_le in H0 by lia. cbn in H0. lia.
    + eapply IH; [exact Hfs|exact Er|]. intros H0. apply (f_equal (@length byte)) in H0.
      rewrite skipn_length in H0. cbn in H0. lia.
  - injection H as <-. constructor; [exact Hc|constructor].
Qed.

(* ---- Fragmentizer.__call__ ---- *)

Lemma fragments_total fs lens c : 0 < fs -> exists fr, fragments fs lens c = Some fr.
Proof.
  intros Hfs. unfold fragments. destruct (length c =? sum_nat lens); [eauto|].
  apply rechunk_total; [exact Hfs|lia].
Qed.

Lemma fragments_wf fs lens c fr : fragments fs lens c = Some fr -> wf_frags fr.
Proof.
  unfold fragments. destruct (length c =? sum_nat lens).
  - intros H. injection H as <-. apply reuse_wf.
  - apply rechunk_wf.
Qed.

Lemma fragments_concat fs lens c fr : fragments fs lens c = Some fr -> concat (map fst fr) = c.
Proof.
  unfold fragments. destruct (length c =? sum_nat lens).
  - intros H. injection H as <-. apply reuse_concat.
  - apply rechunk_concat.
Qed.

(* same length: the original frame boundaries are kept *)
Lemma fragments_keep_lens fs lens c fr : lens <> [] -> length c = sum_nat lens ->
  fragments fs lens c = Some fr -> map (fun df => length (fst df)) fr = lens.
Proof.
  intros Hne Hl. unfold fragments. rewrite (proj2 (Nat.eqb_eq _ _) Hl).
  intros H. injection H as <-. apply reuse_lens; assumption.
Qed.

(* another length: FRAGMENT_SIZE chunks *)
Lemma fragments_rechunk_sizes fs lens c fr : length c <> sum_nat lens ->
  fragments fs lens c = Some fr -> chunk_sizes fs fr.
Proof.
  intros Hl. unfold fragments. rewrite (proj2 (Nat.eqb_neq _ _) Hl). apply rechunk_sizes.
Qed.

Lemma wire_payload_msg t d f : wire_payload (msg t d f) = payload_as_sent t d.
Proof. unfold msg, payload_as_sent. destruct t; reflexivity. Qed.

Lemma fragmentize_inv fs lens t c evs : fragmentize fs lens t c = Some evs ->
  exists fr, fragments fs lens c = Some fr /\ evs = map (fun df => msg t (fst df) (snd df)) fr.
Proof.
  unfold fragmentize. destruct (fragments fs lens c) as [fr|]; [|discriminate].
  cbn. intros H. injection H as <-. eauto.
Qed.

Lemma wire_of_frags t fr :
  concat (map wire_payload (map (fun df => msg t (fst df) (snd df)) fr))
  = concat (map (fun df => payload_as_sent t (fst df)) fr).
Proof. rewrite map_map. f_equal. apply map_ext. intros df. apply wire_payload_msg. Qed.

(* binary messages: the payloads concatenate to the content, for every content and length list *)
Theorem binary_exact fs lens c evs : fragmentize fs lens false c = Some evs ->
  concat (map wire_payload evs) = c.
Proof.
  intros H. apply fragmentize_inv in H as (fr & Hf & ->). rewrite wire_of_frags.
  rewrite <- (fragments_concat _ _ _ _ Hf). reflexivity.
Qed.

(* text messages: a fragment is sent unchanged iff it is valid UTF-8 on its own *)
Theorem text_fragment_exact_iff (frag : bytes) : payload_as_sent true frag = frag <-> utf8_valid frag = true.
Proof. unfold payload_as_sent. apply sent_unchanged_iff_valid. Qed.

Lemma text_exact_valid_frags fs lens c evs fr : fragments fs lens c = Some fr ->
  fragmentize fs lens true c = Some evs ->
  Forall (fun df => utf8_valid (fst df) = true) fr -> concat (map wire_payload evs) = c.
Proof.
  intros Hf H V. apply fragmentize_inv in H as (fr' & Hf' & ->). rewrite Hf in Hf'. injection Hf' as <-.
  rewrite wire_of_frags. rewrite <- (fragments_concat _ _ _ _ Hf). f_equal.
  apply map_ext_in. intros df Hin. rewrite Forall_forall in V.
  unfold payload_as_sent. apply enc_dec_valid. apply V. exact Hin.
Qed.

(* valid content, every cut at a code-point boundary (no fragment starts with a continuation byte) *)
Theorem text_exact_at_boundaries fs lens c evs fr : fragments fs lens c = Some fr ->
  fragmentize fs lens true c = Some evs -> utf8_valid c = true ->
  Forall (fun df => starts_ok (fst df) = true) fr -> concat (map wire_payload evs) = c.
Proof.
  intros Hf H V S. eapply text_exact_valid_frags; [exact Hf|exact H|].
  pose proof (fragments_concat _ _ _ _ Hf) as Hc.
  assert (Forall (fun p => utf8_valid p = true) (map fst fr)) as HV.
  { apply pieces_valid; [rewrite Hc; exact V|]. rewrite Forall_map. exact S. }
  rewrite Forall_map in HV. exact HV.
Qed.

(* ... and conversely, if all fragments are sent unchanged, each one is valid and so is the content *)
Theorem text_exact_only_valid fs lens c fr : fragments fs lens c = Some fr ->
  Forall (fun df => payload_as_sent true (fst df) = fst df) fr ->
  Forall (fun df => utf8_valid (fst df) = true) fr /\ utf8_valid c = true.
Proof.
  intros Hf H.
  assert (Forall (fun df => utf8_valid (fst df) = true) fr) as HV.
  { eapply Forall_impl; [|exact H]. intros df. apply text_fragment_exact_iff. }
  split; [exact HV|]. rewrite <- (fragments_concat _ _ _ _ Hf). apply concat_valid.
  rewrite Forall_map. exact HV.
Qed.

(* the finding: FRAGMENT_SIZE = 4000, a three-byte character across offset 4000 *)
Definition split_witness : bytes := repeat x61 3999 ++ [xe2; x82; xac; x62].

Lemma text_split_refuted :
  utf8_valid split_witness = true /\
  exists evs, fragmentize 4000 [] true split_witness = Some evs /\ concat (map wire_payload evs) <> split_witness.
Proof.
  split; [vm_compute; reflexivity|].
  eexists. split; [vm_compute; reflexivity|].
  intros H. apply (f_equal (@length byte)) in H. vm_compute in H. discriminate H.
Qed.

(* an edit that keeps the length but moves a character across a reused boundary: lens [1;3], content changed from a-euro to euro-a *)
Lemma text_same_length_refuted :
  exists evs, fragmentize 4000 [1; 3] true [xe2; x82; xac; x61] = Some evs
              /\ concat (map wire_payload evs) <> [xe2; x82; xac; x61].
Proof. eexists. split; [vm_compute; reflexivity|]. vm_compute. discriminate. Qed.

Lemma fragmentize_nonvacuous :
  fragmentize 4 [2; 2] false [x61; x62; x63; x64; x65] =
    Some [WBytes [x61; x62; x63; x64] true false; WBytes [x65] true true]
  /\ fragmentize 4 [3; 2] true [x61; xc3; xa9; x62; x63] =
    Some [WText [97%N; 233%N] true false; WText [98%N; 99%N] true true].
Proof. split; vm_compute; reflexivity. Qed.

Lemma fragments_partition fs lens content fr : fragments fs lens content = Some fr ->
  concat (map fst fr) = content /\ wf_frags fr.
Proof. intros H. split; [exact (fragments_concat _ _ _ _ H)|exact (fragments_wf _ _ _ _ H)]. Qed.
