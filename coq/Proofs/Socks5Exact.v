(* Proofs/Socks5Exact.v -- RFC 1928 / 1929 message encoders and what the Socks5Proxy
   model does on streams built from them: exact decoding on acceptance, the error
   replies on rejection.  Stated on the unsplit stream; Proofs/Socks5Main.v lifts
   them to every segmentation. *)
From Coq Require Import List Bool Arith NArith Lia.
From MV Require Import Base.Bytes Model.Socks5 Proofs.Socks5Seg.
Import ListNotations.

(* ---- encoders (the specification side) ---- *)
Definition len_byte (l : bytes) : byte := Nb (N.of_nat (length l)).

Definition enc_greeting (methods : bytes) : bytes := x05 :: len_byte methods :: methods.
Definition enc_auth (ver : byte) (u p : bytes) : bytes := ver :: len_byte u :: u ++ len_byte p :: p.

Inductive addr := A4 (a b c d : byte) | A6 (raw : bytes) | ADom (name : bytes).
Definition addr_wf (a : addr) : Prop :=
  match a with A4 _ _ _ _ => True | A6 raw => length raw = 16 | ADom n => length n <= 255 end.
Definition enc_addr (a : addr) : bytes :=
  match a with
  | A4 a b c d => [x01; a; b; c; d]
  | A6 raw => x04 :: raw
  | ADom n => x03 :: len_byte n :: n
  end.
Definition enc_request (a : addr) (hi lo : byte) : bytes :=
  [x05; x01; x00] ++ enc_addr a ++ [hi; lo].

(* the destination a request denotes, as the model represents hosts *)
Definition host_of (a : addr) : host :=
  match a with
  | A4 a b c d => HText (dotted a b c d)
  | A6 raw => HV6 raw
  | ADom n => HText (decode_ascii_replace n)
  end.

Definition required (c : cfg) : byte := if proxyauth c then x02 else x00.
Definition next_state (c : cfg) : bytes -> obs -> st :=
  if proxyauth c then state_auth c else state_connect c.

(* ---- list facts ---- *)
Lemma firstn_exact {A} (a b : list A) : firstn (length a) (a ++ b) = a.
Proof. rewrite firstn_app, Nat.sub_diag, firstn_all. cbn. apply app_nil_r. Qed.

Lemma skipn_exact {A} (a b : list A) : skipn (length a) (a ++ b) = b.
Proof. rewrite skipn_app, Nat.sub_diag, skipn_all. reflexivity. Qed.

Lemma blen_len_byte l : length l <= 255 -> blen (len_byte l) = length l.
Proof.
  intros H. unfold blen, len_byte. rewrite bN_Nb by lia. apply Nat2N.id.
Qed.

Lemma len_byte_blen (n : byte) (l : bytes) : length l = blen n -> len_byte l = n.
Proof.
  intros H. unfold len_byte. rewrite H. unfold blen. rewrite N2Nat.id. apply Nb_bN.
Qed.

Lemma blen_le n : blen n <= 255.
Proof. unfold blen. pose proof (bN_lt n). lia. Qed.

(* ---- cons forms: the state functions on a buffer whose head is exposed ---- *)
Lemma greet_cons c v n r o :
  state_greet c (v :: n :: r) o =
  if negb (byte_eqb v SOCKS5_VERSION) then socks_err o None
  else if length r <? blen n then (Greet (v :: n :: r), o)
  else if negb (existsb (byte_eqb (required c)) (firstn (blen n) r)) then
         socks_err o (Some SOCKS5_METHOD_NO_ACCEPTABLE_METHODS)
  else next_state c (skipn (blen n) r) (send o [SOCKS5_VERSION; required c]).
Proof.
  unfold state_greet, next_state, required, slice. cbn [length at_ nth].
  replace (2 + blen n - 2) with (blen n) by lia.
  change (2 + blen n) with (S (S (blen n))). cbn [skipn].
  change (S (S (length r)) <? 2) with false. cbv iota.
  change (S (S (length r)) <? S (S (blen n))) with (length r <? blen n).
  destruct (proxyauth c); reflexivity.
Qed.

Lemma auth_cons c v ul r o :
  state_auth c (v :: ul :: r) o =
  if length r <? 1 + blen ul then (Auth (v :: ul :: r), o)
  else
    let pl := nth (blen ul) r x00 in
    if length r <? 1 + blen ul + blen pl then (Auth (v :: ul :: r), o)
    else
      let user := firstn (blen ul) r in
      let password := firstn (blen pl) (skipn (1 + blen ul) r) in
      let o1 := set_creds o user password in
      if negb (authok c user password) then socks_err (send o1 [x01; x01]) None
      else state_connect c (skipn (1 + blen ul + blen pl) r) (send o1 [x01; x00]).
Proof.
  unfold state_auth, slice, at_.
  change (nth 1 (v :: ul :: r) x00) with ul.
  change (nth (2 + blen ul) (v :: ul :: r) x00) with (nth (blen ul) r x00).
  change (length (v :: ul :: r)) with (S (S (length r))).
  destruct (length r <? 1 + blen ul) eqn:E1.
  - apply Nat.ltb_lt in E1.
    destruct (S (S (length r)) <? 3) eqn:E0; [reflexivity|].
    destruct (S (S (length r)) <? 3 + blen ul) eqn:E2; [reflexivity|].
    apply Nat.ltb_ge in E2. lia.
  - apply Nat.ltb_ge in E1.
    replace (S (S (length r)) <? 3) with false by (symmetry; apply Nat.ltb_ge; lia).
    replace (S (S (length r)) <? 3 + blen ul) with false by (symmetry; apply Nat.ltb_ge; lia).
    cbv zeta.
    replace (S (S (length r)) <? 3 + blen ul + blen (nth (blen ul) r x00))
      with (length r <? 1 + blen ul + blen (nth (blen ul) r x00)).
    2:{ destruct (length r <? 1 + blen ul + blen (nth (blen ul) r x00)) eqn:E2; symmetry.
        - apply Nat.ltb_lt. apply Nat.ltb_lt in E2. lia.
        - apply Nat.ltb_ge. apply Nat.ltb_ge in E2. lia. }
    replace (2 + blen ul - 2) with (blen ul) by lia.
    replace (3 + blen ul + blen (nth (blen ul) r x00) - (3 + blen ul))
      with (blen (nth (blen ul) r x00)) by lia.
    change (skipn 2 (v :: ul :: r)) with r.
    change (skipn (3 + blen ul) (v :: ul :: r)) with (skipn (1 + blen ul) r).
    change (skipn (3 + blen ul + blen (nth (blen ul) r x00)) (v :: ul :: r))
      with (skipn (1 + blen ul + blen (nth (blen ul) r x00)) r).
    reflexivity.
Qed.

(* ---- greeting ---- *)
Lemma existsb_in m (l : bytes) : existsb (byte_eqb m) l = true <-> In m l.
Proof.
  rewrite existsb_exists. split.
  - intros [x [Hin E]]. apply byte_eqb_eq in E. subst. exact Hin.
  - intros H. exists m. split; [exact H | apply byte_eqb_refl].
Qed.

Lemma greet_accept c methods rest o :
  length methods <= 255 -> In (required c) methods ->
  state_greet c (enc_greeting methods ++ rest) o = next_state c rest (send o [x05; required c]).
Proof.
  intros Hl Hin. unfold enc_greeting. cbn [app]. rewrite greet_cons.
  rewrite blen_len_byte by exact Hl. cbn [byte_eqb negb]. rewrite byte_eqb_refl. cbn [negb].
  replace (length (methods ++ rest) <? length methods) with false
    by (symmetry; apply Nat.ltb_ge; rewrite app_length; lia).
  rewrite firstn_exact, skipn_exact.
  apply existsb_in in Hin. rewrite Hin. reflexivity.
Qed.

Lemma greet_reject_methods c methods rest o :
  length methods <= 255 -> ~ In (required c) methods ->
  state_greet c (enc_greeting methods ++ rest) o = socks_err o (Some xff).
Proof.
  intros Hl Hin. unfold enc_greeting. cbn [app]. rewrite greet_cons.
  rewrite blen_len_byte by exact Hl. rewrite byte_eqb_refl. cbn [negb].
  replace (length (methods ++ rest) <? length methods) with false
    by (symmetry; apply Nat.ltb_ge; rewrite app_length; lia).
  rewrite firstn_exact.
  destruct (existsb (byte_eqb (required c)) methods) eqn:E.
  - apply existsb_in in E. contradiction.
  - reflexivity.
Qed.

Lemma greet_reject_version c v n rest o :
  v <> x05 -> state_greet c (v :: n :: rest) o = socks_err o None.
Proof.
  intros H. rewrite greet_cons. apply byte_eqb_neq in H. unfold SOCKS5_VERSION. rewrite H.
  reflexivity.
Qed.

(* ---- username/password sub-negotiation (RFC 1929); VER is not inspected ---- *)
Lemma auth_step c ver u p rest o :
  length u <= 255 -> length p <= 255 ->
  state_auth c (enc_auth ver u p ++ rest) o =
  if authok c u p then state_connect c rest (send (set_creds o u p) [x01; x00])
  else socks_err (send (set_creds o u p) [x01; x01]) None.
Proof.
  intros Hu Hp. unfold enc_auth. cbn [app]. rewrite auth_cons.
  rewrite blen_len_byte by exact Hu.
  rewrite <- app_assoc. cbn [app].
  replace (length (u ++ len_byte p :: p ++ rest) <? 1 + length u) with false
    by (symmetry; apply Nat.ltb_ge; rewrite app_length; cbn [length]; lia).
  replace (nth (length u) (u ++ len_byte p :: p ++ rest) x00) with (len_byte p)
    by (rewrite app_nth2 by lia; rewrite Nat.sub_diag; reflexivity).
  cbv zeta. rewrite blen_len_byte by exact Hp.
  replace (length (u ++ len_byte p :: p ++ rest) <? 1 + length u + length p) with false
    by (symmetry; apply Nat.ltb_ge; rewrite app_length; cbn [length]; rewrite app_length; lia).
  rewrite firstn_exact.
  replace (skipn (1 + length u) (u ++ len_byte p :: p ++ rest)) with (p ++ rest).
  2:{ replace (u ++ len_byte p :: p ++ rest) with ((u ++ [len_byte p]) ++ p ++ rest)
        by (rewrite <- app_assoc; reflexivity).
      replace (1 + length u) with (length (u ++ [len_byte p]))
        by (rewrite app_length; cbn [length]; lia).
      rewrite skipn_exact. reflexivity. }
  rewrite firstn_exact.
  replace (skipn (1 + length u + length p) (u ++ len_byte p :: p ++ rest)) with rest.
  2:{ replace (u ++ len_byte p :: p ++ rest) with ((u ++ len_byte p :: p) ++ rest)
        by (rewrite <- app_assoc; reflexivity).
      replace (1 + length u + length p) with (length (u ++ len_byte p :: p))
        by (rewrite app_length; cbn [length]; lia).
      rewrite skipn_exact. reflexivity. }
  destruct (authok c u p); reflexivity.
Qed.

(* ---- connect request ---- *)
Lemma connect_cons_dom c n r o :
  state_connect c (x05 :: x01 :: x00 :: x03 :: n :: r) o =
  if length r <? blen n + 2 then (Connect (x05 :: x01 :: x00 :: x03 :: n :: r), o)
  else
    let msg := firstn (4 + 1 + blen n + 2) (x05 :: x01 :: x00 :: x03 :: n :: r) in
    match unpack_H (skipn (length msg - 2) msg) with
    | None => (Crashed, o)
    | Some port =>
        connect_finish c o (HText (decode_ascii_replace (slice 5 (length msg - 2) msg))) port
                       (skipn (blen n + 2) r)
    end.
Proof. reflexivity. Qed.

Lemma tail2 (p : bytes) hi lo : skipn (length (p ++ [hi; lo]) - 2) (p ++ [hi; lo]) = [hi; lo].
Proof.
  rewrite app_length. cbn [length]. replace (length p + 2 - 2) with (length p) by lia.
  apply skipn_exact.
Qed.

Lemma mid5 (a b c d e : byte) (name : bytes) hi lo :
  slice 5 (length (a :: b :: c :: d :: e :: name ++ [hi; lo]) - 2)
          (a :: b :: c :: d :: e :: name ++ [hi; lo]) = name.
Proof.
  unfold slice. cbn [length]. rewrite app_length. cbn [length].
  replace (S (S (S (S (S (length name + 2))))) - 2 - 5) with (length name) by lia.
  cbn [skipn]. apply firstn_exact.
Qed.

Lemma connect_accept c a hi lo trailing o :
  addr_wf a ->
  state_connect c (enc_request a hi lo ++ trailing) o
  = connect_finish c o (host_of a) (u16be hi lo) trailing.
Proof.
  intros Hwf. destruct a as [a b c0 d | raw | name].
  - reflexivity.
  - cbn [addr_wf] in Hwf.
    do 16 (destruct raw as [|? raw]; [discriminate Hwf|]).
    destruct raw; [|discriminate Hwf]. reflexivity.
  - cbn [addr_wf] in Hwf. unfold enc_request, enc_addr, host_of. cbn [app].
    rewrite connect_cons_dom. rewrite blen_len_byte by exact Hwf.
    match goal with |- context [if ?cnd then _ else _] =>
      replace cnd with false
        by (symmetry; apply Nat.ltb_ge; rewrite !app_length; cbn [length]; lia) end.
    cbv iota.
    change (4 + 1 + length name + 2) with (S (S (S (S (S (length name + 2)))))).
    cbn [firstn].
    match goal with |- context [x05 :: x01 :: x00 :: x03 :: len_byte name :: ?f] =>
      replace f with (name ++ [hi; lo])
        by (symmetry; replace (length name + 2) with (length (name ++ [hi; lo]))
              by (rewrite app_length; reflexivity); apply firstn_exact) end.
    match goal with |- context [connect_finish c o _ _ ?sk] =>
      replace sk with trailing
        by (symmetry; replace (length name + 2) with (length (name ++ [hi; lo]))
              by (rewrite app_length; reflexivity); apply skipn_exact) end.
    cbv zeta.
    match goal with |- context [decode_ascii_replace ?t] =>
      replace t with name by (symmetry; apply mid5) end.
    match goal with |- context [unpack_H ?t] =>
      replace t with [hi; lo]
        by (symmetry; apply (tail2 (x05 :: x01 :: x00 :: x03 :: len_byte name :: name) hi lo)) end.
    reflexivity.
Qed.

Lemma connect_reject_header c b0 b1 b2 b3 b4 rest o :
  [b0; b1; b2] <> [x05; x01; x00] ->
  state_connect c (b0 :: b1 :: b2 :: b3 :: b4 :: rest) o
  = socks_err o (Some SOCKS5_REP_COMMAND_NOT_SUPPORTED).
Proof.
  intros H. unfold state_connect.
  change (length (b0 :: b1 :: b2 :: b3 :: b4 :: rest) <? 5) with false. cbv iota.
  change (firstn 3 (b0 :: b1 :: b2 :: b3 :: b4 :: rest)) with [b0; b1; b2].
  destruct (bytes_eqb [b0; b1; b2] [x05; x01; x00]) eqn:E.
  - apply bytes_eqb_eq in E. contradiction.
  - reflexivity.
Qed.

Lemma connect_reject_atyp c atyp b4 rest o :
  atyp <> x01 -> atyp <> x03 -> atyp <> x04 ->
  state_connect c (x05 :: x01 :: x00 :: atyp :: b4 :: rest) o
  = socks_err o (Some SOCKS5_REP_ADDRESS_TYPE_NOT_SUPPORTED).
Proof.
  intros H1 H3 H4. unfold state_connect.
  change (length (x05 :: x01 :: x00 :: atyp :: b4 :: rest) <? 5) with false. cbv iota.
  change (firstn 3 (x05 :: x01 :: x00 :: atyp :: b4 :: rest)) with [x05; x01; x00].
  change (bytes_eqb [x05; x01; x00] [x05; x01; x00]) with true. cbn [negb]. cbv iota.
  change (at_ 3 (x05 :: x01 :: x00 :: atyp :: b4 :: rest)) with atyp.
  unfold message_len.
  apply byte_eqb_neq in H1, H3, H4.
  unfold SOCKS5_ATYP_IPV4_ADDRESS, SOCKS5_ATYP_IPV6_ADDRESS, SOCKS5_ATYP_DOMAINNAME.
  rewrite H1, H3, H4. reflexivity.
Qed.

(* ---- text forms ---- *)
Definition all_ascii (s : bytes) : Prop := forall b, In b s -> (bN b < 128)%N.

Lemma decode_ascii_exact s : all_ascii s -> decode_ascii_replace s = s.
Proof.
  unfold all_ascii, decode_ascii_replace. induction s as [|b s IH]; intros H; cbn [flat_map].
  - reflexivity.
  - assert (Hb : (bN b < 128)%N) by (apply H; left; reflexivity).
    apply N.ltb_lt in Hb. rewrite Hb. cbn [app]. f_equal. apply IH.
    intros x Hx. apply H. right. exact Hx.
Qed.

(* decode(ascii, replace) is lossy: two different requested names, one destination *)
Lemma decode_ascii_lossy : decode_ascii_replace [x80] = decode_ascii_replace [x81] /\ [x80] <> [x81].
Proof. split; [reflexivity | discriminate]. Qed.

(* dotted-quad text determines the four bytes: parse it back *)
Fixpoint parse_dec (acc : N) (s : bytes) : N * bytes :=
  match s with
  | d :: r => if is_digit d then parse_dec (acc * 10 + (bN d - 48))%N r else (acc, s)
  | [] => (acc, [])
  end.

Definition parse_dotted (s : bytes) : option (byte * byte * byte * byte) :=
  let '(a, r1) := parse_dec 0 s in
  match r1 with
  | x2e :: r1 =>
    let '(b, r2) := parse_dec 0 r1 in
    match r2 with
    | x2e :: r2 =>
      let '(c, r3) := parse_dec 0 r2 in
      match r3 with
      | x2e :: r3 =>
        let '(d, r4) := parse_dec 0 r3 in
        match r4 with [] => Some (Nb a, Nb b, Nb c, Nb d) | _ => None end
      | _ => None
      end
    | _ => None
    end
  | _ => None
  end.

Lemma parse_dec_dot a r : parse_dec 0 (dec_of_N (bN a) ++ DOT :: r) = (bN a, DOT :: r).
Proof. destruct a; reflexivity. Qed.

Lemma parse_dec_end a : parse_dec 0 (dec_of_N (bN a)) = (bN a, []).
Proof. destruct a; reflexivity. Qed.

Lemma parse_dotted_dotted a b c d : parse_dotted (dotted a b c d) = Some (a, b, c, d).
Proof.
  unfold parse_dotted, dotted.
  rewrite parse_dec_dot. unfold DOT at 1.
  rewrite parse_dec_dot. unfold DOT at 1.
  rewrite parse_dec_dot. unfold DOT at 1.
  rewrite parse_dec_end. rewrite !Nb_bN. reflexivity.
Qed.

Lemma dotted_injective a b c d a' b' c' d' :
  dotted a b c d = dotted a' b' c' d' -> (a, b, c, d) = (a', b', c', d').
Proof.
  intros H. apply (f_equal parse_dotted) in H. rewrite !parse_dotted_dotted in H.
  injection H as -> -> -> ->. reflexivity.
Qed.
