(* Proofs/MvCommonLemmas.v -- list lemmas about the helpers of Model/MvCommon.v (C34). *)
From Coq Require Import List Bool NArith Lia.
From MV Require Import Base.Bytes Model.MvCommon.
Import ListNotations.

Lemma memb_false_neq c x l : memb c l = false -> In x l -> byte_eqb c x = false.
Proof.
  unfold memb. intros H Hin. destruct (byte_eqb c x) eqn:E; [|reflexivity].
  assert (existsb (byte_eqb c) l = true) by (apply existsb_exists; eauto). congruence.
Qed.

Lemma memb_app c a b : memb c (a ++ b) = memb c a || memb c b.
Proof. apply existsb_app. Qed.

Lemma byte_eqb_sym a b : byte_eqb a b = byte_eqb b a.
Proof.
  destruct (byte_eqb a b) eqn:E.
  - apply byte_eqb_eq in E. subst. symmetry. apply byte_eqb_refl.
  - symmetry. apply byte_eqb_neq. apply byte_eqb_neq in E. congruence.
Qed.

(* P holds of every byte => c (which fails P) is not a member *)
Lemma forallb_memb_false (P : byte -> bool) c s :
  forallb P s = true -> P c = false -> memb c s = false.
Proof.
  intros H Hc. unfold memb. destruct (existsb (byte_eqb c) s) eqn:E; [|reflexivity].
  apply existsb_exists in E as [x [Hin Hx]]. apply byte_eqb_eq in Hx. subst x.
  rewrite forallb_forall in H. rewrite (H _ Hin) in Hc. discriminate.
Qed.

(* ---- break_at ---- *)
Lemma break_at_spec c s a b : break_at c s = Some (a, b) -> s = a ++ c :: b /\ memb c a = false.
Proof.
  revert a b. induction s as [|x s IH]; intros a b H; simpl in H; [discriminate|].
  destruct (byte_eqb x c) eqn:E.
  - inversion H; subst. apply byte_eqb_eq in E. subst. split; reflexivity.
  - destruct (break_at c s) as [[a' b']|]; [|discriminate]. inversion H; subst.
    destruct (IH a' b eq_refl) as [-> Hm]. split; [reflexivity|].
    unfold memb in *. simpl. rewrite byte_eqb_sym, E. exact Hm.
Qed.

Lemma break_at_app c a b : memb c a = false -> break_at c (a ++ c :: b) = Some (a, b).
Proof.
  induction a as [|x a IH]; intros H; simpl.
  - rewrite byte_eqb_refl. reflexivity.
  - unfold memb in H. simpl in H. apply orb_false_iff in H as [H1 H2].
    rewrite byte_eqb_sym, H1. rewrite IH by exact H2. reflexivity.
Qed.

Lemma break_at_none c s : memb c s = false -> break_at c s = None.
Proof.
  induction s as [|x s IH]; intros H; simpl; [reflexivity|].
  unfold memb in H. simpl in H. apply orb_false_iff in H as [H1 H2].
  rewrite byte_eqb_sym, H1. rewrite IH by exact H2. reflexivity.
Qed.

(* ---- split_char / join ---- *)
Lemma split_char_nomem c s : memb c s = false -> split_char c s = [s].
Proof.
  induction s as [|x s IH]; intros H; simpl; [reflexivity|].
  unfold memb in H. simpl in H. apply orb_false_iff in H as [H1 H2].
  rewrite byte_eqb_sym, H1. rewrite IH by exact H2. reflexivity.
Qed.

Lemma split_char_app c a b : memb c a = false -> split_char c (a ++ c :: b) = a :: split_char c b.
Proof.
  induction a as [|x a IH]; intros H; simpl.
  - rewrite byte_eqb_refl. reflexivity.
  - unfold memb in H. simpl in H. apply orb_false_iff in H as [H1 H2].
    rewrite byte_eqb_sym, H1. rewrite IH by exact H2. reflexivity.
Qed.

Lemma join_cons2 sep x y l : join sep (x :: y :: l) = x ++ sep ++ join sep (y :: l).
Proof. reflexivity. Qed.

Lemma split_join c items :
  items <> [] -> (forall i, In i items -> memb c i = false) ->
  split_char c (join [c] items) = items.
Proof.
  induction items as [|x l IH]; intros Hne H; [congruence|].
  destruct l as [|y l].
  - simpl. apply split_char_nomem. apply H. left; reflexivity.
  - rewrite join_cons2. simpl app. rewrite split_char_app by (apply H; left; reflexivity).
    f_equal. apply IH; [discriminate|]. intros i Hi. apply H. right; exact Hi.
Qed.

(* ---- span ---- *)
Lemma span_app p a x b : forallb p a = true -> p x = false -> span p (a ++ x :: b) = (a, x :: b).
Proof.
  induction a as [|y a IH]; intros H Hx; simpl.
  - rewrite Hx. reflexivity.
  - simpl in H. apply andb_true_iff in H as [H1 H2]. rewrite H1, IH by assumption. reflexivity.
Qed.

Lemma span_all p a : forallb p a = true -> span p a = (a, []).
Proof.
  induction a as [|y a IH]; intros H; simpl; [reflexivity|].
  simpl in H. apply andb_true_iff in H as [H1 H2]. rewrite H1, IH by assumption. reflexivity.
Qed.

Lemma forallb_impl (P Q : byte -> bool) s :
  (forall c, P c = true -> Q c = true) -> forallb P s = true -> forallb Q s = true.
Proof. intros H. rewrite !forallb_forall. intros HP x Hx. apply H, HP, Hx. Qed.

(* ---- header list: one value written, read back ---- *)
Lemma get_all_set_all_go name v h :
  let '(r, rest) := set_all_go (lower name) h [v] in
  get_all name (r ++ map (fun x => (name, x)) rest) = [v].
Proof.
  assert (G0 : forall h, let '(r, rest) := set_all_go (lower name) h [] in
                         rest = [] /\ get_all name r = []).
  { induction h0 as [|f h0 IH]; simpl; [split; reflexivity|].
    destruct (bytes_eqb (lower (fst f)) (lower name)) eqn:E.
    - exact IH.
    - destruct (set_all_go (lower name) h0 []) as [r rest]. destruct IH as [-> IH].
      split; [reflexivity|]. unfold get_all in *. simpl. rewrite E. exact IH. }
  induction h as [|f h IH]; simpl.
  - unfold get_all. simpl. rewrite bytes_eqb_refl. reflexivity.
  - destruct (bytes_eqb (lower (fst f)) (lower name)) eqn:E.
    + specialize (G0 h). destruct (set_all_go (lower name) h []) as [r rest].
      destruct G0 as [-> G]. simpl. rewrite app_nil_r. unfold get_all in *. simpl. rewrite E. simpl.
      rewrite G. reflexivity.
    + destruct (set_all_go (lower name) h [v]) as [r rest]. unfold get_all in *. simpl. rewrite E. exact IH.
Qed.

Lemma get_all_set_all name v h : get_all name (set_all name [v] h) = [v].
Proof.
  unfold set_all. pose proof (get_all_set_all_go name v h) as H.
  destruct (set_all_go (lower name) h [v]) as [r rest]. exact H.
Qed.

Lemma break_at_none_memb c s : break_at c s = None -> memb c s = false.
Proof.
  induction s as [|x s IH]; intros H; [reflexivity|]. simpl in H.
  destruct (byte_eqb x c) eqn:E; [discriminate|].
  destruct (break_at c s) as [[a b]|]; [discriminate|].
  unfold memb in *. simpl. rewrite byte_eqb_sym, E. apply IH. reflexivity.
Qed.
