(* Proofs/WsRelay2.v -- relay_messages, continued: close code/reason recording, nothing after the
   close, ping/pong relay, and the concrete counterexamples (findings). *)
From Coq Require Import List Bool Arith NArith Lia.
From MV Require Import Base.Bytes Model.WsUtf8 Model.Websocket Proofs.WsUtf8 Proofs.WsFragment Proofs.WsRelay.
Import ListNotations.

Definition is_close_ev (e : wsevent) : bool := match e with WClose _ _ => true | _ => false end.

Lemma process_event_crashed fs addon fc inj s e : is_crashed s = true -> process_event fs addon fc inj s e = (s, []).
Proof. intros C. unfold process_event. rewrite C. reflexivity. Qed.

Lemma process_events_crashed fs addon fc inj : forall evs s, is_crashed s = true ->
  process_events fs addon fc inj s evs = (s, []).
Proof.
  induction evs as [|e evs IH]; intros s C; cbn [process_events]; [reflexivity|].
  rewrite (process_event_crashed _ _ _ _ _ _ C), (IH _ C). reflexivity.
Qed.

(* after the close nothing is handled any more (WebsocketLayer.done) *)
Lemma done_noop fs addon : forall evs s, finished s = true -> run fs addon s evs = (s, []).
Proof.
  induction evs as [|e evs IH]; intros s F; cbn [run]; [reflexivity|].
  unfold handle_event. rewrite F. cbn [orb]. rewrite (IH _ F). reflexivity.
Qed.

Lemma run_app fs addon : forall a b s,
  run fs addon s (a ++ b) =
  let (s1, c1) := run fs addon s a in let (s2, c2) := run fs addon s1 b in (s2, c1 ++ c2).
Proof.
  induction a as [|e a IH]; intros b s; cbn [run app].
  - destruct (run fs addon s b). reflexivity.
  - destruct (handle_event fs addon s e) as [sa ca]. rewrite IH.
    destruct (run fs addon sa a) as [sb cb]. destruct (run fs addon sb b) as [sc cc].
    rewrite app_assoc. reflexivity.
Qed.

Lemma close_one_in c ev s s1 cs : close_one c ev s = (s1, cs) -> In (CCloseConn c) cs.
Proof.
  unfold close_one. destruct (sendable _).
  - destruct (send2 c ev s) as [sa ca]. intros H. injection H as _ <-. apply in_or_app. right. left. reflexivity.
  - intros H. injection H as _ <-. left. reflexivity.
Qed.

(* ---- a close event: code and reason are recorded, both connections are closed, the layer is done ---- *)
Lemma process_event_close fs addon fc inj s code reason st s1 cs :
  process_event fs addon fc inj s (WClose code reason, st) = (s1, cs) -> is_crashed s1 = false ->
  closed s1 = Some (fc, code, reason) /\ finished s1 = true
  /\ In (CCloseConn false) cs /\ In (CCloseConn true) cs /\ In CEndHook cs.
Proof.
  unfold process_event. destruct (is_crashed s) eqn:C.
  { intros H. injection H as <- <-. congruence. }
  destruct (close_one false _ _) as [sa ca] eqn:E1. destruct (close_one true _ sa) as [sb cb] eqn:E2.
  intros H NC. injection H as <- <-. cbn in NC.
  destruct (close_one_inv true (WClose code reason) _ _ _ eq_refl eq_refl E2 NC) as (Ca & _ & Clb & _ & _ & _).
  destruct (close_one_inv false (WClose code reason) _ _ _ eq_refl eq_refl E1 Ca) as (_ & _ & Cla & _ & _ & _).
  split; [cbn; rewrite Clb, Cla; reflexivity|]. split; [reflexivity|].
  pose proof (close_one_in _ _ _ _ _ E1) as I1. pose proof (close_one_in _ _ _ _ _ E2) as I2.
  split; [apply in_or_app; left; exact I1|]. split; [apply in_or_app; right; apply in_or_app; left; exact I2|].
  apply in_or_app; right; apply in_or_app; right; left; reflexivity.
Qed.

(* ---- events other than close: closed/finished unchanged, pings and pongs relayed to the other side ---- *)
Definition ctrl_expected (fc side : bool) (evs : list (wsevent * wsstate)) : list wsevent :=
  if Bool.eqb fc (negb side) then filter is_ctrl_ev (map fst evs) else [].

Lemma process_event_nc fs addon fc inj s ev st s1 cs : is_close_ev ev = false ->
  process_event fs addon fc inj s (ev, st) = (s1, cs) -> is_crashed s = false -> is_crashed s1 = false ->
  closed s1 = closed s /\ finished s1 = finished s
  /\ forall side, ctrl_sends side cs = ctrl_expected fc side [(ev, st)].
Proof.
  intros K. unfold process_event. intros H C NC. rewrite C in H.
  set (s0 := set_ws fc _ s) in H.
  assert (C0 : is_crashed s0 = false) by (unfold s0; now rewrite set_ws_crashed).
  assert (Cl0 : closed s0 = closed s) by apply set_ws_closed.
  assert (F0 : finished s0 = finished s) by apply set_ws_finished.
  assert (QM : forall t d ff mf, on_message fs addon fc inj t d ff mf s0 = (s1, cs) ->
               forall side, ctrl_sends side cs = []).
  { intros t d ff mf H' side. unfold on_message in H'. destruct mf.
    - destruct (addon _) as [c' d']. destruct d'; [injection H' as _ <-; reflexivity|].
      destruct (fragmentize _ _ _ _) as [es|] eqn:EF; [|injection H' as _ <-; reflexivity].
      destruct (send_all _ es _) as [s3 c3] eqn:ES. injection H' as <- <-.
      destruct (send_all_inv _ _ _ _ _ ES NC) as (_ & _ & _ & _ & ->).
      unfold ctrl_sends. change (CMsgHook :: ?l) with ([CMsgHook] ++ l). rewrite sends_app. cbn [sends flat_map sel app].
      apply sends_map_none. eapply Forall_impl; [|exact (fragmentize_msgs _ _ _ _ _ EF)].
      intros e He. destruct e; cbn in *; congruence.
    - destruct ff; injection H' as _ <-; reflexivity. }
  destruct ev as [d ff mf|d ff mf|p|p|code reason]; try discriminate K.
  - destruct (on_message_ok _ _ _ _ _ _ _ _ _ _ _ H C0 NC) as (_ & Cl & F).
    split; [congruence|]. split; [congruence|]. intros side. rewrite (QM _ _ _ _ H).
    unfold ctrl_expected. cbn. destruct (Bool.eqb fc (negb side)); reflexivity.
  - destruct (on_message_ok _ _ _ _ _ _ _ _ _ _ _ H C0 NC) as (_ & Cl & F).
    split; [congruence|]. split; [congruence|]. intros side. rewrite (QM _ _ _ _ H).
    unfold ctrl_expected. cbn. destruct (Bool.eqb fc (negb side)); reflexivity.
  - destruct (send2 _ _ s0) as [sa ca] eqn:E. injection H as <- <-.
    destruct (send2_inv _ _ _ _ _ E NC) as (_ & _ & Cl & F & ->).
    split; [congruence|]. split; [congruence|]. intros side. unfold ctrl_expected. cbn.
    destruct fc, side; reflexivity.
  - destruct (send2 _ _ s0) as [sa ca] eqn:E. injection H as <- <-.
    destruct (send2_inv _ _ _ _ _ E NC) as (_ & _ & Cl & F & ->).
    split; [congruence|]. split; [congruence|]. intros side. unfold ctrl_expected. cbn.
    destruct fc, side; reflexivity.
Qed.

Lemma ctrl_expected_cons fc side e evs :
  ctrl_expected fc side (e :: evs) = ctrl_expected fc side [e] ++ ctrl_expected fc side evs.
Proof.
  unfold ctrl_expected. destruct (Bool.eqb fc (negb side)); [|reflexivity].
  cbn. destruct (is_ctrl_ev (fst e)); reflexivity.
Qed.

Lemma process_events_nc fs addon fc inj : forall evs s s1 cs,
  Forall (fun e => is_close_ev (fst e) = false) evs ->
  process_events fs addon fc inj s evs = (s1, cs) -> is_crashed s = false -> is_crashed s1 = false ->
  closed s1 = closed s /\ finished s1 = finished s
  /\ forall side, ctrl_sends side cs = ctrl_expected fc side evs.
Proof.
  induction evs as [|e evs IH]; intros s s1 cs NCl H C NC; cbn [process_events] in H.
  - injection H as <- <-. repeat split. intros side. unfold ctrl_expected. destruct (Bool.eqb _ _); reflexivity.
  - inversion NCl as [|? ? K NCl']; subst.
    destruct (process_event fs addon fc inj s e) as [sa ca] eqn:E1.
    destruct (process_events fs addon fc inj sa evs) as [sb cb] eqn:E2. injection H as <- <-.
    assert (Ca : is_crashed sa = false).
    { destruct (is_crashed sa) eqn:X; [|reflexivity].
      rewrite (process_events_crashed _ _ _ _ _ _ X) in E2. injection E2 as <- <-. congruence. }
    destruct e as [ev st].
    destruct (process_event_nc _ _ _ _ _ _ _ _ _ K E1 C Ca) as (Cl1 & F1 & P1).
    destruct (IH _ _ _ NCl' E2 Ca NC) as (Cl2 & F2 & P2).
    split; [congruence|]. split; [congruence|]. intros side.
    unfold ctrl_sends in *. rewrite sends_app, P1, P2. symmetry. apply ctrl_expected_cons.
Qed.

(* layer events that do not close the connection *)
Definition no_close (e : levent) : Prop :=
  match e with
  | LData _ evs => Forall (fun e => is_close_ev (fst e) = false) evs
  | LClosed _ => False
  | LInject _ _ _ => True
  end.

Definition pings_of (side : bool) (e : levent) : list wsevent :=
  match e with LData fc evs => ctrl_expected fc side evs | _ => [] end.

Lemma handle_event_nc fs addon s e s1 cs : no_close e ->
  handle_event fs addon s e = (s1, cs) -> is_crashed s = false -> is_crashed s1 = false -> finished s = false ->
  closed s1 = closed s /\ finished s1 = false /\ forall side, ctrl_sends side cs = pings_of side e.
Proof.
  intros NCl H C NC F. unfold handle_event in H. rewrite F, C in H. cbn [orb] in H.
  destruct e as [fc evs|fc|fc t content]; cbn in NCl.
  - destruct (process_events_nc _ _ _ _ _ _ _ _ NCl H C NC) as (Cl & F1 & P). rewrite F1. auto.
  - contradiction.
  - destruct (fragmentize fs [] t content) as [es|] eqn:EF; [|injection H as <- <-; cbn in NC; discriminate].
    assert (NCl' : Forall (fun e => is_close_ev (fst e) = false) (map (fun e => (e, cstate (get_ws fc s))) es)).
    { rewrite Forall_map. eapply Forall_impl; [|exact (fragmentize_msgs _ _ _ _ _ EF)].
      intros e He. destruct e; cbn in *; congruence. }
    destruct (process_events_nc _ _ _ _ _ _ _ _ NCl' H C NC) as (Cl & F1 & P). rewrite F1.
    split; [exact Cl|]. split; [exact F|]. intros side. rewrite P. unfold ctrl_expected, pings_of.
    destruct (Bool.eqb fc (negb side)); [|reflexivity]. rewrite map_map. cbn [fst].
    rewrite map_id. pose proof (fragmentize_msgs _ _ _ _ _ EF) as HM.
    clear - HM. induction HM as [|e es He _ IH]; [reflexivity|]. cbn. destruct e; cbn in *; try discriminate; exact IH.
Qed.

Lemma run_nc fs addon : forall evs s s1 cs, Forall no_close evs ->
  run fs addon s evs = (s1, cs) -> is_crashed s = false -> is_crashed s1 = false -> finished s = false ->
  closed s1 = closed s /\ finished s1 = false /\ forall side, ctrl_sends side cs = flat_map (pings_of side) evs.
Proof.
  induction evs as [|e evs IH]; intros s s1 cs NCl H C NC F; cbn [run] in H.
  - injection H as <- <-. auto.
  - inversion NCl as [|? ? K NCl']; subst.
    destruct (handle_event fs addon s e) as [sa ca] eqn:E1.
    destruct (run fs addon sa evs) as [sb cb] eqn:E2. injection H as <- <-.
    assert (Ca : is_crashed sa = false).
    { destruct (is_crashed sa) eqn:X; [|reflexivity]. rewrite (crashed_sticky_run _ _ _ _ X) in E2.
      injection E2 as <- <-. congruence. }
    destruct (handle_event_nc _ _ _ _ _ _ K E1 C Ca F) as (Cl1 & F1 & P1).
    destruct (IH _ _ _ NCl' E2 Ca NC F1) as (Cl2 & F2 & P2).
    split; [congruence|]. split; [exact F2|]. intros side. unfold ctrl_sends in *.
    rewrite sends_app, P1, P2. reflexivity.
Qed.

(* while the connection is open, every ping and pong is relayed to the other peer, in order, and nothing else *)
Theorem pings_relayed fs addon evs s1 cs : Forall no_close evs ->
  run fs addon init evs = (s1, cs) -> is_crashed s1 = false ->
  forall side, ctrl_sends side cs = flat_map (pings_of side) evs.
Proof. intros NCl H NC. exact (proj2 (proj2 (run_nc _ _ _ _ _ _ NCl H eq_refl NC eq_refl))). Qed.

(* the recorded close code and reason are those of the first close event; the layer is then done *)
Theorem close_frame_recorded fs addon pre fc evs1 code reason st post s1 cs :
  Forall no_close pre -> Forall (fun e => is_close_ev (fst e) = false) evs1 ->
  run fs addon init (pre ++ LData fc (evs1 ++ [(WClose code reason, st)]) :: post) = (s1, cs) ->
  is_crashed s1 = false ->
  closed s1 = Some (fc, code, reason) /\ finished s1 = true.
Proof.
  intros NP NE H NC. rewrite run_app in H.
  destruct (run fs addon init pre) as [sa ca] eqn:E1. cbn [run] in H.
  destruct (handle_event fs addon sa _) as [sb cb] eqn:E2.
  destruct (run fs addon sb post) as [sc cc] eqn:E3. injection H as <- <-.
  assert (Cb : is_crashed sb = false).
  { destruct (is_crashed sb) eqn:X; [|reflexivity]. rewrite (crashed_sticky_run _ _ _ _ X) in E3.
    injection E3 as <- <-. congruence. }
  assert (Ca : is_crashed sa = false).
  { destruct (is_crashed sa) eqn:X; [|reflexivity]. rewrite (crashed_sticky_handle _ _ _ _ X) in E2.
    injection E2 as <- <-. congruence. }
  destruct (run_nc _ _ _ _ _ _ NP E1 eq_refl Ca eq_refl) as (_ & Fa & _).
  unfold handle_event in E2. rewrite Fa, Ca in E2. cbn [orb] in E2.
  assert (G : closed sb = Some (fc, code, reason) /\ finished sb = true).
  { clear E3.
    assert (forall evs s s' c, process_events fs addon fc false s (evs ++ [(WClose code reason, st)]) = (s', c) ->
            is_crashed s' = false -> closed s' = Some (fc, code, reason) /\ finished s' = true) as Q.
    { induction evs as [|e evs IH]; intros s s' c HH NN; cbn [process_events app] in HH.
      - destruct (process_event _ _ _ _ s _) as [sx cx] eqn:EX. injection HH as <- <-.
        destruct (process_event_close _ _ _ _ _ _ _ _ _ _ EX NN) as (A & B & _). auto.
      - destruct (process_event _ _ _ _ s e) as [sx cx] eqn:EX.
        destruct (process_events _ _ _ _ sx _) as [sy cy] eqn:EY. injection HH as <- <-. eapply IH; eauto. }
    eapply Q; eauto. }
  destruct G as [G1 G2]. rewrite (done_noop _ _ _ _ G2) in E3. injection E3 as <- <-. auto.
Qed.

Theorem eof_recorded fs addon pre fc post s1 cs :
  Forall no_close pre -> run fs addon init (pre ++ LClosed fc :: post) = (s1, cs) -> is_crashed s1 = false ->
  closed s1 = Some (fc, 1006%N, None) /\ finished s1 = true.
Proof.
  intros NP H NC. rewrite run_app in H.
  destruct (run fs addon init pre) as [sa ca] eqn:E1. cbn [run] in H.
  destruct (handle_event fs addon sa _) as [sb cb] eqn:E2.
  destruct (run fs addon sb post) as [sc cc] eqn:E3. injection H as <- <-.
  assert (Cb : is_crashed sb = false).
  { destruct (is_crashed sb) eqn:X; [|reflexivity]. rewrite (crashed_sticky_run _ _ _ _ X) in E3.
    injection E3 as <- <-. congruence. }
  assert (Ca : is_crashed sa = false).
  { destruct (is_crashed sa) eqn:X; [|reflexivity]. rewrite (crashed_sticky_handle _ _ _ _ X) in E2.
    injection E2 as <- <-. congruence. }
  destruct (run_nc _ _ _ _ _ _ NP E1 eq_refl Ca eq_refl) as (_ & Fa & _).
  unfold handle_event in E2. rewrite Fa, Ca in E2. cbn [orb process_events] in E2.
  destruct (process_event _ _ _ _ sa _) as [sx cx] eqn:EX. injection E2 as <- <-.
  destruct (process_event_close _ _ _ _ _ _ _ _ _ _ EX Cb) as (A & B & _).
  rewrite (done_noop _ _ _ _ B) in E3. injection E3 as <- <-. auto.
Qed.

(* ---- findings as theorems about the model ---- *)

Definition keep_addon : addon_t :=
  fun ms => (m_content (last ms (mkMsg false false [] false false [] [])), false).
Definition append_addon (x : bytes) : addon_t :=
  fun ms => (m_content (last ms (mkMsg false false [] false false [] [])) ++ x, false).

(* 1. a modified text message whose 4000-byte cut falls inside a character is not delivered with its recorded content *)
Definition split_session : list levent :=
  [LData true [(WText (repeat 97%N 3999 ++ [8364%N]) true true, OPEN)]].

Lemma text_split_session_refuted :
  let (s1, cs) := run 4000 (append_addon [x62]) init split_session in
  is_crashed s1 = false
  /\ map (fun m => utf8_valid (m_content m)) (messages s1) = [true]
  /\ reasm [] (msg_sends false cs) <> map (fun m => (m_text m, m_content m)) (filter (relayed false) (messages s1)).
Proof.
  vm_compute. split; [reflexivity|]. split; [reflexivity|]. intros H.
  apply (f_equal (map (fun p : bool * bytes => length (snd p)))) in H. vm_compute in H. discriminate H.
Qed.

(* 2. a message injected while a fragmented message of the same side is in progress is merged with it:
      client BINARY abc (not final), injected TEXT xyz from the client side, client continuation def (final) *)
Definition inject_session : list levent :=
  [LData true [(WBytes [x61; x62; x63] true false, OPEN)];
   LInject true true [x78; x79; x7a];
   LData true [(WBytes [x64; x65; x66] true true, OPEN)]].

Lemma inject_mid_message_refuted :
  let (s1, cs) := run 4000 keep_addon init inject_session in
  is_crashed s1 = false
  /\ map (fun m => (m_text m, m_injected m, m_content m)) (messages s1)
     = [(true, true, [x61; x62; x63; x78; x79; x7a]); (false, false, [x64; x65; x66])].
Proof. vm_compute. split; reflexivity. Qed.

Lemma relay_nonvacuous :
  let evs := [LData true [(WText [97%N; 233%N] true false, OPEN)];
              LData false [(WPing [x70], OPEN)];
              LData true [(WText [98%N] true true, OPEN)];
              LData false [(WClose 4000%N (Some [98%N]), REMOTE_CLOSING)]] in
  let (s1, cs) := run 4000 keep_addon init evs in
  is_crashed s1 = false /\ Forall no_close (firstn 3 evs)
  /\ msg_sends false cs = [WText [97%N; 233%N] true false; WText [98%N] true true]
  /\ ctrl_sends true cs = [WPing [x70]]
  /\ closed s1 = Some (false, 4000%N, Some [98%N]).
Proof.
  vm_compute. split; [reflexivity|]. split; [|repeat split; reflexivity].
  repeat constructor.
Qed.
