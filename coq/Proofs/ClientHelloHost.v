(* Proofs/ClientHelloHost.v -- C13: an RFC 6066 HostName (dot-joined LDH labels) passes is_valid_host, provided
   the IDNA library accepts its ACE-prefixed labels. *)
From Coq Require Import List Bool Arith NArith Lia ZifyBool.
From MV Require Import Base.Bytes Model.ClientHello Model.TlsRef Proofs.ClientHelloBase.
Import ListNotations.
Local Open Scope N_scope.

Lemma label_char_facts b :
  ref_label_char b = true ->
  label_char b = true /\ byte_eqb b DOT = false /\ is_ascii_b b = true /\ byte_eqb b x0a = false.
Proof.
  revert b.
  assert (H : forall b, implb (ref_label_char b)
               (label_char b && negb (byte_eqb b DOT) && is_ascii_b b && negb (byte_eqb b x0a)) = true).
  { apply forall_bytes. vm_compute. reflexivity. }
  intros b Hb. specialize (H b). rewrite Hb in H. cbn [implb] in H.
  apply andb_prop in H. destruct H as [H H4]. apply andb_prop in H. destruct H as [H H3].
  apply andb_prop in H. destruct H as [H1 H2].
  repeat split; try assumption; apply negb_true_iff; assumption.
Qed.

Definition nodots (l : bytes) : Prop := forallb (fun b => negb (byte_eqb b DOT)) l = true.

Lemma split_nodots l : nodots l -> split_on DOT l = [l].
Proof.
  unfold nodots. induction l as [|c l IH]; [reflexivity|]. cbn [forallb split_on]. intros H.
  apply andb_prop in H. destruct H as [Hc Hl]. apply negb_true_iff in Hc. rewrite Hc.
  rewrite IH by exact Hl. reflexivity.
Qed.

Lemma split_app_dot l rest : nodots l -> split_on DOT (l ++ DOT :: rest) = l :: split_on DOT rest.
Proof.
  unfold nodots. induction l as [|c l IH]; intros H.
  - cbn [app split_on]. replace (byte_eqb DOT DOT) with true by reflexivity. reflexivity.
  - cbn [forallb] in H. apply andb_prop in H. destruct H as [Hc Hl]. apply negb_true_iff in Hc.
    cbn [app split_on]. rewrite Hc. rewrite IH by exact Hl. reflexivity.
Qed.

Lemma split_join ls : ls <> [] -> Forall nodots ls -> split_on DOT (join_dot ls) = ls.
Proof.
  induction ls as [|l t IH]; intros Hne Hf; [congruence|].
  inversion Hf as [|? ? Hl Ht]; subst. destruct t as [|l2 t].
  - cbn [join_dot]. apply split_nodots, Hl.
  - change (join_dot (l :: l2 :: t)) with (l ++ DOT :: join_dot (l2 :: t)). rewrite split_app_dot by exact Hl.
    rewrite IH; [reflexivity|discriminate|exact Ht].
Qed.

Lemma ref_label_nodots l : ref_label l -> nodots l.
Proof.
  intros (_ & _ & H). unfold nodots. rewrite forallb_forall in *. intros b Hb.
  destruct (label_char_facts b (H b Hb)) as (_ & Hd & _). rewrite Hd. reflexivity.
Qed.

(* the last byte of a label / of the joined name is a label character *)
Definition last_is_label_char (s : bytes) : Prop :=
  match rev s with c :: _ => ref_label_char c = true | [] => False end.

Lemma label_last l : ref_label l -> last_is_label_char l.
Proof.
  intros (Hne & _ & H). unfold last_is_label_char. destruct (rev l) as [|c r] eqn:E.
  - apply (f_equal (@rev byte)) in E. rewrite rev_involutive in E. cbn in E. congruence.
  - rewrite forallb_forall in H. apply H. apply in_rev. rewrite E. left. reflexivity.
Qed.

Lemma join_last ls : ls <> [] -> Forall ref_label ls -> last_is_label_char (join_dot ls).
Proof.
  induction ls as [|l t IH]; intros Hne Hf; [congruence|].
  inversion Hf as [|? ? Hl Ht]; subst. destruct t as [|l2 t].
  - cbn [join_dot]. apply label_last, Hl.
  - change (join_dot (l :: l2 :: t)) with (l ++ DOT :: join_dot (l2 :: t)).
    specialize (IH ltac:(discriminate) Ht). unfold last_is_label_char in *.
    rewrite rev_app_distr. cbn [rev]. destruct (rev (join_dot (l2 :: t))) as [|c r]; [contradiction|].
    cbn [app]. exact IH.
Qed.

Lemma label_valid_ref l : ref_label l -> label_valid l = true.
Proof.
  intros R. pose proof (label_last l R) as L. destruct R as (Hne & Hlen & H).
  unfold label_valid, last_is_label_char in *.
  destruct (rev l) as [|c r] eqn:E; [contradiction|].
  destruct (label_char_facts c L) as (_ & _ & _ & Hnl).
  assert (Hb : match c with x0a => rev r | _ => l end = l).
  { destruct c; try reflexivity. discriminate Hnl. }
  rewrite Hb.
  assert (forallb label_char l = true).
  { rewrite forallb_forall in *. intros b Hin. apply (label_char_facts b (H b Hin)). }
  rewrite H0. unfold len in Hlen. unfold blen.
  destruct l; [congruence|]. cbn [length] in *.
  destruct (1 <=? N.of_nat (S (length l))) eqn:E1; [|lia].
  destruct (N.of_nat (S (length l)) <=? 63) eqn:E2; [reflexivity|lia].
Qed.

Lemma drop_last_nonempty (ls : list bytes) : Forall (fun l => l <> []) ls -> drop_last_if_empty ls = ls.
Proof.
  intros H. unfold drop_last_if_empty. destruct (rev ls) as [|[|c x] r] eqn:E; try reflexivity.
  exfalso. rewrite Forall_forall in H. apply (H []); [|reflexivity].
  apply (proj2 (in_rev ls [])). rewrite E. left. reflexivity.
Qed.

Lemma ref_hostname_valid ace_ok ls :
  ls <> [] -> Forall ref_label ls -> len (join_dot ls) <= 253 ->
  (forall l, In l ls -> starts_with ACE l = true -> ace_ok l = true) ->
  is_valid_host ace_ok (join_dot ls) = true.
Proof.
  intros Hne Hf Hlen Hace.
  assert (Hsplit : split_on DOT (join_dot ls) = ls).
  { apply split_join; [exact Hne|]. eapply Forall_impl; [|exact Hf]. apply ref_label_nodots. }
  pose proof (join_last ls Hne Hf) as Hlast.
  assert (Hidna : idna_decodes ace_ok (join_dot ls) = true).
  { unfold idna_decodes. destruct (is_nil (join_dot ls)); [reflexivity|].
    destruct (negb (contains_sub ACE (join_dot ls)) && forallb is_ascii_b (join_dot ls)); [reflexivity|].
    rewrite Hsplit. rewrite drop_last_nonempty.
    2:{ eapply Forall_impl; [|exact Hf]. intros l (H & _). exact H. }
    rewrite forallb_forall. intros l Hin. rewrite Forall_forall in Hf.
    destruct (Hf l Hin) as (_ & Hl63 & Hch). unfold to_unicode_ok.
    unfold len in Hl63. unfold blen.
    destruct (1024 <? N.of_nat (length l)) eqn:E; [lia|].
    destruct (starts_with ACE l) eqn:Es; cbn [negb].
    - apply Hace; assumption.
    - rewrite forallb_forall in *. intros b Hb. apply (label_char_facts b (Hch b Hb)). }
  unfold is_valid_host. rewrite Hidna. cbn [negb].
  unfold len in Hlen. unfold blen.
  destruct (255 <? N.of_nat (length (join_dot ls))) eqn:E; [lia|].
  assert (Hend : ends_with DOT (join_dot ls) = false).
  { unfold ends_with, last_is_label_char in *. destruct (rev (join_dot ls)) as [|c r]; [reflexivity|].
    apply (label_char_facts c Hlast). }
  rewrite Hend, andb_false_r. rewrite Hsplit.
  assert (forallb label_valid ls = true).
  { rewrite forallb_forall. intros l Hin. rewrite Forall_forall in Hf. apply label_valid_ref, Hf, Hin. }
  rewrite H. reflexivity.
Qed.
