(* Proofs/Http1Roundtrip.v -- (b) head_roundtrip: the reference parser reads an assembled head back as the head,
   for heads satisfying Inv (names are tokens, values free of CR / LF / NUL and of OWS at the ends, start line
   lexically valid), under every recipient option. *)
From Coq Require Import List Bool NArith ZArith Lia.
From MV Require Import Base.Bytes Model.Http1Msg Model.Rfc9112 Proofs.Http1Lines.
Import ListNotations.

Definition tchar_props (b : byte) : bool :=
  implb (is_tchar b) (negb (is_ows b) && negb (is_cr_or_nul b) && negb (byte_eqb rLF b) && is_vchar_obs b).
Lemma tchar_ok b : is_tchar b = true ->
  is_ows b = false /\ is_cr_or_nul b = false /\ byte_eqb rLF b = false /\ is_vchar_obs b = true.
Proof.
  intros T. assert (H : tchar_props b = true) by (revert b T; intros b _; revert b; apply (forall_bytes tchar_props); vm_compute; reflexivity).
  unfold tchar_props in H. rewrite T in H. simpl in H.
  repeat (apply andb_true_iff in H as [H ?]). repeat split; auto; apply negb_true_iff; assumption.
Qed.
Definition vchar_props (b : byte) : bool :=
  implb (is_vchar_obs b) (negb (is_cr_or_nul b) && negb (byte_eqb rLF b) && negb (byte_eqb b rSP)).
Lemma vchar_ok b : is_vchar_obs b = true -> is_cr_or_nul b = false /\ byte_eqb rLF b = false /\ byte_eqb b rSP = false.
Proof.
  intros T. assert (H : vchar_props b = true) by (revert b T; intros b _; revert b; apply (forall_bytes vchar_props); vm_compute; reflexivity).
  unfold vchar_props in H. rewrite T in H. simpl in H.
  repeat (apply andb_true_iff in H as [H ?]). repeat split; auto; apply negb_true_iff; assumption.
Qed.

Lemma clean_app (a c : bytes) : clean (a ++ c) = clean a && clean c.
Proof.
  unfold clean, no_lf. rewrite !existsb_app, !negb_orb.
  destruct (existsb is_cr_or_nul a), (existsb is_cr_or_nul c), (existsb (byte_eqb rLF) a), (existsb (byte_eqb rLF) c); reflexivity.
Qed.

Lemma forallb_clean p s : (forall b, p b = true -> is_cr_or_nul b = false /\ byte_eqb rLF b = false) ->
  forallb p s = true -> clean s = true.
Proof.
  intros Hp. unfold clean, no_lf. induction s as [|x s IH]; simpl; auto. intros H. apply andb_true_iff in H as [A B0].
  destruct (Hp _ A) as [P Q]. rewrite P, Q. apply IH, B0.
Qed.
Lemma token_clean n : is_token n = true -> clean n = true.
Proof.
  unfold is_token. destruct n as [|n0 n]; [discriminate|]. apply forallb_clean. intros c T. destruct (tchar_ok c T) as (_ & A & B & _). auto.
Qed.
Lemma vchars_clean t : forallb is_vchar_obs t = true -> clean t = true.
Proof. apply forallb_clean. intros c T. destruct (vchar_ok c T) as (A & B & _). auto. Qed.

(* ---------- fields *)
Definition field_inv (f : header) : Prop :=
  is_token (fst f) = true /\ clean (snd f) = true /\ trim_ows (snd f) = snd f.
Definition field_line (f : header) : bytes := fst f ++ [COLON; SP] ++ snd f.

Lemma headers_bytes_wire hs : headers_bytes hs = wire (map field_line hs).
Proof.
  induction hs as [|[n v] hs IH]; simpl; auto. rewrite IH. unfold field_line. simpl.
  rewrite <- !app_assoc. reflexivity.
Qed.

Lemma field_line_props f : field_inv f ->
  clean (field_line f) = true /\ no_lf (field_line f) = true /\ field_line f <> []
  /\ (exists c r, field_line f = c :: r /\ is_ows c = false) /\ parse_field_line (field_line f) = Some f.
Proof.
  destruct f as [n v]. unfold field_inv, field_line. simpl. intros (T & C & W).
  assert (Cl : clean (n ++ COLON :: SP :: v) = true).
  { rewrite clean_app, (token_clean _ T). change (COLON :: SP :: v) with ([COLON; SP] ++ v). rewrite clean_app, C. reflexivity. }
  split; [exact Cl|]. split; [unfold clean in Cl; apply andb_true_iff in Cl as [_ X]; exact X|].
  unfold is_token in T. destruct n as [|c n]; [discriminate|].
  split; [discriminate|]. split.
  - exists c, (n ++ COLON :: SP :: v). split; auto. simpl in T. apply andb_true_iff in T as [T _]. apply (tchar_ok c T).
  - unfold parse_field_line.
    rewrite (span_all is_tchar (c :: n) (COLON :: SP :: v) T eq_refl).
    change (byte_eqb COLON x3a) with true. cbv iota.
    unfold trim_ows. change (ltrim_ows (SP :: v)) with (ltrim_ows v). fold (trim_ows v). rewrite W. reflexivity.
Qed.

Lemma parse_fields_lines o hs : Forall field_inv hs -> forall acc,
  parse_fields o (map field_line hs) acc = Some (rev acc ++ hs).
Proof.
  induction 1 as [|f hs Hf _ IH]; intros acc; simpl.
  - rewrite app_nil_r. reflexivity.
  - destruct (field_line_props f Hf) as (_ & _ & _ & (c & r & E & Hc) & P).
    rewrite E, Hc, <- E, P, IH. simpl. rewrite <- app_assoc. reflexivity.
Qed.

(* ---------- requests *)
Definition req_target (r : request_head) : bytes :=
  if bytes_eqb (upper (rq_method r)) CONNECT then rq_authority r
  else match rq_authority r with
       | _ :: _ => rq_scheme r ++ [x3a; x2f; x2f] ++ rq_authority r ++ rq_path r
       | [] => rq_path r
       end.

Record Inv_req (r : request_head) : Prop := {
  ir_method : is_token (rq_method r) = true;
  ir_target : req_target r <> [] /\ forallb is_vchar_obs (req_target r) = true;
  ir_version : is_http_version (rq_version r) = true;
  ir_fields : Forall field_inv (rq_headers r) }.

Lemma assemble_request_line_eq r : _assemble_request_line r = rq_method r ++ [SP] ++ req_target r ++ [SP] ++ rq_version r.
Proof.
  unfold _assemble_request_line, req_target. destruct (bytes_eqb (upper (rq_method r)) CONNECT); auto.
  destruct (rq_authority r); auto. rewrite <- !app_assoc. reflexivity.
Qed.

Lemma version_clean v : is_http_version v = true -> clean v = true.
Proof.
  unfold is_http_version. destruct v as [|h [|t1 [|t2 [|p [|sl [|a [|dot [|b [|]]]]]]]]]; try discriminate.
  intros H. apply andb_true_iff in H as [H B]. apply andb_true_iff in H as [H D]. apply andb_true_iff in H as [H A].
  apply bytes_eqb_eq in H. injection H as -> -> -> -> ->. apply byte_eqb_eq in D. subst dot.
  assert (K : forall d, is_digit d = true -> is_cr_or_nul d = false /\ byte_eqb rLF d = false).
  { intros d Hd. assert (X : implb (is_digit d) (negb (is_cr_or_nul d) && negb (byte_eqb rLF d)) = true)
      by (revert d Hd; intros d _; revert d; apply (forall_bytes (fun d => implb (is_digit d) (negb (is_cr_or_nul d) && negb (byte_eqb rLF d)))); vm_compute; reflexivity).
    rewrite Hd in X. simpl in X. apply andb_true_iff in X as [X Y]. split; apply negb_true_iff; auto. }
  destruct (K a A) as [A1 A2]. destruct (K b B) as [B1 B2].
  unfold clean, no_lf. simpl. rewrite A1, A2, B1, B2. reflexivity.
Qed.

Lemma request_line_props r : Inv_req r ->
  clean (_assemble_request_line r) = true /\ _assemble_request_line r <> []
  /\ parse_request_line (_assemble_request_line r) = Some (rq_method r, req_target r, rq_version r).
Proof.
  intros [M [Tn T] V _]. rewrite assemble_request_line_eq.
  split; [|split].
  - rewrite !clean_app, (token_clean _ M), (vchars_clean _ T), (version_clean _ V). reflexivity.
  - unfold is_token in M. destruct (rq_method r); [discriminate|discriminate].
  - unfold parse_request_line.
    assert (M' : forallb is_tchar (rq_method r) = true) by (unfold is_token in M; destruct (rq_method r); [discriminate|exact M]).
    rewrite (span_all is_tchar (rq_method r) ([SP] ++ req_target r ++ [SP] ++ rq_version r) M' eq_refl).
    unfold is_token in M. destruct (rq_method r) as [|m0 ms]; [discriminate|].
    cbn [app]. change (byte_eqb SP rSP) with true. cbv iota.
    rewrite (span_all is_vchar_obs (req_target r) (SP :: rq_version r) T eq_refl).
    destruct (req_target r) as [|t0 ts]; [congruence|].
    change (byte_eqb SP rSP) with true. rewrite V. reflexivity.
Qed.

Theorem head_roundtrip_request o r rest : Inv_req r ->
  parse_request_head o (assemble_request_head r ++ rest)
  = POk (rq_method r, req_target r, rq_version r, rq_headers r, rest).
Proof.
  intros I. destruct (request_line_props r I) as (C0 & N0 & P0). destruct I as [_ _ _ F].
  unfold assemble_request_head, parse_request_head. rewrite headers_bytes_wire.
  change CRLF with [rCR; rLF].
  replace ((_assemble_request_line r ++ [rCR; rLF] ++ wire (map field_line (rq_headers r)) ++ [rCR; rLF]) ++ rest)
    with (wire (_assemble_request_line r :: map field_line (rq_headers r)) ++ [rCR; rLF] ++ rest)
    by (cbn [wire]; rewrite <- !app_assoc; reflexivity).
  assert (A : forallb clean (_assemble_request_line r :: map field_line (rq_headers r)) = true
              /\ forallb (fun l => no_lf l && match l with [] => false | _ => true end)
                         (_assemble_request_line r :: map field_line (rq_headers r)) = true).
  { cbn [forallb]. rewrite C0.
    assert (X : no_lf (_assemble_request_line r) = true) by (unfold clean in C0; apply andb_true_iff in C0 as [_ X]; exact X).
    rewrite X. destruct (_assemble_request_line r) eqn:E; [congruence|]. cbn [andb].
    clear -F. induction F as [|f hs Hf _ IH]; [split; reflexivity|].
    destruct (field_line_props f Hf) as (C & L & NE & _). destruct IH as [I1 I2].
    cbn [map forallb]. rewrite C, L, I1, I2. destruct (field_line f); [congruence|]. split; reflexivity. }
  destruct A as [A1 A2].
  rewrite (head_lines_wire _ rest A2).
  rewrite (clean_lines_wire o _ A1).
  change (clean_line o [rCR]) with (Some (@nil byte)).
  rewrite P0, (parse_fields_lines o _ F []). reflexivity.
Qed.
