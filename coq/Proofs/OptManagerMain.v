(* Proofs/OptManagerMain.v -- the C44 theorems about Model/OptManager.v, for ALL listener behaviours, both
   code variants and all histories. *)
From Coq Require Import List Bool NArith ZArith Lia.
From MV Require Import Base.Bytes Model.OptManager Proofs.OptManagerBase.
Import ListNotations.

Definition lookup (o : list (name * opt)) (n : name) : option val := option_map current (dget n o).

(* events of a call that are newer than the .errored marker (the re-notification of a rollback) *)
Fixpoint newer_than_errored (evs : list event) : list event :=
  match evs with
  | [] => []
  | Errored :: _ => []
  | e :: t => e :: newer_than_errored t
  end.

Lemma newer_than_errored_app sn u a b :
  Forall (shows sn u) a -> newer_than_errored (a ++ Errored :: b) = a.
Proof.
  induction a as [|e t IH]; simpl; intros H; [reflexivity|].
  inversion H as [|? ? He Ht]; subst. destruct He as [l [ok ->]]. now rewrite IH.
Qed.

Lemma newer_than_errored_shows sn u a : Forall (shows sn u) a -> newer_than_errored a = a.
Proof.
  induction a as [|e t IH]; simpl; intros H; [reflexivity|].
  inversion H as [|? ? He Ht]; subst. destruct He as [l [ok ->]]. now rewrite IH.
Qed.

Lemma filter_negb_forallb {A} (f : A -> bool) l :
  forallb f l = true -> filter (fun p => negb (f p)) l = [].
Proof.
  induction l as [|x t IH]; simpl; [reflexivity|].
  intros H. apply andb_true_iff in H as [H1 H2]. rewrite H1; simpl; auto.
Qed.

Lemma forallb_filter_same {A} (f : A -> bool) l : forallb f (filter f l) = true.
Proof.
  induction l as [|x t IH]; simpl; [reflexivity|].
  destruct (f x) eqn:E; simpl; [now rewrite E|assumption].
Qed.

(* ---------- assign ---------- *)
Definition same_types (o o0 : list (name * opt)) : Prop :=
  forall k, option_map otype (dget k o) = option_map otype (dget k o0).

Lemma same_types_dset o o0 k x v :
  same_types o o0 -> dget k o = Some x -> same_types (dset k (set_value x v) o) o0.
Proof.
  intros H E n. destruct (N.eq_dec n k) as [->|Hn].
  - rewrite dget_dset_same. simpl. rewrite <- H, E. reflexivity.
  - rewrite dget_dset_other by assumption. apply H.
Qed.

Lemma assign_typed known : forall o, typed_opts o -> typed_opts (fst (assign known o)).
Proof.
  induction known as [|[k v] t IH]; simpl; intros o H; [exact H|].
  destruct (dget k o) as [x|] eqn:E; [|apply IH, H].
  destruct (check_option_type v (otype x)) eqn:C; [|exact H].
  apply IH, typed_dset; [exact H|]. apply typed_set_value; [|exact C].
  eapply typed_dget; eassumption.
Qed.

Lemma assign_never_fails o0 known : forall o,
  same_types o o0 -> forallb (value_ok o0) known = true -> snd (assign known o) = true.
Proof.
  induction known as [|[k v] t IH]; simpl; intros o H F; [reflexivity|].
  apply andb_true_iff in F as [F1 F2].
  destruct (dget k o) as [x|] eqn:E; [|apply IH; assumption].
  assert (C : check_option_type v (otype x) = true).
  { unfold value_ok in F1; simpl in F1. specialize (H k). rewrite E in H; simpl in H.
    destruct (dget k o0) as [x0|]; simpl in H; [|discriminate]. inversion H as [Hx]. now rewrite Hx. }
  rewrite C. apply IH; [|assumption]. now apply same_types_dset.
Qed.

Lemma dmem_dset {A} n k (x : A) o : dmem k o = true -> dmem n (dset k x o) = dmem n o.
Proof.
  intros Hk. unfold dmem in *. destruct (N.eq_dec n k) as [->|Hn].
  - rewrite dget_dset_same. destruct (dget k o); [reflexivity | discriminate].
  - now rewrite dget_dset_other.
Qed.

(* after a complete assignment every option holds the last value given for it; all others are untouched *)
Lemma assign_values known : forall o o', assign known o = (o', true) ->
  forall n, lookup o' n =
    match dget n (rev known) with
    | Some v => if dmem n o then Some v else None
    | None => lookup o n
    end.
Proof.
  induction known as [|[k v] t IH]; simpl; intros o o' H n.
  - inversion H; reflexivity.
  - rewrite dget_app; simpl.
    destruct (dget k o) as [x|] eqn:E.
    + destruct (check_option_type v (otype x)) eqn:C; [|discriminate].
      rewrite (IH _ _ H n).
      assert (Hk : dmem k o = true) by (unfold dmem; now rewrite E).
      rewrite (dmem_dset n k _ o Hk).
      destruct (dget n (rev t)) as [v'|]; [reflexivity|].
      unfold lookup. destruct (N.eqb n k) eqn:En.
      * apply N.eqb_eq in En; subst n. rewrite dget_dset_same, Hk. reflexivity.
      * apply N.eqb_neq in En. now rewrite dget_dset_other.
    + rewrite (IH _ _ H n).
      destruct (dget n (rev t)) as [v'|]; [reflexivity|].
      destruct (N.eqb n k) eqn:En; [|reflexivity].
      apply N.eqb_eq in En; subst n. unfold lookup, dmem. now rewrite E.
Qed.

(* ---------- all listeners, re-entrant ones included ---------- *)
Section General.
  Variable behave : N -> state -> list name -> reaction.
  Variable vt vu : bool.
  Variable nested : list (name * val) -> state -> state * result.

  Section Typed.
  Hypothesis nested_wf : forall kw s, wf s -> wf (fst (nested kw s)).

  Lemma notify_wf ls : forall u s, wf s -> wf (fst (notify behave nested ls u s)).
  Proof.
    induction ls as [|l t IH]; simpl; intros u s W; [exact W|].
    destruct (behave l s u) as [| |kw].
    - apply IH. exact W.
    - exact W.
    - pose proof (nested_wf kw (add_log (Notified l (snapshot (options s)) u KNested) s) W) as H.
      destruct (nested kw (add_log (Notified l (snapshot (options s)) u KNested) s)) as [s2 [|x|e]];
        simpl in H; [apply IH, H | apply IH, H | exact H].
  Qed.

  Lemma update_known_wf kw s : wf s -> wf (fst (update_known behave vt nested kw s)).
  Proof.
    intros W. unfold update_known.
    destruct (filter (is_known (options s)) kw) as [|p l] eqn:EK; [exact W|].
    destruct (vt && negb (forallb (value_ok (options s)) (p :: l))); [exact W|].
    pose proof (assign_typed (p :: l) (options s) W) as T.
    destruct (assign (p :: l) (options s)) as [o1 b]. simpl in T. destruct b; [|exact T].
    unfold changed_send.
    pose proof (notify_wf (targets (set_options o1 s) (set_of (map fst (p :: l)))) (set_of (map fst (p :: l)))
                  (set_options o1 s) T) as W2.
    destruct (notify behave nested (targets (set_options o1 s) (set_of (map fst (p :: l))))
                (set_of (map fst (p :: l))) (set_options o1 s)) as [s2 r2]. simpl in W2.
    destruct r2 as [|e2]; [exact W2|].
    destruct e2; try exact W2.
    assert (W3 : wf (set_options (dmap deepcopy_opt (options s)) (add_log Errored s2)))
      by (apply typed_dmap; [exact typed_deepcopy | exact W]).
    pose proof (notify_wf (targets (set_options (dmap deepcopy_opt (options s)) (add_log Errored s2))
                                   (set_of (map fst (p :: l)))) (set_of (map fst (p :: l))) _ W3) as W4.
    destruct (notify behave nested _ _ (set_options (dmap deepcopy_opt (options s)) (add_log Errored s2)))
      as [s4 r4]. simpl in W4. destruct r4; exact W4.
  Qed.

  Lemma update_wf kw s : wf s -> wf (fst (update behave vt vu nested kw s)).
  Proof.
    intros W. unfold update.
    destruct (vu && negb (forallb (is_known (options s)) kw)); [exact W|].
    pose proof (update_known_wf kw s W) as H.
    destruct (update_known behave vt nested kw s) as [s1 [[|? ?]|e]]; exact H.
  Qed.

  Lemma step_wf o s : wf s -> wf (fst (step behave vt vu nested o s)).
  Proof.
    intros W. destruct o; simpl.
    - (* add_option *) unfold add_option.
      destruct (check_option_type d t) eqn:C; simpl; [|exact W].
      unfold changed_send.
      assert (W1 : wf (set_options (dset n (mkOpt t d None) (options s)) s)).
      { apply typed_dset; [exact W|]. split; simpl; [exact C | intros v Ev; discriminate Ev]. }
      pose proof (notify_wf (targets (set_options (dset n (mkOpt t d None) (options s)) s) [n]) [n] _ W1) as H.
      destruct (notify behave nested _ [n] (set_options (dset n (mkOpt t d None) (options s)) s)) as [s2 r].
      exact H.
    - pose proof (update_known_wf kw s W) as H.
      destruct (update_known behave vt nested kw s) as [s1 [u|e]]; exact H.
    - now apply update_wf.
    - unfold update_defer. pose proof (update_known_wf kw s W) as H.
      destruct (update_known behave vt nested kw s) as [s1 [u|e]]; exact H.
    - unfold setattr. destruct (options s) eqn:E; [exact W|]. now apply update_wf.
    - unfold reset. unfold changed_send.
      assert (W1 : wf (set_options (dmap reset_opt (options s)) s))
        by (apply typed_dmap; [exact typed_reset | exact W]).
      pose proof (notify_wf (targets (set_options (dmap reset_opt (options s)) s) (set_of (map fst (options s))))
                    (set_of (map fst (options s))) _ W1) as H.
      destruct (notify behave nested _ (set_of (map fst (options s))) (set_options (dmap reset_opt (options s)) s))
        as [s2 r]. exact H.
    - unfold subscribe. destruct (forallb (fun n => dmem n (options s)) opts); exact W.
    - exact W.
    - unfold set_specs. destruct (parse_known (group_specs specs) (options s)) as [processed|e]; [|exact W].
      destruct defer.
      + apply update_wf. exact W.
      + destruct (filter (fun p => negb (dmem (fst p) (options s))) (group_specs specs)); [|exact W].
        now apply update_wf.
    - unfold process_deferred. destruct (collect_deferred (deferred s) (options s)) as [upd|e]; [|exact W].
      pose proof (update_wf upd s W) as H.
      destruct (update behave vt vu nested upd s) as [s1 [|u|e]]; exact H.
    - exact W.
  Qed.

  Lemma run_wf ops : forall s, wf s -> wf (run behave vt vu nested ops s).
  Proof. induction ops as [|o t IH]; simpl; intros s W; [exact W | apply IH, step_wf, W]. Qed.
  End Typed.

  (* a send to listeners that do not react with a nested update while the options are O leaves them O *)
  Lemma notify_quiet O u ls : forall s,
    (forall l st kw, options st = O -> behave l st u <> Nested kw) ->
    options s = O -> options (fst (notify behave nested ls u s)) = O.
  Proof.
    induction ls as [|l t IH]; simpl; intros s Q E; [exact E|].
    destruct (behave l s u) as [| |kw] eqn:B.
    - apply IH; [exact Q | exact E].
    - exact E.
    - exfalso. exact (Q l s kw E B).
  Qed.

  (* rollback restores the FULL option set, whatever nested updates the listeners made before the rejection,
     provided no listener answers the re-notification (where the options are the restored ones) with another
     nested update *)
  Theorem update_known_rejected_general kw s s' :
    update_known behave vt nested kw s = (s', UErr EOptionsError) ->
    (forall l st kw', options st = dmap deepcopy_opt (options s) ->
        behave l st (set_of (map fst (filter (is_known (options s)) kw))) <> Nested kw') ->
    restored (options s) (options s').
  Proof.
    unfold update_known. intros H Q.
    destruct (filter (is_known (options s)) kw) as [|p l] eqn:EK; [discriminate|].
    destruct (vt && negb (forallb (value_ok (options s)) (p :: l))); [discriminate|].
    destruct (assign (p :: l) (options s)) as [o1 b]. destruct b; [|discriminate].
    destruct (changed_send behave nested (set_of (map fst (p :: l))) (set_options o1 s)) as [s2 r2].
    destruct r2 as [|e2]; [discriminate|].
    destruct e2; try discriminate.
    unfold changed_send in H.
    pose proof (notify_quiet (dmap deepcopy_opt (options s)) (set_of (map fst (p :: l)))
                  (targets (set_options (dmap deepcopy_opt (options s)) (add_log Errored s2)) (set_of (map fst (p :: l))))
                  (set_options (dmap deepcopy_opt (options s)) (add_log Errored s2)) Q eq_refl) as HO.
    destruct (notify behave nested _ _ (set_options (dmap deepcopy_opt (options s)) (add_log Errored s2)))
      as [s4 r4]. simpl in HO.
    assert (s' = s4) by (destruct r4; inversion H; reflexivity). subst s4.
    rewrite HO. apply restored_deepcopy.
  Qed.
End General.

Lemma init_wf : wf init.
Proof. constructor. Qed.

Lemma nested_update_wf behave vt vu fuel : forall kw s, wf s -> wf (fst (nested_update behave vt vu fuel kw s)).
Proof.
  induction fuel as [|f IH]; simpl; intros kw s W; [exact W|].
  apply update_wf; [exact IH | exact W].
Qed.

(* every option always holds a value of its declared type: all listeners (re-entrant too), any nesting depth *)
Theorem always_typed behave vt vu fuel ops n o :
  dget n (options (trun behave vt vu fuel ops init)) = Some o ->
  check_option_type (current o) (otype o) = true /\ check_option_type (odefault o) (otype o) = true.
Proof.
  intros H. pose proof (run_wf behave vt vu _ (nested_update_wf behave vt vu fuel) ops init init_wf) as W.
  pose proof (typed_dget _ _ _ W H) as T. split; [now apply typed_current | exact (proj1 T)].
Qed.

Section Main.
  Variable behave : N -> state -> list name -> reaction.
  Variable vt vu : bool.
  Variable nested : list (name * val) -> state -> state * result.
  Hypothesis NR : non_reentrant behave.     (* this section: listeners that do not re-enter the manager *)

  Definition rest_static (s s' : state) : Prop :=
    deferred s' = deferred s /\ subscriptions s' = subscriptions s /\ receivers s' = receivers s.

  (* ---------- complete description of update_known ---------- *)
  Definition update_known_post (kw : list (name * val)) (s s' : state) (r : ures) : Prop :=
    let known := filter (is_known (options s)) kw in
    let U := set_of (map fst known) in
    rest_static s s' /\
    match r with
    | UOk unknown =>
        unknown = filter (fun p => negb (is_known (options s) p)) kw /\
        ((known = [] /\ s' = s) \/
         (known <> [] /\ exists evs,
            assign known (options s) = (options s', true) /\ log s' = evs ++ log s
            /\ Forall (shows (snapshot (options s')) U) evs
            /\ rev (listeners evs) = targets s U /\ forallb ev_ok evs = true))
    | UErr ETypeError =>
        s' = s \/ (vt = false /\ log s' = log s /\ exists o1, assign known (options s) = (o1, false) /\ options s' = o1)
    | UErr EOptionsError =>
        exists o1 first second,
          assign known (options s) = (o1, true)
          /\ options s' = dmap deepcopy_opt (options s)
          /\ log s' = second ++ Errored :: first ++ log s
          /\ Forall (shows (snapshot o1) U) first
          /\ Forall (shows (snapshot (options s')) U) second
          /\ incl (listeners first) (targets s U)
          /\ (forallb ev_ok second = true -> rev (listeners second) = targets s U)
    | UErr _ => False
    end.

  Lemma update_known_spec kw s s' r :
    update_known behave vt nested kw s = (s', r) -> update_known_post kw s s' r.
  Proof.
    unfold update_known, update_known_post.
    destruct (filter (is_known (options s)) kw) as [|p l] eqn:EK.
    - intros H; inversion H; subst. split; [repeat split|]. split; [reflexivity|]. left; split; reflexivity.
    - set (known := p :: l) in *. set (U := set_of (map fst known)) in *.
      destruct (vt && negb (forallb (value_ok (options s)) known)) eqn:EP.
      + intros H; inversion H; subst. split; [repeat split|]. now left.
      + destruct (assign known (options s)) as [o1 b] eqn:EA. destruct b.
        * destruct (changed_send behave nested U (set_options o1 s)) as [s2 r2] eqn:E2.
          unfold changed_send in E2. apply (notify_spec _ _ NR) in E2 as [evs [L2 [St2 [Sh2 [Ok2 No2]]]]].
          destruct St2 as [So2 [Sd2 [Ss2 Sr2]]]. simpl in *.
          destruct r2 as [|e2].
          -- intros H; inversion H; subst s2 r; clear H.
             split; [repeat split; assumption|]. split; [reflexivity|]. right.
             split; [discriminate|]. exists evs. rewrite So2.
             destruct (Ok2 eq_refl) as [O1 O2].
             repeat split; assumption.
          -- assert (Hne : NRaised e2 <> NOk) by discriminate.
             destruct (No2 Hne) as [He2 [pre [rest [e [tl [E1 [E3 [E5 _]]]]]]]].
             inversion He2; subst e2. cbn iota.
             destruct (changed_send behave nested U (set_options (dmap deepcopy_opt (options s)) (add_log Errored s2)))
               as [s4 r4] eqn:E4.
             unfold changed_send in E4. apply (notify_spec _ _ NR) in E4 as [evs4 [L4 [St4 [Sh4 [Ok4 No4]]]]].
             destruct St4 as [So4 [Sd4 [Ss4 Sr4]]]. simpl in *.
             assert (Hr : (match r4 with NOk => (s4, UErr EOptionsError) | NRaised e0 => (s4, UErr e0) end)
                          = (s4, UErr EOptionsError)).
             { destruct r4 as [|e4]; [reflexivity|].
               assert (Hne4 : NRaised e4 <> NOk) by discriminate.
               destruct (No4 Hne4) as [He4 _]. inversion He4; reflexivity. }
             rewrite Hr. intros H; inversion H; subst s4 r; clear H.
             split; [repeat split; congruence|].
             exists o1, evs, evs4.
             assert (T4 : targets (set_options (dmap deepcopy_opt (options s)) (add_log Errored s2)) U = targets s U)
               by (unfold targets; simpl; now rewrite Ss2, Sr2).
             split; [reflexivity|]. split; [exact So4|].
             split; [rewrite L4, L2; reflexivity|].
             split; [exact Sh2|]. split; [rewrite So4; exact Sh4|].
             split.
             ++ intros x Hx. apply in_rev in Hx. rewrite E5 in Hx.
                unfold targets in E1; simpl in E1. unfold targets. rewrite E1. apply in_or_app; now left.
             ++ intros Hall. destruct r4 as [|e4].
                ** destruct (Ok4 eq_refl) as [O1 _]. now rewrite O1, T4.
                ** assert (Hne4 : NRaised e4 <> NOk) by discriminate.
                   destruct (No4 Hne4) as [_ [pre4 [rest4 [e0 [tl4 [_ [E3' [_ [E6 _]]]]]]]]].
                   subst evs4. simpl in Hall. rewrite E6 in Hall. discriminate.
        * intros H; inversion H; subst; clear H. split; [repeat split|].
          destruct vt.
          -- exfalso. simpl in EP. apply negb_false_iff in EP.
             pose proof (assign_never_fails (options s) known (options s) (fun k => eq_refl) EP) as Hn.
             rewrite EA in Hn. discriminate.
          -- right. split; [reflexivity|]. split; [reflexivity|]. exists o1. split; reflexivity.
  Qed.

  (* ---------- T2: a rejected update leaves every option at its previous value ---------- *)
  Definition atomic_guard (e : err) : Prop := (e = ETypeError -> vt = true) /\ (e = EKeyError -> vu = true).

  Lemma update_known_rejected kw s s' e :
    update_known behave vt nested kw s = (s', UErr e) -> (e = ETypeError -> vt = true) ->
    restored (options s) (options s') /\ deferred s' = deferred s.
  Proof.
    intros H G. apply update_known_spec in H. destruct H as [[Hd _] H].
    split; [|exact Hd].
    destruct e; try contradiction.
    - destruct H as [->|[Hv _]]; [apply restored_refl|]. rewrite (G eq_refl) in Hv. discriminate.
    - destruct H as [o1 [first [second [_ [-> _]]]]]. apply restored_deepcopy.
  Qed.

  Lemma update_rejected kw s s' e :
    update behave vt vu nested kw s = (s', RErr e) -> atomic_guard e ->
    restored (options s) (options s') /\ deferred s' = deferred s.
  Proof.
    unfold update. intros H [G1 G2].
    destruct (vu && negb (forallb (is_known (options s)) kw)) eqn:EP.
    - inversion H; subst. split; [apply restored_refl | reflexivity].
    - destruct (update_known behave vt nested kw s) as [s1 [u|e1]] eqn:EU.
      + destruct u as [|p u]; [discriminate|]. inversion H; subst s1 e; clear H.
        exfalso. rewrite (G2 eq_refl) in EP. simpl in EP. apply negb_false_iff in EP.
        apply update_known_spec in EU. destruct EU as [_ [EU _]].
        rewrite (filter_negb_forallb _ _ EP) in EU. discriminate.
      + inversion H; subst s1 e1; clear H. eapply update_known_rejected; eassumption.
  Qed.

  Definition updateish (o : op) : bool :=
    match o with
    | UpdateKnown _ | Update _ | UpdateDefer _ | Setattr _ _ | SetSpecs _ _ | ProcessDeferred => true
    | _ => false
    end.

  Theorem rejected_restores o s s' e :
    updateish o = true -> step behave vt vu nested o s = (s', RErr e) -> atomic_guard e ->
    restored (options s) (options s').
  Proof.
    intros U H G. destruct o; simpl in U; try discriminate; simpl in H.
    - destruct (update_known behave vt nested kw s) as [s1 [u|e1]] eqn:EU; [discriminate|].
      inversion H; subst s1 e1. eapply update_known_rejected; [eassumption | apply G].
    - eapply update_rejected; eassumption.
    - unfold update_defer in H.
      destruct (update_known behave vt nested kw s) as [s1 [u|e1]] eqn:EU; [discriminate|].
      inversion H; subst s1 e1. eapply update_known_rejected; [eassumption | apply G].
    - unfold setattr in H. destruct (options s) eqn:E; [discriminate|].
      rewrite <- E. eapply update_rejected; eassumption.
    - unfold set_specs in H.
      destruct (parse_known (group_specs specs) (options s)) as [processed|e1].
      + destruct defer.
        * apply update_rejected in H; [|exact G]. apply H.
        * destruct (filter (fun p => negb (dmem (fst p) (options s))) (group_specs specs)).
          -- apply update_rejected in H; [|exact G]. apply H.
          -- inversion H; subst. apply restored_refl.
      + inversion H; subst. apply restored_refl.
    - unfold process_deferred in H.
      destruct (collect_deferred (deferred s) (options s)) as [upd|e1].
      + destruct (update behave vt vu nested upd s) as [s1 r1] eqn:EU.
        destruct r1 as [|u|e1]; [discriminate | discriminate |].
        inversion H; subst s1 e1. apply update_rejected in EU; [|exact G]. apply EU.
      + inversion H; subst. apply restored_refl.
  Qed.

  (* a failed process_deferred keeps the deferred values for a later attempt *)
  Theorem process_deferred_failed_keeps_deferred s s' e :
    process_deferred behave vt vu nested s = (s', RErr e) -> atomic_guard e -> deferred s' = deferred s.
  Proof.
    unfold process_deferred. intros H G.
    destruct (collect_deferred (deferred s) (options s)) as [upd|e1].
    - destruct (update behave vt vu nested upd s) as [s1 r1] eqn:EU.
      destruct r1 as [|u|e1]; [discriminate | discriminate |].
      inversion H; subst s1 e1. apply update_rejected in EU; [|exact G]. apply EU.
    - inversion H; subst. reflexivity.
  Qed.

  (* ---------- T3: listeners are re-notified and end up having seen the restored state ---------- *)
  Definition renotified (s s' : state) : Prop :=
    exists delta, log s' = delta ++ log s /\
      (forallb ev_ok (newer_than_errored delta) = true ->
       forall l, In l (listeners delta) -> last_seen l (log s') = Some (snapshot (options s'))).

  Lemma renotified_same_log s s' : log s' = log s -> renotified s s'.
  Proof. intros H. exists []. split; [exact H|]. intros _ l []. Qed.

  Lemma update_known_renotified kw s s' e :
    update_known behave vt nested kw s = (s', UErr e) -> renotified s s'.
  Proof.
    intros H. apply update_known_spec in H. destruct H as [_ H].
    destruct e; try contradiction.
    - destruct H as [->|[_ [HL _]]]; now apply renotified_same_log.
    - destruct H as [o1 [first [second [_ [_ [HL [Sh1 [Sh2 [Inc Full]]]]]]]]].
      exists (second ++ Errored :: first). split; [rewrite HL, <- app_assoc; reflexivity|].
      rewrite (newer_than_errored_app _ _ _ _ Sh2). intros Hall l Hin.
      rewrite HL. eapply last_seen_app_shows; [exact Sh2|].
      apply in_rev. rewrite (Full Hall).
      rewrite listeners_app in Hin. apply in_app_or in Hin as [Hin|Hin].
      + apply in_rev in Hin. now rewrite (Full Hall) in Hin.
      + apply Inc. exact Hin.
  Qed.

  Lemma update_renotified kw s s' :
    update behave vt vu nested kw s = (s', RErr EOptionsError) -> renotified s s'.
  Proof.
    unfold update. intros H.
    destruct (vu && negb (forallb (is_known (options s)) kw)); [discriminate|].
    destruct (update_known behave vt nested kw s) as [s1 [u|e1]] eqn:EU.
    - destruct u; discriminate.
    - inversion H; subst. eapply update_known_renotified; eassumption.
  Qed.

  Theorem rejected_renotifies o s s' :
    updateish o = true -> step behave vt vu nested o s = (s', RErr EOptionsError) -> renotified s s'.
  Proof.
    intros U H. destruct o; simpl in U; try discriminate; simpl in H.
    - destruct (update_known behave vt nested kw s) as [s1 [u|e1]] eqn:EU; [discriminate|].
      inversion H; subst. eapply update_known_renotified; eassumption.
    - now apply update_renotified in H.
    - unfold update_defer in H.
      destruct (update_known behave vt nested kw s) as [s1 [u|e1]] eqn:EU; [discriminate|].
      inversion H; subst. eapply update_known_renotified; eassumption.
    - unfold setattr in H. destruct (options s) eqn:E; [discriminate|].
      now apply update_renotified in H.
    - unfold set_specs in H.
      destruct (parse_known (group_specs specs) (options s)) as [processed|e1].
      + destruct defer.
        * apply update_renotified in H. exact H.
        * destruct (filter (fun p => negb (dmem (fst p) (options s))) (group_specs specs)).
          -- now apply update_renotified in H.
          -- inversion H; subst. now apply renotified_same_log.
      + inversion H; subst. now apply renotified_same_log.
    - unfold process_deferred in H.
      destruct (collect_deferred (deferred s) (options s)) as [upd|e1].
      + destruct (update behave vt vu nested upd s) as [s1 r1] eqn:EU.
        destruct r1 as [|u|e1]; [discriminate | discriminate |].
        inversion H; subst. now apply update_renotified in EU.
      + inversion H; subst. now apply renotified_same_log.
  Qed.

  (* ---------- T4: an accepted update assigns and notifies exactly the given known names ---------- *)
  Theorem accepted_notifies kw s s' unknown :
    update_known behave vt nested kw s = (s', UOk unknown) ->
    let known := filter (is_known (options s)) kw in
    let U := set_of (map fst known) in
    unknown = filter (fun p => negb (is_known (options s) p)) kw
    /\ (known = [] -> s' = s)
    /\ (known <> [] -> exists evs, log s' = evs ++ log s
          /\ rev (listeners evs) = targets s U            (* every interested listener, once, in order *)
          /\ forallb ev_ok evs = true
          /\ Forall (shows (snapshot (options s')) U) evs) (* with the new values and exactly the set U *)
    /\ (forall n, lookup (options s') n =
          match dget n (rev known) with Some v => Some v | None => lookup (options s) n end)
    /\ (forall n, In n U <-> In n (map fst known)) /\ NoDup U.
  Proof.
    intros H known U. apply update_known_spec in H. destruct H as [_ [Hu H]].
    fold known in H. fold U in H.
    split; [exact Hu|].
    split; [intros E; destruct H as [[_ H]|[H _]]; [exact H | contradiction]|].
    split; [intros NE; destruct H as [[H _]|[_ [evs [_ [HL [Sh [Tg Ok]]]]]]]; [contradiction|];
            exists evs; repeat split; assumption|].
    split.
    - intros n. destruct H as [[E ->]|[_ [evs [EA _]]]].
      + rewrite E; reflexivity.
      + rewrite (assign_values _ _ _ EA n).
        destruct (dget n (rev known)) as [v|] eqn:E; [|reflexivity].
        apply dget_In in E. apply in_rev in E. unfold known in E. apply filter_In in E as [_ E].
        unfold is_known in E; simpl in E. now rewrite E.
    - split; [intros n; apply set_of_In | apply ssorted_NoDup, set_of_sorted].
  Qed.
End Main.

Local Open Scope N_scope.

(* ---------- the findings, as concrete counterexamples on the unchanged code (vt = vu = false) ---------- *)
Definition always_ok (l : N) (s : state) (u : list name) : reaction := Accept.

Definition two_options : list op :=
  [AddOption 0 (TBase BInt) (VInt 0%Z); AddOption 1 (TBase BStr) (VStr [])].

(* update(o0=5, o1=7): o1 is a str option, TypeError -- but o0 stays 5 *)
Lemma typeerror_refuted :
  exists kw s', let s := trun always_ok false false 5 two_options init in
    tstep always_ok false false 5 (Update kw) s = (s', RErr ETypeError)
    /\ lookup (options s) 0 = Some (VInt 0%Z) /\ lookup (options s') 0 = Some (VInt 5%Z).
Proof. exists [(0, VInt 5%Z); (1, VInt 7%Z)]. eexists. vm_compute. repeat split. Qed.

(* update(o0=5, o9=1): o9 does not exist, KeyError -- but o0 stays 5 *)
Lemma keyerror_refuted :
  exists kw s', let s := trun always_ok false false 5 two_options init in
    tstep always_ok false false 5 (Update kw) s = (s', RErr EKeyError)
    /\ lookup (options s) 0 = Some (VInt 0%Z) /\ lookup (options s') 0 = Some (VInt 5%Z).
Proof. exists [(0, VInt 5%Z); (9, VInt 1%Z)]. eexists. vm_compute. repeat split. Qed.

(* listener 0 accepts only while the log is empty; listener 1 refuses the value 9.  update(o0=9): listener 0
   accepts, listener 1 refuses, rollback, listener 0 refuses the re-notification, so listener 1 is never told
   that o0 is 0 again. *)
Definition fussy (l : N) (s : state) (u : list name) : reaction :=
  if N.eqb l 0 then match log s with [] => Accept | _ => Reject end
  else match lookup (options s) 0 with Some (VInt 9%Z) => Reject | _ => Accept end.

Definition fussy_setup : list op :=
  [AddOption 0 (TBase BInt) (VInt 0%Z); Connect 0; Connect 1].

Lemma renotify_refuted :
  exists kw s' sn, let s := trun fussy false false 5 fussy_setup init in
    tstep fussy false false 5 (Update kw) s = (s', RErr EOptionsError)
    /\ last_seen 1 (log s') = Some sn
    /\ sn = [(0, VInt 9%Z)] /\ snapshot (options s') = [(0, VInt 0%Z)].
Proof. exists [(0, VInt 9%Z)]. eexists. eexists. vm_compute. repeat split. Qed.

(* non-vacuity: a rejecting listener, a rejected update, the value restored, and the listener re-notified *)
Definition picky (l : N) (s : state) (u : list name) : reaction :=
  match lookup (options s) 0 with Some (VInt 9%Z) => Reject | _ => Accept end.

Lemma picky_nr : non_reentrant picky.
Proof.
  intros l s u kw. unfold picky.
  repeat match goal with |- context [match ?x with _ => _ end] => destruct x end; discriminate.
Qed.

Lemma nonvacuous :
  exists s', let s := trun picky false false 5 [AddOption 0 (TBase BInt) (VInt 0%Z); Connect 7; Update [(0, VInt 3%Z)]] init in
    tstep picky false false 5 (Update [(0, VInt 9%Z)]) s = (s', RErr EOptionsError)
    /\ lookup (options s) 0 = Some (VInt 3%Z) /\ lookup (options s') 0 = Some (VInt 3%Z)
    /\ length (log s') = 4%nat
    /\ last_seen 7 (log s') = Some [(0, VInt 3%Z)].
Proof. eexists. vm_compute. repeat split. Qed.

(* non-vacuity for re-entrant listeners: listener 0 answers o0 = 9 with a nested update(o1 = 1080); listener 1
   then refuses o0 = 9.  The nested update was accepted (o1 really became 1080 and listener 1 saw it), yet after
   the rejection BOTH options are back and both listeners last saw the restored values. *)
Definition dependent (l : N) (s : state) (u : list name) : reaction :=
  match lookup (options s) 0 with
  | Some (VInt 9%Z) =>
      if N.eqb l 0
      then (if nmem 0 u then Nested [(1, VInt 1080%Z)] else Accept)
      else (if nmem 0 u then Reject else Accept)
  | _ => Accept
  end.

Lemma nested_nonvacuous :
  exists s', let s := trun dependent false false 5
       [AddOption 0 (TBase BInt) (VInt 0%Z); AddOption 1 (TBase BInt) (VInt 8080%Z); Connect 0; Connect 1] init in
    update_known dependent false (nested_update dependent false false 5) [(0, VInt 9%Z)] s = (s', UErr EOptionsError)
    /\ snapshot (options s) = [(0, VInt 0%Z); (1, VInt 8080%Z)]
    /\ snapshot (options s') = [(0, VInt 0%Z); (1, VInt 8080%Z)]
    /\ In (Notified 1 [(0, VInt 9%Z); (1, VInt 1080%Z)] [1] KAccept) (log s')
    /\ last_seen 0 (log s') = Some [(0, VInt 0%Z); (1, VInt 8080%Z)]
    /\ last_seen 1 (log s') = Some [(0, VInt 0%Z); (1, VInt 8080%Z)].
Proof. eexists. vm_compute. repeat split. right; right; right; right; left; reflexivity. Qed.

(* with the repair (vt = vu = true) the guard of rejected_restores is vacuous *)
Lemma rejected_restores_repaired behave nested o s s' e :
  non_reentrant behave ->
  updateish o = true -> step behave true true nested o s = (s', RErr e) -> restored (options s) (options s').
Proof.
  intros NR U H. eapply rejected_restores; [exact NR | exact U | exact H | split; intros _; reflexivity].
Qed.

(* ---------- listener lifetimes: dead weak references ---------- *)
Lemma somes_app {A} (a b : list (option A)) : somes (a ++ b) = somes a ++ somes b.
Proof. induction a as [|[x|] t IH]; simpl; [reflexivity | now rewrite IH | exact IH]. Qed.

Lemma somes_kill l rs : somes (map (kill l) rs) = filter (fun x => negb (N.eqb x l)) (somes rs).
Proof.
  induction rs as [|[x|] t IH]; simpl; [reflexivity | | exact IH].
  destruct (N.eqb x l); simpl; [exact IH | now rewrite IH].
Qed.

Lemma somes_kill_subs l u subs :
  somes (map fst (filter (fun p => intersects (snd p) u) (map (fun p : option N * list name => (kill l (fst p), snd p)) subs)))
  = filter (fun x => negb (N.eqb x l)) (somes (map fst (filter (fun p => intersects (snd p) u) subs))).
Proof.
  induction subs as [|[[x|] o] t IH]; simpl; [reflexivity | |].
  - destruct (intersects o u); simpl; [|exact IH].
    destruct (N.eqb x l); simpl; [exact IH | now rewrite IH].
  - destruct (intersects o u); simpl; exact IH.
Qed.

(* a send calls exactly the live callables: dead entries, wherever they sit, change nothing *)
Definition purge (s : state) : state :=
  mkState (options s) (deferred s)
          (filter (fun p => match fst p with Some _ => true | None => false end) (subscriptions s))
          (filter (fun e => match e with Some _ => true | None => false end) (receivers s)) (log s).

Lemma somes_filter_some {A} (l : list (option A)) :
  somes (filter (fun e => match e with Some _ => true | None => false end) l) = somes l.
Proof. induction l as [|[x|] t IH]; simpl; [reflexivity | now rewrite IH | exact IH]. Qed.

Lemma targets_ignore_dead s u : targets (purge s) u = targets s u.
Proof.
  unfold targets, purge; simpl. rewrite somes_filter_some. f_equal.
  induction (subscriptions s) as [|[[x|] o] t IH]; simpl; [reflexivity | |].
  - destruct (intersects o u); simpl; [now rewrite IH | exact IH].
  - destruct (intersects o u); simpl; exact IH.
Qed.

Lemma targets_live_iff s u l :
  In l (targets s u) <->
  (exists o, In (Some l, o) (subscriptions s) /\ intersects o u = true) \/ In (Some l) (receivers s).
Proof.
  unfold targets. rewrite in_app_iff.
  assert (HS : forall rs : list (option N), In l (somes rs) <-> In (Some l) rs).
  { induction rs as [|[x|] t IH]; simpl; [tauto | |].
    - rewrite IH. split; intros [H|H]; auto; left; congruence.
    - rewrite IH. split; [auto | intros [H|H]; [discriminate | exact H]]. }
  rewrite !HS. apply or_iff_compat_r. rewrite in_map_iff. split.
  - intros [[x o] [E H]]. simpl in E; subst x. apply filter_In in H as [H1 H2]. exists o. auto.
  - intros [o [H1 H2]]. exists (Some l, o). split; [reflexivity|]. apply filter_In. auto.
Qed.

(* dropping listener l removes exactly its calls; every other live callable keeps its place and multiplicity *)
Lemma drop_targets l s u :
  targets (fst (drop l s)) u = filter (fun x => negb (N.eqb x l)) (targets s u).
Proof.
  unfold targets, drop; simpl. rewrite filter_app, somes_kill, somes_kill_subs. reflexivity.
Qed.
