(* Proofs/CommandSession.v -- the answer to a step of a session does not depend on the steps
   before or after it (the lru_cache in front of parse_partial must be unobservable). *)
From Coq Require Import List Bool NArith.
From MV Require Import Base.Bytes Model.Command.
Import ListNotations.

Lemma session_history_independent kt commands pre st post :
  nth_error (run_session kt commands (pre ++ st :: post)) (length pre) = Some (run_step kt commands st).
Proof. unfold run_session. induction pre as [|p pre IH]; simpl; [reflexivity | exact IH]. Qed.
