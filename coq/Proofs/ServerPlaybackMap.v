(* Proofs/ServerPlaybackMap.v -- lemmas about the flowmap operations, the index invariant
   (every bucket holds exactly the pending recordings whose key under the current options is the
   bucket key; no duplicate keys; no empty bucket) and its preservation by every operation. *)
From Coq Require Import ZArith List Bool Lia ZifyBool Permutation Sorted.
From MV Require Import Base.Bytes Model.ServerPlayback Proofs.ServerPlaybackKey.
Import ListNotations.

Definition keys (m : flowmap) : list key := map fst m.
Definition noresp (r : recording) : Prop := rec_has_resp r = false.

Lemma pending_cons k l m : pending ((k, l) :: m) = l ++ pending m.
Proof. reflexivity. Qed.

Lemma in_pending r m : In r (pending m) <-> exists k l, In (k, l) m /\ In r l.
Proof.
  unfold pending. rewrite in_concat. split.
  - intros [l [Hl Hr]]. apply in_map_iff in Hl. destruct Hl as [[k l2] [E Hin]]. simpl in E. subst l2.
    exists k, l. auto.
  - intros [k [l [Hin Hr]]]. exists l. split; [|exact Hr]. apply in_map_iff. exists (k, l). auto.
Qed.

(* ---------- fm_add ---------- *)

Lemma fm_add_bucket k r : forall m k2 l2,
  In (k2, l2) (fm_add k r m) ->
  In (k2, l2) m \/ (k2 = k /\ exists l, l2 = l ++ [r] /\ (l = [] \/ In (k, l) m)).
Proof.
  induction m as [|[k3 l3] m IH]; intros k2 l2 H; simpl in H.
  - destruct H as [H|[]]. injection H as <- <-. right. split; [reflexivity|]. exists []. auto.
  - destruct (key_eqb k k3) eqn:E.
    + apply key_eqb_eq in E. subst k3. destruct H as [H|H].
      * injection H as <- <-. right. split; [reflexivity|]. exists l3. simpl. auto.
      * left. right. exact H.
    + destruct H as [H|H].
      * left. left. exact H.
      * destruct (IH _ _ H) as [H2|[-> [l [-> [->|H2]]]]].
        -- left. right. exact H2.
        -- right. split; [reflexivity|]. exists []. auto.
        -- right. split; [reflexivity|]. exists l. split; [reflexivity|]. right. right. exact H2.
Qed.

Lemma fm_add_keys k r : forall m,
  keys (fm_add k r m) = if existsb (key_eqb k) (keys m) then keys m else keys m ++ [k].
Proof.
  induction m as [|[k3 l3] m IH]; simpl; [reflexivity|].
  destruct (key_eqb k k3) eqn:E; simpl; [reflexivity|].
  rewrite IH. destruct (existsb (key_eqb k) (keys m)); reflexivity.
Qed.

Lemma existsb_key_in k ks : existsb (key_eqb k) ks = true <-> In k ks.
Proof.
  rewrite existsb_exists. split.
  - intros [x [Hx E]]. apply key_eqb_eq in E. subst x. exact Hx.
  - intro H. exists k. split; [exact H | apply key_eqb_refl].
Qed.

Lemma fm_add_nodup k r m : NoDup (keys m) -> NoDup (keys (fm_add k r m)).
Proof.
  intro H. rewrite fm_add_keys. destruct (existsb (key_eqb k) (keys m)) eqn:E; [exact H|].
  apply (Permutation_NoDup (Permutation_cons_append (keys m) k)).
  constructor; [|exact H].
  intro Hin. apply existsb_key_in in Hin. congruence.
Qed.

Lemma fm_add_pending k r : forall m, Permutation (pending (fm_add k r m)) (pending m ++ [r]).
Proof.
  induction m as [|[k3 l3] m IH]; simpl fm_add.
  - reflexivity.
  - destruct (key_eqb k k3); rewrite !pending_cons.
    + rewrite <- !app_assoc. apply Permutation_app_head. apply Permutation_app_comm.
    + rewrite <- app_assoc. apply Permutation_app_head. exact IH.
Qed.

(* ---------- fm_find / fm_del / fm_set ---------- *)

Lemma fm_find_in k : forall m l, fm_find k m = Some l -> In (k, l) m.
Proof.
  induction m as [|[k3 l3] m IH]; intros l H; simpl in H; [discriminate|].
  destruct (key_eqb k k3) eqn:E.
  - apply key_eqb_eq in E. injection H as <-. subst. left. reflexivity.
  - right. auto.
Qed.

Lemma in_fm_find k l : forall m, NoDup (keys m) -> In (k, l) m -> fm_find k m = Some l.
Proof.
  induction m as [|[k3 l3] m IH]; intros ND H; simpl in *; [contradiction|].
  inversion ND as [|? ? Hn ND2]; subst.
  destruct H as [H|H].
  - injection H as -> ->. rewrite key_eqb_refl. reflexivity.
  - destruct (key_eqb k k3) eqn:E.
    + apply key_eqb_eq in E. subst k3. exfalso. apply Hn. apply in_map_iff. exists (k, l). auto.
    + auto.
Qed.

Lemma fm_find_none k : forall m, fm_find k m = None -> ~ In k (keys m).
Proof.
  induction m as [|[k3 l3] m IH]; intros H Hin; simpl in *; [contradiction|].
  destruct (key_eqb k k3) eqn:E; [discriminate|].
  apply key_eqb_neq in E. destruct Hin as [Hin|Hin]; [congruence|]. exact (IH H Hin).
Qed.

Lemma fm_del_bucket k : forall m k2 l2, In (k2, l2) (fm_del k m) -> In (k2, l2) m.
Proof.
  induction m as [|[k3 l3] m IH]; intros k2 l2 H; simpl in *; [contradiction|].
  destruct (key_eqb k k3); [right; exact H|].
  destruct H as [H|H]; [left; exact H | right; auto].
Qed.

Lemma fm_del_keys_incl k m x : In x (keys (fm_del k m)) -> In x (keys m).
Proof.
  unfold keys. intro H. apply in_map_iff in H. destruct H as [[k2 l2] [E H]]. simpl in E. subst.
  apply in_map_iff. exists (x, l2). split; [reflexivity|]. apply (fm_del_bucket k). exact H.
Qed.

Lemma fm_del_nodup k : forall m, NoDup (keys m) -> NoDup (keys (fm_del k m)).
Proof.
  induction m as [|[k3 l3] m IH]; intros ND; simpl in *; [exact ND|].
  inversion ND as [|? ? Hn ND2]; subst.
  destruct (key_eqb k k3); [exact ND2|].
  simpl. constructor; [|auto]. intro Hin. apply Hn. apply (fm_del_keys_incl k). exact Hin.
Qed.

Lemma fm_set_bucket k l : forall m k2 l2,
  In (k2, l2) (fm_set k l m) -> In (k2, l2) m \/ (k2 = k /\ l2 = l).
Proof.
  induction m as [|[k3 l3] m IH]; intros k2 l2 H; simpl in *; [contradiction|].
  destruct (key_eqb k k3) eqn:E.
  - apply key_eqb_eq in E. subst k3. destruct H as [H|H].
    + injection H as <- <-. right. auto.
    + left. right. exact H.
  - destruct H as [H|H]; [left; left; exact H|].
    destruct (IH _ _ H) as [H2|H2]; [left; right; exact H2 | right; exact H2].
Qed.

Lemma fm_set_keys k l : forall m, keys (fm_set k l m) = keys m.
Proof.
  induction m as [|[k3 l3] m IH]; simpl; [reflexivity|].
  destruct (key_eqb k k3) eqn:E; simpl; [|rewrite IH; reflexivity].
  reflexivity.
Qed.

Lemma fm_find_pending k : forall m l,
  fm_find k m = Some l -> Permutation (pending m) (l ++ pending (fm_del k m)).
Proof.
  induction m as [|[k3 l3] m IH]; intros l H; simpl in H; [discriminate|].
  simpl fm_del. destruct (key_eqb k k3).
  - injection H as <-. rewrite pending_cons. reflexivity.
  - rewrite !pending_cons. rewrite (IH _ H). rewrite !app_assoc.
    apply Permutation_app_tail. apply Permutation_app_comm.
Qed.

Lemma fm_set_pending k l2 : forall m l,
  fm_find k m = Some l -> Permutation (pending (fm_set k l2 m)) (l2 ++ pending (fm_del k m)).
Proof.
  induction m as [|[k3 l3] m IH]; intros l H; simpl in H; [discriminate|].
  simpl fm_del. simpl fm_set. destruct (key_eqb k k3).
  - rewrite pending_cons. reflexivity.
  - rewrite !pending_cons. rewrite (IH _ H). rewrite !app_assoc.
    apply Permutation_app_tail. apply Permutation_app_comm.
Qed.

(* ---------- the first recording with a response ---------- *)

Lemma pop_loop_find l : fst (pop_loop l) = find rec_has_resp l.
Proof. induction l as [|r t IH]; simpl; [reflexivity|]. destruct (rec_has_resp r); [reflexivity|exact IH]. Qed.

Lemma pop_loop_spec : forall l,
  match pop_loop l with
  | (Some r, rest) => exists sk, l = sk ++ r :: rest /\ Forall noresp sk /\ rec_has_resp r = true
  | (None, rest) => rest = [] /\ Forall noresp l
  end.
Proof.
  induction l as [|r t IH]; simpl.
  - split; [reflexivity | constructor].
  - destruct (rec_has_resp r) eqn:E.
    + exists []. split; [reflexivity|]. split; [constructor | exact E].
    + destruct (pop_loop t) as [[r2|] rest].
      * destruct IH as [sk [-> [F R]]]. exists (r :: sk). split; [reflexivity|]. split; [|exact R].
        constructor; [exact E | exact F].
      * destruct IH as [-> F]. split; [reflexivity|]. constructor; [exact E | exact F].
Qed.

(* ---------- the index invariant ---------- *)

Record Inv (o : options) (m : flowmap) : Prop := {
  inv_keys : forall k l, In (k, l) m -> forall r, In r l -> _hash o (rec_req r) = k;
  inv_nodup : NoDup (keys m);
  inv_nonempty : forall k l, In (k, l) m -> l <> []
}.

Lemma Inv_nil o : Inv o [].
Proof. constructor; simpl; try contradiction. constructor. Qed.

Lemma Inv_fm_add o r m : Inv o m -> Inv o (fm_add (_hash o (rec_req r)) r m).
Proof.
  intros [HK HN HE]. constructor.
  - intros k l Hin r2 Hr2. destruct (fm_add_bucket _ _ _ _ _ Hin) as [H|[-> [l0 [-> [->|H]]]]].
    + exact (HK _ _ H _ Hr2).
    + destruct Hr2 as [<-|[]]. reflexivity.
    + apply in_app_or in Hr2. destruct Hr2 as [Hr2|[<-|[]]]; [exact (HK _ _ H _ Hr2) | reflexivity].
  - apply fm_add_nodup. exact HN.
  - intros k l Hin. destruct (fm_add_bucket _ _ _ _ _ Hin) as [H|[-> [l0 [-> _]]]].
    + exact (HE _ _ H).
    + destruct l0; discriminate.
Qed.

Lemma Inv_add_flows o : forall fs m, Inv o m -> Inv o (add_flows o fs m).
Proof.
  unfold add_flows. induction fs as [|f fs IH]; intros m H; simpl; [exact H|].
  apply IH. destruct f as [r|]; simpl; [apply Inv_fm_add; exact H | exact H].
Qed.

Lemma Inv_load_flows o fs : Inv o (load_flows o fs).
Proof. apply Inv_add_flows. apply Inv_nil. Qed.

Lemma Inv_recompute o2 m : Inv o2 (recompute_hashes o2 m).
Proof. apply Inv_load_flows. Qed.

Lemma Inv_ext o o2 m : (forall r, _hash o2 r = _hash o r) -> Inv o m -> Inv o2 m.
Proof.
  intros E [HK HN HE]. constructor; auto. intros k l Hin r Hr. rewrite E. eauto.
Qed.

Lemma Inv_fm_del o k m : Inv o m -> Inv o (fm_del k m).
Proof.
  intros [HK HN HE]. constructor.
  - intros k2 l2 Hin. apply HK. apply (fm_del_bucket k). exact Hin.
  - apply fm_del_nodup. exact HN.
  - intros k2 l2 Hin. apply (HE k2). apply (fm_del_bucket k). exact Hin.
Qed.

Lemma Inv_fm_set o k l l2 m :
  Inv o m -> In (k, l) m -> incl l2 l -> l2 <> [] -> Inv o (fm_set k l2 m).
Proof.
  intros [HK HN HE] Hin Hincl Hne. constructor.
  - intros k3 l3 H r Hr. destruct (fm_set_bucket _ _ _ _ _ H) as [H2|[-> ->]].
    + exact (HK _ _ H2 _ Hr).
    + exact (HK _ _ Hin _ (Hincl _ Hr)).
  - rewrite fm_set_keys. exact HN.
  - intros k3 l3 H. destruct (fm_set_bucket _ _ _ _ _ H) as [H2|[-> ->]]; [exact (HE _ _ H2) | exact Hne].
Qed.

Lemma Inv_configure o upd m :
  Inv o m -> Inv (fst (configure o upd m)) (snd (configure o upd m)).
Proof.
  intro H. unfold configure. destruct (existsb in_hash_options upd) eqn:E; simpl.
  - apply Inv_recompute.
  - apply (Inv_ext o); [|exact H]. intro r. apply hash_fold_other. exact E.
Qed.

(* a pending recording sits in the bucket of its own key, and that is the bucket fm_find returns *)
Lemma Inv_find_pending o m r :
  Inv o m -> In r (pending m) ->
  exists l, fm_find (_hash o (rec_req r)) m = Some l /\ In r l.
Proof.
  intros [HK HN HE] H. apply in_pending in H. destruct H as [k [l [Hin Hr]]].
  exists l. split; [|exact Hr]. rewrite (HK _ _ Hin _ Hr). apply in_fm_find; assumption.
Qed.

(* ---------- next_flow, completely characterised under the invariant ---------- *)

Definition reuse_on (o : options) : bool := o_reuse o || o_nopop o.

Lemma next_flow_spec o rq m :
  Inv o m ->
  match fm_find (_hash o rq) m with
  | None => next_flow o rq m = (NfNone, m)
  | Some l =>
      exists sk, Forall noresp sk /\
      ((exists r rest, l = sk ++ r :: rest /\ rec_has_resp r = true /\
          next_flow o rq m =
            (NfFlow r, if reuse_on o then m
                       else if nonempty rest then fm_set (_hash o rq) rest m else fm_del (_hash o rq) m))
       \/ (l = sk /\ next_flow o rq m = (NfNone, if reuse_on o then m else fm_del (_hash o rq) m)))
  end.
Proof.
  intros [HK HN HE]. unfold next_flow, reuse_on.
  destruct (fm_find (_hash o rq) m) as [l|] eqn:F; [|reflexivity].
  assert (Hne : l <> []) by (apply (HE (_hash o rq)); apply fm_find_in; exact F).
  pose proof (pop_loop_spec l) as P. pose proof (pop_loop_find l) as PF.
  destruct (pop_loop l) as [[r|] rest]; simpl in PF.
  - destruct P as [sk [El [Fsk R]]]. exists sk. split; [exact Fsk|]. left. exists r, rest.
    split; [exact El|]. split; [exact R|].
    destruct (o_reuse o || o_nopop o).
    + rewrite <- PF. reflexivity.
    + destruct l; [contradiction|]. reflexivity.
  - destruct P as [-> Fl]. exists l. split; [exact Fl|]. right. split; [reflexivity|].
    destruct (o_reuse o || o_nopop o).
    + rewrite <- PF. reflexivity.
    + destruct l; [contradiction|]. reflexivity.
Qed.

Lemma Inv_next_flow o rq m : Inv o m -> Inv o (snd (next_flow o rq m)).
Proof.
  intro H. pose proof (next_flow_spec o rq m H) as S.
  destruct (fm_find (_hash o rq) m) as [l|] eqn:F; [|rewrite S; exact H].
  destruct S as [sk [Fsk [[r [rest [El [R E]]]]|[El E]]]]; rewrite E; simpl;
    destruct (reuse_on o); try exact H; try (apply Inv_fm_del; exact H).
  destruct rest as [|x rest]; simpl; [apply Inv_fm_del; exact H|].
  apply (Inv_fm_set o _ l); [exact H | apply fm_find_in; exact F | | discriminate].
  intros y Hy. rewrite El. apply in_or_app. right. right. exact Hy.
Qed.

Lemma Inv_request_hook o rq m : Inv o m -> Inv o (snd (request_hook o rq m)).
Proof.
  intro H. unfold request_hook. destruct (nonempty m); [|exact H].
  pose proof (Inv_next_flow o rq m H) as H2.
  destruct (next_flow o rq m) as [[r| |] m2]; simpl in *; try exact H2.
  destruct (o_kill_extra o || match o_extra o with EKill => true | _ => false end); [exact H2|].
  destruct (o_extra o); exact H2.
Qed.

Lemma Inv_step s x : Inv (st_opts s) (st_map s) ->
  Inv (st_opts (fst (step s x))) (st_map (fst (step s x))).
Proof.
  intro H. destruct x as [fs|fs| |rq|upd]; simpl.
  - apply Inv_load_flows.
  - apply Inv_add_flows. exact H.
  - apply Inv_nil.
  - pose proof (Inv_request_hook (st_opts s) rq (st_map s) H) as H2.
    destruct (request_hook (st_opts s) rq (st_map s)); exact H2.
  - pose proof (Inv_configure (st_opts s) upd (st_map s) H) as H2.
    destruct (configure (st_opts s) upd (st_map s)); exact H2.
Qed.

(* ---------- histories ---------- *)

(* the state after a history *)
Definition final (s : state) (h : list op) : state := fold_left (fun s x => fst (step s x)) h s.

Lemma last_cons {A} (a d : A) : forall L, last (a :: L) d = last L a.
Proof.
  induction L as [|b L IH]; [reflexivity|].
  change (last (a :: b :: L) d) with (last (b :: L) d).
  destruct L as [|c L]; [reflexivity|].
  change (last (b :: c :: L) d) with (last (c :: L) d).
  change (last (b :: c :: L) a) with (last (c :: L) a).
  change (last (a :: c :: L) d) with (last (c :: L) d) in IH. exact IH.
Qed.

(* [final] is the last state of the trace computed by [run] *)
Lemma run_last : forall h s, last (map fst (run s h)) s = final s h.
Proof.
  induction h as [|x h IH]; intros s; [reflexivity|].
  simpl run. unfold final. simpl fold_left. fold (final (fst (step s x)) h).
  destruct (step s x) as [s2 out]. simpl map. rewrite last_cons. apply IH.
Qed.

Lemma final_snoc s h x : final s (h ++ [x]) = fst (step (final s h) x).
Proof. unfold final. rewrite fold_left_app. reflexivity. Qed.

Lemma Inv_final : forall h s, Inv (st_opts s) (st_map s) ->
  Inv (st_opts (final s h)) (st_map (final s h)).
Proof.
  induction h as [|x h IH]; intros s H; simpl; [exact H|].
  apply IH. apply Inv_step. exact H.
Qed.

Lemma Inv_reachable o0 h : Inv (st_opts (final (init o0) h)) (st_map (final (init o0) h)).
Proof. apply Inv_final. apply Inv_nil. Qed.
