(* Proofs/TnetRoundtrip.v -- load (dumps v) = mirror v for every well-formed value tree, where
   mirror reverses the item order of every dict (dumps writes dict items last-first; Python
   dict equality ignores order) -- and the consequences: injectivity / prefix-freeness. *)
From Coq Require Import List Bool Arith NArith ZArith Lia Permutation.
From MV Require Import Base.Bytes Model.Tnet Proofs.TnetBase.
Import ListNotations.

Definition mirror_pair (f : tv -> tv) (p : tv * tv) : tv * tv := (f (fst p), f (snd p)).

Fixpoint mirror (v : tv) : tv :=
  match v with
  | TList l => TList (map mirror l)
  | TDict kv => TDict (rev (map (mirror_pair mirror) kv))
  | _ => v
  end.

(* nesting: number of pop() frames below the frame that parses v *)
Fixpoint height (v : tv) : nat :=
  match v with
  | TList l => S (fold_right (fun x acc => Nat.max (height x) acc) 0 l)
  | TDict kv => S (fold_right (fun p acc => Nat.max (Nat.max (height (fst p)) (height (snd p))) acc) 0 kv)
  | _ => 0
  end.

Lemma mirror_involutive v : mirror (mirror v) = v.
Proof.
  induction v using tv_ind2; try reflexivity.
  - cbn [mirror]. f_equal. rewrite map_map. induction H as [|x l Hx _ IH]; cbn [map]; congruence.
  - cbn [mirror]. f_equal. rewrite <- map_rev, rev_involutive, map_map.
    induction H as [|p kv [Hk Hv] _ IH]; cbn [map]; [reflexivity|].
    rewrite IH. unfold mirror_pair at 1 2. cbn [fst snd]. rewrite Hk, Hv. now destruct p.
Qed.

Lemma height_mirror v : height (mirror v) = height v.
Proof.
  induction v using tv_ind2; try reflexivity.
  - cbn [mirror height]. f_equal. induction H as [|x l Hx _ IH]; cbn [map fold_right]; congruence.
  - cbn [mirror height]. f_equal.
    assert (G : forall (l : list (tv * tv)) a,
      fold_right (fun p acc => Nat.max (Nat.max (height (fst p)) (height (snd p))) acc) a (rev l)
      = Nat.max a (fold_right (fun p acc => Nat.max (Nat.max (height (fst p)) (height (snd p))) acc) 0 l)).
    { induction l as [|p l IHl]; intros a; cbn [rev fold_right]; [lia|].
      rewrite fold_right_app. cbn [fold_right]. rewrite IHl. lia. }
    rewrite G. cbn [Nat.max].
    induction H as [|p kv [Hk Hv] _ IH]; cbn [map fold_right]; [reflexivity|].
    rewrite IH. unfold mirror_pair. cbn [fst snd]. now rewrite Hk, Hv.
Qed.

(* equality of Python values: dicts compare as unordered collections of items *)
Inductive tv_equiv : tv -> tv -> Prop :=
| eqv_null : tv_equiv TNull TNull
| eqv_bool b : tv_equiv (TBool b) (TBool b)
| eqv_int z : tv_equiv (TInt z) (TInt z)
| eqv_float t : tv_equiv (TFloat t) (TFloat t)
| eqv_bytes b : tv_equiv (TBytes b) (TBytes b)
| eqv_str s : tv_equiv (TStr s) (TStr s)
| eqv_list l l' : Forall2 tv_equiv l l' -> tv_equiv (TList l) (TList l')
| eqv_dict kv kv' kv'' :
    Forall2 (fun p q => tv_equiv (fst p) (fst q) /\ tv_equiv (snd p) (snd q)) kv kv' ->
    Permutation kv' kv'' -> tv_equiv (TDict kv) (TDict kv'').

Lemma mirror_equiv v : tv_equiv v (mirror v).
Proof.
  induction v using tv_ind2; try constructor.
  - induction H; cbn [map]; constructor; auto.
  - cbn [mirror]. apply eqv_dict with (kv' := map (mirror_pair mirror) kv); [|apply Permutation_rev].
    induction H as [|p kv [Hk Hv] _ IH]; cbn [map]; constructor; auto.
Qed.

(* ---------- parse_with on each tag (the eight comparisons compute) ---------- *)
Section PW.
  Variable pyfloat : bytes -> option (bytes * option Z).
  Variable popf : bytes -> res (tv * bytes).
  Lemma pw_bytes d : parse_with pyfloat popf x2c d = Ok (TBytes d).
  Proof. reflexivity. Qed.
  Lemma pw_str d : parse_with pyfloat popf x3b d = if utf8_valid d then Ok (TStr d) else Exc ValueError.
  Proof. reflexivity. Qed.
  Lemma pw_int d : parse_with pyfloat popf x23 d = match py_int d with Some z => Ok (TInt z) | None => Exc ValueError end.
  Proof. reflexivity. Qed.
  Lemma pw_float d : parse_with pyfloat popf x5e d = match pyfloat d with Some (r, _) => Ok (TFloat r) | None => Exc ValueError end.
  Proof. reflexivity. Qed.
  Lemma pw_bool d : parse_with pyfloat popf x21 d =
    if bytes_eqb d s_true then Ok (TBool true) else if bytes_eqb d s_false then Ok (TBool false) else Exc ValueError.
  Proof. reflexivity. Qed.
  Lemma pw_null d : parse_with pyfloat popf x7e d = match d with [] => Ok TNull | _ => Exc ValueError end.
  Proof. reflexivity. Qed.
  Lemma pw_list d : parse_with pyfloat popf x5d d =
    match list_loop popf (length d) d with Ok l => Ok (TList l) | Exc e => Exc e | OutOfFuel => OutOfFuel end.
  Proof. reflexivity. Qed.
  Lemma pw_dict d : parse_with pyfloat popf x7d d =
    match dict_loop pyfloat popf (length d) d [] with Ok l => Ok (TDict l) | Exc e => Exc e | OutOfFuel => OutOfFuel end.
  Proof. reflexivity. Qed.
End PW.

Section RT.
  Variable pyfloat : bytes -> option (bytes * option Z).
  Notation key_eqb := (key_eqb pyfloat).

  (* keys pairwise different under Python equality (either direction) *)
  Fixpoint distinct_keys (ks : list tv) : Prop :=
    match ks with
    | [] => True
    | k :: r => Forall (fun k' => key_eqb k k' = false /\ key_eqb k' k = false) r /\ distinct_keys r
    end.

  (* well-formed = what tnetstring.dumps accepts and Python can hold:
     every length prefix and int has at most 4300 digits, floats carry their canonical repr,
     strs are valid UTF-8, dict keys are hashable and pairwise different *)
  Fixpoint wf (v : tv) : Prop :=
    len_ok (payload v) /\
    match v with
    | TInt z => int_ok z
    | TFloat tok => exists iv, pyfloat tok = Some (tok, iv)
    | TStr s => utf8_valid s = true
    | TList l => fold_right (fun x acc => wf x /\ acc) True l
    | TDict kv => fold_right (fun p acc => (wf (fst p) /\ wf (snd p)) /\ acc) True kv
                  /\ Forall (fun k => hashable k = true) (map fst kv)
                  /\ distinct_keys (map fst kv)
    | _ => True
    end.

  Lemma wf_len v : wf v -> len_ok (payload v).
  Proof. destruct v; cbn [wf]; tauto. Qed.

  Lemma wf_list_forall l : fold_right (fun x acc => wf x /\ acc) True l -> Forall wf l.
  Proof. induction l; cbn [fold_right]; intros; constructor; tauto. Qed.
  Lemma wf_dict_forall kv :
    fold_right (fun p acc => (wf (fst p) /\ wf (snd p)) /\ acc) True kv ->
    Forall (fun p => wf (fst p) /\ wf (snd p)) kv.
  Proof. induction kv; cbn [fold_right]; intros; constructor; tauto. Qed.

  Lemma hashable_mirror k : hashable k = true -> mirror k = k.
  Proof. destruct k; cbn; congruence. Qed.

  (* one frame *)
  Lemma pop_frame d p ty rest : len_ok p ->
    pop pyfloat (S d) (frame p ty ++ rest) =
    match parse_with pyfloat (pop pyfloat d) ty p with
    | Ok v => Ok (v, rest) | Exc e => Exc e | OutOfFuel => OutOfFuel
    end.
  Proof.
    intros H.
    assert (E : frame p ty ++ rest = dec_N (blen p) ++ x3a :: (p ++ ty :: rest)) by (unfold frame; norm_app).
    rewrite E. cbn [pop]. rewrite (split_frame _ _ H), pop_slices_frame. reflexivity.
  Qed.

  (* the list loop over a concatenation of encodings *)
  Lemma list_loop_dumps popf l : forall n,
    Forall (fun x => forall rest, popf (dumps_spec x ++ rest) = Ok (mirror x, rest)) l ->
    (length (concat (map dumps_spec l)) <= n)%nat ->
    list_loop popf n (concat (map dumps_spec l)) = Ok (map mirror l).
  Proof.
    induction l as [|x l IH]; intros n HF Hn; cbn [map concat].
    - destruct n; reflexivity.
    - inversion HF as [|? ? Hx Hl]; subst.
      destruct (dumps_spec_nonempty x) as (c & r & Ex).
      cbn [map concat] in Hn. rewrite app_length in Hn.
      assert (Hlen : (1 <= length (dumps_spec x))%nat) by (rewrite Ex; cbn [length]; lia).
      destruct n as [|n]; [lia|].
      assert (Eu : list_loop popf (S n) (dumps_spec x ++ concat (map dumps_spec l)) =
                   match popf (dumps_spec x ++ concat (map dumps_spec l)) with
                   | Ok (item, rest) =>
                       match list_loop popf n rest with
                       | Ok l0 => Ok (item :: l0) | Exc e => Exc e | OutOfFuel => OutOfFuel
                       end
                   | Exc e => Exc e | OutOfFuel => OutOfFuel
                   end) by (rewrite Ex; reflexivity).
      rewrite Eu, Hx, IH; auto. lia.
  Qed.

  Definition fresh (d : list (tv * tv)) (k : tv) : Prop := Forall (fun p => key_eqb (fst p) k = false) d.

  Lemma dict_replace_fresh d k v : fresh d k -> dict_replace pyfloat d k v = None.
  Proof.
    induction d as [|[k0 v0] d IH]; intros H; cbn [dict_replace]; [reflexivity|].
    inversion H as [|? ? H1 H2]; subst. cbn [fst] in H1. rewrite H1, IH; auto.
  Qed.

  (* insertion order of keys: each later key differs from every earlier one *)
  Fixpoint nocollide (ks : list tv) : Prop :=
    match ks with
    | [] => True
    | k :: r => Forall (fun k' => key_eqb k k' = false) r /\ nocollide r
    end.

  Lemma nocollide_app a b :
    nocollide (a ++ b) <-> nocollide a /\ nocollide b /\ Forall (fun x => Forall (fun y => key_eqb x y = false) b) a.
  Proof.
    induction a as [|x a IH]; cbn [app nocollide].
    - split; [intros; repeat split; auto | tauto].
    - rewrite IH, Forall_app. split.
      + intros [[H1 H2] (H3 & H4 & H5)]. repeat split; auto.
      + intros [[H1 H3] (H4 & H5)]. inversion H5; subst. repeat split; auto.
  Qed.

  Lemma distinct_nocollide_rev ks : distinct_keys ks -> nocollide (rev ks).
  Proof.
    induction ks as [|k r IH]; cbn [distinct_keys rev]; intros H; [exact I|].
    destruct H as [H1 H2]. apply nocollide_app. split; [auto|]. split; [cbn; split; [constructor|exact I]|].
    apply Forall_forall. intros x Hx. apply in_rev in Hx.
    rewrite Forall_forall in H1. constructor; [|constructor]. now apply H1.
  Qed.

  Lemma dict_loop_dumps popf ps : forall n d,
    Forall (fun p => (forall rest, popf (dumps_spec (fst p) ++ rest) = Ok (mirror (fst p), rest))
                     /\ (forall rest, popf (dumps_spec (snd p) ++ rest) = Ok (mirror (snd p), rest))
                     /\ hashable (fst p) = true) ps ->
    nocollide (map fst d ++ map fst ps) ->
    (length (concat (map (enc_pair dumps_spec) ps)) <= n)%nat ->
    dict_loop pyfloat popf n (concat (map (enc_pair dumps_spec) ps)) d = Ok (d ++ map (mirror_pair mirror) ps).
  Proof.
    induction ps as [|p ps IH]; intros n d HF Hnc Hn; cbn [map concat].
    - rewrite app_nil_r. destruct n; reflexivity.
    - inversion HF as [|? ? (Hk & Hv & Hh) Hl]; subst.
      destruct (dumps_spec_nonempty (fst p)) as (c & r & Ex).
      cbn [map concat] in Hn. unfold enc_pair at 1 in Hn. rewrite !app_length in Hn.
      assert (Hlen : (1 <= length (dumps_spec (fst p)))%nat) by (rewrite Ex; cbn [length]; lia).
      destruct n as [|n]; [lia|].
      unfold enc_pair at 1. rewrite <- app_assoc.
      assert (Eu : forall tail, dict_loop pyfloat popf (S n) (dumps_spec (fst p) ++ tail) d =
                   match popf (dumps_spec (fst p) ++ tail) with
                   | Ok (key, data1) =>
                       match popf data1 with
                       | Ok (val, data2) =>
                           match dict_set pyfloat d key val with
                           | Ok d' => dict_loop pyfloat popf n data2 d'
                           | Exc e => Exc e | OutOfFuel => OutOfFuel
                           end
                       | Exc e => Exc e | OutOfFuel => OutOfFuel
                       end
                   | Exc e => Exc e | OutOfFuel => OutOfFuel
                   end) by (intros; rewrite Ex; reflexivity).
      rewrite Eu, Hk, Hv. unfold dict_set.
      rewrite (hashable_mirror _ Hh), Hh.
      cbn [map] in Hnc. apply nocollide_app in Hnc. destruct Hnc as (Hd & Hps & Hcross).
      cbn [nocollide] in Hps. destruct Hps as [Hp1 Hp2].
      rewrite dict_replace_fresh.
      + rewrite IH; auto.
        * rewrite <- app_assoc. cbn [app]. f_equal. f_equal. unfold mirror_pair at 2.
          now rewrite (hashable_mirror _ Hh).
        * rewrite map_app. cbn [map fst]. rewrite <- app_assoc. cbn [app].
          apply nocollide_app. repeat split; auto.
        * lia.
      + unfold fresh. rewrite Forall_forall in Hcross |- *. intros q Hq.
        specialize (Hcross (fst q) (in_map fst _ _ Hq)). now inversion Hcross.
  Qed.

  Lemma max_fold_le (l : list tv) x : In x l ->
    (height x <= fold_right (fun x acc => Nat.max (height x) acc) 0 l)%nat.
  Proof. induction l; cbn [In fold_right]; [tauto|]; intros [->|H]; [lia| specialize (IHl H); lia]. Qed.
  Lemma max_fold_le2 (l : list (tv * tv)) p : In p l ->
    (Nat.max (height (fst p)) (height (snd p)) <=
     fold_right (fun p acc => Nat.max (Nat.max (height (fst p)) (height (snd p))) acc) 0 l)%nat.
  Proof. induction l; cbn [In fold_right]; [tauto|]; intros [->|H]; [lia| specialize (IHl H); lia]. Qed.

  (* main lemma: pop reads back exactly one encoded value and leaves the rest *)
  Lemma pop_dumps v : wf v -> forall d rest, (height v < d)%nat ->
    pop pyfloat d (dumps_spec v ++ rest) = Ok (mirror v, rest).
  Proof.
    induction v using tv_ind2; intros Hwf d rest Hd; (destruct d as [|d]; [lia|]);
      pose proof (wf_len _ Hwf) as Hlen; rewrite dumps_spec_frame, (pop_frame _ _ _ _ Hlen); cbn [tag payload].
    - reflexivity.
    - destruct b; reflexivity.
    - rewrite pw_int. cbn [wf] in Hwf. rewrite py_int_dec_Z by tauto. reflexivity.
    - rewrite pw_float. cbn [wf] in Hwf. destruct Hwf as [_ [iv E]]. rewrite E. reflexivity.
    - reflexivity.
    - rewrite pw_str. cbn [wf] in Hwf. destruct Hwf as [_ E]. rewrite E. reflexivity.
    - rewrite pw_list. cbn [wf] in Hwf. destruct Hwf as [_ Hl]. apply wf_list_forall in Hl.
      rewrite list_loop_dumps; [reflexivity| |lia].
      rewrite Forall_forall in H, Hl |- *. intros x Hx rest0. apply H; auto.
      cbn [height] in Hd. pose proof (max_fold_le l x Hx). lia.
    - rewrite pw_dict. cbn [wf] in Hwf. destruct Hwf as [_ (Hl & Hh & Hdk)]. apply wf_dict_forall in Hl.
      rewrite <- map_rev.
      rewrite dict_loop_dumps.
      + cbn [app mirror]. now rewrite map_rev.
      + rewrite Forall_forall in H, Hl, Hh |- *. intros p Hp. apply in_rev in Hp.
        cbn [height] in Hd. pose proof (max_fold_le2 kv p Hp).
        destruct (H p Hp) as [IHk IHv]. destruct (Hl p Hp) as [Wk Wv].
        repeat split.
        * intros rest0. apply IHk; auto. lia.
        * intros rest0. apply IHv; auto. lia.
        * apply Hh. now apply in_map.
      + cbn [map app]. rewrite map_rev. now apply distinct_nocollide_rev.
      + rewrite map_rev. lia.
  Qed.

  Lemma parse_payload v : wf v -> forall d, (height v <= d)%nat ->
    parse pyfloat d (tag v) (payload v) = Ok (mirror v).
  Proof.
    intros Hwf d Hd.
    pose proof (pop_dumps v Hwf (S d) [] ltac:(lia)) as H.
    rewrite dumps_spec_frame, (pop_frame _ _ _ _ (wf_len _ Hwf)) in H.
    unfold parse. destruct (parse_with pyfloat (pop pyfloat d) (tag v) (payload v)); congruence.
  Qed.

  (* the file-level reader: at most 12 length digits *)
  Definition top_ok (v : tv) : Prop := (length (dec_N (blen (payload v))) <= 12)%nat.

  Lemma read_len_digits ds rest : forall cnt,
    Forall (fun c => is_digit c = true) ds -> (cnt + length ds <= 12)%nat ->
    read_len (ds ++ x3a :: rest) cnt = Some (ds, rest).
  Proof.
    induction ds as [|c ds IH]; intros cnt HF Hn; cbn [app read_len].
    - reflexivity.
    - inversion HF as [|? ? Hc Hr]; subst. rewrite Hc. cbn [length] in Hn.
      destruct (12 <? S cnt)%nat eqn:E; [apply Nat.ltb_lt in E; lia|].
      rewrite IH; auto. lia.
  Qed.

  Lemma takeN_app (p l : bytes) : takeN (blen p) (p ++ l) = p.
  Proof.
    unfold takeN, blen. rewrite app_length, N.min_l by lia. rewrite Nat2N.id. apply firstn_len_app.
  Qed.
  Lemma dropN_app (p l : bytes) : dropN (blen p) (p ++ l) = l.
  Proof.
    unfold dropN, blen. rewrite app_length, N.min_l by lia. rewrite Nat2N.id. apply skipn_len_app.
  Qed.

  Lemma load_frame depth p ty rest : (length (dec_N (blen p)) <= 12)%nat ->
    load pyfloat depth (frame p ty ++ rest) =
    match parse pyfloat depth ty p with Ok v => LValue v rest | Exc e => LExc e | OutOfFuel => LFuel end.
  Proof.
    intros H12.
    assert (E : frame p ty ++ rest = dec_N (blen p) ++ x3a :: (p ++ ty :: rest)) by (unfold frame; norm_app).
    rewrite E.
    pose proof (dec_N_digits (blen p)) as HF. pose proof (digits_val_dec_N (blen p)) as HV.
    destruct (dec_N (blen p)) as [|c r] eqn:Ed; [now apply dec_N_nonempty in Ed|].
    change ((c :: r) ++ x3a :: p ++ ty :: rest) with (c :: (r ++ x3a :: p ++ ty :: rest)).
    unfold load.
    change (c :: r ++ x3a :: p ++ ty :: rest) with ((c :: r) ++ x3a :: p ++ ty :: rest).
    rewrite read_len_digits by (auto; cbn [length] in *; lia).
    rewrite HV, takeN_app, dropN_app. reflexivity.
  Qed.

  Theorem load_dumps v depth rest : wf v -> top_ok v -> (height v <= depth)%nat ->
    load pyfloat depth (dumps v ++ rest) = LValue (mirror v) rest.
  Proof.
    intros Hwf Htop Hd. rewrite dumps_is_spec, dumps_spec_frame, load_frame by exact Htop.
    now rewrite parse_payload.
  Qed.

  Theorem loads_dumps v depth : wf v -> (height v < depth)%nat ->
    loads pyfloat depth (dumps v) = Ok (mirror v).
  Proof.
    intros Hwf Hd. unfold loads. rewrite dumps_is_spec, <- (app_nil_r (dumps_spec v)), pop_dumps; auto.
  Qed.

  (* the encoding is prefix-free (hence injective) on well-formed values *)
  Theorem dumps_prefix_free v1 v2 rest :
    wf v1 -> wf v2 -> dumps v2 = dumps v1 ++ rest -> v1 = v2 /\ rest = [].
  Proof.
    intros W1 W2 E.
    pose proof (pop_dumps v1 W1 (S (Nat.max (height v1) (height v2))) rest ltac:(lia)) as P1.
    pose proof (pop_dumps v2 W2 (S (Nat.max (height v1) (height v2))) [] ltac:(lia)) as P2.
    rewrite app_nil_r, <- !dumps_is_spec, E in P2. rewrite <- dumps_is_spec in P1.
    rewrite P1 in P2. injection P2 as Em Er. split; [|exact Er].
    rewrite <- (mirror_involutive v1), <- (mirror_involutive v2). now rewrite Em.
  Qed.

  Corollary dumps_injective v1 v2 : wf v1 -> wf v2 -> dumps v1 = dumps v2 -> v1 = v2.
  Proof.
    intros W1 W2 E. apply (dumps_prefix_free v1 v2 []); auto. now rewrite app_nil_r.
  Qed.
End RT.
