(* Proofs/WsRelay.v -- relay_messages: for every event history and every addon, the message
   frames sent to a peer are exactly the fragments of the recorded, non-dropped messages of the
   other side, in order (so a receiver reassembles each of them exactly once); pings and pongs are
   relayed; the first close event is recorded and nothing is relayed afterwards. *)
From Coq Require Import List Bool Arith NArith Lia.
From MV Require Import Base.Bytes Model.WsUtf8 Model.Websocket Proofs.WsUtf8 Proofs.WsFragment.
Import ListNotations.

Definition is_msg_ev (e : wsevent) : bool :=
  match e with WText _ _ _ | WBytes _ _ _ => true | _ => false end.
Definition is_ctrl_ev (e : wsevent) : bool :=
  match e with WPing _ | WPong _ => true | _ => false end.

(* events of a given kind sent to one side *)
Definition sel (k : wsevent -> bool) (side : bool) (c : cmd) : list wsevent :=
  match c with CSend t e => if Bool.eqb t side && k e then [e] else [] | _ => [] end.
Definition sends (k : wsevent -> bool) (side : bool) (cs : list cmd) : list wsevent := flat_map (sel k side) cs.
Definition msg_sends := sends is_msg_ev.
Definition ctrl_sends := sends is_ctrl_ev.

(* the frames a recorded message must produce *)
Definition expected_frames (fs : nat) (m : wsmessage) : list wsevent :=
  if m_dropped m then []
  else match fragmentize fs (m_lens m) (m_text m) (m_content m) with Some es => es | None => [] end.
Definition sel_exp (fs : nat) (side : bool) (m : wsmessage) : list wsevent :=
  if Bool.eqb (m_from_client m) (negb side) then expected_frames fs m else [].
Definition expected_for (fs : nat) (side : bool) (ms : list wsmessage) : list wsevent := flat_map (sel_exp fs side) ms.

Lemma sends_app k side a b : sends k side (a ++ b) = sends k side a ++ sends k side b.
Proof. apply flat_map_app. Qed.

Lemma expected_app fs side a b : expected_for fs side (a ++ b) = expected_for fs side a ++ expected_for fs side b.
Proof. apply flat_map_app. Qed.

(* ---- one step: what a function that maps s to (s1, cs) guarantees when s1 is not crashed ---- *)
Record step_ok (fs : nat) (s s1 : lstate) (cs : list cmd) : Prop := {
  so_crash : is_crashed s = false;
  so_new : exists new, messages s1 = messages s ++ new
           /\ forall side, msg_sends side cs = expected_for fs side new
}.

Lemma step_refl fs s : is_crashed s = false -> step_ok fs s s [].
Proof. intros H. split; [exact H|]. exists []. split; [symmetry; apply app_nil_r|reflexivity]. Qed.

Lemma step_trans fs s s1 s2 c1 c2 : step_ok fs s s1 c1 -> step_ok fs s1 s2 c2 -> step_ok fs s s2 (c1 ++ c2).
Proof.
  intros [H1 (n1 & M1 & E1)] [H2 (n2 & M2 & E2)]. split; [exact H1|].
  exists (n1 ++ n2). split; [rewrite M2, M1; symmetry; apply app_assoc|].
  intros side. unfold msg_sends in *. rewrite sends_app, expected_app, E1, E2. reflexivity.
Qed.

(* a step that records nothing and sends no message frame *)
Lemma step_quiet fs s s1 cs : is_crashed s = false -> messages s1 = messages s ->
  (forall side, msg_sends side cs = []) -> step_ok fs s s1 cs.
Proof.
  intros H M E. split; [exact H|]. exists []. split; [rewrite M; symmetry; apply app_nil_r|exact E].
Qed.

(* ---- send2 / send_all ---- *)
Lemma set_ws_messages c x s : messages (set_ws c x s) = messages s.
Proof. destruct c; reflexivity. Qed.
Lemma set_ws_crashed c x s : is_crashed (set_ws c x s) = is_crashed s.
Proof. destruct c; reflexivity. Qed.
Lemma set_ws_closed c x s : closed (set_ws c x s) = closed s.
Proof. destruct c; reflexivity. Qed.
Lemma set_ws_finished c x s : finished (set_ws c x s) = finished s.
Proof. destruct c; reflexivity. Qed.

Lemma send2_inv t e s s1 cs : send2 t e s = (s1, cs) -> is_crashed s1 = false ->
  is_crashed s = false /\ messages s1 = messages s /\ closed s1 = closed s /\ finished s1 = finished s
  /\ cs = [CSend t e].
Proof.
  unfold send2. destruct (is_crashed s) eqn:C.
  - intros H. injection H as <- <-. congruence.
  - destruct (ws_send (get_ws t s) e) as [c'|]; intros H; injection H as <- <-.
    + intros _. rewrite set_ws_messages, set_ws_closed, set_ws_finished. auto.
    + cbn. discriminate.
Qed.

Lemma send_all_inv t es : forall s s1 cs, send_all t es s = (s1, cs) -> is_crashed s1 = false ->
  is_crashed s = false /\ messages s1 = messages s /\ closed s1 = closed s /\ finished s1 = finished s
  /\ cs = map (CSend t) es.
Proof.
  induction es as [|e es IH]; intros s s1 cs H NC; cbn [send_all] in H.
  - injection H as <- <-. auto.
  - destruct (send2 t e s) as [sa ca] eqn:E1. destruct (send_all t es sa) as [sb cb] eqn:E2.
    injection H as <- <-.
    destruct (IH _ _ _ E2 NC) as (Ca & Ma & Cla & Fa & ->).
    destruct (send2_inv _ _ _ _ _ E1 Ca) as (C0 & M0 & Cl0 & F0 & ->).
    repeat split; try congruence.
Qed.

Lemma sends_map_send k t side es : Forall (fun e => k e = true) es ->
  sends k side (map (CSend t) es) = if Bool.eqb t side then es else [].
Proof.
  induction 1 as [|e es He _ IH]; [destruct (Bool.eqb t side); reflexivity|].
  cbn [map]. unfold sends in *. cbn [flat_map sel]. rewrite IH, He.
  destruct (Bool.eqb t side); reflexivity.
Qed.

Lemma sends_map_none k t side es : Forall (fun e => k e = false) es -> sends k side (map (CSend t) es) = [].
Proof.
  induction 1 as [|e es He _ IH]; [reflexivity|].
  cbn [map]. unfold sends in *. cbn [flat_map sel]. rewrite IH, He, andb_false_r. reflexivity.
Qed.

Lemma fragmentize_msgs fs lens t c es : fragmentize fs lens t c = Some es -> Forall (fun e => is_msg_ev e = true) es.
Proof.
  intros H. apply fragmentize_inv in H as (fr & _ & ->). rewrite Forall_map.
  apply Forall_forall. intros df _. unfold msg. destruct t; reflexivity.
Qed.

(* ---- the Message branch ---- *)
Lemma on_message_ok fs addon fc inj t d ff mf s s1 cs :
  on_message fs addon fc inj t d ff mf s = (s1, cs) -> is_crashed s = false -> is_crashed s1 = false ->
  step_ok fs s s1 cs /\ closed s1 = closed s /\ finished s1 = finished s.
Proof.
  unfold on_message. intros H C NC. destruct mf.
  - rewrite set_ws_messages in H.
    destruct (addon _) as [content' dropped'] eqn:EA.
    set (m' := mkMsg t fc content' dropped' inj _ _) in H.
    destruct dropped' eqn:ED.
    + injection H as <- <-. split; [|split; cbn; apply set_ws_closed || apply set_ws_finished].
      split; [exact C|]. exists [m']. split; [cbn; rewrite ?set_ws_messages; reflexivity|].
      intros side. cbn. unfold sel_exp, expected_frames. cbn. destruct (Bool.eqb fc (negb side)); reflexivity.
    + destruct (fragmentize fs _ t content') as [es|] eqn:EF.
      * destruct (send_all (negb fc) es _) as [s3 c3] eqn:ES. injection H as <- <-.
        destruct (send_all_inv _ _ _ _ _ ES NC) as (_ & M3 & Cl3 & F3 & ->).
        split; [|split; [rewrite Cl3; cbn; apply set_ws_closed|rewrite F3; cbn; apply set_ws_finished]].
        split; [exact C|]. exists [m']. split; [rewrite M3; cbn; rewrite ?set_ws_messages; reflexivity|].
        intros side. unfold msg_sends. change (CMsgHook :: ?l) with ([CMsgHook] ++ l).
        rewrite sends_app, (sends_map_send _ _ _ _ (fragmentize_msgs _ _ _ _ _ EF)).
        cbn. unfold sel_exp, expected_frames. cbn. rewrite EF, app_nil_r.
        destruct fc, side; reflexivity.
      * injection H as <- <-. cbn in NC. discriminate.
  - destruct ff; injection H as <- <-;
      (split; [apply step_quiet; [exact C|apply set_ws_messages|reflexivity]
              |split; [apply set_ws_closed|apply set_ws_finished]]).
Qed.

Lemma close_one_inv c ev s s1 cs : is_msg_ev ev = false -> is_ctrl_ev ev = false ->
  close_one c ev s = (s1, cs) -> is_crashed s1 = false ->
  is_crashed s = false /\ messages s1 = messages s /\ closed s1 = closed s /\ finished s1 = finished s
  /\ (forall side, msg_sends side cs = []) /\ (forall side, ctrl_sends side cs = []).
Proof.
  intros K1 K2. unfold close_one. destruct (sendable _).
  - destruct (send2 c ev s) as [sa ca] eqn:E. intros H NC. injection H as <- <-.
    destruct (send2_inv _ _ _ _ _ E NC) as (C0 & M0 & Cl0 & F0 & ->).
    repeat split; try assumption; intros side; cbn; rewrite ?K1, ?K2, andb_false_r; reflexivity.
  - intros H NC. injection H as <- <-. repeat split; auto.
Qed.

(* ---- one wsproto event ---- *)
Lemma process_event_ok fs addon fc inj s evst s1 cs :
  process_event fs addon fc inj s evst = (s1, cs) -> is_crashed s1 = false -> step_ok fs s s1 cs.
Proof.
  unfold process_event. destruct (is_crashed s) eqn:C.
  { intros H. injection H as <- <-. congruence. }
  destruct evst as [ev st]. set (s0 := set_ws fc _ s).
  assert (C0 : is_crashed s0 = false) by (unfold s0; now rewrite set_ws_crashed).
  assert (M0 : messages s0 = messages s) by apply set_ws_messages.
  intros H NC.
  assert (G : step_ok fs s0 s1 cs -> step_ok fs s s1 cs).
  { intros [_ (new & Hn & He)]. split; [exact C|]. exists new. rewrite <- M0. auto. }
  apply G. clear G. destruct ev as [d ff mf|d ff mf|p|p|code reason].
  - apply (on_message_ok _ _ _ _ _ _ _ _ _ _ _ H C0 NC).
  - apply (on_message_ok _ _ _ _ _ _ _ _ _ _ _ H C0 NC).
  - destruct (send2 _ _ s0) as [sa ca] eqn:E. injection H as <- <-.
    destruct (send2_inv _ _ _ _ _ E NC) as (_ & Ma & _ & _ & ->).
    apply step_quiet; [exact C0|exact Ma|]. intros side. cbn. rewrite andb_false_r. reflexivity.
  - destruct (send2 _ _ s0) as [sa ca] eqn:E. injection H as <- <-.
    destruct (send2_inv _ _ _ _ _ E NC) as (_ & Ma & _ & _ & ->).
    apply step_quiet; [exact C0|exact Ma|]. intros side. cbn. rewrite andb_false_r. reflexivity.
  - destruct (close_one false _ _) as [sa ca] eqn:E1. destruct (close_one true _ sa) as [sb cb] eqn:E2.
    injection H as <- <-. cbn in NC.
    destruct (close_one_inv true (WClose code reason) _ _ _ eq_refl eq_refl E2 NC) as (Ca & Mb & _ & _ & Sb & _).
    destruct (close_one_inv false (WClose code reason) _ _ _ eq_refl eq_refl E1 Ca) as (_ & Ma & _ & _ & Sa & _).
    apply step_quiet; [exact C0|cbn; rewrite Mb, Ma; reflexivity|].
    intros side. unfold msg_sends in *. rewrite !sends_app, Sa, Sb. reflexivity.
Qed.

Lemma process_events_ok fs addon fc inj : forall evs s s1 cs,
  process_events fs addon fc inj s evs = (s1, cs) -> is_crashed s = false -> is_crashed s1 = false ->
  step_ok fs s s1 cs.
Proof.
  induction evs as [|e evs IH]; intros s s1 cs H C NC; cbn [process_events] in H.
  - injection H as <- <-. apply step_refl. exact C.
  - destruct (process_event fs addon fc inj s e) as [sa ca] eqn:E1.
    destruct (process_events fs addon fc inj sa evs) as [sb cb] eqn:E2. injection H as <- <-.
    assert (Ca : is_crashed sa = false).
    { destruct (is_crashed sa) eqn:X; [|reflexivity]. exfalso.
      clear - E2 X NC. revert sa sb cb E2 X NC. induction evs as [|e' evs' IH']; intros sa sb cb E2 X NC; cbn [process_events] in E2.
      - injection E2 as <- <-. congruence.
      - unfold process_event at 1 in E2. rewrite X in E2.
        destruct (process_events fs addon fc inj sa evs') as [sc cc] eqn:E3. injection E2 as <- <-.
        eapply IH'; eauto. }
    eapply step_trans; [eapply process_event_ok; eauto|eapply IH; eauto].
Qed.

Lemma handle_event_ok fs addon s e s1 cs :
  handle_event fs addon s e = (s1, cs) -> is_crashed s = false -> is_crashed s1 = false -> step_ok fs s s1 cs.
Proof.
  unfold handle_event. intros H C NC. destruct (finished s || is_crashed s).
  { injection H as <- <-. apply step_refl. exact C. }
  destruct e as [fc evs|fc|fc t content].
  - eapply process_events_ok; eauto.
  - eapply process_events_ok; eauto.
  - destruct (fragmentize fs [] t content) as [es|].
    + eapply process_events_ok; eauto.
    + injection H as <- <-. cbn in NC. discriminate.
Qed.

Lemma crashed_sticky_handle fs addon s e : is_crashed s = true -> handle_event fs addon s e = (s, []).
Proof. intros C. unfold handle_event. rewrite C, orb_true_r. reflexivity. Qed.

Lemma crashed_sticky_run fs addon : forall evs s, is_crashed s = true -> run fs addon s evs = (s, []).
Proof.
  induction evs as [|e evs IH]; intros s C; cbn [run]; [reflexivity|].
  rewrite (crashed_sticky_handle _ _ _ _ C), (IH _ C). reflexivity.
Qed.

Lemma run_ok fs addon : forall evs s s1 cs,
  run fs addon s evs = (s1, cs) -> is_crashed s = false -> is_crashed s1 = false -> step_ok fs s s1 cs.
Proof.
  induction evs as [|e evs IH]; intros s s1 cs H C NC; cbn [run] in H.
  - injection H as <- <-. apply step_refl. exact C.
  - destruct (handle_event fs addon s e) as [sa ca] eqn:E1.
    destruct (run fs addon sa evs) as [sb cb] eqn:E2. injection H as <- <-.
    assert (Ca : is_crashed sa = false).
    { destruct (is_crashed sa) eqn:X; [|reflexivity]. rewrite (crashed_sticky_run _ _ _ _ X) in E2.
      injection E2 as <- <-. congruence. }
    eapply step_trans; [eapply handle_event_ok; eauto|eapply IH; eauto].
Qed.

(* every message frame sent to a side belongs to a recorded non-dropped message of the other side:
   exactly its fragments, in recording order, nothing else *)
Theorem sends_are_recorded fs addon evs s1 cs :
  run fs addon init evs = (s1, cs) -> is_crashed s1 = false ->
  forall side, msg_sends side cs = expected_for fs side (messages s1).
Proof.
  intros H NC side. destruct (run_ok _ _ _ _ _ _ H eq_refl NC) as [_ (new & M & E)].
  cbn in M. rewrite M. apply E.
Qed.

(* ---- the receiver: reassembly of frames into messages ---- *)
Fixpoint reasm (acc : bytes) (es : list wsevent) : list (bool * bytes) :=
  match es with
  | [] => []
  | WText d _ mf :: r => if mf then (true, acc ++ encode d) :: reasm [] r else reasm (acc ++ encode d) r
  | WBytes d _ mf :: r => if mf then (false, acc ++ d) :: reasm [] r else reasm (acc ++ d) r
  | _ :: r => reasm acc r
  end.

Lemma reasm_frags t fr : wf_frags fr -> forall acc rest,
  reasm acc (map (fun df => msg t (fst df) (snd df)) fr ++ rest)
  = (t, acc ++ concat (map (fun df => payload_as_sent t (fst df)) fr)) :: reasm [] rest.
Proof.
  induction 1 as [d|d r _ IH]; intros acc rest.
  - cbn. unfold msg, payload_as_sent. destruct t; cbn; rewrite app_nil_r; reflexivity.
  - cbn [map app fst snd concat]. unfold msg at 1. unfold payload_as_sent at 1.
    destruct t; cbn [reasm]; rewrite IH, app_assoc; reflexivity.
Qed.

(* a recorded message whose fragments carry exactly its content *)
Definition exact_msg (fs : nat) (m : wsmessage) : Prop :=
  forall fr, fragments fs (m_lens m) (m_content m) = Some fr ->
  concat (map (fun df => payload_as_sent (m_text m) (fst df)) fr) = m_content m.

Lemma exact_msg_binary fs m : m_text m = false -> exact_msg fs m.
Proof. intros T fr Hf. rewrite T. rewrite <- (fragments_concat _ _ _ _ Hf). reflexivity. Qed.

Lemma exact_msg_text_valid fs m :
  (forall fr, fragments fs (m_lens m) (m_content m) = Some fr -> Forall (fun df => utf8_valid (fst df) = true) fr) ->
  exact_msg fs m.
Proof.
  intros V fr Hf. rewrite <- (fragments_concat _ _ _ _ Hf). f_equal.
  apply map_ext_in. intros df Hin. specialize (V _ Hf). rewrite Forall_forall in V.
  unfold payload_as_sent. destruct (m_text m); [apply enc_dec_valid, V, Hin|reflexivity].
Qed.

Lemma exact_msg_text_boundaries fs m : utf8_valid (m_content m) = true ->
  (forall fr, fragments fs (m_lens m) (m_content m) = Some fr -> Forall (fun df => starts_ok (fst df) = true) fr) ->
  exact_msg fs m.
Proof.
  intros V S. apply exact_msg_text_valid. intros fr Hf.
  pose proof (fragments_concat _ _ _ _ Hf) as Hc.
  assert (Forall (fun p => utf8_valid p = true) (map fst fr)) as HV.
  { apply pieces_valid; [rewrite Hc; exact V|]. rewrite Forall_map. exact (S _ Hf). }
  rewrite Forall_map in HV. exact HV.
Qed.

Definition relayed (side : bool) (m : wsmessage) : bool :=
  Bool.eqb (m_from_client m) (negb side) && negb (m_dropped m).

Lemma reasm_expected fs side : 0 < fs -> forall ms, Forall (exact_msg fs) ms ->
  reasm [] (expected_for fs side ms) = map (fun m => (m_text m, m_content m)) (filter (relayed side) ms).
Proof.
  intros Hfs. induction 1 as [|m ms Hm _ IH]; [reflexivity|].
  unfold expected_for in *. cbn [flat_map filter]. unfold sel_exp at 1, relayed at 1, expected_frames.
  destruct (Bool.eqb (m_from_client m) (negb side)); cbn [andb app]; [|exact IH].
  destruct (m_dropped m); cbn [negb app]; [exact IH|].
  destruct (fragments_total fs (m_lens m) (m_content m) Hfs) as [fr Hf].
  unfold fragmentize. rewrite Hf. cbn [option_map map].
  rewrite (reasm_frags _ _ (fragments_wf _ _ _ _ Hf)), IH. cbn [app]. rewrite (Hm _ Hf). reflexivity.
Qed.

(* exactly once, in order, same type, recorded content *)
Theorem delivered_exactly_once fs addon evs s1 cs : 0 < fs ->
  run fs addon init evs = (s1, cs) -> is_crashed s1 = false -> Forall (exact_msg fs) (messages s1) ->
  forall side, reasm [] (msg_sends side cs)
               = map (fun m => (m_text m, m_content m)) (filter (relayed side) (messages s1)).
Proof.
  intros Hfs H NC Ex side. rewrite (sends_are_recorded _ _ _ _ _ H NC). apply reasm_expected; assumption.
Qed.
