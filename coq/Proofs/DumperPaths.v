(* Proofs/DumperPaths.v -- the echo-path table translated from dumper.py (Gen/DumperPaths.v):
   meaning of a path expression, soundness of the [sanitized] check, and the facts about the
   generated table (every path sanitized; the call sites are exactly the ones Model.Dumper
   covers; the translation table of strutils is the one the model uses). *)
From Coq Require Import List Bool NArith Lia String.
From MV Require Import Base.Bytes Model.Strutils Model.Dumper Proofs.DumperBase Gen.DumperPaths.
Import ListNotations.
Local Open Scope N_scope.

(* [den e t]: t is a token text that the expression e can evaluate to, for some values of the
   flow fields (Raw: any text at all; Num: any harmless text), some branch choices, some number
   of loop iterations, styling on or off. *)
Inductive den : sexp -> ttext -> Prop :=
| D_empty : den Empty []
| D_lit s : den (Lit s) (plain s)
| D_num n t : ok_text t = true -> den (Num n) (plain t)
| D_raw n t : den (Raw n) (plain t)
| D_escb n b : den (EscB n) (b2e b)
| D_esc e t : den e t -> den (Esc e) (esc (flatten t))
| D_sty e t s v : den e t -> den (Sty e) (style_ v t s)
| D_ind e t n : den e t -> den (Ind e) (indent n t)
| D_sub e t t' : den e t -> incl t' t -> den (Sub e) t'
| D_cat a b ta tb : den a ta -> den b tb -> den (Cat a b) (ta ++ tb)
| D_alt_l a b t : den a t -> den (Alt a b) t
| D_alt_r a b t : den b t -> den (Alt a b) t
| D_rep_nil sep e : den (Rep sep e) []
| D_rep_one sep e t : den e t -> den (Rep sep e) t
| D_rep_cons sep e t r : den e t -> den (Rep sep e) r -> den (Rep sep e) (t ++ plain sep ++ r).

(* styling may be on in one place and off in another: judge with styling allowed *)
Lemma OK_weaken v t : OK v t -> OK true t.
Proof.
  rewrite !OK_In. intros H k Hk. specialize (H k Hk). destruct k as [c|s]; [exact H|].
  cbn [ok_tok] in *. apply andb_true_iff in H as [_ H]. exact H.
Qed.

Lemma OK_style_any v t s : OK true t -> OK true (style_ v t s).
Proof.
  intro H. unfold style_. destruct s as [st|]; [|exact H].
  destruct v; [apply OK_miniclick; exact H | exact H].
Qed.

Theorem sanitized_sound e t : den e t -> sanitized e = true -> OK true t.
Proof.
  induction 1; cbn [sanitized]; intro Hs.
  - apply OK_nil.
  - apply OK_plain. exact Hs.
  - apply OK_plain. assumption.
  - discriminate.
  - apply OK_b2e.
  - apply OK_esc.
  - apply OK_style_any. apply IHden, Hs.
  - apply OK_indent. apply IHden, Hs.
  - eapply OK_incl; [eassumption | apply IHden, Hs].
  - apply andb_true_iff in Hs as [Ha Hb]. apply OK_app_intro; [apply IHden1, Ha | apply IHden2, Hb].
  - apply andb_true_iff in Hs as [Ha _]. apply IHden, Ha.
  - apply andb_true_iff in Hs as [_ Hb]. apply IHden, Hb.
  - apply OK_nil.
  - apply andb_true_iff in Hs as [_ He]. apply IHden, He.
  - pose proof Hs as Hs'. apply andb_true_iff in Hs' as [Hsep He].
    apply OK_app_intro; [apply IHden1, He|]. apply OK_app_intro; [apply OK_plain, Hsep | apply IHden2, Hs].
Qed.

(* the check is not vacuous: an unsanitized field does reach the terminal *)
Lemma raw_unsound : exists t, den (Raw "x") t /\ ~ OK true t.
Proof. exists (plain [27]). split; [constructor | vm_compute; discriminate]. Qed.

(* ---- facts about the generated table *)
Lemma paths_sanitized : forallb (fun p => sanitized (snd p)) paths = true.
Proof. vm_compute. reflexivity. Qed.

Lemma paths_sanitized_all : forall name e, In (name, e) paths -> sanitized e = true.
Proof.
  intros name e H. pose proof paths_sanitized as Hp. rewrite forallb_forall in Hp. apply (Hp _ H).
Qed.

Lemma sites_covered : map fst paths = sites.
Proof. vm_compute. reflexivity. Qed.

(* the translation tables built by strutils.py are the ones escape_control_characters uses *)
Lemma below_sweep (Q : N -> bool) (n : nat) :
  forallb Q (map N.of_nat (seq 0 n)) = true -> forall c, c < N.of_nat n -> Q c = true.
Proof.
  intros H c Hc. rewrite forallb_forall in H. apply H. apply in_map_iff.
  exists (N.to_nat c). split; [apply N2Nat.id | apply in_seq; lia].
Qed.

Lemma in_table_small tbl c : forallb (fun x => x <? 160) tbl = true -> 160 <= c -> in_table tbl c = false.
Proof.
  intros H Hc. unfold in_table. apply not_true_is_false. intro E. apply existsb_exists in E as [x [Hx Hxc]].
  apply N.eqb_eq in Hxc. subst x. rewrite forallb_forall in H. apply H in Hx. apply N.ltb_lt in Hx. lia.
Qed.

Lemma is_cc_large c : 160 <= c -> is_cc c = false.
Proof.
  intro H. unfold is_cc.
  assert (c <? 32 = false) as -> by (apply N.ltb_ge; lia).
  assert (c =? 127 = false) as -> by (apply N.eqb_neq; lia).
  assert (c <=? 159 = false) as -> by (apply N.leb_gt; lia).
  rewrite andb_false_r. reflexivity.
Qed.

Lemma table_agrees c : in_table cc_table c = is_cc c.
Proof.
  destruct (N.ltb_spec c 160) as [H|H].
  - apply eqb_prop. revert c H.
    apply (below_sweep (fun c => Bool.eqb (in_table cc_table c) (is_cc c)) 160). vm_compute. reflexivity.
  - rewrite is_cc_large by exact H. apply in_table_small; [vm_compute; reflexivity | exact H].
Qed.

Lemma table_spacing_agrees c : in_table cc_table_spacing c = is_cc c && negb (is_spacing c).
Proof.
  destruct (N.ltb_spec c 160) as [H|H].
  - apply eqb_prop. revert c H.
    apply (below_sweep (fun c => Bool.eqb (in_table cc_table_spacing c) (is_cc c && negb (is_spacing c))) 160).
    vm_compute. reflexivity.
  - rewrite is_cc_large by exact H. apply in_table_small; [vm_compute; reflexivity | exact H].
Qed.

Lemma escape_is_translate t ks :
  escape_control_characters t ks = translate_with (if ks then cc_table_spacing else cc_table) t.
Proof.
  unfold escape_control_characters, translate_with. apply map_ext. intro c. destruct ks.
  - rewrite table_spacing_agrees. reflexivity.
  - rewrite table_agrees. cbn [andb negb]. rewrite andb_true_r. reflexivity.
Qed.
