(* Proofs/StrutilsPipeline.v — the literal pipeline (repr, then the two regex
   rewrites) equals the per-byte escaping [escape_direct].  The regex scanner works on
   maximal backslash runs that cross byte boundaries; the invariant is that the run
   pending at a token boundary always has even length. *)
From Coq Require Import List Bool Arith NArith Lia.
From MV Require Import Base.Bytes Model.Strutils.
Import ListNotations.

Definition nb (c : byte) : bool := negb (byte_eqb c BSL).

(* token shapes produced by repr_byte and preserved by the rewrites *)
Definition tok_ok (t : bytes) : bool :=
  match t with
  | c1 :: c2 :: tail =>
    if byte_eqb c1 BSL then
      (if byte_eqb c2 BSL then match tail with [] => true | _ => false end
       else forallb nb tail)
    else forallb nb t
  | _ => forallb nb t
  end.

Definition rewr (tgt : rewrite_target) (t : bytes) : bytes :=
  match t with
  | c1 :: c2 :: tail =>
    if byte_eqb c1 BSL && nb c2 then
      match tgt c2 with Some d => d :: tail | None => t end
    else t
  | _ => t
  end.

Definition tgt_ok (tgt : rewrite_target) : Prop := forall c d, tgt c = Some d -> nb d = true.

Lemma repeat_snoc {A} (x : A) n l : repeat x n ++ x :: l = repeat x (S n) ++ l.
Proof. induction n as [|n IH]; simpl; [reflexivity|]. rewrite IH. reflexivity. Qed.

Lemma resub_plain tgt tail rest :
  forallb nb tail = true -> resub tgt O (tail ++ rest) = tail ++ resub tgt O rest.
Proof.
  induction tail as [|c tail IH]; intros H; [reflexivity|].
  simpl in H. apply andb_true_iff in H as [Hc Ht].
  cbn [app resub]. unfold nb in Hc. apply negb_true_iff in Hc. rewrite Hc.
  destruct (tgt c); cbn [Nat.odd repeat app]; rewrite IH by exact Ht; reflexivity.
Qed.

Lemma odd_S_even n : Nat.even n = true -> Nat.odd (S n) = true.
Proof. intros H. rewrite Nat.odd_succ. exact H. Qed.

Lemma even_odd_false n : Nat.even n = true -> Nat.odd n = false.
Proof. intros H. unfold Nat.odd. rewrite H. reflexivity. Qed.

Lemma resub_plain_n tgt t rest n :
  t <> [] -> forallb nb t = true -> Nat.even n = true ->
  resub tgt n (t ++ rest) = repeat BSL n ++ t ++ resub tgt O rest.
Proof.
  intros Hne H Hn. destruct t as [|c t]; [contradiction|].
  cbn [forallb] in H. apply andb_true_iff in H as [Hc Ht].
  cbn [app resub]. unfold nb in Hc. apply negb_true_iff in Hc. rewrite Hc.
  rewrite (even_odd_false n Hn). rewrite resub_plain by exact Ht.
  destruct (tgt c); reflexivity.
Qed.

Lemma resub_tokens tgt toks :
  Forall (fun t => tok_ok t = true) toks ->
  forall n, Nat.even n = true ->
  resub tgt n (concat toks) = repeat BSL n ++ concat (map (rewr tgt) toks).
Proof.
  induction 1 as [|t toks Ht _ IH]; intros n Hn.
  - simpl. rewrite app_nil_r. reflexivity.
  - cbn [concat map].
    destruct t as [|c1 [|c2 tail]].
    + simpl. apply IH, Hn.
    + (* single char, not a backslash *)
      simpl in Ht. rewrite andb_true_r in Ht.
      cbn [app resub rewr]. unfold nb in Ht. apply negb_true_iff in Ht. rewrite Ht.
      rewrite (even_odd_false n Hn).
      assert (E : resub tgt 0 (concat toks) = concat (map (rewr tgt) toks)) by (apply (IH 0); reflexivity).
      destruct (tgt c1); rewrite E; reflexivity.
    + cbn [tok_ok] in Ht. cbn [rewr].
      destruct (byte_eqb c1 BSL) eqn:E1.
      * apply byte_eqb_eq in E1. subst c1.
        destruct (byte_eqb c2 BSL) eqn:E2.
        -- (* backslash backslash *)
           destruct tail; [|discriminate].
           apply byte_eqb_eq in E2. subst c2.
           unfold nb. rewrite byte_eqb_refl. cbn [negb andb app resub].
           rewrite byte_eqb_refl.
           rewrite (IH (S (S n))) by (rewrite Nat.even_succ_succ; exact Hn).
           rewrite !repeat_snoc. reflexivity.
        -- (* backslash d tail *)
           unfold nb at 1. rewrite E2. cbn [negb andb].
           cbn [app resub]. rewrite byte_eqb_refl, E2.
           assert (E : resub tgt 0 (tail ++ concat toks) = tail ++ concat (map (rewr tgt) toks)).
           { rewrite resub_plain by exact Ht. f_equal. apply (IH 0). reflexivity. }
           destruct (tgt c2) as [d|].
           ++ rewrite (odd_S_even n Hn). cbn [Nat.sub]. rewrite Nat.sub_0_r, E.
              reflexivity.
           ++ rewrite E. rewrite <- repeat_snoc. reflexivity.
      * (* all plain *)
        cbn [andb]. rewrite (resub_plain_n tgt (c1 :: c2 :: tail) _ n) by (try exact Hn; try exact Ht; discriminate).
        rewrite (IH 0) by reflexivity. reflexivity.
Qed.

Lemma rewr_ok tgt t : tgt_ok tgt -> tok_ok t = true -> tok_ok (rewr tgt t) = true.
Proof.
  intros Htgt Ht. destruct t as [|c1 [|c2 tail]]; [exact Ht | exact Ht |].
  cbn [rewr]. destruct (byte_eqb c1 BSL && nb c2) eqn:E; [|exact Ht].
  destruct (tgt c2) as [d|] eqn:Ed; [|exact Ht].
  apply andb_true_iff in E as [E1 E2]. apply Htgt in Ed.
  cbn [tok_ok] in Ht. rewrite E1 in Ht. unfold nb in E2. apply negb_true_iff in E2. rewrite E2 in Ht.
  assert (Hall : forallb nb (d :: tail) = true) by (cbn [forallb]; rewrite Ed, Ht; reflexivity).
  destruct tail as [|c3 tail']; [exact Hall|].
  cbn [tok_ok]. unfold nb in Ed. apply negb_true_iff in Ed. rewrite Ed. exact Hall.
Qed.

Lemma tgt_quote_ok : tgt_ok tgt_quote.
Proof. intros c d. unfold tgt_quote. destruct (byte_eqb c SQ); intros [=<-]; reflexivity. Qed.

Lemma tgt_spacing_ok : tgt_ok tgt_spacing.
Proof.
  intros c d. unfold tgt_spacing.
  destruct (byte_eqb c x6e); [intros [=<-]; reflexivity|].
  destruct (byte_eqb c x72); [intros [=<-]; reflexivity|].
  destruct (byte_eqb c x74); [intros [=<-]; reflexivity|discriminate].
Qed.

(* complete 256-case sweeps *)
Lemma repr_byte_ok b : tok_ok (repr_byte b) = true.
Proof. revert b. apply forall_bytes. vm_compute. reflexivity. Qed.

Definition stage (ks eq : bool) (b : byte) : bytes :=
  let t0 := repr_byte b in
  let t1 := if eq then t0 else rewr tgt_quote t0 in
  if ks then rewr tgt_spacing t1 else t1.

Lemma stage_esc_byte ks eq b : bytes_eqb (stage ks eq b) (esc_byte ks eq b) = true.
Proof. revert b. apply forall_bytes. destruct ks, eq; vm_compute; reflexivity. Qed.

Lemma Forall_map_ok {A} (f : A -> bytes) (l : list A) :
  (forall a, tok_ok (f a) = true) -> Forall (fun t => tok_ok t = true) (map f l).
Proof. intros H. apply Forall_forall. intros t Hin. apply in_map_iff in Hin as [a [<- _]]. apply H. Qed.

Lemma quote_stage data :
  resub tgt_quote 0 (concat (map repr_byte data))
  = concat (map (rewr tgt_quote) (map repr_byte data)).
Proof. apply (resub_tokens tgt_quote _ (Forall_map_ok _ _ repr_byte_ok) 0). reflexivity. Qed.

Lemma pipeline_stage data ks eq :
  bytes_to_escaped_str data ks eq = concat (map (stage ks eq) data).
Proof.
  unfold bytes_to_escaped_str, py_repr_body.
  rewrite !flat_map_concat_map.
  destruct eq; destruct ks; unfold stage.
  - rewrite (resub_tokens tgt_spacing _ (Forall_map_ok _ _ repr_byte_ok) 0) by reflexivity.
    rewrite map_map. reflexivity.
  - reflexivity.
  - rewrite quote_stage.
    assert (Hok : Forall (fun t => tok_ok t = true) (map (rewr tgt_quote) (map repr_byte data))).
    { rewrite map_map. apply Forall_map_ok. intros b. apply rewr_ok; [apply tgt_quote_ok | apply repr_byte_ok]. }
    rewrite (resub_tokens tgt_spacing _ Hok 0) by reflexivity.
    rewrite !map_map. reflexivity.
  - rewrite quote_stage, map_map. reflexivity.
Qed.

Theorem pipeline_is_direct data ks eq :
  bytes_to_escaped_str data ks eq = escape_direct data ks eq.
Proof.
  rewrite pipeline_stage. unfold escape_direct. rewrite flat_map_concat_map.
  f_equal. apply map_ext. intros b. apply bytes_eqb_eq, stage_esc_byte.
Qed.
