(* Proofs/UrlDest.v -- what hostport writes into the Host header / authority is read back by
   parse_authority(check=True) as exactly the destination (host, non-default port). *)
From Coq Require Import List Bool Arith NArith ZArith Lia.
From MV Require Import Base.Bytes Model.Url Proofs.UrlLemmas Proofs.UrlDec Proofs.UrlParse Proofs.UrlRequest.
Import ListNotations.

Lemma ends_with_snoc c l : ends_with c (l ++ [c]) = true.
Proof.
  induction l as [|x l IH]; simpl; [apply byte_eqb_refl|].
  destruct (l ++ [c]) eqn:E; [destruct l; discriminate | exact IH].
Qed.

Lemma mem_true_span_rest (P : byte -> bool) c s a b :
  P c = false -> span P s = (a, b) -> mem c s = true -> mem c b = true.
Proof.
  intros Pc S M. destruct (span_spec _ _ _ _ S) as (-> & F & _).
  rewrite mem_app, (mem_false_of P c a Pc F) in M. exact M.
Qed.

Lemma match_tail_pt s p : (0 <= p)%Z ->
  match_tail (port_tail s p) = Some (if is_nil (port_tail s p) then None else Some (dec_of_Z p)).
Proof.
  intros Hp. destruct (dec_of_Z_spec p Hp) as (F & NE & _).
  assert (match_tail (cCOLON :: dec_of_Z p) = Some (Some (dec_of_Z p))) as H.
  { unfold match_tail. change (bytes_eqb (cCOLON :: dec_of_Z p) [cLF]) with false. cbv iota.
    rewrite byte_eqb_refl, (span_all _ _ F). apply is_nil_false in NE. rewrite NE. reflexivity. }
  unfold port_tail. destruct (default_port s) as [d|]; [destruct (d =? p)%Z|]; auto.
Qed.

Lemma span_cons (P : byte -> bool) x t :
  P x = true -> span P (x :: t) = (x :: fst (span P t), snd (span P t)).
Proof. intros H. simpl. rewrite H. destruct (span P t). reflexivity. Qed.

(* the bracket alternative of _authority_re on [h]tail when h contains a colon *)
Lemma authority_match_bracketed h pt x :
  mem cCOLON h = true -> is_nil h = false -> mem cLF h = false ->
  forallb pt_char pt = true -> match_tail pt = Some x ->
  authority_match (cLBR :: h ++ cRBR :: pt) = Some (cLBR :: h ++ [cRBR], x).
Proof.
  intros MC NE NL PT MT. unfold authority_match.
  rewrite span_cons by reflexivity.
  destruct (span (fun b => negb (byte_eqb b cCOLON)) h) as [h0 h1] eqn:SP.
  destruct (span_spec _ _ _ _ SP) as (Eh & F0 & T1).
  assert (mem cCOLON h1 = true) as M1
    by (apply (mem_true_span_rest (fun b => negb (byte_eqb b cCOLON)) cCOLON _ _ _ eq_refl SP MC)).
  destruct h1 as [|c1 h1']; [discriminate|].
  assert (c1 = cCOLON) as -> by (apply negb_false_iff in T1; apply byte_eqb_eq in T1; exact T1).
  clear SP. subst h. rewrite <- app_assoc. cbn [app].
  rewrite span_app; [| exact F0 | reflexivity]. cbn [fst snd is_nil].
  assert (forall Y, mem cRBR Y = true -> match_tail (cCOLON :: Y) = None) as MTN.
  { intros Y MY. unfold match_tail.
    change (bytes_eqb (cCOLON :: Y) [cLF]) with false. cbv iota. rewrite byte_eqb_refl.
    destruct (span is_digit Y) as [ds rest] eqn:SD.
    assert (mem cRBR rest = true) as MR by (apply (mem_true_span_rest is_digit cRBR _ _ _ eq_refl SD MY)).
    destruct (bytes_eqb rest [cLF]) eqn:EL.
    - apply bytes_eqb_eq in EL. subst. discriminate.
    - destruct rest; [discriminate|]. rewrite andb_false_r. reflexivity. }
  rewrite MTN by (rewrite mem_app, mem_cons, byte_eqb_refl, orb_true_r; reflexivity).
  rewrite byte_eqb_refl.
  rewrite app_comm_cons, app_assoc.
  rewrite rpartition_app by (apply (mem_false_of pt_char); [reflexivity | exact PT]).
  rewrite NE, NL, MT. reflexivity.
Qed.

Section Dest.
Variable ace : bytes -> option str.
Variable uenc : str -> option bytes.

Theorem parse_authority_hostport s h p :
  all_ascii h = true -> h <> [] -> is_valid_host_s ace uenc h = true ->
  starts_with [cLBR] h = false -> mem cLF h = false -> (0 <= p <= 65535)%Z ->
  parse_authority ace uenc (hostport s h p)
  = PA_ok h (if is_nil (port_tail s p) then None else Some p).
Proof.
  intros Ah NE V NB NL Hp.
  assert (0 <= p)%Z as Hp0 by lia.
  pose proof (pt_char_tail s p Hp0) as PT.
  destruct (dec_of_Z_spec p Hp0) as (_ & _ & DV).
  unfold parse_authority. rewrite hostport_eq.
  assert (all_ascii (bracket h ++ port_tail s p) = true) as AA.
  { rewrite all_ascii_app. apply andb_true_iff. split.
    - unfold bracket. destruct (mem cCOLON h && negb (starts_with [cLBR] h)); [|exact Ah].
      simpl. rewrite all_ascii_app, Ah. reflexivity.
    - apply (forallb_imp pt_char is_ascii); [vm_compute; reflexivity | exact PT]. }
  rewrite AA. cbn [negb].
  (* the regex match *)
  assert (authority_match (bracket h ++ port_tail s p)
          = Some (bracket h, if is_nil (port_tail s p) then None else Some (dec_of_Z p))) as AM.
  { unfold bracket. rewrite NB. cbn [negb]. rewrite andb_true_r.
    destruct (mem cCOLON h) eqn:MC; [|unfold authority_match].
    - (* IPv6 literal: the first alternative fails, the bracket alternative matches *)
      cbn [app]. rewrite <- app_assoc. cbn [app].
      apply is_nil_false in NE.
      apply (authority_match_bracketed h (port_tail s p) _ MC NE NL PT (match_tail_pt s p Hp0)).
    - (* name or IPv4 literal *)
      rewrite span_app.
      + apply is_nil_false in NE. rewrite NE. rewrite (match_tail_pt s p Hp0). reflexivity.
      + apply mem_false_forallb. exact MC.
      + unfold port_tail. destruct (default_port s) as [d|]; [destruct (d =? p)%Z|]; simpl; auto. }
  rewrite AM.
  (* brackets are stripped again *)
  assert ((if starts_with [cLBR] (bracket h) && ends_with cRBR (bracket h)
           then removelast (tl (bracket h)) else bracket h) = h) as ST.
  { unfold bracket. rewrite NB. cbn [negb]. rewrite andb_true_r. destruct (mem cCOLON h).
    - change (starts_with [cLBR] (cLBR :: h ++ [cRBR])) with true.
      change (cLBR :: h ++ [cRBR]) with ([cLBR] ++ h ++ [cRBR]) at 1.
      rewrite app_assoc, ends_with_snoc. cbn [andb tl]. apply removelast_last.
    - rewrite NB. reflexivity. }
  rewrite ST, V. cbn [negb].
  destruct (is_nil (port_tail s p)); [reflexivity|].
  rewrite DV. unfold is_valid_port.
  destruct (0 <=? p)%Z eqn:E1; [|apply Z.leb_gt in E1; lia].
  destruct (p <=? 65535)%Z eqn:E2; [|apply Z.leb_gt in E2; lia]. reflexivity.
Qed.

(* ---------- what host_header returns on a consistent request ---------- *)
Lemma get_header_single k v h : get_all k h = [v] -> get_header k h = Some v.
Proof. unfold get_header. intros ->. reflexivity. Qed.

Theorem host_header_http1 r :
  consistent uenc r -> r_h2 r = false -> has_header s_Host (r_headers r) = true ->
  host_header ace r = Some (dest_text r).
Proof.
  intros [C _] H2 HH. unfold host_header. rewrite H2. apply get_header_single, C, HH.
Qed.

End Dest.
