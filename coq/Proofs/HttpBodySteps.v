(* Proofs/HttpBodySteps.v -- what one event does to the request side / the response side of a stream
   (every outcome of every handler), used by the invariants in HttpBodyBound.v and HttpBodyForward.v. *)
From Coq Require Import List Bool NArith ZArith Lia.
From MV Require Import Base.Bytes Model.HttpBody Proofs.HttpBodyBase.
Import ListNotations.
Open Scope Z_scope.

Definition rejq (c : list cmd) : Prop := In (CSend Client (MErr ReqTooLarge)) c.
Definition rejs (c : list cmd) : Prop := In (CSend Client (MErr RespTooLarge)) c.

Section Steps.
Variable S : Type.
Variable fq fs : S -> bytes -> S * sres.
Variable cfg : config.

Notation st := (st S).
Notation handle_event := (handle_event S fq fs cfg).
Notation check_body_size := (check_body_size S fq fs cfg).
Notation abort_body := (abort_body S cfg).
Notation start_request_stream := (start_request_stream S cfg).

Definition truthy_opts : bool := opt_truthy (o_stream cfg) || opt_truthy (o_limit cfg).

Lemma abort_body_req (s : st) :
  let '(s', c) := abort_body true s in
  client_state s' = Errored /\ server_state s' = server_state s
  /\ request_body_buf s' = request_body_buf s /\ response_body_buf s' = response_body_buf s
  /\ rejq c /\ ~ rejs c /\ server_content c = [] /\ client_content c = []
  /\ flow_error s' = true /\ flow_live s' = false.
Proof.
  unfold HttpBody.abort_body, hook_requestheaders, rejq, rejs.
  destruct s as [cs ss qb sb qf sf qs rs q1 q2 qc sc er lv]; cbn.
  destruct (nonempty qb); destruct (p_req cfg); cbn; repeat split; auto; intuition congruence.
Qed.

Lemma abort_body_resp (s : st) :
  let '(s', c) := abort_body false s in
  client_state s' = Errored /\ server_state s' = Errored
  /\ request_body_buf s' = request_body_buf s /\ response_body_buf s' = response_body_buf s
  /\ rejs c /\ ~ rejq c /\ server_content c = [] /\ client_content c = []
  /\ flow_error s' = true /\ flow_live s' = false.
Proof.
  unfold HttpBody.abort_body, hook_responseheaders, rejq, rejs.
  destruct s as [cs ss qb sb qf sf qs rs q1 q2 qc sc er lv]; cbn.
  destruct (nonempty sb); destruct (p_resp cfg); cbn; repeat split; auto; intuition congruence.
Qed.

(* ---------------- request events ---------------- *)

Definition req_step_post (s s' : st) (e : event) (c : list cmd) : Prop :=
  response_body_buf s' = response_body_buf s /\ ~ rejs c /\ client_content c = [] \/ True.

(* ReqHeaders in state_wait_for_request_headers *)
Lemma step_wait_request_headers (s s' : st) fr e100 c :
  client_state s = WaitHeaders -> request_body_buf s = [] ->
  handle_event s (ReqHeaders fr e100) = Some (s', c) ->
  request_body_buf s' = [] /\ response_body_buf s' = response_body_buf s /\ ~ rejs c
  /\ ((client_state s' = Errored /\ rejq c /\ server_content c = [] /\ server_state s' = server_state s)
      \/ (~ rejq c /\ server_state s' = WaitHeaders
          /\ ((client_state s' = Consume /\ server_content c = [])
              \/ (client_state s' = Streaming /\ server_content c = [CSend Server (MHeaders false)])
              \/ (client_state s' = Errored /\ server_content c = [])))).
Proof.
  intros Hc Hb. unfold HttpBody.handle_event. cbn [is_request_event]. rewrite Hc.
  unfold state_wait_for_request_headers.
  set (s0 := set_live S (set_req_framing S s fr) true).
  assert (B0 : request_body_buf s0 = []) by (subst s0; destruct s; cbn in *; auto).
  assert (R0 : response_body_buf s0 = response_body_buf s) by (subst s0; destruct s; reflexivity).
  assert (S0 : server_state s0 = server_state s) by (subst s0; destruct s; reflexivity).
  destruct (if end_stream_of fr then Some (false, s0, [])
            else check_body_size true s0) as [[[b s1] c1]|] eqn:EC; [|discriminate].
  assert (CASES :
    (b = true /\ client_state s1 = Errored /\ rejq c1 /\ server_content c1 = [] /\ ~ rejs c1
     /\ request_body_buf s1 = [] /\ response_body_buf s1 = response_body_buf s /\ server_state s1 = server_state s)
    \/ (b = false /\ c1 = [] /\ request_body_buf s1 = [] /\ response_body_buf s1 = response_body_buf s)).
  { destruct (end_stream_of fr).
    - inversion EC; subst. right. auto.
    - apply check_body_size_req_cases in EC.
      destruct EC as [(-> & -> & -> & _)|[(-> & _ & -> & ->)|[(-> & -> & -> & _)|(_ & NE & _)]]].
      + right; auto.
      + right. repeat split; auto; destruct s0; cbn in *; auto.
      + left. pose proof (abort_body_req s0) as AB. destruct (abort_body true s0) as [sa ca]. cbn [fst snd].
        destruct AB as (A1 & A2 & A3 & A4 & A5 & A6 & A7 & _). repeat split; auto; congruence.
      + rewrite B0 in NE. discriminate. }
  destruct CASES as [(-> & C1 & C2 & C3 & C4 & C5 & C6 & C7)|(-> & -> & C5 & C6)].
  - intros H; inversion H; subst. repeat split; auto.
  - cbn [app].
    set (s2 := hook_requestheaders S cfg s1).
    assert (B2 : request_body_buf s2 = [] /\ response_body_buf s2 = response_body_buf s).
    { subst s2. unfold hook_requestheaders. destruct (p_req cfg); destruct s1; cbn in *; auto. }
    destruct B2 as [B2 R2].
    destruct (stream_truthy (req_stream s2) && negb (end_stream_of fr)).
    + destruct (HttpBody.start_request_stream S cfg s2) as [s3 c3] eqn:ES.
      pose proof (start_request_stream_spec S fq fs cfg _ _ _ ES) as (P1 & P2 & _ & _ & _ & _ & _ & _ & _ & _ & CS).
      intros H; inversion H; subst; clear H.
      assert (X1 : request_body_buf (set_server S s3 WaitHeaders) = []) by (destruct s3; cbn in *; congruence).
      assert (X2 : response_body_buf (set_server S s3 WaitHeaders) = response_body_buf s) by (destruct s3; cbn in *; congruence).
      assert (X3 : server_state (set_server S s3 WaitHeaders) = WaitHeaders) by (destruct s3; reflexivity).
      assert (X4 : client_state (set_server S s3 WaitHeaders) = client_state s3) by (destruct s3; reflexivity).
      split; [exact X1|]. split; [exact X2|].
      destruct CS as [(_ & K1 & _ & ->)|(_ & K1 & _ & K3 & K4 & K5)].
      * split; [destruct e100; unfold rejs; cbn; intuition congruence|].
        right. split; [destruct e100; unfold rejq; cbn; intuition congruence|]. split; [exact X3|].
        right; left. rewrite X4. split; auto. destruct e100; reflexivity.
      * assert (SC : server_content c3 = []).
        { unfold server_content. revert K3. clear. induction c3 as [|x r IH]; cbn; auto.
          destruct x; cbn; auto. destruct p; cbn; auto; try discriminate.
          intros. discriminate. }
        split; [unfold rejs in *; destruct e100; cbn; intuition congruence|].
        right. split; [unfold rejq in *; destruct e100; cbn; intuition congruence|]. split; [exact X3|].
        right; right. rewrite X4. split; auto. destruct e100; cbn; auto.
    + intros H; inversion H; subst; clear H.
      split; [destruct s2; cbn in *; auto|]. split; [destruct s2; cbn in *; auto|].
      split; [destruct e100; unfold rejs; cbn; intuition congruence|].
      right. split; [destruct e100; unfold rejq; cbn; intuition congruence|].
      split; [destruct s2; reflexivity|]. left. split; [destruct s2; reflexivity|]. destruct e100; reflexivity.
Qed.

End Steps.
