(* Proofs/HttpBodySteps.v -- what one event does to the request side / the response side of a stream
   (every outcome of every handler), used by the invariants in HttpBodyBound.v and HttpBodyForward.v. *)
From Coq Require Import List Bool NArith ZArith Lia.
From MV Require Import Base.Bytes Model.HttpBody Proofs.HttpBodyBase.
Import ListNotations.
Open Scope Z_scope.

Definition rejq (c : list cmd) : Prop := In (CSend Client (MErr ReqTooLarge)) c.
Definition rejs (c : list cmd) : Prop := In (CSend Client (MErr RespTooLarge)) c.

Section Steps.
Variable S : Type.
Variable fq fs : S -> bytes -> S * sres.
Variable cfg : config.

Notation st := (st S).
Notation handle_event := (handle_event S fq fs cfg).
Notation check_body_size := (check_body_size S fq fs cfg).
Notation abort_body := (abort_body S cfg).
Notation start_request_stream := (start_request_stream S cfg).

Definition truthy_opts : bool := opt_truthy (o_stream cfg) || opt_truthy (o_limit cfg).

Lemma abort_body_req (s : st) :
  let '(s', c) := abort_body true s in
  client_state s' = Errored /\ server_state s' = server_state s
  /\ request_body_buf s' = request_body_buf s /\ response_body_buf s' = response_body_buf s
  /\ rejq c /\ ~ rejs c /\ server_content c = [] /\ client_content c = []
  /\ flow_error s' = true /\ flow_live s' = false.
Proof.
  unfold HttpBody.abort_body, hook_requestheaders, rejq, rejs.
  destruct s as [cs ss qb sb qf sf qs rs q1 q2 qc sc er lv]; cbn.
  destruct (nonempty qb); destruct (p_req cfg); cbn; repeat split; auto; intuition congruence.
Qed.

Lemma abort_body_resp (s : st) :
  let '(s', c) := abort_body false s in
  client_state s' = Errored /\ server_state s' = Errored
  /\ request_body_buf s' = request_body_buf s /\ response_body_buf s' = response_body_buf s
  /\ rejs c /\ ~ rejq c /\ server_content c = [] /\ client_content c = []
  /\ flow_error s' = true /\ flow_live s' = false.
Proof.
  unfold HttpBody.abort_body, hook_responseheaders, rejq, rejs.
  destruct s as [cs ss qb sb qf sf qs rs q1 q2 qc sc er lv]; cbn.
  destruct (nonempty sb); destruct (p_resp cfg); cbn; repeat split; auto; intuition congruence.
Qed.

(* ---------------- request events ---------------- *)

Definition req_step_post (s s' : st) (e : event) (c : list cmd) : Prop :=
  response_body_buf s' = response_body_buf s /\ ~ rejs c /\ client_content c = [] \/ True.

(* ReqHeaders in state_wait_for_request_headers *)
Lemma step_wait_request_headers (s s' : st) fr e100 c :
  client_state s = WaitHeaders -> request_body_buf s = [] ->
  handle_event s (ReqHeaders fr e100) = Some (s', c) ->
  request_body_buf s' = [] /\ response_body_buf s' = response_body_buf s /\ ~ rejs c
  /\ ((client_state s' = Errored /\ rejq c /\ server_content c = [] /\ server_state s' = server_state s)
      \/ (~ rejq c /\ server_state s' = WaitHeaders
          /\ ((client_state s' = Consume /\ server_content c = [])
              \/ (client_state s' = Streaming /\ server_content c = [CSend Server (MHeaders false)])
              \/ (client_state s' = Errored /\ server_content c = [])))).
Proof.
  intros Hc Hb. unfold HttpBody.handle_event. cbn [is_request_event]. rewrite Hc.
  unfold state_wait_for_request_headers.
  set (s0 := set_live S (set_req_framing S s fr) true).
  assert (B0 : request_body_buf s0 = []) by (subst s0; destruct s; cbn in *; auto).
  assert (R0 : response_body_buf s0 = response_body_buf s) by (subst s0; destruct s; reflexivity).
  assert (S0 : server_state s0 = server_state s) by (subst s0; destruct s; reflexivity).
  destruct (if end_stream_of fr then Some (false, s0, [])
            else check_body_size true s0) as [[[b s1] c1]|] eqn:EC; [|discriminate].
  assert (CASES :
    (b = true /\ client_state s1 = Errored /\ rejq c1 /\ server_content c1 = [] /\ ~ rejs c1
     /\ request_body_buf s1 = [] /\ response_body_buf s1 = response_body_buf s /\ server_state s1 = server_state s)
    \/ (b = false /\ c1 = [] /\ request_body_buf s1 = [] /\ response_body_buf s1 = response_body_buf s)).
  { destruct (end_stream_of fr).
    - inversion EC; subst. right. auto.
    - apply check_body_size_req_cases in EC.
      destruct EC as [(-> & -> & -> & _)|[(-> & _ & -> & ->)|[(-> & -> & -> & _)|(_ & NE & _)]]].
      + right; auto.
      + right. repeat split; auto; destruct s0; cbn in *; auto.
      + left. pose proof (abort_body_req s0) as AB. destruct (abort_body true s0) as [sa ca]. cbn [fst snd].
        destruct AB as (A1 & A2 & A3 & A4 & A5 & A6 & A7 & _). repeat split; auto; congruence.
      + rewrite B0 in NE. discriminate. }
  destruct CASES as [(-> & C1 & C2 & C3 & C4 & C5 & C6 & C7)|(-> & -> & C5 & C6)].
  - intros H; inversion H; subst. repeat split; auto.
  - cbn [app].
    set (s2 := hook_requestheaders S cfg s1).
    assert (B2 : request_body_buf s2 = [] /\ response_body_buf s2 = response_body_buf s).
    { subst s2. unfold hook_requestheaders. destruct (p_req cfg); destruct s1; cbn in *; auto. }
    destruct B2 as [B2 R2].
    destruct (stream_truthy (req_stream s2) && negb (end_stream_of fr)).
    + destruct (HttpBody.start_request_stream S cfg s2) as [s3 c3] eqn:ES.
      pose proof (start_request_stream_spec S fq fs cfg _ _ _ ES) as (P1 & P2 & _ & _ & _ & _ & _ & _ & _ & _ & CS).
      intros H; inversion H; subst; clear H.
      assert (X1 : request_body_buf (set_server S s3 WaitHeaders) = []) by (destruct s3; cbn in *; congruence).
      assert (X2 : response_body_buf (set_server S s3 WaitHeaders) = response_body_buf s) by (destruct s3; cbn in *; congruence).
      assert (X3 : server_state (set_server S s3 WaitHeaders) = WaitHeaders) by (destruct s3; reflexivity).
      assert (X4 : client_state (set_server S s3 WaitHeaders) = client_state s3) by (destruct s3; reflexivity).
      split; [exact X1|]. split; [exact X2|].
      destruct CS as [(_ & K1 & _ & ->)|(_ & K1 & _ & K3 & K4 & K5)].
      * split; [destruct e100; unfold rejs; cbn; intuition congruence|].
        right. split; [destruct e100; unfold rejq; cbn; intuition congruence|]. split; [exact X3|].
        right; left. rewrite X4. split; auto. destruct e100; reflexivity.
      * assert (SC : server_content c3 = []) by (apply no_server_send_no_content; exact K3).
        split; [unfold rejs in *; destruct e100; cbn; intuition congruence|].
        right. split; [unfold rejq in *; destruct e100; cbn; intuition congruence|]. split; [exact X3|].
        right; right. rewrite X4. split; auto. destruct e100; cbn; auto.
    + intros H; inversion H; subst; clear H.
      split; [destruct s2; cbn in *; auto|]. split; [destruct s2; cbn in *; auto|].
      split; [destruct e100; unfold rejs; cbn; intuition congruence|].
      right. split; [destruct e100; unfold rejq; cbn; intuition congruence|].
      split; [destruct s2; reflexivity|]. left. split; [destruct s2; reflexivity|]. destruct e100; reflexivity.
Qed.

(* ... and nothing of a response is sent to the client by it *)
Lemma step_wait_request_headers_cc (s s' : st) fr e100 c :
  client_state s = WaitHeaders -> request_body_buf s = [] ->
  handle_event s (ReqHeaders fr e100) = Some (s', c) -> client_content c = [].
Proof.
  intros Hc Hb. unfold HttpBody.handle_event. cbn [is_request_event]. rewrite Hc.
  unfold state_wait_for_request_headers.
  remember (set_live S (set_req_framing S s fr) true) as s0 eqn:E0.
  assert (B0 : request_body_buf s0 = []) by (subst s0; destruct s; cbn in *; auto). clear E0.
  destruct (if end_stream_of fr then Some (false, s0, [])
            else check_body_size true s0) as [[[b s1] c1]|] eqn:EC; [|discriminate].
  assert (CC : client_content c1 = []).
  { destruct (end_stream_of fr).
    - inversion EC; subst. reflexivity.
    - apply check_body_size_req_cases in EC.
      destruct EC as [(-> & -> & -> & _)|[(-> & _ & -> & ->)|[(-> & -> & -> & _)|(_ & NE & _)]]]; auto.
      + pose proof (abort_body_req s0) as AB. destruct (abort_body true s0) as [sa ca]. cbn [fst snd].
        destruct AB as (_ & _ & _ & _ & _ & _ & _ & A8 & _). exact A8.
      + rewrite B0 in NE. discriminate. }
  destruct b.
  - intros H; inversion H; subst. exact CC.
  - destruct (stream_truthy (req_stream (hook_requestheaders S cfg s1)) && negb (end_stream_of fr)).
    + destruct (HttpBody.start_request_stream S cfg (hook_requestheaders S cfg s1)) as [s3 c3] eqn:ES.
      pose proof (start_request_stream_spec S fq fs cfg _ _ _ ES) as (_ & _ & _ & _ & _ & _ & _ & _ & _ & _ & CS).
      intros H; inversion H; subst; clear H.
      rewrite client_content_app, CC. cbn [app].
      destruct CS as [(_ & _ & _ & ->)|(_ & _ & _ & _ & _ & _ & K7)].
      * destruct e100; reflexivity.
      * change (client_content (CHook HRequestHeaders :: (if e100 then [CSend Client MContinue] else []) ++ c3))
          with (client_content ((if e100 then [CSend Client MContinue] else []) ++ c3)).
        rewrite client_content_app. destruct e100; cbn; exact K7.
    + intros H; inversion H; subst; clear H. rewrite client_content_app, CC. destruct e100; reflexivity.
Qed.

(* ReqData in state_consume_request_body *)
Lemma step_consume_request_data (s s' : st) d c :
  client_state s = Consume ->
  handle_event s (ReqData d) = Some (s', c) ->
  let buf := request_body_buf s ++ d in
  response_body_buf s' = response_body_buf s /\ ~ rejs c /\ client_content c = []
  /\ ((client_state s' = Consume /\ request_body_buf s' = buf /\ c = [] /\ server_state s' = server_state s
       /\ (nonempty buf = true -> truthy_opts = true -> over (parse_size (o_limit cfg)) (blen buf) = false))
      \/ (client_state s' = Errored /\ rejq c /\ server_content c = [] /\ request_body_buf s' = buf
          /\ server_state s' = server_state s /\ flow_error s' = true /\ flow_live s' = false
          /\ exists x, 0 < x /\ over (parse_size (o_limit cfg)) x = true)
      \/ (client_state s' = Streaming /\ ~ rejq c /\ server_state s' = server_state s
          /\ request_body_buf s' = (if o_store cfg then buf else [])
          /\ c = [CGetConn; CSend Server (MHeaders false); CSend Server (MData buf)]
          /\ req_stream s' = STrue /\ fq_st s' = fq_st s /\ req_content s' = req_content s
          /\ nonempty buf = true /\ over (parse_size (o_limit cfg)) (blen buf) = false
          /\ over (parse_size (o_stream cfg)) (blen buf) = true)
      \/ (client_state s' = Errored /\ ~ rejq c /\ server_content c = [] /\ request_body_buf s' = []
          /\ c_ok cfg = false /\ server_state s' = Errored)).
Proof.
  intros Hc. unfold HttpBody.handle_event. cbn [is_request_event]. rewrite Hc.
  unfold state_consume_request_body.
  remember (set_reqbuf S s (request_body_buf s ++ d)) as s0 eqn:E0.
  assert (B0 : request_body_buf s0 = request_body_buf s ++ d) by (subst s0; destruct s; reflexivity).
  assert (R0 : response_body_buf s0 = response_body_buf s) by (subst s0; destruct s; reflexivity).
  assert (S0 : server_state s0 = server_state s) by (subst s0; destruct s; reflexivity).
  assert (C0 : client_state s0 = Consume) by (subst s0; destruct s; cbn in *; auto).
  assert (F0 : fq_st s0 = fq_st s /\ req_content s0 = req_content s) by (subst s0; destruct s; cbn; auto).
  clear E0.
  destruct (check_body_size true s0) as [[[b s1] c1]|] eqn:EC; [|discriminate].
  intros H; inversion H; subst s1 c1; clear H. cbn zeta.
  apply check_body_size_req_cases in EC.
  destruct EC as [(-> & -> & -> & SIDE)|[(-> & E & -> & ->)|[(-> & -> & -> & x & EX & POS & OV)|(-> & NE & OL & OT & s2 & c2 & ES & CS)]]].
  - split; [auto|]. split; [unfold rejs; cbn; tauto|]. split; [reflexivity|].
    left. repeat split; auto. intros NE TR. unfold req_expected in SIDE. rewrite B0, NE in SIDE.
    apply (SIDE _ eq_refl); auto. apply nonempty_true_blen; auto.
  - split; [destruct s0; cbn in *; auto|]. split; [unfold rejs; cbn; tauto|]. split; [reflexivity|].
    left. rewrite B0 in E. rewrite E. repeat split; try (destruct s0; cbn in *; congruence).
  - pose proof (abort_body_req s0) as AB. destruct (abort_body true s0) as [sa ca]. cbn [fst snd].
    destruct AB as (A1 & A2 & A3 & A4 & A5 & A6 & A7 & A8 & A9 & A10).
    split; [congruence|]. split; [auto|]. split; [auto|].
    right; left. repeat split; auto; try congruence. exists x. auto.
  - pose proof (start_request_stream_spec S fq fs cfg _ _ _ ES) as (P1 & P2 & P3 & P4 & P5 & _ & _ & _ & _ & _ & PS).
    destruct F0 as [F1 F2].
    assert (Y1 : response_body_buf s2 = response_body_buf s) by (rewrite P2; destruct s0; cbn in *; auto).
    assert (Y3 : req_stream s2 = STrue) by (rewrite P3; destruct s0; reflexivity).
    assert (Y4 : fq_st s2 = fq_st s) by (rewrite P4; destruct s0; cbn in *; auto).
    assert (Y5 : req_content s2 = req_content s) by (rewrite P5; destruct s0; cbn in *; auto).
    assert (Y6 : request_body_buf s2 = []) by (rewrite P1; destruct s0; reflexivity).
    rewrite B0 in *.
    destruct CS as [(K1 & -> & ->)|(K1 & -> & ->)].
    + destruct PS as [(_ & _ & Q3 & ->)|(_ & Q2 & _)]; [|congruence].
      assert (Y7 : server_state s2 = server_state s) by (rewrite Q3; destruct s0; cbn in *; auto).
      split; [destruct (o_store cfg); destruct s2; cbn in *; auto|].
      split; [unfold rejs; cbn; intuition congruence|]. split; [reflexivity|].
      right; right; left.
      split; [destruct (o_store cfg); destruct s2; cbn in *; auto|].
      split; [unfold rejq; cbn; intuition congruence|].
      split; [destruct (o_store cfg); destruct s2; cbn in *; auto|].
      split; [destruct (o_store cfg); destruct s2; cbn in *; auto|].
      split; [reflexivity|].
      repeat split; auto; destruct (o_store cfg); destruct s2; cbn in *; auto.
    + destruct PS as [(_ & Q2 & _)|(Q1 & _ & Q3 & Q4 & Q5 & Q6 & Q7)]; [congruence|].
      split; [auto|]. split; [auto|]. split; [exact Q7|].
      right; right; right; repeat split; auto; apply no_server_send_no_content; auto.
Qed.

Lemma not_in_map_data p ds x :
  (forall d, x <> CSend p (MData d)) -> ~ In x (map (fun c => CSend p (MData c)) ds).
Proof. intros H. induction ds; cbn; auto. intros [E|E]; auto. symmetry in E. eapply H; eauto. Qed.

(* ReqEom in state_consume_request_body *)
Lemma step_consume_request_eom (s s' : st) c :
  client_state s = Consume ->
  handle_event s ReqEom = Some (s', c) ->
  response_body_buf s' = response_body_buf s /\ ~ rejs c /\ ~ rejq c /\ client_content c = []
  /\ request_body_buf s' = [] /\ client_state s' = Done
  /\ req_content s' = Some (request_body_buf s)
  /\ (c_ok cfg = true -> server_state s' = server_state s
      /\ data_to Server c = (if nonempty (request_body_buf s) then [request_body_buf s] else []))
  /\ (c_ok cfg = false -> server_state s' = Errored /\ server_content c = []).
Proof.
  intros Hc. unfold HttpBody.handle_event. cbn [is_request_event]. rewrite Hc.
  unfold state_consume_request_body, make_server_connection, handle_protocol_error_connect, rejs, rejq.
  destruct s as [cs ss qb sb qf sf qs rs q1 q2 qc sc er lv]. cbn in Hc. subst cs. cbn.
  destruct (c_ok cfg); cbn.
  - intros H; inversion H; subst; clear H. cbn. destruct (nonempty qb) eqn:NE; cbn;
      repeat split; auto; intuition congruence.
  - destruct ss; cbn; intros H; inversion H; subst; clear H; cbn; repeat split; auto; intuition congruence.
Qed.

(* ReqData / ReqEom in state_stream_request_body *)
Lemma step_stream_request (s s' : st) e c :
  client_state s = Streaming -> is_request_event e = true ->
  handle_event s e = Some (s', c) ->
  response_body_buf s' = response_body_buf s /\ server_state s' = server_state s
  /\ ~ rejs c /\ ~ rejq c
  /\ (o_store cfg = false -> request_body_buf s' = request_body_buf s)
  /\ match e with
     | ReqData _ => client_state s' = Streaming /\ client_content c = []
     | _ => client_state s' = Done /\ (o_store cfg = true -> request_body_buf s' = [])
            /\ (server_state s <> Done -> client_content c = [])
     end.
Proof.
  intros Hc He. unfold HttpBody.handle_event. rewrite He, Hc.
  unfold state_stream_request_body, flow_done, rejs, rejq.
  destruct e; try discriminate.
  - destruct (match req_stream s with
              | SCall => let '(q, r) := fq (fq_st s) d in (set_fq_st S s q, data_chunks r)
              | _ => (s, [d])
              end) as [s1 chunks] eqn:E1.
    assert (F : response_body_buf s1 = response_body_buf s /\ server_state s1 = server_state s
                /\ request_body_buf s1 = request_body_buf s /\ client_state s1 = Streaming).
    { destruct (req_stream s); try (inversion E1; subst; auto).
      destruct (fq (fq_st s) d) as [q r]. inversion E1; subst. destruct s; cbn in *; auto. }
    destruct F as (F1 & F2 & F3 & F4).
    rewrite relay_chunks_eq. intros H; inversion H; subst; clear H.
    split; [destruct (o_store cfg); destruct s1; cbn in *; auto|].
    split; [destruct (o_store cfg); destruct s1; cbn in *; auto|].
    split; [apply not_in_map_data; congruence|]. split; [apply not_in_map_data; congruence|].
    split; [intros ->; auto|].
    split; [destruct (o_store cfg); destruct s1; cbn in *; auto|].
    unfold client_content. clear. induction chunks; cbn; auto.
  - destruct (match req_stream s with
              | SCall => let '(q, r) := fq (fq_st s) [] in (set_fq_st S s q, flush_chunks r)
              | _ => (s, [])
              end) as [s1 chunks] eqn:E1.
    assert (F : response_body_buf s1 = response_body_buf s /\ server_state s1 = server_state s
                /\ request_body_buf s1 = request_body_buf s /\ client_state s1 = Streaming).
    { destruct (req_stream s); try (inversion E1; subst; auto).
      destruct (fq (fq_st s) []) as [q r]. inversion E1; subst. destruct s; cbn in *; auto. }
    destruct F as (F1 & F2 & F3 & F4).
    rewrite relay_chunks_eq.
    assert (NI : forall x, (forall d, x <> CSend Server (MData d)) ->
                 x <> CHook HRequest -> x <> CSend Server MEom -> x <> CDrop -> x <> CSend Client MEom ->
                 forall tl, (tl = [] \/ tl = [CDrop; CSend Client MEom]) ->
                 ~ In x (map (fun c0 => CSend Server (MData c0)) chunks ++ [CHook HRequest; CSend Server MEom] ++ tl)).
    { intros x H1 H2 H3 H4 H5 tl Htl HI. apply in_app_or in HI. destruct HI as [HI|HI].
      - revert HI. apply not_in_map_data; auto.
      - cbn in HI. destruct Htl as [->| ->]; cbn in HI; intuition congruence. }
    destruct (o_store cfg) eqn:ST; destruct s1 as [cs1 ss1 qb1 sb1 qf1 sf1 qs1 rs1 q11 q21 qc1 sc1 er1 lv1];
      cbn in *; subst; destruct (server_state s) eqn:SS; cbn;
      intros H; inversion H; subst; clear H; cbn;
      (split; [reflexivity|]); (split; [reflexivity|]);
      (split; [apply NI; auto; congruence|]); (split; [apply NI; auto; congruence|]);
      (split; [intros; congruence|]); (split; [reflexivity|]); (split; [auto; intros; congruence|]);
      try (intros NE; congruence);
      intros _; unfold client_content; rewrite filter_app;
      (replace (filter is_client_content (map (fun c0 => CSend Server (MData c0)) chunks)) with (@nil cmd)
        by (clear; induction chunks; cbn; auto)); reflexivity.
Qed.

(* events in state_errored are swallowed *)
Lemma step_request_errored (s : st) e :
  client_state s = Errored -> is_request_event e = true -> handle_event s e = Some (s, []).
Proof. intros Hc He. unfold HttpBody.handle_event. rewrite He, Hc. reflexivity. Qed.

(* ---------------- response events ---------------- *)

Lemma send_response_spec already (s : st) :
  let '(s', c) := send_response S already s in
  server_state s' = Done /\ client_state s' = client_state s
  /\ request_body_buf s' = request_body_buf s /\ response_body_buf s' = response_body_buf s
  /\ req_stream s' = req_stream s /\ fq_st s' = fq_st s /\ req_content s' = req_content s
  /\ resp_content s' = resp_content s
  /\ ~ rejq c /\ ~ rejs c /\ server_content c = [].
Proof.
  unfold send_response, flow_done, rejq, rejs.
  destruct s as [cs ss qb sb qf sf qs rs q1 q2 qc sc er lv]. cbn.
  destruct already; destruct cs; cbn; try destruct sc as [[|x y]|]; cbn; repeat split; auto; intuition congruence.
Qed.

(* RespHeaders in state_wait_for_response_headers *)
Lemma step_wait_response_headers (s s' : st) fr c :
  server_state s = WaitHeaders -> response_body_buf s = [] ->
  handle_event s (RespHeaders fr) = Some (s', c) ->
  response_body_buf s' = [] /\ request_body_buf s' = request_body_buf s /\ ~ rejq c /\ server_content c = []
  /\ ((server_state s' = Errored /\ client_state s' = Errored /\ rejs c /\ client_content c = [])
      \/ (~ rejs c /\ client_state s' = client_state s
          /\ ((server_state s' = Consume /\ client_content c = [])
              \/ (server_state s' = Streaming /\ client_content c = [CSend Client (MHeaders false)])))).
Proof.
  intros Hc Hb. unfold HttpBody.handle_event. cbn [is_request_event]. rewrite Hc.
  unfold state_wait_for_response_headers.
  remember (set_resp_framing S s (Some fr)) as s0 eqn:E0.
  assert (B0 : response_body_buf s0 = [] /\ request_body_buf s0 = request_body_buf s
               /\ client_state s0 = client_state s) by (subst s0; destruct s; cbn in *; auto).
  clear E0. destruct B0 as (B0 & R0 & C0).
  destruct (if end_stream_of fr then Some (false, s0, [])
            else check_body_size false s0) as [[[b s1] c1]|] eqn:EC; [|discriminate].
  assert (CASES :
    (b = true /\ client_state s1 = Errored /\ server_state s1 = Errored /\ rejs c1 /\ ~ rejq c1
     /\ server_content c1 = [] /\ client_content c1 = []
     /\ request_body_buf s1 = request_body_buf s /\ response_body_buf s1 = [])
    \/ (b = false /\ c1 = [] /\ request_body_buf s1 = request_body_buf s /\ response_body_buf s1 = []
        /\ client_state s1 = client_state s)).
  { destruct (end_stream_of fr).
    - inversion EC; subst. right. auto.
    - apply check_body_size_resp_cases in EC.
      destruct EC as [(-> & -> & -> & _)|[(-> & _ & -> & ->)|[(-> & -> & -> & _)|(_ & NE & _)]]].
      + right; auto.
      + right. repeat split; auto; destruct s0; cbn in *; auto.
      + left. pose proof (abort_body_resp s0) as AB. destruct (abort_body false s0) as [sa ca]. cbn [fst snd].
        destruct AB as (A1 & A2 & A3 & A4 & A5 & A6 & A7 & A8 & _). repeat split; auto; congruence.
      + rewrite B0 in NE. discriminate. }
  destruct CASES as [(-> & C1 & C2 & C3 & C4 & C5 & C6 & C7 & C8)|(-> & -> & C5 & C6 & C7)].
  - intros H; inversion H; subst. repeat split; auto.
  - cbn [app].
    remember (hook_responseheaders S cfg s1) as s2 eqn:E2.
    assert (B2 : response_body_buf s2 = [] /\ request_body_buf s2 = request_body_buf s
                 /\ client_state s2 = client_state s).
    { subst s2. unfold hook_responseheaders. destruct (p_resp cfg); destruct s1; cbn in *; auto. }
    clear E2. destruct B2 as (B2 & R2 & K2).
    unfold start_response_stream, rejq, rejs.
    destruct (stream_truthy (resp_stream s2) && negb (end_stream_of fr));
      intros H; inversion H; subst; clear H; destruct s2; cbn in *;
      (split; [auto|]); (split; [auto|]); (split; [intuition congruence|]); (split; [reflexivity|]);
      right; (split; [intuition congruence|]); (split; [auto|]); [right|left]; split; reflexivity.
Qed.

(* RespData in state_consume_response_body *)
Lemma step_consume_response_data (s s' : st) d c :
  server_state s = Consume ->
  handle_event s (RespData d) = Some (s', c) ->
  let buf := response_body_buf s ++ d in
  request_body_buf s' = request_body_buf s /\ ~ rejq c /\ server_content c = []
  /\ ((server_state s' = Consume /\ client_state s' = client_state s /\ response_body_buf s' = buf /\ c = []
       /\ (nonempty buf = true -> truthy_opts = true -> over (parse_size (o_limit cfg)) (blen buf) = false))
      \/ (server_state s' = Errored /\ client_state s' = Errored /\ rejs c /\ client_content c = []
          /\ response_body_buf s' = buf /\ flow_error s' = true /\ flow_live s' = false)
      \/ (server_state s' = Streaming /\ client_state s' = client_state s /\ ~ rejs c
          /\ response_body_buf s' = (if o_store cfg then buf else [])
          /\ c = [CSend Client (MHeaders false); CSend Client (MData buf)]
          /\ resp_stream s' = STrue /\ fs_st s' = fs_st s /\ resp_content s' = resp_content s
          /\ nonempty buf = true /\ over (parse_size (o_limit cfg)) (blen buf) = false
          /\ over (parse_size (o_stream cfg)) (blen buf) = true)).
Proof.
  intros Hc. unfold HttpBody.handle_event. cbn [is_request_event]. rewrite Hc.
  unfold state_consume_response_body.
  remember (set_respbuf S s (response_body_buf s ++ d)) as s0 eqn:E0.
  assert (B0 : response_body_buf s0 = response_body_buf s ++ d) by (subst s0; destruct s; reflexivity).
  assert (R0 : request_body_buf s0 = request_body_buf s /\ client_state s0 = client_state s
               /\ fs_st s0 = fs_st s /\ resp_content s0 = resp_content s) by (subst s0; destruct s; cbn; auto).
  assert (S0 : server_state s0 = Consume) by (subst s0; destruct s; cbn in *; auto).
  clear E0. destruct R0 as (R0 & K0 & F1 & F2).
  destruct (check_body_size false s0) as [[[b s1] c1]|] eqn:EC; [|discriminate].
  intros H; inversion H; subst s1 c1; clear H. cbn zeta.
  apply check_body_size_resp_cases in EC.
  destruct EC as [(-> & -> & -> & SIDE)|[(-> & E & -> & ->)|[(-> & -> & -> & x & EX & POS & OV)|(-> & NE & OL & OT & -> & ->)]]].
  - split; [auto|]. split; [unfold rejq; cbn; tauto|]. split; [reflexivity|].
    left. repeat split; auto; try (destruct s0; cbn in *; congruence).
    intros NE TR. unfold resp_expected in SIDE. rewrite B0, NE in SIDE.
    apply (SIDE _ eq_refl); auto. apply nonempty_true_blen; auto.
  - split; [destruct s0; cbn in *; auto|]. split; [unfold rejq; cbn; tauto|]. split; [reflexivity|].
    left. rewrite B0 in E. rewrite E. repeat split; try (destruct s0; cbn in *; congruence).
  - pose proof (abort_body_resp s0) as AB. destruct (abort_body false s0) as [sa ca]. cbn [fst snd].
    destruct AB as (A1 & A2 & A3 & A4 & A5 & A6 & A7 & A8 & A9 & A10).
    split; [congruence|]. split; [auto|]. split; [auto|].
    right; left. repeat split; auto; try congruence.
  - rewrite B0 in *. cbn zeta.
    split; [destruct (o_store cfg); destruct s0; cbn in *; auto|].
    split; [unfold rejq; cbn; intuition congruence|]. split; [reflexivity|].
    right; right.
    split; [destruct (o_store cfg); destruct s0; reflexivity|].
    split; [destruct (o_store cfg); destruct s0; cbn in *; auto|].
    split; [unfold rejs; cbn; intuition congruence|].
    split; [destruct (o_store cfg); destruct s0; cbn in *; auto|].
    split; [reflexivity|].
    repeat split; auto; destruct (o_store cfg); destruct s0; cbn in *; auto.
Qed.

(* RespEom in state_consume_response_body *)
Lemma step_consume_response_eom (s s' : st) c :
  server_state s = Consume ->
  handle_event s RespEom = Some (s', c) ->
  request_body_buf s' = request_body_buf s /\ client_state s' = client_state s
  /\ ~ rejs c /\ ~ rejq c /\ server_content c = []
  /\ response_body_buf s' = [] /\ server_state s' = Done
  /\ resp_content s' = Some (response_body_buf s)
  /\ data_to Client c = (if nonempty (response_body_buf s) then [response_body_buf s] else []).
Proof.
  intros Hc. unfold HttpBody.handle_event. cbn [is_request_event]. rewrite Hc.
  unfold state_consume_response_body, send_response, flow_done, rejq, rejs.
  destruct s as [cs ss qb sb qf sf qs rs q1 q2 qc sc er lv]. cbn in Hc. subst ss. cbn.
  destruct (nonempty sb) eqn:NE; destruct cs; cbn; intros H; inversion H; subst; clear H; cbn;
    repeat split; auto; intuition congruence.
Qed.

(* RespData / RespEom in state_stream_response_body *)
Lemma step_stream_response (s s' : st) e c :
  server_state s = Streaming -> is_request_event e = false ->
  handle_event s e = Some (s', c) ->
  request_body_buf s' = request_body_buf s /\ client_state s' = client_state s
  /\ ~ rejs c /\ ~ rejq c /\ server_content c = []
  /\ (o_store cfg = false -> response_body_buf s' = response_body_buf s)
  /\ match e with
     | RespData _ => server_state s' = Streaming
     | _ => server_state s' = Done /\ (o_store cfg = true -> response_body_buf s' = [])
     end.
Proof.
  intros Hc He. unfold HttpBody.handle_event. rewrite He, Hc.
  unfold state_stream_response_body.
  destruct e; try discriminate.
  - destruct (match resp_stream s with
              | SCall => let '(q, r) := fs (fs_st s) d in (set_fs_st S s q, data_chunks r)
              | _ => (s, [d])
              end) as [s1 chunks] eqn:E1.
    assert (F : request_body_buf s1 = request_body_buf s /\ client_state s1 = client_state s
                /\ response_body_buf s1 = response_body_buf s /\ server_state s1 = Streaming).
    { destruct (resp_stream s); try (inversion E1; subst; auto).
      destruct (fs (fs_st s) d) as [q r]. inversion E1; subst. destruct s; cbn in *; auto. }
    destruct F as (F1 & F2 & F3 & F4).
    rewrite relay_chunks_eq. intros H; inversion H; subst; clear H.
    split; [destruct (o_store cfg); destruct s1; cbn in *; auto|].
    split; [destruct (o_store cfg); destruct s1; cbn in *; auto|].
    split; [apply not_in_map_data; congruence|]. split; [apply not_in_map_data; congruence|].
    split; [unfold server_content; clear; induction chunks; cbn; auto|].
    split; [intros ->; auto|].
    destruct (o_store cfg); destruct s1; cbn in *; auto.
  - destruct (match resp_stream s with
              | SCall => let '(q, r) := fs (fs_st s) [] in (set_fs_st S s q, flush_chunks r)
              | _ => (s, [])
              end) as [s1 chunks] eqn:E1.
    assert (F : request_body_buf s1 = request_body_buf s /\ client_state s1 = client_state s
                /\ response_body_buf s1 = response_body_buf s /\ server_state s1 = Streaming).
    { destruct (resp_stream s); try (inversion E1; subst; auto).
      destruct (fs (fs_st s) []) as [q r]. inversion E1; subst. destruct s; cbn in *; auto. }
    destruct F as (F1 & F2 & F3 & F4).
    rewrite relay_chunks_eq.
    match goal with |- context [send_response S true ?x] =>
      pose proof (send_response_spec true x) as SR; destruct (send_response S true x) as [s4 c2] end.
    destruct SR as (Q1 & Q2 & Q3 & Q4 & _ & _ & _ & _ & Q9 & Q10 & Q11).
    intros H; inversion H; subst; clear H.
    split; [rewrite Q3; destruct (o_store cfg); destruct s1; cbn in *; auto|].
    split; [rewrite Q2; destruct (o_store cfg); destruct s1; cbn in *; auto|].
    split; [intros HI; apply in_app_or in HI; destruct HI as [HI|HI]; auto; revert HI; apply not_in_map_data; congruence|].
    split; [intros HI; apply in_app_or in HI; destruct HI as [HI|HI]; auto; revert HI; apply not_in_map_data; congruence|].
    split; [rewrite server_content_app, Q11, app_nil_r; unfold server_content; clear; induction chunks; cbn; auto|].
    split; [intros ST; rewrite ST in *; rewrite Q4; auto|].
    split; [auto|]. intros ST; rewrite ST in *. rewrite Q4. destruct s1; reflexivity.
Qed.

Lemma step_response_errored (s : st) e :
  server_state s = Errored -> is_request_event e = false -> handle_event s e = Some (s, []).
Proof. intros Hc He. unfold HttpBody.handle_event. rewrite He, Hc. reflexivity. Qed.

End Steps.
