(* Proofs/AlpnC18.v — lemmas about the TRANSLATED alpn_select_callback (Gen/AlpnSelect.v) and
   the hand model of its surroundings (Model/Alpn.v).  All statements are for arbitrary byte
   strings and lists (no bound); the finite class sweep at the end is an additional, explicitly
   bounded, vm_compute check. *)
From Coq Require Import List Bool Arith.
From MV Require Import Base.Bytes Model.AlpnPrelude Gen.AlpnSelect Model.Alpn.
Import ListNotations.

(* ---------------------------------------------------------------- primitives *)
Lemma py_in_In x l : py_in x l = true <-> In x l.
Proof.
  unfold py_in. rewrite existsb_exists. split.
  - intros [y [Hy E]]. apply bytes_eqb_eq in E. subst. exact Hy.
  - intros Hin. exists x. split; [exact Hin | apply bytes_eqb_refl].
Qed.

Lemma py_in_not_In x l : py_in x l = false <-> ~ In x l.
Proof.
  split.
  - intros E Hin. apply py_in_In in Hin. congruence.
  - intros Hn. destruct (py_in x l) eqn:E; [|reflexivity]. apply py_in_In in E. contradiction.
Qed.

(* the loop returns what its first returning iteration returns, else the else-clause *)
Lemma py_for_first l body k r :
  py_for l body k = r ->
  (exists pre x post, l = pre ++ x :: post /\ (forall y, In y pre -> body y = None) /\ body x = Some r)
  \/ ((forall y, In y l -> body y = None) /\ k = r).
Proof.
  induction l as [|a l IH]; cbn [py_for]; intros Hr.
  - right. split; [intros y []|exact Hr].
  - destruct (body a) as [r0|] eqn:Ea.
    + left. exists [], a, l. subst r0. repeat split; [intros y []|exact Ea].
    + destruct (IH Hr) as [[pre [x [post [El [Hpre Hx]]]]]|[Hall Hk]].
      * left. exists (a :: pre), x, post. subst l. repeat split; [|exact Hx].
        intros y [->|Hy]; [exact Ea|exact (Hpre y Hy)].
      * right. split; [|exact Hk]. intros y [->|Hy]; [exact Ea|exact (Hall y Hy)].
Qed.

(* ---------------------------------------------------------------- shape of the translated function *)
Definition default_choice (h : bool) (options : list bytes) : result :=
  py_for options
    (fun x => if py_in x (if h then HTTP_ALPNS else HTTP1_ALPNS) then Some (Sel x) else None)
    NO_OVERLAPPING_PROTOCOLS.

Lemma callback_unfold ad options :
  alpn_select_callback ad options =
  match client_alpn ad with
  | Some a => if py_in a options then Sel a else NO_OVERLAPPING_PROTOCOLS
  | None =>
      if py_truthy_opt (server_alpn ad) && py_in_opt (server_alpn ad) options
      then py_ret_opt (server_alpn ad)
      else if py_eq_opt (server_alpn ad) [] then NO_OVERLAPPING_PROTOCOLS
           else default_choice (http2 ad) options
  end.
Proof. reflexivity. Qed.

Lemma default_choice_spec h options r :
  default_choice h options = r ->
  (exists pre p post, options = pre ++ p :: post /\ r = Sel p
      /\ In p (if h then HTTP_ALPNS else HTTP1_ALPNS)
      /\ forall y, In y pre -> ~ In y (if h then HTTP_ALPNS else HTTP1_ALPNS))
  \/ (r = NO_OVERLAPPING_PROTOCOLS /\ forall y, In y options -> ~ In y (if h then HTTP_ALPNS else HTTP1_ALPNS)).
Proof.
  unfold default_choice. intros Hr. apply py_for_first in Hr.
  destruct Hr as [[pre [x [post [El [Hpre Hx]]]]]|[Hall Hk]].
  - left. exists pre, x, post.
    destruct (py_in x (if h then HTTP_ALPNS else HTTP1_ALPNS)) eqn:Ex; [|discriminate].
    injection Hx as <-. apply py_in_In in Ex. repeat split; [exact El|exact Ex|].
    intros y Hy Hin. specialize (Hpre y Hy). apply py_in_In in Hin. rewrite Hin in Hpre. discriminate.
  - right. split; [symmetry; exact Hk|].
    intros y Hy Hin. specialize (Hall y Hy). apply py_in_In in Hin. rewrite Hin in Hall. discriminate.
Qed.

(* ---------------------------------------------------------------- clause 1: only an offered protocol *)
Lemma selected_offered ad options p :
  alpn_select_callback ad options = Sel p -> In p options.
Proof.
  rewrite callback_unfold. destruct (client_alpn ad) as [a|].
  - destruct (py_in a options) eqn:E; intros Hs; [|discriminate].
    injection Hs as <-. apply py_in_In. exact E.
  - destruct (server_alpn ad) as [s|]; cbn [py_truthy_opt py_in_opt py_ret_opt py_eq_opt].
    + destruct (py_truthy_bytes s && py_in s options) eqn:E.
      * intros Hs. injection Hs as <-. apply andb_true_iff in E. apply py_in_In. apply E.
      * destruct (bytes_eqb s []); [discriminate|].
        intros Hs. apply default_choice_spec in Hs.
        destruct Hs as [[pre [q [post [El [Er _]]]]]|[Er _]]; [|discriminate].
        injection Er as <-. subst options. apply in_or_app. right. left. reflexivity.
    + cbn [andb]. intros Hs. apply default_choice_spec in Hs.
      destruct Hs as [[pre [q [post [El [Er _]]]]]|[Er _]]; [|discriminate].
      injection Er as <-. subst options. apply in_or_app. right. left. reflexivity.
Qed.

(* the callback never hands Python None to pyOpenSSL *)
Lemma never_none ad options : alpn_select_callback ad options <> RetNone.
Proof.
  rewrite callback_unfold. destruct (client_alpn ad) as [a|].
  - destruct (py_in a options); discriminate.
  - destruct (server_alpn ad) as [s|]; cbn [py_truthy_opt py_in_opt py_ret_opt py_eq_opt].
    + destruct (py_truthy_bytes s && py_in s options); [discriminate|].
      destruct (bytes_eqb s []); [discriminate|].
      intros Hs. apply default_choice_spec in Hs.
      destruct Hs as [[pre [q [post [_ [Er _]]]]]|[Er _]]; discriminate.
    + cbn [andb]. intros Hs. apply default_choice_spec in Hs.
      destruct Hs as [[pre [q [post [_ [Er _]]]]]|[Er _]]; discriminate.
Qed.

(* ---------------------------------------------------------------- clause 4 core: a preset client_alpn *)
Lemma client_alpn_exact ad options a :
  client_alpn ad = Some a ->
  (In a options -> alpn_select_callback ad options = Sel a)
  /\ (~ In a options -> alpn_select_callback ad options = NO_OVERLAPPING_PROTOCOLS).
Proof.
  intros Hc. rewrite callback_unfold, Hc. split; intros Hin.
  - apply py_in_In in Hin. rewrite Hin. reflexivity.
  - apply py_in_not_In in Hin. rewrite Hin. reflexivity.
Qed.

Lemma client_alpn_only ad options a :
  client_alpn ad = Some a ->
  alpn_select_callback ad options = Sel a \/ alpn_select_callback ad options = NO_OVERLAPPING_PROTOCOLS.
Proof.
  intros Hc. destruct (client_alpn_exact ad options a Hc) as [H1 H2].
  destruct (py_in a options) eqn:E.
  - left. apply H1. apply py_in_In. exact E.
  - right. apply H2. apply py_in_not_In. exact E.
Qed.

(* secure web proxy outer connection: whenever the hook's test fires, only http/1.1 *)
Lemma secure_web_proxy_outer fixed layers ca sa h options :
  is_outer fixed layers = true ->
  let r := alpn_select_callback (tls_start_client_app_data fixed layers ca sa h) options in
  r = Sel lit_http11 \/ r = NO_OVERLAPPING_PROTOCOLS.
Proof.
  intros E. cbv zeta. apply client_alpn_only. unfold tls_start_client_app_data. rewrite E. reflexivity.
Qed.

(* current code: the test fires on the two-layer stack of the unit test ... *)
Lemma outer_orig_two_layers k1 : is_outer false [LHttpProxy; k1] = true.
Proof. reflexivity. Qed.

(* ... but NOT on the stack NextLayer really builds for a secure web proxy
   (HttpProxy, ClientTLSLayer, HttpLayer): h2 is selected on the outer connection *)
Lemma secure_web_proxy_real_stack_orig_refuted :
  exists options,
    is_outer false [LHttpProxy; LClientTLS; LOther] = false
    /\ alpn_select_callback (tls_start_client_app_data false [LHttpProxy; LClientTLS; LOther] None None true) options
       = Sel lit_h2.
Proof. exists [lit_h2; lit_http11]. split; reflexivity. Qed.

(* repaired code: fires on every stack that starts with HttpProxy and has no ClientTLSLayer
   beyond index 1 (the TLS layer being started is the one directly on the proxy mode) ... *)
Lemma outer_fixed_real_stack k1 rest :
  existsb is_client_tls rest = false -> is_outer true (LHttpProxy :: k1 :: rest) = true.
Proof. intros E. cbn. rewrite E. reflexivity. Qed.

(* ... and not on a tunnelled (inner) connection, whose stack has a later ClientTLSLayer,
   nor in any other proxy mode *)
Lemma outer_fixed_not_inner k0 k1 rest :
  existsb is_client_tls rest = true \/ k0 <> LHttpProxy -> is_outer true (k0 :: k1 :: rest) = false.
Proof.
  intros [E|E]; cbn.
  - rewrite E. apply andb_false_r.
  - destruct k0; try reflexivity. congruence.
Qed.

Lemma app_data_not_outer fixed layers ca sa h :
  is_outer fixed layers = false ->
  tls_start_client_app_data fixed layers ca sa h = {| client_alpn := ca; server_alpn := sa; http2 := h |}.
Proof. intros E. unfold tls_start_client_app_data. rewrite E. reflexivity. Qed.

(* ---------------------------------------------------------------- ClientTLSLayer.__init__ (TLS over TLS) *)
(* a second client TLS layer on the same connection starts from a clean ALPN state: the generated
   reset list contains alpn and alpn_offers *)
Lemma nested_reset st :
  c_tls st = true ->
  c_alpn (client_tls_layer_init st) = None
  /\ c_alpn_offers (client_tls_layer_init st) = []
  /\ c_tls (client_tls_layer_init st) = true.
Proof.
  intros E. unfold client_tls_layer_init. rewrite E. cbn [c_alpn c_alpn_offers c_tls].
  repeat split; vm_compute; reflexivity.
Qed.

Lemma first_layer_keeps st :
  c_tls st = false ->
  client_tls_layer_init st = {| c_tls := true; c_alpn := c_alpn st; c_alpn_offers := c_alpn_offers st |}.
Proof. intros E. unfold client_tls_layer_init. rewrite E. reflexivity. Qed.

(* ---------------------------------------------------------------- tls_start_server and reachability *)
Lemma offers_falsy_pre pre offers h :
  py_truthy_offers pre = false ->
  tls_start_server_offers pre offers h = tls_start_server_offers None offers h.
Proof. intros E. unfold tls_start_server_offers. rewrite E. reflexivity. Qed.

(* the lemma about tls_start_server: what it offers upstream when no addon preset the offers *)
Lemma upstream_offers_spec offers h p :
  In p (tls_start_server_offers None offers h) <-> In p offers /\ (h = false -> p <> lit_h2).
Proof.
  unfold tls_start_server_offers. cbn [py_truthy_offers negb].
  destruct offers as [|o offers].
  - cbn. tauto.
  - cbn [py_truthy_offers]. destruct h.
    + split; [intros Hin; split; [exact Hin|discriminate]|tauto].
    + rewrite filter_In. split.
      * intros [Hin E]. split; [exact Hin|]. intros _ ->. rewrite bytes_eqb_refl in E. discriminate.
      * intros [Hin Hne]. split; [exact Hin|].
        destruct (bytes_eqb p lit_h2) eqn:E; [|reflexivity].
        apply bytes_eqb_eq in E. exfalso. exact (Hne eq_refl E).
Qed.

Lemma upstream_offers_pre pre offers h p :
  py_truthy_offers pre = false ->
  (In p (tls_start_server_offers pre offers h) <-> In p offers /\ (h = false -> p <> lit_h2)).
Proof. intros E. rewrite (offers_falsy_pre pre offers h E). exact (upstream_offers_spec offers h p). Qed.

(* Reachability hypothesis of the system-level clauses: the upstream protocol recorded in
   server.alpn is either unknown (None), or nothing was negotiated (empty string), or it is a member
   of the offer list that tls_start_server derived from THE SAME client offers under THE SAME http2
   flag (OpenSSL only accepts a server selection that it offered). *)
Definition reach (offers : list bytes) (h : bool) (s : option bytes) : Prop :=
  match s with
  | None => True
  | Some [] => True
  | Some p => In p (tls_start_server_offers None offers h)
  end.

Definition reach_b (offers : list bytes) (h : bool) (s : option bytes) : bool :=
  match s with
  | None => true
  | Some [] => true
  | Some p => py_in p (tls_start_server_offers None offers h)
  end.

Lemma reach_b_spec offers h s : reach_b offers h s = true <-> reach offers h s.
Proof.
  destruct s as [[|b s]|]; cbn [reach reach_b]; try tauto. apply py_in_In.
Qed.

(* ---------------------------------------------------------------- clause 2: upstream protocol known *)
Lemma upstream_known_exact ad options s :
  client_alpn ad = None -> server_alpn ad = Some s -> reach options (http2 ad) (Some s) ->
  (s <> [] -> alpn_select_callback ad options = Sel s)
  /\ (s = [] -> alpn_select_callback ad options = NO_OVERLAPPING_PROTOCOLS).
Proof.
  intros Hc Hs Hr. rewrite callback_unfold, Hc, Hs.
  cbn [py_truthy_opt py_in_opt py_ret_opt py_eq_opt]. split.
  - intros Hne. destruct s as [|b s]; [congruence|]. cbn [reach] in Hr.
    apply upstream_offers_spec in Hr. destruct Hr as [Hin _].
    apply py_in_In in Hin. rewrite Hin. reflexivity.
  - intros ->. reflexivity.
Qed.

Lemma upstream_known ad options s :
  client_alpn ad = None -> server_alpn ad = Some s -> reach options (http2 ad) (Some s) ->
  alpn_select_callback ad options = Sel s \/ alpn_select_callback ad options = NO_OVERLAPPING_PROTOCOLS.
Proof.
  intros Hc Hs Hr. destruct (upstream_known_exact ad options s Hc Hs Hr) as [H1 H2].
  destruct s as [|b s]; [right; apply H2; reflexivity|left; apply H1; discriminate].
Qed.

Lemma upstream_known_full ad options s :
  client_alpn ad = None -> server_alpn ad = Some s -> reach options (http2 ad) (Some s) ->
  (alpn_select_callback ad options = Sel s \/ alpn_select_callback ad options = NO_OVERLAPPING_PROTOCOLS)
  /\ (s <> [] -> alpn_select_callback ad options = Sel s)
  /\ (s = [] -> alpn_select_callback ad options = NO_OVERLAPPING_PROTOCOLS).
Proof.
  intros Hc Hs Hr. split; [exact (upstream_known ad options s Hc Hs Hr)|].
  exact (upstream_known_exact ad options s Hc Hs Hr).
Qed.

(* ---------------------------------------------------------------- clause 3: no h2 when http2 is off *)
Lemma h2_not_http1 : ~ In lit_h2 HTTP1_ALPNS.
Proof. apply py_in_not_In. vm_compute. reflexivity. Qed.

Lemma no_h2_when_disabled ad options :
  http2 ad = false ->
  (client_alpn ad = None \/ client_alpn ad = Some lit_http11) ->
  reach options false (server_alpn ad) ->
  alpn_select_callback ad options <> Sel lit_h2.
Proof.
  intros Hh Hc Hr. destruct Hc as [Hc|Hc].
  - rewrite callback_unfold, Hc, Hh.
    destruct (server_alpn ad) as [s|]; cbn [py_truthy_opt py_in_opt py_ret_opt py_eq_opt].
    + destruct (py_truthy_bytes s && py_in s options) eqn:E.
      * intros Hs. injection Hs as ->. apply andb_true_iff in E. destruct E as [E _].
        cbn [reach lit_h2] in Hr. change [x68; x32] with lit_h2 in Hr.
        apply upstream_offers_spec in Hr. destruct Hr as [_ Hne]. exact (Hne eq_refl eq_refl).
      * destruct (bytes_eqb s []); [discriminate|].
        intros Hs. apply default_choice_spec in Hs.
        destruct Hs as [[pre [q [post [_ [Er [Hq _]]]]]]|[Er _]]; [|discriminate].
        injection Er as <-. exact (h2_not_http1 Hq).
    + cbn [andb]. intros Hs. apply default_choice_spec in Hs.
      destruct Hs as [[pre [q [post [_ [Er [Hq _]]]]]]|[Er _]]; [|discriminate].
      injection Er as <-. exact (h2_not_http1 Hq).
  - destruct (client_alpn_only ad options lit_http11 Hc) as [E|E]; rewrite E; discriminate.
Qed.

(* the AppData that tls_start_client builds when client.alpn is still unset (ClientTLSLayer resets it) *)
Lemma no_h2_when_disabled_system fixed layers sa options :
  reach options false sa ->
  alpn_select_callback (tls_start_client_app_data fixed layers None sa false) options <> Sel lit_h2.
Proof.
  intros Hr. apply no_h2_when_disabled; [reflexivity| |exact Hr].
  unfold tls_start_client_app_data. cbn [client_alpn].
  destruct (is_outer fixed layers); [right|left]; reflexivity.
Qed.

(* ---------------------------------------------------------------- end to end, OpenSSL as a contract *)
Lemma end_to_end (upstream_select : list bytes -> bytes) :
  (forall l, upstream_select l = [] \/ In (upstream_select l) l) ->
  forall fixed layers h options pre,
    is_outer fixed layers = false -> py_truthy_offers pre = false ->
    let s := upstream_select (tls_start_server_offers pre options h) in
    let r := alpn_select_callback (tls_start_client_app_data fixed layers None (Some s) h) options in
    (s <> [] -> r = Sel s) /\ (s = [] -> r = NO_OVERLAPPING_PROTOCOLS)
    /\ (h = false -> r <> Sel lit_h2).
Proof.
  intros Hsel fixed layers h options pre Hn Hpre. cbv zeta.
  rewrite (offers_falsy_pre pre options h Hpre).
  set (s := upstream_select (tls_start_server_offers None options h)).
  assert (Hr : reach options h (Some s)).
  { destruct (Hsel (tls_start_server_offers None options h)) as [E|Hin].
    - fold s in E. rewrite E. exact I.
    - fold s in Hin. destruct s; [exact I|exact Hin]. }
  rewrite (app_data_not_outer fixed layers None (Some s) h Hn).
  destruct (upstream_known_exact {| client_alpn := None; server_alpn := Some s; http2 := h |}
              options s eq_refl eq_refl Hr) as [H1 H2].
  repeat split; [exact H1|exact H2|].
  intros ->. apply no_h2_when_disabled; [reflexivity|left; reflexivity|exact Hr].
Qed.

(* ---------------------------------------------------------------- nested client TLS, end to end *)
(* Outer TLS is established on the client connection (c_tls, any stale alpn/alpn_offers), then the inner
   ClientTLSLayer is constructed and tls_start_client runs for the tunnelled connection (a stack the
   secure-web-proxy test does not fire on) with a known, reachable upstream protocol. *)
Lemma nested_upstream_known st fixed layers h options s :
  c_tls st = true -> is_outer fixed layers = false -> reach options h (Some s) ->
  let r := alpn_select_callback
             (tls_start_client_app_data fixed layers (c_alpn (client_tls_layer_init st)) (Some s) h) options in
  (r = Sel s \/ r = NO_OVERLAPPING_PROTOCOLS)
  /\ (s <> [] -> r = Sel s) /\ (s = [] -> r = NO_OVERLAPPING_PROTOCOLS)
  /\ (h = false -> r <> Sel lit_h2).
Proof.
  intros Et Eo Hr. cbv zeta. destruct (nested_reset st Et) as [Ea _]. rewrite Ea.
  rewrite (app_data_not_outer fixed layers None (Some s) h Eo).
  set (ad := {| client_alpn := None; server_alpn := Some s; http2 := h |}).
  destruct (upstream_known_full ad options s eq_refl eq_refl Hr) as [H0 [H1 H2]].
  repeat split; [exact H0|exact H1|exact H2|].
  intros ->. apply no_h2_when_disabled; [reflexivity|left; reflexivity|exact Hr].
Qed.

Definition stale_outer_state : client_tls_state :=
  {| c_tls := true; c_alpn := Some lit_http11; c_alpn_offers := [lit_http11] |}.
Definition inner_stack : list layer_kind := [LHttpProxy; LClientTLS; LOther; LOther; LClientTLS].

Lemma nested_nonvacuous :
  is_outer false inner_stack = false /\ is_outer true inner_stack = false
  /\ reach [lit_h2; lit_http11] true (Some lit_h2)
  /\ alpn_select_callback
       (tls_start_client_app_data false inner_stack (c_alpn (client_tls_layer_init stale_outer_state)) (Some lit_h2) true)
       [lit_h2; lit_http11] = Sel lit_h2
  /\ alpn_select_callback
       (tls_start_client_app_data false inner_stack (c_alpn stale_outer_state) (Some lit_h2) true)
       [lit_h2; lit_http11] = Sel lit_http11.
Proof. repeat split; vm_compute; auto. Qed.

(* ---------------------------------------------------------------- without server/client preset *)
Lemma default_first_match ad options :
  client_alpn ad = None -> server_alpn ad = None ->
  let known := if http2 ad then HTTP_ALPNS else HTTP1_ALPNS in
  (exists pre p post, options = pre ++ p :: post /\ alpn_select_callback ad options = Sel p
      /\ In p known /\ forall y, In y pre -> ~ In y known)
  \/ (alpn_select_callback ad options = NO_OVERLAPPING_PROTOCOLS /\ forall y, In y options -> ~ In y known).
Proof.
  intros Hc Hs. cbv zeta. rewrite callback_unfold, Hc, Hs.
  cbn [py_truthy_opt py_in_opt py_eq_opt andb].
  apply default_choice_spec. reflexivity.
Qed.

(* ---------------------------------------------------------------- the hypothesis is necessary *)
Definition ad_h2_known (h : bool) : AppData :=
  {| client_alpn := None; server_alpn := Some lit_h2; http2 := h |}.

Lemma upstream_clause_needs_reach :
  exists ad options s, client_alpn ad = None /\ server_alpn ad = Some s
    /\ alpn_select_callback ad options <> Sel s
    /\ alpn_select_callback ad options <> NO_OVERLAPPING_PROTOCOLS.
Proof.
  exists (ad_h2_known true), [lit_http11], lit_h2.
  repeat split; vm_compute; discriminate.
Qed.

Lemma http2_clause_needs_reach :
  exists ad options, http2 ad = false /\ client_alpn ad = None
    /\ alpn_select_callback ad options = Sel lit_h2.
Proof. exists (ad_h2_known false), [lit_h2; lit_http11]. repeat split. Qed.

(* ---------------------------------------------------------------- satisfiable, non-trivial *)
Lemma nonvacuous :
  reach [lit_h2; lit_http11] true (Some lit_h2)
  /\ alpn_select_callback (tls_start_client_app_data false [LHttpProxy; LOther; LOther; LClientTLS] None (Some lit_h2) true) [lit_h2; lit_http11] = Sel lit_h2
  /\ tls_start_server_offers None [lit_h2; lit_http11] false = [lit_http11]
  /\ reach [lit_h2; lit_http11] false (Some lit_http11)
  /\ alpn_select_callback (tls_start_client_app_data false [LHttpProxy; LOther; LOther; LClientTLS] None (Some lit_http11) false) [lit_h2; lit_http11] = Sel lit_http11
  /\ alpn_select_callback (tls_start_client_app_data false [LHttpProxy; LClientTLS] None None true) [lit_h2; lit_http11] = Sel lit_http11.
Proof. repeat split; vm_compute; auto. Qed.

(* ---------------------------------------------------------------- bounded class sweep (extra) *)
Definition classes : list bytes :=
  [lit_h2; [x68;x33]; lit_http11; [x68;x74;x74;x70;x2f;x31;x2e;x30]; [x68;x74;x74;x70;x2f;x30;x2e;x39]; [x68;x32;x63]].

Fixpoint lists_upto (n : nat) : list (list bytes) :=
  match n with
  | O => [[]]
  | S k => [] :: flat_map (fun l => map (fun c => c :: l) classes) (lists_upto k)
  end.

Definition is_or_none (r : result) (p : bytes) : bool :=
  result_eqb r (Sel p) || result_eqb r NO_OVERLAPPING_PROTOCOLS.

Definition clauses_b (offers : list bytes) (s c : option bytes) (h : bool) : bool :=
  let r := alpn_select_callback {| client_alpn := c; server_alpn := s; http2 := h |} offers in
  match r with Sel p => py_in p offers | NO_OVERLAPPING_PROTOCOLS => true | RetNone => false end
  && match c with Some a => is_or_none r a | None => true end
  && (negb (reach_b offers h s)
      || (match c, s with None, Some p => is_or_none r p | _, _ => true end
          && (h || negb (py_is_none c || py_eq_opt c lit_http11) || negb (result_eqb r (Sel lit_h2))))).

Definition sweep (n : nat) : bool :=
  forallb (fun offers =>
    forallb (fun s =>
      forallb (fun c =>
        forallb (fun h => clauses_b offers s c h) [true; false])
        (None :: map Some classes))
      (None :: Some [] :: map Some classes))
    (lists_upto n).

Lemma sweep_4 : length (lists_upto 4) = 1555 /\ sweep 4 = true.
Proof. split; vm_compute; reflexivity. Qed.
