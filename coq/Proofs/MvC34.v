(* Proofs/MvC34.v -- existential (refutation) forms of the concrete losses, for Props/C34.v. *)
From Coq Require Import List Bool NArith.
From MV Require Import Base.Bytes Model.MvCommon Model.MvUrl Model.MvCookie Model.MvMultipart
  Proofs.MvUrlQuote Proofs.MvUrlMain Proofs.MvCookieProofs Proofs.MvMultipartProofs Proofs.MvMultipartMain.
Import ListNotations.

Definition mp_lossy (b : bytes) (parts : pairs) : Prop :=
  exists content, set_multipart_form b parts = Some content /\ get_multipart_form b content <> parts.

Lemma mp_lossy_intro b parts r : view b parts = Some r -> r <> parts -> mp_lossy b parts.
Proof.
  unfold view, mp_lossy. destruct (set_multipart_form b parts) as [c|]; [|discriminate].
  intros H Hne. inversion H; subst. exists c. split; [reflexivity|exact Hne].
Qed.

(* a value with CR LF inside, under an unobjectionable boundary and name *)
Lemma multipart_value_newline_refuted :
  exists b k v, boundary_ok b = true /\ key_ok b k = true /\ mp_lossy b [(k, v)].
Proof.
  exists bnd, [x6b], [x61; x0d; x0a; x62]. split; [reflexivity|]. split; [reflexivity|].
  eapply mp_lossy_intro; [apply refuted_value_newline|discriminate].
Qed.

Lemma multipart_name_quote_refuted :
  exists b k v, boundary_ok b = true /\ val_ok b v = true /\ mp_lossy b [(k, v)].
Proof.
  exists bnd, [x61; x22; x62], [x76]. split; [reflexivity|]. split; [reflexivity|].
  eapply mp_lossy_intro; [apply refuted_name_quote|discriminate].
Qed.

Lemma multipart_empty_name_refuted :
  exists b v, boundary_ok b = true /\ val_ok b v = true /\ mp_lossy b [([], v)].
Proof.
  exists bnd, [x76]. split; [reflexivity|]. split; [reflexivity|].
  eapply mp_lossy_intro; [vm_compute; reflexivity|discriminate].
Qed.

(* a boundary that urllib quote rewrites: parts that are fine for it are lost entirely *)
Lemma multipart_boundary_quoted_refuted :
  exists b k v, nonempty b = true /\ key_ok b k = true /\ val_ok b v = true /\ mp_lossy b [(k, v)].
Proof.
  exists [x61; x3d; x62], [x6b], [x76]. repeat (split; [reflexivity|]).
  eapply mp_lossy_intro; [apply refuted_boundary_quoted|discriminate].
Qed.

Lemma form_similar_refuted :
  exists old l, plain_mode old = false /\ get_urlencoded_form (set_urlencoded_form old l) <> l.
Proof.
  exists (Some [x61]), [([], [])]. split; [reflexivity|]. rewrite form_similar_loses_empty_pair. discriminate.
Qed.

Lemma cookies_guard_needed :
  exists l, ck_repr l = false /\ get_cookies (set_cookies [] l) <> Ok l.
Proof.
  exists [([SP; x61], [x62])]. split; [reflexivity|]. rewrite refuted_leading_space. discriminate.
Qed.

Lemma path_components_empty_dropped :
  exists p comps, get_path_components (set_path_components p comps) <> comps.
Proof.
  exists [SLASH], [[x61]; []; [x62]]. rewrite path_components_empty_lost. discriminate.
Qed.
