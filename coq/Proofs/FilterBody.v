(* Proofs/FilterBody.v -- the body filters search exactly the bodies that are present (empty ones included). *)
From Coq Require Import List Bool.
From MV Require Import Base.Bytes Model.FilterBody.
Import ListNotations.

Lemma existsb_map_filter (s : bytes -> bool) (p : msg -> bool) ms :
  existsb s (map snd (filter p ms)) = existsb (fun m => p m && s (snd m)) ms.
Proof.
  induction ms as [| m ms IH]; [reflexivity |]. simpl. destruct (p m); simpl; rewrite IH; reflexivity.
Qed.
Lemma existsb_map_snd (s : bytes -> bool) (ms : list msg) :
  existsb s (map snd ms) = existsb (fun m => s (snd m)) ms.
Proof. induction ms as [| m ms IH]; [reflexivity |]. simpl. rewrite IH. reflexivity. Qed.
Lemma existsb_opt (s : bytes -> bool) o : existsb s (opt_list o) = search_opt s o.
Proof. destruct o; simpl; [apply orb_false_r | reflexivity]. Qed.

Lemma fbod_spec s f : fbod s f = existsb s (parts_any f).
Proof.
  destruct f as [rq rs ws | ms | rq rs |]; simpl; try reflexivity.
  - rewrite !existsb_app, existsb_opt, existsb_map_snd.
    destruct (search_opt s rq); [reflexivity |]. simpl.
    destruct rs as [c |]; simpl.
    + rewrite existsb_opt. destruct (search_opt s c); [reflexivity |]. destruct ws; reflexivity.
    + destruct ws; reflexivity.
  - symmetry. apply existsb_map_snd.
  - rewrite existsb_opt. destruct (s rq); reflexivity.
Qed.
Lemma fbod_request_spec s f : fbod_request s f = existsb s (parts_request f).
Proof.
  destruct f as [rq rs ws | ms | rq rs |]; simpl; try reflexivity.
  - rewrite existsb_app, existsb_opt, existsb_map_filter.
    destruct (search_opt s rq); [reflexivity |]. destruct ws; reflexivity.
  - symmetry. apply existsb_map_filter.
  - rewrite orb_false_r. reflexivity.
Qed.
Lemma fbod_response_spec s f : fbod_response s f = existsb s (parts_response f).
Proof.
  destruct f as [rq rs ws | ms | rq rs |]; simpl; try reflexivity.
  - rewrite existsb_app, (existsb_map_filter s (fun m => negb (fst m))).
    destruct rs as [c |]; simpl.
    + rewrite existsb_opt. destruct (search_opt s c); [reflexivity |]. destruct ws; reflexivity.
    + destruct ws; reflexivity.
  - symmetry. apply (existsb_map_filter s (fun m => negb (fst m))).
  - apply eq_sym, existsb_opt.
Qed.

(* a present body is searched even when it is empty *)
Lemma empty_request_body_searched s rs ws : s [] = true ->
  fbod s (HttpB (Some []) rs ws) = true /\ fbod_request s (HttpB (Some []) rs ws) = true.
Proof. intros H. simpl. rewrite H. split; reflexivity. Qed.
Lemma empty_response_body_searched s rq ws : s [] = true ->
  fbod s (HttpB rq (Some (Some [])) ws) = true /\ fbod_response s (HttpB rq (Some (Some [])) ws) = true.
Proof. intros H. simpl. rewrite H. destruct (search_opt s rq); split; reflexivity. Qed.
(* an absent body is not *)
Lemma absent_bodies_not_searched s : fbod s (HttpB None (Some None) None) = false
  /\ fbod_request s (HttpB None (Some None) None) = false /\ fbod_response s (HttpB None (Some None) None) = false.
Proof. repeat split. Qed.
