(* Proofs/Http1Regex.v -- the derivative matcher on the shapes validate.py uses, and the two generated patterns
   (_valid_header_name, _valid_content_length[_str]) characterised for every input string. *)
From Coq Require Import List Bool NArith ZArith Lia.
From MV Require Import Base.Bytes Model.Http1Msg Model.BodySizePrelude Gen.BodySize Model.Rfc9112.
Import ListNotations.

Lemma re_lang_emp s : re_lang REmp s = false.
Proof. induction s; simpl; auto. Qed.

Lemma re_lang_seq_emp r s : re_lang (RSeq REmp r) s = false.
Proof. induction s; simpl; auto. Qed.

Lemma re_lang_alt a b s : re_lang (RAlt a b) s = re_lang a s || re_lang b s.
Proof. revert a b; induction s as [|x s IH]; intros; simpl; auto. Qed.

Lemma re_lang_eps s : re_lang REps s = match s with [] => true | _ => false end.
Proof. destruct s; simpl; auto using re_lang_emp. Qed.

Lemma re_lang_seq_eps r s : re_lang (RSeq REps r) s = re_lang r s.
Proof.
  destruct s as [|x s]; simpl; auto.
  rewrite re_lang_alt, re_lang_seq_emp. reflexivity.
Qed.

Lemma re_lang_cls_seq c r s :
  re_lang (RSeq (RCls c) r) s = match s with [] => false | x :: s' => in_cls c x && re_lang r s' end.
Proof.
  destruct s as [|x s]; simpl; auto.
  destruct (in_cls c x); simpl; [apply re_lang_seq_eps | apply re_lang_seq_emp].
Qed.

Lemma re_lang_cls c s : re_lang (RCls c) s = match s with [x] => in_cls c x | _ => false end.
Proof.
  destruct s as [|x s]; simpl; auto.
  destruct (in_cls c x); [rewrite re_lang_eps | rewrite re_lang_emp]; destruct s; auto.
Qed.

Lemma re_lang_star_cls c s : re_lang (RStar (RCls c)) s = forallb (in_cls c) s.
Proof.
  induction s as [|x s IH]; simpl; auto.
  destruct (in_cls c x); simpl; [rewrite re_lang_seq_eps; exact IH | apply re_lang_seq_emp].
Qed.

Lemma re_lang_plus_cls c s :
  re_lang (RPlus (RCls c)) s = match s with [] => false | _ => forallb (in_cls c) s end.
Proof.
  unfold RPlus. rewrite re_lang_cls_seq. destruct s; auto. simpl. rewrite re_lang_star_cls. reflexivity.
Qed.

(* dollar: without a final LF the anchored match is plain membership *)
Lemma drop_final_lf_none s : existsb (byte_eqb LF) s = false -> drop_final_lf s = None.
Proof.
  intros H. unfold drop_final_lf. destruct (rev s) as [|x r] eqn:E; auto.
  destruct (byte_eqb x LF) eqn:Ex; auto.
  apply byte_eqb_eq in Ex; subst x.
  assert (In LF s) by (apply in_rev; rewrite E; left; reflexivity).
  assert (existsb (byte_eqb LF) s = true) by (apply existsb_exists; exists LF; split; auto using byte_eqb_refl).
  congruence.
Qed.

Lemma re_match_anchored_nolf r s : existsb (byte_eqb LF) s = false -> re_match_anchored r s = re_lang r s.
Proof. intros H. unfold re_match_anchored. rewrite (drop_final_lf_none _ H). apply orb_false_r. Qed.

(* ---------- _valid_header_name *)
Definition name_cls : cls := match _valid_header_name with RSeq (RCls c) _ => c | _ => [] end.

Lemma valid_header_name_shape : _valid_header_name = RPlus (RCls name_cls).
Proof. reflexivity. Qed.

Lemma name_cls_tchar b : in_cls name_cls b = is_tchar b.
Proof.
  apply eqb_prop. revert b.
  apply (forall_bytes (fun b => Bool.eqb (in_cls name_cls b) (is_tchar b))). vm_compute. reflexivity.
Qed.

Lemma forallb_ext_eq {A} (f g : A -> bool) l : (forall x, f x = g x) -> forallb f l = forallb g l.
Proof. intros H; induction l; simpl; congruence. Qed.

(* a name accepted by the generated pattern is an RFC token, provided it contains no LF *)
Lemma valid_name_token n :
  existsb (byte_eqb LF) n = false -> re_match_anchored _valid_header_name n = is_token n.
Proof.
  intros H. rewrite (re_match_anchored_nolf _ _ H), valid_header_name_shape, re_lang_plus_cls.
  unfold is_token. destruct n; auto. apply forallb_ext_eq, name_cls_tchar.
Qed.

(* ---------- _valid_content_length and _valid_content_length_str *)
Definition nonzero_digit (b : byte) : bool := (49 <=? bN b)%N && (bN b <=? 57)%N.
Definition canon_dec (s : bytes) : bool :=
  match s with
  | [] => false
  | x :: s' => (byte_eqb x x30 && match s' with [] => true | _ => false end) || (nonzero_digit x && forallb is_digit s')
  end.

Lemma cls_digit b : in_cls [(48%N, 57%N)] b = is_digit b.
Proof. unfold in_cls, is_digit; simpl. apply orb_false_r. Qed.
Lemma cls_nz b : in_cls [(49%N, 57%N)] b = nonzero_digit b.
Proof. unfold in_cls, nonzero_digit; simpl. apply orb_false_r. Qed.
Lemma cls_zero b : in_cls [(48%N, 48%N)] b = byte_eqb b x30.
Proof.
  apply eqb_prop. revert b.
  apply (forall_bytes (fun b => Bool.eqb (in_cls [(48%N, 48%N)] b) (byte_eqb b x30))). vm_compute. reflexivity.
Qed.

Lemma cl_lang_bytes s : re_lang _valid_content_length s = canon_dec s.
Proof.
  unfold _valid_content_length. rewrite re_lang_alt, re_lang_cls, re_lang_cls_seq.
  destruct s as [|x s]; auto. simpl canon_dec.
  rewrite re_lang_star_cls, cls_nz, (forallb_ext_eq _ _ s cls_digit).
  destruct s as [|b s]; [rewrite cls_zero | ]; simpl.
  - destruct (byte_eqb x x30), (nonzero_digit x); reflexivity.
  - rewrite andb_false_r. reflexivity.
Qed.

Lemma cl_lang_str s : re_lang _valid_content_length_str s = canon_dec s.
Proof.
  unfold _valid_content_length_str. rewrite re_lang_alt, re_lang_cls, re_lang_cls_seq.
  destruct s as [|x s]; auto. simpl canon_dec.
  rewrite re_lang_star_cls, cls_nz, (forallb_ext_eq _ _ s cls_digit).
  destruct s as [|b s]; [rewrite cls_zero | ]; simpl.
  - destruct (byte_eqb x x30), (nonzero_digit x); reflexivity.
  - rewrite andb_false_r. reflexivity.
Qed.

Lemma canon_dec_digits s : canon_dec s = true -> s <> [] /\ forallb is_digit s = true.
Proof.
  destruct s as [|x s]; simpl; [discriminate|]. intros H. split; [discriminate|].
  apply orb_true_iff in H as [H|H]; apply andb_true_iff in H as [H1 H2].
  - apply byte_eqb_eq in H1; subst x. destruct s; [reflexivity | discriminate].
  - rewrite H2, andb_true_r. unfold nonzero_digit in H1. unfold is_digit.
    apply andb_true_iff in H1 as [A B]. rewrite B, andb_true_r. apply N.leb_le in A. apply N.leb_le. lia.
Qed.
