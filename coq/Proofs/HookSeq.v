(* Proofs/HookSeq.v -- what the monitor summary says about a hook sequence (pure list facts). *)
From Coq Require Import List Bool NArith.
From MV Require Import Base.Bytes Model.HttpStream.
Import ListNotations.

Definition mem (h : hook) (l : list hook) : bool := existsb (hook_eqb h) l.
(* may hook h fire after the hooks pre? *)
Definition rule (h : hook) (pre : list hook) : bool :=
  match h with
  | HkReqHeaders | HkConnect => isnil pre
  | HkRequest => mem HkReqHeaders pre && negb (mem HkRequest pre)
  | HkRespHeaders => mem HkReqHeaders pre && negb (mem HkRespHeaders pre)
  | HkResponse => mem HkReqHeaders pre && mem HkRespHeaders pre && negb (mem HkResponse pre)
  | HkError => mem HkReqHeaders pre
  end.

Lemma summ_snoc hs h : summ (hs ++ [h]) = mon_step (summ hs) h.
Proof. unfold summ. rewrite fold_left_app. reflexivity. Qed.

Lemma mem_snoc h l x : mem h (l ++ [x]) = mem h l || hook_eqb h x.
Proof. unfold mem. rewrite existsb_app. simpl. rewrite orb_false_r. reflexivity. Qed.

Lemma bits_mem hs :
  m_qh (summ hs) = mem HkReqHeaders hs /\ m_q (summ hs) = mem HkRequest hs /\ m_rh (summ hs) = mem HkRespHeaders hs
  /\ m_r (summ hs) = mem HkResponse hs /\ m_er (summ hs) = mem HkError hs /\ m_cn (summ hs) = mem HkConnect hs.
Proof.
  induction hs as [|x l IH] using rev_ind; [repeat split|].
  destruct IH as (A & B & C & D & E & F). rewrite summ_snoc, !mem_snoc.
  destruct x; simpl; rewrite ?orb_false_r, ?orb_true_r; repeat split; assumption.
Qed.

Lemma any_spec hs :
  let m := summ hs in m_qh m || m_q m || m_rh m || m_r m || m_er m || m_cn m = negb (isnil hs).
Proof.
  induction hs as [|x l IH] using rev_ind; [reflexivity|].
  rewrite summ_snoc. destruct l; destruct x; simpl; rewrite ?orb_true_r; reflexivity.
Qed.

Lemma snoc_split {A} (l : list A) x pre h post :
  l ++ [x] = pre ++ h :: post ->
  (post = [] /\ pre = l /\ h = x) \/ (exists post', post = post' ++ [x] /\ l = pre ++ h :: post').
Proof.
  destruct (rev post) as [|y rp] eqn:R.
  - assert (post = []) as -> by (rewrite <- (rev_involutive post), R; reflexivity).
    intros H. left. change (pre ++ [h]) with (pre ++ [h]) in H.
    apply app_inj_tail in H. destruct H as [-> ->]. auto.
  - assert (post = rev rp ++ [y]) as -> by (rewrite <- (rev_involutive post), R; reflexivity).
    intros H. right. exists (rev rp).
    change (pre ++ h :: rev rp ++ [y]) with (pre ++ (h :: rev rp) ++ [y]) in H.
    rewrite app_assoc in H. apply app_inj_tail in H. destruct H as [-> ->]. auto.
Qed.

Lemma ok_mono l x : m_ok (summ (l ++ [x])) = true -> m_ok (summ l) = true.
Proof. rewrite summ_snoc. destruct x; simpl; intros H; repeat (apply andb_prop in H; destruct H as [H ?]); assumption. Qed.

Lemma ok_last l x : m_ok (summ (l ++ [x])) = true -> rule x l = true.
Proof.
  rewrite summ_snoc. pose proof (bits_mem l) as (A & B & C & D & E & F). pose proof (any_spec l) as Any. cbv zeta in Any.
  destruct x; simpl; intros H; repeat (apply andb_prop in H; destruct H as [H ?]);
    rewrite <- ?A, <- ?B, <- ?C, <- ?D, <- ?E;
    repeat match goal with G : ?b = true |- context [?b] => rewrite G end; simpl; try reflexivity.
  - rewrite Any in *. destruct l; simpl in *; congruence.
  - rewrite Any in *. destruct l; simpl in *; congruence.
Qed.

Theorem ok_rule hs : m_ok (summ hs) = true -> forall pre h post, hs = pre ++ h :: post -> rule h pre = true.
Proof.
  induction hs as [|x l IH] using rev_ind; intros Hok pre h post E.
  - destruct pre; discriminate.
  - apply snoc_split in E. destruct E as [(-> & -> & ->) | (post' & -> & ->)].
    + apply ok_last. exact Hok.
    + apply (IH (ok_mono _ _ Hok) pre h post'). reflexivity.
Qed.

Theorem early_rule hs : m_early (summ hs) = false ->
  forall pre post, hs = pre ++ HkRespHeaders :: post -> mem HkRequest pre = true.
Proof.
  induction hs as [|x l IH] using rev_ind; intros He pre post E.
  - destruct pre; discriminate.
  - rewrite summ_snoc in He. apply snoc_split in E. destruct E as [(-> & -> & <-) | (post' & -> & ->)].
    + pose proof (bits_mem l) as (_ & B & _). simpl in He. apply orb_false_elim in He. destruct He as [_ He].
      rewrite <- B. destruct (m_q (summ l)); [reflexivity | discriminate].
    + apply (IH) with (post := post'); [|reflexivity].
      destruct x; simpl in He; try exact He. apply orb_false_elim in He. tauto.
Qed.

Theorem er2_rule hs : m_er2 (summ hs) = false ->
  forall pre post, hs = pre ++ HkError :: post -> mem HkError pre = false.
Proof.
  induction hs as [|x l IH] using rev_ind; intros He pre post E.
  - destruct pre; discriminate.
  - rewrite summ_snoc in He. apply snoc_split in E. destruct E as [(-> & -> & <-) | (post' & -> & ->)].
    + pose proof (bits_mem l) as (_ & _ & _ & _ & B & _). simpl in He. apply orb_false_elim in He. destruct He as [_ He].
      rewrite <- B. exact He.
    + apply (IH) with (post := post'); [|reflexivity].
      destruct x; simpl in He; try exact He. apply orb_false_elim in He. tauto.
Qed.
