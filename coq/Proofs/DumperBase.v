(* Proofs/DumperBase.v -- building blocks for C49: every sanitizer of Model.Dumper yields only
   harmless characters, and the text combinators (style, indent, echo, joins) add nothing but
   spaces, line feeds and the dumper's own SGR sequences. *)
From Coq Require Import List Bool NArith Lia String.
From MV Require Import Base.Bytes Model.Strutils Model.Dumper Proofs.StrutilsC51.
Import ListNotations.
Local Open Scope N_scope.

Definition OK (v : bool) (t : ttext) : Prop := ok_tt v t = true.

Lemma OK_nil v : OK v []. Proof. reflexivity. Qed.

Lemma OK_app v a b : OK v (a ++ b) <-> OK v a /\ OK v b.
Proof. unfold OK, ok_tt. rewrite forallb_app, andb_true_iff. tauto. Qed.

Lemma OK_app_intro v a b : OK v a -> OK v b -> OK v (a ++ b).
Proof. intros. apply OK_app. tauto. Qed.

Lemma OK_cons v k t : ok_tok v k = true -> OK v t -> OK v (k :: t).
Proof. unfold OK, ok_tt. cbn [forallb]. intros -> ->. reflexivity. Qed.

Lemma OK_In v t : OK v t <-> forall k, In k t -> ok_tok v k = true.
Proof. unfold OK, ok_tt. apply forallb_forall. Qed.

Lemma OK_incl v a b : incl a b -> OK v b -> OK v a.
Proof. rewrite !OK_In. intros Hi Hb k Hk. apply Hb, Hi, Hk. Qed.

Lemma OK_rev v t : OK v t -> OK v (rev t).
Proof. apply OK_incl. intros k Hk. apply in_rev. exact Hk. Qed.

Lemma OK_plain v t : OK v (plain t) <-> ok_text t = true.
Proof.
  unfold OK, ok_tt, ok_text, plain. induction t as [|c t IH]; cbn; [tauto|].
  rewrite !andb_true_iff, IH. tauto.
Qed.

Lemma OK_lit v s : ok_text (T s) = true -> OK v (P s).
Proof. intro H. apply OK_plain. exact H. Qed.

Lemma ok_text_app a b : ok_text (a ++ b) = ok_text a && ok_text b.
Proof. apply forallb_app. Qed.

(* ---- escape_control_characters *)
Lemma okc_escaped c : okc (if is_cc c && negb (true && is_spacing c) then 46 else c) = true.
Proof.
  unfold okc. cbn [andb]. destruct (is_cc c) eqn:Hc; destruct (is_spacing c) eqn:Hs; cbn; try reflexivity.
  - rewrite Hc, Hs. reflexivity.
  - rewrite Hc. reflexivity.
  - rewrite Hc. reflexivity.
Qed.

Lemma escape_ok t : ok_text (escape_control_characters t true) = true.
Proof.
  unfold ok_text, escape_control_characters. rewrite forallb_forall. intros c Hc.
  apply in_map_iff in Hc as [x [<- _]]. apply okc_escaped.
Qed.

(* without keep_spacing not even TAB/LF/CR survive *)
Lemma escape_strict_ok t : forallb (fun c => negb (is_cc c)) (escape_control_characters t false) = true.
Proof.
  unfold escape_control_characters. rewrite forallb_forall. intros c Hc.
  apply in_map_iff in Hc as [x [<- _]]. cbn [andb negb].
  destruct (is_cc x) eqn:Hx; cbn; [reflexivity | rewrite Hx; reflexivity].
Qed.

Lemma OK_esc v t : OK v (esc t).
Proof. apply OK_plain, escape_ok. Qed.

Lemma prettify_ok m : ok_text (prettify_message m) = true.
Proof. unfold prettify_message. destruct (pm_raw m); [apply escape_ok | vm_compute; reflexivity]. Qed.

(* ---- bytes_to_escaped_str (C51_no_control) *)
Lemma OK_b2e v b : OK v (b2e b).
Proof.
  apply OK_plain. unfold ok_text. rewrite forallb_forall. intros c Hc.
  apply in_map_iff in Hc as [x [<- Hx]]. apply no_control in Hx as [H | [H _]]; [|discriminate].
  unfold okc. rewrite H. reflexivity.
Qed.

(* ---- decimal numbers *)
Definition isd (b : byte) : bool := is_digit_n (bN b).

Lemma digit_isd n : isd (Nb (48 + n mod 10)) = true.
Proof.
  unfold isd, is_digit_n. assert (n mod 10 < 10) by (apply N.mod_lt; lia).
  rewrite bN_Nb by lia. apply andb_true_iff. revert H. generalize (n mod 10). intros m H. split; apply N.leb_le; lia.
Qed.

Lemma dec_digits_isd f : forall n acc, forallb isd acc = true -> forallb isd (dec_digits f n acc) = true.
Proof.
  induction f as [|f IH]; intros n acc Ha; cbn [dec_digits]; [exact Ha|].
  destruct (n <? 10); [cbn [forallb]; rewrite digit_isd, Ha; reflexivity|].
  apply IH. cbn [forallb]. rewrite digit_isd, Ha. reflexivity.
Qed.

Lemma dec_digits_nonempty f : forall n acc, acc <> [] -> dec_digits f n acc <> [].
Proof.
  induction f as [|f IH]; intros n acc Ha; cbn [dec_digits]; [exact Ha|].
  destruct (n <? 10); [discriminate | apply IH; discriminate].
Qed.

Lemma dec_isd n : forallb is_digit_n (dec n) = true.
Proof.
  unfold dec, dec_of_N. pose proof (dec_digits_isd (S (N.to_nat (N.log2 n))) n [] eq_refl) as H.
  rewrite forallb_forall in *. intros c Hc. apply in_map_iff in Hc as [b [<- Hb]]. apply (H b Hb).
Qed.

Lemma dec_nonempty n : dec n <> [].
Proof.
  unfold dec, dec_of_N. cbn [dec_digits].
  destruct (n <? 10); [discriminate|].
  intro H. apply map_eq_nil in H. revert H. apply dec_digits_nonempty. discriminate.
Qed.

Lemma digit_okc c : is_digit_n c = true -> okc c = true.
Proof.
  unfold is_digit_n, okc, is_cc. intro H. apply andb_true_iff in H as [H1 H2].
  apply N.leb_le in H1. apply N.leb_le in H2.
  assert (c <? 32 = false) as -> by (apply N.ltb_ge; lia).
  assert (c =? 127 = false) as -> by (apply N.eqb_neq; lia).
  assert (128 <=? c = false) as -> by (apply N.leb_gt; lia). reflexivity.
Qed.

Lemma dec_ok n : ok_text (dec n) = true.
Proof.
  pose proof (dec_isd n) as H. unfold ok_text. rewrite forallb_forall in *.
  intros c Hc. apply digit_okc, H, Hc.
Qed.

Lemma OK_dec v n : OK v (plain (dec n)).
Proof. apply OK_plain, dec_ok. Qed.

(* ---- the dumper's own SGR sequences *)
Lemma own_sgr_code n : own_sgr ([27; 91] ++ dec n ++ [109]) = true.
Proof.
  cbn [app own_sgr]. rewrite rev_app_distr. cbn [rev app N.eqb Pos.eqb andb].
  apply andb_true_iff. split.
  - destruct (rev (dec n)) eqn:E; [|reflexivity].
    exfalso. apply (dec_nonempty n). rewrite <- (rev_involutive (dec n)), E. reflexivity.
  - rewrite forallb_forall. intros c Hc. apply in_rev in Hc.
    pose proof (dec_isd n) as H. rewrite forallb_forall in H. apply H, Hc.
Qed.

Lemma ok_sgr n : ok_tok true (sgr n) = true.
Proof. unfold sgr. cbn [ok_tok andb]. apply own_sgr_code. Qed.

Lemma OK_flag o a b : OK true (flag o a b).
Proof. destruct o as [[|]|]; cbn [flag]; try apply OK_nil; (apply OK_cons; [apply ok_sgr | apply OK_nil]). Qed.

Lemma OK_miniclick t s : OK true t -> OK true (miniclick_style t s).
Proof.
  intro H. unfold miniclick_style. repeat apply OK_app_intro; try apply OK_flag; try exact H.
  - destruct (fg s); [apply OK_cons; [apply ok_sgr | apply OK_nil] | apply OK_nil].
  - apply OK_cons; [apply ok_sgr | apply OK_nil].
Qed.

Lemma OK_style v t s : OK v t -> OK v (style_ v t s).
Proof.
  intro H. unfold style_. destruct s as [st|]; [|exact H].
  destruct v; [apply OK_miniclick; exact H | exact H].
Qed.

(* ---- indent *)
Lemma lstrip_incl t : incl (lstrip t) t.
Proof.
  induction t as [|k r IH]; cbn [lstrip]; [apply incl_refl|].
  destruct (tok_space k); [apply incl_tl, IH | apply incl_refl].
Qed.

Lemma strip_incl t : incl (strip t) t.
Proof.
  unfold strip. intros k Hk. apply in_rev in Hk. apply lstrip_incl in Hk.
  apply in_rev in Hk. apply lstrip_incl in Hk. exact Hk.
Qed.

Lemma splitlines_incl_n (n : nat) : forall t cur l k, (List.length t <= n)%nat ->
  In l (splitlines t cur) -> In k l -> In k t \/ In k cur.
Proof.
  induction n as [|n IH]; intros t cur l k Hn Hl Hk.
  - destruct t; [|cbn in Hn; lia]. cbn [splitlines] in Hl. destruct cur; [destruct Hl|].
    destruct Hl as [<-|[]]. right. apply in_rev. exact Hk.
  - destruct t as [|[c|s] r].
    + cbn [splitlines] in Hl. destruct cur; [destruct Hl|]. destruct Hl as [<-|[]].
      right. apply in_rev. exact Hk.
    + cbn [splitlines] in Hl. cbn [List.length] in Hn. destruct (is_linebreak c).
      * assert (Hcur : l = rev cur -> In k (Ch c :: r) \/ In k cur).
        { intros ->. right. apply in_rev. exact Hk. }
        destruct r as [|[d|s'] r'].
        -- destruct Hl as [E|Hl]; [apply Hcur; symmetry; exact E|]. destruct Hl.
        -- cbn [List.length] in Hn. destruct ((c =? 13) && (d =? 10)).
           ++ destruct Hl as [E|Hl]; [apply Hcur; symmetry; exact E|].
              destruct (IH r' [] l k ltac:(lia) Hl Hk) as [H|[]]. left. right. right. exact H.
           ++ destruct Hl as [E|Hl]; [apply Hcur; symmetry; exact E|].
              destruct (IH (Ch d :: r') [] l k ltac:(cbn [List.length]; lia) Hl Hk) as [H|[]]. left. right. exact H.
        -- destruct Hl as [E|Hl]; [apply Hcur; symmetry; exact E|].
           destruct (IH (Sgr s' :: r') [] l k ltac:(cbn [List.length] in *; lia) Hl Hk) as [H|[]]. left. right. exact H.
      * destruct (IH r (Ch c :: cur) l k ltac:(lia) Hl Hk) as [H|[H|H]].
        -- left. right. exact H.
        -- left. left. exact H.
        -- right. exact H.
    + cbn [splitlines] in Hl. cbn [List.length] in Hn.
      destruct (IH r (Sgr s :: cur) l k ltac:(lia) Hl Hk) as [H|[H|H]].
      * left. right. exact H.
      * left. left. exact H.
      * right. exact H.
Qed.

Lemma splitlines_incl t cur l k : In l (splitlines t cur) -> In k l -> In k t \/ In k cur.
Proof. apply (splitlines_incl_n (List.length t)). apply le_n. Qed.

Lemma ok_space v : ok_tok v (Ch 32) = true. Proof. reflexivity. Qed.
Lemma ok_lf v : ok_tok v (Ch 10) = true. Proof. reflexivity. Qed.

Lemma OK_spaces v n : OK v (repeat (Ch 32) n).
Proof. induction n; cbn; [apply OK_nil | apply OK_cons; [apply ok_space | exact IHn]]. Qed.

Lemma OK_join_lines v pad ls : OK v pad -> (forall l, In l ls -> OK v l) -> OK v (join_lines pad ls).
Proof.
  intros Hp. induction ls as [|l r IH]; intros H; cbn [join_lines]; [apply OK_nil|].
  destruct r as [|l2 r2].
  - apply OK_app_intro; [exact Hp | apply H; left; reflexivity].
  - apply OK_app_intro; [exact Hp|]. apply OK_app_intro; [apply H; left; reflexivity|].
    apply OK_cons; [apply ok_lf|]. apply IH. intros x Hx. apply H. right. exact Hx.
Qed.

Lemma OK_indent v n t : OK v t -> OK v (indent n t).
Proof.
  intro H. unfold indent. apply OK_join_lines; [apply OK_spaces|].
  intros l Hl. apply OK_In. intros k Hk.
  pose proof (splitlines_incl _ _ _ _ Hl Hk) as [Hs|Hs]; [|destruct Hs].
  apply (proj1 (OK_In v t) H). apply strip_incl. exact Hs.
Qed.

Lemma OK_echo v t n s : OK v t -> OK v (echo v t n s).
Proof.
  intro H. unfold echo. apply OK_app_intro; [|apply OK_cons; [apply ok_lf | apply OK_nil]].
  apply OK_style. destruct n; [exact H | apply OK_indent; exact H].
Qed.

Lemma OK_flat_map {A} v (f : A -> ttext) l : (forall x, In x l -> OK v (f x)) -> OK v (flat_map f l).
Proof.
  induction l as [|x r IH]; intro H; cbn [flat_map]; [apply OK_nil|].
  apply OK_app_intro; [apply H; left; reflexivity | apply IH; intros y Hy; apply H; right; exact Hy].
Qed.

Lemma OK_join_tt v sep l : OK v sep -> (forall x, In x l -> OK v x) -> OK v (join_tt sep l).
Proof.
  intro Hs. induction l as [|x r IH]; intro H; cbn [join_tt]; [apply OK_nil|].
  destruct r as [|y r'].
  - apply H. left. reflexivity.
  - apply OK_app_intro; [apply H; left; reflexivity|]. apply OK_app_intro; [exact Hs|].
    apply IH. intros z Hz. apply H. right. exact Hz.
Qed.

(* ---- text equality and the highlighter contract *)
Lemma text_eqb_eq a : forall b, text_eqb a b = true -> a = b.
Proof.
  induction a as [|x a IH]; intros [|y b]; cbn; try discriminate; [reflexivity|].
  intro H. apply andb_true_iff in H as [H1 H2]. apply N.eqb_eq in H1. f_equal; [exact H1 | apply IH, H2].
Qed.

Lemma chunks_ok m : pm_ok m = true -> forall c, In c (pm_chunks m) -> ok_text (snd c) = true.
Proof.
  unfold pm_ok. intros H c Hc. destruct (pm_chunks m) as [|c0 cs] eqn:E; [destruct Hc|].
  apply text_eqb_eq in H. pose proof (prettify_ok m) as Hp. rewrite <- H in Hp.
  unfold ok_text in *. rewrite forallb_forall in *. intros x Hx. apply Hp.
  apply in_concat. exists (snd c). split; [apply in_map, Hc | exact Hx].
Qed.
