(* Proofs/TnetBase.v -- decimal round trip, int() on canonical decimals, the framing
   spec of dumps (dumps = dumps_spec), and the split/slice lemmas for one frame. *)
From Coq Require Import List Bool Arith NArith ZArith Lia.
From Coq Require Decimal DecimalN DecimalPos.
From MV Require Import Base.Bytes Model.Tnet.
Import ListNotations.

(* ---------- induction principle for the nested value tree ---------- *)
Section tv_ind2.
  Variable P : tv -> Prop.
  Hypothesis HNull : P TNull.
  Hypothesis HBool : forall b, P (TBool b).
  Hypothesis HInt : forall z, P (TInt z).
  Hypothesis HFloat : forall t, P (TFloat t).
  Hypothesis HBytes : forall b, P (TBytes b).
  Hypothesis HStr : forall s, P (TStr s).
  Hypothesis HList : forall l, Forall P l -> P (TList l).
  Hypothesis HDict : forall kv, Forall (fun p => P (fst p) /\ P (snd p)) kv -> P (TDict kv).
  Fixpoint tv_ind2 (v : tv) : P v :=
    match v with
    | TNull => HNull | TBool b => HBool b | TInt z => HInt z | TFloat t => HFloat t
    | TBytes b => HBytes b | TStr s => HStr s
    | TList l => HList l ((fix go (l : list tv) : Forall P l :=
                             match l with [] => Forall_nil _ | x :: r => Forall_cons _ (tv_ind2 x) (go r) end) l)
    | TDict kv => HDict kv ((fix go (kv : list (tv * tv)) : Forall (fun p => P (fst p) /\ P (snd p)) kv :=
                               match kv with
                               | [] => Forall_nil _
                               | p :: r => Forall_cons _ (conj (tv_ind2 (fst p)) (tv_ind2 (snd p))) (go r)
                               end) kv)
    end.
End tv_ind2.

(* ---------- per-byte facts (complete 256-case sweeps) ---------- *)
Lemma digit_not_colon c : is_digit c = true -> byte_eqb c x3a = false.
Proof.
  revert c. assert (H : forall c, (negb (is_digit c) || negb (byte_eqb c x3a)) = true)
    by (apply forall_bytes; vm_compute; reflexivity).
  intros c Hc. specialize (H c). rewrite Hc in H. simpl in H. now apply negb_true_iff in H.
Qed.
Lemma digit_not_space c : is_digit c = true -> is_space c = false.
Proof.
  revert c. assert (H : forall c, (negb (is_digit c) || negb (is_space c)) = true)
    by (apply forall_bytes; vm_compute; reflexivity).
  intros c Hc. specialize (H c). rewrite Hc in H. simpl in H. now apply negb_true_iff in H.
Qed.
Lemma digit_not_us c : is_digit c = true -> byte_eqb c x5f = false.
Proof.
  revert c. assert (H : forall c, (negb (is_digit c) || negb (byte_eqb c x5f)) = true)
    by (apply forall_bytes; vm_compute; reflexivity).
  intros c Hc. specialize (H c). rewrite Hc in H. simpl in H. now apply negb_true_iff in H.
Qed.
Lemma digit_not_minus c : is_digit c = true -> byte_eqb c x2d = false.
Proof.
  revert c. assert (H : forall c, (negb (is_digit c) || negb (byte_eqb c x2d)) = true)
    by (apply forall_bytes; vm_compute; reflexivity).
  intros c Hc. specialize (H c). rewrite Hc in H. simpl in H. now apply negb_true_iff in H.
Qed.
Lemma digit_not_plus c : is_digit c = true -> byte_eqb c x2b = false.
Proof.
  revert c. assert (H : forall c, (negb (is_digit c) || negb (byte_eqb c x2b)) = true)
    by (apply forall_bytes; vm_compute; reflexivity).
  intros c Hc. specialize (H c). rewrite Hc in H. simpl in H. now apply negb_true_iff in H.
Qed.
Lemma digit_not_us_start c r : is_digit c = true -> starts_with [x5f] (c :: r) = false.
Proof.
  revert c. assert (H : forall c, (negb (is_digit c) || negb (byte_eqb x5f c)) = true)
    by (apply forall_bytes; vm_compute; reflexivity).
  intros c Hc. specialize (H c). rewrite Hc in H. simpl in H. apply negb_true_iff in H.
  change (starts_with [x5f] (c :: r)) with (byte_eqb x5f c && true). now rewrite H.
Qed.

(* ---------- decimal ---------- *)
Lemma uint_of_bytes_of_uint u : uint_of_digits (bytes_of_uint u) = u.
Proof. induction u; simpl; congruence. Qed.

Lemma digits_bytes_of_uint u : Forall (fun c => is_digit c = true) (bytes_of_uint u).
Proof. induction u; simpl; constructor; auto. Qed.

Lemma digits_val_dec_N n : digits_val (dec_N n) = n.
Proof. unfold digits_val, dec_N. rewrite uint_of_bytes_of_uint. apply DecimalN.Unsigned.of_to. Qed.

Lemma dec_N_digits n : Forall (fun c => is_digit c = true) (dec_N n).
Proof. apply digits_bytes_of_uint. Qed.

Lemma dec_N_nonempty n : dec_N n <> [].
Proof.
  unfold dec_N. destruct n as [|p]; [discriminate|].
  simpl. pose proof (DecimalPos.Unsigned.to_uint_nonnil p) as H.
  destruct (Pos.to_uint p); [congruence| discriminate ..].
Qed.

(* ---------- int() on canonical decimals ---------- *)
Lemma scan_int_digits ds rest :
  Forall (fun c => is_digit c = true) ds ->
  (match rest with [] => True | c :: _ => is_digit c = false /\ byte_eqb c x5f = false end) ->
  scan_int (ds ++ rest) false = Some (ds, rest).
Proof.
  intros H Hr. induction H as [|c ds Hc _ IH].
  - rewrite app_nil_l. destruct rest as [|c r]; cbn [scan_int]; [reflexivity|]. destruct Hr as [H1 H2]. now rewrite H1, H2.
  - rewrite <- app_comm_cons. cbn [scan_int]. now rewrite Hc, IH.
Qed.

Lemma lstrip_digit c r : is_digit c = true -> lstrip (c :: r) = c :: r.
Proof. intros H. simpl. now rewrite (digit_not_space _ H). Qed.

Definition digits_ok (ds : bytes) : Prop := (blen ds <= 4300)%N.

Lemma py_int_digits ds :
  ds <> [] -> Forall (fun c => is_digit c = true) ds -> digits_ok ds ->
  py_int ds = Some (Z.of_N (digits_val ds)).
Proof.
  intros Hne Hd Hok. destruct ds as [|c r]; [congruence|].
  pose proof Hd as Hd'. inversion Hd' as [|? ? Hc Hr]; subst.
  unfold py_int. rewrite (lstrip_digit _ _ Hc).
  rewrite (digit_not_minus _ Hc), (digit_not_plus _ Hc).
  rewrite (digit_not_us_start _ _ Hc).
  rewrite <- (app_nil_r (c :: r)) at 1. rewrite scan_int_digits by (auto; exact I).
  unfold digits_ok in Hok. destruct (4300 <? blen (c :: r))%N eqn:E; [apply N.ltb_lt in E; lia|].
  reflexivity.
Qed.

Lemma py_int_neg_digits ds :
  ds <> [] -> Forall (fun c => is_digit c = true) ds -> digits_ok ds ->
  py_int (x2d :: ds) = Some (Z.opp (Z.of_N (digits_val ds))).
Proof.
  intros Hne Hd Hok. destruct ds as [|c r]; [congruence|].
  pose proof Hd as Hd'. inversion Hd' as [|? ? Hc Hr]; subst.
  unfold py_int. cbn [lstrip is_space]. cbv beta iota.
  replace (byte_eqb x2d x2d) with true by reflexivity.
  rewrite (digit_not_us_start _ _ Hc).
  rewrite <- (app_nil_r (c :: r)) at 1. rewrite scan_int_digits by (auto; exact I).
  unfold digits_ok in Hok. destruct (4300 <? blen (c :: r))%N eqn:E; [apply N.ltb_lt in E; lia|].
  reflexivity.
Qed.

Definition int_ok (z : Z) : Prop := digits_ok (dec_N (Z.abs_N z)).

Lemma py_int_dec_Z z : int_ok z -> py_int (dec_Z z) = Some z.
Proof.
  unfold int_ok. intros H. destruct z as [|p|p]; cbn [dec_Z Z.to_N Z.abs_N] in *.
  - rewrite py_int_digits by auto using dec_N_nonempty, dec_N_digits. rewrite digits_val_dec_N. reflexivity.
  - rewrite py_int_digits by auto using dec_N_nonempty, dec_N_digits. rewrite digits_val_dec_N. reflexivity.
  - rewrite py_int_neg_digits by auto using dec_N_nonempty, dec_N_digits. rewrite digits_val_dec_N. reflexivity.
Qed.

(* ---------- the framing spec of dumps ---------- *)
Definition frame (p : bytes) (ty : byte) : bytes := dec_N (blen p) ++ x3a :: p ++ [ty].

Definition enc_pair (f : tv -> bytes) (p : tv * tv) : bytes := f (fst p) ++ f (snd p).

Fixpoint dumps_spec (v : tv) : bytes :=
  match v with
  | TNull => frame [] x7e
  | TBool true => frame s_true x21
  | TBool false => frame s_false x21
  | TInt z => frame (dec_Z z) x23
  | TFloat tok => frame tok x5e
  | TBytes b => frame b x2c
  | TStr s => frame s x3b
  | TList l => frame (concat (map dumps_spec l)) x5d
  | TDict kv => frame (concat (rev (map (enc_pair dumps_spec) kv))) x7d
  end.

Definition tag (v : tv) : byte :=
  match v with
  | TNull => x7e | TBool _ => x21 | TInt _ => x23 | TFloat _ => x5e | TBytes _ => x2c
  | TStr _ => x3b | TList _ => x5d | TDict _ => x7d
  end.
Definition payload (v : tv) : bytes :=
  match v with
  | TNull => [] | TBool true => s_true | TBool false => s_false | TInt z => dec_Z z
  | TFloat tok => tok | TBytes b => b | TStr s => s
  | TList l => concat (map dumps_spec l)
  | TDict kv => concat (rev (map (enc_pair dumps_spec) kv))
  end.

Lemma dumps_spec_frame v : dumps_spec v = frame (payload v) (tag v).
Proof. destruct v as [| [|] | | | | | |]; reflexivity. Qed.

Lemma blen_app a b : blen (a ++ b) = (blen a + blen b)%N.
Proof. unfold blen. rewrite app_length. lia. Qed.

Lemma blen_frame p ty : blen (frame p ty) = (2 + blen (dec_N (blen p)) + blen p)%N.
Proof. unfold frame, blen. rewrite app_length. simpl length. rewrite app_length. simpl length. lia. Qed.

Ltac norm_app := repeat (rewrite <- app_assoc || rewrite <- app_comm_cons); try reflexivity.

(* rdumpq pushes chunks whose concatenation is the spec and keeps the running size exact *)
Lemma rdumpq_spec v : forall q size,
  concat (fst (rdumpq q size v)) = dumps_spec v ++ concat q
  /\ snd (rdumpq q size v) = (size + blen (dumps_spec v))%N.
Proof.
  induction v using tv_ind2; intros q size.
  - split; reflexivity.
  - destruct b; split; reflexivity.
  - cbn [rdumpq dumps_spec]. unfold dump_scalar. cbn [fst snd concat]. split.
    + unfold frame. norm_app.
    + rewrite blen_frame. lia.
  - cbn [rdumpq dumps_spec]. unfold dump_scalar. cbn [fst snd concat]. split.
    + unfold frame. norm_app.
    + rewrite blen_frame. lia.
  - cbn [rdumpq dumps_spec]. unfold dump_blob. cbn [fst snd concat]. split.
    + unfold frame. norm_app.
    + rewrite blen_frame. lia.
  - cbn [rdumpq dumps_spec]. unfold dump_blob. cbn [fst snd concat]. split.
    + unfold frame. norm_app.
    + rewrite blen_frame. lia.
  - (* list *)
    cbn [rdumpq dumps_spec].
    set (init := (size + 1)%N).
    assert (HF : forall q0 s0,
      let s2 := @fold_right st tv (fun item (s : st) => rdumpq (fst s) (snd s) item) (q0, s0) l in
      concat (fst s2) = concat (map dumps_spec l) ++ concat q0
      /\ snd s2 = (s0 + blen (concat (map dumps_spec l)))%N).
    { induction H as [|x l Hx _ IHl]; intros q0 s0; cbn [fold_right map concat].
      - split; [reflexivity | cbn; lia].
      - destruct (IHl q0 s0) as [E1 E2].
        destruct (Hx (fst (@fold_right st tv (fun item (s : st) => rdumpq (fst s) (snd s) item) (q0, s0) l))
                     (snd (@fold_right st tv (fun item (s : st) => rdumpq (fst s) (snd s) item) (q0, s0) l))) as [F1 F2].
        split.
        + rewrite F1, E1. now rewrite app_assoc.
        + rewrite F2, E2, blen_app. lia. }
    destruct (HF ([x5d] :: q) init) as [E1 E2]. cbv zeta in E1, E2.
    cbn [fst snd]. split.
    + cbn [concat].
      match goal with |- context [concat (fst ?F)] =>
        replace (concat (fst F)) with (concat (map dumps_spec l) ++ concat ([x5d] :: q)) by (symmetry; exact E1);
        replace (snd F) with (init + blen (concat (map dumps_spec l)))%N by (symmetry; exact E2) end.
      unfold frame.
      replace (init + blen (concat (map dumps_spec l)) - init)%N with (blen (concat (map dumps_spec l))) by lia.
      cbn [concat]. norm_app.
    + match goal with |- context [snd ?F] =>
        replace (snd F) with (init + blen (concat (map dumps_spec l)))%N by (symmetry; exact E2) end.
      replace (init + blen (concat (map dumps_spec l)) - init)%N with (blen (concat (map dumps_spec l))) by lia.
      rewrite blen_frame. unfold init. lia.
  - (* dict *)
    cbn [rdumpq dumps_spec].
    set (init := (size + 1)%N).
    set (step := fun (s : st) (p : tv * tv) =>
                   let s1 := rdumpq (fst s) (snd s) (snd p) in rdumpq (fst s1) (snd s1) (fst p)).
    assert (HF : forall q0 s0,
      concat (fst (@fold_left st (tv * tv) step kv (q0, s0))) = concat (rev (map (enc_pair dumps_spec) kv)) ++ concat q0
      /\ snd (@fold_left st (tv * tv) step kv (q0, s0)) = (s0 + blen (concat (rev (map (enc_pair dumps_spec) kv))))%N).
    { induction H as [|p kv [Hk Hv] _ IHkv]; intros q0 s0; cbn [fold_left map rev].
      - split; [reflexivity | cbn; lia].
      - destruct (Hv q0 s0) as [V1 V2].
        destruct (Hk (fst (rdumpq q0 s0 (snd p))) (snd (rdumpq q0 s0 (snd p)))) as [K1 K2].
        destruct (IHkv (fst (step (q0, s0) p)) (snd (step (q0, s0) p))) as [E1 E2].
        rewrite <- surjective_pairing in E1, E2.
        unfold step at 2 in E1. unfold step at 2 in E2. cbv zeta in E1, E2. cbn [fst snd] in E1, E2.
        rewrite concat_app. cbn [concat]. rewrite app_nil_r. unfold enc_pair at 2 4.
        split.
        + etransitivity; [exact E1|]. unfold step. cbv zeta. cbn [fst snd]. rewrite K1, V1. norm_app.
        + etransitivity; [exact E2|]. unfold step. cbv zeta. cbn [fst snd]. rewrite K2, V2. rewrite !blen_app. lia. }
    destruct (HF ([x7d] :: q) init) as [E1 E2].
    cbn [fst snd]. split.
    + cbn [concat].
      match goal with |- context [concat (fst ?F)] =>
        replace (concat (fst F)) with (concat (rev (map (enc_pair dumps_spec) kv)) ++ concat ([x7d] :: q)) by (symmetry; exact E1);
        replace (snd F) with (init + blen (concat (rev (map (enc_pair dumps_spec) kv))))%N by (symmetry; exact E2) end.
      unfold frame.
      replace (init + blen (concat (rev (map (enc_pair dumps_spec) kv))) - init)%N
        with (blen (concat (rev (map (enc_pair dumps_spec) kv)))) by lia.
      cbn [concat]. norm_app.
    + match goal with |- context [snd ?F] =>
        replace (snd F) with (init + blen (concat (rev (map (enc_pair dumps_spec) kv))))%N by (symmetry; exact E2) end.
      replace (init + blen (concat (rev (map (enc_pair dumps_spec) kv))) - init)%N
        with (blen (concat (rev (map (enc_pair dumps_spec) kv)))) by lia.
      rewrite blen_frame. unfold init. lia.
Qed.

Lemma dumps_is_spec v : dumps v = dumps_spec v.
Proof. unfold dumps. destruct (rdumpq_spec v [] 0%N) as [E _]. rewrite E. cbn [concat]. apply app_nil_r. Qed.

(* ---------- reading one frame back ---------- *)
Lemma find_colon_digits ds rest :
  Forall (fun c => is_digit c = true) ds -> find_colon (ds ++ x3a :: rest) = Some (ds, rest).
Proof.
  induction 1 as [|c ds Hc _ IH]; cbn [app find_colon].
  - reflexivity.
  - now rewrite (digit_not_colon _ Hc), IH.
Qed.

Definition len_ok (p : bytes) : Prop := digits_ok (dec_N (blen p)).

Lemma split_frame p rest : len_ok p ->
  split (dec_N (blen p) ++ x3a :: rest) = Some (Z.of_N (blen p), rest).
Proof.
  intros H. unfold split. rewrite find_colon_digits by apply dec_N_digits.
  rewrite py_int_digits; auto using dec_N_nonempty, dec_N_digits.
  now rewrite digits_val_dec_N.
Qed.

Lemma skipn_len_app (p l : bytes) : skipn (length p) (p ++ l) = l.
Proof. induction p; simpl; auto. Qed.
Lemma firstn_len_app (p l : bytes) : firstn (length p) (p ++ l) = p.
Proof. induction p; simpl; congruence. Qed.
Lemma skipn_S_len_app (p : bytes) c l : skipn (S (length p)) (p ++ c :: l) = l.
Proof. induction p; simpl; auto. Qed.

Lemma pop_slices_frame p ty rest :
  pop_slices (Z.of_N (blen p)) (p ++ ty :: rest) = Some (p, ty, rest).
Proof.
  unfold pop_slices, blen. rewrite nat_N_Z. cbv zeta.
  assert (E0 : (Z.of_nat (length p) <? 0)%Z = false) by (apply Z.ltb_ge; lia).
  rewrite !E0.
  assert (E1 : (Z.of_nat (length (p ++ ty :: rest)) <=? Z.of_nat (length p))%Z = false).
  { apply Z.leb_gt. rewrite app_length. simpl length. lia. }
  rewrite E1.
  assert (E2 : (Z.of_nat (length p) =? -1)%Z = false) by (apply Z.eqb_neq; lia).
  rewrite E2. rewrite Nat2Z.id.
  rewrite skipn_len_app, firstn_len_app, skipn_S_len_app. reflexivity.
Qed.

Lemma frame_nonempty p ty : exists c r, frame p ty = c :: r.
Proof.
  unfold frame. destruct (dec_N (blen p)) as [|c r] eqn:E.
  - exfalso. now apply (dec_N_nonempty (blen p)).
  - exists c, (r ++ x3a :: p ++ [ty]). reflexivity.
Qed.

Lemma dumps_spec_nonempty v : exists c r, dumps_spec v = c :: r.
Proof. rewrite dumps_spec_frame. apply frame_nonempty. Qed.
