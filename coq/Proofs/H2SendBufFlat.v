(* Proofs/H2SendBufFlat.v -- the HTTP/2 send buffer is a queue.  Every stream's traffic is read as one token
   sequence: the bytes of each chunk, followed by an END marker if the chunk carries END_STREAM.  For every sequence
   of send_data / end_stream / WINDOW_UPDATE (stream or connection) operations of any sizes on any streams:
   tokens written ++ tokens still buffered = tokens handed to send_data, per stream.  Hence the DATA payloads written
   are a prefix of the data queued, in order, and END_STREAM is written only after everything queued before it. *)
From Coq Require Import List Bool NArith ZArith Lia.
From MV Require Import Base.Bytes Model.H2SendBuf.
Import ListNotations.
Open Scope Z_scope.

Definition tok := option byte.
Definition flat1 (c : chunk) : list tok := map Some (fst c) ++ (if snd c then [None] else []).
Definition flat (q : list chunk) : list tok := flat_map flat1 q.
Definition bytes_of (q : list chunk) : bytes := flat_map fst q.

Fixpoint frames_of (sid : N) (fs : list frame) : list chunk :=
  match fs with
  | [] => []
  | Frame k d es :: r => if N.eqb sid k then (d, es) :: frames_of sid r else frames_of sid r
  end.

(* the chunks send_data is given for stream sid by one operation (after its own cutting of over-long frames) *)
Definition uchunks (mf : Z) (sid : N) (o : op) : list chunk :=
  match o with
  | OSend k d es =>
      if N.eqb sid k then
        (if (mf <? zlen d) && (0 <? mf) then map (fun p => (p, false)) (pieces (length d) (Z.to_nat mf) d)
         else [(d, es)])
      else []
  | OEnd k => if N.eqb sid k then [([], true)] else []
  | _ => []
  end.

Lemma flat_app a b : flat (a ++ b) = flat a ++ flat b.
Proof. apply flat_map_app. Qed.
Lemma frames_of_app sid a b : frames_of sid (a ++ b) = frames_of sid a ++ frames_of sid b.
Proof. induction a as [|[k d es] a IH]; cbn; auto. destruct (N.eqb sid k); cbn; rewrite IH; auto. Qed.
Lemma frames_of_map sid k (e : list chunk) :
  frames_of sid (map (fun c => Frame k (fst c) (snd c)) e) = if N.eqb sid k then e else [].
Proof.
  induction e as [|[d es] e IH]; cbn; [destruct (N.eqb sid k); auto|].
  rewrite IH. destruct (N.eqb sid k); auto.
Qed.
Lemma flat_split k d es r :
  flat [(firstn k d, false)] ++ flat ((skipn k d, es) :: r) = flat ((d, es) :: r).
Proof.
  unfold flat; cbn [flat_map]; unfold flat1; cbn [fst snd]. rewrite !app_nil_r.
  replace (map Some d) with (map (@Some byte) (firstn k d) ++ map Some (skipn k d))
    by (rewrite <- map_app, firstn_skipn; reflexivity).
  rewrite <- !app_assoc. reflexivity.
Qed.

(* ---- association lists *)
Section Maps.
Context {A : Type}.
Lemma get_update_same k (v v0 : A) m : get k m = Some v0 -> get k (update k v m) = Some v.
Proof.
  induction m as [|[k' v'] m IH]; cbn; [discriminate|].
  destruct (N.eqb k k') eqn:E; cbn; rewrite E; auto.
Qed.
Lemma get_update_none k (v : A) m : get k m = None -> update k v m = m.
Proof.
  induction m as [|[k' v'] m IH]; cbn; auto.
  destruct (N.eqb k k') eqn:E; [discriminate|]. intros H. rewrite IH; auto.
Qed.
Lemma get_update_other k k' (v : A) m : k' <> k -> get k' (update k v m) = get k' m.
Proof.
  intros NE. induction m as [|[k2 v2] m IH]; cbn; auto.
  destruct (N.eqb k k2) eqn:E; cbn.
  - apply N.eqb_eq in E. subst k2. destruct (N.eqb k' k) eqn:E2; auto. apply N.eqb_eq in E2. congruence.
  - rewrite IH. reflexivity.
Qed.
Lemma get_remove_same k (m : smap A) : get k (remove k m) = None.
Proof.
  induction m as [|[k' v'] m IH]; cbn; auto.
  destruct (N.eqb k k') eqn:E; cbn; auto. rewrite E. auto.
Qed.
Lemma get_remove_other k k' (m : smap A) : k' <> k -> get k' (remove k m) = get k' m.
Proof.
  intros NE. unfold remove. induction m as [|[k2 v2] m IH]; cbn; auto.
  destruct (N.eqb k k2) eqn:E; cbn.
  - apply N.eqb_eq in E. subst k2. destruct (N.eqb k' k) eqn:E2; auto. apply N.eqb_eq in E2. congruence.
  - rewrite IH. reflexivity.
Qed.
Lemma get_app k (m m' : smap A) : get k (m ++ m') = match get k m with Some v => Some v | None => get k m' end.
Proof. induction m as [|[k' v'] m IH]; cbn; auto. destruct (N.eqb k k'); auto. Qed.
End Maps.

Lemma get_move_to_end k k' m : get k' (move_to_end k m) = get k' m.
Proof.
  unfold move_to_end. destruct (get k m) as [q|] eqn:G; auto.
  rewrite get_app. destruct (N.eq_dec k' k) as [->|NE].
  - rewrite get_remove_same. cbn. rewrite N.eqb_refl. auto.
  - rewrite get_remove_other by auto. destruct (get k' m); auto. cbn.
    destruct (N.eqb k' k) eqn:E; auto. apply N.eqb_eq in E. congruence.
Qed.

Lemma buf_of_append_same k c m sw cw mf :
  buf_of k (mkSb (append_chunk k c m) sw cw mf) = buf_of k (mkSb m sw cw mf) ++ [c].
Proof.
  unfold buf_of, append_chunk. cbn. destruct (get k m) as [q|] eqn:G.
  - rewrite (get_update_same _ _ _ _ G). auto.
  - rewrite get_app, G. cbn. rewrite N.eqb_refl. auto.
Qed.
Lemma buf_of_append_other k k' c m sw cw mf : k' <> k ->
  buf_of k' (mkSb (append_chunk k c m) sw cw mf) = buf_of k' (mkSb m sw cw mf).
Proof.
  intros NE. unfold buf_of, append_chunk. cbn. destruct (get k m) as [q|] eqn:G.
  - rewrite get_update_other by auto. auto.
  - rewrite get_app. destruct (get k' m); auto. cbn. destruct (N.eqb k' k) eqn:E; auto.
    apply N.eqb_eq in E. congruence.
Qed.

(* the conservation relation for one transition *)
Definition conserves (sid : N) (s s' : sb) (fs : list frame) (user : list chunk) : Prop :=
  flat (frames_of sid fs) ++ flat (buf_of sid s') = flat (buf_of sid s) ++ flat user.

Lemma conserves_trans sid s1 s2 s3 f1 f2 u1 u2 :
  conserves sid s1 s2 f1 u1 -> conserves sid s2 s3 f2 u2 -> conserves sid s1 s3 (f1 ++ f2) (u1 ++ u2).
Proof.
  unfold conserves. intros H1 H2. rewrite frames_of_app, !flat_app, <- !app_assoc, H2, !app_assoc, H1. reflexivity.
Qed.
Lemma conserves_refl sid s : conserves sid s s [] [].
Proof. unfold conserves. cbn. rewrite app_nil_r. reflexivity. Qed.
Lemma conserves_same_bufs sid s s' : bufs s' = bufs s -> conserves sid s s' [] [].
Proof. unfold conserves, buf_of. intros ->. cbn. rewrite app_nil_r. reflexivity. Qed.

Lemma send_one_conserves sid k d es s s' fs :
  send_one k d es s = (s', fs) ->
  conserves sid s s' fs (if N.eqb sid k then [(d, es)] else []) /\ maxf s' = maxf s.
Proof.
  unfold send_one. destruct s as [m sw cw mf].
  assert (APP : forall m0 sw0 cw0 c,
    conserves sid (mkSb m0 sw0 cw0 mf) (mkSb (append_chunk k c m0) sw0 cw0 mf) []
              (if N.eqb sid k then [c] else [])).
  { intros. unfold conserves. cbn [frames_of flat flat_map app].
    destruct (N.eqb sid k) eqn:E.
    - apply N.eqb_eq in E. subst. rewrite buf_of_append_same, flat_app. reflexivity.
    - apply N.eqb_neq in E. rewrite buf_of_append_other by auto. cbn. rewrite app_nil_r. reflexivity. }
  cbn [bufs].
  destruct (get k m) as [[|c0 q0]|] eqn:G.
  - (* key present with an empty buffer: treated as not buffered *)
    set (aw := local_flow_control_window k (mkSb m sw cw mf)).
    destruct (zlen d <=? aw).
    + unfold super_send. intros H; inversion H; subst; clear H. split; [|reflexivity].
      unfold conserves, buf_of. cbn. destruct (N.eqb sid k) eqn:E; cbn; rewrite ?app_nil_r.
      * apply N.eqb_eq in E. subst. rewrite G. cbn. rewrite ?app_nil_r. reflexivity.
      * reflexivity.
    + destruct (0 <? aw); unfold super_send, set_bufs; cbn; intros H; inversion H; subst; clear H; (split; [|reflexivity]).
      * unfold conserves. cbn [frames_of]. destruct (N.eqb sid k) eqn:E.
        -- apply N.eqb_eq in E. subst. rewrite buf_of_append_same. unfold buf_of at 1 2. cbn [bufs]. rewrite G.
           cbn [app]. apply (flat_split (Z.to_nat aw) d es []).
        -- apply N.eqb_neq in E. rewrite buf_of_append_other by auto. unfold buf_of. cbn. rewrite app_nil_r. reflexivity.
      * apply APP.
  - unfold set_bufs. cbn. intros H; inversion H; subst; clear H. split; [|reflexivity]. apply APP.
  - set (aw := local_flow_control_window k (mkSb m sw cw mf)).
    destruct (zlen d <=? aw).
    + unfold super_send. intros H; inversion H; subst; clear H. split; [|reflexivity].
      unfold conserves, buf_of. cbn. destruct (N.eqb sid k) eqn:E; cbn; rewrite ?app_nil_r.
      * apply N.eqb_eq in E. subst. rewrite G. cbn. rewrite ?app_nil_r. reflexivity.
      * reflexivity.
    + destruct (0 <? aw); unfold super_send, set_bufs; cbn; intros H; inversion H; subst; clear H; (split; [|reflexivity]).
      * unfold conserves. cbn [frames_of]. destruct (N.eqb sid k) eqn:E.
        -- apply N.eqb_eq in E. subst. rewrite buf_of_append_same. unfold buf_of at 1 2. cbn [bufs]. rewrite G.
           cbn [app]. apply (flat_split (Z.to_nat aw) d es []).
        -- apply N.eqb_neq in E. rewrite buf_of_append_other by auto. unfold buf_of. cbn. rewrite app_nil_r. reflexivity.
      * apply APP.
Qed.

Lemma send_all_conserves sid k ds : forall s s' fs,
  send_all k ds s = (s', fs) ->
  conserves sid s s' fs (if N.eqb sid k then map (fun p => (p, false)) ds else []) /\ maxf s' = maxf s.
Proof.
  induction ds as [|d r IH]; intros s s' fs H.
  - cbn in H. inversion H; subst. split; auto. destruct (N.eqb sid k); apply conserves_refl.
  - cbn in H. destruct (send_one k d false s) as [s1 f1] eqn:E1. destruct (send_all k r s1) as [s2 f2] eqn:E2.
    inversion H; subst; clear H.
    destruct (send_one_conserves sid _ _ _ _ _ _ E1) as (C1 & M1). destruct (IH _ _ _ E2) as (C2 & M2).
    split; [|congruence].
    pose proof (conserves_trans _ _ _ _ _ _ _ _ C1 C2) as C. destruct (N.eqb sid k); exact C.
Qed.

Lemma send_data_conserves sid k d es s s' fs :
  send_data k d es s = (s', fs) -> conserves sid s s' fs (uchunks (maxf s) sid (OSend k d es)) /\ maxf s' = maxf s.
Proof.
  unfold send_data, uchunks. destruct ((maxf s <? zlen d) && (0 <? maxf s)).
  - intros H. exact (send_all_conserves sid _ _ _ _ _ H).
  - apply send_one_conserves.
Qed.

Lemma drain_flat : forall q aw e rest, drain aw q = (e, rest) -> flat e ++ flat rest = flat q.
Proof.
  induction q as [|[d es] r IH]; intros aw e rest H; cbn in H.
  - inversion H; subst. reflexivity.
  - destruct (aw <=? 0); [inversion H; subst; reflexivity|].
    destruct (aw <? zlen d).
    + inversion H; subst. apply flat_split.
    + destruct (drain (aw - zlen d) r) as [e1 rest1] eqn:E. inversion H; subst.
      specialize (IH _ _ _ E). change (flat ((d, es) :: e1)) with (flat1 (d, es) ++ flat e1).
      change (flat ((d, es) :: r)) with (flat1 (d, es) ++ flat r). rewrite <- app_assoc, IH. reflexivity.
Qed.

Lemma swu_conserves sid k s s' fs b :
  stream_window_updated k s = (s', fs, b) -> conserves sid s s' fs [] /\ maxf s' = maxf s.
Proof.
  unfold stream_window_updated. destruct (get k (bufs s)) as [q|] eqn:G.
  2:{ intros H; inversion H; subst. split; auto. apply conserves_refl. }
  destruct (drain (local_flow_control_window k s) q) as [e rest] eqn:D.
  destruct e as [|c e].
  { intros H; inversion H; subst. split; auto. apply conserves_refl. }
  intros H; inversion H; subst; clear H. split; [|reflexivity].
  pose proof (drain_flat _ _ _ _ D) as F.
  unfold conserves. pose proof (frames_of_map sid k (c :: e)) as FM. cbn [map] in FM. cbn [map]. rewrite FM. rewrite app_nil_r.
  destruct (N.eqb sid k) eqn:E.
  - apply N.eqb_eq in E. subst sid. unfold buf_of at 2. rewrite G. rewrite <- F. f_equal.
    unfold buf_of. cbn [bufs]. destruct rest.
    + rewrite get_remove_same. reflexivity.
    + rewrite (get_update_same _ _ _ _ G). reflexivity.
  - apply N.eqb_neq in E. cbn [flat flat_map app]. unfold buf_of. cbn [bufs]. destruct rest.
    + rewrite get_remove_other by auto. reflexivity.
    + rewrite get_update_other by auto. reflexivity.
Qed.

Lemma move_conserves sid k s : conserves sid s (set_bufs s (move_to_end k (bufs s))) [] [].
Proof.
  unfold conserves, buf_of, set_bufs. cbn. rewrite get_move_to_end, app_nil_r. reflexivity.
Qed.

Lemma cwu_pass_conserves sid keys : forall s s' fs b r,
  cwu_pass keys s = (s', fs, b, r) -> conserves sid s s' fs [] /\ maxf s' = maxf s.
Proof.
  induction keys as [|k keys IH]; intros s s' fs b r H; cbn in H.
  - inversion H; subst. split; auto. apply conserves_refl.
  - destruct (stream_window_updated k (set_bufs s (move_to_end k (bufs s)))) as [[s1 f1] sent] eqn:E1.
    destruct (swu_conserves sid _ _ _ _ _ E1) as (C1 & M1).
    pose proof (conserves_trans _ _ _ _ _ _ _ _ (move_conserves sid k s) C1) as C01. cbn [app] in C01.
    destruct (sent && (cwin s1 =? 0)).
    + inversion H; subst. split; auto.
    + destruct (cwu_pass keys s1) as [[[s2 f2] sent2] ret] eqn:E2. inversion H; subst.
      destruct (IH _ _ _ _ _ E2) as (C2 & M2). split; [|rewrite M2; exact M1].
      exact (conserves_trans _ _ _ _ _ _ _ _ C01 C2).
Qed.

Lemma cwu_conserves sid fuel : forall s s' fs,
  connection_window_updated fuel s = Some (s', fs) -> conserves sid s s' fs [] /\ maxf s' = maxf s.
Proof.
  induction fuel as [|f IH]; intros s s' fs H; cbn in H; [discriminate|].
  destruct (cwu_pass (map fst (bufs s)) s) as [[[s1 f1] sent] ret] eqn:E1.
  destruct (cwu_pass_conserves sid _ _ _ _ _ _ E1) as (C1 & M1).
  destruct (ret || negb sent).
  - inversion H; subst. auto.
  - destruct (connection_window_updated f s1) as [[s2 f2]|] eqn:E2; [|discriminate]. inversion H; subst.
    destruct (IH _ _ _ E2) as (C2 & M2). split; [|congruence].
    exact (conserves_trans _ _ _ _ _ _ _ _ C1 C2).
Qed.

Lemma apply_op_conserves sid o s s' fs :
  apply_op o s = Some (s', fs) -> conserves sid s s' fs (uchunks (maxf s) sid o) /\ maxf s' = maxf s.
Proof.
  destruct o as [k d es|k|k n|n]; cbn [apply_op].
  - intros H; inversion H as [H1]. apply send_data_conserves; auto.
  - intros H; inversion H as [H1]. pose proof (send_data_conserves sid _ _ _ _ _ _ H1) as (C & M). split; auto.
    assert (X : (maxf s <? 0) && (0 <? maxf s) = false)
      by (destruct (maxf s <? 0) eqn:A; destruct (0 <? maxf s) eqn:B; auto; apply Z.ltb_lt in A; apply Z.ltb_lt in B; lia).
    unfold uchunks in *. change (zlen []) with 0 in C. rewrite X in C. exact C.
  - destruct (stream_window_updated k _) as [[s2 f] b] eqn:E. intros H; inversion H; subst.
    destruct (swu_conserves sid _ _ _ _ _ E) as (C & M). cbn in M. split; [exact C|exact M].
  - intros H. destruct (cwu_conserves sid _ _ _ _ H) as (C & M). cbn in M. split; [exact C|exact M].
Qed.

(* ---- the theorem: for every sequence of operations, every stream *)
Theorem send_buffer_is_a_queue (ops : list op) : forall (s s' : sb) (fss : list (list frame)) (sid : N),
  run_ops ops s = Some (s', fss) ->
  flat (frames_of sid (concat fss)) ++ flat (buf_of sid s')
  = flat (buf_of sid s) ++ flat (flat_map (uchunks (maxf s) sid) ops).
Proof.
  induction ops as [|o r IH]; intros s s' fss sid H; cbn in H.
  - inversion H; subst. cbn. rewrite app_nil_r. reflexivity.
  - destruct (apply_op o s) as [[s1 f1]|] eqn:E1; [|discriminate].
    destruct (run_ops r s1) as [[s2 fs]|] eqn:E2; [|discriminate]. inversion H; subst.
    destruct (apply_op_conserves sid _ _ _ _ E1) as (C1 & M1).
    specialize (IH _ _ _ sid E2). rewrite M1 in IH.
    cbn [concat flat_map]. rewrite frames_of_app, !flat_app, <- !app_assoc, IH, !app_assoc.
    unfold conserves in C1. rewrite C1. reflexivity.
Qed.

(* ---- corollaries in terms of bytes *)
Fixpoint strip (l : list tok) : bytes :=
  match l with [] => [] | Some b :: r => b :: strip r | None :: r => strip r end.
Lemma strip_app a b : strip (a ++ b) = strip a ++ strip b.
Proof. induction a as [|[x|] a IH]; cbn; rewrite ?IH; auto. Qed.
Lemma strip_map_some d : strip (map Some d) = d.
Proof. induction d; cbn; congruence. Qed.
Lemma strip_flat q : strip (flat q) = bytes_of q.
Proof.
  induction q as [|[d es] q IH]; [reflexivity|].
  change (flat ((d, es) :: q)) with (flat1 (d, es) ++ flat q).
  change (bytes_of ((d, es) :: q)) with (d ++ bytes_of q).
  unfold flat1; cbn [fst snd]. rewrite !strip_app, strip_map_some, IH. destruct es; cbn; rewrite ?app_nil_r; reflexivity.
Qed.

(* the payloads written for a stream are a prefix of the data queued for it: what is missing is exactly what is buffered *)
Theorem written_is_prefix_of_queued (ops : list op) (sids : list N) (w0 c0 mf : Z) s' fss sid :
  run_ops ops (init_sb sids w0 c0 mf) = Some (s', fss) ->
  bytes_of (frames_of sid (concat fss)) ++ bytes_of (buf_of sid s')
  = bytes_of (flat_map (uchunks mf sid) ops).
Proof.
  intros H. pose proof (send_buffer_is_a_queue ops _ _ _ sid H) as Q.
  apply (f_equal strip) in Q. rewrite !strip_app, !strip_flat in Q. exact Q.
Qed.

Lemma pieces_concat fuel m d : (length d <= fuel)%nat -> (0 < m)%nat -> concat (pieces fuel m d) = d.
Proof.
  revert d. induction fuel as [|f IH]; intros d L M.
  - destruct d; [reflexivity|cbn in L; lia].
  - cbn. destruct d as [|b r]; [reflexivity|]. cbn [concat]. rewrite IH; [apply firstn_skipn| |auto].
    rewrite skipn_length. cbn [length] in *. lia.
Qed.
(* cutting an over-long frame does not change the bytes queued *)
Lemma uchunks_send_bytes mf k d es : bytes_of (uchunks mf k (OSend k d es)) = d.
Proof.
  unfold uchunks. rewrite N.eqb_refl. destruct ((mf <? zlen d) && (0 <? mf)) eqn:E.
  - apply andb_true_iff in E. destruct E as [_ E]. apply Z.ltb_lt in E.
    unfold bytes_of. rewrite flat_map_concat_map, map_map. cbn [fst]. rewrite map_id.
    apply pieces_concat; [lia|]. lia.
  - cbn. apply app_nil_r.
Qed.

(* END_STREAM last: if the END marker is the last thing queued for the stream and a frame carrying END_STREAM has
   been written, then every byte queued has been written before it and nothing is left in the buffer *)
Lemma none_last (l1 l2 m : list tok) :
  l1 ++ l2 = m ++ [None] -> ~ In None m -> In None l1 -> l2 = [] /\ l1 = m ++ [None].
Proof.
  revert l1 l2. induction m as [|x m IH]; intros l1 l2 H NI HI.
  - destruct l1 as [|y l1]; [destruct HI|]. cbn in H. inversion H; subst.
    destruct l1; [|discriminate]. destruct l2; [|discriminate]. auto.
  - destruct l1 as [|y l1]; [destruct HI|]. cbn in H. inversion H; subst.
    destruct HI as [HI|HI]; [subst; exfalso; apply NI; left; auto|].
    destruct (IH l1 l2 H2) as (A & B); auto. { intros X; apply NI; right; auto. }
    subst. auto.
Qed.
Lemma in_none_flat q : In None (flat q) <-> exists d, In (d, true) q.
Proof.
  induction q as [|[d es] q IH]; cbn.
  - split; [tauto|intros (d & []) ].
  - unfold flat1 at 1. cbn [fst snd]. rewrite !in_app_iff, IH. split.
    + intros [[H|H]|(d' & H)].
      * apply in_map_iff in H. destruct H as (x & X & _). discriminate.
      * destruct es; [exists d; auto|destruct H].
      * exists d'; auto.
    + intros (d' & [H|H]).
      * inversion H; subst. left; right; left; auto.
      * right. exists d'; auto.
Qed.

Theorem end_stream_is_last (ops : list op) (sids : list N) (w0 c0 mf : Z) s' fss sid (body : bytes) :
  run_ops ops (init_sb sids w0 c0 mf) = Some (s', fss) ->
  flat (flat_map (uchunks mf sid) ops) = map Some body ++ [None] ->
  (exists d, In (d, true) (frames_of sid (concat fss))) ->
  bytes_of (frames_of sid (concat fss)) = body /\ flat (buf_of sid s') = []
  /\ flat (frames_of sid (concat fss)) = map Some body ++ [None].
Proof.
  intros H U E. pose proof (send_buffer_is_a_queue ops _ _ _ sid H) as Q. cbn in Q. rewrite U in Q.
  apply in_none_flat in E.
  destruct (none_last _ _ _ Q) as (A & B); auto.
  { intros X. apply in_map_iff in X. destruct X as (x & X & _). discriminate. }
  split; [|split; auto].
  rewrite <- strip_flat, B, strip_app, strip_map_some. cbn. apply app_nil_r.
Qed.

Lemma h2_example :
  exists s fss,
    run_ops [OSend 1 [x61; x62; x63; x64; x65; x66; x67; x68] false; OSend 1 [x58; x59] false; OEnd 1;
             OWinS 1 3; OWinS 1 3; OWinS 1 9] (init_sb [1%N] 4 65535 16384) = Some (s, fss)
    /\ fss = [[Frame 1 [x61; x62; x63; x64] false]; []; []; [Frame 1 [x65; x66; x67] false];
              [Frame 1 [x68] false; Frame 1 [x58; x59] false]; [Frame 1 [] true]]
    /\ bufs s = [].
Proof. eexists; eexists. split; [vm_compute; reflexivity|]. split; reflexivity. Qed.
