(* Proofs/ConnHandlerBase.v -- list/update lemmas and the frame relation: what server_event,
   drain_writers, cancel and cancel_all may change (flags, connection state bits, a pending
   semaphore waiter becoming a cancelled one, new connections appended) and what they never
   change (program counters otherwise, transports entries, writers, semaphores, hook events). *)
From Coq Require Import List Bool Arith Lia.
From MV Require Import Model.ConnHandler.
Import ListNotations.

Lemma upd_length : forall A (l : list A) n x, length (upd l n x) = length l.
Proof. induction l; destruct n; simpl; intros; auto. Qed.

Lemma nth_upd_same : forall A (l : list A) n x d, n < length l -> nth n (upd l n x) d = x.
Proof. induction l; destruct n; simpl; intros; try lia; auto. apply IHl; lia. Qed.

Lemma nth_upd_other : forall A (l : list A) n m x d, n <> m -> nth m (upd l n x) d = nth m l d.
Proof. induction l; destruct n, m; simpl; intros; try congruence; auto. Qed.

Lemma upd_oob : forall A (l : list A) n x, length l <= n -> upd l n x = l.
Proof. induction l; destruct n; simpl; intros; auto; try lia. f_equal. apply IHl. lia. Qed.

Lemma getc_setc_same : forall s c x, c < length (conns s) -> getc (setc s c x) c = x.
Proof. intros. unfold getc, setc. simpl. apply nth_upd_same; auto. Qed.

Lemma getc_setc_other : forall s c c' x, c <> c' -> getc (setc s c x) c' = getc s c'.
Proof. intros. unfold getc, setc. simpl. apply nth_upd_other; auto. Qed.

Lemma len_setc : forall s c x, length (conns (setc s c x)) = length (conns s).
Proof. intros. unfold setc. simpl. apply upd_length. Qed.

Lemma getc_oob : forall s c, length (conns s) <= c -> getc s c = dconn.
Proof. intros. unfold getc. apply nth_overflow. auto. Qed.

(* ---------------------------------------------------------------- soft changes *)
Definition psoft (x y : conn) : Prop :=
  c_addr y = c_addr x /\
  (c_pc y = c_pc x \/ (c_pc x = PSem WPending /\ c_pc y = PSem WCancelled) \/
   (c_pc x = PDrainLock WPending /\ c_pc y = PDrainLock WCancelled)) /\
  c_task y = c_task x /\ c_entry y = c_entry x /\ c_writer y = c_writer x.

Lemma psoft_refl : forall x, psoft x x.
Proof. unfold psoft; intuition. Qed.

Lemma psoft_trans : forall x y z, psoft x y -> psoft y z -> psoft x z.
Proof.
  unfold psoft; intros x y z (A1 & P1 & T1 & E1 & W1) (A2 & P2 & T2 & E2 & W2).
  repeat split; try congruence.
  destruct P1 as [P1 | [[P1 P1'] | [P1 P1']]], P2 as [P2 | [[P2 P2'] | [P2 P2']]];
    try (left; congruence); try (right; left; split; congruence); try (right; right; split; congruence).
Qed.

Definition isnew (y : conn) : Prop := exists a, psoft (new_conn a) y.

Inductive lrel : list conn -> list conn -> Prop :=
| lrel_nil : forall news, Forall isnew news -> lrel [] news
| lrel_cons : forall x y l l', psoft x y -> lrel l l' -> lrel (x :: l) (y :: l').

Lemma lrel_refl : forall l, lrel l l.
Proof. induction l; constructor; auto using psoft_refl. Qed.

Lemma isnew_soft : forall y z, isnew y -> psoft y z -> isnew z.
Proof. intros y z [a H] H2. exists a. eapply psoft_trans; eauto. Qed.

Lemma lrel_trans : forall a b, lrel a b -> forall c, lrel b c -> lrel a c.
Proof.
  induction 1; intros c Hc.
  - constructor. revert c Hc. induction H; intros c Hc; inversion Hc; subst.
    + auto.
    + constructor. eapply isnew_soft; eauto. apply IHForall; auto.
  - inversion Hc; subst. constructor. eapply psoft_trans; eauto. apply IHlrel; auto.
Qed.

Lemma lrel_length : forall a b, lrel a b -> length a <= length b.
Proof. induction 1; simpl; lia. Qed.

Lemma lrel_nth : forall a b, lrel a b -> forall c, c < length a -> psoft (nth c a dconn) (nth c b dconn).
Proof. induction 1; simpl; intros; try lia. destruct c; auto. apply IHlrel. lia. Qed.

Lemma lrel_nth_new : forall a b, lrel a b -> forall c, length a <= c -> c < length b -> isnew (nth c b dconn).
Proof.
  induction 1; simpl; intros.
  - clear H0. revert c H1. induction H; simpl; intros; try lia. destruct c; auto. apply IHForall. lia.
  - destruct c; try lia. apply IHlrel; lia.
Qed.

Lemma lrel_upd : forall l c x, psoft (nth c l dconn) x -> lrel l (upd l c x).
Proof.
  induction l; simpl; intros.
  - constructor. constructor.
  - destruct c; constructor; auto using psoft_refl, lrel_refl.
Qed.

Lemma lrel_app_new : forall l a, lrel l (l ++ [new_conn a]).
Proof.
  induction l; simpl; intros.
  - constructor. constructor; auto. exists a. apply psoft_refl.
  - constructor; auto using psoft_refl.
Qed.

(* ---------------------------------------------------------------- frame *)
Definition nohook (e : ev) : bool := match e with EHook _ _ => false | _ => true end.

Record frame (s s' : st) : Prop := mkFrame {
  f_conns : lrel (conns s) (conns s');
  f_main : mainpc s' = mainpc s;
  f_mwk : mwk s' = mwk s;
  f_cerr : client_err s' = client_err s;
  f_semval : semval s' = semval s;
  f_semq : semq s' = semq s;
  f_td : teardown_n s' = teardown_n s;
  f_trace : exists evs, trace s' = evs ++ trace s /\ forallb nohook evs = true }.

Lemma frame_refl : forall s, frame s s.
Proof. intros. constructor; auto using lrel_refl. exists []. auto. Qed.

Lemma frame_trans : forall a b c, frame a b -> frame b c -> frame a c.
Proof.
  intros a b c [] []. constructor; try congruence.
  - eapply lrel_trans; eauto.
  - destruct f_trace0 as (e1 & T1 & N1), f_trace1 as (e2 & T2 & N2).
    exists (e2 ++ e1). rewrite T2, T1, app_assoc. split; auto. rewrite forallb_app, N1, N2. auto.
Qed.

Lemma frame_emit : forall s e, nohook e = true -> frame s (emit s e).
Proof. intros. constructor; simpl; auto using lrel_refl. exists [e]. simpl. rewrite H. auto. Qed.

Lemma frame_setc : forall s c x, psoft (getc s c) x -> frame s (setc s c x).
Proof. intros. constructor; simpl; auto. apply lrel_upd; auto. exists []. auto. Qed.

Lemma psoft_cancel : forall x, psoft x (cancel_conn x).
Proof.
  intros. unfold cancel_conn. destruct (is_done (c_pc x)); [apply psoft_refl|].
  unfold psoft; simpl. repeat split; auto. destruct (c_pc x); auto; destruct w; auto.
Qed.

Lemma frame_cancel : forall s c, frame s (cancel s c).
Proof. intros. apply frame_setc. apply psoft_cancel. Qed.

Lemma psoft_state : forall x rd wr, psoft x (with_state x rd wr).
Proof. intros. unfold psoft; simpl; intuition. Qed.

Lemma frame_close_connection : forall s c h, frame s (fst (close_connection s c h)).
Proof.
  intros. unfold close_connection.
  assert (A : forall s1, frame s s1 ->
     frame s (fst (let y := getc s1 c in if negb (c_rd y) && negb (c_wr y)
                   then if c_task y then (cancel s1 c, true) else (s1, false) else (s1, true)))).
  { intros s1 F. simpl. destruct (negb _ && negb _); simpl; auto. destruct (c_task _); simpl; auto.
    eapply frame_trans; eauto using frame_cancel. }
  destruct h.
  - destruct (negb (c_wr (getc s c))); simpl; [apply frame_refl|].
    destruct (c_writer (getc s c)); simpl; [apply frame_refl| |].
    + destruct (c_broken (getc s c)); apply A.
      * apply frame_setc, psoft_state.
      * eapply frame_trans. apply frame_emit with (e := EEof c); auto. apply frame_setc.
        unfold psoft; simpl; intuition.
    + apply A. apply frame_setc, psoft_state.
  - apply A. apply frame_setc, psoft_state.
Qed.

Lemma frame_do_cmd : forall s k, frame s (fst (do_cmd s k)).
Proof.
  intros. destruct k; unfold do_cmd.
  - cbn [fst]. constructor; simpl; auto. apply lrel_app_new. exists []; auto.
  - destruct (negb (c <? length (conns s))); cbn [fst]; [apply frame_refl|].
    destruct (negb (c_entry (getc s c))); cbn [fst]; [apply frame_refl|]. apply frame_close_connection.
  - destruct (negb (c <? length (conns s))); cbn [fst]; [apply frame_refl|].
    destruct (negb (c_entry (getc s c))); cbn [fst]; [apply frame_refl|]. apply frame_close_connection.
  - destruct (negb (c <? length (conns s))); cbn [fst]; [apply frame_refl|].
    destruct (negb (c_entry (getc s c))); cbn [fst]; [apply frame_refl|].
    destruct (c_writer (getc s c)); cbn [fst]; try apply frame_refl. apply frame_emit; auto.
  - cbn [fst]. constructor; simpl; auto using lrel_refl. exists []; auto.
  - cbn [fst]. apply frame_refl.
Qed.

Lemma frame_do_cmds : forall ks s, frame s (do_cmds s ks).
Proof.
  induction ks; simpl; intros; [apply frame_refl|].
  pose proof (frame_do_cmd s a) as F. destruct (do_cmd s a) as [s' b]; simpl in F. destruct b.
  - eapply frame_trans; eauto.
  - eapply frame_trans; eauto. apply frame_emit; auto.
Qed.

Lemma frame_server_event : forall s e, frame s (server_event s e).
Proof.
  intros. unfold server_event.
  assert (F1 : frame s (emit s (ELayer e))) by (apply frame_emit; auto).
  destruct (script (emit s (ELayer e))) eqn:E; auto.
  eapply frame_trans; [|apply frame_do_cmds].
  eapply frame_trans; [exact F1|]. constructor; simpl; auto using lrel_refl. exists []; auto.
Qed.

Lemma frame_set_lock : forall s b q, frame s (set_lock s b q).
Proof. intros. constructor; simpl; auto using lrel_refl. exists []; auto. Qed.

Lemma frame_drain_error : forall s d, frame s (drain_error s d).
Proof. intros. unfold drain_error. destruct (c_task (getc s d)); auto using frame_refl, frame_cancel. Qed.

Lemma frame_cancel_all : forall n s i, frame s (cancel_all s n i).
Proof.
  induction n; simpl; intros; [apply frame_refl|].
  eapply frame_trans; [|apply IHn].
  destruct (_ && _); auto using frame_refl, frame_cancel.
Qed.

(* consequences used everywhere *)
Lemma frame_len : forall s s', frame s s' -> length (conns s) <= length (conns s').
Proof. intros s s' []. apply lrel_length; auto. Qed.

Lemma frame_getc : forall s s' c, frame s s' -> c < length (conns s) -> psoft (getc s c) (getc s' c).
Proof. intros s s' c [] L. unfold getc. apply lrel_nth; auto. Qed.

Lemma frame_getc_new : forall s s' c, frame s s' -> length (conns s) <= c -> c < length (conns s') -> isnew (getc s' c).
Proof. intros s s' c [] L1 L2. unfold getc. eapply lrel_nth_new; eauto. Qed.
