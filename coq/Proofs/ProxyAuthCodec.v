(* Proofs/ProxyAuthCodec.v -- round-trip lemmas for the codecs of Model/ProxyAuth.v:
   decode(encode s) = s for UTF-8 with any error handler, a2b_base64 (b64encode x) = x, and the
   behaviour of str.split() / split(COLON[,1]) on well-formed credentials. *)
From Coq Require Import ZArith NArith List Bool Lia ZifyBool.
From MV Require Import Base.Bytes Model.ProxyAuth.
Import ListNotations.
Local Open Scope N_scope.
Ltac Zify.zify_post_hook ::= Z.to_euclidean_division_equations.

Ltac ltb_f t := let E := fresh "E" in assert (E : t = false) by (apply N.ltb_ge; lia); rewrite E; clear E.
Ltac ltb_t t := let E := fresh "E" in assert (E : t = true) by (apply N.ltb_lt; lia); rewrite E; clear E.

(* ---------------------------------------------------------------- utf-8: one-sequence unfoldings *)
Lemma dec1 h b r : bN b < 128 -> decode_with h (b :: r) = bN b :: decode_with h r.
Proof. intros H. cbn [decode_with]. ltb_t (bN b <? 128). reflexivity. Qed.

Lemma dec2 h b0 b1 r : 194 <= bN b0 -> bN b0 < 224 -> is_cont b1 = true ->
  decode_with h (b0 :: b1 :: r) = cp2 b0 b1 :: decode_with h r.
Proof.
  intros H1 H2 H3. cbn [decode_with].
  ltb_f (bN b0 <? 128). ltb_f (bN b0 <? 194). ltb_t (bN b0 <? 224). rewrite H3. reflexivity.
Qed.

Lemma dec3 h b0 b1 b2 r : 224 <= bN b0 -> bN b0 < 240 -> second_ok b0 b1 = true -> is_cont b2 = true ->
  decode_with h (b0 :: b1 :: b2 :: r) = cp3 b0 b1 b2 :: decode_with h r.
Proof.
  intros H1 H2 H3 H4. cbn [decode_with].
  ltb_f (bN b0 <? 128). ltb_f (bN b0 <? 194). ltb_f (bN b0 <? 224). ltb_t (bN b0 <? 240).
  rewrite H3, H4. reflexivity.
Qed.

Lemma dec4 h b0 b1 b2 b3 r : 240 <= bN b0 -> bN b0 < 245 -> second_ok b0 b1 = true ->
  is_cont b2 = true -> is_cont b3 = true ->
  decode_with h (b0 :: b1 :: b2 :: b3 :: r) = cp4 b0 b1 b2 b3 :: decode_with h r.
Proof.
  intros H1 H2 H3 H4 H5. cbn [decode_with].
  ltb_f (bN b0 <? 128). ltb_f (bN b0 <? 194). ltb_f (bN b0 <? 224). ltb_f (bN b0 <? 240). ltb_t (bN b0 <? 245).
  rewrite H3, H4, H5. reflexivity.
Qed.

Lemma is_cont_Nb n : 128 <= n -> n <= 191 -> is_cont (Nb n) = true.
Proof.
  intros H1 H2. unfold is_cont. rewrite bN_Nb by lia.
  apply andb_true_intro; split; apply N.leb_le; lia.
Qed.

Lemma second_ok_Nb n0 n1 : n0 < 256 -> 128 <= n1 -> n1 <= 191 ->
  (n0 = 224 -> 160 <= n1) -> (n0 = 237 -> n1 < 160) -> (n0 = 240 -> 144 <= n1) -> (n0 = 244 -> n1 < 144) ->
  second_ok (Nb n0) (Nb n1) = true.
Proof.
  intros H0 H1 H2 A B C D. unfold second_ok. rewrite is_cont_Nb by lia. rewrite !bN_Nb by lia. cbn [andb].
  destruct (N.eqb_spec n0 224). { apply N.leb_le; auto. }
  destruct (N.eqb_spec n0 237). { apply N.ltb_lt; auto. }
  destruct (N.eqb_spec n0 240). { apply N.leb_le; auto. }
  destruct (N.eqb_spec n0 244). { apply N.ltb_lt; auto. }
  reflexivity.
Qed.

Lemma Some_inj {A} (x y : A) : Some x = Some y -> x = y.
Proof. congruence. Qed.

(* a code point that str.encode accepts decodes back to itself, whatever follows and whatever the handler *)
Lemma dec_enc_cp h c a r : encode_cp c = Some a -> decode_with h (a ++ r) = c :: decode_with h r.
Proof.
  unfold encode_cp. intros H.
  destruct (N.ltb_spec c 128) as [L1|L1].
  { apply Some_inj in H; subst a. cbv [app].
    rewrite dec1 by (rewrite bN_Nb by lia; lia). rewrite bN_Nb by lia. reflexivity. }
  destruct (N.ltb_spec c 2048) as [L2|L2].
  { apply Some_inj in H; subst a. cbv [app].
    rewrite dec2; [ | rewrite bN_Nb by lia; lia | rewrite bN_Nb by lia; lia | apply is_cont_Nb; lia ].
    unfold cp2. rewrite !bN_Nb by lia. f_equal. lia. }
  destruct (N.ltb_spec c 65536) as [L3|L3].
  { destruct (N.leb_spec 55296 c) as [S1|S1]; destruct (N.ltb_spec c 57344) as [S2|S2];
      cbn [andb] in H; try discriminate; apply Some_inj in H; subst a; cbv [app].
    all: rewrite dec3;
      [ | rewrite bN_Nb by lia; lia | rewrite bN_Nb by lia; lia
        | apply second_ok_Nb; lia | apply is_cont_Nb; lia ].
    all: unfold cp3; rewrite !bN_Nb by lia; f_equal; lia. }
  destruct (N.ltb_spec c 1114112) as [L4|L4]; [|discriminate].
  apply Some_inj in H; subst a. cbv [app].
  rewrite dec4;
    [ | rewrite bN_Nb by lia; lia | rewrite bN_Nb by lia; lia
      | apply second_ok_Nb; lia | apply is_cont_Nb; lia | apply is_cont_Nb; lia ].
  unfold cp4. rewrite !bN_Nb by lia. f_equal. lia.
Qed.

Lemma dec_enc h : forall s raw, encode_strict s = Some raw -> decode_with h raw = s.
Proof.
  induction s as [|c s IH]; cbn [encode_strict]; intros raw H.
  - inversion H. reflexivity.
  - destruct (encode_cp c) eqn:E; [|discriminate].
    destruct (encode_strict s) eqn:E2; [|discriminate].
    inversion H; subst raw. rewrite (dec_enc_cp h _ _ _ E). f_equal. apply IH. reflexivity.
Qed.

Definition all_ascii (s : bytes) : bool := forallb (fun b => bN b <? 128) s.

Lemma dec_ascii h : forall s, all_ascii s = true -> decode_with h s = ascii s.
Proof.
  induction s as [|b s IH]; intros H; [reflexivity|].
  cbn [all_ascii forallb] in H. apply andb_prop in H. destruct H as [Hb Hs].
  apply N.ltb_lt in Hb. rewrite dec1 by exact Hb. cbn [ascii map]. f_equal. apply IH, Hs.
Qed.

Lemma enc_ascii : forall s, all_ascii s = true -> encode_strict (ascii s) = Some s.
Proof.
  induction s as [|b s IH]; intros H; [reflexivity|].
  cbn [all_ascii forallb] in H. apply andb_prop in H. destruct H as [Hb Hs].
  cbn [ascii map encode_strict]. fold (ascii s). rewrite (IH Hs).
  unfold encode_cp. rewrite Hb. rewrite Nb_bN. reflexivity.
Qed.

Lemma all_ascii_app a b : all_ascii (a ++ b) = all_ascii a && all_ascii b.
Proof. unfold all_ascii. apply forallb_app. Qed.

(* ---------------------------------------------------------------- base64 *)
Definition sextets : list N := map N.of_nat (seq 0 64).
Definition chk_sextet (v : N) : bool :=
  negb (bN (b64chr v) =? 61) && option_eqb N.eqb (b64val (b64chr v)) (Some v)
  && (bN (b64chr v) <? 128) && negb (is_space (bN (b64chr v))).
Lemma sextets_ok : forallb chk_sextet sextets = true.
Proof. vm_compute. reflexivity. Qed.

Lemma b64_tab v : v < 64 ->
  (bN (b64chr v) =? 61) = false /\ b64val (b64chr v) = Some v
  /\ (bN (b64chr v) <? 128) = true /\ is_space (bN (b64chr v)) = false.
Proof.
  intros H. pose proof sextets_ok as A. rewrite forallb_forall in A.
  assert (I : In v sextets).
  { unfold sextets. replace v with (N.of_nat (N.to_nat v)) by apply N2Nat.id.
    apply in_map, in_seq. lia. }
  specialize (A v I). unfold chk_sextet in A.
  apply andb_prop in A; destruct A as [A A4]. apply andb_prop in A; destruct A as [A A3].
  apply andb_prop in A; destruct A as [A1 A2].
  repeat split.
  - apply negb_true_iff in A1. exact A1.
  - destruct (b64val (b64chr v)) as [w|]; cbn in A2; [|discriminate].
    apply N.eqb_eq in A2. subst. reflexivity.
  - exact A3.
  - apply negb_true_iff in A4. exact A4.
Qed.

Lemma a2b_q0 c r l p acc v : (bN c =? 61) = false -> b64val c = Some v ->
  a2b_loop (c :: r) 0 l p acc = a2b_loop r 1 v 0 acc.
Proof. intros H1 H2. cbn [a2b_loop]. rewrite H1, H2. reflexivity. Qed.
Lemma a2b_q1 c r l p acc v : (bN c =? 61) = false -> b64val c = Some v ->
  a2b_loop (c :: r) 1 l p acc = a2b_loop r 2 (v mod 16) 0 (Nb ((l * 4 + v / 16) mod 256) :: acc).
Proof. intros H1 H2. cbn [a2b_loop]. rewrite H1, H2. reflexivity. Qed.
Lemma a2b_q2 c r l p acc v : (bN c =? 61) = false -> b64val c = Some v ->
  a2b_loop (c :: r) 2 l p acc = a2b_loop r 3 (v mod 4) 0 (Nb ((l * 16 + v / 4) mod 256) :: acc).
Proof. intros H1 H2. cbn [a2b_loop]. rewrite H1, H2. reflexivity. Qed.
Lemma a2b_q3 c r l p acc v : (bN c =? 61) = false -> b64val c = Some v ->
  a2b_loop (c :: r) 3 l p acc = a2b_loop r 0 0 0 (Nb ((l * 64 + v) mod 256) :: acc).
Proof. intros H1 H2. cbn [a2b_loop]. rewrite H1, H2. reflexivity. Qed.

Lemma a2b_pad2 r l acc : a2b_loop (x3d :: x3d :: r) 2 l 0 acc = Some (rev acc).
Proof. reflexivity. Qed.
Lemma a2b_pad1 r l acc : a2b_loop (x3d :: r) 3 l 0 acc = Some (rev acc).
Proof. reflexivity. Qed.

Lemma triple_ind (P : bytes -> Prop) :
  P [] -> (forall a, P [a]) -> (forall a b, P [a; b]) -> (forall a b c r, P r -> P (a :: b :: c :: r)) ->
  forall s, P s.
Proof.
  intros H0 H1 H2 H3. fix IH 1. intros [|a [|b [|c r]]].
  - exact H0.
  - apply H1.
  - apply H2.
  - apply H3. apply IH.
Qed.

Ltac tab v := let T := fresh "T" in
  assert (T : v < 64) by lia; apply b64_tab in T; destruct T as (? & ? & _ & _).

(* the decoder undoes the RFC 4648 encoder *)
Lemma Nb_eq (n : N) (b : byte) : n = bN b -> Nb n = b.
Proof. intros ->. apply Nb_bN. Qed.

Lemma a2b_b64encode : forall raw acc, a2b_loop (b64encode raw) 0 0 0 acc = Some (rev acc ++ raw).
Proof.
  induction raw as [|a|a b|a b c r IH] using triple_ind; intros acc.
  - cbn. rewrite app_nil_r. reflexivity.
  - pose proof (bN_lt a). cbn [b64encode].
    tab (bN a / 4). tab (bN a mod 4 * 16).
    erewrite a2b_q0 by eassumption. erewrite a2b_q1 by eassumption. rewrite a2b_pad2.
    cbn [rev]. repeat f_equal. apply Nb_eq. lia.
  - pose proof (bN_lt a). pose proof (bN_lt b). cbn [b64encode].
    tab (bN a / 4). tab (bN a mod 4 * 16 + bN b / 16). tab (bN b mod 16 * 4).
    erewrite a2b_q0 by eassumption. erewrite a2b_q1 by eassumption. erewrite a2b_q2 by eassumption.
    rewrite a2b_pad1. cbn [rev]. rewrite <- !app_assoc. cbn [app]. repeat f_equal; apply Nb_eq; lia.
  - pose proof (bN_lt a). pose proof (bN_lt b). pose proof (bN_lt c). cbn [b64encode].
    tab (bN a / 4). tab (bN a mod 4 * 16 + bN b / 16). tab (bN b mod 16 * 4 + bN c / 64). tab (bN c mod 64).
    erewrite a2b_q0 by eassumption. erewrite a2b_q1 by eassumption. erewrite a2b_q2 by eassumption.
    erewrite a2b_q3 by eassumption. rewrite IH. cbn [rev]. rewrite <- !app_assoc. cbn [app].
    f_equal. f_equal. f_equal; [apply Nb_eq; lia|]. f_equal; [apply Nb_eq; lia|]. f_equal. apply Nb_eq; lia.
Qed.

Theorem a2b_roundtrip raw : a2b_base64 (b64encode raw) = Some raw.
Proof. unfold a2b_base64. rewrite a2b_b64encode. reflexivity. Qed.

(* the encoder only emits alphabet characters and pads: ASCII, no whitespace *)
Definition nospace (w : str) : bool := forallb (fun c => negb (is_space c)) w.

Lemma b64encode_chars : forall raw, all_ascii (b64encode raw) = true /\ nospace (ascii (b64encode raw)) = true.
Proof.
  assert (K : forall v, v < 64 -> (bN (b64chr v) <? 128) = true /\ negb (is_space (bN (b64chr v))) = true).
  { intros v Hv. destruct (b64_tab v Hv) as (_ & _ & A & B). rewrite B. auto. }
  induction raw as [|a|a b|a b c r IH] using triple_ind.
  - split; reflexivity.
  - pose proof (bN_lt a). cbn [b64encode].
    destruct (K (bN a / 4)) as [A1 B1]; [lia|]. destruct (K (bN a mod 4 * 16)) as [A2 B2]; [lia|].
    unfold all_ascii, nospace. cbn [ascii map forallb]. rewrite A1, A2, B1, B2. split; reflexivity.
  - pose proof (bN_lt a). pose proof (bN_lt b). cbn [b64encode].
    destruct (K (bN a / 4)) as [A1 B1]; [lia|].
    destruct (K (bN a mod 4 * 16 + bN b / 16)) as [A2 B2]; [lia|].
    destruct (K (bN b mod 16 * 4)) as [A3 B3]; [lia|].
    unfold all_ascii, nospace. cbn [ascii map forallb]. rewrite A1, A2, A3, B1, B2, B3. split; reflexivity.
  - pose proof (bN_lt a). pose proof (bN_lt b). pose proof (bN_lt c). cbn [b64encode].
    destruct (K (bN a / 4)) as [A1 B1]; [lia|].
    destruct (K (bN a mod 4 * 16 + bN b / 16)) as [A2 B2]; [lia|].
    destruct (K (bN b mod 16 * 4 + bN c / 64)) as [A3 B3]; [lia|].
    destruct (K (bN c mod 64)) as [A4 B4]; [lia|].
    destruct IH as [I1 I2]. unfold all_ascii, nospace in *. cbn [ascii map forallb].
    rewrite A1, A2, A3, A4, B1, B2, B3, B4. cbn [andb]. split; assumption.
Qed.

Lemma b64encode_nonempty a raw : b64encode (a :: raw) <> [].
Proof. destruct raw as [|b [|c r]]; cbn [b64encode]; discriminate. Qed.

(* ---------------------------------------------------------------- str.split() *)
Lemma split_ws_word : forall w acc r, nospace w = true ->
  split_ws (w ++ r) (Some acc) = split_ws r (Some (rev w ++ acc)).
Proof.
  induction w as [|c w IH]; intros acc r H; [reflexivity|].
  cbn [nospace forallb] in H. apply andb_prop in H. destruct H as [Hc Hw].
  apply negb_true_iff in Hc. cbn [app split_ws]. rewrite Hc. rewrite IH by exact Hw.
  cbn [rev]. rewrite <- app_assoc. reflexivity.
Qed.

Lemma split_ws_start c w r : nospace (c :: w) = true ->
  split_ws ((c :: w) ++ r) None = split_ws r (Some (rev (c :: w))).
Proof.
  intros H. cbn [nospace forallb] in H. apply andb_prop in H. destruct H as [Hc Hw].
  apply negb_true_iff in Hc. cbn [app split_ws]. rewrite Hc. rewrite split_ws_word by exact Hw.
  cbn [rev]. reflexivity.
Qed.

(* scheme SP token -> [scheme; token] *)
Lemma split_ws_two w1 w2 : w1 <> [] -> w2 <> [] -> nospace w1 = true -> nospace w2 = true ->
  split_ws (w1 ++ 32 :: w2) None = [w1; w2].
Proof.
  intros N1 N2 H1 H2. destruct w1 as [|c1 w1]; [congruence|]. destruct w2 as [|c2 w2]; [congruence|].
  rewrite split_ws_start by exact H1.
  change (split_ws (32 :: c2 :: w2) (Some (rev (c1 :: w1))))
    with (rev (rev (c1 :: w1)) :: split_ws (c2 :: w2) None).
  rewrite rev_involutive. f_equal.
  pose proof (split_ws_start c2 w2 [] H2) as E. rewrite app_nil_r in E. rewrite E.
  cbn [split_ws]. rewrite rev_involutive. reflexivity.
Qed.

(* ---------------------------------------------------------------- split on the colon *)
Definition nocolon (w : str) : bool := forallb (fun c => negb (c =? COLON)) w.

Lemma split_on_nocolon : forall p cur, nocolon p = true -> split_on COLON p cur = [rev cur ++ p].
Proof.
  induction p as [|c p IH]; intros cur H.
  - cbn. rewrite app_nil_r. reflexivity.
  - cbn [nocolon forallb] in H. apply andb_prop in H. destruct H as [Hc Hp]. apply negb_true_iff in Hc.
    cbn [split_on]. rewrite Hc. rewrite IH by exact Hp. cbn [rev]. rewrite <- app_assoc. reflexivity.
Qed.

Lemma split_on_pair : forall u p cur, nocolon u = true -> nocolon p = true ->
  split_on COLON (u ++ COLON :: p) cur = [rev cur ++ u; p].
Proof.
  induction u as [|c u IH]; intros p cur Hu Hp.
  - cbn [app split_on]. rewrite N.eqb_refl. rewrite split_on_nocolon by exact Hp.
    rewrite app_nil_r. reflexivity.
  - cbn [nocolon forallb] in Hu. apply andb_prop in Hu. destruct Hu as [Hc Hu]. apply negb_true_iff in Hc.
    cbn [app split_on]. rewrite Hc. rewrite IH by assumption. cbn [rev]. rewrite <- app_assoc. reflexivity.
Qed.

Lemma split_on1_pair : forall u p cur, nocolon u = true ->
  split_on1 COLON (u ++ COLON :: p) cur = [rev cur ++ u; p].
Proof.
  induction u as [|c u IH]; intros p cur Hu.
  - cbn [app split_on1]. rewrite N.eqb_refl. rewrite app_nil_r. reflexivity.
  - cbn [nocolon forallb] in Hu. apply andb_prop in Hu. destruct Hu as [Hc Hu]. apply negb_true_iff in Hc.
    cbn [app split_on1]. rewrite Hc. rewrite IH by assumption. cbn [rev]. rewrite <- app_assoc. reflexivity.
Qed.
