(* Proofs/EncodingToy.v -- a concrete codec family satisfying the contract (so the contract is
   satisfiable), in which every decompressor is lenient the way the real ones are: it accepts a
   second stream for the same content.  Used for the refutation witnesses and non-vacuity. *)
From Coq Require Import List Bool NArith.
From MV Require Import Base.Bytes Model.Encoding Proofs.EncodingCache Proofs.EncodingMsg.
Import ListNotations.

(* compress x = tag :: x ; decompress accepts tag :: x and alt :: x *)
Definition tcomp (tag : byte) (x : bytes) : bytes := tag :: x.
Definition tdecomp (tag alt : byte) (s : bytes) : option bytes :=
  match s with
  | a :: x => if byte_eqb a tag || byte_eqb a alt then Some x else None
  | [] => None
  end.

Definition s_utf8 : bytes := [x75; x74; x66; x38].

Definition toy : codecs :=
  Build_codecs (tcomp x01) (tdecomp x01 x11) (tcomp x02) (tdecomp x02 x12) (tdecomp x22 x22)
               (tcomp x03) (tdecomp x03 x13) (tcomp x04) (tdecomp x04 x14)
               (fun n _ _ => if bytes_eqb n s_utf8 then PTypeErr else PExc)
               (fun n _ _ => if bytes_eqb n s_utf8 then PStr else PExc).

Lemma toy_contract : contract toy.
Proof.
  split; intros x; cbn; try discriminate; reflexivity.
Qed.

Definition body : bytes := [x68; x69].
Definition lenient_stream : bytes := x11 :: body.     (* decodes to body, but is not what the compressor emits *)

(* exact history-independence of encode is false: after decoding a lenient stream, encode hands it back *)
Lemma encode_exact_refuted :
  exists (C : codecs) (h : list call) (d n err : bytes),
    contract C /\
    fst (encode C (run C false h) (Some d) n err) <> fst (encode C None (Some d) n err).
Proof.
  exists toy, [CDecode (Some lenient_stream) s_gzip s_strict], body, s_gzip, s_strict.
  split; [exact toy_contract |]. vm_compute. discriminate.
Qed.

(* with the code as it stands (lenient = false) a str codec makes set_content raise TypeError *)
Definition m_utf8 : msg := Build_msg (Some s_utf8) false None None.

Lemma invalid_coding_refuted :
  exists (C : codecs) (m : msg) (v : bytes),
    fst (encode C None (Some v) (coding_of m) s_strict) = RTypeError /\
    set_content C false None m (Some v) = (RaisedTypeError, m, None).
Proof. exists toy, m_utf8, body. split; reflexivity. Qed.

(* Message.encode with such a name raises TypeError and leaves the header set *)
Lemma msg_encode_typeerror_refuted :
  exists (C : codecs) (m : msg),
    msg_encode C false None m s_utf8 = (RaisedTypeError, Build_msg (Some s_utf8) (m_te m) (m_cl m) (m_raw m), None)
    /\ m_ce m = None.
Proof. exists toy, (Build_msg None false None (Some body)). split; reflexivity. Qed.

(* non-vacuity: the contract holds for toy, a history really hits the cache in both directions,
   and the message round trip goes through a compressed, non-identical raw body *)
Definition m_gzip : msg := Build_msg (Some [x47; x5a; x69; x70]) false None None.   (* GZip *)

Lemma nonvacuous :
  contract toy
  /\ run toy false [CDecode (Some lenient_stream) s_gzip s_strict] <> None
  /\ fst (encode toy (run toy false [CDecode (Some lenient_stream) s_gzip s_strict]) (Some body) s_gzip s_strict)
     = RBytes lenient_stream
  /\ fst (decode toy (run toy false [CEncode (Some body) s_gzip s_strict]) (Some (x01 :: body)) s_gzip s_strict)
     = RBytes body
  /\ set_content toy false None m_gzip (Some body)
     = (Done, Build_msg (m_ce m_gzip) false (Some [x33]) (Some (x01 :: body)),
        Some (Build_centry (x01 :: body) s_gzip s_strict body)).
Proof.
  split; [exact toy_contract |]. split; [vm_compute; discriminate |].
  repeat split; vm_compute; reflexivity.
Qed.
