(* Proofs/CommandRoundtrip.v -- quote(s) placed in a command line reaches the command:
   multi-argument round trip (identity-typed and str-typed parameters), the exact set of
   strings for which the single-argument round trip holds, refutation witnesses. *)
From Coq Require Import List Bool Arith NArith Lia.
From MV Require Import Base.Bytes Model.Command Proofs.CommandLex Proofs.CommandExec.
Import ListNotations.
Open Scope N_scope.
Arguments in_chars : simpl never.
Arguments is_uspace : simpl never.

(* ---------- guards ---------- *)
Definition plain_cond (val : str) : bool :=
  negb (match val with [] => true | _ => false end)
  && forallb (fun ch => negb (in_chars ch val)) SPECIAL.
Definition has_both (s : str) : bool := in_chars c_dq s && in_chars c_sq s.
(* non-empty, only Unicode white space, none of it lexer white space (quote leaves it bare) *)
Definition uspace_only (s : str) : bool := isspace s && no_special s.
(* exactly the strings that survive quote -> lexer -> execute -> call_strings *)
Definition good (kt : bool) (s : str) : bool :=
  negb (has_both s) && negb (uspace_only s) && (kt || no_tab s).
(* sufficient for a str-typed parameter (escape parsing undoes the x22 rewriting) *)
Definition good_str (kt : bool) (s : str) : bool :=
  negb (in_chars c_bs s) && negb (uspace_only s) && (kt || no_tab s).

Lemma disjoint_no_special val :
  forallb (fun ch => negb (in_chars ch val)) SPECIAL = no_special val.
Proof.
  apply eq_iff_eq_true. unfold no_special. rewrite !forallb_forall. split; intros H x Hx.
  - apply negb_true_iff, in_chars_false. intros Hi.
    specialize (H x Hi). apply negb_true_iff, in_chars_false in H. contradiction.
  - apply negb_true_iff, in_chars_false. intros Hi.
    specialize (H x Hi). apply negb_true_iff, in_chars_false in H. contradiction.
Qed.

Lemma plain_cond_spec val : plain_cond val = nonempty val && no_special val.
Proof. unfold plain_cond. rewrite disjoint_no_special. destruct val; reflexivity. Qed.

Lemma no_special_not_in s c : no_special s = true -> in_chars c SPECIAL = true -> in_chars c s = false.
Proof.
  intros H Hc. apply in_chars_false. intros Hi. unfold no_special in H. rewrite forallb_forall in H.
  specialize (H c Hi). rewrite Hc in H. discriminate.
Qed.

Lemma in_no_special s c : in_chars c s = true -> in_chars c SPECIAL = true -> no_special s = false.
Proof.
  intros Hi Hc. destruct (no_special s) eqn:E; [|reflexivity].
  rewrite (no_special_not_in s c E Hc) in Hi. discriminate.
Qed.

(* ---------- quote produces an atom ---------- *)
Definition atom_of (s : str) : atom :=
  if plain_cond s then Plain s
  else if negb (in_chars c_dq s) then Quoted c_dq s
  else if negb (in_chars c_sq s) then Quoted c_sq s
  else Quoted c_dq (replace_dq s).
Definition quoted_value (s : str) : str := atom_value (atom_of s).

Lemma atom_of_text s : atom_text (atom_of s) = quote s.
Proof.
  unfold atom_of, quote. fold (plain_cond s).
  destruct (plain_cond s); [reflexivity|].
  destruct (in_chars c_dq s); simpl; [|reflexivity].
  destruct (in_chars c_sq s); reflexivity.
Qed.

Lemma replace_dq_in x s : in_chars x (replace_dq s) = true ->
  x <> c_dq /\ (in_chars x s = true \/ x = 92 \/ x = 120 \/ x = 50).
Proof.
  induction s as [|c s IH]; [discriminate|].
  unfold replace_dq. simpl. fold (replace_dq s). rewrite in_chars_app. intros H.
  apply orb_true_iff in H as [H | H].
  - destruct (c =? c_dq) eqn:E.
    + apply in_chars_In in H. simpl in H.
      destruct H as [H | [H | [H | [H | []]]]]; subst x; (split; [discriminate | tauto]).
    + apply in_chars_In in H. simpl in H. destruct H as [H | []]. subst x.
      split; [apply N.eqb_neq; exact E|]. left. rewrite in_chars_cons, N.eqb_refl. reflexivity.
  - destruct (IH H) as [H1 H2]. split; [exact H1|].
    destruct H2 as [H2 | H2]; [left | right; exact H2]. rewrite in_chars_cons, H2. apply orb_true_r.
Qed.

Lemma replace_dq_no_dq s : in_chars c_dq (replace_dq s) = false.
Proof.
  destruct (in_chars c_dq (replace_dq s)) eqn:E; [|reflexivity].
  apply replace_dq_in in E. destruct E as [E _]. contradiction.
Qed.

Lemma atom_of_ok s : uspace_only s = false -> atom_ok (atom_of s) = true.
Proof.
  intros Hu. unfold atom_of. destruct (plain_cond s) eqn:Ep.
  - rewrite plain_cond_spec in Ep. simpl. rewrite Ep. simpl.
    apply andb_true_iff in Ep as [_ Es]. unfold uspace_only in Hu. rewrite Es, andb_true_r in Hu.
    rewrite Hu. reflexivity.
  - destruct (in_chars c_dq s) eqn:Ed; simpl.
    + destruct (in_chars c_sq s) eqn:Es; simpl.
      * rewrite replace_dq_no_dq. reflexivity.
      * rewrite Es. reflexivity.
    + rewrite Ed. reflexivity.
Qed.

Lemma quoted_value_id s : has_both s = false -> quoted_value s = s.
Proof.
  unfold quoted_value, atom_of, has_both. intros H.
  destruct (plain_cond s); [reflexivity|].
  destruct (in_chars c_dq s); simpl in *; [|reflexivity]. rewrite H. reflexivity.
Qed.

Lemma quoted_value_cases s : quoted_value s = s \/ quoted_value s = replace_dq s.
Proof.
  unfold quoted_value, atom_of. destruct (plain_cond s); [left; reflexivity|].
  destruct (in_chars c_dq s); simpl; [|left; reflexivity].
  destruct (in_chars c_sq s); simpl; [right | left]; reflexivity.
Qed.

(* ---------- tabs ---------- *)
Lemma no_tab_app a b : no_tab (a ++ b) = no_tab a && no_tab b.
Proof. unfold no_tab. rewrite in_chars_app, negb_orb. reflexivity. Qed.

Lemma no_special_no_tab w : no_special w = true -> no_tab w = true.
Proof. intros H. unfold no_tab. rewrite (no_special_not_in w c_tab H eq_refl). reflexivity. Qed.

Lemma no_tab_quote s : no_tab s = true -> no_tab (quote s) = true.
Proof.
  intros H. rewrite <- atom_of_text. unfold atom_of.
  assert (R : no_tab (replace_dq s) = true).
  { unfold no_tab in *. destruct (in_chars c_tab (replace_dq s)) eqn:E; [|reflexivity].
    apply replace_dq_in in E. destruct E as [_ [E | [E | [E | E]]]]; try discriminate.
    rewrite E in H. discriminate. }
  destruct (plain_cond s); [exact H|].
  destruct (negb (in_chars c_dq s)); [|destruct (negb (in_chars c_sq s))]; simpl;
    change (?q :: ?b ++ [?q]) with ([q] ++ b ++ [q]); rewrite !no_tab_app; simpl;
    rewrite ?H, ?R; reflexivity.
Qed.

(* ---------- the command line cmd (space quote(s))* ---------- *)
Definition cmd_line (cmd : str) (ss : list str) : str :=
  cmd ++ flat_map (fun s => c_sp :: quote s) ss.
Definition items_of (ss : list str) : list (str * atom) := map (fun s => ([c_sp], atom_of s)) ss.

Lemma cmd_line_text cmd ss : line_text [] (Plain cmd) (items_of ss) [] = cmd_line cmd ss.
Proof.
  unfold line_text, tail_text, cmd_line, items_of. simpl. rewrite app_nil_r. f_equal.
  induction ss as [|s ss IH]; [reflexivity|]. simpl. rewrite IH, atom_of_text. reflexivity.
Qed.

Lemma items_ok ss : forallb (fun s => negb (uspace_only s)) ss = true -> forallb item_ok (items_of ss) = true.
Proof.
  induction ss as [|s ss IH]; [reflexivity|]. simpl. intros H. apply andb_true_iff in H as [Hs H].
  apply negb_true_iff in Hs. rewrite (IH H). unfold item_ok. simpl.
  rewrite (atom_of_ok s Hs). reflexivity.
Qed.

Lemma cmd_line_no_tab cmd ss :
  no_special cmd = true -> forallb no_tab ss = true -> no_tab (cmd_line cmd ss) = true.
Proof.
  intros Hc Hs. unfold cmd_line. rewrite no_tab_app, (no_special_no_tab cmd Hc). simpl.
  induction ss as [|s ss IH]; [reflexivity|]. simpl in *. apply andb_true_iff in Hs as [H1 H2].
  change (c_sp :: quote s ++ ?r) with ([c_sp] ++ quote s ++ r). rewrite !no_tab_app.
  rewrite (no_tab_quote s H1), (IH H2). reflexivity.
Qed.

Definition cmd_ok (cmd : str) : bool := atom_ok (Plain cmd).

Lemma execute_call_quoted kt cmd ss :
  cmd_ok cmd = true -> forallb (fun s => negb (uspace_only s)) ss = true ->
  kt = true \/ forallb no_tab ss = true ->
  execute_call kt (cmd_line cmd ss) = CallStrings cmd (map quoted_value ss).
Proof.
  intros Hc Hs Hk.
  assert (Hk' : kt = true \/ no_tab (line_text [] (Plain cmd) (items_of ss) []) = true).
  { destruct Hk as [Hk | Hk]; [left; exact Hk | right]. rewrite cmd_line_text.
    apply cmd_line_no_tab; [|exact Hk]. unfold cmd_ok in Hc. simpl in Hc.
    apply andb_true_iff in Hc as [Hc _]. apply andb_true_iff in Hc as [_ Hc]. exact Hc. }
  destruct (execute_call_line kt [] (Plain cmd) (items_of ss) [] eq_refl Hc (items_ok ss Hs) eq_refl Hk')
    as [parts [_ [_ H]]].
  rewrite cmd_line_text in H. rewrite H. simpl. f_equal. unfold items_of. rewrite map_map. reflexivity.
Qed.

(* ---------- from call_strings to the command function ---------- *)
Lemma parse_each_var t args : forall vs,
  Forall2 (fun a v => parsearg t a = ParseOk v) args vs ->
  parse_each (repeat t (length args)) args = BindOk vs.
Proof.
  induction args as [|a args IH]; intros vs H; inversion H; subst; [reflexivity|].
  simpl. rewrite H2, (IH _ H4). reflexivity.
Qed.

Lemma execute_var kt commands line cmd args vs t :
  commands cmd = Some (SigVar t) ->
  execute_call kt line = CallStrings cmd args ->
  Forall2 (fun a v => parsearg t a = ParseOk v) args vs ->
  execute kt commands line = Received cmd vs.
Proof.
  intros Hc He Hp. unfold execute. rewrite He, Hc. simpl.
  rewrite (parse_each_var t args vs Hp). reflexivity.
Qed.

(* identity-typed parameters (types.CmdArgs) *)
Lemma roundtrip_arg kt commands cmd ss :
  cmd_ok cmd = true -> commands cmd = Some (SigVar TArg) ->
  forallb (good kt) ss = true ->
  execute kt commands (cmd_line cmd ss) = Received cmd ss.
Proof.
  intros Hc Hs Hg.
  assert (G1 : forallb (fun s => negb (uspace_only s)) ss = true).
  { rewrite forallb_forall in *. intros s Hi. specialize (Hg s Hi). unfold good in Hg.
    apply andb_true_iff in Hg as [Hg _]. apply andb_true_iff in Hg as [_ Hg]. exact Hg. }
  assert (G2 : kt = true \/ forallb no_tab ss = true).
  { destruct kt; [left; reflexivity | right]. rewrite forallb_forall in *. intros s Hi.
    specialize (Hg s Hi). unfold good in Hg. apply andb_true_iff in Hg as [_ Hg]. exact Hg. }
  apply (execute_var kt commands _ cmd (map quoted_value ss) ss TArg Hs
           (execute_call_quoted kt cmd ss Hc G1 G2)).
  clear -Hg. induction ss as [|s ss IH]; [constructor|]. simpl in Hg.
  apply andb_true_iff in Hg as [H1 H2]. simpl. constructor; [|apply IH, H2].
  simpl. unfold good in H1. apply andb_true_iff in H1 as [H1 _]. apply andb_true_iff in H1 as [H1 _].
  apply negb_true_iff in H1. rewrite (quoted_value_id s H1). reflexivity.
Qed.

(* ---------- str-typed parameters: escape parsing ---------- *)
Lemma spg_plain c r : (c =? c_bs) = false ->
  str_parse_go 0 (c :: r) = match str_parse_go 0 r with ParseOk v => ParseOk (c :: v) | e => e end.
Proof. intros H. cbn [str_parse_go]. rewrite H. reflexivity. Qed.

Lemma spg_x22 r :
  str_parse_go 0 (92 :: 120 :: 50 :: 50 :: r)
  = match str_parse_go 0 r with ParseOk t => ParseOk (34 :: t) | e => e end.
Proof.
  cbn [str_parse_go]. change (92 =? c_bs) with true. cbv iota.
  replace (esc_at (120 :: 50 :: 50 :: r)) with (EscChar 34 3) by reflexivity. reflexivity.
Qed.

Lemma str_parse_noesc s : in_chars c_bs s = false -> str_parse s = ParseOk s.
Proof.
  unfold str_parse. induction s as [|c s IH]; intros H; [reflexivity|].
  rewrite in_chars_cons in H. apply orb_false_iff in H as [Hc Hs].
  rewrite spg_plain by (rewrite N.eqb_sym; exact Hc). rewrite (IH Hs). reflexivity.
Qed.

Lemma str_parse_replace s : in_chars c_bs s = false -> str_parse (replace_dq s) = ParseOk s.
Proof.
  unfold str_parse. induction s as [|c s IH]; intros H; [reflexivity|].
  rewrite in_chars_cons in H. apply orb_false_iff in H as [Hc Hs].
  unfold replace_dq. simpl. fold (replace_dq s). destruct (c =? c_dq) eqn:E.
  - apply N.eqb_eq in E. subst c. simpl app. rewrite spg_x22, (IH Hs). reflexivity.
  - simpl app. rewrite spg_plain by (rewrite N.eqb_sym; exact Hc). rewrite (IH Hs). reflexivity.
Qed.

Lemma roundtrip_str kt commands cmd ss :
  cmd_ok cmd = true -> commands cmd = Some (SigVar TStr) ->
  forallb (good_str kt) ss = true ->
  execute kt commands (cmd_line cmd ss) = Received cmd ss.
Proof.
  intros Hc Hs Hg.
  assert (G1 : forallb (fun s => negb (uspace_only s)) ss = true).
  { rewrite forallb_forall in *. intros s Hi. specialize (Hg s Hi). unfold good_str in Hg.
    apply andb_true_iff in Hg as [Hg _]. apply andb_true_iff in Hg as [_ Hg]. exact Hg. }
  assert (G2 : kt = true \/ forallb no_tab ss = true).
  { destruct kt; [left; reflexivity | right]. rewrite forallb_forall in *. intros s Hi.
    specialize (Hg s Hi). unfold good_str in Hg. apply andb_true_iff in Hg as [_ Hg]. exact Hg. }
  apply (execute_var kt commands _ cmd (map quoted_value ss) ss TStr Hs
           (execute_call_quoted kt cmd ss Hc G1 G2)).
  clear -Hg. induction ss as [|s ss IH]; [constructor|]. simpl in Hg.
  apply andb_true_iff in Hg as [H1 H2]. simpl. constructor; [|apply IH, H2].
  simpl. unfold good_str in H1. apply andb_true_iff in H1 as [H1 _]. apply andb_true_iff in H1 as [H1 _].
  apply negb_true_iff in H1.
  destruct (quoted_value_cases s) as [-> | ->]; [apply str_parse_noesc | apply str_parse_replace]; exact H1.
Qed.

(* ---------- exactness of the guard (single argument, call_strings level) ---------- *)

(* expandtabs only replaces tabs by spaces *)
Lemma expandtabs_go_in x s : forall col,
  in_chars x (expandtabs_go col s) = true -> x <> c_tab /\ (x = c_sp \/ in_chars x s = true).
Proof.
  induction s as [|c s IH]; intros col H; [discriminate|].
  cbn [expandtabs_go] in H. destruct (c =? c_tab) eqn:Et.
  - rewrite in_chars_app in H. apply orb_true_iff in H as [H | H].
    + apply in_chars_In, repeat_spec in H. subst x. split; [discriminate | left; reflexivity].
    + destruct (IH _ H) as [H1 [H2 | H2]]; split; auto. right. rewrite in_chars_cons, H2. apply orb_true_r.
  - assert (G : in_chars x (c :: expandtabs_go (if (c =? c_lf) || (c =? c_cr) then 0 else col + 1) s) = true)
      by (destruct ((c =? c_lf) || (c =? c_cr)); exact H).
    rewrite in_chars_cons in G. apply orb_true_iff in G as [G | G].
    + apply N.eqb_eq in G. subst x. split; [apply N.eqb_neq; exact Et|].
      right. rewrite in_chars_cons, N.eqb_refl. reflexivity.
    + destruct (IH _ G) as [H1 [H2 | H2]]; split; auto. right. rewrite in_chars_cons, H2. apply orb_true_r.
Qed.

Lemma expandtabs_go_app a : forall b col,
  exists col', expandtabs_go col (a ++ b) = expandtabs_go col a ++ expandtabs_go col' b.
Proof.
  induction a as [|c a IH]; intros b col; [exists col; reflexivity|].
  simpl app. cbn [expandtabs_go]. destruct (c =? c_tab).
  - destruct (IH b (col + (8 - col mod 8))) as [c' E]. exists c'. rewrite E, app_assoc. reflexivity.
  - destruct ((c =? c_lf) || (c =? c_cr)).
    + destruct (IH b 0) as [c' E]. exists c'. rewrite E. reflexivity.
    + destruct (IH b (col + 1)) as [c' E]. exists c'. rewrite E. reflexivity.
Qed.

Lemma execute_call_false s : execute_call false s = execute_call true (expandtabs s).
Proof. reflexivity. Qed.

Lemma quote_char_expand q col r : is_quote q = true ->
  expandtabs_go col (q :: r) = q :: expandtabs_go (col + 1) r.
Proof. intros H. destruct (is_quote_cases q H); subst q; reflexivity. Qed.

(* cmd, one space, one quoted argument, under tab expansion *)
Lemma exec_quoted_tabs cmd q body :
  cmd_ok cmd = true -> is_quote q = true -> in_chars q body = false ->
  exists body', execute_call false (cmd ++ c_sp :: q :: body ++ [q]) = CallStrings cmd [body']
                /\ (forall x, in_chars x body' = true -> x <> c_tab /\ (x = c_sp \/ in_chars x body = true)).
Proof.
  intros Hc Hq Hb. rewrite execute_call_false. unfold expandtabs.
  assert (Hcs : no_special cmd = true).
  { unfold cmd_ok in Hc. simpl in Hc. apply andb_true_iff in Hc as [Hc _].
    apply andb_true_iff in Hc as [_ Hc]. exact Hc. }
  destruct (expandtabs_go_app cmd (c_sp :: q :: body ++ [q]) 0) as [c1 E1]. rewrite E1.
  rewrite (expandtabs_no_tab cmd 0 (no_special_no_tab cmd Hcs)).
  replace (expandtabs_go c1 (c_sp :: q :: body ++ [q]))
    with (c_sp :: expandtabs_go (c1 + 1) (q :: body ++ [q])) by reflexivity.
  rewrite (quote_char_expand q _ _ Hq).
  destruct (expandtabs_go_app body [q] (c1 + 1 + 1)) as [c2 E2]. rewrite E2.
  rewrite (quote_char_expand q _ _ Hq). simpl (expandtabs_go _ []).
  set (body' := expandtabs_go (c1 + 1 + 1) body).
  assert (Hin : forall x, in_chars x body' = true -> x <> c_tab /\ (x = c_sp \/ in_chars x body = true))
    by (intros x; apply expandtabs_go_in).
  assert (Hb' : in_chars q body' = false).
  { destruct (in_chars q body') eqn:E; [|reflexivity]. destruct (Hin q E) as [_ [H | H]].
    - subst q. discriminate.
    - rewrite H in Hb. discriminate. }
  exists body'. split; [|exact Hin].
  assert (Hok : atom_ok (Quoted q body') = true) by (simpl; rewrite Hq, Hb'; reflexivity).
  destruct (execute_call_line true [] (Plain cmd) [([c_sp], Quoted q body')] [] eq_refl Hc) as [parts [_ [_ H]]];
    [simpl; unfold item_ok; simpl; rewrite Hq, Hb'; reflexivity | reflexivity | left; reflexivity |].
  unfold line_text, tail_text in H. simpl in H. rewrite !app_nil_r in H. exact H.
Qed.

Lemma has_dq_not_plain s : in_chars c_dq s = true -> plain_cond s = false.
Proof.
  intros H. rewrite plain_cond_spec, (in_no_special s c_dq H eq_refl). apply andb_false_r.
Qed.

Lemma roundtrip_exact kt cmd s :
  cmd_ok cmd = true ->
  (execute_call kt (cmd_line cmd [s]) = CallStrings cmd [s] <-> good kt s = true).
Proof.
  intros Hc.
  assert (Hcs : no_special cmd = true).
  { unfold cmd_ok in Hc. simpl in Hc. apply andb_true_iff in Hc as [Hc' _].
    apply andb_true_iff in Hc' as [_ Hc']. exact Hc'. }
  assert (Hcn : nonempty cmd = true).
  { unfold cmd_ok in Hc. simpl in Hc. apply andb_true_iff in Hc as [Hc' _].
    apply andb_true_iff in Hc' as [Hc' _]. exact Hc'. }
  assert (Hline : cmd_line cmd [s] = cmd ++ c_sp :: quote s)
    by (unfold cmd_line; simpl; rewrite app_nil_r; reflexivity).
  split.
  - (* only good strings survive *)
    intros H. unfold good.
    destruct (has_both s) eqn:Eb.
    { (* both quotes: the argument arrives with every double quote rewritten *)
      exfalso. unfold has_both in Eb. apply andb_true_iff in Eb as [Ed Es].
      assert (Q : quote s = c_dq :: replace_dq s ++ [c_dq]).
      { rewrite <- atom_of_text. unfold atom_of. rewrite (has_dq_not_plain s Ed), Ed, Es. reflexivity. }
      assert (X : exists b, execute_call kt (cmd_line cmd [s]) = CallStrings cmd [b] /\ in_chars c_dq b = false).
      { destruct kt.
        - exists (replace_dq s). split; [|apply replace_dq_no_dq].
          rewrite (execute_call_quoted true cmd [s] Hc) by
            (try (left; reflexivity); simpl; unfold uspace_only;
             rewrite (in_no_special s c_dq Ed eq_refl), andb_false_r; reflexivity).
          simpl. unfold quoted_value, atom_of. rewrite (has_dq_not_plain s Ed), Ed, Es. reflexivity.
        - rewrite Hline, Q.
          destruct (exec_quoted_tabs cmd c_dq (replace_dq s) Hc eq_refl (replace_dq_no_dq s)) as [b [H1 H2]].
          exists b. split; [exact H1|]. destruct (in_chars c_dq b) eqn:E; [|reflexivity].
          destruct (H2 _ E) as [_ [H3 | H3]]; [discriminate|]. rewrite replace_dq_no_dq in H3. discriminate. }
      destruct X as [b [X1 X2]]. rewrite X1 in H. inversion H; subst b. rewrite Ed in X2. discriminate. }
    destruct (uspace_only s) eqn:Eu.
    { (* bare Unicode white space: typed Space and dropped *)
      exfalso. unfold uspace_only in Eu. apply andb_true_iff in Eu as [Ei Es].
      assert (Hn : nonempty s = true) by (destruct s; [discriminate | reflexivity]).
      assert (Q : quote s = s).
      { rewrite <- atom_of_text. unfold atom_of. rewrite plain_cond_spec, Hn, Es. reflexivity. }
      rewrite Hline, Q in H.
      assert (L : lex (cmd ++ c_sp :: s) = LexOk [cmd; [c_sp]; s]).
      { rewrite (lex_cons _ cmd (c_sp :: s)) by (apply mf_plain; auto).
        change (c_sp :: s) with ([c_sp] ++ s). rewrite (lex_cons ([c_sp] ++ s) [c_sp] s).
        2:{ apply mf_ws; auto. destruct s as [|c s]; [reflexivity|]. simpl.
            unfold no_special in Es. simpl in Es. apply andb_true_iff in Es as [Es _].
            unfold p_ws. destruct (in_chars c WS) eqn:E; [|reflexivity].
            apply ws_special in E. rewrite E in Es. discriminate. }
        rewrite (lex_cons s s []) by (rewrite <- (app_nil_r s) at 1; apply mf_plain; auto).
        reflexivity. }
      assert (P : parse_string kt (cmd ++ c_sp :: s) = LexOk [cmd; [c_sp]; s]).
      { rewrite parse_string_no_tab; [exact L|]. right.
        change (c_sp :: s) with ([c_sp] ++ s). rewrite !no_tab_app.
        rewrite (no_special_no_tab cmd Hcs), (no_special_no_tab s Es). reflexivity. }
      rewrite (execute_call_lexed kt _ _ P) in H by discriminate.
      simpl in H. unfold nonsp in H. rewrite Ei in H. simpl in H.
      assert (Hcsp : isspace cmd = false).
      { unfold cmd_ok in Hc. simpl in Hc. apply andb_true_iff in Hc as [_ Hc'].
        apply negb_true_iff in Hc'. exact Hc'. }
      rewrite Hcsp in H. simpl in H. discriminate. }
    destruct kt; [reflexivity|]. simpl.
    destruct (no_tab s) eqn:Et; [reflexivity|].
    (* a tab under expandtabs *)
    exfalso. unfold no_tab in Et. apply negb_false_iff in Et.
    assert (Hp : plain_cond s = false).
    { rewrite plain_cond_spec, (in_no_special s c_tab Et eq_refl). apply andb_false_r. }
    assert (Q : exists q, is_quote q = true /\ in_chars q s = false /\ quote s = q :: s ++ [q]).
    { unfold has_both in Eb. destruct (in_chars c_dq s) eqn:Ed.
      - exists c_sq. simpl in Eb. repeat split; auto. rewrite <- atom_of_text. unfold atom_of.
        rewrite Hp, Ed, Eb. reflexivity.
      - exists c_dq. repeat split; auto. rewrite <- atom_of_text. unfold atom_of.
        rewrite Hp, Ed. reflexivity. }
    destruct Q as [q [Q1 [Q2 Q3]]]. rewrite Hline, Q3 in H.
    destruct (exec_quoted_tabs cmd q s Hc Q1 Q2) as [b [H1 H2]].
    rewrite H1 in H. inversion H; subst b. destruct (H2 _ Et) as [X _]. contradiction.
  - (* good strings survive *)
    intros Hg. unfold good in Hg. apply andb_true_iff in Hg as [Hg Hk]. apply andb_true_iff in Hg as [Hb Hu].
    apply negb_true_iff in Hb.
    rewrite (execute_call_quoted kt cmd [s] Hc).
    + simpl. rewrite (quoted_value_id s Hb). reflexivity.
    + simpl. rewrite Hu. reflexivity.
    + destruct kt; [left; reflexivity | right]. simpl in *. rewrite Hk. reflexivity.
Qed.

(* ---------- concrete witnesses ---------- *)
Definition w_cmd : str := [116; 46; 114; 97; 119].                   (* t.raw *)
Definition w_both : str := [97; 34; 98; 39; 99; 32; 100].            (* a dq b sq c space d *)
Definition w_tab : str := [97; 9; 98].                               (* a TAB b *)
Definition w_nbsp : str := [160].                                    (* NBSP *)
Definition w_esc : str := [97; 92; 110; 98].                         (* a backslash n b *)
Definition w_plainq : str := [105; 116; 39; 115; 32; 34; 120; 34].   (* it sq s space dq x dq ... has both *)
Definition w_ok : str := [105; 116; 39; 115; 32; 92; 120].           (* it sq s space backslash x *)
Definition w_commands (name : str) : option signature :=
  if str_eqb name w_cmd then Some (SigVar TArg)
  else if str_eqb name [116; 46; 115; 116; 114] then Some (SigVar TStr) else None.

Lemma refuted_both_quotes :
  exists kt cmd s, cmd_ok cmd = true /\ execute_call kt (cmd_line cmd [s]) <> CallStrings cmd [s].
Proof. exists true, w_cmd, w_both. split; [reflexivity|]. vm_compute. discriminate. Qed.

Lemma refuted_tab :
  exists cmd s, cmd_ok cmd = true /\ has_both s = false
    /\ execute_call false (cmd_line cmd [s]) <> CallStrings cmd [s].
Proof. exists w_cmd, w_tab. split; [reflexivity|]. split; [reflexivity|]. vm_compute. discriminate. Qed.

Lemma refuted_unicode_space :
  exists kt cmd s, cmd_ok cmd = true /\ has_both s = false /\ no_tab s = true
    /\ execute_call kt (cmd_line cmd [s]) = CallStrings cmd [].
Proof. exists true, w_cmd, w_nbsp. repeat split; reflexivity. Qed.

Lemma refuted_str_escape :
  exists kt commands cmd s, cmd_ok cmd = true /\ commands cmd = Some (SigVar TStr) /\ good kt s = true
    /\ execute kt commands (cmd_line cmd [s]) <> Received cmd [s].
Proof.
  exists true, w_commands, [116; 46; 115; 116; 114], w_esc.
  repeat split; try reflexivity. vm_compute. discriminate.
Qed.

Lemma sample_roundtrips :
  good false w_ok = true /\ quote w_ok <> w_ok
  /\ execute false w_commands (cmd_line w_cmd [w_ok; w_cmd]) = Received w_cmd [w_ok; w_cmd]
  /\ good_str false w_both = true
  /\ execute false w_commands (cmd_line [116; 46; 115; 116; 114] [w_both]) = Received [116; 46; 115; 116; 114] [w_both].
Proof. repeat split; try reflexivity. vm_compute. discriminate. Qed.
