(* Proofs/MvUrlViews.v -- Request.query, urlencoded_form and path_components read back what was written (C34). *)
From Coq Require Import List Bool NArith Lia.
From MV Require Import Base.Bytes Model.MvCommon Model.MvUrl Proofs.MvCommonLemmas Proofs.MvUrlQuote.
Import ListNotations.

Definition nounsafe (c : byte) : bool := negb (unsafe_url_byte c).
Definition okq (c : byte) : bool := negb (byte_eqb c HASH) && nounsafe c.       (* allowed inside a query *)
Definition okc (c : byte) : bool := negb (byte_eqb c QM) && okq c.              (* allowed before the query *)

Lemma okc_okq s : forallb okc s = true -> forallb okq s = true.
Proof. apply forallb_impl. intros c H. unfold okc in H. apply andb_true_iff in H. tauto. Qed.
Lemma okq_nounsafe s : forallb okq s = true -> forallb nounsafe s = true.
Proof. apply forallb_impl. intros c H. unfold okq in H. apply andb_true_iff in H. tauto. Qed.
Lemma okq_nohash s : forallb okq s = true -> memb HASH s = false.
Proof. intros H. apply (forallb_memb_false okq); [exact H|reflexivity]. Qed.
Lemma okc_noqm s : forallb okc s = true -> memb QM s = false.
Proof. intros H. apply (forallb_memb_false okc); [exact H|reflexivity]. Qed.

Lemma remove_unsafe_id s : forallb nounsafe s = true -> remove_unsafe s = s.
Proof.
  unfold remove_unsafe. induction s as [|x s IH]; intros H; [reflexivity|].
  simpl in H. apply andb_true_iff in H as [H1 H2]. simpl. unfold nounsafe in H1. rewrite H1, IH by exact H2. reflexivity.
Qed.
Lemma remove_unsafe_clean s : forallb nounsafe (remove_unsafe s) = true.
Proof.
  unfold remove_unsafe. rewrite forallb_forall. intros x Hx. apply filter_In in Hx. tauto.
Qed.
Lemma remove_unsafe_app a b : remove_unsafe (a ++ b) = remove_unsafe a ++ remove_unsafe b.
Proof. apply filter_app. Qed.

(* ---- rbreak_slash / splitparams ---- *)
Lemma rbreak_spec s : match rbreak_slash s with
                      | Some (a, b) => s = a ++ SLASH :: b /\ memb SLASH b = false
                      | None => memb SLASH s = false
                      end.
Proof.
  induction s as [|x s IH]; [reflexivity|]. simpl.
  destruct (rbreak_slash s) as [[a b]|].
  - destruct IH as [-> H]. split; [reflexivity|exact H].
  - destruct (byte_eqb x SLASH) eqn:E.
    + apply byte_eqb_eq in E. subst. split; [reflexivity|exact IH].
    + unfold memb in *. simpl. rewrite byte_eqb_sym, E. exact IH.
Qed.

Lemma rbreak_none s : memb SLASH s = false -> rbreak_slash s = None.
Proof.
  intros H. pose proof (rbreak_spec s) as S. destruct (rbreak_slash s) as [[a b]|]; [|reflexivity].
  destruct S as [-> _]. rewrite memb_app in H. unfold memb in H. simpl in H.
  try rewrite byte_eqb_refl in H; try rewrite orb_true_r in H; discriminate.
Qed.

Lemma rbreak_app s t : memb SLASH t = false ->
  rbreak_slash (s ++ t) = match rbreak_slash s with Some (a, b) => Some (a, b ++ t) | None => None end.
Proof.
  intros Ht. induction s as [|x s IH]; simpl; [apply rbreak_none, Ht|].
  rewrite IH. destruct (rbreak_slash s) as [[a b]|]; [reflexivity|].
  destruct (byte_eqb x SLASH); reflexivity.
Qed.

Definition pp (u : bytes) : bytes * bytes := if memb SEMI u then splitparams u else (u, []).

Lemma pp_pieces (P : byte -> bool) u :
  forallb P u = true ->
  forallb P (fst (pp u)) = true /\ forallb P (snd (pp u)) = true /\ memb SLASH (snd (pp u)) = false.
Proof.
  intros H. unfold pp. destruct (memb SEMI u); [|simpl; auto].
  unfold splitparams. pose proof (rbreak_spec u) as S.
  destruct (rbreak_slash u) as [[a b]|].
  - destruct S as [-> Hb]. rewrite forallb_app in H. simpl in H.
    apply andb_true_iff in H as [Ha H]. apply andb_true_iff in H as [Hs Hbb].
    destruct (break_at SEMI b) as [[b1 b2]|] eqn:E.
    + apply break_at_spec in E as [-> _]. rewrite forallb_app in Hbb. simpl in Hbb.
      apply andb_true_iff in Hbb as [H1 H2]. apply andb_true_iff in H2 as [_ H2].
      rewrite memb_app in Hb. apply orb_false_iff in Hb as [_ Hb]. unfold memb in Hb. simpl in Hb.
      fold (memb SLASH b2) in Hb.
      simpl. rewrite forallb_app. simpl. rewrite Ha, Hs, H1, H2. auto.
    + simpl. rewrite forallb_app. simpl. rewrite Ha, Hs, Hbb. auto.
  - destruct (break_at SEMI u) as [[a b]|] eqn:E.
    + apply break_at_spec in E as [-> _]. rewrite forallb_app in H. simpl in H.
      apply andb_true_iff in H as [Ha H]. apply andb_true_iff in H as [_ Hb].
      rewrite memb_app in S. apply orb_false_iff in S as [_ S]. unfold memb in S. simpl in S.
      fold (memb SLASH b) in S. simpl. auto.
    + simpl. auto.
Qed.

(* ---- urlparse of a text put together by urlunparse ---- *)
Definition compose (X q frag : bytes) : bytes :=
  let u := if nonempty q then X ++ QM :: q else X in
  if nonempty frag then u ++ HASH :: frag else u.

Lemma urlunparse_compose path params q frag :
  urlunparse_path path params q frag = compose (if nonempty params then path ++ SEMI :: params else path) q frag.
Proof. reflexivity. Qed.

Lemma urlparse_compose X q frag :
  forallb okc X = true -> forallb okq q = true ->
  urlparse_path (compose X q frag)
  = {| p_path := fst (pp X); p_params := snd (pp X); p_query := q; p_fragment := remove_unsafe frag |}.
Proof.
  intros HX Hq. unfold urlparse_path, compose.
  set (Xq := if nonempty q then X ++ QM :: q else X).
  assert (HXq : forallb okq Xq = true).
  { unfold Xq. destruct (nonempty q); [|apply okc_okq, HX].
    rewrite forallb_app. simpl. rewrite (okc_okq _ HX), Hq. reflexivity. }
  assert (Hbq : (match break_at QM Xq with Some (a, b) => (a, b) | None => (Xq, []) end) = (X, q)).
  { unfold Xq. destruct q as [|c q]; simpl nonempty; cbv iota.
    - rewrite break_at_none by (apply okc_noqm, HX). reflexivity.
    - rewrite break_at_app by (apply okc_noqm, HX). reflexivity. }
  destruct frag as [|f frag]; simpl nonempty; cbv iota.
  - rewrite remove_unsafe_id by (apply okq_nounsafe, HXq).
    rewrite break_at_none by (apply okq_nohash, HXq).
    clear HXq Hbq; subst Xq. destruct q as [|c q]; simpl nonempty; cbv iota;
      [rewrite break_at_none by (apply okc_noqm, HX) | rewrite break_at_app by (apply okc_noqm, HX)];
      fold (pp X); destruct (pp X); reflexivity.
  - rewrite remove_unsafe_app. rewrite remove_unsafe_id by (apply okq_nounsafe, HXq).
    change (HASH :: f :: frag) with ([HASH] ++ f :: frag). rewrite remove_unsafe_app.
    change (remove_unsafe [HASH]) with [HASH]. simpl app.
    rewrite break_at_app by (apply okq_nohash, HXq).
    clear HXq Hbq; subst Xq. destruct q as [|c q]; simpl nonempty; cbv iota;
      [rewrite break_at_none by (apply okc_noqm, HX) | rewrite break_at_app by (apply okc_noqm, HX)];
      fold (pp X); destruct (pp X); reflexivity.
Qed.

(* what urlparse returns for ANY path is clean *)
Lemma urlparse_clean p :
  let r := urlparse_path p in
  forallb okc (p_path r) = true /\ forallb okc (p_params r) = true /\ memb SLASH (p_params r) = false
  /\ forallb okq (p_query r) = true.
Proof.
  unfold urlparse_path.
  pose proof (remove_unsafe_clean p) as Hu. set (u := remove_unsafe p) in *.
  assert (H1 : exists u1 frag, (match break_at HASH u with Some (a, b) => (a, b) | None => (u, []) end) = (u1, frag)
                               /\ forallb okq u1 = true).
  { destruct (break_at HASH u) as [[a b]|] eqn:E.
    - exists a, b. split; [reflexivity|]. apply break_at_spec in E as [-> Hm].
      rewrite forallb_app in Hu. apply andb_true_iff in Hu as [Ha _].
      rewrite forallb_forall in *. intros x Hx. unfold okq. rewrite (Ha x Hx), andb_true_r.
      apply negb_true_iff. rewrite byte_eqb_sym. eapply memb_false_neq; eauto.
    - exists u, []. split; [reflexivity|].
      assert (Hm : memb HASH u = false) by (apply break_at_none_memb, E).
      rewrite forallb_forall in *. intros x Hx. unfold okq. rewrite (Hu x Hx), andb_true_r.
      apply negb_true_iff. rewrite byte_eqb_sym. eapply memb_false_neq; eauto. }
  destruct H1 as [u1 [frag [-> Hu1]]].
  assert (H2 : exists u2 query, (match break_at QM u1 with Some (a, b) => (a, b) | None => (u1, []) end) = (u2, query)
                                /\ forallb okc u2 = true /\ forallb okq query = true).
  { destruct (break_at QM u1) as [[a b]|] eqn:E.
    - exists a, b. split; [reflexivity|]. apply break_at_spec in E as [-> Hm].
      rewrite forallb_app in Hu1. simpl in Hu1. apply andb_true_iff in Hu1 as [Ha Hb].
      split; [|exact Hb].
      rewrite forallb_forall in *. intros x Hx. unfold okc. rewrite (Ha x Hx), andb_true_r.
      apply negb_true_iff. rewrite byte_eqb_sym. eapply memb_false_neq; eauto.
    - exists u1, []. split; [reflexivity|]. split; [|reflexivity].
      assert (Hm : memb QM u1 = false) by (apply break_at_none_memb, E).
      rewrite forallb_forall in *. intros x Hx. unfold okc. rewrite (Hu1 x Hx), andb_true_r.
      apply negb_true_iff. rewrite byte_eqb_sym. eapply memb_false_neq; eauto. }
  destruct H2 as [u2 [query [-> [Hu2 Hq]]]].
  fold (pp u2). pose proof (pp_pieces okc u2 Hu2) as [Ha [Hb Hc]].
  destruct (pp u2) as [path params]. simpl in *. auto.
Qed.
