(* Proofs/ShQuote.v -- shlex.quote against the bash word parser of Model/Sh.v:
   every list of NUL-free arguments, quoted and joined with spaces, is read back by the parser as exactly those words. *)
From Coq Require Import List Bool NArith Lia.
From MV Require Import Base.Bytes Model.Http1Msg Model.Sh Model.Export.
Import ListNotations.

(* ---- runs that stay inside one level ---- *)
Fixpoint lrun (sub : bool) (lv : level) (l : bytes) : option level :=
  match l with
  | [] => Some lv
  | c :: r => match level_step sub lv c with Cont lv' => lrun sub lv' r | _ => None end
  end.

Lemma lrun_app sub lv a b :
  lrun sub lv (a ++ b) = match lrun sub lv a with Some lv' => lrun sub lv' b | None => None end.
Proof.
  revert lv; induction a as [|c a IH]; intros lv; simpl; auto.
  destruct (level_step sub lv c); auto.
Qed.

Lemma run_app s a b : run s (a ++ b) = match run s a with Some s' => run s' b | None => None end.
Proof.
  revert s; induction a as [|c a IH]; intros s; simpl; auto.
  destruct (step s c); auto.
Qed.

Lemma run_outer_lrun ol l ol' : lrun false ol l = Some ol' -> run (mkSt ol None) l = Some (mkSt ol' None).
Proof.
  revert ol; induction l as [|c l IH]; intros ol H; simpl in *.
  - injection H as <-. reflexivity.
  - unfold step. cbn [inner outer]. destruct (level_step false ol c); try discriminate. apply IH, H.
Qed.

Lemma run_inner_lrun ol il l il' :
  lrun true il l = Some il' -> run (mkSt ol (Some il)) l = Some (mkSt ol (Some il')).
Proof.
  revert il; induction l as [|c l IH]; intros il H; simpl in *.
  - injection H as <-. reflexivity.
  - unfold step. cbn [inner outer]. destruct (level_step true il c); try discriminate. apply IH, H.
Qed.

(* ---- byte facts ---- *)
Definition nonul (s : bytes) : Prop := forallb (fun c => negb (byte_eqb c NUL)) s = true.

Lemma safe_plain c : is_safe c = true -> sh_plain c = true.
Proof.
  assert (H : implb (is_safe c) (sh_plain c) = true)
    by (revert c; apply forall_bytes; vm_compute; reflexivity).
  intros E. rewrite E in H. exact H.
Qed.

Lemma plain_facts c : sh_plain c = true ->
  byte_eqb c NUL = false /\ is_blank c = false /\ byte_eqb c SQUOTE = false /\ byte_eqb c DQUOTE = false
  /\ byte_eqb c BSLASH = false /\ byte_eqb c RPAREN = false /\ byte_eqb c LESS = false.
Proof.
  assert (H : implb (sh_plain c)
     (negb (byte_eqb c NUL) && negb (is_blank c) && negb (byte_eqb c SQUOTE) && negb (byte_eqb c DQUOTE)
      && negb (byte_eqb c BSLASH) && negb (byte_eqb c RPAREN) && negb (byte_eqb c LESS)) = true)
    by (revert c; apply forall_bytes; vm_compute; reflexivity).
  intros E. rewrite E in H. cbn [implb] in H.
  repeat (apply andb_true_iff in H as [H ?]). repeat split; apply negb_true_iff; assumption.
Qed.

Lemma plain_step sub W cu H P c : sh_plain c = true ->
  level_step sub (mkLv U W cu H P) c = Cont (addc (mkLv U W cu H P) c).
Proof.
  intros E. destruct (plain_facts c E) as (A1 & A2 & A3 & A4 & A5 & A6 & A7).
  unfold level_step. cbn [lx]. rewrite A1, A2, A3, A4, A5, A6, A7, E. reflexivity.
Qed.

Definition cur_app (cu : option bytes) (w : bytes) : option bytes :=
  Some (match cu with Some x => x | None => [] end ++ w).

Lemma lrun_plain sub W cu H P w : forallb sh_plain w = true -> w <> [] ->
  lrun sub (mkLv U W cu H P) w = Some (mkLv U W (cur_app cu w) H P).
Proof.
  revert cu; induction w as [|c w IH]; intros cu F NE; [contradiction|].
  simpl in F. apply andb_true_iff in F as [Fc Fw].
  cbn [lrun]. rewrite plain_step by exact Fc. unfold addc, addbytes, cur_or_nil. cbn [lx ws cur here hpend].
  destruct w as [|d w].
  - reflexivity.
  - rewrite IH by (auto; discriminate). unfold cur_app. rewrite <- app_assoc. reflexivity.
Qed.

(* ---- inside single quotes ---- *)
Lemma sq_step sub W w H P c : byte_eqb c NUL = false -> byte_eqb c SQUOTE = false ->
  level_step sub (mkLv SQ W (Some w) H P) c = Cont (mkLv SQ W (Some (w ++ [c])) H P).
Proof. intros A B. unfold level_step. cbn [lx]. rewrite A, B. reflexivity. Qed.

Lemma lrun_sq_escape sub W w H P s : nonul s ->
  lrun sub (mkLv SQ W (Some w) H P) (sq_escape s ++ [SQUOTE]) = Some (mkLv U W (Some (w ++ s)) H P).
Proof.
  unfold nonul. revert w; induction s as [|c s IH]; intros w N.
  - simpl. rewrite app_nil_r. reflexivity.
  - simpl in N. apply andb_true_iff in N as [Nc Ns]. apply negb_true_iff in Nc.
    cbn [sq_escape]. rewrite <- app_assoc, lrun_app.
    destruct (byte_eqb c x27) eqn:Q.
    + apply byte_eqb_eq in Q. subst c.
      assert (E : lrun sub (mkLv SQ W (Some w) H P) SQ_ESC = Some (mkLv SQ W (Some (w ++ [x27])) H P)).
      { unfold SQ_ESC. cbn. unfold set_lx, addc, addbytes, cur_or_nil. cbn. rewrite !app_nil_r. reflexivity. }
      rewrite E, IH by exact Ns. rewrite <- app_assoc. reflexivity.
    + cbn [lrun]. rewrite sq_step by assumption. rewrite IH by exact Ns. rewrite <- app_assoc. reflexivity.
Qed.

(* ---- one quoted argument, starting a new word ---- *)
Lemma open_sq sub W H P : level_step sub (mkLv U W None H P) x27 = Cont (mkLv SQ W (Some []) H P).
Proof. reflexivity. Qed.

Lemma lrun_quote sub W H P w : nonul w ->
  lrun sub (mkLv U W None H P) (quote w) = Some (mkLv U W (Some w) H P).
Proof.
  intros N. unfold quote. destruct w as [|c w].
  - reflexivity.
  - destruct (forallb is_safe (c :: w)) eqn:S.
    + rewrite lrun_plain; [reflexivity| |discriminate].
      rewrite forallb_forall in S. apply forallb_forall. intros x Hx. apply safe_plain, S, Hx.
    + change ([x27] ++ sq_escape (c :: w) ++ [x27]) with (x27 :: (sq_escape (c :: w) ++ [SQUOTE])).
      cbn [lrun]. rewrite open_sq.
      exact (lrun_sq_escape sub W [] H P (c :: w) N).
Qed.

(* ---- a space-joined list of quoted arguments ---- *)
Lemma blank_step sub W w H c : is_blank c = true ->
  level_step sub (mkLv U W (Some w) H false) c = Cont (mkLv U (W ++ [w]) None H false).
Proof.
  intros B. unfold level_step. cbn [lx].
  assert (Z : byte_eqb c NUL = false).
  { unfold is_blank in B. destruct (byte_eqb c NUL) eqn:E; auto. apply byte_eqb_eq in E. subst c. discriminate. }
  rewrite Z, B. reflexivity.
Qed.

Lemma lrun_join sub W H a args : Forall nonul (a :: args) ->
  lrun sub (mkLv U W None H false) (join_sp (map quote (a :: args)))
  = Some (mkLv U (W ++ removelast (a :: args)) (Some (last (a :: args) [])) H false).
Proof.
  revert W a; induction args as [|b args IH]; intros W a F.
  - cbn [map join_sp]. rewrite app_nil_r. inversion F; subst. rewrite lrun_quote by assumption.
    simpl. rewrite app_nil_r. reflexivity.
  - inversion F as [|x l Na F']; subst.
    change (join_sp (map quote (a :: b :: args)))
      with (quote a ++ [x20] ++ join_sp (map quote (b :: args))).
    rewrite lrun_app, lrun_quote by assumption.
    change ([x20] ++ join_sp (map quote (b :: args))) with (x20 :: join_sp (map quote (b :: args))).
    cbn [lrun]. rewrite blank_step by reflexivity.
    rewrite IH by assumption.
    change (removelast (a :: b :: args)) with (a :: removelast (b :: args)).
    change (last (a :: b :: args) []) with (last (b :: args) []).
    rewrite <- app_assoc. reflexivity.
Qed.

Lemma removelast_last (l : list bytes) : l <> [] -> removelast l ++ [last l []] = l.
Proof. intros NE. symmetry. apply app_removelast_last, NE. Qed.

(* the state reached after a joined argument list, with the last word still open *)
Definition after_args (W : list bytes) (H : option bytes) (args : list bytes) : level :=
  mkLv U (W ++ removelast args) (Some (last args [])) H false.

Lemma endword_after_args W H args : args <> [] ->
  endword (after_args W H args) = mkLv U (W ++ args) None H false.
Proof.
  intros NE. unfold after_args, endword. cbn [cur hpend lx ws here].
  rewrite <- app_assoc, removelast_last by exact NE. reflexivity.
Qed.

(* ---- main theorem for shlex.quote ---- *)
Theorem quote_join_roundtrip : forall args,
  args <> [] -> Forall nonul args -> cmd_name_ok (hd [] args) = true ->
  sh_eval (join_sp (map quote args)) = ShRun args None.
Proof.
  intros args NE F OK. destruct args as [|a args]; [contradiction|].
  unfold sh_eval, st0, lv0.
  rewrite (run_outer_lrun _ _ _ (lrun_join false [] None a args F)).
  unfold finish. cbn [inner outer lx].
  change (mkLv U ([] ++ removelast (a :: args)) (Some (last (a :: args) [])) None false)
    with (after_args [] None (a :: args)).
  rewrite endword_after_args by discriminate. cbn [hpend ws here app].
  cbn [hd] in OK. rewrite OK. reflexivity.
Qed.

