(* Proofs/ViewSteps2.v -- remove, add and update. *)
From Coq Require Import List Bool Arith NArith ZArith Lia Permutation Sorted.
From MV Require Import Base.Bytes Model.View Proofs.ViewBase Proofs.ViewSpec Proofs.ViewPrim Proofs.ViewOps Proofs.ViewSteps.
Import ListNotations.

Lemma bind_ret_r (m : M unit) s : bind m (fun _ => ret tt) s = m s.
Proof. unfold bind, ret. destruct (m s) as [[[] s']|e]; reflexivity. Qed.

Lemma CoreV_remove s s' k id l1 l2 : CoreV s -> updm s s' -> view s = l1 ++ (k, id) :: l2 -> view s' = l1 ++ l2 ->
  CoreV s' /\ ~ In id (raw_ids s') /\ Permutation (raw_ids s) (id :: raw_ids s').
Proof.
  intros C U V V'. pose proof (u_cfg _ _ (um_upd _ _ U)) as Cf.
  assert (Nd : NoDup (map snd (l1 ++ (k, id) :: l2))) by (rewrite <- V; apply (c_nodup _ C)).
  destruct (NoDup_ids_split _ _ _ _ Nd) as [Hn Nd'].
  split; [|split].
  - constructor.
    + rewrite (ce_store _ _ Cf). apply (c_store _ C).
    + rewrite V'. apply (ksorted_app_remove l1 (k, id) l2). rewrite <- V. apply (c_sorted _ C).
    + intros k' id' H. rewrite V' in H.
      assert (H1 : In (k', id') (view s)) by (rewrite V; apply in_app_iff in H; apply in_or_app; simpl; tauto).
      destruct (c_cached _ C _ _ H1) as [A B]. rewrite (ce_store _ _ Cf), (ce_okey _ _ Cf).
      split; [exact A | apply (um_mono _ _ U); exact B].
    + unfold raw_ids. rewrite V'. exact Nd'.
  - unfold raw_ids. rewrite V'. exact Hn.
  - unfold raw_ids. rewrite V, V', !map_app. simpl. symmetry. apply Permutation_middle.
Qed.

Lemma in_perm_cons (l l' : list N) id x : Permutation l (id :: l') -> x <> id -> (In x l' <-> In x l).
Proof.
  intros P Hne. split; intros H.
  - apply (Permutation_in _ (Permutation_sym P)). right. exact H.
  - apply (Permutation_in _ P) in H. destruct H as [H|H]; [congruence | exact H].
Qed.

(* ---------- remove ---------- *)
Definition del_pre (id : N) (t : state) : state :=
  set_log (log t ++ [StoreRemove id]) (set_store (filter (fun i => negb (N.eqb i id)) (store t)) t).
Definition del_store (id : N) (t : state) : state :=
  set_settings (sdel (settings (del_pre id t)) id) (del_pre id t).

Lemma remove_tail s t id :
  Inv s -> upd s t -> CoreV t -> FocusOk t -> ~ In id (raw_ids t) ->
  (forall x, x <> id -> (In x (raw_ids t) <-> In x (raw_ids s))) ->
  Inv (del_store id t) /\ (M3 s -> M3 (del_store id t)) /\ (FreshV t -> FreshV (del_store id t)).
Proof.
  intros I U C F Hn Hm. pose proof (u_cfg _ _ U) as Cf.
  set (p := fun i => negb (N.eqb i id)).
  assert (Pne : forall x, p x = true <-> x <> id).
  { intros x. unfold p. rewrite negb_true_iff. apply N.eqb_neq. }
  assert (Co : forall x o, cache_of (del_store id t) x o = if p x then cache_of t x o else None).
  { intros x o. unfold del_store, sdel. apply (cache_of_filter (del_pre id t) p). }
  assert (At : forall x, attr (del_store id t) x = attr s x) by (intros x; apply (attr_cfg _ _ x Cf)).
  assert (Vw : raw_ids (del_store id t) = raw_ids t) by reflexivity.
  assert (St : forall x, In x (store (del_store id t)) <-> In x (store s) /\ x <> id).
  { intros x. simpl. rewrite filter_In, (ce_store _ _ Cf). fold (p x). rewrite Pne. tauto. }
  assert (Fl : filt (del_store id t) = filt s) by apply (ce_filt _ _ Cf).
  assert (Sm : show_marked (del_store id t) = show_marked s) by apply (ce_sm _ _ Cf).
  assert (Vne : forall x, In x (raw_ids t) -> x <> id) by (intros x H ->; auto).
  split; [|split].
  - constructor.
    + destruct C as [H1 H2 H3 H4]. constructor.
      * simpl. apply NoDup_filter. exact H1.
      * exact H2.
      * intros k x H. change (view (del_store id t)) with (view t) in H. destruct (H3 _ _ H) as [Ha Hb].
        assert (x <> id) by (apply Vne; eapply in_ids; eauto).
        split; [apply St; split; [rewrite <- (ce_store _ _ Cf); exact Ha | assumption]|].
        rewrite Co. replace (p x) with true by (symmetry; apply Pne; assumption). exact Hb.
      * exact H4.
    + intros x H. unfold del_store, sdel in H. apply (sids_filter (del_pre id t) p) in H as [H1 H2]. apply St.
      split; [|apply Pne; exact H1]. simpl in H2.
      destruct (u_ids _ _ U _ H2) as [H3|H3]; [apply (i_sids _ I); exact H3 | exact H3].
    + exact F.
    + intros x H. rewrite Vw in H. rewrite At, Fl. apply (i_m1 _ I). apply Hm; auto.
    + intros x H Hw. rewrite Vw. apply St in H as [H Hne]. apply Hm; [exact Hne|].
      apply (i_m2 _ I); [exact H|]. unfold wanted in *. rewrite At, Fl, Sm in Hw. exact Hw.
  - intros H3 Hs x H. rewrite Vw in H. rewrite At. rewrite Sm in Hs. apply H3; [exact Hs|]. apply Hm; auto.
  - intros Fr k x H. exact (Fr k x H).
Qed.

Lemma do_remove id s : Inv s -> log s = [] -> exists s', do_op (Remove id) s = Ok (tt, s') /\ post (Remove id) s s'.
Proof.
  intros I L. simpl. unfold remove. simpl forM. rewrite bind_ret_r. msimp.
  pose proof (i_core _ I) as C.
  destruct (memN id (store s)) eqn:Em.
  2:{ exists s. split; [reflexivity|]. apply post_simple; auto; [apply updm_refl | apply (i_focus _ I) | rewrite L; apply n_done; reflexivity]. }
  destruct (view_contains_spec id s C) as (b & s1 & E1 & X1 & Hb). rewrite (bind_ok _ _ _ _ _ E1).
  assert (C1 : CoreV s1) by (apply (CoreV_updm s s1); [apply (e_updm _ _ X1) | apply (e_view _ _ X1) | exact C]).
  assert (R1 : raw_ids s1 = raw_ids s) by (unfold raw_ids; rewrite (e_view _ _ X1); reflexivity).
  destruct b.
  - assert (Hin : In id (raw_ids s)) by (apply Hb; reflexivity).
    assert (Hin1 : In id (raw_ids s1)) by (rewrite R1; exact Hin).
    msimp. destruct (view_index_spec id s1 C1 Hin1) as (idx & s2 & E2 & X2 & Hnth). rewrite (bind_ok _ _ _ _ _ E2). msimp.
    assert (C2 : CoreV s2) by (apply (CoreV_updm s1 s2); [apply (e_updm _ _ X2) | apply (e_view _ _ X2) | exact C1]).
    assert (R2 : raw_ids s2 = raw_ids s) by (unfold raw_ids; rewrite (e_view _ _ X2); exact R1).
    assert (Hin2 : In id (raw_ids s2)) by (rewrite R2; exact Hin).
    destruct (view_remove_spec id s2 C2 Hin2) as (s3 & E3 & U3 & F3 & L3 & k & l1 & l2 & V2 & V3).
    rewrite (bind_ok _ _ _ _ _ E3).
    destruct (CoreV_remove s2 s3 k id l1 l2 C2 U3 V2 V3) as (C3 & Hn3 & P3). rewrite R2 in P3.
    assert (Fs : focus s3 = focus s) by (rewrite F3, (e_focus _ _ X2), (e_focus _ _ X1); reflexivity).
    assert (Hf3 : match focus s3 with Some g => g = id \/ In g (raw_ids s3) | None => False end).
    { rewrite Fs. pose proof (i_focus _ I) as F. unfold FocusOk in F. destruct (focus s) as [g|].
      - destruct (N.eq_dec g id) as [->|Hne]; [left; reflexivity | right; apply (in_perm_cons _ _ _ _ P3 Hne); exact F].
      - unfold raw_ids in Hin. rewrite F in Hin. destruct Hin. }
    destruct (send_view_remove_spec id idx s3 C3 Hf3) as (s4 & E4 & X4 & F4).
    rewrite (bind_ok _ _ _ _ _ E4). unfold send_store_remove, emit, settings_sig_store_remove. msimp.
    exists (del_store id s4). split; [reflexivity|].
    assert (U : upd s s4).
    { eapply upd_trans; [apply (um_upd _ _ (e_updm _ _ X1))|]. eapply upd_trans; [apply (um_upd _ _ (e_updm _ _ X2))|].
      eapply upd_trans; [apply (um_upd _ _ U3) | apply (um_upd _ _ (sn_updm _ _ _ X4))]. }
    assert (R4 : raw_ids s4 = raw_ids s3) by apply (sent_raw_ids _ _ _ X4).
    destruct (remove_tail s s4 id I U (sent_CoreV _ _ _ X4 C3) F4) as (A1 & A2 & A3).
    { rewrite R4. exact Hn3. }
    { intros x Hne. rewrite R4. apply (in_perm_cons _ _ _ _ P3 Hne). }
    split; [exact A1|]. split; [intros H; auto|]. split.
    { intros Fr. apply A3. intros k' x H. rewrite (sn_view _ _ _ X4), V3 in H.
      rewrite (ce_okey _ _ (u_cfg _ _ U)), (attr_cfg _ _ x (u_cfg _ _ U)). apply Fr.
      rewrite <- (e_view _ _ X1), <- (e_view _ _ X2), V2. apply in_app_iff in H. apply in_or_app. simpl. tauto. }
    change (raw_ids (del_store id s4)) with (raw_ids s4). change (log (del_store id s4)) with (log s4 ++ [StoreRemove id]).
    rewrite (sn_log _ _ _ X4), L3, (e_log _ _ X2), (e_log _ _ X1), L. simpl.
    apply (n_remove id idx _ (raw_ids s3)); [rewrite <- R1; exact Hnth | exact P3 | exact Hn3 |].
    apply n_sremove, n_done. rewrite R4. reflexivity.
  - msimp. unfold send_store_remove, emit, settings_sig_store_remove. msimp.
    exists (del_store id s1). split; [reflexivity|].
    assert (Hn : ~ In id (raw_ids s1)).
    { rewrite R1. intros H. apply Hb in H. discriminate. }
    destruct (remove_tail s s1 id I (um_upd _ _ (e_updm _ _ X1)) C1) as (A1 & A2 & A3); auto.
    { eapply FocusOk_eq; [apply (e_view _ _ X1) | apply (e_focus _ _ X1) | apply (i_focus _ I)]. }
    { intros x _. rewrite R1. tauto. }
    split; [exact A1|]. split; [intros H; auto|]. split.
    { intros Fr. apply A3. eapply FreshV_cfg; [apply (u_cfg _ _ (um_upd _ _ (e_updm _ _ X1))) | apply (e_view _ _ X1) | exact Fr]. }
    change (raw_ids (del_store id s1)) with (raw_ids s1). change (log (del_store id s1)) with (log s1 ++ [StoreRemove id]).
    rewrite (e_log _ _ X1), L. simpl. apply n_sremove, n_done. rewrite R1. reflexivity.
Qed.

(* ---------- showing a flow: _base_add, focus_follow, sig_view_add (shared by add and update) ---------- *)
Definition show_flow (id : N) : M unit :=
  _base_add id ;;;
  ff <- gets focus_follow ;;
  (if ff then focus_set_flow (Some id) else ret tt) ;;;
  send_view_add id.

Lemma show_flow_spec id s : CoreV s -> In id (store s) -> ~ In id (raw_ids s) ->
  (forall g, focus s = Some g -> In g (raw_ids s)) ->
  exists s', show_flow id s = Ok (tt, s') /\ upd s s' /\ CoreV s' /\ FocusOk s'
  /\ Permutation (raw_ids s') (id :: raw_ids s) /\ log s' = log s ++ [ViewAdd id] /\ (FreshV s -> FreshV s')
  /\ view s' = sl_add (generate (okey s) (attr s id)) id (view s).
Proof.
  intros C Hst Hn Hf. unfold show_flow.
  destruct (base_add_spec id s C Hst Hn) as (s1 & E1 & U1 & F1 & L1 & C1 & P1 & V1).
  rewrite (bind_ok _ _ _ _ _ E1). msimp.
  assert (Hin1 : In id (raw_ids s1)) by (apply (Permutation_in _ (Permutation_sym P1)); left; reflexivity).
  assert (G : exists s2, (if focus_follow s1 then focus_set_flow (Some id) else ret tt) s1 = Ok (tt, s2)
              /\ foc s1 s2 /\ (forall g, focus s2 = Some g -> In g (raw_ids s2))).
  { destruct (focus_follow s1).
    - destruct (focus_set_flow_some id s1 C1 Hin1) as (s2 & E2 & X2 & Hf2).
      exists s2. split; [exact E2|]. split; [exact X2|]. intros g Hg. rewrite (raw_ids_foc _ _ X2). congruence.
    - exists s1. split; [reflexivity|]. split; [apply foc_ext, ext_refl|].
      intros g Hg. rewrite F1 in Hg. apply (Permutation_in _ (Permutation_sym P1)). right. auto. }
  destruct G as (s2 & E2 & X2 & Hf2). rewrite (bind_ok _ _ _ _ _ E2).
  assert (C2 : CoreV s2) by (eapply CoreV_foc; eauto).
  assert (R2 : raw_ids s2 = raw_ids s1) by apply (raw_ids_foc _ _ X2).
  assert (Hin2 : In id (raw_ids s2)) by (rewrite R2; exact Hin1).
  destruct (send_view_add_spec id s2 C2 Hin2 Hf2) as (s3 & E3 & X3 & F3).
  exists s3. split; [exact E3|].
  split; [eapply upd_trans; [exact U1 | apply um_upd; eapply updm_trans; [apply (f_updm _ _ X2) | apply (sn_updm _ _ _ X3)]]|].
  split; [eapply sent_CoreV; eauto|]. split; [exact F3|].
  split; [rewrite (sent_raw_ids _ _ _ X3), R2; exact P1|].
  split; [rewrite (sn_log _ _ _ X3), (f_log _ _ X2), L1; reflexivity|].
  split; [|rewrite (sn_view _ _ _ X3), (f_view _ _ X2); exact V1].
  intros Fr. eapply FreshV_cfg; [apply (u_cfg _ _ (um_upd _ _ (sn_updm _ _ _ X3))) | apply (sn_view _ _ _ X3)|].
  eapply FreshV_cfg; [apply (u_cfg _ _ (um_upd _ _ (f_updm _ _ X2))) | apply (f_view _ _ X2)|].
  eapply FreshV_add; [apply (u_cfg _ _ U1) | exact V1 | exact Fr].
Qed.

(* ---------- add ---------- *)
Lemma do_add f s : Inv s -> log s = [] -> exists s', do_op (Add f) s = Ok (tt, s') /\ post (Add f) s s'.
Proof.
  intros I L. simpl. unfold add. simpl forM. rewrite bind_ret_r. rewrite bind_gets.
  pose proof (i_core _ I) as C.
  destruct (memN (fid f) (store s)) eqn:Em.
  { exists s. split; [reflexivity|]. apply post_simple; auto; [apply updm_refl | apply (i_focus _ I) | rewrite L; apply n_done; reflexivity]. }
  apply memN_false in Em. rewrite bind_modify.
  set (id := fid f) in *.
  set (s0 := set_store (store s ++ [id]) (set_heap (hset (heap s) f) s)).
  rewrite bind_gets.
  assert (At : forall x, attr s0 x = if N.eqb id x then f else attr s x) by (intros x; unfold attr; simpl; apply hget_hset).
  assert (Atid : attr s0 id = f) by (rewrite At, N.eqb_refl; reflexivity).
  assert (Atne : forall x, In x (store s) -> attr s0 x = attr s x).
  { intros x H. rewrite At. destruct (N.eqb id x) eqn:E; [apply N.eqb_eq in E; subst x; contradiction | reflexivity]. }
  assert (Vst : forall x, In x (raw_ids s) -> In x (store s)).
  { intros x H. apply in_ids_split in H as [k H]. apply (c_cached _ C _ _ H). }
  assert (Hn : ~ In id (raw_ids s)) by (intros H; apply Em, Vst, H).
  assert (C0 : CoreV s0).
  { destruct C as [H1 H2 H3 H4]. constructor; simpl; auto.
    - apply Permutation_NoDup with (l := id :: store s); [apply Permutation_cons_append | constructor; assumption].
    - intros k x H. destruct (H3 _ _ H) as [Ha Hb]. split; [apply in_or_app; left; exact Ha | exact Hb]. }
  assert (Fr0 : FreshV s -> FreshV s0).
  { intros Fr k x H. change (okey s0) with (okey s). rewrite Atne; [apply Fr; exact H|].
    apply Vst. eapply in_ids; eauto. }
  assert (Si0 : SidsOk s0).
  { intros x H. simpl. apply in_or_app. left. apply (i_sids _ I). exact H. }
  destruct (shows s0 f) eqn:Esh.
  - apply shows_true in Esh as [Emf Emk].
    change (_base_add id ;;; ff <- gets focus_follow ;; (if ff then focus_set_flow (Some id) else ret tt) ;;; send_view_add id)
      with (show_flow id).
    assert (Hst0 : In id (store s0)) by (simpl; apply in_or_app; right; left; reflexivity).
    assert (Hf0 : forall g, focus s0 = Some g -> In g (raw_ids s0)).
    { intros g Hg. pose proof (i_focus _ I) as F. unfold FocusOk in F. change (focus s0) with (focus s) in Hg. rewrite Hg in F. exact F. }
    destruct (show_flow_spec id s0 C0 Hst0 Hn Hf0) as (s1 & E1 & U1 & C1 & F1 & P1 & L1 & Fv1 & _).
    exists s1. split; [exact E1|].
    pose proof (u_cfg _ _ U1) as Cf.
    assert (Mem : forall x, In x (raw_ids s1) <-> x = id \/ In x (raw_ids s)).
    { intros x. split; intros H.
      - apply (Permutation_in _ P1) in H. destruct H; auto.
      - apply (Permutation_in _ (Permutation_sym P1)). destruct H; [left; auto | right; exact H]. }
    split; [|split; [|split]].
    + constructor; auto.
      * eapply Sids_upd; [exact U1 | exact Si0].
      * intros x H. rewrite (attr_cfg _ _ x Cf), (ce_filt _ _ Cf). apply Mem in H. destruct H as [->|H].
        { rewrite Atid. exact Emf. }
        { rewrite Atne by auto. apply (i_m1 _ I). exact H. }
      * intros x H Hw. apply Mem. rewrite (ce_store _ _ Cf) in H. simpl in H. apply in_app_iff in H.
        destruct H as [H|[H|[]]]; [|left; auto]. right. apply (i_m2 _ I); [exact H|].
        unfold wanted in *. rewrite (attr_cfg _ _ x Cf), (ce_filt _ _ Cf), (ce_sm _ _ Cf), Atne in Hw by exact H. exact Hw.
    + intros H3 Hs x H. rewrite (ce_sm _ _ Cf) in Hs. rewrite (attr_cfg _ _ x Cf). apply Mem in H. destruct H as [->|H].
      * rewrite Atid. apply Emk. exact Hs.
      * rewrite Atne by auto. apply H3; auto.
    + intros Fr. apply Fv1, Fr0, Fr.
    + rewrite L1. simpl. rewrite L. simpl. apply (n_add id _ (raw_ids s1)); [exact Hn | symmetry; exact P1 | apply n_done; reflexivity].
  - exists s0. split; [reflexivity|]. split; [|split; [|split]].
    + constructor; auto.
      * apply (i_focus _ I).
      * intros x H. rewrite Atne by auto. apply (i_m1 _ I). exact H.
      * intros x H Hw. simpl in H. apply in_app_iff in H. destruct H as [H|[H|[]]].
        { apply (i_m2 _ I); [exact H|]. unfold wanted in *. rewrite Atne in Hw by exact H. exact Hw. }
        { subst x. rewrite <- shows_wanted, Atid, Esh in Hw. discriminate. }
    + intros H3 Hs x H. rewrite Atne by auto. apply H3; auto.
    + intros Fr. apply Fr0, Fr.
    + simpl. rewrite L. apply n_done. reflexivity.
Qed.
