(* Proofs/WsSource.v -- frame_buf bookkeeping: while the connection is open, the messages recorded
   for a side (type, injected flag, original content, fragment lengths) are exactly the reassembly
   of that side's stream of message events (received frames and injected fragments, in arrival
   order), with the frame boundaries wsproto reported. *)
From Coq Require Import List Bool Arith NArith Lia.
From MV Require Import Base.Bytes Model.WsUtf8 Model.Websocket Proofs.WsFragment Proofs.WsRelay Proofs.WsRelay2.
Import ListNotations.

(* is_text, data, frame_finished, message_finished, injected *)
Definition item := (bool * bytes * bool * bool * bool)%type.

Definition item_of (inj : bool) (e : wsevent) : list item :=
  match e with
  | WText d ff mf => [(true, encode d, ff, mf, inj)]
  | WBytes d ff mf => [(false, d, ff, mf, inj)]
  | _ => []
  end.

(* message events of side c carried by one layer event *)
Definition stream_of (fs : nat) (c : bool) (l : levent) : list item :=
  match l with
  | LData fc evs => if Bool.eqb fc c then flat_map (fun e => item_of false (fst e)) evs else []
  | LInject fc t content =>
    if Bool.eqb fc c
    then match fragmentize fs [] t content with Some es => flat_map (item_of true) es | None => [] end
    else []
  | LClosed _ => []
  end.

(* reference reassembly with frame boundaries: the buffers of each finished message *)
Fixpoint collect (done : list bytes) (cur : bytes) (its : list item) : list (bool * bool * list bytes) :=
  match its with
  | [] => []
  | (t, d, ff, mf, inj) :: r =>
    if mf then (t, inj, done ++ [cur ++ d]) :: collect [] [] r
    else if ff then collect (done ++ [cur ++ d]) [] r
    else collect done (cur ++ d) r
  end.

Fixpoint collect_state (done : list bytes) (cur : bytes) (its : list item) : list bytes * bytes :=
  match its with
  | [] => (done, cur)
  | (t, d, ff, mf, inj) :: r =>
    if mf then collect_state [] [] r
    else if ff then collect_state (done ++ [cur ++ d]) [] r
    else collect_state done (cur ++ d) r
  end.

Lemma collect_app : forall a b done cur,
  collect done cur (a ++ b)
  = collect done cur a ++ collect (fst (collect_state done cur a)) (snd (collect_state done cur a)) b.
Proof.
  induction a as [|[[[[t d] ff] mf] inj] a IH]; intros b done cur; [reflexivity|].
  cbn [app collect collect_state]. destruct mf; [cbn [app]; f_equal; apply IH|]. destruct ff; apply IH.
Qed.

Lemma collect_state_app : forall a b done cur,
  collect_state done cur (a ++ b)
  = collect_state (fst (collect_state done cur a)) (snd (collect_state done cur a)) b.
Proof.
  induction a as [|[[[[t d] ff] mf] inj] a IH]; intros b done cur; [reflexivity|].
  cbn [app collect_state]. destruct mf; [apply IH|]. destruct ff; apply IH.
Qed.

Definition rec_view (m : wsmessage) := (m_text m, m_injected m, m_orig m, m_lens m).
Definition col_view (x : bool * bool * list bytes) :=
  (fst (fst x), snd (fst x), concat (snd x), map (@length byte) (snd x)).
Definition from (c : bool) (m : wsmessage) : bool := Bool.eqb (m_from_client m) c.
Definition fbs (c : bool) (s : lstate) : list bytes * bytes := (fb_done (get_ws c s), fb_cur (get_ws c s)).

Definition src_ok (c : bool) (s s1 : lstate) (its : list item) (new : list wsmessage) : Prop :=
  map rec_view (filter (from c) new) = map col_view (collect (fst (fbs c s)) (snd (fbs c s)) its)
  /\ fbs c s1 = collect_state (fst (fbs c s)) (snd (fbs c s)) its.

Lemma src_ok_trans c s s1 s2 i1 i2 n1 n2 :
  src_ok c s s1 i1 n1 -> src_ok c s1 s2 i2 n2 -> src_ok c s s2 (i1 ++ i2) (n1 ++ n2).
Proof.
  intros [A1 B1] [A2 B2]. split.
  - rewrite filter_app, map_app, collect_app, map_app, A1, <- B1, A2. reflexivity.
  - rewrite collect_state_app, <- B1. exact B2.
Qed.

Lemma src_ok_refl c s : src_ok c s s [] [].
Proof. split; [reflexivity|]. unfold fbs. reflexivity. Qed.

Lemma src_ok_fbs c s s' s1 its new : fbs c s' = fbs c s -> src_ok c s' s1 its new -> src_ok c s s1 its new.
Proof. unfold src_ok. intros ->. auto. Qed.

(* ---- sending never touches the frame buffers ---- *)
Lemma ws_send_fb c e c' : ws_send c e = Some c' -> fb_done c' = fb_done c /\ fb_cur c' = fb_cur c.
Proof.
  unfold ws_send. destruct e; destruct (cstate c); intros H; try discriminate H; injection H as <-; auto.
Qed.

Lemma fbs_set_ws c t x s : fbs c (set_ws t x s) = if Bool.eqb t c then (fb_done x, fb_cur x) else fbs c s.
Proof. destruct c, t; reflexivity. Qed.

Lemma send2_fbs t e s s1 cs : send2 t e s = (s1, cs) -> forall c, fbs c s1 = fbs c s.
Proof.
  unfold send2. destruct (is_crashed s); [intros H; injection H as <- _; reflexivity|].
  destruct (ws_send (get_ws t s) e) as [c'|] eqn:W; intros H; injection H as <- _; intros c.
  - rewrite fbs_set_ws. destruct (ws_send_fb _ _ _ W) as [-> ->].
    destruct t, c; reflexivity.
  - destruct c; reflexivity.
Qed.

Lemma send_all_fbs t es : forall s s1 cs, send_all t es s = (s1, cs) -> forall c, fbs c s1 = fbs c s.
Proof.
  induction es as [|e es IH]; intros s s1 cs H c; cbn [send_all] in H; [injection H as <- _; reflexivity|].
  destruct (send2 t e s) as [sa ca] eqn:E1. destruct (send_all t es sa) as [sb cb] eqn:E2. injection H as <- _.
  rewrite (IH _ _ _ E2 c). exact (send2_fbs _ _ _ _ _ E1 c).
Qed.

(* ---- the Message branch ---- *)
Lemma on_message_src fs addon fc inj t d ff mf s s1 cs :
  on_message fs addon fc inj t d ff mf s = (s1, cs) -> is_crashed s1 = false ->
  exists new, messages s1 = messages s ++ new
  /\ forall c, src_ok c s s1 (if Bool.eqb fc c then [(t, d, ff, mf, inj)] else []) new.
Proof.
  unfold on_message. intros H NC. destruct mf.
  - rewrite set_ws_messages in H. destruct (addon _) as [content' dropped'] eqn:EA.
    set (bufs := fb_done (get_ws fc s) ++ [fb_cur (get_ws fc s) ++ d]) in *.
    set (m' := mkMsg t fc content' dropped' inj _ _) in H.
    set (s2 := set_messages _ _) in H.
    assert (F2 : forall c, fbs c s2 = if Bool.eqb fc c then ([], []) else fbs c s).
    { intros c. unfold s2. destruct c, fc; reflexivity. }
    assert (G : forall s3, messages s3 = messages s ++ [m'] -> (forall c, fbs c s3 = fbs c s2) ->
                forall c, src_ok c s s3 (if Bool.eqb fc c then [(t, d, ff, true, inj)] else []) [m']).
    { intros s3 M3 F3 c. unfold src_ok. rewrite F3, F2. cbn [filter from m_from_client m'].
      unfold from. cbn [m_from_client m']. destruct (Bool.eqb fc c) eqn:E.
      - cbn. unfold fbs. apply Bool.eqb_prop in E. subst c. split; reflexivity.
      - cbn. split; [reflexivity|]. unfold fbs; reflexivity. }
    destruct dropped'.
    + injection H as <- <-. exists [m']. split; [reflexivity|]. apply G; [reflexivity|reflexivity].
    + destruct (fragmentize fs _ t content') as [es|]; [|injection H as <- _; cbn in NC; discriminate].
      destruct (send_all (negb fc) es s2) as [s3 c3] eqn:ES. injection H as <- <-.
      destruct (send_all_inv _ _ _ _ _ ES NC) as (_ & M3 & _).
      exists [m']. split; [rewrite M3; reflexivity|]. apply G; [rewrite M3; reflexivity|].
      exact (send_all_fbs _ _ _ _ _ ES).
  - destruct ff; injection H as <- <-; exists []; (split; [rewrite set_ws_messages; symmetry; apply app_nil_r|]);
      intros c; unfold src_ok; rewrite fbs_set_ws; cbn [fb_done fb_cur];
      destruct (Bool.eqb fc c) eqn:E; cbn;
      try (apply Bool.eqb_prop in E; subst c; unfold fbs; split; reflexivity);
      (split; [reflexivity|]; unfold fbs; reflexivity).
Qed.

Lemma process_event_src fs addon fc inj s ev st s1 cs : is_close_ev ev = false ->
  process_event fs addon fc inj s (ev, st) = (s1, cs) -> is_crashed s = false -> is_crashed s1 = false ->
  exists new, messages s1 = messages s ++ new
  /\ forall c, src_ok c s s1 (if Bool.eqb fc c then item_of inj ev else []) new.
Proof.
  intros K. unfold process_event. intros H C NC. rewrite C in H.
  set (s0 := set_ws fc _ s) in H.
  assert (M0 : messages s0 = messages s) by apply set_ws_messages.
  assert (F0 : forall c, fbs c s0 = fbs c s).
  { intros c. unfold s0. rewrite fbs_set_ws. destruct (Bool.eqb fc c) eqn:E; [|reflexivity].
    apply Bool.eqb_prop in E. subst c. reflexivity. }
  destruct ev as [d ff mf|d ff mf|p|p|code reason]; try discriminate K.
  - destruct (on_message_src _ _ _ _ _ _ _ _ _ _ _ H NC) as (new & M & S).
    exists new. split; [congruence|]. intros c. apply (src_ok_fbs _ _ _ _ _ _ (F0 c)). apply S.
  - destruct (on_message_src _ _ _ _ _ _ _ _ _ _ _ H NC) as (new & M & S).
    exists new. split; [congruence|]. intros c. apply (src_ok_fbs _ _ _ _ _ _ (F0 c)). apply S.
  - destruct (send2 _ _ s0) as [sa ca] eqn:E. injection H as <- <-.
    destruct (send2_inv _ _ _ _ _ E NC) as (_ & Ma & _).
    exists []. split; [rewrite Ma, M0; symmetry; apply app_nil_r|]. intros c.
    replace (if Bool.eqb fc c then item_of inj (WPing p) else []) with (@nil item) by (destruct (Bool.eqb fc c); reflexivity).
    split; [reflexivity|]. rewrite (send2_fbs _ _ _ _ _ E c), F0. unfold fbs; reflexivity.
  - destruct (send2 _ _ s0) as [sa ca] eqn:E. injection H as <- <-.
    destruct (send2_inv _ _ _ _ _ E NC) as (_ & Ma & _).
    exists []. split; [rewrite Ma, M0; symmetry; apply app_nil_r|]. intros c.
    replace (if Bool.eqb fc c then item_of inj (WPong p) else []) with (@nil item) by (destruct (Bool.eqb fc c); reflexivity).
    split; [reflexivity|]. rewrite (send2_fbs _ _ _ _ _ E c), F0. unfold fbs; reflexivity.
Qed.

Lemma process_events_src fs addon fc inj : forall evs s s1 cs,
  Forall (fun e => is_close_ev (fst e) = false) evs ->
  process_events fs addon fc inj s evs = (s1, cs) -> is_crashed s = false -> is_crashed s1 = false ->
  exists new, messages s1 = messages s ++ new
  /\ forall c, src_ok c s s1 (if Bool.eqb fc c then flat_map (fun e => item_of inj (fst e)) evs else []) new.
Proof.
  induction evs as [|e evs IH]; intros s s1 cs NCl H C NC; cbn [process_events] in H.
  - injection H as <- <-. exists []. split; [symmetry; apply app_nil_r|]. intros c.
    destruct (Bool.eqb fc c); apply src_ok_refl.
  - inversion NCl as [|? ? K NCl']; subst.
    destruct (process_event fs addon fc inj s e) as [sa ca] eqn:E1.
    destruct (process_events fs addon fc inj sa evs) as [sb cb] eqn:E2. injection H as <- <-.
    assert (Ca : is_crashed sa = false).
    { destruct (is_crashed sa) eqn:X; [|reflexivity].
      rewrite (process_events_crashed _ _ _ _ _ _ X) in E2. injection E2 as <- <-. congruence. }
    destruct e as [ev st].
    destruct (process_event_src _ _ _ _ _ _ _ _ _ K E1 C Ca) as (n1 & M1 & S1).
    destruct (IH _ _ _ NCl' E2 Ca NC) as (n2 & M2 & S2).
    exists (n1 ++ n2). split; [rewrite M2, M1; symmetry; apply app_assoc|]. intros c.
    specialize (S1 c). specialize (S2 c). cbn [flat_map fst].
    destruct (Bool.eqb fc c); [exact (src_ok_trans _ _ _ _ _ _ _ _ S1 S2)|].
    exact (src_ok_trans _ _ _ _ [] [] _ _ S1 S2).
Qed.

Lemma flat_map_map {A B C} (f : B -> list C) (g : A -> B) l : flat_map f (map g l) = flat_map (fun x => f (g x)) l.
Proof. induction l as [|x l IH]; [reflexivity|]. cbn. rewrite IH. reflexivity. Qed.

Lemma handle_event_src fs addon s e s1 cs : no_close e ->
  handle_event fs addon s e = (s1, cs) -> is_crashed s = false -> is_crashed s1 = false -> finished s = false ->
  exists new, messages s1 = messages s ++ new /\ forall c, src_ok c s s1 (stream_of fs c e) new.
Proof.
  intros NCl H C NC F. unfold handle_event in H. rewrite F, C in H. cbn [orb] in H.
  destruct e as [fc evs|fc|fc t content]; cbn in NCl.
  - exact (process_events_src _ _ _ _ _ _ _ _ NCl H C NC).
  - contradiction.
  - cbn [stream_of]. destruct (fragmentize fs [] t content) as [es|] eqn:EF; [|injection H as <- <-; cbn in NC; discriminate].
    assert (NCl' : Forall (fun e => is_close_ev (fst e) = false) (map (fun e => (e, cstate (get_ws fc s))) es)).
    { rewrite Forall_map. eapply Forall_impl; [|exact (fragmentize_msgs _ _ _ _ _ EF)].
      intros e He. destruct e; cbn in *; congruence. }
    destruct (process_events_src _ _ _ _ _ _ _ _ NCl' H C NC) as (new & M & S).
    exists new. split; [exact M|]. intros c. specialize (S c). rewrite flat_map_map in S. exact S.
Qed.

Lemma run_src fs addon : forall evs s s1 cs, Forall no_close evs ->
  run fs addon s evs = (s1, cs) -> is_crashed s = false -> is_crashed s1 = false -> finished s = false ->
  exists new, messages s1 = messages s ++ new /\ forall c, src_ok c s s1 (flat_map (stream_of fs c) evs) new.
Proof.
  induction evs as [|e evs IH]; intros s s1 cs NCl H C NC F; cbn [run] in H.
  - injection H as <- <-. exists []. split; [symmetry; apply app_nil_r|]. intros c. apply src_ok_refl.
  - inversion NCl as [|? ? K NCl']; subst.
    destruct (handle_event fs addon s e) as [sa ca] eqn:E1.
    destruct (run fs addon sa evs) as [sb cb] eqn:E2. injection H as <- <-.
    assert (Ca : is_crashed sa = false).
    { destruct (is_crashed sa) eqn:X; [|reflexivity]. rewrite (crashed_sticky_run _ _ _ _ X) in E2.
      injection E2 as <- <-. congruence. }
    destruct (handle_event_nc _ _ _ _ _ _ K E1 C Ca F) as (_ & F1 & _).
    destruct (handle_event_src _ _ _ _ _ _ K E1 C Ca F) as (n1 & M1 & S1).
    destruct (IH _ _ _ NCl' E2 Ca NC F1) as (n2 & M2 & S2).
    exists (n1 ++ n2). split; [rewrite M2, M1; symmetry; apply app_assoc|]. intros c.
    cbn [flat_map]. exact (src_ok_trans _ _ _ _ _ _ _ _ (S1 c) (S2 c)).
Qed.

(* recorded messages of a side = reassembly of the events received from / injected for that side *)
Theorem recorded_is_source fs addon evs s1 cs : Forall no_close evs ->
  run fs addon init evs = (s1, cs) -> is_crashed s1 = false ->
  forall c, map rec_view (filter (from c) (messages s1))
            = map col_view (collect [] [] (flat_map (stream_of fs c) evs)).
Proof.
  intros NCl H NC c. destruct (run_src _ _ _ _ _ _ NCl H eq_refl NC eq_refl) as (new & M & S).
  cbn in M. rewrite M. destruct (S c) as [A _]. rewrite A. destruct c; reflexivity.
Qed.
