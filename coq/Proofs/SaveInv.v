(* Proofs/SaveInv.v -- C39: the invariant of the Save addon along any history without shutdown:
   the state is regular (stream open iff save_stream_file is set, on that path, with the filter
   in force; current_path in step) and active_flows is exactly the set of flows that started
   while saving was active and have not completed or been flushed since. *)
From Coq Require Import List Bool NArith Lia Permutation.
From MV Require Import Model.SavePrelude Gen.SaveHooks Model.Save Proofs.SaveSpec.
Import ListNotations.
Open Scope N_scope.

Local Arguments N.eqb : simpl never.
Local Opaque bad_path rotate_open_first.

(* ---------- sets as duplicate-free lists ---------- *)
Lemma memN_In : forall i l, memN i l = true <-> In i l.
Proof.
  induction l as [|x r IH]; cbn; [split; [discriminate|tauto]|].
  rewrite orb_true_iff, IH, N.eqb_eq. tauto.
Qed.
Lemma memN_addN : forall i j l, memN i (addN j l) = (j =? i) || memN i l.
Proof.
  intros. unfold addN. destruct (memN j l) eqn:E; [|reflexivity].
  destruct (j =? i) eqn:Eji; [|reflexivity]. apply N.eqb_eq in Eji. subst. cbn. exact E.
Qed.
Lemma In_addN : forall i j l, In i (addN j l) <-> i = j \/ In i l.
Proof.
  intros. unfold addN. destruct (memN j l) eqn:E.
  - apply memN_In in E. split; [tauto|]. intros [->|H]; assumption.
  - cbn. split; intros [H|H]; auto.
Qed.
Lemma NoDup_addN : forall j l, NoDup l -> NoDup (addN j l).
Proof.
  intros. unfold addN. destruct (memN j l) eqn:E; [assumption|].
  constructor; [|assumption]. intro Hin. apply memN_In in Hin. congruence.
Qed.
Lemma In_removeN : forall i j l, In i (removeN j l) <-> i <> j /\ In i l.
Proof.
  induction l as [|x r IH]; cbn; [tauto|].
  destruct (x =? j) eqn:E.
  - apply N.eqb_eq in E. subst. rewrite IH. split; [tauto|]. intros [Hn [H|H]]; [congruence|tauto].
  - apply N.eqb_neq in E. cbn. rewrite IH. split.
    + intros [H|H]; [subst; tauto|tauto].
    + tauto.
Qed.
Lemma NoDup_removeN : forall j l, NoDup l -> NoDup (removeN j l).
Proof.
  induction 1 as [|x r Hx Hr IH]; cbn; [constructor|].
  destruct (x =? j); [assumption|]. constructor; [|assumption].
  rewrite In_removeN. tauto.
Qed.
Lemma insertN_perm : forall i l, Permutation (i :: l) (insertN i l).
Proof.
  induction l as [|x r IH]; cbn; [apply Permutation_refl|].
  destruct (i <=? x); [apply Permutation_refl|].
  eapply perm_trans; [apply perm_swap|]. apply perm_skip. exact IH.
Qed.
Lemma sortN_perm : forall l, Permutation l (sortN l).
Proof.
  induction l as [|x r IH]; cbn; [constructor|].
  eapply perm_trans; [apply perm_skip; exact IH|]. apply insertN_perm.
Qed.
Lemma In_sortN : forall i l, In i (sortN l) <-> In i l.
Proof.
  intros. split; intro H.
  - eapply Permutation_in; [apply Permutation_sym; apply sortN_perm|exact H].
  - eapply Permutation_in; [apply sortN_perm|exact H].
Qed.
Lemma NoDup_sortN : forall l, NoDup l -> NoDup (sortN l).
Proof. intros. eapply Permutation_NoDup; [apply sortN_perm|assumption]. Qed.

(* ---------- history folds under one more event ---------- *)
Definition upd_resp (r : list N) (e : event) : list N :=
  match e with Hook h i => if sets_resp h then addN i r else r | _ => r end.
Definition upd_err (r : list N) (e : event) : list N :=
  match e with Hook h i => if sets_err h then addN i r else r | _ => r end.
Definition resp_l (pre : list event) := fold_left upd_resp pre [].
Definition err_l (pre : list event) := fold_left upd_err pre [].

Lemma file_after_snoc : forall pre e, file_after (pre ++ [e]) = upd_file (file_after pre) e.
Proof. intros. unfold file_after. rewrite fold_left_app. reflexivity. Qed.
Lemma filter_after_snoc : forall pre e, filter_after (pre ++ [e]) = upd_filter (filter_after pre) e.
Proof. intros. unfold filter_after. rewrite fold_left_app. reflexivity. Qed.
Lemma resp_l_snoc : forall pre e, resp_l (pre ++ [e]) = upd_resp (resp_l pre) e.
Proof. intros. unfold resp_l. rewrite fold_left_app. reflexivity. Qed.
Lemma err_l_snoc : forall pre e, err_l (pre ++ [e]) = upd_err (err_l pre) e.
Proof. intros. unfold err_l. rewrite fold_left_app. reflexivity. Qed.

Lemma resp_l_has : forall pre i, memN i (resp_l pre) = has_resp pre i.
Proof.
  induction pre as [|e pre IH] using rev_ind; intro i; [reflexivity|].
  rewrite resp_l_snoc. unfold has_resp. rewrite existsb_app. fold (has_resp pre i). rewrite <- IH.
  destruct e as [h j| |]; cbn; rewrite ?orb_false_r; try reflexivity.
  destruct (sets_resp h); cbn; rewrite ?orb_false_r; [|reflexivity].
  rewrite memN_addN. apply orb_comm.
Qed.
Lemma err_l_has : forall pre i, memN i (err_l pre) = has_err pre i.
Proof.
  induction pre as [|e pre IH] using rev_ind; intro i; [reflexivity|].
  rewrite err_l_snoc. unfold has_err. rewrite existsb_app. fold (has_err pre i). rewrite <- IH.
  destruct e as [h j| |]; cbn; rewrite ?orb_false_r; try reflexivity.
  destruct (sets_err h); cbn; rewrite ?orb_false_r; [|reflexivity].
  rewrite memN_addN. apply orb_comm.
Qed.
Lemma snap_env_after : forall infos pre i,
  snap_env infos (resp_l pre) (err_l pre) i = snap_after infos pre i.
Proof. intros. unfold snap_env, snap_after. rewrite resp_l_has, err_l_has. reflexivity. Qed.

(* the option never holds a path that cannot be opened *)
Lemma file_after_ok : forall pre a p, file_after pre = Some (a, p) -> p =? bad_path = false.
Proof.
  induction pre as [|e pre IH] using rev_ind; intros a p H; [discriminate|].
  rewrite file_after_snoc in H. destruct e as [h j|uf ufl|]; cbn in H; try (eapply IH; eassumption).
  destruct uf as [v|]; [|eapply IH; eassumption].
  destruct (accepted (Some v) ufl) eqn:Ea; [|eapply IH; eassumption].
  subst v. unfold accepted, file_bad in Ea. apply andb_true_iff in Ea. destruct Ea as [Ea _].
  apply negb_true_iff in Ea. exact Ea.
Qed.

(* ---------- open_after under one more event ---------- *)
Lemma open_snoc : forall infos pre e i,
  open_after infos (pre ++ [e]) i <->
  (exists h, e = Hook h i /\ is_start h = true /\ saving_after pre <> None)
  \/ (open_after infos pre i /\ closes infos i e = false).
Proof.
  intros infos pre e i. split.
  - intros (a & h & b & Heq & Hs & Hsav & Hb).
    destruct b as [|x b'] using rev_ind.
    + left. assert (Hx : pre ++ [e] = a ++ [Hook h i]) by exact Heq.
      apply app_inj_tail in Hx. destruct Hx as [-> ->]. exists h. auto.
    + clear IHb'. right.
      assert (Hx : pre ++ [e] = (a ++ Hook h i :: b') ++ [x]).
      { rewrite Heq. rewrite <- app_assoc. reflexivity. }
      apply app_inj_tail in Hx. destruct Hx as [-> ->].
      apply Forall_app in Hb. destruct Hb as [Hb' Hx]. inversion Hx; subst.
      split; [|assumption]. exists a, h, b'. auto.
  - intros [(h & -> & Hs & Hsav) | [(a & h & b & -> & Hs & Hsav & Hb) Hc]].
    + exists pre, h, []. repeat split; auto.
    + exists a, h, (b ++ [e]). repeat split; auto.
      * rewrite <- app_assoc. reflexivity.
      * apply Forall_app. split; [assumption|]. constructor; [assumption|constructor].
Qed.
Lemma open_nil : forall infos i, ~ open_after infos [] i.
Proof. intros infos i (a & h & b & H & _). destruct a; discriminate. Qed.

(* ---------- the invariant ---------- *)
Definition Inv (infos : list finfo) (pre : list event) (s : st) : Prop :=
  exists act,
    s = mk_state (file_after pre) (filter_after pre) act (resp_l pre) (err_l pre)
    /\ NoDup act
    /\ (forall i, In i act <-> open_after infos pre i)
    /\ (file_after pre = None -> act = []).

Lemma inv_init : forall infos, Inv infos [] init.
Proof.
  intro infos. exists []. repeat split; try constructor; try tauto.
  - intros [].
  - intro H. exfalso. eapply open_nil; eassumption.
Qed.

Lemma saving_file : forall pre, saving_after pre <> None <-> file_after pre <> None.
Proof. intro pre. unfold saving_after. destruct (file_after pre); cbn; split; congruence. Qed.

Ltac empty_case :=
  split; [constructor|split; [|intros _; reflexivity]];
  let i := fresh "i" in intro i; split; [intros []|intro H].

Lemma inv_step : forall infos pre s e,
  Inv infos pre s -> e <> Done -> (rotate_open_first = true \/ no_bad_switch e) ->
  Inv infos (pre ++ [e]) (fst (fst (step infos s e))).
Proof.
  intros infos pre s e (act & -> & Hnd & Hact & Hnone) Hne Hg.
  destruct e as [h i|uf ufl|]; [| |congruence].
  - (* a hook *)
    rewrite step_hook_mk. cbn [fst]. unfold Inv.
    rewrite file_after_snoc, filter_after_snoc, resp_l_snoc, err_l_snoc. cbn [upd_file upd_filter upd_resp upd_err].
    eexists. split; [reflexivity|].
    destruct (file_after pre) as [[a p]|] eqn:Ef.
    + assert (Hsav : saving_after pre <> None) by (apply saving_file; congruence).
      destruct (is_start h) eqn:Es; [|destruct (is_completion h (f_ws (info infos i))) eqn:Ec].
      * repeat split.
        -- apply NoDup_addN. assumption.
        -- rewrite In_addN, Hact. intros [->|H]; apply open_snoc.
           ++ left. exists h. auto.
           ++ right. split; [assumption|]. unfold closes. cbn.
              destruct h; cbn in Es; try discriminate; cbn; apply andb_false_r.
        -- rewrite In_addN, Hact. intro H. apply open_snoc in H.
           destruct H as [(h' & Heq & _)|[H _]]; [left; congruence|right; assumption].
        -- discriminate.
      * repeat split.
        -- apply NoDup_removeN. assumption.
        -- rewrite In_removeN, Hact. intros [Hn H]. apply open_snoc. right. split; [assumption|].
           unfold closes. cbn. apply N.eqb_neq in Hn. rewrite N.eqb_sym, Hn. reflexivity.
        -- rewrite In_removeN, Hact. intro H. apply open_snoc in H.
           destruct H as [(h' & Heq & Hs' & _)|[H Hc]]; [congruence|].
           split; [|assumption]. intro Hi. subst i0. unfold closes in Hc. cbn in Hc.
           rewrite N.eqb_refl, Ec in Hc. discriminate.
        -- discriminate.
      * repeat split.
        -- assumption.
        -- rewrite Hact. intro H. apply open_snoc. right. split; [assumption|].
           unfold closes. cbn. destruct (i =? i0) eqn:Ei; [|reflexivity].
           apply N.eqb_eq in Ei. subst i0. rewrite Ec. reflexivity.
        -- rewrite Hact. intro H. apply open_snoc in H.
           destruct H as [(h' & Heq & Hs' & _)|[H _]]; [congruence|assumption].
        -- discriminate.
    + rewrite (Hnone eq_refl) in *. empty_case. apply open_snoc in H. destruct H as [(h' & _ & _ & Hs)|[H _]].
      * apply saving_file in Hs. congruence.
      * apply Hact in H. destruct H.
  - (* an option change *)
    cbn [step].
    assert (Hok : forall a p, file_after pre = Some (a, p) -> p =? bad_path = false)
      by (intros; eapply file_after_ok; eassumption).
    rewrite (do_configure_mk infos _ _ _ _ _ uf ufl Hnone Hok Hg). unfold Inv.
    rewrite file_after_snoc, filter_after_snoc, resp_l_snoc, err_l_snoc. cbn [upd_file upd_filter upd_resp upd_err].
    assert (Hcl : forall i, closes infos i (Configure uf ufl) = stops (Configure uf ufl))
      by (intro; unfold closes; apply orb_false_r).
    assert (Hop : forall i, open_after infos (pre ++ [Configure uf ufl]) i <->
                            open_after infos pre i /\ stops (Configure uf ufl) = false).
    { intro i. rewrite open_snoc, Hcl. split; [|tauto]. intros [(h & Heq & _)|H]; [discriminate|assumption]. }
    destruct (accepted uf ufl) eqn:Ea; cbn [fst].
    + destruct uf as [v|]; destruct ufl as [w|]; rewrite ?Ea.
      * eexists. split; [reflexivity|]. destruct v as [[a p]|].
        -- repeat split; try assumption; try discriminate.
           ++ intro H. apply Hop. split; [apply Hact; assumption|reflexivity].
           ++ intro H. apply Hop in H. apply Hact. tauto.
        -- empty_case. apply Hop in H. destruct H as [_ H]. cbn in H.
           unfold accepted in Ea. cbn in Ea. rewrite H in Ea. discriminate.
      * eexists. split; [reflexivity|]. destruct v as [[a p]|].
        -- repeat split; try assumption; try discriminate.
           ++ intro H. apply Hop. split; [apply Hact; assumption|reflexivity].
           ++ intro H. apply Hop in H. apply Hact. tauto.
        -- empty_case. apply Hop in H. destruct H as [_ H]. cbn in H. discriminate.
      * eexists. split; [reflexivity|]. destruct (file_after pre) as [[a p]|] eqn:Ef.
        -- repeat split; try assumption; try discriminate.
           ++ intro H. apply Hop. split; [apply Hact; assumption|reflexivity].
           ++ intro H. apply Hop in H. apply Hact. tauto.
        -- empty_case. apply Hop in H. destruct H as [H _]. apply Hact in H. rewrite (Hnone eq_refl) in H. destruct H.
      * eexists. split; [reflexivity|]. destruct (file_after pre) as [[a p]|] eqn:Ef.
        -- repeat split; try assumption; try discriminate.
           ++ intro H. apply Hop. split; [apply Hact; assumption|reflexivity].
           ++ intro H. apply Hop in H. apply Hact. tauto.
        -- empty_case. apply Hop in H. destruct H as [H _]. apply Hact in H. rewrite (Hnone eq_refl) in H. destruct H.
    + assert (Hst : stops (Configure uf ufl) = false).
      { destruct uf as [[v|]|]; try reflexivity. cbn. unfold accepted in Ea. cbn in Ea.
        destruct (filter_bad ufl); [reflexivity|discriminate]. }
      assert (Hf : (match uf with Some v => if accepted (Some v) ufl then v else file_after pre | None => file_after pre end) = file_after pre)
        by (destruct uf; [rewrite Ea|]; reflexivity).
      assert (Hfl : (match ufl with Some v => if accepted uf (Some v) then flt_of v else filter_after pre | None => filter_after pre end) = filter_after pre)
        by (destruct ufl; [rewrite Ea|]; reflexivity).
      rewrite Hf, Hfl. exists act. repeat split; try assumption.
      * intro H. apply Hop. split; [apply Hact; assumption|assumption].
      * intro H. apply Hop in H. apply Hact. tauto.
Qed.

(* ---------- along a history ---------- *)
Lemma run_app : forall infos a s b, run infos s (a ++ b) = run infos (run infos s a) b.
Proof. induction a as [|e a IH]; intros; cbn; [reflexivity|apply IH]. Qed.
Lemma run_snoc : forall infos pre s e,
  run infos s (pre ++ [e]) = fst (fst (step infos (run infos s pre) e)).
Proof. intros. rewrite run_app. reflexivity. Qed.

Lemma switch_safe_app : forall a b, switch_safe (a ++ b) -> switch_safe a /\ switch_safe b.
Proof.
  intros a b [H|H]; [split; left; assumption|].
  apply Forall_app in H. destruct H. split; right; assumption.
Qed.

Lemma inv_run : forall infos pre,
  no_done pre -> switch_safe pre -> Inv infos pre (run infos init pre).
Proof.
  intros infos pre. induction pre as [|e pre IH] using rev_ind; intros Hnd Hs; [apply inv_init|].
  rewrite run_snoc. apply Forall_app in Hnd. destruct Hnd as [Hnd He]. inversion He; subst.
  apply switch_safe_app in Hs. destruct Hs as [Hs1 Hs2].
  apply inv_step; [apply IH; assumption|assumption|].
  destruct Hs2 as [H|H]; [left; assumption|right; inversion H; assumption].
Qed.
