(* Proofs/WebAuth.v -- lemmas about Model/WebAuth.v, first for an arbitrary route table that
   passes boolean well-formedness checks, then for the generated table Gen.WebRoutes.mitmweb
   (the checks are decided by vm_compute on the finite table). *)
From Coq Require Import List Bool NArith Lia.
From MV Require Import Base.Bytes Model.WebAuth Gen.WebRoutes.
Import ListNotations.

(* ---------- specification vocabulary ---------- *)

(* the request carries neither a valid session cookie nor a valid password/token *)
Definition creds_invalid (av : bytes -> bytes -> bool) (stored : bytes) (q : request) : Prop :=
  current_user q = false /\
  forall pw, effective_password q = Some pw -> is_valid_password av stored pw = false.

(* the route the request resolves to is not one of tornado's static file rules *)
Definition not_static (a : app) (q : request) : Prop :=
  match lookup_route a q with Some (_, r) => rt_kind r = Mitm | None => True end.

(* the method is implemented by the matched handler class *)
Definition implemented (a : app) (q : request) : Prop :=
  exists i r n, lookup_route a q = Some (i, r) /\ assoc_meth (q_meth q) (rt_methods r) = Some (Some n).

Definition s_same_origin : bytes := [x73;x61;x6d;x65;x2d;x6f;x72;x69;x67;x69;x6e].
Definition s_none : bytes := [x6e;x6f;x6e;x65].

(* the browser marks the request as not same-origin and not user-initiated *)
Definition cross_site (q : request) : Prop :=
  exists v, q_sfs q = Some v /\ v <> s_same_origin /\ v <> s_none.

(* outcome [out] leaves the state alone, sets no auth cookie, carries no handler data *)
Definition refused {St D : Type} (s : St) (out : St * response D) : Prop :=
  fst out = s /\ rs_cookie (snd out) = false /\ (forall d, rs_body (snd out) <> BInner d).

(* ---------- boolean checks on a table ---------- *)

Definition method_wrapped (e : meth * option nat) : bool :=
  match snd e with Some O => false | _ => true end.

Definition route_wrapped (r : route) : bool :=
  match rt_kind r with Mitm => forallb method_wrapped (rt_methods r) | Static => true end.

Definition app_wrapped (a : app) : bool := forallb route_wrapped (a_routes a).

(* every implemented unsafe method sits behind the Sec-Fetch-Site prepare *)
Definition method_guarded (r : route) (e : meth * option nat) : bool :=
  match e with
  | (m, Some _) => tornado_safe m || match rt_prep r with PrepSfs => true | _ => false end
  | (_, None) => true
  end.

Definition route_guarded (r : route) : bool :=
  rt_xsrf r && forallb (method_guarded r) (rt_methods r).

Definition app_guarded (a : app) : bool :=
  a_xsrf_cookies a
  && forallb route_guarded (a_routes a)
  && forallb tornado_safe (a_safe a)
  && list_eqb bytes_eqb (a_sfs_allowed a) [s_same_origin; s_none].

(* ---------- small facts ---------- *)

Lemma meth_eqb_eq a b : meth_eqb a b = true -> a = b.
Proof. destruct a, b; simpl; intro H; try reflexivity; discriminate H. Qed.

Lemma list_bytes_eqb_eq (l1 l2 : list bytes) : list_eqb bytes_eqb l1 l2 = true -> l1 = l2.
Proof.
  revert l2. induction l1 as [|x l1 IH]; intros [|y l2]; simpl; intro E; try discriminate; [reflexivity|].
  apply andb_prop in E as [E1 E2]. apply bytes_eqb_eq in E1. subst. f_equal. now apply IH.
Qed.

Lemma assoc_meth_In m l v : assoc_meth m l = Some v -> In (m, v) l.
Proof.
  induction l as [|[m' v'] l IH]; simpl; intro H; [discriminate|].
  destruct (meth_eqb m m') eqn:E.
  - apply meth_eqb_eq in E. injection H as ->. subst. now left.
  - right. now apply IH.
Qed.

Lemma lookup_route_In a q i r : lookup_route a q = Some (i, r) -> In r (a_routes a).
Proof.
  unfold lookup_route. destruct (q_route q) as [j|]; [|discriminate].
  destruct (nth_error (a_routes a) j) as [r'|] eqn:E; [|discriminate].
  intro H. injection H as _ ->. eapply nth_error_In; eauto.
Qed.

Lemma wrapped_positive a q i r n :
  app_wrapped a = true -> lookup_route a q = Some (i, r) -> rt_kind r = Mitm ->
  assoc_meth (q_meth q) (rt_methods r) = Some (Some n) -> exists k, n = S k.
Proof.
  intros HW HL HK HA.
  apply lookup_route_In in HL. apply assoc_meth_In in HA.
  unfold app_wrapped in HW. rewrite forallb_forall in HW. specialize (HW _ HL).
  unfold route_wrapped in HW. rewrite HK in HW. rewrite forallb_forall in HW.
  specialize (HW _ HA). unfold method_wrapped in HW. simpl in HW.
  destruct n as [|k]; [discriminate|]. now exists k.
Qed.

(* ---------- _require_auth ---------- *)

Section Auth.
  Variable D : Type.
  Variable av : bytes -> bytes -> bool.
  Variable stored : bytes.

  Lemma require_auth_invalid r q :
    creds_invalid av stored q ->
    exists st b, require_auth D av stored r q = Stop st b false
                 /\ (st = 403 \/ st = 400)%N /\ (forall d, b <> BInner d)
                 /\ (decode_all (q_token q) <> None -> st = 403%N).
  Proof.
    intros [HC HP]. unfold require_auth. rewrite HC.
    destruct (effective_password q) as [pw|] eqn:E.
    - rewrite (HP pw eq_refl).
      eexists _, _. split; [reflexivity|]. split; [now left|]. split; [|reflexivity].
      intro d. destruct (rt_login r); discriminate.
    - eexists _, _. split; [reflexivity|]. split; [now right|]. split; [discriminate|].
      intro Hdec. exfalso.
      unfold effective_password in E.
      destruct (nonempty _) in E; [discriminate|].
      unfold get_argument_token in E. destruct (decode_all (q_token q)); [discriminate|].
      now apply Hdec.
  Qed.

  Lemma wrapped_call_invalid k r q :
    creds_invalid av stored q ->
    exists st b, wrapped_call D av stored (S k) r q = Stop st b false
                 /\ (st = 403 \/ st = 400)%N /\ (forall d, b <> BInner d)
                 /\ (decode_all (q_token q) <> None -> st = 403%N).
  Proof.
    intro H. destruct (require_auth_invalid r q H) as (st & b & E & R).
    exists st, b. split; [|exact R]. simpl. now rewrite E.
  Qed.

  (* a valid session cookie or a valid password passes every layer *)
  Lemma require_auth_valid r q :
    (current_user q = true \/
     exists pw, effective_password q = Some pw /\ is_valid_password av stored pw = true) ->
    exists c, require_auth D av stored r q = Pass c.
  Proof.
    intros [H|(pw & E & V)]; unfold require_auth.
    - rewrite H. now exists false.
    - destruct (current_user q); [now exists false|]. rewrite E, V. now exists true.
  Qed.

  Lemma wrapped_call_valid n r q :
    (current_user q = true \/
     exists pw, effective_password q = Some pw /\ is_valid_password av stored pw = true) ->
    exists c, wrapped_call D av stored n r q = Pass c.
  Proof.
    intro H. induction n as [|k [c IH]]; simpl.
    - now exists false.
    - destruct (require_auth_valid r q H) as [c0 E]. rewrite E, IH. now eexists.
  Qed.
End Auth.

(* ---------- the pipeline, for any table passing the checks ---------- *)

Section Pipeline.
  Variable St D : Type.
  Variable inner : nat -> meth -> St -> request -> St * (N * D).
  Variable av : bytes -> bytes -> bool.
  Variable stored : bytes.
  Variable a : app.

  Let H := handle St D inner av stored a.

  Lemma refuse_refused s st : refused s (refuse St D s st).
  Proof. unfold refused, refuse; simpl. repeat split. discriminate. Qed.

  Definition unauth_status (st : N) : Prop :=
    (st = 400 \/ st = 403 \/ st = 404 \/ st = 405 \/ st = a_sfs_status a)%N.

  Lemma unauth_refused_gen s q :
    app_wrapped a = true -> not_static a q -> creds_invalid av stored q ->
    refused s (H s q) /\ unauth_status (rs_status (snd (H s q))).
  Proof.
    intros HW HS HC. unfold H, handle, not_static in *.
    destruct (lookup_route a q) as [[i r]|] eqn:L.
    2:{ split; [apply refuse_refused|]. unfold unauth_status; simpl.
        destruct (meth_eqb (q_meth q) OTHER); auto. }
    destruct (assoc_meth (q_meth q) (rt_methods r)) as [impl|] eqn:A.
    2:{ split; [apply refuse_refused|]. unfold unauth_status; simpl; auto. }
    destruct (negb (tornado_safe (q_meth q)) && a_xsrf_cookies a && rt_xsrf r && negb (q_xsrf_ok q)).
    { split; [apply refuse_refused|]. unfold unauth_status; simpl; auto. }
    destruct (prepare_refuses a r q).
    { split; [apply refuse_refused|]. unfold unauth_status; simpl; auto 6. }
    destruct impl as [n|].
    2:{ split; [apply refuse_refused|]. unfold unauth_status; simpl; auto. }
    destruct (wrapped_positive a q i r n HW L HS A) as [k ->].
    destruct (wrapped_call_invalid D av stored k r q HC) as (st & b & E & Hst & Hb & _).
    rewrite E. split.
    - unfold refused; simpl. auto.
    - unfold unauth_status; simpl. destruct Hst as [-> | ->]; auto.
  Qed.

  (* implemented method, decodable token arguments: the status is 403 (or what prepare raises) *)
  Lemma unauth_status_gen s q :
    app_wrapped a = true -> not_static a q -> creds_invalid av stored q ->
    implemented a q -> decode_all (q_token q) <> None ->
    rs_status (snd (H s q)) = 403%N \/ rs_status (snd (H s q)) = a_sfs_status a.
  Proof.
    intros HW HS HC (i & r & n & L & A) HD. unfold H, handle, not_static in *.
    rewrite L in *. rewrite A.
    destruct (negb (tornado_safe (q_meth q)) && a_xsrf_cookies a && rt_xsrf r && negb (q_xsrf_ok q)).
    { now left. }
    destruct (prepare_refuses a r q).
    { now right. }
    destruct (wrapped_positive a q i r n HW L HS A) as [k ->].
    destruct (wrapped_call_invalid D av stored k r q HC) as (st & b & E & _ & _ & Hst).
    rewrite E. left. simpl. now apply Hst.
  Qed.

  Lemma mem_bytes_allowed v :
    list_eqb bytes_eqb (a_sfs_allowed a) [s_same_origin; s_none] = true ->
    v <> s_same_origin -> v <> s_none -> mem_bytes v (a_sfs_allowed a) = false.
  Proof.
    intros HL H1 H2.
    assert (E : a_sfs_allowed a = [s_same_origin; s_none]) by (now apply list_bytes_eqb_eq).
    rewrite E. unfold mem_bytes; simpl.
    destruct (bytes_eqb v s_same_origin) eqn:E1; [apply bytes_eqb_eq in E1; contradiction|].
    destruct (bytes_eqb v s_none) eqn:E2; [apply bytes_eqb_eq in E2; contradiction|].
    reflexivity.
  Qed.

  Lemma mem_safe_false m :
    forallb tornado_safe (a_safe a) = true -> tornado_safe m = false -> mem_meth m (a_safe a) = false.
  Proof.
    intros HF HM. unfold mem_meth. rewrite forallb_forall in HF.
    destruct (existsb (meth_eqb m) (a_safe a)) eqn:E; [|reflexivity].
    apply existsb_exists in E as (m' & Hin & Heq). apply meth_eqb_eq in Heq. subst m'.
    rewrite (HF _ Hin) in HM. discriminate.
  Qed.

  (* unsafe method without a passing XSRF check, or marked cross-site: refused, whatever the credentials *)
  Lemma unsafe_refused_gen s q :
    app_guarded a = true -> tornado_safe (q_meth q) = false ->
    (q_xsrf_ok q = false \/ cross_site q) ->
    refused s (H s q).
  Proof.
    intros HG HM HX. unfold H, handle.
    unfold app_guarded in HG. apply andb_prop in HG as [HG Hallow].
    apply andb_prop in HG as [HG Hsafe]. apply andb_prop in HG as [Hxc Hroutes].
    destruct (lookup_route a q) as [[i r]|] eqn:L; [|apply refuse_refused].
    destruct (assoc_meth (q_meth q) (rt_methods r)) as [impl|] eqn:A; [|apply refuse_refused].
    rewrite forallb_forall in Hroutes. specialize (Hroutes _ (lookup_route_In _ _ _ _ L)).
    unfold route_guarded in Hroutes. apply andb_prop in Hroutes as [Hrx Hms].
    rewrite HM, Hxc, Hrx. simpl.
    destruct (q_xsrf_ok q) eqn:X; simpl; [|apply refuse_refused].
    destruct HX as [HX|(v & Hv & N1 & N2)]; [discriminate|].
    destruct impl as [n|].
    2:{ destruct (prepare_refuses a r q); apply refuse_refused. }
    rewrite forallb_forall in Hms. specialize (Hms _ (assoc_meth_In _ _ _ A)).
    simpl in Hms. rewrite HM in Hms. simpl in Hms.
    unfold prepare_refuses. destruct (rt_prep r); try discriminate.
    rewrite Hv, (mem_safe_false _ Hsafe HM), (mem_bytes_allowed v Hallow N1 N2). simpl.
    apply refuse_refused.
  Qed.

  (* valid credentials on an implemented safe method reach the handler body *)
  Lemma valid_admitted_gen s q :
    implemented a q -> tornado_safe (q_meth q) = true ->
    (forall m, tornado_safe m = true -> mem_meth m (a_safe a) = true) ->
    (current_user q = true \/
     exists pw, effective_password q = Some pw /\ is_valid_password av stored pw = true) ->
    exists d, rs_body (snd (H s q)) = BInner d.
  Proof.
    intros (i & r & n & L & A) HM Hsafe HV. unfold H, handle. rewrite L, A, HM. simpl.
    assert (P : prepare_refuses a r q = false).
    { unfold prepare_refuses. destruct (rt_prep r); try reflexivity.
      rewrite (Hsafe _ HM). reflexivity. }
    rewrite P.
    destruct (wrapped_call_valid D av stored n r q HV) as [c E]. rewrite E.
    destruct (inner i (q_meth q) s q) as [s' [st d]]. simpl. now exists d.
  Qed.
End Pipeline.

(* no disclosure: the whole outcome of an unauthenticated request is independent of the
   server state and of what the handler bodies would do *)
Lemma unauth_no_disclosure_gen (St D : Type) (inner1 inner2 : nat -> meth -> St -> request -> St * (N * D))
      av stored a (s1 s2 : St) q :
  app_wrapped a = true -> not_static a q -> creds_invalid av stored q ->
  snd (handle St D inner1 av stored a s1 q) = snd (handle St D inner2 av stored a s2 q).
Proof.
  intros HW HS HC. unfold handle, not_static in *.
  destruct (lookup_route a q) as [[i r]|] eqn:L; [|reflexivity].
  destruct (assoc_meth (q_meth q) (rt_methods r)) as [impl|] eqn:A; [|reflexivity].
  destruct (negb (tornado_safe (q_meth q)) && a_xsrf_cookies a && rt_xsrf r && negb (q_xsrf_ok q)); [reflexivity|].
  destruct (prepare_refuses a r q); [reflexivity|].
  destruct impl as [n|]; [|reflexivity].
  destruct (wrapped_positive a q i r n HW L HS A) as [k ->].
  destruct (wrapped_call_invalid D av stored k r q HC) as (st & b & E & _).
  rewrite E. reflexivity.
Qed.

(* ---------- the generated table ---------- *)

Lemma mitmweb_wrapped : app_wrapped mitmweb = true.
Proof. vm_compute. reflexivity. Qed.

Lemma mitmweb_guarded : app_guarded mitmweb = true.
Proof. vm_compute. reflexivity. Qed.

Lemma mitmweb_sfs_status : a_sfs_status mitmweb = 403%N.
Proof. vm_compute. reflexivity. Qed.

Lemma mitmweb_safe_complete : forall m, tornado_safe m = true -> mem_meth m (a_safe mitmweb) = true.
Proof. intros m; destruct m; simpl; intro E; try discriminate E; vm_compute; reflexivity. Qed.

(* every implemented method of every mitmproxy handler class is under at least one _require_auth *)
Lemma all_wrapped_partial :
  forall r, In r (a_routes mitmweb) -> rt_kind r = Mitm ->
  forall m n, In (m, Some n) (rt_methods r) -> (1 <= n)%nat.
Proof.
  intros r Hr Hk m n Hin.
  pose proof mitmweb_wrapped as HW. unfold app_wrapped in HW. rewrite forallb_forall in HW.
  specialize (HW _ Hr). unfold route_wrapped in HW. rewrite Hk in HW.
  rewrite forallb_forall in HW. specialize (HW _ Hin). unfold method_wrapped in HW; simpl in HW.
  destruct n; [discriminate|lia].
Qed.

(* ... but the table also contains tornado static file rules, which are not wrapped *)
Definition has_unwrapped (a : app) : bool :=
  existsb (fun r => existsb (fun e => match snd e with Some O => true | _ => false end) (rt_methods r)) (a_routes a).

Lemma all_wrapped_refuted :
  exists r m, In r (a_routes mitmweb) /\ In (m, Some O) (rt_methods r).
Proof.
  assert (E : has_unwrapped mitmweb = true) by (vm_compute; reflexivity).
  unfold has_unwrapped in E. apply existsb_exists in E as (r & Hr & E).
  apply existsb_exists in E as ([m v] & Hin & E). simpl in E.
  destruct v as [[|n]|]; try discriminate. now exists r, m.
Qed.

Section Mitmweb.
  Variable St D : Type.
  Variable inner : nat -> meth -> St -> request -> St * (N * D).
  Variable av : bytes -> bytes -> bool.
  Variable stored : bytes.

  Let H := handle St D inner av stored mitmweb.

  Lemma unauthenticated_refused s q :
    not_static mitmweb q -> creds_invalid av stored q ->
    fst (H s q) = s /\ rs_cookie (snd (H s q)) = false /\ (forall d, rs_body (snd (H s q)) <> BInner d)
    /\ (rs_status (snd (H s q)) = 400 \/ rs_status (snd (H s q)) = 403 \/
        rs_status (snd (H s q)) = 404 \/ rs_status (snd (H s q)) = 405)%N.
  Proof.
    intros HS HC.
    destruct (unauth_refused_gen St D inner av stored mitmweb s q mitmweb_wrapped HS HC) as [(R1 & R2 & R3) U].
    fold H in R1, R2, R3, U. repeat split; auto.
    unfold unauth_status in U. rewrite mitmweb_sfs_status in U. tauto.
  Qed.

  Lemma unauthenticated_403 s q :
    not_static mitmweb q -> creds_invalid av stored q -> implemented mitmweb q ->
    decode_all (q_token q) <> None -> rs_status (snd (H s q)) = 403%N.
  Proof.
    intros HS HC HI HD.
    destruct (unauth_status_gen St D inner av stored mitmweb s q mitmweb_wrapped HS HC HI HD) as [E|E];
      fold H in E; [exact E|]. now rewrite mitmweb_sfs_status in E.
  Qed.

  Lemma unsafe_refused s q :
    tornado_safe (q_meth q) = false -> (q_xsrf_ok q = false \/ cross_site q) ->
    fst (H s q) = s /\ rs_cookie (snd (H s q)) = false /\ (forall d, rs_body (snd (H s q)) <> BInner d).
  Proof. intros HM HX. exact (unsafe_refused_gen St D inner av stored mitmweb s q mitmweb_guarded HM HX). Qed.

  Lemma valid_admitted s q :
    implemented mitmweb q -> tornado_safe (q_meth q) = true ->
    (current_user q = true \/
     exists pw, effective_password q = Some pw /\ is_valid_password av stored pw = true) ->
    exists d, rs_body (snd (H s q)) = BInner d.
  Proof.
    intros HI HM HV.
    exact (valid_admitted_gen St D inner av stored mitmweb s q HI HM mitmweb_safe_complete HV).
  Qed.
End Mitmweb.

Lemma unauthenticated_no_disclosure (St D : Type) (inner1 inner2 : nat -> meth -> St -> request -> St * (N * D))
      av stored (s1 s2 : St) q :
  not_static mitmweb q -> creds_invalid av stored q ->
  snd (handle St D inner1 av stored mitmweb s1 q) = snd (handle St D inner2 av stored mitmweb s2 q).
Proof. intros. now apply unauth_no_disclosure_gen; try exact mitmweb_wrapped. Qed.

(* ---------- witnesses ---------- *)

Definition secret : bytes := [x68;x75;x6e;x74;x65;x72;x32].       (* hunter2 *)
Definition no_argon (_ _ : bytes) : bool := false.
Definition unit_inner (_ : nat) (_ : meth) (s : nat) (_ : request) : nat * (N * unit) := (S s, (200%N, tt)).

(* rule 9 is Flows (GET), rule 21 is ClearAll (POST) in the generated table; the witnesses
   below are checked by computation, so a renumbering makes them fail loudly *)
Definition q_anon_flows : request := Build_request (Some 9%nat) GET None None [] false None.
Definition q_badutf8 : request := Build_request (Some 9%nat) GET None None [None] false None.
Definition q_token_flows : request := Build_request (Some 9%nat) GET None None [Some secret] false None.
Definition q_cookie_clear_cross : request :=
  Build_request (Some 21%nat) POST (Some s_y) None [] true (Some [x63;x72;x6f;x73;x73;x2d;x73;x69;x74;x65]).

Lemma creds_invalid_anon : creds_invalid no_argon secret q_anon_flows.
Proof.
  split; [reflexivity|]. intros pw E. vm_compute in E. injection E as <-. reflexivity.
Qed.

Lemma creds_invalid_badutf8 : creds_invalid no_argon secret q_badutf8.
Proof. split; [reflexivity|]. intros pw E. vm_compute in E. discriminate. Qed.

(* an undecodable token argument is refused with 400, not 403 *)
Lemma status_403_refuted :
  exists q, not_static mitmweb q /\ creds_invalid no_argon secret q /\ implemented mitmweb q /\
    rs_status (snd (handle nat unit unit_inner no_argon secret mitmweb O q)) = 400%N.
Proof.
  exists q_badutf8. split; [vm_compute; reflexivity|]. split; [exact creds_invalid_badutf8|].
  split; [|vm_compute; reflexivity].
  eexists _, _, _. split; vm_compute; reflexivity.
Qed.

Lemma nonvacuous :
  creds_invalid no_argon secret q_anon_flows /\ not_static mitmweb q_anon_flows /\ implemented mitmweb q_anon_flows
  /\ handle nat unit unit_inner no_argon secret mitmweb O q_anon_flows = (O, Build_response 403%N BEmpty false)
  /\ handle nat unit unit_inner no_argon secret mitmweb O q_token_flows = (1%nat, Build_response 200%N (BInner tt) true)
  /\ tornado_safe (q_meth q_cookie_clear_cross) = false /\ cross_site q_cookie_clear_cross
  /\ handle nat unit unit_inner no_argon secret mitmweb O q_cookie_clear_cross = (O, Build_response 403%N BError false).
Proof.
  split; [exact creds_invalid_anon|]. split; [vm_compute; reflexivity|].
  split; [eexists _, _, _; split; vm_compute; reflexivity|].
  split; [vm_compute; reflexivity|]. split; [vm_compute; reflexivity|].
  split; [reflexivity|]. split; [|vm_compute; reflexivity].
  eexists. split; [reflexivity|]. split; discriminate.
Qed.

(* ---------- histories ---------- *)

Fixpoint config_after (hash_ok : bytes -> bool) (st : bool * bytes) (h : list step) : bool * bytes :=
  match h with
  | [] => st
  | SetPassword opt fresh :: r => config_after hash_ok (configure hash_ok st opt fresh) r
  | Request _ :: r => config_after hash_ok st r
  end.

(* the password in force after the option changes of h (requests do not matter) *)
Definition password_after (hash_ok : bytes -> bool) (st : bool * bytes) (h : list step) : bytes :=
  snd (config_after hash_ok st h).

Fixpoint requests_in (h : list step) : nat :=
  match h with
  | [] => O
  | SetPassword _ _ :: r => requests_in r
  | Request _ :: r => S (requests_in r)
  end.

Section HistoryProofs.
  Variable St D : Type.
  Variable inner : nat -> meth -> St -> request -> St * (N * D).
  Variable av : bytes -> bytes -> bool.
  Variable hash_ok : bytes -> bool.
  Variable a : app.

  Let run := run_history St D inner av hash_ok a.

  (* the response to a request inside a history is the single-request response computed with
     the password configured by the option changes before it: earlier requests (successful
     logins included) leave no trace in the verdict *)
  Lemma history_stateless h1 : forall st s q h2,
    exists s1, nth_error (run st s (h1 ++ Request q :: h2)) (requests_in h1)
               = Some (snd (handle St D inner av (password_after hash_ok st h1) a s1 q)).
  Proof.
    unfold password_after.
    induction h1 as [|[opt fresh|q0] h1 IH]; intros st s q h2; simpl.
    - exists s. reflexivity.
    - apply IH.
    - apply IH.
  Qed.
End HistoryProofs.

Lemma history_revoked_refused (St D : Type) (inner : nat -> meth -> St -> request -> St * (N * D))
      av hash_ok (st : bool * bytes) s h1 q h2 :
  not_static mitmweb q -> creds_invalid av (password_after hash_ok st h1) q ->
  exists rs, nth_error (run_history St D inner av hash_ok mitmweb st s (h1 ++ Request q :: h2)) (requests_in h1) = Some rs
    /\ rs_cookie rs = false /\ (forall d, rs_body rs <> BInner d)
    /\ (rs_status rs = 400 \/ rs_status rs = 403 \/ rs_status rs = 404 \/ rs_status rs = 405)%N.
Proof.
  intros HS HC.
  destruct (history_stateless St D inner av hash_ok mitmweb h1 st s q h2) as [s1 E].
  eexists. split; [exact E|].
  destruct (unauthenticated_refused St D inner av (password_after hash_ok st h1) s1 q HS HC) as (_ & R2 & R3 & R4).
  auto.
Qed.

(* witness: log in with the old password, rotate, present the old password again *)
Definition old_pw : bytes := [x6f;x6c;x64].
Definition new_pw : bytes := [x6e;x65;x77].
Definition q_with_token (pw : bytes) : request := Build_request (Some 9%nat) GET None None [Some pw] false None.
Definition rotate_history : list step :=
  [SetPassword old_pw []; Request (q_with_token old_pw); SetPassword new_pw []; Request (q_with_token old_pw); Request (q_with_token new_pw)].

Lemma history_nonvacuous :
  map rs_status (run_history nat unit unit_inner no_argon (fun _ => true) mitmweb (false, secret) O rotate_history)
  = [200; 403; 200]%N.
Proof. vm_compute. reflexivity. Qed.
