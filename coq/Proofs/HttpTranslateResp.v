(* Proofs/HttpTranslateResp.v -- C06, response direction HTTP/2 -> HTTP/1: every response header block that the h2
   contract and mitmproxy accept is written to the HTTP/1 client as exactly one response with the same status, fields
   and body, framed by Content-Length or by closing the connection. *)
From Coq Require Import List Bool NArith ZArith Lia.
From MV Require Import Base.Bytes Model.Http1Msg Model.Rfc9112 Model.HttpTranslate Gen.StatusReasons
  Proofs.Http1Lines Proofs.Http1Roundtrip Proofs.Http1Chunks Proofs.HttpTranslateBase Proofs.HttpTranslateReq.
Import ListNotations.

(* ---------- the status line *)
Definition status3 (st : Z) : bool :=
  match dec_of_Z st with
  | [d1; d2; d3] => is_digit d1 && is_digit d2 && is_digit d3
                    && N.eqb ((bN d1 - 48) * 100 + (bN d2 - 48) * 10 + (bN d3 - 48))%N (Z.to_N st)
  | _ => false
  end.

Lemma status3_sweep : forallb (fun k => status3 (100 + Z.of_nat k)%Z) (seq 0 900) = true.
Proof. vm_compute. reflexivity. Qed.

Lemma status3_ok st : (100 <= st <= 999)%Z -> status3 st = true.
Proof.
  intros H. pose proof status3_sweep as S. rewrite forallb_forall in S.
  specialize (S (Z.to_nat (st - 100)%Z)). replace (100 + Z.of_nat (Z.to_nat (st - 100)))%Z with st in S by lia.
  apply S. apply in_seq. lia.
Qed.

Definition reason_ok (r : bytes) : bool := forallb is_reason_char r && clean r.

Lemma reasons_table_ok : forallb (fun e => reason_ok (snd e)) RESPONSES = true.
Proof. vm_compute. reflexivity. Qed.

Lemma reason_of_ok st : reason_ok (reason_of st RESPONSES) = true.
Proof.
  pose proof reasons_table_ok as T. induction RESPONSES as [|[c r] t IH]; [reflexivity|].
  cbn [forallb snd] in T. apply andb_true_iff in T as [T1 T2]. cbn [reason_of].
  destruct (Z.eqb c st); [exact T1 | apply IH; exact T2].
Qed.

Lemma digit_clean d : is_digit d = true -> clean [d] = true.
Proof.
  intros H. pose proof (digit_facts d) as K. rewrite H in K. simpl in K. repeat (apply andb_true_iff in K as [K ?]).
  repeat match goal with X : negb _ = true |- _ => apply negb_true_iff in X end.
  unfold clean, no_lf. cbn [existsb].
  match goal with X : is_cr_or_nul d = false, Y : byte_eqb rLF d = false |- _ => rewrite X, Y end. reflexivity.
Qed.

Record Inv_resp (r : response_head) : Prop := {
  iv_version : rs_version r = V_HTTP11;
  iv_status : (100 <= rs_status r <= 999)%Z;
  iv_reason : reason_ok (rs_reason r) = true;
  iv_fields : Forall field_inv (rs_headers r) }.

Lemma status_line_props r : Inv_resp r ->
  clean (_assemble_response_line r) = true /\ _assemble_response_line r <> []
  /\ parse_status_line (_assemble_response_line r) = Some (V_HTTP11, Z.to_N (rs_status r), rs_reason r).
Proof.
  intros [V S R _]. unfold _assemble_response_line. rewrite V.
  pose proof (status3_ok _ S) as T. unfold status3 in T.
  destruct (dec_of_Z (rs_status r)) as [|d1 [|d2 [|d3 [|]]]]; try discriminate.
  apply andb_true_iff in T as [T VAL]. apply andb_true_iff in T as [T D3]. apply andb_true_iff in T as [D1 D2].
  apply N.eqb_eq in VAL.
  unfold reason_ok in R. apply andb_true_iff in R as [R1 R2].
  split; [|split].
  - change (V_HTTP11 ++ [SP] ++ [d1; d2; d3] ++ [SP] ++ rs_reason r)
      with ((V_HTTP11 ++ [SP]) ++ [d1] ++ [d2] ++ [d3] ++ [SP] ++ rs_reason r).
    rewrite !clean_app, R2, (digit_clean d1 D1), (digit_clean d2 D2), (digit_clean d3 D3). reflexivity.
  - discriminate.
  - cbn [app V_HTTP11 parse_status_line].
    rewrite D1, D2, D3.
    rewrite R1, VAL. reflexivity.
Qed.

Theorem head_roundtrip_response o r rest : Inv_resp r ->
  parse_response_head o (assemble_response_head r ++ rest)
  = POk (V_HTTP11, Z.to_N (rs_status r), rs_reason r, rs_headers r, rest).
Proof.
  intros I. destruct (status_line_props r I) as (C0 & N0 & P0). destruct I as [_ _ _ F].
  unfold assemble_response_head, parse_response_head. rewrite headers_bytes_wire.
  change CRLF with [rCR; rLF].
  replace ((_assemble_response_line r ++ [rCR; rLF] ++ wire (map field_line (rs_headers r)) ++ [rCR; rLF]) ++ rest)
    with (wire (_assemble_response_line r :: map field_line (rs_headers r)) ++ [rCR; rLF] ++ rest)
    by (cbn [wire]; rewrite <- !app_assoc; reflexivity).
  assert (A : forallb clean (_assemble_response_line r :: map field_line (rs_headers r)) = true
              /\ forallb (fun l => no_lf l && match l with [] => false | _ => true end)
                         (_assemble_response_line r :: map field_line (rs_headers r)) = true).
  { cbn [forallb]. rewrite C0.
    assert (X : no_lf (_assemble_response_line r) = true) by (unfold clean in C0; apply andb_true_iff in C0 as [_ X]; exact X).
    rewrite X. destruct (_assemble_response_line r) eqn:E; [congruence|]. cbn [andb].
    clear -F. induction F as [|f hs Hf _ IH]; [split; reflexivity|].
    destruct (field_line_props f Hf) as (C & L & NE & _). destruct IH as [I1 I2].
    cbn [map forallb]. rewrite C, L, I1, I2. destruct (field_line f); [congruence|]. split; reflexivity. }
  destruct A as [A1 A2].
  rewrite (head_lines_wire _ rest A2).
  rewrite (clean_lines_wire o _ A1).
  change (clean_line o [rCR]) with (Some (@nil byte)).
  rewrite P0, (parse_fields_lines o _ F []). reflexivity.
Qed.

(* ---------- parse_h2_response_headers *)
Lemma parse_resp_spec h st fields : parse_h2_response_headers h = Some (st, fields) ->
  exists q, h = q ++ fields /\ Forall (fun x => is_pseudo (fst x) = true) q.
Proof.
  unfold parse_h2_response_headers. intros H.
  destruct (split_pseudo_headers h []) as [[pseudo fs]|] eqn:S; [|discriminate].
  destruct (split_pseudo_spec _ _ _ _ S) as (q & E1 & E2 & F & _). cbn [app] in E1. subst pseudo.
  destruct (dict_pop P_STATUS q) as [[s|] p1]; [|discriminate].
  destruct (py_int_ws s); [|discriminate]. destruct p1; [|discriminate]. injection H as <- <-.
  exists q. auto.
Qed.

(* a body is not allowed: HEAD, 1xx / 204 / 304, or a successful CONNECT (complement of the finding
   body-after-bodiless-response) *)
Definition bodiless (m : bytes) (st : Z) : bool :=
  bytes_eqb m HEAD || no_body_status st || ((Z.leb 200 st && Z.leb st 299) && bytes_eqb m CONNECT).

Lemma status_class st : (100 <= st <= 999)%Z ->
  ((100 <=? Z.to_N st) && (Z.to_N st <=? 199))%N = (Z.leb 100 st && Z.leb st 199)
  /\ (N.eqb (Z.to_N st) 204 || N.eqb (Z.to_N st) 304)%N = (Z.eqb st 204 || Z.eqb st 304)
  /\ ((200 <=? Z.to_N st) && (Z.to_N st <=? 299))%N = (Z.leb 200 st && Z.leb st 299).
Proof.
  intros H. repeat split.
  - destruct (Z.leb 100 st) eqn:A, (Z.leb st 199) eqn:B, (100 <=? Z.to_N st)%N eqn:C, (Z.to_N st <=? 199)%N eqn:D; try reflexivity;
      rewrite ?Z.leb_le, ?Z.leb_gt, ?N.leb_le, ?N.leb_gt in *; lia.
  - destruct (Z.eqb st 204) eqn:A, (Z.eqb st 304) eqn:B, (N.eqb (Z.to_N st) 204) eqn:C, (N.eqb (Z.to_N st) 304) eqn:D; try reflexivity;
      rewrite ?Z.eqb_eq, ?Z.eqb_neq, ?N.eqb_eq, ?N.eqb_neq in *; lia.
  - destruct (Z.leb 200 st) eqn:A, (Z.leb st 299) eqn:B, (200 <=? Z.to_N st)%N eqn:C, (Z.to_N st <=? 299)%N eqn:D; try reflexivity;
      rewrite ?Z.leb_le, ?Z.leb_gt, ?N.leb_le, ?N.leb_gt in *; lia.
Qed.

Theorem down_response_one_message m h body out c :
  down_response m h body None = OForward out c ->
  exists st fields, parse_h2_response_headers h = Some (st, fields) /\
    ((100 <= st <= 999)%Z -> upper m = m -> length_guard (Some m) h body ->
     (bodiless m st = true -> content_of body = []) ->
     forall o, parse_response o m out
       = POk (mkRefResp V_HTTP11 (Z.to_N st) (reason_of st RESPONSES) fields (content_of body) [] c, [])).
Proof.
  unfold down_response. intros H.
  destruct (h2_validate true false h) eqn:V; [|discriminate]. cbn [negb] in H.
  destruct (h2_expected_length (Some m) h) as [expected|] eqn:EL; [|discriminate].
  destruct (is_informational h); [discriminate|].
  destruct (h2_length_ok expected body false) eqn:LO; [|discriminate]. cbn [negb] in H.
  destruct (parse_h2_response_headers h) as [[st fields]|] eqn:P; [|discriminate].
  destruct (validate_headers fields) eqn:VR; try discriminate.
  injection H as <- <-. exists st, fields. split; [reflexivity|]. intros ST UP LG BG o.
  fold (content_of body). unfold h1_response_bytes.
  destruct (parse_resp_spec h st fields P) as (q & Eh & Fq).
  pose proof (h2_validate_all _ _ _ V) as VA.
  destruct (validate_ok _ VR) as (VN & NoTE & CLs).
  assert (VAf : Forall (fun f => h2_name_ok (fst f) = true /\ h2_value_ok (snd f) = true /\ h2_field_ok f = true) fields).
  { rewrite Eh in VA. apply Forall_app in VA. tauto. }
  pose proof (fieldok_of _ VAf VN) as F0.
  assert (FI : Forall field_inv fields) by (eapply Forall_impl; [|exact F0]; intros f X; apply fieldok_inv; exact X).
  set (r := h1_of_h2_response st fields).
  assert (INV : Inv_resp r) by (constructor; [reflexivity | exact ST | apply reason_of_ok | exact FI]).
  assert (XL : values_exact CONTENT_LENGTH h = get_all CONTENT_LENGTH fields).
  { unfold values_exact. rewrite get_all_filter. change (lower CONTENT_LENGTH) with CONTENT_LENGTH. f_equal.
    rewrite Eh, (exact_pseudo_prefix CONTENT_LENGTH q _ Fq eq_refl). apply exact_filter_lower.
    eapply Forall_impl; [|exact F0]. intros f (_ & _ & X & _). exact X. }
  assert (TE0 : field_values r_te fields = []).
  { rewrite field_values_filter. rewrite get_all_filter in NoTE. exact NoTE. }
  assert (CL0 : field_values r_cl fields = get_all CONTENT_LENGTH fields) by reflexivity.
  unfold parse_response. rewrite (head_roundtrip_response o r (content_of body) INV).
  cbn [r h1_of_h2_response rs_status rs_reason rs_headers].
  destruct (status_class st ST) as (S1 & S2 & S3).
  unfold response_body_length. change r_HEAD with HEAD. change r_CONNECT with CONNECT. rewrite S1, S2, S3.
  unfold until_close, bodiless, no_body_status in *. rewrite UP.
  destruct (bytes_eqb m HEAD) eqn:MH.
  { cbn [negb andb]. rewrite (BG eq_refl). reflexivity. }
  cbn [orb negb andb] in *.
  destruct (Z.leb 100 st && Z.leb st 199) eqn:I1.
  { cbn [orb negb andb] in *. rewrite (BG eq_refl). reflexivity. }
  destruct (Z.eqb st 204 || Z.eqb st 304) eqn:I2.
  { rewrite orb_false_l in BG. rewrite orb_false_l. rewrite I2 in *. cbn [orb negb andb] in *. rewrite (BG eq_refl). reflexivity. }
  rewrite orb_false_l in BG. rewrite orb_false_l. rewrite I2 in *. cbn [orb negb andb] in *.
  destruct ((Z.leb 200 st && Z.leb st 299) && bytes_eqb m CONNECT) eqn:I3.
  { rewrite andb_comm in I3. rewrite I3. cbn [negb andb]. rewrite (BG eq_refl). reflexivity. }
  rewrite andb_comm in I3. rewrite I3. cbn [negb andb].
  unfold fields_body_length. rewrite TE0, CL0.
  unfold length_guard in LG. unfold h2_expected_length in EL, LG.
  rewrite MH in EL, LG. rewrite XL in EL, LG.
  destruct CLs as [NoCL | [cl OneCL]].
  - rewrite NoCL. unfold hcontains. rewrite NoCL. cbn [negb read_body]. reflexivity.
  - rewrite OneCL in *. unfold hcontains. rewrite OneCL. cbn [negb cl_scan] in *.
    destruct (all_digits cl) eqn:AD; [|discriminate]. injection EL as <-.
    rewrite (list_elements_digits cl AD). cbn [all_same_dec]. rewrite (parse_dec_digits cl AD).
    assert (LEN : digits_value cl = N.of_nat (length (content_of body))).
    { destruct body as [b|]; cbn [content_of].
      - cbn [h2_length_ok] in LO. apply N.eqb_eq in LO. exact LO.
      - destruct (LG eq_refl) as [X|X]; [discriminate|]. injection X as X. rewrite X. reflexivity. }
    rewrite LEN. pose proof (body_reframe_length o (content_of body) []) as K. rewrite app_nil_r in K. rewrite K. reflexivity.
Qed.
