(* Proofs/ViewMain.v -- histories: induction over operation sequences, the user-level statements of C43,
   and the concrete counterexamples for the two findings. *)
From Coq Require Import List Bool Arith NArith ZArith Lia Permutation Sorted.
From MV Require Import Base.Bytes Model.View Proofs.ViewBase Proofs.ViewSpec Proofs.ViewPrim Proofs.ViewOps
  Proofs.ViewSteps Proofs.ViewSteps2 Proofs.ViewSteps3.
Import ListNotations.

Lemma Inv_init : Inv init.
Proof.
  constructor.
  - constructor; simpl; [constructor | apply ksorted_nil | intros k id [] | constructor].
  - intros id [].
  - reflexivity.
  - intros id [].
  - intros id [].
Qed.

Lemma Inv_set_log l s : Inv s -> Inv (set_log l s).
Proof. intros [[A B C D] E F G H]. constructor; [constructor|..]; assumption. Qed.

Lemma step_ok o s : Inv s -> exists s', step o s = Ok s' /\ post o s s'.
Proof.
  intros I. destruct (do_op_ok o (set_log [] s) (Inv_set_log [] s I) eq_refl) as (s' & E & P).
  exists s'. unfold step. rewrite E. split; [reflexivity | exact P].
Qed.

Lemma run_ok ops : forall s, Inv s -> exists s', run ops s = Ok s' /\ Inv s'.
Proof.
  induction ops as [|o t IH]; intros s I; simpl.
  - exists s. auto.
  - destruct (step_ok o s I) as (s1 & E & P). rewrite E. apply IH. apply P.
Qed.

Lemma run_inv_all ops : forall s, Inv s -> M3 s -> FreshV s ->
  exists s', run ops s = Ok s' /\ Inv s' /\ M3 s' /\ FreshV s'.
Proof.
  induction ops as [|o t IH]; intros s I H3 Fv; simpl.
  - exists s. auto.
  - destruct (step_ok o s I) as (s1 & E & P1 & P2 & P3 & _). rewrite E. apply IH; auto.
Qed.
Lemma run_all ops s : run ops init = Ok s -> M3 s /\ FreshV s.
Proof.
  intros H. destruct (run_inv_all ops init Inv_init) as (s' & E & _ & A & B);
    [intros H0; discriminate | intros k id [] |].
  rewrite E in H. inversion H; subst. auto.
Qed.

(* ---------- what the user sees ---------- *)
Definition key_of (s : state) (id : N) : N := generate (okey s) (attr s id).
Definition in_order (s : state) (a b : N) : Prop := if reversed s then (b <= a)%N else (a <= b)%N.
(* list(view) is ordered by the current key of the selected order, descending when reversed *)
Definition view_sorted (s : state) : Prop := StronglySorted (in_order s) (map (key_of s) (visible s)).
(* list(view) is ordered by the keys the view has cached for the selected order *)
Definition view_sorted_cached (s : state) : Prop :=
  exists kv : list (N * N), map snd kv = visible s /\ StronglySorted (in_order s) (map fst kv)
  /\ forall k id, In (k, id) kv -> cache_of s id (okey s) = Some k.

Lemma In_visible s id : In id (visible s) <-> In id (raw_ids s).
Proof. unfold visible. destruct (reversed s); [symmetry; apply in_rev | tauto]. Qed.
Lemma NoDup_visible s : NoDup (raw_ids s) -> NoDup (visible s).
Proof. unfold visible. destruct (reversed s); [apply NoDup_rev | auto]. Qed.

Lemma StronglySorted_rev {A} (R : A -> A -> Prop) l : StronglySorted R l -> StronglySorted (fun a b => R b a) (rev l).
Proof.
  induction 1 as [|a l H IH Hf]; simpl; [constructor|].
  assert (G : forall l1, StronglySorted (fun a b => R b a) l1 -> Forall (fun x => R a x) l1 ->
            StronglySorted (fun a b => R b a) (l1 ++ [a])).
  { induction l1 as [|x t IHt]; simpl; intros Hs Hfa.
    - constructor; constructor.
    - inversion Hs; subst. inversion Hfa; subst. constructor; [apply IHt; assumption|].
      apply Forall_app. split; [assumption | constructor; [assumption | constructor]]. }
  apply G; [exact IH|]. apply Forall_rev. exact Hf.
Qed.

Lemma sorted_cached_of_core s : CoreV s -> view_sorted_cached s.
Proof.
  intros C. unfold view_sorted_cached, visible, in_order, raw_ids. destruct (reversed s).
  - exists (rev (view s)). split; [apply map_rev|]. split.
    + rewrite map_rev. apply (StronglySorted_rev N.le), (c_sorted _ C).
    + intros k id H. apply in_rev in H. apply (c_cached _ C _ _ H).
  - exists (view s). split; [reflexivity|]. split; [apply (c_sorted _ C)|].
    intros k id H. apply (c_cached _ C _ _ H).
Qed.

Lemma keys_real s : FreshV s -> keys (view s) = map (key_of s) (raw_ids s).
Proof.
  intros Fr. unfold keys, raw_ids. rewrite map_map. apply map_ext_in. intros [k id] H. simpl.
  unfold key_of. apply Fr. exact H.
Qed.

Lemma sorted_of_fresh s : CoreV s -> FreshV s -> view_sorted s.
Proof.
  intros C Fr. unfold view_sorted, visible, in_order. pose proof (c_sorted _ C) as S. unfold ksorted in S.
  rewrite (keys_real s Fr) in S. destruct (reversed s).
  - rewrite map_rev. apply (StronglySorted_rev N.le). exact S.
  - exact S.
Qed.

(* ---------- statements over all histories ---------- *)
Lemma always_inv ops : exists s, run ops init = Ok s /\ Inv s.
Proof. apply run_ok, Inv_init. Qed.

Lemma inv_of_run ops s : run ops init = Ok s -> Inv s.
Proof. intros H. destruct (always_inv ops) as (s' & E & I). rewrite E in H. inversion H; subst. exact I. Qed.

Lemma no_exception : forall ops, exists s, run ops init = Ok s.
Proof. intros ops. destruct (always_inv ops) as (s & E & _). eauto. Qed.

Lemma view_bounds : forall ops s, run ops init = Ok s ->
  NoDup (visible s)
  /\ (forall id, In id (visible s) -> In id (store s) /\ fmatches (filt s) (attr s id) = true)
  /\ (forall id, In id (store s) -> wanted s id = true -> In id (visible s))
  /\ view_sorted_cached s.
Proof.
  intros ops s H. apply inv_of_run in H. destruct H as [C Si F A1 A2].
  split; [apply NoDup_visible, (c_nodup _ C)|]. split; [|split].
  - intros id Hin. apply In_visible in Hin. split; [|apply A1; exact Hin].
    apply in_ids_split in Hin as [k Hin]. apply (c_cached _ C _ _ Hin).
  - intros id Hs Hw. apply In_visible. apply A2; assumption.
  - apply sorted_cached_of_core, C.
Qed.

Lemma view_exact : forall ops s, run ops init = Ok s ->
  Permutation (visible s) (filter (wanted s) (store s)).
Proof.
  intros ops s H. destruct (run_all ops s H) as [A3 _]. apply inv_of_run in H. destruct H as [C Si F A1 A2].
  apply NoDup_Permutation; [apply NoDup_visible, (c_nodup _ C) | apply NoDup_filter, (c_store _ C)|].
  intros id. rewrite In_visible, filter_In. split.
  - intros Hin. split.
    + apply in_ids_split in Hin as [k Hin]. apply (c_cached _ C _ _ Hin).
    + unfold wanted. rewrite (A1 _ Hin). simpl. destruct (show_marked s) eqn:Es; [|reflexivity]. simpl. apply A3; auto.
  - intros [Hs Hw]. apply A2; assumption.
Qed.

Lemma view_sorted_always : forall ops s, run ops init = Ok s -> view_sorted s.
Proof.
  intros ops s H. destruct (run_all ops s H) as [_ Fr]. apply inv_of_run in H. apply sorted_of_fresh; [apply H | exact Fr].
Qed.

Lemma focus_in_view : forall ops s, run ops init = Ok s ->
  (forall f, focus s = Some f -> In f (visible s)) /\ (focus s = None <-> visible s = []).
Proof.
  intros ops s H. apply inv_of_run in H. pose proof (i_focus _ H) as F. unfold FocusOk in F.
  assert (E : visible s = [] <-> view s = []).
  { unfold visible, raw_ids. destruct (reversed s); destruct (view s); simpl; split; intros H0; try reflexivity; try discriminate.
    apply (f_equal (@length N)) in H0. rewrite app_length in H0. simpl in H0. lia. }
  destruct (focus s) as [g|]; split.
  - intros f [= <-]. apply In_visible. exact F.
  - split; [discriminate|]. intros H0. apply E in H0. unfold raw_ids in F. rewrite H0 in F. destruct F.
  - discriminate.
  - split; [intros _; apply E; exact F | reflexivity].
Qed.

Lemma settings_only_stored : forall ops s id, run ops init = Ok s -> In id (settings_ids s) -> In id (store s).
Proof. intros ops s id H. apply inv_of_run in H. apply (i_sids _ H). Qed.

Lemma signals_match : forall ops s o s', run ops init = Ok s -> step o s = Ok s' ->
  notif (raw_ids s) (log s') (raw_ids s').
Proof.
  intros ops s o s' H E. apply inv_of_run in H. destruct (step_ok o s H) as (s1 & E1 & P).
  rewrite E in E1. inversion E1; subst. apply P.
Qed.

(* ---------- the two findings, on concrete histories ---------- *)
Definition fl (id t z : N) (mk : bool) : flow := mkFlow id t 0 0 z [] mk.

Definition hist_good : list op :=
  [Add (fl 0 1 2 true); Add (fl 1 2 1 true); SetOrder OSize; ToggleMarked; Update (fl 0 1 0 true); SetReversed true].
Lemma good_history : exists s, run hist_good init = Ok s
  /\ visible s = [1%N; 0%N] /\ show_marked s = true /\ focus s = Some 0%N /\ key_of s 1%N = 1%N /\ key_of s 0%N = 0%N.
Proof. eexists. split; [vm_compute; reflexivity|]. vm_compute. repeat split; reflexivity. Qed.
