(* Proofs/IgnoreHostsDecide.v -- C19.  _ignore_connection: the decision is stable under appended data
   (segmentation independence), the rules are honoured, every destination form is among the host names. *)
From Coq Require Import List Bool NArith Lia.
From MV Require Import Base.Bytes Model.ClientHello Model.IgnoreHosts Proofs.ClientHelloMain Proofs.IgnoreHostsScan.
Import ListNotations.

(* the first bytes could still become an HTTP request line: three letters, no HTTP/ yet, line not finished *)
Definition http_prefix_undecided (p : bytes) : bool :=
  alpha3 p && negb (host_header_expected p) && negb (existsb is_lf p).

Definition seg_guard (p : bytes) : Prop :=
  (3 <= length p)%nat /\ http_prefix_undecided p = false.

Lemma existsb_app_true {A} (f : A -> bool) l t : existsb f l = true -> existsb f (l ++ t) = true.
Proof. intros H. rewrite existsb_app, H. reflexivity. Qed.

Lemma alpha3_app p t : (3 <= length p)%nat -> alpha3 (p ++ t) = alpha3 p.
Proof. destruct p as [|a [|b [|c r]]]; simpl; intros L; solve [lia | reflexivity]. Qed.

Lemma seg_guard_app p t : seg_guard p -> seg_guard (p ++ t).
Proof.
  intros [L H]. split; [rewrite app_length; lia|].
  unfold http_prefix_undecided in *. rewrite (alpha3_app _ _ L).
  destruct (alpha3 p); [|reflexivity]. simpl in *.
  destruct (host_header_expected p) eqn:E.
  - rewrite (expected_app _ t E). reflexivity.
  - simpl in H. apply negb_false_iff in H. rewrite (existsb_app_true _ _ t H). apply andb_false_r.
Qed.

Lemma expected_stable p t : seg_guard p -> host_header_expected (p ++ t) = host_header_expected p.
Proof.
  intros [L H]. unfold http_prefix_undecided in H.
  destruct (alpha3 p) eqn:A.
  - simpl in H. destruct (host_header_expected p) eqn:E.
    + apply expected_app. exact E.
    + simpl in H. apply negb_false_iff in H. rewrite (expected_lf _ t L H). exact E.
  - rewrite (expected_not_alpha _ t L A).
    destruct (host_header_expected p) eqn:E; [|reflexivity].
    apply expected_alpha3 in E. congruence.
Qed.

Theorem host_header_stable p t :
  seg_guard p -> no_empty_host p = true -> get_host_header p [] <> HNeeds ->
  get_host_header (p ++ t) [] = get_host_header p [].
Proof.
  intros G N H. unfold get_host_header in *. simpl in *.
  rewrite (expected_stable _ t G).
  destruct (host_header_expected p); [|reflexivity].
  destruct (search_host p) as [r|] eqn:S; [|contradiction].
  rewrite (search_app _ t _ N S). reflexivity.
Qed.

Lemma at_app i p t : (i < length p)%nat -> at_ i (p ++ t) = at_ i p.
Proof. intros L. unfold at_. apply app_nth1. exact L. Qed.

Lemma starts_tls_stable p t : (3 <= length p)%nat -> starts_like_tls_record (p ++ t) = starts_like_tls_record p.
Proof.
  intros L. unfold starts_like_tls_record.
  rewrite !at_app by lia.
  assert (E : (2 <? blen (p ++ t))%N = true).
  { apply N.ltb_lt. unfold blen. rewrite app_length. lia. }
  assert (E2 : (2 <? blen p)%N = true).
  { apply N.ltb_lt. unfold blen. lia. }
  rewrite E, E2. reflexivity.
Qed.

Theorem client_hello_stable p t :
  (3 <= length p)%nat -> get_client_hello p <> CNeeds -> get_client_hello (p ++ t) = get_client_hello p.
Proof.
  intros L H. unfold get_client_hello in *. rewrite (starts_tls_stable _ t L).
  destruct (starts_like_tls_record p); [|reflexivity].
  unfold parse_client_hello in *.
  assert (P : parse_client_hello_gen false p <> Incomplete).
  { intros E. rewrite E in H. contradiction. }
  rewrite (parse_stable false p t P). reflexivity.
Qed.

Section Decide.
  Variable pat : Type.
  Variable re_search : pat -> bytes -> bool.
  Variable ace_ok : bytes -> bool.
  Notation hostnames_of := (hostnames_of ace_ok).
  Notation ignore_connection := (ignore_connection re_search ace_ok).
  Notation first_decision := (first_decision re_search ace_ok).

  Lemma hostnames_stable (c : cfg pat) p t l :
    seg_guard p -> no_empty_host p = true ->
    hostnames_of c p [] = Names l -> hostnames_of c (p ++ t) [] = Names l.
  Proof.
    intros G N H. unfold IgnoreHosts.hostnames_of in *.
    destruct (address c) as [[h po]|]; [|exact H].
    destruct (get_host_header p []) eqn:HH; [discriminate| |].
    - rewrite (host_header_stable p t G N) by (rewrite HH; discriminate). rewrite HH.
      destruct (get_client_hello p) eqn:CH; [discriminate| |].
      + rewrite (client_hello_stable p t (proj1 G)) by (rewrite CH; discriminate). rewrite CH. exact H.
      + rewrite (client_hello_stable p t (proj1 G)) by (rewrite CH; discriminate). rewrite CH. exact H.
    - rewrite (host_header_stable p t G N) by (rewrite HH; discriminate). rewrite HH.
      destruct (get_client_hello p) eqn:CH; [discriminate| |].
      + rewrite (client_hello_stable p t (proj1 G)) by (rewrite CH; discriminate). rewrite CH. exact H.
      + rewrite (client_hello_stable p t (proj1 G)) by (rewrite CH; discriminate). rewrite CH. exact H.
  Qed.

  (* a decision taken on p is the decision on p ++ t *)
  Theorem decision_stable (c : cfg pat) p t :
    seg_guard p -> no_empty_host p = true ->
    ignore_connection c p [] <> NeedsMore ->
    ignore_connection c (p ++ t) [] = ignore_connection c p [].
  Proof.
    intros G N H. unfold IgnoreHosts.ignore_connection in *.
    destruct (is_nil (ignore_hosts c) && is_nil (allow_hosts c)); [reflexivity|].
    destruct (wg_exempt c); [reflexivity|].
    destruct (hostnames_of c p []) as [|l] eqn:E; [contradiction|].
    rewrite (hostnames_stable c p t l G N E). reflexivity.
  Qed.

  Lemma first_decision_cons (c : cfg pat) buf s tl :
    first_decision c buf (s :: tl) =
    match ignore_connection c (buf ++ s) [] with
    | NeedsMore => first_decision c (buf ++ s) tl
    | d => d
    end.
  Proof. reflexivity. Qed.

  Lemma first_decision_gen (c : cfg pat) : forall rest buf s,
    seg_guard (buf ++ s) -> no_empty_host (buf ++ s ++ concat rest) = true ->
    first_decision c buf (s :: rest) = ignore_connection c (buf ++ s ++ concat rest) [].
  Proof.
    induction rest as [|s2 rest IH]; intros buf s G N.
    - simpl. rewrite app_nil_r. destruct (ignore_connection c (buf ++ s) []); reflexivity.
    - rewrite first_decision_cons. cbn [concat].
      assert (N1 : no_empty_host (buf ++ s) = true).
      { cbn [concat] in N. rewrite app_assoc in N. apply no_empty_host_prefix in N. exact N. }
      destruct (ignore_connection c (buf ++ s) []) eqn:D.
      + rewrite (IH (buf ++ s) s2).
        * rewrite <- app_assoc. reflexivity.
        * apply seg_guard_app. exact G.
        * rewrite <- app_assoc. exact N.
      + rewrite app_assoc. rewrite decision_stable; [symmetry; exact D | exact G | exact N1 | rewrite D; discriminate].
  Qed.

  (* NextLayer asks after every segment; the outcome is the decision on the whole first flight *)
  Theorem segmentation_independent (c : cfg pat) (s1 : bytes) (rest : list bytes) :
    seg_guard s1 -> no_empty_host (concat (s1 :: rest)) = true ->
    first_decision c [] (s1 :: rest) = ignore_connection c (concat (s1 :: rest)) [].
  Proof. intros G N. apply (first_decision_gen c rest [] s1); assumption. Qed.

  Corollary two_segmentations (c : cfg pat) (s1 : bytes) (r1 : list bytes) (s2 : bytes) (r2 : list bytes) :
    concat (s1 :: r1) = concat (s2 :: r2) -> seg_guard s1 -> seg_guard s2 ->
    no_empty_host (concat (s1 :: r1)) = true ->
    first_decision c [] (s1 :: r1) = first_decision c [] (s2 :: r2).
  Proof.
    intros E G1 G2 N.
    pose proof (segmentation_independent c s1 r1 G1 N) as X1.
    rewrite E in N. pose proof (segmentation_independent c s2 r2 G2 N) as X2.
    rewrite E in X1. congruence.
  Qed.

  (* ---------- the rules ---------- *)
  Lemma any_match_spec rexes hosts :
    any_match re_search rexes hosts = true <->
    exists h r, In h hosts /\ In r rexes /\ re_search r h = true.
  Proof.
    unfold any_match. rewrite existsb_exists. split.
    - intros [h [Hh E]]. apply existsb_exists in E as [r [Hr E]]. exists h, r. auto.
    - intros [h [r [Hh [Hr E]]]]. exists h. split; [exact Hh|]. apply existsb_exists. exists r. auto.
  Qed.

  Theorem rules_honoured (c : cfg pat) dc ds b hs :
    ignore_connection c dc ds = Decided b hs ->
    (ignore_hosts c <> [] \/ allow_hosts c <> []) -> wg_exempt c = false ->
    hostnames_of c dc ds = Names hs /\
    (b = true <->
       hs <> [] /\
       ((allow_hosts c <> [] /\ forall h r, In h hs -> In r (allow_hosts c) -> re_search r h = false)
        \/ (ignore_hosts c <> [] /\ exists h r, In h hs /\ In r (ignore_hosts c) /\ re_search r h = true))).
  Proof.
    intros H O W. unfold IgnoreHosts.ignore_connection in H. rewrite W in H.
    assert (O' : is_nil (ignore_hosts c) && is_nil (allow_hosts c) = false).
    { destruct (ignore_hosts c), (allow_hosts c); simpl; try reflexivity. destruct O; contradiction. }
    rewrite O' in H.
    destruct (hostnames_of c dc ds) as [|l]; [discriminate|].
    destruct l as [|h0 l'].
    { simpl in H. injection H as <- <-. split; [reflexivity|]. split; [discriminate|]. intros [E _]. contradiction. }
    cbn [is_nil] in H.
    set (l := h0 :: l') in *.
    assert (NE : l <> []) by discriminate.
    destruct (allow_hosts c) as [|a al] eqn:EA.
    - cbn [is_nil negb andb] in H.
      destruct (ignore_hosts c) as [|i il] eqn:EI; [destruct O; contradiction|].
      cbn [is_nil negb andb] in H.
      destruct (any_match re_search (i :: il) l) eqn:M; injection H as <- <-; (split; [reflexivity|]).
      + split; [|reflexivity]. intros _. split; [exact NE|]. right. split; [discriminate|].
        apply any_match_spec. exact M.
      + split; [discriminate|]. intros [_ [[C _]|[_ E]]]; [contradiction|].
        apply any_match_spec in E. congruence.
    - cbn [is_nil negb andb] in H.
      destruct (any_match re_search (a :: al) l) eqn:MA; cbn [negb] in H.
      + destruct (negb (is_nil (ignore_hosts c)) && any_match re_search (ignore_hosts c) l) eqn:MI;
          injection H as <- <-; (split; [reflexivity|]).
        * apply andb_true_iff in MI as [I1 I2]. split; [|reflexivity]. intros _. split; [exact NE|]. right.
          split; [destruct (ignore_hosts c); [discriminate I1 | discriminate]|]. apply any_match_spec. exact I2.
        * split; [discriminate|]. intros [_ [[_ C]|[I1 E]]].
          -- apply any_match_spec in MA as [h [r [Hh [Hr E]]]]. rewrite (C h r Hh Hr) in E. discriminate.
          -- apply any_match_spec in E. destruct (ignore_hosts c); [contradiction|]. cbn [is_nil negb andb] in MI. congruence.
      + injection H as <- <-. split; [reflexivity|]. split; [|reflexivity]. intros _. split; [exact NE|]. left.
        split; [discriminate|]. intros h r Hh Hr.
        destruct (re_search r h) eqn:E; [|reflexivity].
        assert (X : any_match re_search (a :: al) l = true) by (apply any_match_spec; exists h, r; auto).
        congruence.
  Qed.

  (* ---------- destination forms ---------- *)
  Ltac names_cases c dc ds H :=
    destruct (peername c) as [[?h ?p]|];
    destruct (get_host_header dc ds) as [| |?v]; try discriminate H;
    destruct (get_client_hello dc) as [| |?hl]; try discriminate H;
    try match type of H with context [sni ace_ok ?x] => destruct (sni ace_ok x) as [?n|] end;
    repeat match type of H with context [is_nil ?x] => destruct (is_nil x) end;
    destruct (client_sni c) as [?n|];
    repeat match type of H with context [is_nil ?x] => destruct (is_nil x) end;
    injection H as <-; rewrite ?in_app_iff; simpl; tauto.

  Lemma names_address (c : cfg pat) dc ds hs h p :
    hostnames_of c dc ds = Names hs -> address c = Some (h, p) -> In (fmt_hp h p) hs.
  Proof.
    intros H A. unfold IgnoreHosts.hostnames_of in H. rewrite A in H. names_cases c dc ds H.
  Qed.

  Lemma names_peername (c : cfg pat) dc ds hs h p :
    hostnames_of c dc ds = Names hs -> peername c = Some (h, p) -> In (fmt_hp h p) hs.
  Proof.
    intros H A. unfold IgnoreHosts.hostnames_of in H. rewrite A in H.
    destruct (address c) as [[h1 p1]|]; [|injection H as <-; left; reflexivity].
    destruct (get_host_header dc ds) as [| |v]; try discriminate H;
    destruct (get_client_hello dc) as [| |hl]; try discriminate H;
    try destruct (sni ace_ok hl) as [n0|];
    repeat match type of H with context [is_nil ?x] => destruct (is_nil x) end;
    destruct (client_sni c) as [n|];
    repeat match type of H with context [is_nil ?x] => destruct (is_nil x) end;
    injection H as <-; rewrite ?in_app_iff; simpl; tauto.
  Qed.

  Lemma names_host_header (c : cfg pat) dc hs h p v :
    hostnames_of c dc [] = Names hs -> address c = Some (h, p) -> get_host_header dc [] = HSome v ->
    In (if has_port v then v else fmt_hp v p) hs.
  Proof.
    intros H A HH. unfold IgnoreHosts.hostnames_of in H. rewrite A, HH in H.
    destruct (peername c) as [[h0 p0]|];
    destruct (get_client_hello dc) as [| |hl]; try discriminate H;
    try destruct (sni ace_ok hl) as [n0|];
    repeat match type of H with context [is_nil ?x] => destruct (is_nil x) end;
    destruct (client_sni c) as [n|];
    repeat match type of H with context [is_nil ?x] => destruct (is_nil x) end;
    injection H as <-; rewrite ?in_app_iff; simpl; tauto.
  Qed.

  Lemma names_sni (c : cfg pat) dc ds hs h p hl n :
    hostnames_of c dc ds = Names hs -> address c = Some (h, p) ->
    get_client_hello dc = CSome hl -> sni ace_ok hl = Some n -> n <> [] ->
    In (fmt_hp n p) hs.
  Proof.
    intros H A CH S NE. unfold IgnoreHosts.hostnames_of in H. rewrite A, CH, S in H.
    assert (E : is_nil n = false) by (destruct n; [contradiction | reflexivity]). rewrite E in H.
    destruct (peername c) as [[h0 p0]|];
    destruct (get_host_header dc ds) as [| |v]; try discriminate H;
    destruct (client_sni c) as [m|];
    repeat match type of H with context [is_nil ?x] => destruct (is_nil x) end;
    injection H as <-; rewrite ?in_app_iff; simpl; tauto.
  Qed.

  Lemma names_client_sni (c : cfg pat) dc ds hs h p n :
    hostnames_of c dc ds = Names hs -> address c = Some (h, p) -> client_sni c = Some n -> n <> [] ->
    In (fmt_hp n p) hs.
  Proof.
    intros H A S NE. unfold IgnoreHosts.hostnames_of in H. rewrite A, S in H.
    assert (E : is_nil n = false) by (destruct n; [contradiction | reflexivity]). rewrite E in H.
    destruct (peername c) as [[h0 p0]|];
    destruct (get_host_header dc ds) as [| |v]; try discriminate H;
    destruct (get_client_hello dc) as [| |hl]; try discriminate H;
    try destruct (sni ace_ok hl) as [n0|];
    repeat match type of H with context [is_nil ?x] => destruct (is_nil x) end;
    injection H as <-; rewrite ?in_app_iff; simpl; tauto.
  Qed.
  Theorem destination_forms (c : cfg pat) (dc ds : bytes) (hs : list bytes) :
    hostnames_of c dc ds = Names hs ->
    (forall h p, address c = Some (h, p) -> In (fmt_hp h p) hs) /\
    (forall h p, peername c = Some (h, p) -> In (fmt_hp h p) hs) /\
    (forall h p hl n, address c = Some (h, p) -> get_client_hello dc = CSome hl -> sni ace_ok hl = Some n ->
                      n <> [] -> In (fmt_hp n p) hs) /\
    (forall h p n, address c = Some (h, p) -> client_sni c = Some n -> n <> [] -> In (fmt_hp n p) hs) /\
    (forall h p v, ds = [] -> address c = Some (h, p) -> get_host_header dc [] = HSome v ->
                   In (if has_port v then v else fmt_hp v p) hs).
  Proof.
    intros H. repeat split; intros.
    - exact (names_address c dc ds hs h p H H0).
    - exact (names_peername c dc ds hs h p H H0).
    - exact (names_sni c dc ds hs h p hl n H H0 H1 H2 H3).
    - exact (names_client_sni c dc ds hs h p n H H0 H1 H2).
    - subst ds. exact (names_host_header c dc hs h p v H H1 H2).
  Qed.
End Decide.

(* ---------- the full statement is false: two families of counterexamples ---------- *)
Definition lit_search (p h : bytes) : bool := contains_sub p h.
Definition no_ace (_ : bytes) : bool := false.
Definition ex_cfg : cfg bytes :=
  {| ignore_hosts := [[x65; x76; x69; x6c]];      (* evil *)
     allow_hosts := []; wireguard := false; peername := None;
     address := Some ([x31; x2e; x32; x2e; x33; x2e; x34], 80%N); client_sni := None |}.
(* GET  |  / HTTP/1.1 CRLF Host: evil.com CRLF CRLF *)
Definition ex_s1 : bytes := [x47; x45; x54; x20].
Definition ex_s2 : bytes :=
  [x2f; x20; x48; x54; x54; x50; x2f; x31; x2e; x31; x0d; x0a;
   x48; x6f; x73; x74; x3a; x20; x65; x76; x69; x6c; x2e; x63; x6f; x6d; x0d; x0a; x0d; x0a].
(* POST / HTTP/1.1 CRLF Content-Length: 10 CRLF Host: CRLF CRLF  |  evil.com CRLF *)
Definition ex_p1 : bytes :=
  [x50; x4f; x53; x54; x20; x2f; x20; x48; x54; x54; x50; x2f; x31; x2e; x31; x0d; x0a;
   x43; x6f; x6e; x74; x65; x6e; x74; x2d; x4c; x65; x6e; x67; x74; x68; x3a; x20; x31; x30; x0d; x0a;
   x48; x6f; x73; x74; x3a; x0d; x0a; x0d; x0a].
Definition ex_p2 : bytes := [x65; x76; x69; x6c; x2e; x63; x6f; x6d; x0d; x0a].

Lemma short_http_prefix_refuted :
  (3 <= length ex_s1)%nat /\ no_empty_host (ex_s1 ++ ex_s2) = true /\
  (exists hs, first_decision lit_search no_ace ex_cfg [] [ex_s1; ex_s2] = Decided false hs) /\
  (exists hs, ignore_connection lit_search no_ace ex_cfg (ex_s1 ++ ex_s2) [] = Decided true hs).
Proof. split; [simpl; lia|]. split; [vm_compute; reflexivity|]. split; eexists; vm_compute; reflexivity. Qed.

Lemma empty_host_value_refuted :
  seg_guard ex_p1 /\
  (exists hs, first_decision lit_search no_ace ex_cfg [] [ex_p1; ex_p2] = Decided false hs) /\
  (exists hs, ignore_connection lit_search no_ace ex_cfg (ex_p1 ++ ex_p2) [] = Decided true hs).
Proof.
  split; [split; [simpl; lia | vm_compute; reflexivity]|].
  split; eexists; vm_compute; reflexivity.
Qed.

(* the guards are satisfiable on an ordinary request cut inside the Host line *)
Definition ok_s1 : bytes :=
  [x47; x45; x54; x20; x2f; x20; x48; x54; x54; x50; x2f; x31; x2e; x31; x0d; x0a; x48; x6f; x73; x74; x3a; x65; x76].
Definition ok_s2 : bytes := [x69; x6c; x2e; x63; x6f; x6d; x0d; x0a; x0d; x0a].
Lemma guards_nonvacuous :
  seg_guard ok_s1 /\ no_empty_host (concat [ok_s1; ok_s2]) = true /\
  ignore_connection lit_search no_ace ex_cfg ok_s1 [] = NeedsMore /\
  exists hs, first_decision lit_search no_ace ex_cfg [] [ok_s1; ok_s2] = Decided true hs /\ length hs = 2%nat.
Proof.
  split; [split; [simpl; lia | vm_compute; reflexivity]|].
  split; [vm_compute; reflexivity|]. split; [vm_compute; reflexivity|].
  eexists. split; vm_compute; reflexivity.
Qed.
