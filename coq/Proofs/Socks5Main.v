(* Proofs/Socks5Main.v -- C21 main statements for every segmentation of the client
   stream: exact decoding on acceptance, error replies, relay of trailing bytes,
   and the converse (only well-formed handshakes are accepted). *)
From Coq Require Import List Bool Arith NArith Lia.
From MV Require Import Base.Bytes Model.Socks5 Proofs.Socks5Seg Proofs.Socks5Exact.
Import ListNotations.

Lemma run_stream c (segs : list bytes) : run c segs = state_greet c (concat segs) obs0.
Proof. rewrite segmentation_independent. reflexivity. Qed.

(* observables before the connect request: pre = negotiation replies sent so far,
   cr = credentials shown to the hook *)
Definition neg_obs (pre : bytes) (cr : option (bytes * bytes)) : obs :=
  mkObs pre None false false cr [].

(* a complete, accepted method negotiation (and sub-negotiation when proxyauth is on) *)
Inductive negotiated (c : cfg) : bytes -> bytes -> option (bytes * bytes) -> Prop :=
| neg_noauth methods :
    proxyauth c = false -> length methods <= 255 -> In x00 methods ->
    negotiated c (enc_greeting methods) [x05; x00] None
| neg_auth methods ver u p :
    proxyauth c = true -> length methods <= 255 -> In x02 methods ->
    length u <= 255 -> length p <= 255 -> authok c u p = true ->
    negotiated c (enc_greeting methods ++ enc_auth ver u p) [x05; x02; x01; x00] (Some (u, p)).

Lemma negotiated_greet c neg pre cr rest :
  negotiated c neg pre cr ->
  state_greet c (neg ++ rest) obs0 = state_connect c rest (neg_obs pre cr).
Proof.
  intros [methods Hpa Hl Hin | methods ver u p Hpa Hl Hin Hu Hp Hok].
  - assert (Hr : In (required c) methods) by (unfold required; rewrite Hpa; exact Hin).
    rewrite greet_accept by assumption. unfold required, next_state. rewrite Hpa. reflexivity.
  - assert (Hr : In (required c) methods) by (unfold required; rewrite Hpa; exact Hin).
    rewrite <- app_assoc. rewrite greet_accept by assumption.
    unfold required, next_state. rewrite Hpa.
    rewrite auth_step by assumption. rewrite Hok. reflexivity.
Qed.

(* outcome of an accepted request *)
Definition success_obs (c : cfg) pre cr (a : addr) (hi lo : byte) (trailing : bytes) : obs :=
  mkObs (pre ++ REPLY_SUCCESS) (Some (host_of a, u16be hi lo)) (eager c) false cr trailing.
Definition unreachable_obs pre cr (a : addr) (hi lo : byte) : obs :=
  mkObs (pre ++ REPLY_UNREACHABLE) (Some (host_of a, u16be hi lo)) true true cr [].
Definition accepted_state (c : cfg) pre cr a hi lo trailing : st :=
  if eager c && open_fails c then (Done, unreachable_obs pre cr a hi lo)
  else (Relay, success_obs c pre cr a hi lo trailing).
(* outcome of a rejection with the bytes sent so far *)
Definition rejected_state (sent_ : bytes) cr : st := (Done, mkObs sent_ None false true cr []).

Lemma connect_finish_neg c pre cr a hi lo trailing :
  connect_finish c (neg_obs pre cr) (host_of a) (u16be hi lo) trailing
  = accepted_state c pre cr a hi lo trailing.
Proof.
  unfold connect_finish, accepted_state, finish_start, neg_obs, success_obs, unreachable_obs.
  destruct (eager c), (open_fails c), trailing; reflexivity.
Qed.

(* ---- acceptance: exact destination, well-formed replies, trailing bytes relayed ---- *)
Theorem accept_exact c (segs : list bytes) (neg pre : bytes) cr a (hi lo : byte) (trailing : bytes) :
  negotiated c neg pre cr -> addr_wf a ->
  concat segs = neg ++ enc_request a hi lo ++ trailing ->
  run c segs = accepted_state c pre cr a hi lo trailing.
Proof.
  intros Hn Hwf Hs. rewrite run_stream, Hs.
  rewrite (negotiated_greet _ _ _ _ _ Hn). rewrite connect_accept by exact Hwf.
  apply connect_finish_neg.
Qed.

(* ---- rejections ---- *)
Theorem reject_version c (segs : list bytes) (v n : byte) (rest : bytes) :
  concat segs = v :: n :: rest -> v <> x05 -> run c segs = rejected_state [] None.
Proof. intros Hs Hv. rewrite run_stream, Hs. rewrite greet_reject_version by exact Hv. reflexivity. Qed.

Theorem reject_methods c (segs : list bytes) (methods rest : bytes) :
  concat segs = enc_greeting methods ++ rest -> length methods <= 255 ->
  ~ In (required c) methods ->
  run c segs = rejected_state ([x05; xff] ++ REPLY_TAIL) None.
Proof.
  intros Hs Hl Hin. rewrite run_stream, Hs. rewrite greet_reject_methods by assumption. reflexivity.
Qed.

Theorem reject_auth c (segs : list bytes) (methods : bytes) (ver : byte) (u p rest : bytes) :
  proxyauth c = true -> length methods <= 255 -> In x02 methods ->
  length u <= 255 -> length p <= 255 -> authok c u p = false ->
  concat segs = enc_greeting methods ++ enc_auth ver u p ++ rest ->
  run c segs = rejected_state [x05; x02; x01; x01] (Some (u, p)).
Proof.
  intros Hpa Hl Hin Hu Hp Hok Hs. rewrite run_stream, Hs.
  assert (Hr : In (required c) methods) by (unfold required; rewrite Hpa; exact Hin).
  rewrite greet_accept by assumption. unfold required, next_state. rewrite Hpa.
  rewrite auth_step by assumption. rewrite Hok. reflexivity.
Qed.

Theorem reject_command c (segs : list bytes) (neg pre : bytes) cr (b0 b1 b2 b3 b4 : byte) (rest : bytes) :
  negotiated c neg pre cr -> [b0; b1; b2] <> [x05; x01; x00] ->
  concat segs = neg ++ b0 :: b1 :: b2 :: b3 :: b4 :: rest ->
  run c segs = rejected_state (pre ++ [x05; x07] ++ REPLY_TAIL) cr.
Proof.
  intros Hn Hh Hs. rewrite run_stream, Hs. rewrite (negotiated_greet _ _ _ _ _ Hn).
  rewrite connect_reject_header by exact Hh. reflexivity.
Qed.

Theorem reject_atyp c (segs : list bytes) (neg pre : bytes) cr (atyp b4 : byte) (rest : bytes) :
  negotiated c neg pre cr -> atyp <> x01 -> atyp <> x03 -> atyp <> x04 ->
  concat segs = neg ++ x05 :: x01 :: x00 :: atyp :: b4 :: rest ->
  run c segs = rejected_state (pre ++ [x05; x08] ++ REPLY_TAIL) cr.
Proof.
  intros Hn H1 H3 H4 Hs. rewrite run_stream, Hs. rewrite (negotiated_greet _ _ _ _ _ Hn).
  rewrite connect_reject_atyp by assumption. reflexivity.
Qed.

(* ---- inversion: what a stream must look like for the layer to reach Relay or to
        set a destination ---- *)
Definition reached (s : st) : Prop := exists o, s = (Relay, o) \/ (s = (Done, o) /\ dest o <> None).

Lemma not_reached_done o : dest o = None -> ~ reached (Done, close o).
Proof.
  intros Hd [o' [H|[H Hn]]]; [discriminate H|]. injection H as <-. apply Hn. destruct o; exact Hd.
Qed.

Lemma socks_err_dest o code : dest (snd (socks_err o code)) = dest o.
Proof. destruct code; destruct o; reflexivity. Qed.

Lemma not_reached_err o code : dest o = None -> ~ reached (socks_err o code).
Proof.
  intros Hd [o' [H|[H Hn]]]; [discriminate H|].
  apply Hn. rewrite <- Hd, <- (socks_err_dest o code), H. reflexivity.
Qed.

Lemma skipn_cons_nth (l : bytes) k : k < length l -> skipn k l = nth k l x00 :: skipn (S k) l.
Proof.
  revert l. induction k as [|k IH]; intros [|x l] H; cbn [length] in H; try lia.
  - reflexivity.
  - cbn [skipn nth]. apply IH. lia.
Qed.

Lemma connect_cons c b0 b1 b2 atyp b4 r o :
  state_connect c (b0 :: b1 :: b2 :: atyp :: b4 :: r) o =
  let buf := b0 :: b1 :: b2 :: atyp :: b4 :: r in
  if negb (bytes_eqb [b0; b1; b2] [x05; x01; x00]) then
    socks_err o (Some SOCKS5_REP_COMMAND_NOT_SUPPORTED)
  else
    match message_len atyp buf with
    | None => socks_err o (Some SOCKS5_REP_ADDRESS_TYPE_NOT_SUPPORTED)
    | Some ml =>
      if length buf <? ml then (Connect buf, o)
      else
        match parse_host atyp (firstn ml buf) with
        | None => (Crashed, o)
        | Some h =>
          match unpack_H (skipn (length (firstn ml buf) - 2) (firstn ml buf)) with
          | None => (Crashed, o)
          | Some port => connect_finish c o h port (skipn ml buf)
          end
        end
    end.
Proof. reflexivity. Qed.

Lemma connect_inv c s o :
  dest o = None -> reached (state_connect c s o) ->
  exists a hi lo trailing,
    s = enc_request a hi lo ++ trailing /\ addr_wf a.
Proof.
  intros Hd H.
  destruct s as [|b0 [|b1 [|b2 [|atyp [|b4 r]]]]];
    try (destruct H as [o' [H|[H _]]]; discriminate H).
  rewrite connect_cons in H. cbv zeta in H.
  destruct (negb (bytes_eqb [b0; b1; b2] [x05; x01; x00])) eqn:E2.
  { exfalso. revert H. apply not_reached_err. exact Hd. }
  apply negb_false_iff, bytes_eqb_eq in E2. injection E2 as -> -> ->.
  unfold message_len in H.
  destruct (byte_eqb atyp SOCKS5_ATYP_IPV4_ADDRESS) eqn:A1.
  { apply byte_eqb_eq in A1. subst atyp.
    destruct r as [|b5 [|b6 [|b7 [|hi [|lo trailing]]]]];
      try (destruct H as [o' [H|[H _]]]; discriminate H).
    exists (A4 b4 b5 b6 b7), hi, lo, trailing. split; [reflexivity | exact I]. }
  destruct (byte_eqb atyp SOCKS5_ATYP_IPV6_ADDRESS) eqn:A4.
  { apply byte_eqb_eq in A4. subst atyp.
    destruct r as [|a1 [|a2 [|a3 [|a4 [|a5 [|a6 [|a7 [|a8 [|a9 [|a10 [|a11 [|a12 [|a13 [|a14
                  [|a15 [|hi [|lo trailing]]]]]]]]]]]]]]]]];
      try (destruct H as [o' [H|[H _]]]; discriminate H).
    exists (A6 [b4; a1; a2; a3; a4; a5; a6; a7; a8; a9; a10; a11; a12; a13; a14; a15]), hi, lo, trailing.
    split; reflexivity. }
  destruct (byte_eqb atyp SOCKS5_ATYP_DOMAINNAME) eqn:A3.
  2:{ exfalso. revert H. apply not_reached_err. exact Hd. }
  apply byte_eqb_eq in A3. subst atyp.
  match type of H with context [if ?cnd then _ else _] => destruct cnd eqn:E4 end.
  { destruct H as [o' [H|[H _]]]; discriminate H. }
  apply Nat.ltb_ge in E4. unfold at_ in E4. cbn [length nth] in E4.
  assert (Lr : blen b4 + 2 <= length r) by lia.
  pose proof (firstn_skipn (blen b4) r) as Hr.
  rewrite (skipn_cons_nth r (blen b4)) in Hr by lia.
  rewrite (skipn_cons_nth r (S (blen b4))) in Hr by lia.
  exists (ADom (firstn (blen b4) r)), (nth (blen b4) r x00), (nth (S (blen b4)) r x00),
         (skipn (S (S (blen b4))) r).
  assert (Ln : length (firstn (blen b4) r) = blen b4) by (apply firstn_length_le; lia).
  split.
  - unfold enc_request, enc_addr. rewrite (len_byte_blen b4) by exact Ln.
    cbn [app]. rewrite <- app_assoc. cbn [app]. rewrite Hr. reflexivity.
  - cbn [addr_wf]. rewrite Ln. apply blen_le.
Qed.

Lemma auth_inv c s o :
  dest o = None -> reached (state_auth c s o) ->
  exists ver u p rest,
    s = enc_auth ver u p ++ rest /\ length u <= 255 /\ length p <= 255 /\ authok c u p = true.
Proof.
  intros Hd H.
  destruct s as [|v [|ul r]]; try (destruct H as [o' [H|[H _]]]; discriminate H).
  rewrite auth_cons in H.
  destruct (length r <? 1 + blen ul) eqn:E1.
  { destruct H as [o' [H|[H _]]]; discriminate H. }
  cbv zeta in H.
  destruct (length r <? 1 + blen ul + blen (nth (blen ul) r x00)) eqn:E2.
  { destruct H as [o' [H|[H _]]]; discriminate H. }
  apply Nat.ltb_ge in E1, E2.
  set (pl := nth (blen ul) r x00) in *.
  destruct (negb (authok c (firstn (blen ul) r) (firstn (blen pl) (skipn (1 + blen ul) r)))) eqn:E3.
  { exfalso. revert H. apply not_reached_err. exact Hd. }
  apply negb_false_iff in E3.
  exists v, (firstn (blen ul) r), (firstn (blen pl) (skipn (1 + blen ul) r)),
         (skipn (blen pl) (skipn (1 + blen ul) r)).
  assert (Lu : length (firstn (blen ul) r) = blen ul) by (apply firstn_length_le; lia).
  assert (Lp : length (firstn (blen pl) (skipn (1 + blen ul) r)) = blen pl)
    by (apply firstn_length_le; rewrite skipn_length; lia).
  split; [|split; [|split]].
  - unfold enc_auth. rewrite (len_byte_blen ul) by exact Lu. rewrite (len_byte_blen pl) by exact Lp.
    cbn [app]. rewrite <- app_assoc. cbn [app]. rewrite firstn_skipn.
    unfold pl. change (1 + blen ul) with (S (blen ul)).
    rewrite <- (skipn_cons_nth r (blen ul)) by lia.
    rewrite firstn_skipn. reflexivity.
  - rewrite Lu. apply blen_le.
  - rewrite Lp. apply blen_le.
  - exact E3.
Qed.

Lemma greet_inv c s o :
  dest o = None -> reached (state_greet c s o) ->
  exists methods rest,
    s = enc_greeting methods ++ rest /\ length methods <= 255 /\ In (required c) methods.
Proof.
  intros Hd H.
  destruct s as [|v [|n r]]; try (destruct H as [o' [H|[H _]]]; discriminate H).
  rewrite greet_cons in H.
  destruct (negb (byte_eqb v SOCKS5_VERSION)) eqn:E1.
  { exfalso. revert H. apply not_reached_err. exact Hd. }
  apply negb_false_iff, byte_eqb_eq in E1. subst v.
  destruct (length r <? blen n) eqn:E2.
  { destruct H as [o' [H|[H _]]]; discriminate H. }
  apply Nat.ltb_ge in E2.
  destruct (negb (existsb (byte_eqb (required c)) (firstn (blen n) r))) eqn:E3.
  { exfalso. revert H. apply not_reached_err. exact Hd. }
  apply negb_false_iff, existsb_in in E3.
  exists (firstn (blen n) r), (skipn (blen n) r).
  assert (Ln : length (firstn (blen n) r) = blen n) by (apply firstn_length_le; lia).
  split; [|split].
  - unfold enc_greeting. rewrite (len_byte_blen n) by exact Ln. cbn [app].
    rewrite firstn_skipn. reflexivity.
  - rewrite Ln. apply blen_le.
  - exact E3.
Qed.

(* Only a well-formed handshake makes the layer set a destination or relay:
   if the layer ends up relaying, or closed after having chosen a destination, the
   stream is negotiation ++ CONNECT request ++ trailing, and the state is exactly the
   accepted state of that request. *)
Theorem accepted_only_wellformed c (segs : list bytes) :
  reached (run c segs) ->
  exists neg pre cr a hi lo trailing,
    negotiated c neg pre cr /\ addr_wf a /\
    concat segs = neg ++ enc_request a hi lo ++ trailing /\
    run c segs = accepted_state c pre cr a hi lo trailing.
Proof.
  intros H. rewrite run_stream in H.
  pose proof H as X. eapply greet_inv in X; [|reflexivity]. destruct X as (methods & rest & Hs & Hl & Hin).
  rewrite Hs in H. rewrite greet_accept in H by assumption.
  unfold next_state, required in H, Hin.
  destruct (proxyauth c) eqn:Hpa.
  - pose proof H as X. eapply auth_inv in X; [|reflexivity]. destruct X as (ver & u & p & rest2 & Hs2 & Hu & Hp & Hok).
    rewrite Hs2 in H. rewrite auth_step in H by assumption. rewrite Hok in H.
    pose proof H as X. eapply connect_inv in X; [|reflexivity]. destruct X as (a & hi & lo & trailing & Hs3 & Hwf).
    exists (enc_greeting methods ++ enc_auth ver u p), [x05; x02; x01; x00], (Some (u, p)), a, hi, lo, trailing.
    assert (Hn : negotiated c (enc_greeting methods ++ enc_auth ver u p) [x05; x02; x01; x00] (Some (u, p)))
      by (apply neg_auth; assumption).
    assert (Hc : concat segs = (enc_greeting methods ++ enc_auth ver u p) ++ enc_request a hi lo ++ trailing)
      by (rewrite Hs, Hs2, Hs3, <- app_assoc; reflexivity).
    split; [exact Hn|]. split; [exact Hwf|]. split; [exact Hc|].
    exact (accept_exact c segs _ _ _ a hi lo trailing Hn Hwf Hc).
  - pose proof H as X. eapply connect_inv in X; [|reflexivity]. destruct X as (a & hi & lo & trailing & Hs3 & Hwf).
    exists (enc_greeting methods), [x05; x00], None, a, hi, lo, trailing.
    assert (Hn : negotiated c (enc_greeting methods) [x05; x00] None) by (apply neg_noauth; assumption).
    assert (Hc : concat segs = enc_greeting methods ++ enc_request a hi lo ++ trailing)
      by (rewrite Hs, Hs3; reflexivity).
    split; [exact Hn|]. split; [exact Hwf|]. split; [exact Hc|].
    exact (accept_exact c segs _ _ _ a hi lo trailing Hn Hwf Hc).
Qed.

(* ---- domain names: exact for ASCII names, lossy otherwise (finding) ---- *)
Lemma domain_exact_partial c (segs : list bytes) (neg pre : bytes) cr (name : bytes) (hi lo : byte)
      (trailing : bytes) :
  negotiated c neg pre cr -> length name <= 255 -> all_ascii name ->
  concat segs = neg ++ enc_request (ADom name) hi lo ++ trailing ->
  dest (snd (run c segs)) = Some (HText name, u16be hi lo).
Proof.
  intros Hn Hl Ha Hs.
  rewrite (accept_exact c segs neg pre cr (ADom name) hi lo trailing Hn Hl Hs).
  unfold accepted_state, success_obs, unreachable_obs, host_of.
  rewrite (decode_ascii_exact name Ha).
  destruct (eager c && open_fails c); reflexivity.
Qed.

Definition cfg0 : cfg := mkCfg false (fun _ _ => true) false false.

Lemma domain_exact_refuted :
  exists (segs : list bytes) (name : bytes) (hi lo : byte) (o : obs),
    length name <= 255 /\
    concat segs = enc_greeting [x00] ++ enc_request (ADom name) hi lo /\
    run cfg0 segs = (Relay, o) /\
    dest o <> Some (HText name, u16be hi lo).
Proof.
  exists [[x05; x01; x00; x05; x01]; [x00; x03; x01; x80; x00; x50]], [x80], x00, x50.
  eexists. split; [cbn; lia|]. split; [reflexivity|]. split; [vm_compute; reflexivity|].
  cbn. intros H. discriminate H.
Qed.

(* two different requested names, one destination *)
Lemma domain_collapse :
  exists (n1 n2 : bytes), n1 <> n2 /\
    run cfg0 [enc_greeting [x00] ++ enc_request (ADom n1) x00 x50]
    = run cfg0 [enc_greeting [x00] ++ enc_request (ADom n2) x00 x50].
Proof. exists [x80], [x81]. split; [discriminate | vm_compute; reflexivity]. Qed.

(* ---- a concrete, non-trivial instance of the hypotheses of accept_exact ---- *)
Definition cfg_auth : cfg := mkCfg true (fun u p => bytes_eqb u [x75] && bytes_eqb p [x70; x77]) true false.

Lemma nonvacuous :
  negotiated cfg_auth (enc_greeting [x00; x02] ++ enc_auth x01 [x75] [x70; x77])
             [x05; x02; x01; x00] (Some ([x75], [x70; x77]))
  /\ addr_wf (ADom [x61; x2e; x62])
  /\ run cfg_auth [[x05; x02; x00]; [x02; x01; x01; x75; x02; x70]; [x77; x05; x01; x00; x03; x03; x61; x2e];
                   [x62; x01; xbb; x47; x45]; [x54]]
     = (Relay, mkObs ([x05; x02; x01; x00] ++ REPLY_SUCCESS) (Some (HText [x61; x2e; x62], 443%N)) true false
                     (Some ([x75], [x70; x77])) [x47; x45; x54]).
Proof.
  split; [|split].
  - apply neg_auth; cbn; try lia; auto.
  - cbn. lia.
  - vm_compute. reflexivity.
Qed.
