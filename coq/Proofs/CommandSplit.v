(* Proofs/CommandSplit.v -- second half of C45: on command lines whose words are single atoms
   separated by lexer white space, the non-Space parts of parse_partial are exactly the words
   of the character-level specification (split at unquoted white space and nowhere else);
   witnesses showing that the unrestricted statement is false. *)
From Coq Require Import List Bool Arith NArith Lia.
From MV Require Import Base.Bytes Model.Command Proofs.CommandLex Proofs.CommandExec.
Import ListNotations.
Open Scope N_scope.

Definition line_ok (lead : str) (a0 : atom) (rest : list (str * atom)) (trail : str) : bool :=
  all_ws lead && atom_ok a0 && forallb item_ok rest && all_ws trail.

Lemma split_partial kt lead a0 rest trail :
  line_ok lead a0 rest trail = true ->
  kt = true \/ no_tab (line_text lead a0 rest trail) = true ->
  exists parts,
    parse_partial kt (line_text lead a0 rest trail) = PPOk parts
    /\ nonspace_values parts = spec_words (line_text lead a0 rest trail)
    /\ nonspace_values parts = atom_text a0 :: map (fun it => atom_text (snd it)) rest
    /\ execute_call kt (line_text lead a0 rest trail)
       = CallStrings (atom_value a0) (map (fun it => atom_value (snd it)) rest).
Proof.
  unfold line_ok. intros H Hk. apply andb_true_iff in H as [H Ht]. apply andb_true_iff in H as [H Hr].
  apply andb_true_iff in H as [Hl Ha].
  destruct (execute_call_line kt lead a0 rest trail Hl Ha Hr Ht Hk) as [parts [H1 [H2 H3]]].
  exists parts. rewrite (spec_line lead a0 rest trail Hl Ha Hr Ht). auto.
Qed.

(* t.raw a dq b dq c : no white space after the command word, yet three arguments *)
Definition w_adjacent : str := [116; 46; 114; 97; 119; 32; 97; 34; 98; 34; 99].
(* t.raw VT : one word for the specification, dropped by parse_partial *)
Definition w_vt : str := [116; 46; 114; 97; 119; 32; 11].
(* t.raw sp sp dq a sp b dq TAB sq c sq sp : a line of the covered shape *)
Definition w_line_lead : str := [].
Definition w_line_a0 : atom := Plain [116; 46; 114; 97; 119].
Definition w_line_rest : list (str * atom) :=
  [([32; 32], Quoted 34 [97; 32; 98]); ([10], Quoted 39 [99]); ([32], Plain [100])].
Definition w_line_trail : str := [32].

Lemma split_refuted_adjacent :
  exists line parts, no_tab line = true
    /\ parse_partial true line = PPOk parts
    /\ spec_words line = [[116; 46; 114; 97; 119]; [97; 34; 98; 34; 99]]
    /\ nonspace_values parts = [[116; 46; 114; 97; 119]; [97]; [34; 98; 34]; [99]].
Proof. exists w_adjacent. eexists. repeat split; reflexivity. Qed.

Lemma split_refuted_unicode_space :
  exists line parts, no_tab line = true
    /\ parse_partial true line = PPOk parts
    /\ spec_words line = [[116; 46; 114; 97; 119]; [11]]
    /\ nonspace_values parts = [[116; 46; 114; 97; 119]].
Proof. exists w_vt. eexists. repeat split; reflexivity. Qed.

Lemma split_sample :
  line_ok w_line_lead w_line_a0 w_line_rest w_line_trail = true
  /\ no_tab (line_text w_line_lead w_line_a0 w_line_rest w_line_trail) = true
  /\ length (spec_words (line_text w_line_lead w_line_a0 w_line_rest w_line_trail)) = 4%nat.
Proof. repeat split; reflexivity. Qed.
