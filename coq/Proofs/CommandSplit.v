(* Proofs/CommandSplit.v -- second half of C45: on command lines whose words are single atoms
   separated by lexer white space, the non-Space parts of parse_partial are exactly the words
   of the character-level specification (split at unquoted white space and nowhere else);
   witnesses showing that the unrestricted statement is false. *)
From Coq Require Import List Bool Arith NArith Lia.
From MV Require Import Base.Bytes Model.Command Proofs.CommandLex Proofs.CommandExec.
Import ListNotations.
Open Scope N_scope.

Definition line_ok (lead : str) (a0 : atom) (rest : list (str * atom)) (trail : str) : bool :=
  all_ws lead && atom_ok a0 && forallb item_ok rest && all_ws trail.

Lemma split_partial kt lead a0 rest trail :
  line_ok lead a0 rest trail = true ->
  kt = true \/ no_tab (line_text lead a0 rest trail) = true ->
  exists parts,
    parse_partial kt (line_text lead a0 rest trail) = PPOk parts
    /\ nonspace_values parts = spec_words (line_text lead a0 rest trail)
    /\ nonspace_values parts = atom_text a0 :: map (fun it => atom_text (snd it)) rest
    /\ execute_call kt (line_text lead a0 rest trail)
       = CallStrings (atom_value a0) (map (fun it => atom_value (snd it)) rest).
Proof.
  unfold line_ok. intros H Hk. apply andb_true_iff in H as [H Ht]. apply andb_true_iff in H as [H Hr].
  apply andb_true_iff in H as [Hl Ha].
  destruct (execute_call_line kt lead a0 rest trail Hl Ha Hr Ht Hk) as [parts [H1 [H2 H3]]].
  exists parts. rewrite (spec_line lead a0 rest trail Hl Ha Hr Ht). auto.
Qed.

(* t.raw a dq b dq c : no white space after the command word, yet three arguments *)
Definition w_adjacent : str := [116; 46; 114; 97; 119; 32; 97; 34; 98; 34; 99].
(* t.raw VT : one word for the specification, dropped by parse_partial *)
Definition w_vt : str := [116; 46; 114; 97; 119; 32; 11].
(* t.raw sp sp dq a sp b dq TAB sq c sq sp : a line of the covered shape *)
Definition w_line_lead : str := [].
Definition w_line_a0 : atom := Plain [116; 46; 114; 97; 119].
Definition w_line_rest : list (str * atom) :=
  [([32; 32], Quoted 34 [97; 32; 98]); ([10], Quoted 39 [99]); ([32], Plain [100])].
Definition w_line_trail : str := [32].

Lemma split_refuted_adjacent :
  exists line parts, no_tab line = true
    /\ parse_partial true line = PPOk parts
    /\ spec_words line = [[116; 46; 114; 97; 119]; [97; 34; 98; 34; 99]]
    /\ nonspace_values parts = [[116; 46; 114; 97; 119]; [97]; [34; 98; 34]; [99]].
Proof. exists w_adjacent. eexists. repeat split; reflexivity. Qed.

Lemma split_refuted_unicode_space :
  exists line parts, no_tab line = true
    /\ parse_partial true line = PPOk parts
    /\ spec_words line = [[116; 46; 114; 97; 119]; [11]]
    /\ nonspace_values parts = [[116; 46; 114; 97; 119]].
Proof. exists w_vt. eexists. repeat split; reflexivity. Qed.

Lemma split_sample :
  line_ok w_line_lead w_line_a0 w_line_rest w_line_trail = true
  /\ no_tab (line_text w_line_lead w_line_a0 w_line_rest w_line_trail) = true
  /\ length (spec_words (line_text w_line_lead w_line_a0 w_line_rest w_line_trail)) = 4%nat.
Proof. repeat split; reflexivity. Qed.

(* ---------- a final unclosed quote: white space after it does not split ---------- *)
Lemma lex_tail_gen rest : forall final tsf,
  forallb item_ok rest = true -> starts_ws final = true -> lex final = LexOk tsf ->
  lex (tail_text rest final) = LexOk (flat_map (fun it => [fst it; atom_text (snd it)]) rest ++ tsf).
Proof.
  induction rest as [|[sep a] rest IH]; intros final tsf Hr Hf Hl.
  - unfold tail_text. simpl. exact Hl.
  - simpl in Hr. apply andb_true_iff in Hr as [Hi Hr]. unfold item_ok in Hi. simpl in Hi.
    apply andb_true_iff in Hi as [Hs Ha]. unfold sep_ok in Hs. apply andb_true_iff in Hs as [Hn Hw].
    assert (Hst : starts_ws (tail_text rest final) = true).
    { unfold tail_text. destruct rest as [|[sep' a'] rest']; simpl; [exact Hf|].
      simpl in Hr. apply andb_true_iff in Hr as [Hi' _]. unfold item_ok in Hi'. simpl in Hi'.
      apply andb_true_iff in Hi' as [Hs' _]. rewrite <- !app_assoc. apply sep_starts_ws, Hs'. }
    assert (E : tail_text ((sep, a) :: rest) final = sep ++ atom_text a ++ tail_text rest final).
    { unfold tail_text. simpl. rewrite <- !app_assoc. reflexivity. }
    rewrite E.
    rewrite (lex_cons _ sep (atom_text a ++ tail_text rest final))
      by (apply mf_ws; auto using atom_stops_ws).
    rewrite (lex_cons _ (atom_text a) (tail_text rest final)) by (apply mf_atom; assumption).
    rewrite (IH final tsf Hr Hf Hl). reflexivity.
Qed.

Lemma spec_tail_gen rest : forall final,
  forallb item_ok rest = true -> starts_ws final = true ->
  spec_words (tail_text rest final) = map (fun it => atom_text (snd it)) rest ++ spec_words final.
Proof.
  induction rest as [|[sep a] rest IH]; intros final Hr Hf.
  - reflexivity.
  - simpl in Hr. apply andb_true_iff in Hr as [Hi Hr]. unfold item_ok in Hi. simpl in Hi.
    apply andb_true_iff in Hi as [Hs Ha]. unfold sep_ok in Hs. apply andb_true_iff in Hs as [_ Hw].
    assert (Hst : starts_ws (tail_text rest final) = true).
    { unfold tail_text. destruct rest as [|[sep' a'] rest']; simpl; [exact Hf|].
      simpl in Hr. apply andb_true_iff in Hr as [Hi' _]. unfold item_ok in Hi'. simpl in Hi'.
      apply andb_true_iff in Hi' as [Hs' _]. rewrite <- !app_assoc. apply sep_starts_ws, Hs'. }
    assert (E : tail_text ((sep, a) :: rest) final = sep ++ atom_text a ++ tail_text rest final).
    { unfold tail_text. simpl. rewrite <- !app_assoc. reflexivity. }
    rewrite E. unfold spec_words at 1. rewrite spec_ws_run by exact Hw.
    rewrite spec_atom by exact Ha. rewrite spec_flush_tail by exact Hst.
    rewrite rev_involutive, IH by assumption. reflexivity.
Qed.

Lemma spec_open_body q b : forall cur,
  in_chars q b = false -> spec_go (Some q) (Some cur) b = [rev (rev b ++ cur)].
Proof.
  induction b as [|c b IH]; intros cur H; [reflexivity|].
  unfold in_chars in H. simpl in H. apply orb_false_iff in H as [Hc Hb].
  cbn [spec_go]. rewrite N.eqb_sym, Hc. simpl push. rewrite (IH _ Hb). simpl.
  rewrite <- app_assoc. reflexivity.
Qed.

Lemma unquote_open q b : in_chars q b = false -> unquote (q :: b) = q :: b.
Proof.
  intros H. unfold unquote. destruct b as [|d r]; [reflexivity|].
  destruct (in_chars q QUOTES); [|reflexivity]. cbn [andb].
  destruct (q =? last (d :: r) 0) eqn:E; [|reflexivity].
  apply N.eqb_eq in E. exfalso. apply in_chars_false in H. apply H. rewrite E.
  destruct (exists_last (l := d :: r)) as [l' [x Hx]]; [discriminate|].
  rewrite Hx, last_last. apply in_or_app. right. left. reflexivity.
Qed.

Lemma split_unclosed kt lead a0 rest sep q body :
  line_ok lead a0 rest [] = true -> sep_ok sep = true -> is_quote q = true -> in_chars q body = false ->
  let line := lead ++ atom_text a0 ++ tail_text rest (sep ++ q :: body) in
  kt = true \/ no_tab line = true ->
  exists parts,
    parse_partial kt line = PPOk parts
    /\ nonspace_values parts = spec_words line
    /\ nonspace_values parts = atom_text a0 :: map (fun it => atom_text (snd it)) rest ++ [q :: body]
    /\ execute_call kt line
       = CallStrings (atom_value a0) (map (fun it => atom_value (snd it)) rest ++ [q :: body]).
Proof.
  intros H Hs Hq Hb line Hk. unfold line_ok in H. apply andb_true_iff in H as [H _].
  apply andb_true_iff in H as [H Hr]. apply andb_true_iff in H as [Hl Ha].
  pose proof Hs as Hs0. unfold sep_ok in Hs. apply andb_true_iff in Hs as [Hn Hw].
  assert (Hf : starts_ws (sep ++ q :: body) = true) by (apply sep_starts_ws; exact Hs0).
  assert (Lf : lex (sep ++ q :: body) = LexOk [sep; q :: body]).
  { rewrite (lex_cons _ sep (q :: body)).
    2:{ apply mf_ws; auto. simpl. unfold p_ws. unfold is_quote in Hq. rewrite (quote_not_ws q Hq). reflexivity. }
    rewrite (lex_cons (q :: body) (q :: body) []) by (apply mf_quoted_open; assumption). reflexivity. }
  pose proof (lex_tail_gen rest _ _ Hr Hf Lf) as Lt.
  assert (Hst : starts_ws (tail_text rest (sep ++ q :: body)) = true).
  { unfold tail_text. destruct rest as [|[sep' a'] rest']; simpl; [exact Hf|].
    simpl in Hr. apply andb_true_iff in Hr as [Hi' _]. unfold item_ok in Hi'. simpl in Hi'.
    apply andb_true_iff in Hi' as [Hs' _]. rewrite <- !app_assoc. apply sep_starts_ws, Hs'. }
  set (ts := flat_map (fun it => [fst it; atom_text (snd it)]) rest ++ [sep; q :: body]) in *.
  assert (Fq : nonsp (q :: body) = true).
  { unfold nonsp, isspace. simpl. rewrite (quote_not_uspace q Hq). reflexivity. }
  assert (Ft : filter nonsp ts = map (fun it => atom_text (snd it)) rest ++ [q :: body]).
  { unfold ts. rewrite filter_app. f_equal.
    - clear -Hr. induction rest as [|[s a] rest IH]; [reflexivity|]. simpl in *.
      apply andb_true_iff in Hr as [Hi Hr]. unfold item_ok in Hi. simpl in Hi.
      apply andb_true_iff in Hi as [Hs Ha]. unfold sep_ok in Hs. apply andb_true_iff in Hs as [Hn Hw].
      unfold nonsp at 1. rewrite (ws_isspace s Hn Hw). simpl.
      rewrite (atom_text_nonsp a Ha), (IH Hr). reflexivity.
    - simpl. unfold nonsp at 1. rewrite (ws_isspace sep Hn Hw). simpl. rewrite Fq. reflexivity. }
  assert (L0 : lex (atom_text a0 ++ tail_text rest (sep ++ q :: body)) = LexOk (atom_text a0 :: ts)).
  { rewrite (lex_cons _ (atom_text a0) (tail_text rest (sep ++ q :: body))) by (apply mf_atom; assumption).
    rewrite Lt. reflexivity. }
  assert (L : exists tl, lex line = LexOk tl /\ tl <> [] /\ filter nonsp tl = atom_text a0 :: filter nonsp ts).
  { unfold line. destruct lead as [|c l].
    - exists (atom_text a0 :: ts). simpl app. split; [exact L0|]. split; [discriminate|].
      simpl. rewrite (atom_text_nonsp a0 Ha). reflexivity.
    - exists ((c :: l) :: atom_text a0 :: ts). split; [|split; [discriminate|]].
      + rewrite (lex_cons _ (c :: l) (atom_text a0 ++ tail_text rest (sep ++ q :: body)))
          by (apply mf_ws; auto using atom_stops_ws).
        rewrite L0. reflexivity.
      + simpl. unfold nonsp at 1. rewrite (ws_isspace (c :: l)) by auto. simpl.
        rewrite (atom_text_nonsp a0 Ha). reflexivity. }
  destruct L as [tl [L1 [L2 L3]]].
  assert (P : parse_string kt line = LexOk tl) by (rewrite parse_string_no_tab by exact Hk; exact L1).
  assert (S : spec_words line = atom_text a0 :: map (fun it => atom_text (snd it)) rest ++ [q :: body]).
  { unfold line, spec_words. rewrite spec_ws_run by exact Hl. rewrite spec_atom by exact Ha.
    rewrite spec_flush_tail by exact Hst. rewrite rev_involutive. f_equal.
    rewrite spec_tail_gen by assumption. f_equal.
    unfold spec_words. rewrite spec_ws_run by exact Hw. cbn [spec_go].
    unfold is_quote in Hq. rewrite (quote_not_ws q Hq), Hq. simpl push.
    rewrite (spec_open_body q body [q] Hb). rewrite rev_app_distr, rev_involutive. reflexivity. }
  exists (map (fun part => (part, isspace part)) tl). split; [|split; [|split]].
  - unfold parse_partial. rewrite P. reflexivity.
  - rewrite nonspace_values_filter, L3, Ft, S. reflexivity.
  - rewrite nonspace_values_filter, L3, Ft. reflexivity.
  - rewrite (execute_call_lexed kt _ tl P L2), L3, Ft. simpl.
    rewrite (unquote_atom a0 Ha). f_equal. rewrite map_app. cbn [map]. rewrite (unquote_open q body Hb). f_equal.
    clear -Hr. induction rest as [|[s a] rest IH]; [reflexivity|].
    simpl in *. apply andb_true_iff in Hr as [Hi Hr]. unfold item_ok in Hi. simpl in Hi.
    apply andb_true_iff in Hi as [_ Ha]. rewrite (unquote_atom a Ha), (IH Hr). reflexivity.
Qed.
