(* Proofs/BlockC22.v -- C22: the refusal decision of the generated model Gen/Block.v
   (Block.client_connected + CPython ipaddress tables) against the IANA registries (Model/Iana.v).
   All statements quantify over every address; table facts are discharged by the reflective
   interval procedure of Proofs/Pexp.v (evaluation at interval bounds only). *)
From Coq Require Import NArith List Bool Lia ZifyBool String.
From MV Require Import Model.Ipaddr Model.Iana Gen.Block Model.Pexp Model.BlockDiff Proofs.Pexp.
Import ListNotations.
Open Scope N_scope.

Lemma isinstance_LocalMode_spec : forall m, isinstance_LocalMode m = spec_local m.
Proof. destruct m; reflexivity. Qed.

(* ---- the decision as a boolean formula of its six inputs *)
Definition refusedF (loop local bp bg priv glob : bool) : bool :=
  negb (loop || local) && ((bp && priv) || (bg && glob)).

Lemma refused_v4 : forall bp bg m a,
  is_some (client_connected bp bg m (IPv4 a)) =
  refusedF (IPv4Address_is_loopback a) (spec_local m) bp bg (IPv4Address_is_private a) (IPv4Address_is_global a).
Proof.
  intros. rewrite <- isinstance_LocalMode_spec. unfold client_connected, refusedF.
  cbn [ip_is_v6 ip_is_loopback ip_is_private ip_is_global].
  destruct (IPv4Address_is_loopback a), (isinstance_LocalMode m), bp, bg,
    (IPv4Address_is_private a), (IPv4Address_is_global a); reflexivity.
Qed.

Lemma refused_v6_plain : forall bp bg m n, IPv6Address_ipv4_mapped n = None ->
  is_some (client_connected bp bg m (IPv6 n)) =
  refusedF (IPv6Address_is_loopback n) (spec_local m) bp bg (IPv6Address_is_private n) (IPv6Address_is_global n).
Proof.
  intros bp bg m n H. rewrite <- isinstance_LocalMode_spec. unfold client_connected, refusedF.
  cbn [ip_is_v6 ip_ipv4_mapped]. rewrite H. cbn [option_map or_else ip_is_loopback ip_is_private ip_is_global].
  destruct (IPv6Address_is_loopback n), (isinstance_LocalMode m), bp, bg,
    (IPv6Address_is_private n), (IPv6Address_is_global n); reflexivity.
Qed.

Lemma client_connected_mapped : forall bp bg m n v, IPv6Address_ipv4_mapped n = Some v ->
  client_connected bp bg m (IPv6 n) = client_connected bp bg m (IPv4 v).
Proof.
  intros bp bg m n v H. unfold client_connected.
  cbn [ip_is_v6 ip_ipv4_mapped]. rewrite H. cbn [option_map or_else]. reflexivity.
Qed.

(* ---- ipv4_mapped: the shift/mask test is the interval ::ffff:0:0/96, the mask is a subtraction *)
Lemma ipv4_mapped_spec : forall n,
  IPv6Address_ipv4_mapped n = if in_net n mapped_range then Some (n - mapped_base) else None.
Proof.
  intros n. unfold IPv6Address_ipv4_mapped, in_net, mapped_range, mapped_base, max_v4. cbn [fst snd].
  rewrite N.shiftr_div_pow2. change 4294967295 with (N.ones 32). rewrite N.land_ones.
  change (2 ^ 32) with 4294967296.
  pose proof (N.div_mod n 4294967296 ltac:(lia)) as Hdm.
  pose proof (N.mod_lt n 4294967296 ltac:(lia)) as Hlt.
  set (q := n / 4294967296) in *. set (r := n mod 4294967296) in *.
  destruct (q =? 65535) eqn:Eq; cbn [negb];
  destruct (0xffff00000000 <=? n) eqn:E1; destruct (n <=? 0xffff00000000 + N.ones 32) eqn:E2; cbn [andb];
  change (N.ones 32) with 4294967295 in *; try (exfalso; lia); try reflexivity.
  f_equal. lia.
Qed.

Lemma M_loop4_ok : forall a, IPv4Address_is_loopback a = eval M_loop4 a.
Proof. reflexivity. Qed.
Lemma M_priv4_ok : forall a, IPv4Address_is_private a = eval M_priv4 a.
Proof. intros. unfold M_priv4. rewrite eval_por_tbl. reflexivity. Qed.
Lemma M_glob4_ok : forall a, IPv4Address_is_global a = eval M_glob4 a.
Proof. intros. unfold IPv4Address_is_global, M_glob4. cbn [eval]. rewrite M_priv4_ok. reflexivity. Qed.
Lemma M_loop6_ok : forall a, IPv6Address_is_loopback a = eval M_loop6 a.
Proof.
  intros. unfold IPv6Address_is_loopback, M_loop6, eval, in_net. cbn [fst snd].
  destruct (a =? 1) eqn:E; destruct (1 <=? a) eqn:E1; destruct (a <=? 1) eqn:E2; try reflexivity; exfalso; lia.
Qed.
Lemma M_priv6_ok : forall a, IPv6Address_ipv4_mapped a = None -> IPv6Address_is_private a = eval M_priv6 a.
Proof. intros a H. unfold IPv6Address_is_private, M_priv6. rewrite H, eval_por_tbl. reflexivity. Qed.
Lemma M_glob6_ok : forall a, IPv6Address_ipv4_mapped a = None -> IPv6Address_is_global a = eval M_glob6 a.
Proof. intros a H. unfold IPv6Address_is_global, M_glob6. cbn [eval]. rewrite (M_priv6_ok a H). reflexivity. Qed.

Lemma eval_reach_pexp : forall t accp acc a, eval accp a = acc ->
  eval (reach_pexp t accp) a = fold_left (fun acc e => if in_net a (fst e) then snd e else acc) t acc.
Proof.
  induction t as [|e t IH]; intros accp acc a H; cbn [reach_pexp fold_left]; [exact H|].
  apply IH. cbn [eval]. rewrite H. destruct (in_net a (fst e)), (snd e), acc; reflexivity.
Qed.

Lemma S_glob4_ok : forall a, spec_global4 a = eval S_glob4 a.
Proof. intros. symmetry. apply eval_reach_pexp. reflexivity. Qed.
Lemma S_priv4_ok : forall a, spec_private4 a = eval S_priv4 a.
Proof. intros. unfold spec_private4, S_priv4. cbn [eval]. rewrite <- S_glob4_ok. reflexivity. Qed.
Lemma S_glob6_ok : forall a, spec_global6 a = eval S_glob6 a.
Proof. intros. symmetry. apply eval_reach_pexp. reflexivity. Qed.
Lemma S_priv6_ok : forall a, spec_private6 a = eval S_priv6 a.
Proof. intros. unfold spec_private6, S_priv6. cbn [eval]. rewrite <- S_glob6_ok. reflexivity. Qed.

(* the registry tables are listed general -> specific: a later entry never strictly contains an
   earlier one, and overlapping entries are nested (so last match = most specific match) *)
Definition nested_or_disjoint (early late : net) : bool :=
  (snd early <? fst late) || (snd late <? fst early) || ((fst early <=? fst late) && (snd late <=? snd early)).
Fixpoint ordered (t : list entry) : bool :=
  match t with [] => true | e :: r => forallb (fun l => nested_or_disjoint (fst e) (fst l)) r && ordered r end.
Lemma iana_tables_ordered : ordered iana_v4 = true /\ ordered iana_v6 = true.
Proof. split; vm_compute; reflexivity. Qed.

Lemma diff4_exact : forall a, in_nets a diff4 = eval Bad4 a.
Proof.
  intros a. rewrite <- eval_por_tbl_in_nets.
  pose proof (valid_sound (PIff (por_tbl diff4) Bad4) ltac:(vm_compute; reflexivity) a) as H.
  unfold PIff, PXor in H. cbn [eval] in H.
  destruct (eval (por_tbl diff4) a), (eval Bad4 a); try reflexivity; discriminate.
Qed.

Lemma diff6_exact : forall a, in_nets a diff6 = eval Bad6 a.
Proof.
  intros a. rewrite <- eval_por_tbl_in_nets.
  pose proof (valid_sound (PIff (por_tbl diff6) Bad6) ltac:(vm_compute; reflexivity) a) as H.
  unfold PIff, PXor in H. cbn [eval] in H.
  destruct (eval (por_tbl diff6) a), (eval Bad6 a); try reflexivity; discriminate.
Qed.

Lemma loop4_same : forall a, eval M_loop4 a = eval S_loop4 a.
Proof.
  intros a. pose proof (valid_sound (PIff M_loop4 S_loop4) ltac:(vm_compute; reflexivity) a) as H.
  unfold PIff, PXor in H. cbn [eval] in H.
  destruct (eval M_loop4 a), (eval S_loop4 a); try reflexivity; discriminate.
Qed.

Lemma refusedF_agree : forall l1 l2 local bp bg p1 p2 g1 g2,
  xorb (negb l1 && p1) (negb l2 && p2) || xorb (negb l1 && g1) (negb l2 && g2) = false ->
  refusedF l1 local bp bg p1 g1 = refusedF l2 local bp bg p2 g2.
Proof. intros l1 l2 local bp bg p1 p2 g1 g2; destruct l1, l2, local, bp, bg, p1, p2, g1, g2; cbn; intros H; try reflexivity; discriminate. Qed.

Lemma refusedF_differ : forall l1 l2 p1 p2 g1 g2,
  xorb (negb l1 && p1) (negb l2 && p2) || xorb (negb l1 && g1) (negb l2 && g2) = true ->
  exists bp bg, refusedF l1 false bp bg p1 g1 <> refusedF l2 false bp bg p2 g2.
Proof.
  intros l1 l2 p1 p2 g1 g2 H.
  destruct (xorb (negb l1 && p1) (negb l2 && p2)) eqn:E.
  - exists true, false. revert E. destruct l1, l2, p1, p2, g1, g2; cbn; intros; discriminate.
  - exists false, true. revert E H. destruct l1, l2, p1, p2, g1, g2; cbn; intros; discriminate.
Qed.

Lemma eval_xor : forall p q a, eval (PXor p q) a = xorb (eval p a) (eval q a).
Proof. intros. unfold PXor. cbn [eval]. destruct (eval p a), (eval q a); reflexivity. Qed.

Lemma eval_Bad : forall Ml Mp Mg Sl Sp Sg a,
  eval (Bad Ml Mp Mg Sl Sp Sg) a =
  xorb (negb (eval Ml a) && eval Mp a) (negb (eval Sl a) && eval Sp a)
  || xorb (negb (eval Ml a) && eval Mg a) (negb (eval Sl a) && eval Sg a).
Proof. intros. unfold Bad. cbn [eval]. rewrite !eval_xor. reflexivity. Qed.

(* ---- the specification on one family *)
Definition spec_refused4 bp bg local a := refusedF (spec_loopback4 a) local bp bg (spec_private4 a) (spec_global4 a).
Definition spec_refused6 bp bg local a := refusedF (spec_loopback6 a) local bp bg (spec_private6 a) (spec_global6 a).

Lemma spec_refused_unfold : forall bp bg local a,
  spec_refused bp bg local a =
  match effective a with IPv4 n => spec_refused4 bp bg local n | IPv6 n => spec_refused6 bp bg local n end.
Proof.
  intros. unfold spec_refused, spec_loopback, spec_private, spec_global, spec_refused4, spec_refused6, refusedF.
  destruct (effective a); reflexivity.
Qed.

Lemma eval_dom4 : forall a, eval dom4 a = (a <=? max_v4).
Proof. intros. unfold dom4, eval, in_net. cbn [fst snd]. destruct (0 <=? a) eqn:E; [reflexivity|exfalso; lia]. Qed.

Lemma agree_v4 : forall bp bg m a, a <= max_v4 -> in_nets a diff4 = false ->
  is_some (client_connected bp bg m (IPv4 a)) = spec_refused4 bp bg (spec_local m) a.
Proof.
  intros bp bg m a Hwf H. rewrite diff4_exact in H. unfold Bad4 in H. cbn [eval] in H.
  fold (eval dom4 a) in H. rewrite eval_dom4 in H.
  replace (a <=? max_v4) with true in H by (symmetry; apply N.leb_le; exact Hwf). cbn [andb] in H.
  rewrite eval_Bad in H. rewrite refused_v4. unfold spec_refused4.
  rewrite M_loop4_ok, M_priv4_ok, M_glob4_ok, S_priv4_ok, S_glob4_ok.
  apply refusedF_agree. exact H.
Qed.

Lemma differ_v4 : forall a, in_nets a diff4 = true ->
  exists bp bg, is_some (client_connected bp bg RegularMode (IPv4 a)) <> spec_refused4 bp bg false a.
Proof.
  intros a H. rewrite diff4_exact in H. unfold Bad4 in H. cbn [eval] in H.
  apply andb_prop in H. destruct H as [_ H]. rewrite eval_Bad in H.
  destruct (refusedF_differ _ _ _ _ _ _ H) as [bp [bg Hne]].
  exists bp, bg. rewrite refused_v4. unfold spec_refused4. cbn [spec_local].
  rewrite M_loop4_ok, M_priv4_ok, M_glob4_ok, S_priv4_ok, S_glob4_ok. exact Hne.
Qed.

Lemma eval_dom6 : forall a, eval dom6 a = (a <=? max_v6) && negb (in_net a mapped_range).
Proof. intros. unfold dom6. cbn [eval]. unfold in_net at 1. cbn [fst snd]. destruct (0 <=? a) eqn:E; [reflexivity|exfalso; lia]. Qed.

Lemma agree_v6 : forall bp bg m a, a <= max_v6 -> in_net a mapped_range = false -> in_nets a diff6 = false ->
  is_some (client_connected bp bg m (IPv6 a)) = spec_refused6 bp bg (spec_local m) a.
Proof.
  intros bp bg m a Hwf Hm H. rewrite diff6_exact in H. unfold Bad6 in H. cbn [eval] in H.
  fold (eval dom6 a) in H. rewrite eval_dom6, Hm in H.
  replace (a <=? max_v6) with true in H by (symmetry; apply N.leb_le; exact Hwf). cbn [andb negb] in H.
  rewrite eval_Bad in H.
  assert (Hnone : IPv6Address_ipv4_mapped a = None) by (rewrite ipv4_mapped_spec, Hm; reflexivity).
  rewrite (refused_v6_plain _ _ _ _ Hnone). unfold spec_refused6.
  rewrite M_loop6_ok, (M_priv6_ok a Hnone), (M_glob6_ok a Hnone), S_priv6_ok, S_glob6_ok.
  apply refusedF_agree. exact H.
Qed.

Lemma differ_v6 : forall a, in_nets a diff6 = true ->
  in_net a mapped_range = false /\
  exists bp bg, is_some (client_connected bp bg RegularMode (IPv6 a)) <> spec_refused6 bp bg false a.
Proof.
  intros a H. rewrite diff6_exact in H. unfold Bad6 in H. cbn [eval] in H.
  apply andb_prop in H. destruct H as [Hd H]. fold (eval dom6 a) in Hd. rewrite eval_dom6 in Hd.
  apply andb_prop in Hd. destruct Hd as [_ Hm]. apply negb_true_iff in Hm. split; [exact Hm|].
  rewrite eval_Bad in H.
  assert (Hnone : IPv6Address_ipv4_mapped a = None) by (rewrite ipv4_mapped_spec, Hm; reflexivity).
  destruct (refusedF_differ _ _ _ _ _ _ H) as [bp [bg Hne]].
  exists bp, bg. rewrite (refused_v6_plain _ _ _ _ Hnone). unfold spec_refused6. cbn [spec_local].
  rewrite M_loop6_ok, (M_priv6_ok a Hnone), (M_glob6_ok a Hnone), S_priv6_ok, S_glob6_ok. exact Hne.
Qed.

Lemma mapped_le : forall n, in_net n mapped_range = true -> n - mapped_base <= max_v4.
Proof.
  intros n H. unfold in_net, mapped_range, mapped_base, max_v4 in *. cbn [fst snd] in H.
  apply andb_prop in H. destruct H as [H1 H2]. apply N.leb_le in H1. apply N.leb_le in H2. lia.
Qed.

Theorem partial : forall bp bg m a, ip_wf a = true -> in_diff a = false ->
  refused bp bg m a = spec_refused bp bg (spec_local m) a.
Proof.
  intros bp bg m a Hwf Hd. unfold refused. rewrite spec_refused_unfold. unfold in_diff in Hd.
  destruct a as [n|n]; cbn [effective ip_wf] in *.
  - apply agree_v4; [apply N.leb_le; exact Hwf|exact Hd].
  - destruct (in_net n mapped_range) eqn:Em.
    + rewrite (client_connected_mapped bp bg m n (n - mapped_base)) by (rewrite ipv4_mapped_spec, Em; reflexivity).
      apply agree_v4; [apply mapped_le; exact Em|exact Hd].
    + apply agree_v6; [apply N.leb_le; exact Hwf|exact Em|exact Hd].
Qed.

Theorem difference_exact : forall a, in_diff a = true ->
  exists bp bg, refused bp bg RegularMode a <> spec_refused bp bg false a.
Proof.
  intros a Hd. unfold refused, in_diff in *.
  destruct a as [n|n]; cbn [effective] in *.
  - destruct (differ_v4 n Hd) as [bp [bg H]]. exists bp, bg. rewrite spec_refused_unfold. exact H.
  - destruct (in_net n mapped_range) eqn:Em.
    + destruct (differ_v4 _ Hd) as [bp [bg H]]. exists bp, bg. rewrite spec_refused_unfold. cbn [effective]. rewrite Em.
      rewrite (client_connected_mapped bp bg RegularMode n (n - mapped_base)) by (rewrite ipv4_mapped_spec, Em; reflexivity).
      exact H.
    + destruct (differ_v6 n Hd) as [_ [bp [bg H]]]. exists bp, bg. rewrite spec_refused_unfold. cbn [effective]. rewrite Em.
      exact H.
Qed.

(* loopback peers and local-redirect mode are never refused, on the whole address space
   (no exclusion of the difference) *)
Theorem exempt : forall bp bg m a,
  spec_loopback a = true \/ m = LocalMode -> client_connected bp bg m a = None.
Proof.
  intros bp bg m a H.
  assert (Hv4 : forall n, spec_loopback4 n = true \/ m = LocalMode -> client_connected bp bg m (IPv4 n) = None).
  { intros n Hn. pose proof (refused_v4 bp bg m n) as R. unfold refusedF in R.
    assert (Hl : IPv4Address_is_loopback n || spec_local m = true).
    { destruct Hn as [Hn|Hn]; [|subst m; apply orb_true_r].
      rewrite M_loop4_ok, loop4_same. unfold spec_loopback4 in Hn. cbn [S_loop4 eval]. rewrite Hn. reflexivity. }
    rewrite Hl in R. cbn [negb andb] in R. destruct (client_connected bp bg m (IPv4 n)); [discriminate|reflexivity]. }
  unfold spec_loopback in H. destruct a as [n|n]; cbn [effective] in H; [apply Hv4; exact H|].
  destruct (in_net n mapped_range) eqn:Em.
  - rewrite (client_connected_mapped bp bg m n (n - mapped_base)) by (rewrite ipv4_mapped_spec, Em; reflexivity).
    apply Hv4. exact H.
  - assert (Hnone : IPv6Address_ipv4_mapped n = None) by (rewrite ipv4_mapped_spec, Em; reflexivity).
    pose proof (refused_v6_plain bp bg m n Hnone) as R. unfold refusedF in R.
    assert (Hl : IPv6Address_is_loopback n || spec_local m = true).
    { destruct H as [H|H]; [|subst m; apply orb_true_r].
      rewrite M_loop6_ok. unfold spec_loopback6 in H. cbn [M_loop6 eval]. unfold loopback_v6 in H. rewrite H. reflexivity. }
    rewrite Hl in R. cbn [negb andb] in R. destruct (client_connected bp bg m (IPv6 n)); [discriminate|reflexivity].
Qed.

(* a refused connection is closed and no protocol processing is started (shape of handle_client) *)
Theorem refused_before_processing : forall bp bg m a,
  refused bp bg m a = true ->
  ~ In StartEvent (handle_client_after_hook (refused bp bg m a))
  /\ ~ In HandleConnection (handle_client_after_hook (refused bp bg m a))
  /\ In CloseWriter (handle_client_after_hook (refused bp bg m a)).
Proof.
  intros bp bg m a H. rewrite H. cbn.
  split; [|split]; [intros [F|[]]; discriminate | intros [F|[]]; discriminate | left; reflexivity].
Qed.

(* ---- the difference is not empty: concrete counterexamples, computed from the tables *)
Definition witness4 : N := match diff4 with (lo, _) :: _ => lo | [] => 0 end.
Definition witness6 : N := match diff6 with (lo, _) :: _ => lo | [] => 0 end.

Definition differs (a : ip) : bool :=
  existsb (fun bp => existsb (fun bg => negb (Bool.eqb (refused bp bg RegularMode a) (spec_refused bp bg false a)))
                             [true; false]) [true; false].

Lemma differs_sound : forall a, differs a = true ->
  exists bp bg, refused bp bg RegularMode a <> spec_refused bp bg false a.
Proof.
  intros a H. unfold differs in H. cbn [existsb] in H.
  repeat (apply orb_prop in H; destruct H as [H|H]); try discriminate;
    apply negb_true_iff in H; apply eqb_false_iff in H; eauto.
Qed.

Theorem refuted : exists bp bg m a, ip_wf a = true /\ refused bp bg m a <> spec_refused bp bg (spec_local m) a.
Proof.
  destruct (differs_sound (IPv4 witness4) ltac:(vm_compute; reflexivity)) as [bp [bg H]].
  exists bp, bg, RegularMode, (IPv4 witness4). split; [vm_compute; reflexivity|exact H].
Qed.

Theorem refuted_v6_and_mapped :
  (exists bp bg, refused bp bg RegularMode (IPv6 witness6) <> spec_refused bp bg false (IPv6 witness6))
  /\ (exists bp bg, refused bp bg RegularMode (IPv6 (mapped_base + witness4)) <> spec_refused bp bg false (IPv6 (mapped_base + witness4))).
Proof. split; apply differs_sound; vm_compute; reflexivity. Qed.

(* non-vacuity: the hypotheses of [partial] hold for addresses of every class, and both outcomes occur *)
Theorem nonvacuous :
  (* 8.8.8.8, also written ::ffff:8.8.8.8 : outside the difference, refused by block_global *)
  ip_wf (IPv4 134744072) = true /\ in_diff (IPv4 134744072) = false /\ refused false true RegularMode (IPv4 134744072) = true
  /\ in_diff (IPv6 (mapped_base + 134744072)) = false /\ refused false true Socks5Mode (IPv6 (mapped_base + 134744072)) = true
  (* 10.0.0.1 : private; refused only by block_private *)
  /\ in_diff (IPv4 167772161) = false /\ refused false true RegularMode (IPv4 167772161) = false
  /\ refused true false RegularMode (IPv4 167772161) = true
  (* local mode and loopback are exempt *)
  /\ refused true true LocalMode (IPv4 134744072) = false /\ refused true true RegularMode (IPv6 1) = false
  (* the computed difference is not everything and not nothing *)
  /\ diff4 <> [] /\ diff6 <> [].
Proof. repeat split; try (vm_compute; reflexivity); vm_compute; discriminate. Qed.

(* ---- histories.  The verdict on a connection is a function of the current options and of that
   connection alone, whatever was served before on the same addon instance. *)
Theorem history_stateless : forall st h,
  run_history st h = map (fun c => client_connected (c_bp c) (c_bg c) (c_mode c) (c_addr c)) h.
Proof.
  intros st h. revert st. induction h as [|c r IH]; intros st; cbn [run_history map]; [reflexivity|].
  unfold hook_step. rewrite IH. reflexivity.
Qed.

Theorem history_partial : forall st h,
  Forall2 (fun c e => ip_wf (c_addr c) = true -> in_diff (c_addr c) = false ->
                      is_some e = spec_refused (c_bp c) (c_bg c) (spec_local (c_mode c)) (c_addr c))
          h (run_history st h).
Proof.
  intros st h. rewrite history_stateless. induction h as [|c r IH]; cbn [map]; constructor; [|exact IH].
  intros Hwf Hd. exact (partial (c_bp c) (c_bg c) (c_mode c) (c_addr c) Hwf Hd).
Qed.

Theorem history_exempt : forall st h,
  Forall2 (fun c e => spec_loopback (c_addr c) = true \/ c_mode c = LocalMode -> e = None) h (run_history st h).
Proof.
  intros st h. rewrite history_stateless. induction h as [|c r IH]; cbn [map]; constructor; [|exact IH].
  intros H. exact (exempt (c_bp c) (c_bg c) (c_mode c) (c_addr c) H).
Qed.
