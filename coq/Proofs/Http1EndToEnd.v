(* Proofs/Http1EndToEnd.v -- the end-to-end statement for one forwarded request: the bytes Http1Client.send writes
   for a recorded head and body are read by the reference parser as exactly that request; refutation witnesses for
   the lexical families the parser does not check; non-vacuity. *)
From Coq Require Import List Bool NArith ZArith Lia.
From MV Require Import Base.Bytes Model.Http1Msg Model.BodySizePrelude Gen.BodySize Model.Http1Conn Model.Rfc9112
  Proofs.Http1Lines Proofs.Http1Chunks Proofs.Http1Roundtrip.
Import ListNotations.

Definition recorded_request (r : request_head) (body : bytes) : ref_request :=
  mkRefReq (rq_method r) (req_target r) (rq_version r) (rq_headers r) body [].

(* the full statement for one exchange: whatever is written upstream for the recorded request is read back,
   by any RFC 9112 recipient, as exactly the recorded request, consuming exactly those bytes *)
Definition forwarded_reads_as_recorded (o : ref_opts) (r : request_head) (chunks : list bytes) : Prop :=
  forall cmds rest, forward_request r chunks = Ok cmds ->
    parse_request o (sent_bytes cmds ++ rest) = POk (recorded_request r (concat chunks), rest).

(* send-side framing and the reference decision name the same framing for this body *)
Definition framing_matches (r : request_head) (chunks : list bytes) : Prop :=
  match request_body_length (rq_version r) (rq_headers r) with
  | Some BLChunked => send_chunked (rq_headers r) = true /\ True
  | Some (BLLen n) => send_chunked (rq_headers r) = false /\ n = N.of_nat (length (concat chunks))
  | Some BLZero => send_chunked (rq_headers r) = false /\ concat chunks = []
  | _ => False
  end.

Lemma sent_bytes_app a b : sent_bytes (a ++ b) = sent_bytes a ++ sent_bytes b.
Proof. induction a as [|[d|] a IH]; simpl; auto. rewrite IH, app_assoc. reflexivity. Qed.

Definition chunk_or_nothing (c : bytes) : bytes := match c with [] => [] | _ => emit_chunk c end.

Lemma sent_client_data r d :
  sent_bytes (client_send_data r d) = if send_chunked (rq_headers r) then chunk_or_nothing d else d.
Proof.
  unfold client_send_data, chunk_or_nothing. destruct d as [|x d]; cbn [nonempty andb].
  - destruct (send_chunked _); reflexivity.
  - destruct (send_chunked (rq_headers r)).
    + destruct (emit_chunk (x :: d)); simpl; rewrite ?app_nil_r; reflexivity.
    + simpl. rewrite ?app_nil_r. reflexivity.
Qed.

Lemma sent_client_chunks r cs :
  sent_bytes (concat (map (client_send_data r) cs)) =
  if send_chunked (rq_headers r) then concat (map chunk_or_nothing cs) else concat cs.
Proof.
  induction cs as [|c cs IH]; simpl.
  - destruct (send_chunked _); reflexivity.
  - rewrite sent_bytes_app, sent_client_data, IH. destruct (send_chunked _); reflexivity.
Qed.

Definition ne_chunk (c : bytes) : bool := match c with [] => false | _ => true end.
Lemma chunk_or_nothing_filter cs :
  concat (map chunk_or_nothing cs) = concat (map emit_chunk (filter ne_chunk cs))
  /\ concat (filter ne_chunk cs) = concat cs /\ Forall (fun c => c <> []) (filter ne_chunk cs).
Proof.
  induction cs as [|c cs (A & B & C)]; [repeat split; constructor|].
  destruct c as [|x c]; simpl; [repeat split; assumption|].
  rewrite A, B. repeat split. constructor; [discriminate | exact C].
Qed.

Lemma skip_empty_token_start m s : is_token m = true -> skip_empty_lines (m ++ [SP] ++ s) = m ++ [SP] ++ s.
Proof.
  unfold is_token. destruct m as [|c m]; [discriminate|]. intros T. simpl in T. apply andb_true_iff in T as [T _].
  assert (E : byte_eqb c rCR = false).
  { destruct (byte_eqb c rCR) eqn:E; auto. apply byte_eqb_eq in E. subst c. discriminate. }
  destruct m; simpl; rewrite E; reflexivity.
Qed.

Theorem forwarded_reads_as_recorded_partial o r chunks :
  Inv_req r -> framing_matches r chunks -> forwarded_reads_as_recorded o r chunks.
Proof.
  intros I FM cmds rest Hf. unfold forward_request in Hf.
  destruct (client_send_end r None) as [e| |] eqn:Ee; try discriminate. cbn [bind] in Hf. injection Hf as <-.
  cbn [sent_bytes]. rewrite sent_bytes_app, sent_client_chunks.
  unfold parse_request.
  assert (SK : forall x, skip_empty_lines (assemble_request_head r ++ x) = assemble_request_head r ++ x).
  { intros x. unfold assemble_request_head. rewrite assemble_request_line_eq, <- !app_assoc.
    apply skip_empty_token_start, (ir_method r I). }
  rewrite <- !app_assoc, SK, (head_roundtrip_request o r _ I).
  unfold framing_matches in FM. unfold client_send_end in Ee.
  destruct (request_body_length (rq_version r) (rq_headers r)) as [[| n | | |]|]; try contradiction; destruct FM as [SC FB]; rewrite SC in *.
  - (* no body *) rewrite FB.
    assert (sent_bytes e = []).
    { destruct (expected_http_body_size r None) as [[z|]| |]; cbn [bind] in Ee; try discriminate;
        [destruct (Z.eqb z MINUS1)|]; injection Ee as <-; reflexivity. }
    rewrite H. reflexivity.
  - (* Content-Length *)
    assert (sent_bytes e = []).
    { destruct (expected_http_body_size r None) as [[z|]| |]; cbn [bind] in Ee; try discriminate;
        [destruct (Z.eqb z MINUS1)|]; injection Ee as <-; reflexivity. }
    rewrite H, FB. cbn [app]. rewrite (body_reframe_length o (concat chunks) rest). reflexivity.
  - (* chunked: empty data events write nothing, the others one chunk each *)
    injection Ee as <-. cbn [sent_bytes]. rewrite app_nil_r.
    destruct (chunk_or_nothing_filter chunks) as (A & B & C). rewrite A.
    rewrite (body_reframe_read_body o _ rest C), B. reflexivity.
Qed.

(* ---------- refutation witnesses: heads the parser and validation accept, whose forwarded bytes no RFC 9112
   recipient reads as the recorded request (lexical families recorded as known findings) *)
Definition any_url : url_lib := mkUrl (fun a => Some (a, Some 80%N)) (fun _ => true).
Definition strict : ref_opts := mkOpts false false false.
Definition lenient : ref_opts := mkOpts true true true.

Definition b (l : list N) : bytes := map Nb l.
(* G(T /p HTTP/1.1 *)
Definition nontoken_lines : list bytes :=
  [ [x47;x28;x54;x20;x2f;x70;x20;x48;x54;x54;x50;x2f;x31;x2e;x31]; [x48;x6f;x73;x74;x3a;x20;x78] ].
(* GET /a^Ab HTTP/1.1 *)
Definition ctl_target_lines : list bytes :=
  [ [x47;x45;x54;x20;x2f;x61;x01;x62;x20;x48;x54;x54;x50;x2f;x31;x2e;x31]; [x48;x6f;x73;x74;x3a;x20;x78] ].

Definition refutes (lines : list bytes) (o : ref_opts) : bool :=
  match read_request_head any_url lines with
  | Ok r =>
      match validate_headers (MReq r), forward_request r [] with
      | Ok _, Ok cmds =>
          match parse_request o (sent_bytes cmds) with
          | POk _ => false
          | PErr _ => true
          end
      | _, _ => false
      end
  | _ => false
  end.

Lemma refuted_nontoken_method : refutes nontoken_lines strict = true /\ refutes nontoken_lines lenient = true.
Proof. vm_compute. split; reflexivity. Qed.
Lemma refuted_ctl_target : refutes ctl_target_lines strict = true /\ refutes ctl_target_lines lenient = true.
Proof. vm_compute. split; reflexivity. Qed.

Theorem end_to_end_refuted :
  exists lines r cmds, read_request_head any_url lines = Ok r /\ validate_headers (MReq r) = Ok tt
    /\ forward_request r [] = Ok cmds
    /\ forall o, o = strict \/ o = lenient -> parse_request o (sent_bytes cmds) <> POk (recorded_request r [], []).
Proof.
  exists nontoken_lines. eexists. eexists.
  split; [vm_compute; reflexivity|]. split; [vm_compute; reflexivity|]. split; [vm_compute; reflexivity|].
  intros o [-> | ->]; vm_compute; discriminate.
Qed.

(* responses: a bare CR in the reason phrase and a status code that is not three digits reach the client *)
Definition resp_refutes (lines : list bytes) : bool :=
  match read_response_head lines with
  | Ok r =>
      match validate_headers (MResp r) with
      | Ok _ =>
          match parse_response strict [x47;x45;x54] (sent_bytes (forward_response (mkReq [] 0 [x47;x45;x54] [] [] [x2f] HTTP11 []) r [])) with
          | POk _ => false
          | PErr _ => true
          end
      | _ => false
      end
  | _ => false
  end.
(* HTTP/1.1 200 a^Mb   and   HTTP/1.1 1000 OK *)
Lemma refuted_reason_cr :
  resp_refutes [ [x48;x54;x54;x50;x2f;x31;x2e;x31;x20;x32;x30;x30;x20;x61;x0d;x62]; [x43;x6f;x6e;x74;x65;x6e;x74;x2d;x4c;x65;x6e;x67;x74;x68;x3a;x20;x30] ] = true.
Proof. vm_compute. reflexivity. Qed.
Lemma refuted_status_digits :
  resp_refutes [ [x48;x54;x54;x50;x2f;x31;x2e;x31;x20;x31;x30;x30;x30;x20;x4f;x4b]; [x43;x6f;x6e;x74;x65;x6e;x74;x2d;x4c;x65;x6e;x67;x74;x68;x3a;x20;x30] ] = true.
Proof. vm_compute. reflexivity. Qed.

(* ---------- non-vacuity: a chunked POST with two chunks *)
Definition sample_req : request_head :=
  mkReq [] 80 [x50;x4f;x53;x54] [] [] [x2f;x70] HTTP11
        [([x48;x6f;x73;x74], [x78]); (TRANSFER_ENCODING, [x67;x7a;x69;x70;x2c;x20;x63;x68;x75;x6e;x6b;x65;x64])].
Definition sample_chunks : list bytes := [[x61;x62]; [x63]].

Lemma sample_inv : Inv_req sample_req.
Proof.
  constructor; try (vm_compute; reflexivity).
  - split; [discriminate | vm_compute; reflexivity].
  - repeat constructor; vm_compute; reflexivity.
Qed.

Lemma sample_nonvacuous :
  validate_headers (MReq sample_req) = Ok tt /\ Inv_req sample_req /\ framing_matches sample_req sample_chunks
  /\ exists cmds, forward_request sample_req sample_chunks = Ok cmds
       /\ parse_request strict (sent_bytes cmds) = POk (recorded_request sample_req [x61;x62;x63], []).
Proof.
  split; [vm_compute; reflexivity|]. split; [exact sample_inv|]. split.
  - unfold framing_matches. 
    change (request_body_length (rq_version sample_req) (rq_headers sample_req)) with (Some BLChunked).
    split; [vm_compute; reflexivity|exact I].
  - eexists. split; [vm_compute; reflexivity|]. vm_compute. reflexivity.
Qed.

Lemma lexical_refuted :
  refutes ctl_target_lines strict = true /\ refutes nontoken_lines lenient = true
  /\ resp_refutes [ [x48;x54;x54;x50;x2f;x31;x2e;x31;x20;x32;x30;x30;x20;x61;x0d;x62]; [x43;x6f;x6e;x74;x65;x6e;x74;x2d;x4c;x65;x6e;x67;x74;x68;x3a;x20;x30] ] = true
  /\ resp_refutes [ [x48;x54;x54;x50;x2f;x31;x2e;x31;x20;x31;x30;x30;x30;x20;x4f;x4b]; [x43;x6f;x6e;x74;x65;x6e;x74;x2d;x4c;x65;x6e;x67;x74;x68;x3a;x20;x30] ] = true.
Proof. vm_compute. repeat split; reflexivity. Qed.
