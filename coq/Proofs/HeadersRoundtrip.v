(* Proofs/HeadersRoundtrip.v -- bytes(Headers(fields)) + blank line, cut into lines by h11 and
   parsed by _read_headers, gives back exactly the fields, for every list of valid fields. *)
From Coq Require Import List Bool NArith Lia.
From MV Require Import Base.Bytes Model.Headers.
Import ListNotations.

Definition line_of (f : field) : bytes := fst f ++ COLON_SP ++ snd f.
Definition ser (fs : list field) : bytes := flat_map (fun f => line_of f ++ CRLF) fs.
Definition no_lf (s : bytes) : bool := forallb (fun b => negb (byte_eqb b x0a)) s.

(* ---------------------------------------------------------------- __bytes__ as a flat_map *)
Lemma join_crlf l ls : join CRLF (l :: ls) ++ CRLF = flat_map (fun l => l ++ CRLF) (l :: ls).
Proof.
  revert l. induction ls as [|l' ls IH]; intros l.
  - simpl. rewrite app_nil_r. reflexivity.
  - change (join CRLF (l :: l' :: ls)) with (l ++ CRLF ++ join CRLF (l' :: ls)).
    rewrite <- !app_assoc, IH. cbn [flat_map]. rewrite <- !app_assoc. reflexivity.
Qed.

Lemma flat_map_map {A B C} (g : A -> B) (h : B -> list C) l :
  flat_map h (map g l) = flat_map (fun x => h (g x)) l.
Proof. induction l as [|x l IH]; simpl; [reflexivity | rewrite IH; reflexivity]. Qed.

Lemma headers_bytes_ser fs : headers_bytes fs = ser fs.
Proof.
  destruct fs as [|f fs]; [reflexivity|].
  unfold headers_bytes. cbv beta iota.
  set (g := fun field : field => join COLON_SP [fst field; snd field]).
  change (join CRLF (g f :: map g fs) ++ CRLF = ser (f :: fs)). rewrite join_crlf.
  change (g f :: map g fs) with (map g (f :: fs)). rewrite flat_map_map.
  unfold ser, g. apply flat_map_ext. intros [n v]. unfold line_of. simpl.
  reflexivity.
Qed.

(* ---------------------------------------------------------------- h11 line extraction *)
Lemma split_lf_line l rest :
  no_lf l = true -> split_lf (l ++ x0d :: x0a :: rest) = (l ++ [x0d]) :: split_lf rest.
Proof.
  induction l as [|c l IH]; intros H.
  - reflexivity.
  - simpl in H. apply andb_true_iff in H as [Hc Hl]. apply negb_true_iff in Hc.
    simpl. rewrite Hc, (IH Hl). reflexivity.
Qed.

Lemma split_lf_ser fs :
  forallb (fun f => no_lf (line_of f)) fs = true ->
  split_lf (ser fs ++ CRLF) = map (fun f => line_of f ++ [x0d]) fs ++ [[x0d]; []].
Proof.
  induction fs as [|f fs IH]; intros H.
  - reflexivity.
  - simpl in H. apply andb_true_iff in H as [Hf Hfs].
    change (ser (f :: fs)) with ((line_of f ++ CRLF) ++ ser fs).
    rewrite <- !app_assoc. change (CRLF ++ ser fs ++ CRLF) with (x0d :: x0a :: (ser fs ++ CRLF)).
    rewrite (split_lf_line _ _ Hf), (IH Hfs). reflexivity.
Qed.

Lemma strip_cr_line l : strip_cr (l ++ [x0d]) = l.
Proof.
  induction l as [|c l IH]; [reflexivity|].
  change ((c :: l) ++ [x0d]) with (c :: (l ++ [x0d])).
  unfold strip_cr; fold strip_cr. rewrite IH.
  destruct (l ++ [x0d]) eqn:E; [|reflexivity].
  destruct l; discriminate.
Qed.

Lemma is_blank_line c l : is_blank ((c :: l) ++ [x0d]) = false.
Proof. destruct l as [|d l]; [reflexivity|]. destruct l; reflexivity. Qed.

Lemma take_head_lines fs :
  forallb (fun f => match line_of f with [] => false | _ :: _ => true end) fs = true ->
  take_head (map (fun f => line_of f ++ [x0d]) fs ++ [[x0d]; []]) = Some (map line_of fs).
Proof.
  induction fs as [|f fs IH]; intros H.
  - reflexivity.
  - simpl in H. apply andb_true_iff in H as [Hf Hfs].
    destruct (line_of f) as [|c l] eqn:El; [discriminate|].
    rewrite map_cons, <- app_comm_cons. unfold take_head; fold take_head.
    rewrite (IH Hfs). rewrite El, is_blank_line, strip_cr_line.
    destruct (map (fun f0 => line_of f0 ++ [x0d]) fs ++ [[x0d]; []]) eqn:E;
      [|cbn [map]; rewrite El; reflexivity].
    destruct fs; discriminate.
Qed.

(* ---------------------------------------------------------------- _read_headers on a field line *)
Lemma split_colon_name n rest :
  forallb (fun b => negb (byte_eqb b x3a)) n = true ->
  split_colon (n ++ x3a :: rest) = Some (n, rest).
Proof.
  induction n as [|c n IH]; intros H.
  - reflexivity.
  - simpl in H. apply andb_true_iff in H as [Hc Hn]. apply negb_true_iff in Hc.
    simpl. rewrite Hc, (IH Hn). reflexivity.
Qed.

Lemma lstrip_id v : match v with [] => true | c :: _ => negb (is_ws c) end = true -> lstrip v = v.
Proof.
  destruct v as [|c v]; [reflexivity|]. intros H. apply negb_true_iff in H. simpl. rewrite H. reflexivity.
Qed.

Lemma strip_valid v : valid_value v = true -> strip (x20 :: v) = v.
Proof.
  unfold valid_value. intros H. apply andb_true_iff in H as [H Hr]. apply andb_true_iff in H as [_ Hl].
  unfold strip. change (lstrip (x20 :: v)) with (lstrip v). rewrite (lstrip_id v Hl).
  unfold rstrip. rewrite (lstrip_id (rev v) Hr). apply rev_involutive.
Qed.

Lemma forallb_weaken {A} (P Q : A -> bool) l :
  (forall x, P x = true -> Q x = true) -> forallb P l = true -> forallb Q l = true.
Proof.
  intros HPQ. induction l as [|x l IH]; simpl; [reflexivity|].
  intros H. apply andb_true_iff in H as [Hx Hl]. rewrite (HPQ x Hx), (IH Hl). reflexivity.
Qed.

Lemma valid_name_nocolon n : valid_name n = true -> forallb (fun b => negb (byte_eqb b x3a)) n = true.
Proof.
  unfold valid_name. destruct n as [|c n]; [discriminate|]. intros H.
  apply andb_true_iff in H as [_ H]. revert H. apply forallb_weaken.
  intros x Hx. apply negb_true_iff in Hx. apply orb_false_iff in Hx as [Hx _]. rewrite Hx. reflexivity.
Qed.

Lemma valid_name_nolf n : valid_name n = true -> no_lf n = true.
Proof.
  unfold valid_name, no_lf. destruct n as [|c n]; [discriminate|]. intros H.
  apply andb_true_iff in H as [_ H]. revert H. apply forallb_weaken.
  intros x Hx. apply negb_true_iff in Hx. apply orb_false_iff in Hx as [_ Hx]. rewrite Hx. reflexivity.
Qed.

Lemma valid_line_nolf f : valid_field f = true -> no_lf (line_of f) = true.
Proof.
  unfold valid_field, line_of. intros H. apply andb_true_iff in H as [Hn Hv].
  pose proof (valid_name_nolf _ Hn) as Hn'. unfold no_lf in *.
  rewrite !forallb_app, Hn'. simpl.
  unfold valid_value in Hv. apply andb_true_iff in Hv as [Hv _]. apply andb_true_iff in Hv as [Hv _].
  exact Hv.
Qed.

Lemma valid_line_nonempty f :
  valid_field f = true -> match line_of f with [] => false | _ :: _ => true end = true.
Proof.
  unfold valid_field, line_of, valid_name. destruct f as [[|c n] v]; simpl; [discriminate | reflexivity].
Qed.

Lemma read_headers_loop_valid fs : forall acc,
  forallb valid_field fs = true ->
  read_headers_loop (map line_of fs) acc = RhOk (acc ++ fs).
Proof.
  induction fs as [|[n v] fs IH]; intros acc H.
  - simpl. rewrite app_nil_r. reflexivity.
  - simpl in H. apply andb_true_iff in H as [Hf Hfs].
    unfold valid_field in Hf. simpl in Hf. apply andb_true_iff in Hf as [Hn Hv].
    pose proof (valid_name_nocolon n Hn) as Hnc.
    destruct n as [|c n]; [discriminate|].
    simpl in Hn. apply andb_true_iff in Hn as [Hc _]. apply negb_true_iff in Hc.
    rewrite map_cons. unfold line_of at 1. simpl fst. simpl snd.
    change ((c :: n) ++ COLON_SP ++ v) with (c :: (n ++ x3a :: x20 :: v)).
    unfold read_headers_loop; fold read_headers_loop. rewrite Hc.
    change (c :: n ++ x3a :: x20 :: v) with ((c :: n) ++ x3a :: x20 :: v).
    rewrite (split_colon_name (c :: n) (x20 :: v) Hnc), (strip_valid v Hv).
    rewrite (IH _ Hfs), <- app_assoc. reflexivity.
Qed.

(* ---------------------------------------------------------------- the round trip *)
Theorem roundtrip : forall fs,
  forallb valid_field fs = true -> read_back fs = Some (RhOk fs).
Proof.
  intros fs H. unfold read_back, maybe_extract_lines, _read_headers.
  rewrite headers_bytes_ser, split_lf_ser, take_head_lines.
  - rewrite (read_headers_loop_valid fs [] H). reflexivity.
  - revert H. apply forallb_weaken. apply valid_line_nonempty.
  - revert H. apply forallb_weaken. apply valid_line_nolf.
Qed.
