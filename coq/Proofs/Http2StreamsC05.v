(* Proofs/Http2StreamsC05.v -- C05 statements for the concrete Http2Client model: the generic mapping theorems
   instantiated with the proved hyper-h2 contract, and the concrete witnesses (by evaluation) for the refuted parts. *)
From Coq Require Import List Bool NArith ZArith Lia.
From MV Require Import Base.Bytes Model.Http2Streams Proofs.Http2StreamsMap Proofs.Http2StreamsH2 Proofs.Http2StreamsBuf.
Import ListNotations.
Open Scope N_scope.

Definition nid (c : conn) : N := next_stream_id (ch c).

(* states of the Http2Client model reachable by a history of inputs (fixd / fq select shipped or repaired code) *)
Definition creach (fixd fq : bool) : h2client -> list input -> Prop :=
  reach conn conn_event has_free nid dead fq (conn_init true fixd).

Fixpoint crun (fq : bool) (s : h2client) (h : list input) : res h2client :=
  match h with [] => Ok s | i :: t => do r <- client_step fq s i; crun fq (fst r) t end.

Lemma crun_reach fixd fq : forall h s0 h0 s, creach fixd fq s0 h0 -> crun fq s0 h = Ok s -> creach fixd fq s (h0 ++ h).
Proof. induction h as [|i t IH]; intros s0 h0 s Hr H; cbn [crun] in H; [injection H as <-; now rewrite app_nil_r|].
  destruct (client_step fq s0 i) as [[s1 o]| |] eqn:E; cbn [bind fst] in H; try discriminate.
  replace (h0 ++ i :: t) with ((h0 ++ [i]) ++ t) by (now rewrite <- app_assoc).
  eapply IH; [|exact H]. eapply reach_step; [exact Hr|exact E]. Qed.

Lemma crun_reach0 fixd fq h s : crun fq (client_init fixd) h = Ok s -> creach fixd fq s h.
Proof. intros H. apply (crun_reach fixd fq h (client_init fixd) [] s); [apply reach_init|exact H]. Qed.

Definition bijective (s : h2client) : Prop :=
  forall c j, dget c (our s) = Some j <-> dget j (their s) = Some c.

Lemma c05_bijective fixd fq s h : creach fixd fq s h -> wf_first [] h = true -> bijective s.
Proof. intros Hr Hw. exact (map_bijective conn conn_event has_free nid dead fq hi Cinv (fun c => contract_fresh c) contract_mono contract_headers _ (contract_init fixd) s h Hr Hw). Qed.

Lemma c05_ids_fresh fixd fq s h : creach fixd fq s h -> wf_first [] h = true ->
  forall j c, dget j (their s) = Some c -> j < next_stream_id (ch (cc s)).
Proof. intros Hr Hw. exact (map_ids_fresh conn conn_event has_free nid dead fq hi Cinv (fun c => contract_fresh c) contract_mono contract_headers _ (contract_init fixd) s h Hr Hw). Qed.

Lemma c05_fifo fixd fq s h : creach fixd fq s h -> dead (cc s) = false ->
  dkeys (our s) ++ dkeys (queue s) = arrivals h /\ NoDup (arrivals h) /\ (queue s = [] \/ has_free (cc s) = false).
Proof. intros Hr Ha. exact (map_fifo conn conn_event has_free nid dead fq hi Cinv (fun c => contract_fresh c) contract_mono contract_headers _ (contract_init fixd) s h Hr Ha). Qed.

Lemma c05_open_needs_capacity fixd fq s h e s' o : creach fixd fq s h -> client_step fq s (IHttp e) = Ok (s', o) ->
  dget (hev_sid e) (our s) = None -> dmem (hev_sid e) (our s') = true ->
  open_outbound (ch (cc s)) < limit (cc s) /\ dget (hev_sid e) (our s') = Some (next_stream_id (ch (cc s))).
Proof. intros Hr Hs Hn Hm.
  destruct (map_open_needs_capacity conn conn_event has_free nid dead fq hi Cinv
              (fun c => contract_fresh c) contract_mono contract_headers _ (contract_init fixd) s h e s' o Hr Hs Hn Hm) as [A B].
  split; [now apply N.ltb_lt|exact B]. Qed.

Lemma c05_dead_queue_empty fixd s h : creach fixd true s h -> dead (cc s) = true -> queue s = [].
Proof. intros Hr Hd. exact (map_dead_queue_empty conn conn_event has_free nid dead true _ s h Hr eq_refl Hd). Qed.

(* ---- witnesses *)
Definition h_lost : list input :=
  [IStart; IFrames [FSettings [(3, 1)]]; IHttp (EHeaders 1 1 true); IHttp (EEom 1);
   IHttp (EHeaders 3 3 true); IHttp (EEom 3); IClosed].

Lemma c05_queued_lost : exists s, creach false false s h_lost /\ wf_first [] h_lost = true /\ dead (cc s) = true /\ dkeys (queue s) = [3].
Proof. destruct (crun false (client_init false) h_lost) as [s| |] eqn:E; try (vm_compute in E; discriminate).
  exists s. split; [now apply crun_reach0|]. vm_compute in E. injection E as <-. vm_compute. auto. Qed.

Definition h_nowf : list input := [IStart; IHttp (EData 1 []); IHttp (EData 3 [])].

Lemma c05_bijection_needs_wf : exists s, creach false false s h_nowf /\ ~ bijective s.
Proof. destruct (crun false (client_init false) h_nowf) as [s| |] eqn:E; try (vm_compute in E; discriminate).
  exists s. split; [now apply crun_reach0|]. vm_compute in E. injection E as <-. intros B.
  specialize (B 1 1). cbn in B. destruct B as [B _]. specialize (B eq_refl). discriminate. Qed.

Definition h_negwin : list input :=
  [IStart; IHttp (EHeaders 1 1 false); IHttp (EData 1 (repeat x00 8)); IFrames [FSettings [(4, 1)]]].

(* a well-formed history after which the shipped code raises on 9 more request bytes, while the repaired code buffers them *)
Lemma c05_negwin_crash :
  wf_first [] (h_negwin ++ [IHttp (EData 1 (repeat x01 9))]) = true /\
  (exists s, creach false false s h_negwin /\ client_step false s (IHttp (EData 1 (repeat x01 9))) = Crash) /\
  (exists s s' o, creach true false s h_negwin /\ client_step false s (IHttp (EData 1 (repeat x01 9))) = Ok (s', o)).
Proof. split; [reflexivity|]. split.
  - destruct (crun false (client_init false) h_negwin) as [s| |] eqn:E; try (vm_compute in E; discriminate).
    exists s. split; [now apply crun_reach0|]. vm_compute in E. injection E as <-. vm_compute. reflexivity.
  - destruct (crun false (client_init true) h_negwin) as [s| |] eqn:E; try (vm_compute in E; discriminate).
    exists s. pose proof (crun_reach0 _ _ _ _ E) as Hr. vm_compute in E. injection E as <-.
    eexists _, _. split; [exact Hr|]. vm_compute. reflexivity. Qed.

Definition h_sample : list input :=
  [IStart; IFrames [FSettings [(3, 1)]]; IHttp (EHeaders 1 1 false); IHttp (EHeaders 3 3 true);
   IHttp (EData 1 [x01]); IHttp (EEom 3)].

Lemma c05_sample : exists s, creach true true s h_sample /\ wf_first [] h_sample = true /\ dead (cc s) = false /\
  our s = [(1, 1)] /\ their s = [(1, 1)] /\ dkeys (queue s) = [3] /\ arrivals h_sample = [1; 3].
Proof. destruct (crun true (client_init true) h_sample) as [s| |] eqn:E; try (vm_compute in E; discriminate).
  exists s. split; [now apply crun_reach0|]. vm_compute in E. injection E as <-. vm_compute. auto 10. Qed.
