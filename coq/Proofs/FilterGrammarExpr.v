(* Proofs/FilterGrammarExpr.v -- the precedence parser reads back every rendered expression tree
   (structural induction, unbounded depth), and the three families of documented renderings it does not. *)
From Coq Require Import List Bool NArith Arith Lia.
From MV Require Import Base.Bytes Gen.FlowFilterAtoms Model.FilterGrammar
  Proofs.FilterGrammarTokens Proofs.FilterGrammarAtoms.
Import ListNotations.

Definition B (f : nat) : bytes -> rs := p_base (parse_expr f).
Definition PN (f : nat) : bytes -> rs := p_not (B f).
Definition PA (f : nat) : bytes -> rs := p_and (B f).
Definition PO (f : nat) : bytes -> rs := p_or (B f).
Lemma parse_expr_S f s : parse_expr (S f) s = PO f s.
Proof. reflexivity. Qed.

Ltac norm := repeat (rewrite <- app_assoc || rewrite <- app_comm_cons).

(* operator / bracket characters *)
Lemma op_facts :
  is_ws op_not = false /\ is_ws op_and = false /\ is_ws op_or = false /\ is_ws lpar = false /\ is_ws rpar = false
  /\ is_wordch lpar = false /\ is_wordch rpar = false
  /\ op_not <> lpar /\ op_and <> rpar /\ op_or <> rpar /\ op_and <> op_or /\ lpar <> x7e /\ lpar <> x22 /\ lpar <> x27.
Proof. repeat split; try reflexivity; neq. Qed.

(* ---- failing atoms ---- *)
Lemma p_regex_stop w c r : allws w -> is_ws c = false -> is_wordch c = false -> c <> x22 -> c <> x27 ->
  p_regex (w ++ c :: r) = None.
Proof.
  intros Hw Hs Hc H1 H2. unfold p_regex. rewrite p_word_stop by assumption.
  change quote_chars with [x22; x27]. unfold first_quoted, p_quoted.
  rewrite skip_ws_app by exact Hw. rewrite skip_ws_cons by exact Hs.
  destruct (byte_eqb c x22) eqn:E1; [apply byte_eqb_eq in E1; contradiction |].
  destruct (byte_eqb c x27) eqn:E2; [apply byte_eqb_eq in E2; contradiction |]. reflexivity.
Qed.
Lemma p_atom_lpar w r : allws w -> p_atom (w ++ lpar :: r) = None.
Proof.
  intros Hw. unfold p_atom. rewrite parts_coded.
  rewrite first_part_nontilde; [| exact Hw | reflexivity | neq].
  cbn [first_part p_part]. rewrite p_regex_stop; [reflexivity | exact Hw | reflexivity | reflexivity | neq | neq].
Qed.
Lemma p_code_allws c w : allws w -> p_code c w = None.
Proof. intros Hw. unfold p_code, lit_str. rewrite skip_ws_allws by exact Hw. rewrite code_lit_cons. reflexivity. Qed.
Lemma p_regex_allws w : allws w -> p_regex w = None.
Proof.
  intros Hw. unfold p_regex, p_word. rewrite skip_ws_allws by exact Hw. simpl.
  change quote_chars with [x22; x27]. unfold first_quoted, p_quoted. rewrite skip_ws_allws by exact Hw. reflexivity.
Qed.
Lemma first_part_allws w : allws w -> forall ps, first_part ps w = None.
Proof.
  intros Hw ps. induction ps as [| p ps IH]; [reflexivity |]. cbn [first_part].
  assert (p_part p w = None) as ->; [| exact IH].
  destruct p; unfold p_part; try rewrite p_code_allws by exact Hw; try rewrite p_regex_allws by exact Hw; reflexivity.
Qed.
Lemma parse_expr_allws f w : allws w -> parse_expr (S f) w = Fail.
Proof.
  intros Hw. rewrite parse_expr_S. unfold PO, p_or, p_and, p_bin, p_not.
  cbn [p_not_n]. rewrite lit_allws by exact Hw. unfold B, p_base, p_atom.
  rewrite first_part_allws by exact Hw. rewrite lit_allws by exact Hw. reflexivity.
Qed.

(* ---- specifications of the three precedence levels on a rendered text S ---- *)
Definition LoopS (op : byte) (sub : bytes -> rs) (r0 : bytes) (ts : list ast) (rest : bytes) : Prop :=
  forall ys r', (forall n, length rest < n -> loop_n op sub n rest = Ok (ys, r')) ->
                forall n, length r0 < n -> loop_n op sub n r0 = Ok (ts ++ ys, r').
Definition SpecN (f : nat) (S : bytes) (m : (atom -> bool) -> bool) (al : list atom) : Prop :=
  forall w rest, allws w -> follow_ok S rest -> length (w ++ S ++ rest) <= f ->
  exists t, (forall n, length (w ++ S ++ rest) < n -> p_not_n (B f) n (w ++ S ++ rest) = Ok (t, rest))
            /\ (forall rho, eval rho t = m rho) /\ atoms t = al.
Definition SpecA (f : nat) (S : bytes) (m : (atom -> bool) -> bool) (al : list atom) : Prop :=
  forall w rest, allws w -> follow_ok S rest -> length (w ++ S ++ rest) <= f ->
  exists t0 ts r0, (forall n, length (w ++ S ++ rest) < n -> p_not_n (B f) n (w ++ S ++ rest) = Ok (t0, r0))
            /\ LoopS op_and (PN f) r0 ts rest
            /\ (forall rho, forallb (eval rho) (t0 :: ts) = m rho) /\ flat_map atoms (t0 :: ts) = al.
Definition SpecO (f : nat) (S : bytes) (m : (atom -> bool) -> bool) (al : list atom) : Prop :=
  forall w rest, allws w -> follow_ok S rest -> lit op_and rest = None -> length (w ++ S ++ rest) <= f ->
  exists t0 ts r0, PA f (w ++ S ++ rest) = Ok (t0, r0)
            /\ LoopS op_or (PA f) r0 ts rest
            /\ (forall rho, existsb (eval rho) (t0 :: ts) = m rho) /\ flat_map atoms (t0 :: ts) = al.

Lemma loop_stop op sub rest : lit op rest = None -> forall n, length rest < n -> loop_n op sub n rest = Ok ([], rest).
Proof. intros H n Hn. destruct n; [lia |]. cbn [loop_n]. rewrite H. reflexivity. Qed.

Lemma N_to_A f S m al : SpecN f S m al -> SpecA f S m al.
Proof.
  intros H w rest Hw Hf Hl. destruct (H w rest Hw Hf Hl) as [t [Hp [He Ha]]].
  exists t, [], rest. split; [exact Hp |]. split; [| split].
  - intros ys r' Hy n Hn. simpl. apply Hy. exact Hn.
  - intros rho. simpl. rewrite andb_true_r. apply He.
  - simpl. rewrite app_nil_r. exact Ha.
Qed.

Lemma A_close f S m al : SpecA f S m al -> forall w rest, allws w -> follow_ok S rest -> lit op_and rest = None ->
  length (w ++ S ++ rest) <= f ->
  exists T, PA f (w ++ S ++ rest) = Ok (T, rest) /\ (forall rho, eval rho T = m rho) /\ atoms T = al.
Proof.
  intros H w rest Hw Hf Hn Hl. destruct (H w rest Hw Hf Hl) as [t0 [ts [r0 [Hp [Hloop [He Ha]]]]]].
  exists (match ts with [] => t0 | _ => And (t0 :: ts) end). split; [| split].
  - unfold PA, p_and, p_bin. fold (PN f). unfold PN at 1. unfold p_not. fold (B f).
    rewrite Hp by lia.
    rewrite (Hloop [] rest (loop_stop _ _ _ Hn)) by lia. rewrite app_nil_r. destruct ts; reflexivity.
  - intros rho. rewrite <- He. destruct ts; [simpl; rewrite andb_true_r; reflexivity | reflexivity].
  - rewrite <- Ha. destruct ts; [simpl; rewrite app_nil_r; reflexivity | reflexivity].
Qed.

Lemma A_to_O f S m al : SpecA f S m al -> SpecO f S m al.
Proof.
  intros H w rest Hw Hf Hn Hl. destruct (A_close _ _ _ _ H w rest Hw Hf Hn Hl) as [T [Hp [He Ha]]].
  exists T, [], rest. split; [exact Hp |]. split; [| split].
  - intros ys r' Hy n Hn'. simpl. apply Hy. exact Hn'.
  - intros rho. simpl. rewrite orb_false_r. apply He.
  - simpl. rewrite app_nil_r. exact Ha.
Qed.

Lemma O_close f S m al : SpecO f S m al -> forall w rest, allws w -> follow_ok S rest -> lit op_and rest = None ->
  lit op_or rest = None -> length (w ++ S ++ rest) <= f ->
  exists T, PO f (w ++ S ++ rest) = Ok (T, rest) /\ (forall rho, eval rho T = m rho) /\ atoms T = al.
Proof.
  intros H w rest Hw Hf Hn Ho Hl. destruct (H w rest Hw Hf Hn Hl) as [t0 [ts [r0 [Hp [Hloop [He Ha]]]]]].
  exists (match ts with [] => t0 | _ => Or (t0 :: ts) end). split; [| split].
  - unfold PO, p_or, p_bin. fold (PA f). rewrite Hp.
    rewrite (Hloop [] rest (loop_stop _ _ _ Ho)) by lia. rewrite app_nil_r. destruct ts; reflexivity.
  - intros rho. rewrite <- He. destruct ts; [simpl; rewrite orb_false_r; reflexivity | reflexivity].
  - rewrite <- Ha. destruct ts; [simpl; rewrite app_nil_r; reflexivity | reflexivity].
Qed.

(* ---- parentheses ---- *)
Lemma safe_allws w : allws w -> safe is_wordch w.
Proof. destruct w as [| c w]; [intros _; exact I |]. unfold allws. simpl. intros H. apply andb_true_iff in H. apply ws_not_wordch. tauto. Qed.

Lemma paren X m al : (forall f, SpecO f X m al) -> forall a b, allws a -> allws b ->
  forall f, SpecN f (lpar :: a ++ X ++ b ++ [rpar]) m al.
Proof.
  intros HO a b Ha Hb f w rest Hw Hf Hl.
  destruct op_facts as [F1 [F2 [F3 [F4 [F5 [F6 [F7 [F8 [F9 [F10 [F11 _]]]]]]]]]]].
  assert (E : w ++ (lpar :: a ++ X ++ b ++ [rpar]) ++ rest = w ++ lpar :: a ++ X ++ b ++ rpar :: rest).
  { norm. reflexivity. }
  rewrite E in *. clear E.
  destruct f as [| f]; [rewrite app_length in Hl; simpl in Hl; lia |].
  assert (Hl' : length (a ++ X ++ b ++ rpar :: rest) <= f).
  { rewrite app_length in Hl. simpl in Hl. lia. }
  destruct (O_close f X m al (HO f) a (b ++ rpar :: rest) Ha) as [T [Hp [He Hat]]].
  - right. apply safe_allws_app; assumption.
  - apply lit_miss; assumption.
  - apply lit_miss; assumption.
  - exact Hl'.
  - exists T. split; [| split; assumption].
    intros n Hn. destruct n; [lia |]. cbn [p_not_n].
    rewrite lit_miss; [| exact Hw | exact F4 | exact F8].
    unfold B, p_base. rewrite p_atom_lpar by exact Hw. rewrite lit_hit by assumption.
    rewrite parse_expr_S. rewrite Hp. rewrite lit_hit by assumption. reflexivity.
Qed.

Lemma wrap_spec X m al : (forall f, SpecO f X m al) -> forall ps, ps <> [] -> forall f, SpecN f (wrap ps X) m al.
Proof.
  intros HO ps. induction ps as [| [a b] ps IH]; intros Hne; [congruence |].
  destruct ps as [| p ps].
  - simpl wrap. apply paren; [exact HO | apply ws_bytes_allws | apply ws_bytes_allws].
  - change (wrap ((a, b) :: p :: ps) X) with (lpar :: ws_bytes a ++ wrap (p :: ps) X ++ ws_bytes b ++ [rpar]).
    apply paren; [| apply ws_bytes_allws | apply ws_bytes_allws].
    intros f. apply A_to_O, N_to_A, IH. discriminate.
Qed.

(* ---- unfolding render ---- *)
Definition core (e : expr) (st : style) : bytes :=
  match e with
  | EAtom a => render_atom a st
  | ENot x => op_not :: ws_bytes (w1 st) ++ render x (c1 st) 2
  | EAnd l r => let L := render l (c1 st) 1 in
                L ++ (if juxt st then sep L (w1 st) else sep L (w1 st) ++ op_and :: ws_bytes (w2 st))
                  ++ render r (c2 st) 2
  | EOr l r => let L := render l (c1 st) 0 in
               L ++ sep L (w1 st) ++ op_or :: ws_bytes (w2 st) ++ render r (c2 st) 1
  end.
Lemma render_eq e st ctx :
  render e st ctx = match pars st with
                    | [] => if lvl e <? ctx then lpar :: core e st ++ [rpar] else core e st
                    | ps => wrap ps (core e st)
                    end.
Proof. destruct e; reflexivity. Qed.

Lemma render_from_core e st m al :
  (lvl e = 2 -> forall f, SpecN f (core e st) m al) ->
  (1 <= lvl e -> forall f, SpecA f (core e st) m al) ->
  (forall f, SpecO f (core e st) m al) ->
  forall f, SpecN f (render e st 2) m al /\ SpecA f (render e st 1) m al /\ SpecO f (render e st 0) m al.
Proof.
  intros HN HA HO f. rewrite !render_eq.
  assert (HP : forall f, SpecN f (lpar :: core e st ++ [rpar]) m al).
  { intros f'. apply (paren (core e st) m al HO [] [] allws_nil allws_nil f'). }
  destruct (pars st) as [| p ps] eqn:Ep.
  - assert (L : lvl e = 0 \/ lvl e = 1 \/ lvl e = 2) by (destruct e; simpl; auto).
    destruct L as [L | [L | L]]; rewrite L; simpl Nat.ltb; cbv iota.
    + split; [apply HP | split; [apply N_to_A, HP | apply HO]].
    + split; [apply HP | split; [apply HA; lia | apply HO]].
    + split; [apply HN; exact L | split; [apply HA; lia | apply HO]].
  - assert (W : forall f, SpecN f (wrap (p :: ps) (core e st)) m al) by (intros f'; apply wrap_spec; [exact HO | discriminate]).
    split; [apply W | split; [apply N_to_A, W | apply A_to_O, N_to_A, W]].
Qed.

(* ---- first character of a rendering ---- *)
Lemma wrap_head ps X : ps <> [] -> exists r, wrap ps X = lpar :: r.
Proof. destruct ps as [| [a b] ps]; [congruence |]. intros _. eexists. reflexivity. Qed.
Definition headP (d : byte) : Prop := is_ws d = false /\ d <> op_and /\ d <> op_or.
Lemma headP_lpar : headP lpar.
Proof. split; [reflexivity | split; neq]. Qed.
Lemma render_head_from_core e st ctx : (exists d r, core e st = d :: r /\ headP d) ->
  exists d r, render e st ctx = d :: r /\ headP d.
Proof.
  intros [d [r [E H]]]. rewrite render_eq. destruct (pars st) as [| p ps].
  - destruct (lvl e <? ctx); [exists lpar; eexists; split; [reflexivity | apply headP_lpar] | exists d, r; tauto].
  - destruct (wrap_head (p :: ps) (core e st)) as [r0 E0]; [discriminate |]. rewrite E0. exists lpar, r0.
    split; [reflexivity | apply headP_lpar].
Qed.
Lemma render_head e : forall st ctx, atoms_ok e = true -> quoting_ok e st = true ->
  exists d r, render e st ctx = d :: r /\ headP d.
Proof.
  induction e as [a | x IH | l IHl r IHr | l IHl r IHr]; intros st ctx Ha Hq; apply render_head_from_core; unfold core.
  - simpl in Ha, Hq. destruct (render_atom_head a st Ha Hq) as [d [r0 [E [H1 [_ [H3 [H4 _]]]]]]]. exists d, r0. unfold headP. tauto.
  - exists op_not. eexists. split; [reflexivity |]. split; [reflexivity | split; neq].
  - simpl in Ha, Hq. apply andb_true_iff in Ha, Hq. destruct Ha as [Ha _]. destruct Hq as [Hq _].
    destruct (IHl (c1 st) 1 Ha Hq) as [d [r0 [E H]]]. cbv zeta. rewrite E. exists d. eexists. split; [reflexivity | exact H].
  - simpl in Ha, Hq. apply andb_true_iff in Ha, Hq. destruct Ha as [Ha _]. destruct Hq as [Hq _].
    destruct (IHl (c1 st) 0 Ha Hq) as [d [r0 [E H]]]. cbv zeta. rewrite E. exists d. eexists. split; [reflexivity | exact H].
Qed.
Lemma render_nonempty e st ctx : atoms_ok e = true -> quoting_ok e st = true -> render e st ctx <> [].
Proof. intros Ha Hq. destruct (render_head e st ctx Ha Hq) as [d [r [E _]]]. rewrite E. discriminate. Qed.
Lemma lit_head_miss op w d r X : allws w -> is_ws d = false -> d <> op -> lit op (w ++ (d :: r) ++ X) = None.
Proof. intros Hw Hd Hne. change ((d :: r) ++ X) with (d :: r ++ X). apply lit_miss; [exact Hw | exact Hd | congruence]. Qed.

(* ---- the main induction: trees without juxtaposition ---- *)
Lemma follow_tail A S rest : S <> [] -> follow_ok (A ++ S) rest -> follow_ok S rest.
Proof. intros Hne H. unfold follow_ok in *. rewrite ends_word_app in H by exact Hne. exact H. Qed.

Lemma main_jfree e : forall st, atoms_ok e = true -> quoting_ok e st = true -> juxt_free e st = true ->
  forall f, SpecN f (render e st 2) (fun rho => evalE rho e) (atomsE e)
         /\ SpecA f (render e st 1) (fun rho => evalE rho e) (atomsE e)
         /\ SpecO f (render e st 0) (fun rho => evalE rho e) (atomsE e).
Proof.
  destruct op_facts as [F1 [F2 [F3 [F4 [F5 [F6 [F7 [F8 [F9 [F10 [F11 _]]]]]]]]]]].
  induction e as [a | x IH | l IHl r IHr | l IHl r IHr]; intros st Ha Hq Hj.
  - (* atom *)
    assert (HN : forall f, SpecN f (core (EAtom a) st) (fun rho => evalE rho (EAtom a)) (atomsE (EAtom a))).
    { intros f w rest Hw Hf Hl. simpl in Ha, Hq. unfold core in *.
      exists (Atom (atom_of a)). split; [| split; reflexivity].
      intros n Hn. destruct n; [lia |]. cbn [p_not_n].
      destruct (render_atom_head a st Ha Hq) as [d [r0 [E [H1 [H2 _]]]]].
      assert (lit op_not (w ++ render_atom a st ++ rest) = None) as ->.
      { rewrite E. apply lit_head_miss; assumption. }
      unfold B, p_base. rewrite p_atom_ok by assumption. reflexivity. }
    apply render_from_core; intros; [apply HN | apply N_to_A, HN | apply A_to_O, N_to_A, HN].
  - (* not *)
    simpl in Ha, Hq, Hj.
    assert (HN : forall f, SpecN f (core (ENot x) st) (fun rho => evalE rho (ENot x)) (atomsE (ENot x))).
    { intros f w rest Hw Hf Hl. unfold core in *.
      pose proof (render_nonempty x (c1 st) 2 Ha Hq) as Hne.
      destruct (IH (c1 st) Ha Hq Hj f) as [IHN _].
      assert (E : w ++ (op_not :: ws_bytes (w1 st) ++ render x (c1 st) 2) ++ rest
                  = w ++ op_not :: ws_bytes (w1 st) ++ render x (c1 st) 2 ++ rest) by (norm; reflexivity).
      rewrite E in *. clear E.
      destruct (IHN (ws_bytes (w1 st)) rest (ws_bytes_allws _)) as [t [Hp [He Hat]]].
      - apply (follow_tail (op_not :: ws_bytes (w1 st))); assumption.
      - rewrite app_length in Hl. simpl in Hl. lia.
      - exists (Not t). split; [| split].
        + intros n Hn. destruct n; [lia |]. cbn [p_not_n]. rewrite lit_hit by assumption.
          rewrite Hp; [reflexivity |]. rewrite app_length in Hn. simpl in Hn. lia.
        + intros rho. simpl. rewrite He. reflexivity.
        + simpl. exact Hat. }
    apply render_from_core; intros; [apply HN | apply N_to_A, HN | apply A_to_O, N_to_A, HN].
  - (* and, explicit operator *)
    simpl in Ha, Hq, Hj. apply andb_true_iff in Ha, Hq, Hj. destruct Ha as [Hal Har]. destruct Hq as [Hql Hqr].
    destruct Hj as [Hj Hjr]. apply andb_true_iff in Hj. destruct Hj as [Hjx Hjl]. apply negb_true_iff in Hjx.
    assert (HA : forall f, SpecA f (core (EAnd l r) st) (fun rho => evalE rho (EAnd l r)) (atomsE (EAnd l r))).
    { intros f w rest Hw Hf Hl. unfold core in *. rewrite Hjx in *. cbv zeta in *.
      set (L := render l (c1 st) 1) in *. set (R := render r (c2 st) 2) in *.
      pose proof (render_nonempty r (c2 st) 2 Har Hqr) as Hne. fold R in Hne.
      destruct (IHl (c1 st) Hal Hql Hjl f) as [_ [IHA _]]. fold L in IHA.
      destruct (IHr (c2 st) Har Hqr Hjr f) as [IHN _]. fold R in IHN.
      assert (E : w ++ (L ++ (sep L (w1 st) ++ op_and :: ws_bytes (w2 st)) ++ R) ++ rest
                  = w ++ L ++ (sep L (w1 st) ++ op_and :: ws_bytes (w2 st) ++ R ++ rest)) by (norm; reflexivity).
      rewrite E in *. clear E.
      destruct (IHA w (sep L (w1 st) ++ op_and :: ws_bytes (w2 st) ++ R ++ rest) Hw (follow_sep _ _ _) Hl)
        as [t0 [ts [r0 [Hp [Hloop [He Hat]]]]]].
      destruct (IHN (ws_bytes (w2 st)) rest (ws_bytes_allws _)) as [tr [Hpr [Her Hatr]]].
      - rewrite app_assoc in Hf. apply follow_tail in Hf; assumption.
      - rewrite !app_length in Hl. simpl in Hl. rewrite !app_length in *. lia.
      - exists t0, (ts ++ [tr]), r0. split; [exact Hp |]. split; [| split].
        + intros ys r' Hy n Hn. rewrite <- app_assoc. apply Hloop; [| exact Hn].
          intros k Hk. destruct k; [lia |]. cbn [loop_n]. rewrite lit_hit; [| apply sep_allws | exact F2].
          unfold PN at 1. unfold p_not. fold (B f). rewrite Hpr by lia.
          rewrite Hy; [reflexivity |]. rewrite !app_length in Hk. simpl in Hk. rewrite !app_length in Hk. lia.
        + intros rho. change (t0 :: ts ++ [tr]) with ((t0 :: ts) ++ [tr]). rewrite forallb_app. rewrite He.
          simpl. rewrite Her, andb_true_r. reflexivity.
        + change (t0 :: ts ++ [tr]) with ((t0 :: ts) ++ [tr]). rewrite flat_map_app. rewrite Hat. simpl.
          rewrite Hatr, app_nil_r. reflexivity. }
    apply render_from_core; intros; [simpl in *; lia | apply HA | apply A_to_O, HA].
  - (* or *)
    simpl in Ha, Hq, Hj. apply andb_true_iff in Ha, Hq, Hj. destruct Ha as [Hal Har]. destruct Hq as [Hql Hqr].
    destruct Hj as [Hjl Hjr].
    assert (HO : forall f, SpecO f (core (EOr l r) st) (fun rho => evalE rho (EOr l r)) (atomsE (EOr l r))).
    { intros f w rest Hw Hf Hnand Hl. unfold core in *. cbv zeta in *.
      set (L := render l (c1 st) 0) in *. set (R := render r (c2 st) 1) in *.
      pose proof (render_nonempty r (c2 st) 1 Har Hqr) as Hne. fold R in Hne.
      destruct (IHl (c1 st) Hal Hql Hjl f) as [_ [_ IHO]]. fold L in IHO.
      destruct (IHr (c2 st) Har Hqr Hjr f) as [_ [IHA _]]. fold R in IHA.
      assert (E : w ++ (L ++ sep L (w1 st) ++ op_or :: ws_bytes (w2 st) ++ R) ++ rest
                  = w ++ L ++ (sep L (w1 st) ++ op_or :: ws_bytes (w2 st) ++ R ++ rest)) by (norm; reflexivity).
      rewrite E in *. clear E.
      destruct (IHO w (sep L (w1 st) ++ op_or :: ws_bytes (w2 st) ++ R ++ rest) Hw (follow_sep _ _ _))
        as [t0 [ts [r0 [Hp [Hloop [He Hat]]]]]].
      { apply lit_miss; [apply sep_allws | exact F3 | exact F11]. }
      { exact Hl. }
      destruct (A_close f R _ _ IHA (ws_bytes (w2 st)) rest (ws_bytes_allws _)) as [tr [Hpr [Her Hatr]]].
      - assert (E2 : L ++ sep L (w1 st) ++ op_or :: ws_bytes (w2 st) ++ R
                     = (L ++ sep L (w1 st) ++ op_or :: ws_bytes (w2 st)) ++ R) by (norm; reflexivity).
        rewrite E2 in Hf. apply follow_tail in Hf; assumption.
      - exact Hnand.
      - rewrite !app_length in Hl. simpl in Hl. rewrite !app_length in *. lia.
      - exists t0, (ts ++ [tr]), r0. split; [exact Hp |]. split; [| split].
        + intros ys r' Hy n Hn. rewrite <- app_assoc. apply Hloop; [| exact Hn].
          intros k Hk. destruct k; [lia |]. cbn [loop_n]. rewrite lit_hit; [| apply sep_allws | exact F3].
          rewrite Hpr. rewrite Hy; [reflexivity |]. rewrite !app_length in Hk. simpl in Hk. rewrite !app_length in Hk. lia.
        + intros rho. change (t0 :: ts ++ [tr]) with ((t0 :: ts) ++ [tr]). rewrite existsb_app. rewrite He.
          simpl. rewrite Her, orb_false_r. reflexivity.
        + change (t0 :: ts ++ [tr]) with ((t0 :: ts) ++ [tr]). rewrite flat_map_app. rewrite Hat. simpl.
          rewrite Hatr, app_nil_r. reflexivity. }
    apply render_from_core; intros; [simpl in *; lia | simpl in *; lia | apply HO].
Qed.

(* ---- top level: OneOrMore(expr) and juxtaposition along the spine ---- *)
Definition SpecT (F : nat) (S : bytes) (m : (atom -> bool) -> bool) (al : list atom) : Prop :=
  forall w rest, allws w -> follow_ok S rest -> lit op_and rest = None -> lit op_or rest = None ->
  length (w ++ S ++ rest) < F ->
  exists ts, ts <> []
    /\ (forall ys r', (forall n, length rest < n -> top_n (parse_expr F) n rest = Ok (ys, r')) ->
                      forall n, length (w ++ S ++ rest) < n -> top_n (parse_expr F) n (w ++ S ++ rest) = Ok (ts ++ ys, r'))
    /\ (forall rho, forallb (eval rho) ts = m rho) /\ flat_map atoms ts = al.

Lemma item_T f S m al : S <> [] -> SpecO f S m al -> SpecT (Datatypes.S f) S m al.
Proof.
  intros HS H w rest Hw Hf Hna Hno Hl.
  destruct (O_close f S m al H w rest Hw Hf Hna Hno) as [T [Hp [He Ha]]]; [lia |].
  exists [T]. split; [discriminate |]. split; [| split].
  - intros ys r' Hy n Hn. destruct n; [lia |]. cbn [top_n]. rewrite parse_expr_S, Hp.
    rewrite Hy; [reflexivity |]. rewrite !app_length in Hn. destruct S; [congruence | simpl in Hn; lia].
  - intros rho. simpl. rewrite andb_true_r. apply He.
  - simpl. rewrite app_nil_r. exact Ha.
Qed.

Lemma T_app F L R w1 mL aL mR aR : SpecT F L mL aL -> SpecT F R mR aR ->
  (exists d r, R = d :: r /\ headP d) ->
  SpecT F (L ++ sep L w1 ++ R) (fun rho => mL rho && mR rho) (aL ++ aR).
Proof.
  intros HL HR [d [r [E [Hd [Hda Hdo]]]]] w rest Hw Hf Hna Hno Hl.
  assert (Hne : R <> []) by (rewrite E; discriminate).
  assert (Eq : w ++ (L ++ sep L w1 ++ R) ++ rest = w ++ L ++ (sep L w1 ++ R ++ rest)) by (norm; reflexivity).
  rewrite Eq in *. clear Eq.
  destruct (HL w (sep L w1 ++ R ++ rest) Hw (follow_sep _ _ _)) as [tsL [HneL [HtL [HeL HaL]]]].
  { rewrite E. apply lit_head_miss; [apply sep_allws | exact Hd | exact Hda]. }
  { rewrite E. apply lit_head_miss; [apply sep_allws | exact Hd | exact Hdo]. }
  { exact Hl. }
  destruct (HR (sep L w1) rest (sep_allws _ _)) as [tsR [HneR [HtR [HeR HaR]]]].
  { rewrite !app_assoc in Hf. apply follow_tail in Hf; assumption. }
  { exact Hna. } { exact Hno. }
  { rewrite !app_length in Hl. rewrite !app_length. lia. }
  exists (tsL ++ tsR). split; [destruct tsL; [congruence | discriminate] |]. split; [| split].
  - intros ys r' Hy n Hn. rewrite <- app_assoc. apply HtL; [| exact Hn].
    intros k Hk. apply HtR; assumption.
  - intros rho. rewrite forallb_app, HeL, HeR. reflexivity.
  - rewrite flat_map_app, HaL, HaR. reflexivity.
Qed.

Lemma main_spine e : forall st ctx, ctx <= 1 -> atoms_ok e = true -> quoting_ok e st = true -> juxt_top e st = true ->
  forall f, SpecT (S f) (render e st ctx) (fun rho => evalE rho e) (atomsE e).
Proof.
  assert (Item : forall e st ctx, ctx <= 1 -> atoms_ok e = true -> quoting_ok e st = true -> juxt_free e st = true ->
                 forall f, SpecT (S f) (render e st ctx) (fun rho => evalE rho e) (atomsE e)).
  { intros e0 st ctx Hc Ha Hq Hj f. destruct (main_jfree e0 st Ha Hq Hj f) as [_ [HA HO]].
    apply item_T; [apply render_nonempty; assumption |]. destruct ctx as [| [| ctx]]; [exact HO | apply A_to_O, HA | lia]. }
  induction e as [a | x IH | l IHl r IHr | l IHl r IHr]; intros st ctx Hc Ha Hq Hj f;
    try (apply Item; assumption).
  simpl in Hj. destruct (juxt st) eqn:J; [| apply Item; try assumption; simpl; rewrite J; exact Hj].
  destruct (pars st) as [| p ps] eqn:P; [| discriminate].
  apply andb_true_iff in Hj. destruct Hj as [Hjl Hjr].
  simpl in Ha, Hq. apply andb_true_iff in Ha, Hq. destruct Ha as [Hal Har]. destruct Hq as [Hql Hqr].
  rewrite render_eq, P. assert (lvl (EAnd l r) <? ctx = false) as -> by (apply Nat.ltb_ge; simpl; lia).
  unfold core. rewrite J. cbv zeta.
  apply (T_app (S f) (render l (c1 st) 1) (render r (c2 st) 2) (w1 st)
               (fun rho => evalE rho l) (atomsE l) (fun rho => evalE rho r) (atomsE r)).
  - apply IHl; [lia | assumption | assumption | assumption].
  - destruct (main_jfree r (c2 st) Har Hqr Hjr f) as [HN _]. apply item_T; [apply render_nonempty; assumption |]. apply A_to_O, N_to_A, HN.
  - apply render_head; assumption.
Qed.

(* ---- flowfilter.parse on a rendering ---- *)
Lemma pre_id s : pre s = s.
Proof. reflexivity. Qed.

Theorem parse_render e st lead trail : atoms_ok e = true -> quoting_ok e st = true -> juxt_top e st = true ->
  exists t, parse_grammar (render_top e st lead trail) = Ok t
            /\ (forall rho, eval rho t = evalE rho e) /\ atoms t = atomsE e.
Proof.
  intros Ha Hq Hj. unfold render_top, parse_grammar. rewrite pre_id.
  set (s := ws_bytes lead ++ render e st 0 ++ ws_bytes trail).
  destruct (render_head e st 0 Ha Hq) as [d [r [E _]]].
  assert (Hs : s <> []). { unfold s. rewrite E. destruct (ws_bytes lead); discriminate. }
  destruct (main_spine e st 0 (Nat.le_0_l _) Ha Hq Hj (length s) (ws_bytes lead) (ws_bytes trail))
    as [ts [Hne [Ht [He Hat]]]].
  - apply ws_bytes_allws.
  - right. apply safe_allws, ws_bytes_allws.
  - apply lit_allws, ws_bytes_allws.
  - apply lit_allws, ws_bytes_allws.
  - fold s. lia.
  - fold s in Ht.
    rewrite (Ht [] (ws_bytes trail)); [| | lia].
    + destruct s as [| c s']; [congruence |].
      rewrite skip_ws_allws by apply ws_bytes_allws. rewrite app_nil_r.
      destruct ts as [| x [| y ts']]; [congruence | |].
      * exists x. split; [reflexivity |]. split.
        -- intros rho. rewrite <- He. simpl. rewrite andb_true_r. reflexivity.
        -- rewrite <- Hat. simpl. rewrite app_nil_r. reflexivity.
      * exists (And (x :: y :: ts')). split; [reflexivity |]. split; [intros rho; rewrite <- He; reflexivity | exact Hat].
    + intros n Hn. destruct n; [lia |]. cbn [top_n]. rewrite parse_expr_allws by apply ws_bytes_allws. reflexivity.
Qed.

Lemma all_rex_atoms ok t : all_rex ok t = forallb (fun a => match a with ARex c x => ok c x | _ => true end) (atoms t).
Proof.
  revert t. fix IH 1. intros [a | x | l | l]; simpl.
  - destruct a; simpl; rewrite ?andb_true_r; reflexivity.
  - apply IH.
  - induction l as [| y l IHl]; [reflexivity |]. simpl. rewrite forallb_app, IH, IHl. reflexivity.
  - induction l as [| y l IHl]; [reflexivity |]. simpl. rewrite forallb_app, IH, IHl. reflexivity.
Qed.

Theorem parse_filter_render rex_ok e st lead trail :
  atoms_ok e = true -> quoting_ok e st = true -> juxt_top e st = true ->
  forallb (fun a => match a with ARex c x => rex_ok c x | _ => true end) (atomsE e) = true ->
  exists t, parse_filter rex_ok (render_top e st lead trail) = Ok t
            /\ (forall rho, eval rho t = evalE rho e) /\ atoms t = atomsE e.
Proof.
  intros Ha Hq Hj Hr. destruct (parse_render e st lead trail Ha Hq Hj) as [t [Hp [He Hat]]].
  exists t. split; [| split; assumption]. unfold parse_filter. rewrite Hp, all_rex_atoms, Hat, Hr. reflexivity.
Qed.
