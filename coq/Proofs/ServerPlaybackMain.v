(* Proofs/ServerPlaybackMain.v -- the C52 theorems about the request hook and about whole
   histories of load / add / clear / request / option-change operations. *)
From Coq Require Import ZArith List Bool Lia ZifyBool Permutation Sorted.
From MV Require Import Base.Bytes Model.ServerPlayback Proofs.ServerPlaybackKey Proofs.ServerPlaybackMap.
Import ListNotations.

(* ---------- the request hook in terms of next_flow ---------- *)

(* what the hook does with a request for which next_flow found nothing *)
Definition unmatched_action (o : options) : outcome :=
  if o_kill_extra o || (match o_extra o with EKill => true | _ => false end) then Killed
  else match o_extra o with ECode c => Status c | _ => Forward end.

Lemma request_hook_next o rq m : m <> [] ->
  request_hook o rq m =
    (match fst (next_flow o rq m) with
     | NfFlow r => Served r | NfNone => unmatched_action o | NfIndexError => Raised end,
     snd (next_flow o rq m)).
Proof.
  intro H. unfold request_hook, unmatched_action. destruct m; [contradiction|]. simpl nonempty. cbv iota.
  destruct (next_flow o rq (p :: m)) as [[r| |] m2]; simpl; try reflexivity.
  destruct (o_kill_extra o || match o_extra o with EKill => true | _ => false end); [reflexivity|].
  destruct (o_extra o); reflexivity.
Qed.

Lemma request_hook_empty o rq : request_hook o rq [] = (Forward, []).
Proof. reflexivity. Qed.

Definition matches (o : options) (rq : request) (r : recording) : Prop :=
  _hash o (rec_req r) = _hash o rq.

(* a pending recording with a response whose key equals the request key *)
Definition live (o : options) (rq : request) (m : flowmap) : Prop :=
  exists r, In r (pending m) /\ rec_has_resp r = true /\ matches o rq r.

Lemma bucket_of_match o rq m l r :
  Inv o m -> fm_find (_hash o rq) m = Some l -> In r (pending m) -> matches o rq r -> In r l.
Proof.
  intros I F Hp Hm. destruct (Inv_find_pending o m r I Hp) as [l2 [F2 Hr]].
  unfold matches in Hm. rewrite Hm, F in F2. injection F2 as ->. exact Hr.
Qed.

Lemma in_bucket_pending k l m r : In (k, l) m -> In r l -> In r (pending m).
Proof. intros H1 H2. apply in_pending. exists k, l. auto. Qed.

(* ---------- served => pending, has a response, keys equal ---------- *)

Lemma served_matches o rq m r m2 :
  Inv o m -> request_hook o rq m = (Served r, m2) ->
  In r (pending m) /\ rec_has_resp r = true /\ matches o rq r.
Proof.
  intros I E. destruct m as [|p m0] eqn:Em; [discriminate|]. rewrite <- Em in *.
  assert (Hne : m <> []) by (rewrite Em; discriminate).
  rewrite (request_hook_next o rq m Hne) in E.
  pose proof (next_flow_spec o rq m I) as S.
  destruct (fm_find (_hash o rq) m) as [l|] eqn:F.
  - destruct S as [sk [Fsk [[r2 [rest [El [R N]]]]|[El N]]]]; rewrite N in E; simpl in E.
    + injection E as <- _. assert (Hin : In r2 l) by (rewrite El; apply in_or_app; right; left; reflexivity).
      pose proof (fm_find_in _ _ _ F) as Hb. split; [exact (in_bucket_pending _ _ _ _ Hb Hin)|].
      split; [exact R|]. unfold matches. destruct I as [HK _ _]. exact (HK _ _ Hb _ Hin).
    + unfold unmatched_action in E.
      destruct (o_kill_extra o || match o_extra o with EKill => true | _ => false end); [discriminate|].
      destruct (o_extra o); discriminate.
  - rewrite S in E. simpl in E. unfold unmatched_action in E.
    destruct (o_kill_extra o || match o_extra o with EKill => true | _ => false end); [discriminate|].
    destruct (o_extra o); discriminate.
Qed.

Lemma unmatched_not_served o r : unmatched_action o <> Served r.
Proof.
  unfold unmatched_action.
  destruct (o_kill_extra o || match o_extra o with EKill => true | _ => false end); [discriminate|].
  destruct (o_extra o); discriminate.
Qed.

(* ---------- the decision of the hook, completely ---------- *)

Lemma request_decision o rq m :
  Inv o m ->
  (m = [] -> fst (request_hook o rq m) = Forward) /\
  (m <> [] -> (live o rq m -> exists r, fst (request_hook o rq m) = Served r) /\
              (~ live o rq m -> fst (request_hook o rq m) = unmatched_action o)).
Proof.
  intro I. split; [intros ->; reflexivity|]. intro Hne.
  rewrite (request_hook_next o rq m Hne). simpl fst.
  pose proof (next_flow_spec o rq m I) as S.
  destruct (fm_find (_hash o rq) m) as [l|] eqn:F.
  - destruct S as [sk [Fsk [[r2 [rest [El [R N]]]]|[El N]]]]; rewrite N; simpl.
    + split; [intros _; exists r2; reflexivity|]. intro NL. exfalso. apply NL. exists r2.
      assert (Hin : In r2 l) by (rewrite El; apply in_or_app; right; left; reflexivity).
      pose proof (fm_find_in _ _ _ F) as Hb. split; [exact (in_bucket_pending _ _ _ _ Hb Hin)|].
      split; [exact R|]. destruct I as [HK _ _]. exact (HK _ _ Hb _ Hin).
    + split; [|reflexivity]. intros [r [Hp [R Hm]]]. exfalso.
      pose proof (bucket_of_match o rq m l r I F Hp Hm) as Hin. subst l.
      rewrite Forall_forall in Fsk. specialize (Fsk r Hin). unfold noresp in Fsk. congruence.
  - rewrite S. simpl. split; [|reflexivity]. intros [r [Hp [R Hm]]]. exfalso.
    destruct (Inv_find_pending o m r I Hp) as [l2 [F2 _]]. unfold matches in Hm. rewrite Hm in F2. congruence.
Qed.

Lemma no_index_error o rq m : Inv o m -> fst (request_hook o rq m) <> Raised.
Proof.
  intros I. destruct m as [|p m0] eqn:Em; [discriminate|]. rewrite <- Em in *.
  assert (Hne : m <> []) by (rewrite Em; discriminate).
  rewrite (request_hook_next o rq m Hne). simpl fst.
  assert (U : unmatched_action o <> Raised).
  { unfold unmatched_action.
    destruct (o_kill_extra o || match o_extra o with EKill => true | _ => false end); [discriminate|].
    destruct (o_extra o); discriminate. }
  pose proof (next_flow_spec o rq m I) as S.
  destruct (fm_find (_hash o rq) m) as [l|] eqn:F.
  - destruct S as [sk [Fsk [[r2 [rest [El [R N]]]]|[El N]]]]; rewrite N; simpl; [discriminate | exact U].
  - rewrite S. exact U.
Qed.

(* ---------- reuse: the state is not touched ---------- *)

Lemma reuse_keeps_map o rq m : Inv o m -> reuse_on o = true -> snd (request_hook o rq m) = m.
Proof.
  intros I R. destruct m as [|p m0] eqn:Em; [reflexivity|]. rewrite <- Em in *.
  assert (Hne : m <> []) by (rewrite Em; discriminate).
  rewrite (request_hook_next o rq m Hne). simpl snd.
  pose proof (next_flow_spec o rq m I) as S. rewrite R in S.
  destruct (fm_find (_hash o rq) m) as [l|] eqn:F.
  - destruct S as [sk [Fsk [[r2 [rest [El [_ N]]]]|[El N]]]]; rewrite N; reflexivity.
  - rewrite S. reflexivity.
Qed.

Lemma reuse_every_time o rq m : Inv o m -> reuse_on o = true ->
  forall n, run (Build_state o m) (repeat (ORequest rq) n)
            = repeat (Build_state o m, Some (fst (request_hook o rq m))) n.
Proof.
  intros I R. induction n as [|n IH]; [reflexivity|].
  simpl. pose proof (reuse_keeps_map o rq m I R) as K.
  destruct (request_hook o rq m) as [out m2]. simpl in *. subst m2. rewrite IH. reflexivity.
Qed.

(* ---------- without reuse: what leaves the pending set ---------- *)

Definition served_list (x : outcome) : list recording :=
  match x with Served r => [r] | _ => [] end.

Lemma request_pop o rq m :
  Inv o m -> reuse_on o = false ->
  exists sk, Forall (fun x => noresp x /\ matches o rq x) sk /\
    Permutation (pending m)
                (sk ++ served_list (fst (request_hook o rq m)) ++ pending (snd (request_hook o rq m))).
Proof.
  intros I R. destruct m as [|p m0] eqn:Em.
  { exists []. split; [constructor | reflexivity]. }
  rewrite <- Em in *.
  assert (Hne : m <> []) by (rewrite Em; discriminate).
  rewrite (request_hook_next o rq m Hne). simpl fst. simpl snd.
  pose proof (next_flow_spec o rq m I) as S. rewrite R in S.
  assert (U : served_list (unmatched_action o) = []).
  { unfold unmatched_action.
    destruct (o_kill_extra o || match o_extra o with EKill => true | _ => false end); [reflexivity|].
    destruct (o_extra o); reflexivity. }
  destruct (fm_find (_hash o rq) m) as [l|] eqn:F.
  - pose proof (fm_find_in _ _ _ F) as Hb.
    assert (Hsk : forall sk, incl sk l -> Forall noresp sk -> Forall (fun x => noresp x /\ matches o rq x) sk).
    { intros sk Hincl Fsk. apply Forall_forall. intros x Hx. split.
      - rewrite Forall_forall in Fsk. exact (Fsk x Hx).
      - destruct I as [HK _ _]. exact (HK _ _ Hb _ (Hincl _ Hx)). }
    destruct S as [sk [Fsk [[r2 [rest [El [_ N]]]]|[El N]]]]; rewrite N; simpl fst; simpl snd.
    + exists sk. split.
      * apply Hsk; [|exact Fsk]. intros x Hx. rewrite El. apply in_or_app. left. exact Hx.
      * simpl served_list. rewrite (fm_find_pending _ _ _ F), El, <- app_assoc. simpl.
        apply Permutation_app_head. apply perm_skip.
        destruct rest as [|y rest]; simpl nonempty; cbv iota.
        -- reflexivity.
        -- symmetry. apply (fm_set_pending _ _ _ _ F).
    + exists sk. split.
      * apply Hsk; [|exact Fsk]. rewrite El. apply incl_refl.
      * rewrite U. simpl. rewrite (fm_find_pending _ _ _ F), El. reflexivity.
  - rewrite S. simpl. exists []. rewrite U. split; [constructor | reflexivity].
Qed.

(* ---------- loading and re-indexing conserve the recordings ---------- *)

Definition https (fs : list flow) : list recording :=
  flat_map (fun f => match f with FHttp r => [r] | FOther => [] end) fs.

Lemma https_map_FHttp l : https (map FHttp l) = l.
Proof. unfold https. induction l as [|r l IH]; simpl; [reflexivity|]. rewrite IH. reflexivity. Qed.

Lemma add_flows_pending o : forall fs m,
  Permutation (pending (add_flows o fs m)) (pending m ++ https fs).
Proof.
  unfold add_flows. induction fs as [|f fs IH]; intro m; simpl.
  - rewrite app_nil_r. reflexivity.
  - rewrite IH. destruct f as [r|]; simpl.
    + rewrite (fm_add_pending _ r m), <- app_assoc. reflexivity.
    + reflexivity.
Qed.

Lemma load_flows_pending o fs : Permutation (pending (load_flows o fs)) (https fs).
Proof. unfold load_flows. rewrite add_flows_pending. reflexivity. Qed.

Lemma recompute_conserves o m : Permutation (pending (recompute_hashes o m)) (pending m).
Proof. unfold recompute_hashes. rewrite load_flows_pending, https_map_FHttp. reflexivity. Qed.

Lemma configure_conserves o upd m : Permutation (pending (snd (configure o upd m))) (pending m).
Proof.
  unfold configure. destruct (existsb in_hash_options upd); simpl; [apply recompute_conserves | reflexivity].
Qed.

(* ---------- accounting over a whole history ---------- *)

(* every recording handed to replay.server / replay.server.add *)
Definition loaded (h : list op) : list recording :=
  flat_map (fun x => match x with OLoad fs | OAdd fs => https fs | _ => [] end) h.

(* recordings served by requests handled while reuse was off *)
Fixpoint served_pop (s : state) (h : list op) : list recording :=
  match h with
  | [] => []
  | x :: rest =>
      (match snd (step s x) with
       | Some (Served r) => if reuse_on (st_opts s) then [] else [r]
       | _ => []
       end) ++ served_pop (fst (step s x)) rest
  end.

(* recordings thrown away by replay.server (which replaces the list) and replay.server.stop *)
Fixpoint discarded (s : state) (h : list op) : list recording :=
  match h with
  | [] => []
  | x :: rest =>
      (match x with OLoad _ | OClear => pending (st_map s) | _ => [] end)
      ++ discarded (fst (step s x)) rest
  end.

Lemma perm_move3 {A} (a x y z : list A) : Permutation (a ++ x ++ y ++ z) (x ++ y ++ (a ++ z)).
Proof.
  rewrite (Permutation_app_swap_app a x). apply Permutation_app_head.
  apply Permutation_app_swap_app.
Qed.

Lemma accounting : forall h s,
  Inv (st_opts s) (st_map s) ->
  exists skipped, Forall noresp skipped /\
    Permutation (pending (st_map s) ++ loaded h)
                (served_pop s h ++ skipped ++ discarded s h ++ pending (st_map (final s h))).
Proof.
  induction h as [|x h IH]; intros s I.
  - exists []. simpl. rewrite app_nil_r. split; [constructor | reflexivity].
  - destruct (IH (fst (step s x)) (Inv_step s x I)) as [sk [Fsk P]].
    change (final s (x :: h)) with (final (fst (step s x)) h).
    simpl served_pop. simpl discarded. unfold loaded in *. simpl flat_map.
    set (L := flat_map (fun x0 => match x0 with OLoad fs | OAdd fs => https fs | _ => [] end) h) in *.
    set (S2 := served_pop (fst (step s x)) h) in *.
    set (D2 := discarded (fst (step s x)) h) in *.
    set (F := pending (st_map (final (fst (step s x)) h))) in *.
    destruct x as [fs|fs| |rq|upd].
    + (* load *) exists sk. split; [exact Fsk|]. simpl in P. simpl.
      rewrite (load_flows_pending (st_opts s) fs) in P.
      rewrite <- app_assoc. rewrite app_assoc in P. rewrite <- app_assoc in P.
      rewrite P. apply perm_move3.
    + (* add *) exists sk. split; [exact Fsk|]. simpl in P. simpl.
      rewrite (add_flows_pending (st_opts s) fs (st_map s)) in P.
      rewrite app_assoc. exact P.
    + (* clear *) exists sk. split; [exact Fsk|]. simpl in P. simpl. rewrite <- app_assoc.
      rewrite P. apply perm_move3.
    + (* request *) simpl in P. simpl.
      pose proof (request_pop (st_opts s) rq (st_map s) I) as RP.
      pose proof (reuse_keeps_map (st_opts s) rq (st_map s) I) as RK.
      destruct (request_hook (st_opts s) rq (st_map s)) as [out m2]. simpl in *.
      destruct (reuse_on (st_opts s)) eqn:R.
      * rewrite (RK eq_refl) in *. exists sk. split; [exact Fsk|].
        destruct out; simpl; exact P.
      * destruct (RP eq_refl) as [sk1 [Fsk1 P1]]. exists (sk1 ++ sk). split.
        { apply Forall_app. split; [|exact Fsk]. apply Forall_forall. intros y Hy.
          rewrite Forall_forall in Fsk1. exact (proj1 (Fsk1 y Hy)). }
        rewrite P1. rewrite <- !app_assoc.
        assert (E : (match out with Served r => [r] | _ => [] end) = served_list out)
          by (destruct out; reflexivity).
        rewrite E. rewrite P.
        rewrite (Permutation_app_swap_app sk1 (served_list out)).
        apply Permutation_app_head. apply Permutation_app_swap_app.
    + (* configure *) simpl in P. simpl.
      pose proof (configure_conserves (st_opts s) upd (st_map s)) as C.
      destruct (configure (st_opts s) upd (st_map s)) as [o2 m2]. simpl in *.
      exists sk. split; [exact Fsk|]. rewrite <- C. exact P.
Qed.

Definition ids (l : list recording) : list N := map rec_id l.

Lemma NoDup_app_l {A} (a b : list A) : NoDup (a ++ b) -> NoDup a.
Proof.
  induction a as [|x a IH]; simpl; intro H; [constructor|].
  inversion H as [|? ? Hn H2]; subst. constructor; [|auto].
  intro Hin. apply Hn. apply in_or_app. left. exact Hin.
Qed.

Lemma served_at_most_once o0 h :
  NoDup (ids (loaded h)) -> NoDup (ids (served_pop (init o0) h)).
Proof.
  intro ND. destruct (accounting h (init o0) (Inv_nil o0)) as [sk [_ P]]. simpl in P.
  apply (Permutation_map rec_id) in P. unfold ids in *.
  apply (Permutation_NoDup P) in ND. rewrite map_app in ND. exact (NoDup_app_l _ _ ND).
Qed.

(* ---------- recording order ---------- *)

(* every bucket lists its recordings by increasing recording number *)
Definition BSorted (m : flowmap) : Prop :=
  forall k l, In (k, l) m -> StronglySorted N.lt (ids l).

Lemma ss_app_inv : forall a b : list N,
  StronglySorted N.lt (a ++ b) ->
  StronglySorted N.lt a /\ StronglySorted N.lt b /\ (forall x y, In x a -> In y b -> (x < y)%N).
Proof.
  induction a as [|z a IH]; intros b H; simpl in *.
  - split; [constructor|]. split; [exact H|]. intros x y [].
  - inversion H as [|? ? H2 F]; subst. destruct (IH b H2) as [Sa [Sb Hab]].
    rewrite Forall_forall in F. split.
    + constructor; [exact Sa|]. apply Forall_forall. intros x Hx. apply F. apply in_or_app. left. exact Hx.
    + split; [exact Sb|]. intros x y [<-|Hx] Hy; [apply F; apply in_or_app; right; exact Hy | auto].
Qed.

Lemma ss_snoc : forall (a : list N) x,
  StronglySorted N.lt a -> (forall y, In y a -> (y < x)%N) -> StronglySorted N.lt (a ++ [x]).
Proof.
  induction a as [|z a IH]; intros x S H; simpl.
  - constructor; constructor.
  - inversion S as [|? ? S2 F]; subst. constructor.
    + apply IH; [exact S2|]. intros y Hy. apply H. right. exact Hy.
    + apply Forall_app. split; [exact F|]. constructor; [|constructor]. apply H. left. reflexivity.
Qed.

Lemma BSorted_fm_add k r m :
  BSorted m -> (forall x, In x (pending m) -> (rec_id x < rec_id r)%N) -> BSorted (fm_add k r m).
Proof.
  intros B H k2 l2 Hin. destruct (fm_add_bucket _ _ _ _ _ Hin) as [H2|[-> [l [-> [->|H2]]]]].
  - exact (B _ _ H2).
  - simpl. constructor; constructor.
  - unfold ids. rewrite map_app. simpl. apply ss_snoc; [exact (B _ _ H2)|].
    intros y Hy. apply in_map_iff in Hy. destruct Hy as [x [<- Hx]]. apply H.
    exact (in_bucket_pending _ _ _ _ H2 Hx).
Qed.

Lemma BSorted_add_flows o : forall fs m,
  BSorted m -> StronglySorted N.lt (ids (https fs)) ->
  (forall x i, In x (pending m) -> In i (ids (https fs)) -> (rec_id x < i)%N) ->
  BSorted (add_flows o fs m).
Proof.
  unfold add_flows. induction fs as [|f fs IH]; intros m B S H; simpl; [exact B|].
  destruct f as [r|]; simpl in *; [|apply IH; assumption].
  inversion S as [|? ? S2 F]; subst. apply IH; [|exact S2|].
  - apply BSorted_fm_add; [exact B|]. intros x Hx. apply (H x); [exact Hx | left; reflexivity].
  - intros x i Hx Hi. apply (Permutation_in _ (fm_add_pending _ r m)) in Hx.
    apply in_app_or in Hx. destruct Hx as [Hx|[<-|[]]].
    + apply (H x); [exact Hx | right; exact Hi].
    + rewrite Forall_forall in F. exact (F i Hi).
Qed.

Lemma BSorted_nil : BSorted [].
Proof. intros k l []. Qed.

Lemma BSorted_recompute o m :
  StronglySorted N.lt (ids (pending m)) -> BSorted (recompute_hashes o m).
Proof.
  intro S. unfold recompute_hashes, load_flows. apply BSorted_add_flows.
  - apply BSorted_nil.
  - rewrite https_map_FHttp. exact S.
  - intros x i [].
Qed.

Lemma BSorted_fm_del k m : BSorted m -> BSorted (fm_del k m).
Proof. intros B k2 l2 H. apply (B k2). apply (fm_del_bucket k). exact H. Qed.

Lemma BSorted_request_hook o rq m : Inv o m -> BSorted m -> BSorted (snd (request_hook o rq m)).
Proof.
  intros I B. destruct m as [|p m0] eqn:Em; [exact B|]. rewrite <- Em in *.
  assert (Hne : m <> []) by (rewrite Em; discriminate).
  rewrite (request_hook_next o rq m Hne). simpl snd.
  pose proof (next_flow_spec o rq m I) as S.
  destruct (fm_find (_hash o rq) m) as [l|] eqn:F; [|rewrite S; exact B].
  destruct S as [sk [Fsk [[r2 [rest [El [_ N]]]]|[El N]]]]; rewrite N; simpl snd;
    destruct (reuse_on o); try exact B; try (apply BSorted_fm_del; exact B).
  destruct (nonempty rest); [|apply BSorted_fm_del; exact B].
  intros k2 l2 H. destruct (fm_set_bucket _ _ _ _ _ H) as [H2|[-> ->]]; [exact (B _ _ H2)|].
  pose proof (B _ _ (fm_find_in _ _ _ F)) as Sl. rewrite El in Sl. unfold ids in Sl.
  rewrite map_app in Sl. apply ss_app_inv in Sl. destruct Sl as [_ [Sl _]].
  simpl in Sl. inversion Sl; subst. assumption.
Qed.

Lemma request_hook_pending_incl o rq m x :
  Inv o m -> In x (pending (snd (request_hook o rq m))) -> In x (pending m).
Proof.
  intros I H. destruct (reuse_on o) eqn:R.
  - rewrite (reuse_keeps_map o rq m I R) in H. exact H.
  - destruct (request_pop o rq m I R) as [sk [_ P]]. apply (Permutation_in _ (Permutation_sym P)).
    apply in_or_app. right. apply in_or_app. right. exact H.
Qed.

(* the served recording is the earliest pending one that matches and has a response *)
Definition earliest_served (s : state) (rq : request) : Prop :=
  forall r m2, request_hook (st_opts s) rq (st_map s) = (Served r, m2) ->
  forall r2, In r2 (pending (st_map s)) -> rec_has_resp r2 = true -> matches (st_opts s) rq r2 ->
  (rec_id r <= rec_id r2)%N.

Lemma served_earliest o rq m :
  Inv o m -> BSorted m -> earliest_served (Build_state o m) rq.
Proof.
  intros I B r m2 E r2 Hp R2 M2. simpl in *.
  destruct m as [|p m0] eqn:Em; [discriminate|]. rewrite <- Em in *.
  assert (Hne : m <> []) by (rewrite Em; discriminate).
  rewrite (request_hook_next o rq m Hne) in E.
  pose proof (next_flow_spec o rq m I) as S.
  destruct (fm_find (_hash o rq) m) as [l|] eqn:F.
  - pose proof (bucket_of_match o rq m l r2 I F Hp M2) as Hin.
    destruct S as [sk [Fsk [[r3 [rest [El [_ N]]]]|[El N]]]]; rewrite N in E; simpl in E.
    + injection E as <- _. rewrite El in Hin. apply in_app_or in Hin. destruct Hin as [Hin|[<-|Hin]].
      * rewrite Forall_forall in Fsk. specialize (Fsk r2 Hin). unfold noresp in Fsk. congruence.
      * apply N.le_refl.
      * pose proof (B _ _ (fm_find_in _ _ _ F)) as Sl. rewrite El in Sl. unfold ids in Sl.
        rewrite map_app in Sl. apply ss_app_inv in Sl. destruct Sl as [_ [Sl _]].
        simpl in Sl. inversion Sl as [|? ? _ Fl]; subst. rewrite Forall_forall in Fl.
        apply N.lt_le_incl. apply Fl. apply in_map. exact Hin.
    + exfalso. injection E as E _. exact (unmatched_not_served o r E).
  - rewrite S in E. simpl in E. injection E as E _. exfalso. exact (unmatched_not_served o r E).
Qed.

(* recording numbers of everything loaded in a history, in history order *)
Definition hist_ids (h : list op) : list N := ids (loaded h).

(* the recording numbers are the recording order: they increase along the history *)
Definition recorded_in_order (h : list op) : Prop := StronglySorted N.lt (hist_ids h).

(* every re-index (an update naming a hash option) starts from a flowmap whose buckets, read in
   dict order, are in recording order -- the complement of the known finding reindex-order *)
Fixpoint reindex_sorted (s : state) (h : list op) : Prop :=
  match h with
  | [] => True
  | x :: rest =>
      (match x with
       | OConfigure upd =>
           existsb in_hash_options upd = true -> StronglySorted N.lt (ids (pending (st_map s)))
       | _ => True
       end) /\ reindex_sorted (fst (step s x)) rest
  end.

Lemma hist_ids_cons x h :
  hist_ids (x :: h) = ids (match x with OLoad fs | OAdd fs => https fs | _ => [] end) ++ hist_ids h.
Proof. unfold hist_ids, loaded, ids. simpl. rewrite map_app. reflexivity. Qed.

Lemma BSorted_final : forall h s,
  Inv (st_opts s) (st_map s) -> BSorted (st_map s) ->
  (forall x i, In x (pending (st_map s)) -> In i (hist_ids h) -> (rec_id x < i)%N) ->
  recorded_in_order h -> reindex_sorted s h ->
  BSorted (st_map (final s h)).
Proof.
  induction h as [|x h IH]; intros s I B Hb RO RS; [exact B|].
  change (final s (x :: h)) with (final (fst (step s x)) h).
  destruct RS as [RS1 RS2]. unfold recorded_in_order in RO. rewrite hist_ids_cons in RO, Hb.
  apply ss_app_inv in RO. destruct RO as [RO1 [RO2 RO3]].
  apply IH; [apply Inv_step; exact I | | | exact RO2 | exact RS2].
  - destruct x as [fs|fs| |rq|upd]; simpl.
    + apply BSorted_add_flows; [apply BSorted_nil | exact RO1 | intros x i []].
    + apply BSorted_add_flows; [exact B | exact RO1 |].
      intros x i Hx Hi. apply (Hb x); [exact Hx | apply in_or_app; left; exact Hi].
    + apply BSorted_nil.
    + pose proof (BSorted_request_hook (st_opts s) rq (st_map s) I B) as B2.
      destruct (request_hook (st_opts s) rq (st_map s)); exact B2.
    + unfold configure. destruct (existsb in_hash_options upd) eqn:E; simpl.
      * apply BSorted_recompute. exact (RS1 eq_refl).
      * exact B.
  - intros y i Hy Hi.
    assert (Hold : In y (pending (st_map s)) -> (rec_id y < i)%N).
    { intro Hy2. apply (Hb y); [exact Hy2 | apply in_or_app; right; exact Hi]. }
    assert (Hnew : forall fs, In y (https fs) -> In (rec_id y) (ids (https fs))) by (intros fs; apply in_map).
    destruct x as [fs|fs| |rq|upd]; simpl in Hy.
    + apply (Permutation_in _ (load_flows_pending _ _)) in Hy. apply RO3; [apply Hnew; exact Hy | exact Hi].
    + apply (Permutation_in _ (add_flows_pending _ _ _)) in Hy. apply in_app_or in Hy.
      destruct Hy as [Hy|Hy]; [exact (Hold Hy) | apply RO3; [apply Hnew; exact Hy | exact Hi]].
    + destruct Hy.
    + apply Hold. apply (request_hook_pending_incl (st_opts s) rq); [exact I|].
      destruct (request_hook (st_opts s) rq (st_map s)); exact Hy.
    + apply Hold. pose proof (configure_conserves (st_opts s) upd (st_map s)) as C.
      destruct (configure (st_opts s) upd (st_map s)) as [o2 m2]. simpl in *.
      exact (Permutation_in _ C Hy).
Qed.

Theorem order_partial o0 h rq :
  recorded_in_order h -> reindex_sorted (init o0) h -> earliest_served (final (init o0) h) rq.
Proof.
  intros RO RS.
  pose proof (Inv_reachable o0 h) as I.
  assert (B : BSorted (st_map (final (init o0) h))).
  { apply BSorted_final; [apply Inv_nil | apply BSorted_nil | intros x i [] | exact RO | exact RS]. }
  destruct (final (init o0) h) as [o m]. apply served_earliest; assumption.
Qed.

(* histories without any re-index satisfy the guard *)
Fixpoint no_reindex (h : list op) : Prop :=
  match h with
  | [] => True
  | OConfigure upd :: rest => existsb in_hash_options upd = false /\ no_reindex rest
  | _ :: rest => no_reindex rest
  end.

Lemma no_reindex_sorted : forall h s, no_reindex h -> reindex_sorted s h.
Proof.
  induction h as [|x h IH]; intros s H; simpl; [exact I|].
  destruct x; simpl in H; try (split; [exact I | apply IH; exact H]).
  destruct H as [E H]. split; [rewrite E; discriminate | apply IH; exact H].
Qed.
