(* Proofs/IgnoreHostsScan.v -- C19.  The Host-header scanners of Model/IgnoreHosts.v under appended data:
   a decision taken on a prefix p is the decision on p ++ t, for ALL p and t, provided p contains no
   Host line with an empty value (guard no_empty_host; its complement is a known finding). *)
From Coq Require Import List Bool NArith Lia.
From MV Require Import Base.Bytes Model.ClientHello Model.IgnoreHosts.
Import ListNotations.

Fixpoint has_crlf (s : bytes) : bool :=
  starts_with CRLF s || match s with _ :: r => has_crlf r | [] => false end.
Fixpoint drop_ws (s : bytes) : bytes :=
  match s with c :: r => if is_ws c then drop_ws r else s | [] => [] end.

(* no position of s holds CRLF, Host: (any case), white space, CRLF *)
Fixpoint no_empty_host (s : bytes) : bool :=
  match s with
  | [] => true
  | _ :: r =>
      (if starts_with CRLF s && starts_with_ci HOST_COLON (skipn 2 s)
       then negb (tail_ok (skipn 5 (skipn 2 s))) else true)
      && no_empty_host r
  end.

Lemma is_ws_CR : is_ws CR = true. Proof. reflexivity. Qed.
Lemma is_ws_LF : is_ws LF = true. Proof. reflexivity. Qed.
Lemma is_lf_eq c : is_lf c = true -> c = LF.
Proof. unfold is_lf. apply byte_eqb_eq. Qed.
Lemma is_lf_ws c : is_lf c = true -> is_ws c = true.
Proof. intros H. apply is_lf_eq in H. subst. reflexivity. Qed.

Lemma starts_with_app p s t : starts_with p s = true -> starts_with p (s ++ t) = true.
Proof.
  revert s; induction p as [|x p IH]; intros [|y s] H; simpl in *; try reflexivity; try discriminate.
  apply andb_true_iff in H as [H1 H2]. rewrite H1, (IH _ H2). reflexivity.
Qed.

Lemma starts_crlf_inv s : starts_with CRLF s = true -> exists r, s = CR :: LF :: r.
Proof.
  destruct s as [|a [|b r]]; simpl; try discriminate.
  - rewrite andb_false_r. discriminate.
  - intros H. apply andb_true_iff in H as [H1 H2]. apply andb_true_iff in H2 as [H2 _].
    apply byte_eqb_eq in H1, H2. subst. eexists; reflexivity.
Qed.

Lemma starts_crlf_app_false s t :
  starts_with CRLF s = false -> (2 <= length s)%nat -> starts_with CRLF (s ++ t) = false.
Proof.
  destruct s as [|a [|b r]]; simpl; intros H L; try lia. exact H.
Qed.

(* ---------- tail_ok ---------- *)
Lemma tail_ok_app s t : tail_ok s = true -> tail_ok (s ++ t) = true.
Proof.
  induction s as [|c r IH]; intros H; [discriminate|].
  cbn [tail_ok] in H. apply orb_true_iff in H as [H|H].
  - change ((c :: r) ++ t) with (c :: r ++ t). cbn [tail_ok].
    apply (starts_with_app _ _ t) in H. change ((c :: r) ++ t) with (c :: r ++ t) in H. rewrite H. reflexivity.
  - apply andb_true_iff in H as [H1 H2]. change ((c :: r) ++ t) with (c :: r ++ t). cbn [tail_ok].
    rewrite H1, (IH H2). apply orb_true_r.
Qed.

Lemma tail_ok_cons c r : tail_ok (c :: r) = starts_with CRLF (c :: r) || (is_ws c && tail_ok r).
Proof. reflexivity. Qed.

Lemma tail_ok_app_inv s t : tail_ok (s ++ t) = true -> tail_ok s = false -> forallb is_ws s = true.
Proof.
  induction s as [|c r IH]; intros H F; [reflexivity|].
  change ((c :: r) ++ t) with (c :: r ++ t) in H. rewrite tail_ok_cons in H, F.
  apply orb_false_iff in F as [F1 F2].
  apply orb_true_iff in H as [H|H].
  - (* CRLF straddles the end of c :: r *)
    destruct r as [|d r'].
    + simpl in H. apply andb_true_iff in H as [H _]. apply byte_eqb_eq in H. subst c. reflexivity.
    + simpl in H, F1. rewrite H in F1. discriminate.
  - apply andb_true_iff in H as [H1 H2]. rewrite H1 in F2. simpl in F2.
    simpl. rewrite H1. simpl. apply IH; assumption.
Qed.

Lemma ws_crlf_tail s : forallb is_ws s = true -> has_crlf s = true -> tail_ok s = true.
Proof.
  induction s as [|c r IH]; intros W H; [discriminate|].
  simpl in W. apply andb_true_iff in W as [W1 W2].
  cbn [has_crlf] in H. rewrite tail_ok_cons. apply orb_true_iff in H as [H|H].
  - rewrite H. reflexivity.
  - rewrite W1, (IH W2 H). apply orb_true_r.
Qed.

Lemma tail_ok_drop_ws s : tail_ok s = false -> tail_ok (drop_ws s) = false.
Proof.
  induction s as [|c r IH]; intros F; [reflexivity|]. simpl.
  destruct (is_ws c) eqn:W; [|exact F].
  rewrite tail_ok_cons in F. apply orb_false_iff in F as [_ F]. rewrite W in F. apply IH. exact F.
Qed.

Lemma has_crlf_drop_ws s : tail_ok s = false -> has_crlf s = true -> has_crlf (drop_ws s) = true.
Proof.
  induction s as [|c r IH]; intros F H; [discriminate|]. simpl.
  destruct (is_ws c) eqn:W; [|exact H].
  rewrite tail_ok_cons in F. apply orb_false_iff in F as [F1 F2]. rewrite W in F2.
  cbn [has_crlf] in H. rewrite F1 in H. apply IH; assumption.
Qed.

Lemma drop_ws_nil s : drop_ws s = [] -> forallb is_ws s = true.
Proof.
  induction s as [|c r IH]; intros H; [reflexivity|]. simpl in *.
  destruct (is_ws c); [apply IH; exact H | discriminate].
Qed.
Lemma drop_ws_all s : forallb is_ws s = true -> drop_ws s = [].
Proof.
  induction s as [|c r IH]; intros H; [reflexivity|]. simpl in *.
  apply andb_true_iff in H as [H1 H2]. rewrite H1. apply IH. exact H2.
Qed.
Lemma drop_ws_app s t : drop_ws s <> [] -> drop_ws (s ++ t) = drop_ws s ++ t.
Proof.
  induction s as [|c r IH]; intros H; [contradiction|]. simpl in *.
  destruct (is_ws c); [apply IH; exact H | reflexivity].
Qed.

(* ---------- lazy_host ---------- *)
Ltac dest X := let E := fresh "E" in destruct X eqn:E; rewrite ?E in *.

Lemma lazy_cons c r :
  lazy_host (c :: r) =
  if is_lf c then None else if tail_ok r then Some [c]
  else match lazy_host r with Some h => Some (c :: h) | None => None end.
Proof. reflexivity. Qed.

Lemma lazy_ws_tail s h : forallb is_ws s = true -> lazy_host s = Some h -> tail_ok s = true.
Proof.
  revert h; induction s as [|c r IH]; intros h W H; [discriminate|].
  simpl in W. apply andb_true_iff in W as [W1 W2]. rewrite lazy_cons in H.
  rewrite tail_ok_cons, W1.
  destruct (tail_ok r) eqn:T; [apply orb_true_r|].
  dest (is_lf c); [discriminate|].
  destruct (lazy_host r) as [h'|] eqn:L; rewrite ?L in *; [|discriminate].
  discriminate (IH h' W2 eq_refl).
Qed.

Lemma lazy_app s t h : lazy_host s = Some h -> lazy_host (s ++ t) = Some h.
Proof.
  revert h; induction s as [|c r IH]; intros h H; [discriminate|].
  change ((c :: r) ++ t) with (c :: r ++ t). rewrite lazy_cons in *.
  dest (is_lf c); [discriminate|].
  destruct (tail_ok r) eqn:T; rewrite ?T in *.
  - rewrite (tail_ok_app _ t T). exact H.
  - destruct (lazy_host r) as [h'|] eqn:L; rewrite ?L in *; [|discriminate].
    destruct (tail_ok (r ++ t)) eqn:T2.
    + pose proof (tail_ok_app_inv _ _ T2 T) as W. rewrite (lazy_ws_tail _ _ W L) in T. discriminate.
    + rewrite (IH h' eq_refl). exact H.
Qed.

Lemma lazy_app_none u t :
  lazy_host u = None -> tail_ok u = false -> has_crlf u = true -> lazy_host (u ++ t) = None.
Proof.
  induction u as [|c r IH]; intros L T H; [discriminate|].
  change ((c :: r) ++ t) with (c :: r ++ t). rewrite lazy_cons in *.
  dest (is_lf c); [reflexivity|].
  destruct (tail_ok r) eqn:T1; rewrite ?T1 in *; [discriminate|].
  destruct (lazy_host r) eqn:L1; rewrite ?L1 in *; [discriminate|].
  rewrite tail_ok_cons in T. apply orb_false_iff in T as [S _].
  cbn [has_crlf] in H. rewrite S in H. simpl in H.
  rewrite (IH eq_refl eq_refl H).
  destruct (tail_ok (r ++ t)) eqn:T2; [|reflexivity].
  pose proof (tail_ok_app_inv _ _ T2 T1) as W. rewrite (ws_crlf_tail _ W H) in T1. discriminate.
Qed.

(* ---------- ws_star_host ---------- *)
Lemma lazy_drop_none s : tail_ok s = false -> lazy_host (drop_ws s) = None -> lazy_host s = None.
Proof.
  induction s as [|c r IH]; intros T L; [reflexivity|]. simpl in L.
  destruct (is_ws c) eqn:W; [|exact L].
  rewrite tail_ok_cons in T. apply orb_false_iff in T as [_ T]. rewrite W in T. simpl in T.
  cbn [lazy_host]. destruct (is_lf c); [reflexivity|]. rewrite T. rewrite (IH T L). reflexivity.
Qed.

Lemma ws_star_guard s : tail_ok s = false -> ws_star_host s = lazy_host (drop_ws s).
Proof.
  induction s as [|c r IH]; intros T; [reflexivity|].
  cbn [ws_star_host drop_ws]. destruct (is_ws c) eqn:W; [|reflexivity].
  pose proof T as T0. rewrite tail_ok_cons in T. apply orb_false_iff in T as [_ T]. rewrite W in T. simpl in T.
  rewrite (IH T). destruct (lazy_host (drop_ws r)) eqn:L; [reflexivity|].
  apply lazy_drop_none; [exact T0|]. simpl. rewrite W. exact L.
Qed.

Lemma ws_star_app_some s t h :
  tail_ok s = false -> ws_star_host s = Some h -> ws_star_host (s ++ t) = Some h.
Proof.
  intros T H. rewrite (ws_star_guard _ T) in H.
  assert (N : drop_ws s <> []) by (intros E; rewrite E in H; discriminate).
  assert (T2 : tail_ok (s ++ t) = false).
  { destruct (tail_ok (s ++ t)) eqn:T2; [|reflexivity].
    pose proof (tail_ok_app_inv _ _ T2 T) as W. apply drop_ws_all in W. contradiction. }
  rewrite (ws_star_guard _ T2), (drop_ws_app _ _ N). apply lazy_app. exact H.
Qed.

Lemma ws_star_app_none s t :
  tail_ok s = false -> has_crlf s = true -> ws_star_host s = None -> ws_star_host (s ++ t) = None.
Proof.
  intros T C H. rewrite (ws_star_guard _ T) in H.
  assert (N : drop_ws s <> []).
  { intros E. apply drop_ws_nil in E. rewrite (ws_crlf_tail _ E C) in T. discriminate. }
  assert (T2 : tail_ok (s ++ t) = false).
  { destruct (tail_ok (s ++ t)) eqn:T2; [|reflexivity].
    pose proof (tail_ok_app_inv _ _ T2 T) as W. apply drop_ws_all in W. contradiction. }
  rewrite (ws_star_guard _ T2), (drop_ws_app _ _ N).
  apply lazy_app_none; [exact H | apply tail_ok_drop_ws; exact T | apply has_crlf_drop_ws; assumption].
Qed.

(* ---------- case-insensitive prefixes ---------- *)
Lemma to_lower_CR_ne x : In x HOST_COLON -> byte_eqb x (to_lower CR) = false.
Proof. simpl. intros [H|[H|[H|[H|[H|[]]]]]]; subst; reflexivity. Qed.

Lemma ci_app_true p a t : starts_with_ci p a = true -> starts_with_ci p (a ++ t) = true.
Proof.
  revert a; induction p as [|x p IH]; intros [|y a] H; simpl in *; try reflexivity; try discriminate.
  apply andb_true_iff in H as [H1 H2]. rewrite H1, (IH _ H2). reflexivity.
Qed.

Lemma ci_app_false p a t :
  (forall x, In x p -> byte_eqb x (to_lower CR) = false) ->
  starts_with_ci p a = false -> has_crlf a = true -> starts_with_ci p (a ++ t) = false.
Proof.
  revert a; induction p as [|x p IH]; intros a P F H; [discriminate|].
  destruct a as [|y a]; [discriminate|]. simpl in *.
  destruct (byte_eqb x (to_lower y)) eqn:E; [|reflexivity]. simpl in *.
  apply IH; [intros z Hz; apply P; right; exact Hz | exact F |].
  apply orb_true_iff in H as [H|H]; [|exact H].
  destruct a as [|z a]; [rewrite andb_false_r in H; discriminate|].
  apply andb_true_iff in H as [H _]. apply byte_eqb_eq in H. subst y.
  pose proof (P x (or_introl eq_refl)) as Q. unfold CR in *. congruence.
Qed.

Lemma ci_skip_crlf p a :
  (forall x, In x p -> byte_eqb x (to_lower CR) = false) ->
  starts_with_ci p a = true -> has_crlf a = true -> has_crlf (skipn (length p) a) = true.
Proof.
  revert a; induction p as [|x p IH]; intros a P T H; [exact H|].
  destruct a as [|y a]; [discriminate|]. simpl in T. apply andb_true_iff in T as [T1 T2].
  simpl. apply IH; [intros z Hz; apply P; right; exact Hz | exact T2 |].
  cbn [has_crlf] in H. apply orb_true_iff in H as [H|H]; [|exact H].
  destruct a as [|z a]; [simpl in H; rewrite andb_false_r in H; discriminate|].
  simpl in H. apply andb_true_iff in H as [H _]. apply byte_eqb_eq in H. subst y.
  pose proof (P x (or_introl eq_refl)) as Q. unfold CR in *. congruence.
Qed.

Lemma ci_skip_app p a t : starts_with_ci p a = true -> skipn (length p) (a ++ t) = skipn (length p) a ++ t.
Proof.
  revert a; induction p as [|x p IH]; intros a T; [reflexivity|].
  destruct a as [|y a]; [discriminate|]. simpl in T. apply andb_true_iff in T as [_ T]. simpl. apply IH. exact T.
Qed.

(* ---------- search_host ---------- *)
Lemma search_some_crlf s r : search_host s = Some r -> has_crlf s = true.
Proof.
  induction s as [|c s IH]; intros H; [discriminate|].
  cbn [search_host] in H. cbn [has_crlf].
  destruct (starts_with CRLF (c :: s)) eqn:E; [reflexivity|]. simpl. apply IH. exact H.
Qed.

Lemma has_crlf_len s : has_crlf s = true -> (2 <= length s)%nat.
Proof.
  induction s as [|c s IH]; intros H; [discriminate|]. cbn [has_crlf] in H.
  apply orb_true_iff in H as [H|H].
  - apply starts_crlf_inv in H as [r E]. rewrite E. simpl. lia.
  - specialize (IH H). simpl. lia.
Qed.

Definition host_group (after : bytes) : option bytes :=
  if starts_with_ci HOST_COLON after then ws_star_host (skipn 5 after) else None.

Lemma search_unfold c s :
  search_host (c :: s) =
  if starts_with CRLF (c :: s) then
    match host_group (skipn 2 (c :: s)) with
    | Some h => Some (Some h)
    | None => if starts_with CRLF (skipn 2 (c :: s)) then Some None else search_host s
    end
  else search_host s.
Proof. reflexivity. Qed.

Lemma search_app p t r :
  no_empty_host p = true -> search_host p = Some r -> search_host (p ++ t) = Some r.
Proof.
  revert r; induction p as [|c p IH]; intros r G H; [discriminate|].
  change ((c :: p) ++ t) with (c :: p ++ t). rewrite search_unfold in *.
  cbn [no_empty_host] in G. apply andb_true_iff in G as [G1 G2].
  destruct (starts_with CRLF (c :: p)) eqn:S.
  - pose proof (starts_with_app _ _ t S) as S'. change ((c :: p) ++ t) with (c :: p ++ t) in S'. rewrite S'.
    destruct (starts_crlf_inv _ S) as [after E]. injection E as -> ->.
    change (skipn 2 (CR :: LF :: after)) with after in *.
    change (skipn 2 (CR :: (LF :: after) ++ t)) with (after ++ t).
    unfold host_group in *.
    change (starts_with CRLF (CR :: LF :: after)) with true in G1. rewrite andb_true_l in G1.
    destruct (starts_with_ci HOST_COLON after) eqn:CI.
    + rewrite (ci_app_true _ _ t CI).
      change 5%nat with (length HOST_COLON). rewrite (ci_skip_app _ _ t CI).
      change (length HOST_COLON) with 5%nat in *.
      apply negb_true_iff in G1.
      destruct (ws_star_host (skipn 5 after)) as [h|] eqn:W.
      * rewrite (ws_star_app_some _ t h G1 W). exact H.
      * destruct (starts_with CRLF after) eqn:S2.
        { (* impossible: after starts with CR but also with h *)
          apply starts_crlf_inv in S2 as [r' E]. subst after. simpl in CI. discriminate. }
        assert (HC : has_crlf after = true).
        { apply search_some_crlf in H. cbn [has_crlf] in H. simpl in H. exact H. }
        rewrite ws_star_app_none; [| exact G1 | | exact W].
        2:{ change 5%nat with (length HOST_COLON). apply ci_skip_crlf; [apply to_lower_CR_ne | exact CI | exact HC]. }
        rewrite (starts_crlf_app_false _ t S2 (has_crlf_len _ HC)).
        apply IH; assumption.
    + destruct (starts_with CRLF after) eqn:S2.
      * assert (CI2 : starts_with_ci HOST_COLON (after ++ t) = false).
        { apply starts_crlf_inv in S2 as [r' E]. subst after. reflexivity. }
        rewrite CI2, (starts_with_app _ _ t S2). exact H.
      * assert (HC : has_crlf after = true).
        { apply search_some_crlf in H. cbn [has_crlf] in H. simpl in H. exact H. }
        rewrite (ci_app_false _ _ t to_lower_CR_ne CI HC).
        rewrite (starts_crlf_app_false _ t S2 (has_crlf_len _ HC)).
        apply IH; assumption.
  - assert (L : (2 <= length (c :: p))%nat).
    { apply search_some_crlf, has_crlf_len in H. simpl. lia. }
    pose proof (starts_crlf_app_false _ t S L) as S'. change ((c :: p) ++ t) with (c :: p ++ t) in S'.
    rewrite S'. apply IH; assumption.
Qed.

(* the guard is inherited by prefixes *)
Lemma no_empty_host_prefix p t : no_empty_host (p ++ t) = true -> no_empty_host p = true.
Proof.
  induction p as [|c p IH]; intros H; [reflexivity|].
  change ((c :: p) ++ t) with (c :: p ++ t) in H. cbn [no_empty_host] in *.
  apply andb_true_iff in H as [H1 H2]. rewrite (IH H2), andb_true_r.
  destruct (starts_with CRLF (c :: p)) eqn:S; [|reflexivity].
  destruct (starts_crlf_inv _ S) as [after E]. injection E as -> ->.
  change (skipn 2 (CR :: LF :: after)) with after.
  change (skipn 2 (CR :: (LF :: after) ++ t)) with (after ++ t) in H1.
  cbn [andb].
  destruct (starts_with_ci HOST_COLON after) eqn:CI; [|reflexivity].
  change (starts_with CRLF (CR :: (LF :: after) ++ t)) with true in H1.
  rewrite (ci_app_true _ _ t CI) in H1. cbn [andb] in H1.
  change 5%nat with (length HOST_COLON) in *. rewrite (ci_skip_app _ _ t CI) in H1.
  apply negb_true_iff in H1. apply negb_true_iff.
  destruct (tail_ok (skipn (length HOST_COLON) after)) eqn:T; [|reflexivity].
  rewrite (tail_ok_app _ t T) in H1. discriminate.
Qed.

(* ---------- host_header_expected ---------- *)
Lemma until_lf_app r t : exists x, until_lf (r ++ t) = until_lf r ++ x.
Proof.
  induction r as [|c r [x IH]]; [exists (until_lf t); reflexivity|].
  simpl. destruct (is_lf c); [exists []; reflexivity|]. exists x. rewrite IH. reflexivity.
Qed.
Lemma until_lf_has r t : existsb is_lf r = true -> until_lf (r ++ t) = until_lf r.
Proof.
  induction r as [|c r IH]; intros H; [discriminate|]. simpl in *.
  destruct (is_lf c); [reflexivity|]. simpl in H. rewrite (IH H). reflexivity.
Qed.
Lemma find_http_app s x : find_http s = true -> find_http (s ++ x) = true.
Proof.
  induction s as [|c s IH]; intros H.
  - simpl in H. discriminate.
  - change ((c :: s) ++ x) with (c :: s ++ x). cbn [find_http] in *.
    apply orb_true_iff in H as [H|H].
    + apply (ci_app_true _ _ x) in H. change ((c :: s) ++ x) with (c :: s ++ x) in H. rewrite H. reflexivity.
    + rewrite (IH H). apply orb_true_r.
Qed.

Lemma expected_app p t : host_header_expected p = true -> host_header_expected (p ++ t) = true.
Proof.
  destruct p as [|a [|b [|c r]]]; try discriminate. simpl.
  intros H. apply andb_true_iff in H as [H1 H2]. rewrite H1. simpl.
  destruct (until_lf_app r t) as [x E]. rewrite E.
  destruct (until_lf r) as [|y r']; [discriminate|]. simpl. apply find_http_app. exact H2.
Qed.

Definition alpha3 (p : bytes) : bool :=
  match p with a :: b :: c :: _ => is_alpha a && is_alpha b && is_alpha c | _ => false end.

Lemma expected_alpha3 p : host_header_expected p = true -> alpha3 p = true.
Proof.
  destruct p as [|a [|b [|c r]]]; try discriminate. simpl. intros H.
  apply andb_true_iff in H as [H _]. exact H.
Qed.

Lemma expected_not_alpha p t :
  (3 <= length p)%nat -> alpha3 p = false -> host_header_expected (p ++ t) = false.
Proof.
  destruct p as [|a [|b [|c r]]]; simpl; intros L H; try lia. rewrite H. reflexivity.
Qed.

Lemma is_alpha_not_lf c : is_alpha c = true -> is_lf c = false.
Proof.
  intros H.
  pose proof (forall_bytes (fun c => implb (is_alpha c) (negb (is_lf c))) ltac:(vm_compute; reflexivity) c) as P.
  simpl in P. rewrite H in P. simpl in P. apply negb_true_iff in P. exact P.
Qed.

Lemma expected_lf p t :
  (3 <= length p)%nat -> existsb is_lf p = true -> host_header_expected (p ++ t) = host_header_expected p.
Proof.
  destruct p as [|a [|b [|c r]]]; simpl; intros L H; try lia.
  destruct (is_alpha a && is_alpha b && is_alpha c) eqn:A; [|reflexivity]. simpl.
  apply andb_true_iff in A as [A Ac]. apply andb_true_iff in A as [Aa Ab].
  rewrite (is_alpha_not_lf _ Aa), (is_alpha_not_lf _ Ab), (is_alpha_not_lf _ Ac) in H. simpl in H.
  rewrite (until_lf_has _ t H). reflexivity.
Qed.
