(* Proofs/TnetReader.v -- totality of the reader on arbitrary bytes: which exception classes
   pop/load can raise, no fuel exhaustion, strict consumption, and the resulting
   characterisation of how FlowReader.stream can end. *)
From Coq Require Import List Bool Arith NArith ZArith Lia.
From MV Require Import Base.Bytes Model.Tnet Proofs.TnetBase.
Import ListNotations.

Lemma find_colon_len data pre rest :
  find_colon data = Some (pre, rest) -> length data = (length pre + 1 + length rest)%nat.
Proof.
  revert pre rest. induction data as [|c r IH]; intros pre rest; cbn [find_colon]; [discriminate|].
  destruct (byte_eqb c x3a).
  - intros E. injection E as <- <-. cbn [length]. lia.
  - destruct (find_colon r) as [[a b]|] eqn:E1; [|discriminate].
    intros E. injection E as <- <-. specialize (IH _ _ eq_refl). cbn [length]. lia.
Qed.

Lemma split_len data z rest : split data = Some (z, rest) -> (length rest + 1 <= length data)%nat.
Proof.
  unfold split. destruct (find_colon data) as [[pre r]|] eqn:E; [|discriminate].
  destruct (py_int pre); [|discriminate]. intros H. injection H as _ <-.
  apply find_colon_len in E. lia.
Qed.

Lemma pop_slices_len len data p ty rem :
  pop_slices len data = Some (p, ty, rem) ->
  (length p + 1 <= length data)%nat /\ (length rem <= length data)%nat.
Proof.
  unfold pop_slices. cbv zeta.
  set (idx := if (len <? 0)%Z then (Z.of_nat (length data) + len)%Z else len).
  destruct ((idx <? 0)%Z || (Z.of_nat (length data) <=? idx)%Z) eqn:E; [discriminate|].
  apply orb_false_iff in E. destruct E as [E1 E2]. apply Z.ltb_ge in E1. apply Z.leb_gt in E2.
  destruct (skipn (Z.to_nat idx) data) as [|t r] eqn:Es; [discriminate|].
  intros H. injection H as <- <- <-. split.
  - rewrite firstn_length. lia.
  - change (match data with [] => [] | _ :: l => skipn (Z.to_nat idx) l end) with (skipn (S (Z.to_nat idx)) data).
    destruct (len =? -1)%Z; [lia|]. rewrite skipn_length. lia.
Qed.

Section Reader.
  Variable pyfloat : bytes -> option (bytes * option Z).

  (* A: which exception classes may come out; m: the input length bound under consideration *)
  Definition popok (A : pyexc -> Prop) (m : nat) (popf : bytes -> res (tv * bytes)) : Prop :=
    forall data, (length data <= m)%nat ->
      popf data <> OutOfFuel
      /\ (forall e, popf data = Exc e -> A e)
      /\ (forall v rest, popf data = Ok (v, rest) -> (length rest < length data)%nat).

  Lemma list_loop_ok A m popf : popok A m popf ->
    forall n data, (length data <= n)%nat -> (length data <= m)%nat ->
      list_loop popf n data <> OutOfFuel /\ (forall e, list_loop popf n data = Exc e -> A e).
  Proof.
    intros Hp. induction n as [|n IH]; intros data Hn Hm.
    - destruct data; [|cbn [length] in Hn; lia]. cbn. split; [discriminate|intros; discriminate].
    - destruct data as [|c r]; [cbn; split; [discriminate|intros; discriminate]|].
      cbn [list_loop]. destruct (Hp (c :: r) Hm) as (F & E & S).
      destruct (popf (c :: r)) as [[item rest]| e |] eqn:Ep.
      + specialize (S _ _ eq_refl).
        destruct (IH rest ltac:(cbn [length] in *; lia) ltac:(lia)) as [F2 E2].
        destruct (list_loop popf n rest) eqn:El.
        * split; [discriminate|intros; discriminate].
        * split; [discriminate|]. intros e0 H0. injection H0 as <-. now apply E2.
        * congruence.
      + split; [discriminate|]. intros e0 H0. injection H0 as <-. now apply E.
      + congruence.
  Qed.

  Lemma dict_loop_ok A m popf : popok A m popf -> A TypeError ->
    forall n data d, (length data <= n)%nat -> (length data <= m)%nat ->
      dict_loop pyfloat popf n data d <> OutOfFuel
      /\ (forall e, dict_loop pyfloat popf n data d = Exc e -> A e).
  Proof.
    intros Hp HT. induction n as [|n IH]; intros data d Hn Hm.
    - destruct data; [|cbn [length] in Hn; lia]. cbn. split; [discriminate|intros; discriminate].
    - destruct data as [|c r]; [cbn; split; [discriminate|intros; discriminate]|].
      cbn [dict_loop]. destruct (Hp (c :: r) Hm) as (F & E & S).
      destruct (popf (c :: r)) as [[key data1]| e |] eqn:Ep.
      + specialize (S _ _ eq_refl).
        destruct (Hp data1 ltac:(lia)) as (F1 & E1 & S1).
        destruct (popf data1) as [[val data2]| e |] eqn:Ep1.
        * specialize (S1 _ _ eq_refl). unfold dict_set.
          destruct (hashable key).
          -- apply IH; cbn [length] in *; lia.
          -- split; [discriminate|]. intros e0 H0. injection H0 as <-. exact HT.
        * split; [discriminate|]. intros e0 H0. injection H0 as <-. now apply E1.
        * congruence.
      + split; [discriminate|]. intros e0 H0. injection H0 as <-. now apply E.
      + congruence.
  Qed.

  Lemma parse_with_ok A m popf ty data : popok A m popf -> A ValueError -> A TypeError ->
    (length data <= m)%nat ->
    parse_with pyfloat popf ty data <> OutOfFuel
    /\ (forall e, parse_with pyfloat popf ty data = Exc e -> A e).
  Proof.
    intros Hp HV HT Hm. unfold parse_with.
    destruct (byte_eqb ty x2c); [split; [discriminate|intros; discriminate]|].
    destruct (byte_eqb ty x3b).
    { destruct (utf8_valid data); split; try discriminate; intros e H; try discriminate. injection H as <-. exact HV. }
    destruct (byte_eqb ty x23).
    { destruct (py_int data); split; try discriminate; intros e H; try discriminate. injection H as <-. exact HV. }
    destruct (byte_eqb ty x5e).
    { destruct (pyfloat data) as [[r o]|]; split; try discriminate; intros e H; try discriminate. injection H as <-. exact HV. }
    destruct (byte_eqb ty x21).
    { destruct (bytes_eqb data s_true); [split; [discriminate|intros; discriminate]|].
      destruct (bytes_eqb data s_false); split; try discriminate; intros e H; try discriminate. injection H as <-. exact HV. }
    destruct (byte_eqb ty x7e).
    { destruct data; split; try discriminate; intros e H; try discriminate. injection H as <-. exact HV. }
    destruct (byte_eqb ty x5d).
    { destruct (list_loop_ok A m popf Hp (length data) data (le_n _) Hm) as [F E].
      destruct (list_loop popf (length data) data); split; try discriminate; try congruence.
      intros e0 H. injection H as <-. now apply E. }
    destruct (byte_eqb ty x7d).
    { destruct (dict_loop_ok A m popf Hp HT (length data) data [] (le_n _) Hm) as [F E].
      destruct (dict_loop pyfloat popf (length data) data []); split; try discriminate; try congruence.
      intros e0 H. injection H as <-. now apply E. }
    split; [discriminate|]. intros e H. injection H as <-. exact HV.
  Qed.

  Lemma pop_ok (A : pyexc -> Prop) : A ValueError -> A TypeError ->
    forall d m, (A RecursionError \/ (m + 1 <= 2 * d)%nat) -> popok A m (pop pyfloat d).
  Proof.
    intros HV HT. induction d as [|d IH]; intros m HR data Hm.
    - cbn [pop]. split; [discriminate|]. split; [|intros; discriminate].
      intros e H. injection H as <-. destruct HR as [HR|HR]; [exact HR|lia].
    - cbn [pop].
      destruct (split data) as [[len data1]|] eqn:Es.
      2:{ split; [discriminate|]. split; [|intros; discriminate]. intros e H. injection H as <-. exact HV. }
      apply split_len in Es.
      destruct (pop_slices len data1) as [[[p ty] rem]|] eqn:Ep.
      2:{ split; [discriminate|]. split; [|intros; discriminate]. intros e H. injection H as <-. exact HV. }
      apply pop_slices_len in Ep. destruct Ep as [Ep1 Ep2].
      assert (Hok : popok A (m - 2) (pop pyfloat d)) by (apply IH; destruct HR; [left; auto|right; lia]).
      destruct (parse_with_ok A (m - 2) (pop pyfloat d) ty p Hok HV HT ltac:(lia)) as [F E].
      destruct (parse_with pyfloat (pop pyfloat d) ty p) eqn:Ew.
      + split; [discriminate|]. split; [intros; discriminate|].
        intros v rest H. injection H as _ <-. lia.
      + split; [discriminate|]. split; [|intros; discriminate]. intros e0 H. injection H as <-. now apply E.
      + congruence.
  Qed.

  Definition pop_class (e : pyexc) : Prop := e = ValueError \/ e = TypeError \/ e = RecursionError.
  Definition vt_class (e : pyexc) : Prop := e = ValueError \/ e = TypeError.
  Definition load_class (e : pyexc) : Prop :=
    e = ValueError \/ e = TypeError \/ e = IndexError \/ e = RecursionError.

  Lemma read_len_shrinks file : forall cnt ds rest,
    read_len file cnt = Some (ds, rest) -> (length rest < length file)%nat.
  Proof.
    induction file as [|c r IH]; intros cnt ds rest; cbn [read_len]; [discriminate|].
    destruct (is_digit c).
    - destruct (12 <? S cnt)%nat; [discriminate|].
      destruct (read_len r (S cnt)) as [[ds0 rest0]|] eqn:E; [|discriminate].
      intros H. injection H as _ <-. apply IH in E. cbn [length]. lia.
    - destruct (byte_eqb c x3a); [|discriminate]. intros H. injection H as _ <-. cbn [length]. lia.
  Qed.

  Lemma dropN_len n (l : bytes) : (length (dropN n l) <= length l)%nat.
  Proof. unfold dropN. rewrite skipn_length. lia. Qed.
  Lemma takeN_len n (l : bytes) : (length (takeN n l) <= length l)%nat.
  Proof. unfold takeN. rewrite firstn_length. lia. Qed.

  (* load: never out of fuel; raises only the four classes; RecursionError only when the
     stack budget is small relative to the input; consumes at least one byte *)
  Lemma load_facts depth file :
    load pyfloat depth file <> LFuel
    /\ (forall e, load pyfloat depth file = LExc e -> load_class e)
    /\ ((length file <= 2 * depth)%nat -> load pyfloat depth file <> LExc RecursionError)
    /\ (forall v rest, load pyfloat depth file = LValue v rest -> (length rest < length file)%nat).
  Proof.
    unfold load. destruct file as [|c0 f0]; [repeat split; intros; discriminate|].
    set (file := c0 :: f0).
    destruct (read_len file 0) as [[ds rest]|] eqn:Er.
    2:{ repeat split; try discriminate. intros e H. injection H as <-. left; reflexivity. }
    apply read_len_shrinks in Er.
    destruct ds as [|d0 ds].
    { repeat split; try discriminate. intros e H. injection H as <-. left; reflexivity. }
    set (n := digits_val (d0 :: ds)).
    pose proof (dropN_len n rest) as Hd. pose proof (takeN_len n rest) as Ht.
    destruct (dropN n rest) as [|ty rest2] eqn:Ed.
    { repeat split; try discriminate. intros e H. injection H as <-. right; right; left; reflexivity. }
    cbn [length] in Hd.
    assert (Htl : (length (takeN n rest) + 1 <= length rest)%nat).
    { unfold takeN, dropN in *. rewrite firstn_length.
      assert (length (skipn (N.to_nat (N.min n (blen rest))) rest) = S (length rest2)) by (rewrite Ed; reflexivity).
      rewrite skipn_length in H. lia. }
    unfold parse.
    assert (H1 : popok pop_class (length (takeN n rest)) (pop pyfloat depth)).
    { apply pop_ok; unfold pop_class; auto. }
    destruct (parse_with_ok pop_class _ (pop pyfloat depth) ty (takeN n rest) H1
                (or_introl eq_refl) (or_intror (or_introl eq_refl)) (le_n _)) as [F E].
    repeat split.
    - destruct (parse_with pyfloat (pop pyfloat depth) ty (takeN n rest)); congruence.
    - intros e H. destruct (parse_with pyfloat (pop pyfloat depth) ty (takeN n rest)) eqn:Ew; try discriminate.
      injection H as <-. destruct (E e0 eq_refl) as [-> | [-> | ->]]; unfold load_class; auto.
    - intros Hshort.
      assert (H2 : popok vt_class (length (takeN n rest)) (pop pyfloat depth)).
      { apply pop_ok; unfold vt_class; auto. right. lia. }
      destruct (parse_with_ok vt_class _ (pop pyfloat depth) ty (takeN n rest) H2
                  (or_introl eq_refl) (or_intror eq_refl) (le_n _)) as [_ E2].
      destruct (parse_with pyfloat (pop pyfloat depth) ty (takeN n rest)) eqn:Ew; try discriminate.
      intros H. injection H as ->. destruct (E2 _ eq_refl); discriminate.
    - intros v rest0 H.
      destruct (parse_with pyfloat (pop pyfloat depth) ty (takeN n rest)); try discriminate.
      injection H as _ <-. unfold file in *. cbn [length] in *. lia.
  Qed.

  Lemma pop_exceptions depth data e : pop pyfloat depth data = Exc e -> pop_class e.
  Proof.
    intros H.
    assert (Hp : popok pop_class (length data) (pop pyfloat depth)) by (apply pop_ok; unfold pop_class; auto).
    destruct (Hp data (le_n _)) as (_ & E & _). now apply E.
  Qed.

  Lemma pop_no_fuel depth data : pop pyfloat depth data <> OutOfFuel.
  Proof.
    assert (Hp : popok pop_class (length data) (pop pyfloat depth)) by (apply pop_ok; unfold pop_class; auto).
    destruct (Hp data (le_n _)) as (F & _ & _). exact F.
  Qed.

  (* ---------- FlowReader.stream ---------- *)
  Variables outer inner : pyexc -> bool.
  Variable from_state : tv -> option pyexc.

  (* how the generator can end: every way other than a clean end or FlowReadException is an
     exception class that one of the two abstracted steps raised and no handler names *)
  Inductive escapes : final -> Prop :=
  | esc_load e : load_class e -> outer e = false -> escapes (Other e)
  | esc_state v e : from_state v = Some e -> inner e = false -> outer e = false -> escapes (Other e)
  | esc_nondict : inner ValueError = false -> outer ValueError = false -> escapes (Other ValueError).

  Lemma stream_loop_outcomes depth : forall n file,
    (length file < n)%nat ->
    let fin := snd (stream_loop pyfloat outer inner from_state depth n file) in
    fin = Clean \/ fin = ReadError \/ escapes fin.
  Proof.
    induction n as [|n IH]; intros file Hn; [lia|].
    cbn [stream_loop].
    destruct (load_facts depth file) as (F & E & _ & S).
    destruct (load pyfloat depth file) as [v rest| |e|] eqn:El.
    - specialize (S _ _ eq_refl).
      destruct (is_dict v).
      + destruct (from_state v) as [e|] eqn:Ef.
        * cbn [snd]. unfold handle_inner.
          destruct (inner e) eqn:Ei; [auto|]. destruct (outer e) eqn:Eo; [auto|].
          right; right. eapply esc_state; eauto.
        * cbn [snd]. apply IH. lia.
      + cbn [snd]. unfold handle_inner.
        destruct (inner ValueError) eqn:Ei; [auto|]. destruct (outer ValueError) eqn:Eo; [auto|].
        right; right. now apply esc_nondict.
    - cbn [snd]. auto.
    - cbn [snd]. destruct (outer e) eqn:Eo; [auto|]. right; right. apply esc_load; auto.
    - congruence.
  Qed.

  Theorem stream_outcomes depth file :
    let fin := snd (stream pyfloat outer inner from_state depth file) in
    fin = Clean \/ fin = ReadError \/ fin = HarBranch \/ escapes fin.
  Proof.
    unfold stream. destruct (starts_with bom_brace file || starts_with [x7b] file); cbn [snd]; [auto|].
    destruct (stream_loop_outcomes depth (S (length file)) file (Nat.lt_succ_diag_r _)) as [H|[H|H]]; auto.
  Qed.

  (* every value reported as read was produced by load from the file and accepted by from_state *)
  Lemma stream_loop_values depth : forall n file v,
    In v (fst (stream_loop pyfloat outer inner from_state depth n file)) ->
    is_dict v = true /\ from_state v = None.
  Proof.
    induction n as [|n IH]; intros file v; cbn [stream_loop]; [intros []|].
    destruct (load pyfloat depth file) as [v0 rest| |e|]; cbn [fst]; try (intros []).
    destruct (is_dict v0) eqn:Ed; [|intros []].
    destruct (from_state v0) eqn:Ef; cbn [fst]; [intros []|].
    intros [<-|H]; [auto|]. eapply IH; eauto.
  Qed.
End Reader.

(* ---------- the handlers as written today ---------- *)
Theorem stream_current_outcomes pyfloat from_state depth file :
  let fin := snd (stream pyfloat outer_current inner_current from_state depth file) in
  fin = Clean \/ fin = ReadError \/ fin = HarBranch
  \/ fin = Other RecursionError
  \/ (exists v e, from_state v = Some e /\ outer_current e = false /\ fin = Other e).
Proof.
  intros fin. destruct (stream_outcomes pyfloat outer_current inner_current from_state depth file) as [H|[H|[H|H]]]; auto.
  fold fin in H. inversion H as [e Hc Ho Ef | v e Hf Hi Ho Ef | Hi Ho Ef].
  - destruct Hc as [-> | [-> | [-> | ->]]]; try discriminate. auto.
  - right; right; right; right. eauto.
  - discriminate.
Qed.

(* any handler pair that names the four classes load can raise and converts everything
   from_state raises (the proposed repair) never lets another exception out *)
Theorem stream_total_if_handled pyfloat outer inner from_state depth file :
  outer ValueError = true -> outer TypeError = true -> outer IndexError = true ->
  outer RecursionError = true -> (forall e, inner e = true) ->
  let fin := snd (stream pyfloat outer inner from_state depth file) in
  fin = Clean \/ fin = ReadError \/ fin = HarBranch.
Proof.
  intros HV HT HI HR Hin fin.
  destruct (stream_outcomes pyfloat outer inner from_state depth file) as [H|[H|[H|H]]]; auto.
  fold fin in H. exfalso. inversion H as [e Hc Ho Ef | v e Hf Hi Ho Ef | Hi Ho Ef].
  - destruct Hc as [-> | [-> | [-> | ->]]]; congruence.
  - rewrite Hin in Hi. discriminate.
  - rewrite Hin in Hi. discriminate.
Qed.

(* today's handlers: total as long as from_state raises only the named classes and the file
   is too short to exhaust the stack budget *)
Theorem stream_current_total_guarded pyfloat from_state depth file :
  (forall v e, from_state v = Some e -> outer_current e = true) ->
  (length file <= 2 * depth)%nat ->
  let fin := snd (stream pyfloat outer_current inner_current from_state depth file) in
  fin = Clean \/ fin = ReadError \/ fin = HarBranch.
Proof.
  intros Hfs Hshort. unfold stream.
  destruct (starts_with bom_brace file || starts_with [x7b] file); cbn [snd]; [auto|].
  assert (G : forall n f, (length f < n)%nat -> (length f <= 2 * depth)%nat ->
    let fin := snd (stream_loop pyfloat outer_current inner_current from_state depth n f) in
    fin = Clean \/ fin = ReadError).
  { induction n as [|n IH]; intros f Hn Hs; [lia|]. cbn [stream_loop].
    destruct (load_facts pyfloat depth f) as (F & E & R & S). specialize (R Hs).
    destruct (load pyfloat depth f) as [v rest| |e|] eqn:El.
    - specialize (S _ _ eq_refl). destruct (is_dict v).
      + destruct (from_state v) as [e|] eqn:Ef.
        * cbn [snd]. unfold handle_inner. rewrite (Hfs _ _ Ef). destruct (inner_current e); auto.
        * cbn [snd]. apply IH; lia.
      + cbn [snd]. auto.
    - cbn [snd]. auto.
    - cbn [snd]. destruct (E e eq_refl) as [-> | [-> | [-> | ->]]]; auto. congruence.
    - congruence. }
  destruct (G (S (length file)) file (Nat.lt_succ_diag_r _) Hshort); auto.
Qed.
