(* Proofs/QuicIds.v -- facts about the translated stream-id arithmetic (Gen/QuicIds.v). *)
From Coq Require Import NArith List Bool Lia.
From MV Require Import Model.QuicIdsPrelude Gen.QuicIds.
Import ListNotations.
Open Scope N_scope.

Lemma land1_mod2 n : N.land n 1 = n mod 2.
Proof. change 1 with (N.ones 1). rewrite N.land_ones. reflexivity. Qed.

Lemma land2_mod4 n : N.land n 2 = N.land (n mod 4) 2.
Proof.
  change 4 with (2 ^ 2). rewrite <- N.land_ones.
  rewrite <- N.land_assoc. reflexivity.
Qed.

Lemma mod4_cases n : n mod 4 = 0 \/ n mod 4 = 1 \/ n mod 4 = 2 \/ n mod 4 = 3.
Proof. assert (H : n mod 4 < 4) by (apply N.mod_lt; lia). remember (n mod 4) as r. clear Heqr. lia. Qed.

Lemma mod2_of_mod4 n : n mod 2 = (n mod 4) mod 2.
Proof.
  pose proof (N.div_mod n 4 ltac:(lia)) as E.
  rewrite E at 1.
  replace (4 * (n / 4) + n mod 4) with (n mod 4 + (n / 4 * 2) * 2) by lia.
  apply N.mod_add. lia.
Qed.

(* initiator bit: bit 0 clear *)
Lemma client_initiated_spec id : stream_is_client_initiated id = (id mod 2 =? 0).
Proof. unfold stream_is_client_initiated, py_truthy. rewrite land1_mod2, negb_involutive. reflexivity. Qed.

(* direction bit: bit 1 set *)
Lemma unidirectional_spec id : stream_is_unidirectional id = (2 <=? id mod 4).
Proof.
  unfold stream_is_unidirectional, py_truthy. rewrite land2_mod4.
  destruct (mod4_cases id) as [H|[H|[H|H]]]; rewrite H; reflexivity.
Qed.

Lemma client_initiated_mod4 id : stream_is_client_initiated id = ((id mod 4 =? 0) || (id mod 4 =? 2)).
Proof.
  rewrite client_initiated_spec, mod2_of_mod4.
  destruct (mod4_cases id) as [H|[H|[H|H]]]; rewrite H; reflexivity.
Qed.

(* both predicates only depend on the class id mod 4 *)
Lemma same_class_same_bits a b : a mod 4 = b mod 4 ->
  stream_is_client_initiated a = stream_is_client_initiated b /\
  stream_is_unidirectional a = stream_is_unidirectional b.
Proof. intros H. rewrite !client_initiated_mod4, !unidirectional_spec, H. auto. Qed.

(* the class index computed by the allocator *)
Definition class_of (is_client is_uni : bool) : N := 2 * py_int is_uni + py_int (negb is_client).

Definition counters_ok (nx : list N) : Prop :=
  exists a0 a1 a2 a3, nx = [a0; a1; a2; a3] /\ a0 mod 4 = 0 /\ a1 mod 4 = 1 /\ a2 mod 4 = 2 /\ a3 mod 4 = 3.

Lemma counters_ok_init : counters_ok NEXT_STREAM_ID_INIT.
Proof. exists 0, 1, 2, 3. repeat split; reflexivity. Qed.

Lemma add4_mod a : (a + 4) mod 4 = a mod 4.
Proof. replace (a + 4) with (a + 1 * 4) by lia. apply N.mod_add. lia. Qed.

Definition counter (nx : list N) (j : N) : N := nth (N.to_nat j) nx 0.

(* the allocator never fails on well-formed counters, returns the counter of the requested class,
   whose class bits are the requested ones, and bumps exactly that counter by 4 *)
Lemma alloc_spec nx c u : counters_ok nx ->
  exists id nx', get_next_available_stream_id nx c u = Some (id, nx') /\
    counters_ok nx' /\
    id = counter nx (class_of c u) /\
    id mod 4 = class_of c u /\
    counter nx' (class_of c u) = id + 4 /\
    (forall j, j <> class_of c u -> counter nx' j = counter nx j).
Proof.
  intros (a0 & a1 & a2 & a3 & -> & H0 & H1 & H2 & H3).
  destruct c, u; cbn;
    eexists; eexists; (split; [reflexivity|]);
    (split; [ do 4 eexists; split; [reflexivity|]; rewrite ?add4_mod; auto |]);
    (split; [reflexivity|]); (split; [assumption|]); (split; [reflexivity|]);
    intros j Hj; unfold counter, class_of in *; cbn in Hj;
    remember (N.to_nat j) as m eqn:Em; assert (Ej : j = N.of_nat m) by lia; clear Em; subst j;
    destruct m as [|[|[|[|m]]]]; cbn; try reflexivity; exfalso; apply Hj; reflexivity.
Qed.

Lemma alloc_bits nx c u id nx' : counters_ok nx ->
  get_next_available_stream_id nx c u = Some (id, nx') ->
  stream_is_client_initiated id = c /\ stream_is_unidirectional id = u.
Proof.
  intros Hok Hg. destruct (alloc_spec nx c u Hok) as (id' & nx'' & Hg' & _ & _ & Hm & _).
  rewrite Hg in Hg'. inversion Hg'; subst id' nx''.
  rewrite client_initiated_mod4, unidirectional_spec, Hm. destruct c, u; split; reflexivity.
Qed.
