(* Proofs/ConnHandlerMain.v -- final statements for C09, derived from the invariants. *)
From Coq Require Import List Bool Arith Lia.
From MV Require Import Model.ConnHandler Proofs.ConnHandlerBase Proofs.ConnHandlerPair Proofs.ConnHandlerSem
                       Proofs.ConnHandlerTeardown Proofs.ConnHandlerWitness.
Import ListNotations.

(* hook calls in call order *)
Definition client_hooks (s : st) : list hookname := rev (cproj (trace s)).
Definition server_hooks (s : st) (c : nat) : list hookname := rev (proj c (trace s)).

Definition main_done (s : st) : Prop := exists k, mainpc s = MDone k.
Definition task_exit (s : st) (c : nat) (x : exitk) : Prop := c_pc (getc s c) = PDone x.
Definition lost (x : exitk) : Prop := x = XLostConnectHook \/ x = XLostSem \/ x = XLostConnectedHook.
Definition complete_word (w : list hookname) : Prop :=
  w = [] \/ w = [HServerConnect; HServerConnectError] \/ w = [HServerConnect; HServerConnected; HServerDisconnected].
Definition grammar_prefix (w : list hookname) : Prop :=
  w = [] \/ w = [HServerConnect] \/ w = [HServerConnect; HServerConnectError] \/
  w = [HServerConnect; HServerConnected] \/ w = [HServerConnect; HServerConnected; HServerDisconnected].

Lemma client_hooks_by_pc : forall sc l, let s := run (init sc) l in
  client_hooks s = rev (mword (mainpc s)).
Proof. intros. unfold client_hooks. destruct (pairing_invariant sc l) as [_ H]. fold s in H. rewrite H. auto. Qed.

Lemma client_hooks_paired : forall sc l, let s := run (init sc) l in
  (client_hooks s = [] \/ client_hooks s = [HClientConnected] \/ client_hooks s = [HClientConnected; HClientDisconnected]) /\
  (main_done s -> client_hooks s = [HClientConnected; HClientDisconnected]).
Proof.
  intros. pose proof (client_hooks_by_pc sc l) as H. fold s in H. rewrite H. split.
  - destruct (mainpc s); simpl; auto.
  - intros [k K]. rewrite K. auto.
Qed.

Lemma server_hooks_by_pc : forall sc l c, 1 <= c -> let s := run (init sc) l in
  server_hooks s c = rev (rword (c_pc (getc s c))).
Proof.
  intros. unfold server_hooks. destruct (pairing_invariant sc l) as [I _]. fold s in I.
  assert (C : Nat.eqb c 0 = false) by (apply Nat.eqb_neq; lia). destruct (I c C) as [P _]. rewrite P. auto.
Qed.

Lemma server_hooks_grammar : forall sc l c, 1 <= c -> let s := run (init sc) l in
  grammar_prefix (server_hooks s c).
Proof.
  intros. pose proof (server_hooks_by_pc sc l c H) as E. fold s in E. rewrite E. unfold grammar_prefix.
  destruct (c_pc (getc s c)) as [| | | | | | | | | | | |x]; simpl; auto 6. destruct x; simpl; auto 6.
Qed.

Lemma server_pairing_partial : forall sc l c x, 1 <= c -> let s := run (init sc) l in
  task_exit s c x -> ~ lost x -> complete_word (server_hooks s c).
Proof.
  intros sc l c x H s T NL. pose proof (server_hooks_by_pc sc l c H) as E. fold s in E. rewrite E.
  unfold task_exit in T. rewrite T. unfold complete_word, lost in *. destruct x; simpl; auto; exfalso; apply NL; auto.
Qed.

Lemma server_pairing_refuted : exists sc l c x, 1 <= c /\ let s := run (init sc) l in
  task_exit s c x /\ ~ complete_word (server_hooks s c).
Proof.
  exists six, w_sem, 6, XLostSem. split; [auto with arith|]. cbv zeta. destruct w_sem_ok as [A B]. split; [exact A|].
  unfold server_hooks. rewrite B. unfold complete_word. simpl. intro H. destruct H as [H | [H | H]]; discriminate.
Qed.

Lemma connected_without_disconnected : exists sc l c x, 1 <= c /\ let s := run (init sc) l in
  main_done s /\ task_exit s c x /\ server_hooks s c = [HServerConnect; HServerConnected].
Proof.
  exists [[COpen (Some 0)]], w_connected_hook, 1, XLostConnectedHook. split; auto. cbv zeta.
  destruct w_connected_hook_ok as (A & B & C & _). split; [exists 0; exact C|]. split; [exact A|].
  unfold server_hooks. rewrite B. auto.
Qed.

Lemma open_sockets_partial : forall sc l b, let s := run (init sc) l in
  leaked b s = 0 -> open_writers b s <= 5.
Proof. intros sc l b s H. pose proof (open_writers_bound sc l b) as B. cbv zeta in B. fold s in B. lia. Qed.

Lemma open_sockets_refuted : exists sc l b, let s := run (init sc) l in open_writers b s = 6.
Proof. exists (six ++ [[CClose 1]]), w_six_open, 0. cbv zeta. apply w_six_open_ok. Qed.

Lemma cleanup_refuted_leak : exists sc l n c, let s := run (init sc) l in
  main_done s /\ teardown_n s = Some n /\ 1 <= c /\ c < n /\ c_writer (getc s c) = WOpen.
Proof.
  exists [[COpen (Some 0)]], w_connected_hook, 2, 1. cbv zeta. destruct w_connected_hook_ok as (A & B & C & D & E).
  split; [exists 0; exact C|]. repeat split; auto.
Qed.

Lemma cleanup_refuted_late : exists sc l n c, let s := run (init sc) l in
  main_done s /\ teardown_n s = Some n /\ n <= c /\ c_writer (getc s c) = WOpen.
Proof.
  exists [[CHook]; []; [COpen (Some 0)]], w_late_open, 1, 1. cbv zeta. destruct w_late_open_ok as (A & B & C & D).
  split; [exists 0; exact A|]. repeat split; auto.
Qed.

Lemma cleanup_partial : forall sc l n c, let s := run (init sc) l in
  main_done s -> teardown_n s = Some n -> 1 <= c -> c < n ->
  ~ task_exit s c XLostConnectedHook -> c_writer (getc s c) <> WOpen.
Proof.
  intros sc l n c s [k M] T C1 C2 NL W. apply NL.
  exact (no_open_writer_after_done sc l k n c M T C1 C2 W).
Qed.

Lemma server_hooks_grammar_pc : forall sc l c, 1 <= c -> let s := run (init sc) l in
  grammar_prefix (server_hooks s c) /\ server_hooks s c = rev (rword (c_pc (getc s c))).
Proof. intros sc l c H. split. exact (server_hooks_grammar sc l c H). exact (server_hooks_by_pc sc l c H). Qed.
