(* Proofs/DnsMessageRT.v -- DNSMessage: packed produces header ++ questions ++ records in plain
   wire form and unpack reads it back, provided no compressible-type record data contains a
   byte that looks like a compression pointer. *)
From Coq Require Import List Bool Arith NArith ZArith Lia.
From MV Require Import Base.Bytes Model.DnsNames Model.DnsMessage Proofs.DnsNamesRT.
Import ListNotations.

(* ---------- reading at an offset ---------- *)
Lemma skipn_le {A} (buf x : list A) off : skipn off buf = x -> x <> [] -> off + length x <= length buf.
Proof.
  intros H Hx. pose proof (skipn_length off buf) as L. rewrite H in L.
  destruct x; [congruence|]. cbn [length] in *. lia.
Qed.

Lemma at_offset {A} (buf x : list A) off : skipn off buf = x -> x <> [] ->
  buf = firstn off buf ++ x /\ length (firstn off buf) = off.
Proof.
  intros H Hx. split.
  - rewrite <- H. symmetry. apply firstn_skipn.
  - apply firstn_length_le. pose proof (skipn_le _ _ _ H Hx). lia.
Qed.

Lemma skipn_add {A} a b (l : list A) : skipn (a + b) l = skipn b (skipn a l).
Proof.
  revert l; induction a as [|a IH]; intros l; [reflexivity|].
  destruct l; cbn [Nat.add skipn]; [rewrite skipn_nil; reflexivity|apply IH].
Qed.

Lemma skipn_advance {A} (buf x rest : list A) off :
  skipn off buf = x ++ rest -> skipn (off + length x) buf = rest.
Proof.
  intros H. rewrite skipn_add, H. apply skipn_exact. reflexivity.
Qed.

Lemma wire_name_nonempty n rest : wire_name n ++ rest <> [].
Proof.
  unfold wire_name. pose proof (wire_parts_length (name_parts n)).
  destruct (wire_parts (name_parts n)); cbn in *; [lia|discriminate].
Qed.

Definition keys_lt (c : cache) (n : nat) : Prop := forall k v, In (k, v) c -> k < n.

Lemma keys_lt_lookup c n : keys_lt c n -> lookup n c = None.
Proof.
  induction c as [|[k v] c IH]; intros H; [reflexivity|]. cbn [lookup].
  destruct (k =? n) eqn:E.
  - apply Nat.eqb_eq in E. specialize (H k v (or_introl eq_refl)). lia.
  - apply IH. intros k' v' Hin. apply (H k' v'). right. exact Hin.
Qed.

Lemma unpack_domain_name_at n buf off rest c :
  wf_name n -> keys_lt c off -> skipn off buf = wire_name n ++ rest ->
  exists c', unpack_domain_name buf off c = (Ok (n, off + length (wire_name n)), c')
             /\ keys_lt c' (off + length (wire_name n)).
Proof.
  intros Hn Hc Hs.
  destruct (at_offset _ _ _ Hs (wire_name_nonempty n rest)) as [Hb Hl].
  pose proof (unpack_fwc_wire n (firstn off buf) rest c (S (length buf)) Hn) as U.
  rewrite Hl, <- Hb in U. specialize (U (keys_lt_lookup _ _ Hc) ltac:(lia)).
  unfold unpack_domain_name, unpack_fwc. rewrite U. eexists. split; [reflexivity|].
  pose proof (wire_parts_length (name_parts n)). unfold wire_name.
  intros k v [E|[E|Hin]]; try (inversion E; subst; lia).
  specialize (Hc k v Hin). lia.
Qed.

(* ---------- integers ---------- *)
Lemma u16be_put' n : (n < 65536)%N -> u16be (Nb (n / 256 mod 256)) (Nb (n mod 256)) = n.
Proof. intros H. exact (u16be_put n H). Qed.

Lemma u32be_put' n : (n < 4294967296)%N ->
  u32be (Nb (n / 16777216 mod 256)) (Nb (n / 65536 mod 256)) (Nb (n / 256 mod 256)) (Nb (n mod 256)) = n.
Proof.
  intros H. unfold u32be. rewrite !bN_Nb by (apply N.mod_lt; lia).
  assert (E1 : (n / 65536 = n / 256 / 256)%N) by (rewrite N.div_div by lia; reflexivity).
  assert (E2 : (n / 16777216 = n / 256 / 256 / 256)%N) by (rewrite !N.div_div by lia; reflexivity).
  rewrite E1, E2. clear E1 E2.
  pose proof (N.div_mod n 256 ltac:(lia)) as D1.
  pose proof (N.div_mod (n / 256) 256 ltac:(lia)) as D2.
  pose proof (N.div_mod (n / 256 / 256) 256 ltac:(lia)) as D3.
  assert (A : (n / 256 / 256 / 256 < 256)%N)
    by (rewrite !N.div_div by lia; apply N.div_lt_upper_bound; lia).
  rewrite (N.mod_small _ _ A).
  generalize dependent (n / 256 / 256 / 256)%N. generalize dependent ((n / 256 / 256) mod 256)%N.
  generalize dependent (n / 256 / 256)%N. generalize dependent ((n / 256) mod 256)%N.
  generalize dependent (n / 256)%N. generalize dependent (n mod 256)%N. intros. lia.
Qed.

(* ---------- well-formed messages and their wire form ---------- *)
Definition wf_q (q : question) : Prop :=
  wf_name (q_name q) /\ (q_type q < 65536)%N /\ (q_class q < 65536)%N.
Definition wf_rr (r : rr) : Prop :=
  wf_name (r_name r) /\ (r_type r < 65536)%N /\ (r_class r < 65536)%N
  /\ (r_ttl r < 4294967296)%N /\ (N.of_nat (length (r_data r)) < 65536)%N.
Definition no_ptr_byte (d : bytes) : bool := forallb (fun b => negb (is_ptr b)) d.
(* the complement of finding rdata-pointer-lookalike-rewritten *)
Definition rdata_guard (r : rr) : Prop :=
  record_data_can_have_compression (r_type r) = true -> no_ptr_byte (r_data r) = true.
Definition wf_msg (m : message) : Prop :=
  (m_id m < 65536)%N /\ (m_op_code m < 16)%N /\ (m_reserved m < 8)%N /\ (m_rcode m < 16)%N
  /\ (N.of_nat (length (m_questions m)) < 65536)%N /\ (N.of_nat (length (m_answers m)) < 65536)%N
  /\ (N.of_nat (length (m_authorities m)) < 65536)%N /\ (N.of_nat (length (m_additionals m)) < 65536)%N
  /\ Forall wf_q (m_questions m) /\ Forall wf_rr (m_answers m)
  /\ Forall wf_rr (m_authorities m) /\ Forall wf_rr (m_additionals m).
Definition all_rrs (m : message) : list rr := m_answers m ++ m_authorities m ++ m_additionals m.

Definition qwire (q : question) : bytes :=
  wire_name (q_name q) ++ put_u16be (q_type q) ++ put_u16be (q_class q).
Definition rrwire (r : rr) : bytes :=
  wire_name (r_name r) ++ put_u16be (r_type r) ++ put_u16be (r_class r) ++ put_u32be (r_ttl r)
  ++ put_u16be (N.of_nat (length (r_data r))) ++ r_data r.
Definition hdrwire (m : message) : bytes :=
  put_u16be (m_id m) ++ put_u16be (flags_of m)
  ++ put_u16be (N.of_nat (length (m_questions m))) ++ put_u16be (N.of_nat (length (m_answers m)))
  ++ put_u16be (N.of_nat (length (m_authorities m))) ++ put_u16be (N.of_nat (length (m_additionals m))).
Definition msgwire (m : message) : bytes :=
  hdrwire m ++ flat_map qwire (m_questions m) ++ flat_map rrwire (all_rrs m).

Lemma pack_u16_ok n : (n < 65536)%N -> pack_u16 n = Ok (put_u16be n).
Proof. intros H. unfold pack_u16. apply N.ltb_lt in H. rewrite H. reflexivity. Qed.

Lemma pack_question_ok q : wf_q q -> pack_question q = Ok (qwire q).
Proof.
  intros (Hn & Ht & Hc). unfold pack_question, qwire.
  rewrite (pack_ok _ Hn), (pack_u16_ok _ Ht), (pack_u16_ok _ Hc). reflexivity.
Qed.

Lemma pack_rr_ok r : wf_rr r -> pack_rr r = Ok (rrwire r).
Proof.
  intros (Hn & Ht & Hc & Hl & Hd). unfold pack_rr, rrwire.
  rewrite (pack_ok _ Hn), (pack_u16_ok _ Ht), (pack_u16_ok _ Hc). cbn [bind].
  unfold pack_u32. apply N.ltb_lt in Hl. rewrite Hl. cbn [bind].
  rewrite pack_u16_ok by lia. reflexivity.
Qed.

Lemma pack_list_ok {A} (f : A -> result bytes) (w : A -> bytes) l :
  Forall (fun x => f x = Ok (w x)) l -> pack_list f l = Ok (flat_map w l).
Proof. induction 1 as [|x l Hx _ IH]; [reflexivity|]. cbn. rewrite Hx, IH. reflexivity. Qed.

Lemma packed_ok m : wf_msg m -> packed m = Ok (msgwire m).
Proof.
  intros (Hid & Hop & Hres & Hrc & Lq & La & Ln & Lx & Fq & Fa & Fn & Fx).
  unfold packed, pack_header, msgwire, hdrwire.
  destruct (65535 <? m_id m)%N eqn:E1; [apply N.ltb_lt in E1; lia|].
  destruct (15 <? m_op_code m)%N eqn:E2; [apply N.ltb_lt in E2; lia|].
  destruct (7 <? m_reserved m)%N eqn:E3; [apply N.ltb_lt in E3; lia|].
  destruct (15 <? m_rcode m)%N eqn:E4; [apply N.ltb_lt in E4; lia|].
  rewrite !pack_u16_ok by lia. cbn [bind].
  rewrite (pack_list_ok pack_question qwire).
  2:{ eapply Forall_impl; [|exact Fq]. intros q Hq. apply pack_question_ok, Hq. }
  rewrite (pack_list_ok pack_rr rrwire).
  2:{ eapply Forall_impl; [intros r Hr; apply pack_rr_ok, Hr|].
      unfold all_rrs. rewrite !Forall_app. auto. }
  cbn [bind]. rewrite <- !app_assoc. reflexivity.
Qed.

(* ---------- flags: field extraction from the packed flag word ---------- *)
Lemma extract (f hi x lo s w : N) : (s <> 0 -> w <> 0 -> f = hi * (s * w) + x * s + lo ->
  lo < s -> x < w -> (f / s) mod w = x)%N.
Proof.
  intros Hs Hw -> Hlo Hx.
  replace (hi * (s * w) + x * s + lo)%N with (lo + (x + hi * w) * s)%N by ring.
  rewrite N.div_add by exact Hs. rewrite (N.div_small lo s Hlo), N.add_0_l.
  rewrite N.mod_add by exact Hw. apply N.mod_small, Hx.
Qed.

Lemma flags_num q aa tc rd ra op res rc : (op < 16)%N -> (res < 8)%N -> (rc < 16)%N ->
  let f := (b2n (negb q) 32768 + op * 2048 + b2n aa 1024 + b2n tc 512 + b2n rd 256 + b2n ra 128
            + res * 16 + rc)%N in
  (f < 65536 /\ (f / 32768) mod 2 = b2n (negb q) 1 /\ (f / 2048) mod 16 = op
   /\ (f / 1024) mod 2 = b2n aa 1 /\ (f / 512) mod 2 = b2n tc 1 /\ (f / 256) mod 2 = b2n rd 1
   /\ (f / 128) mod 2 = b2n ra 1 /\ (f / 16) mod 8 = res /\ f mod 16 = rc)%N.
Proof.
  intros Hop Hres Hrc f. subst f.
  set (nq := negb q).
  repeat split.
  - destruct nq, aa, tc, rd, ra; cbn [b2n]; lia.
  - apply (extract _ 0 _ (op * 2048 + b2n aa 1024 + b2n tc 512 + b2n rd 256 + b2n ra 128 + res * 16 + rc) 32768 2);
      try lia; destruct nq, aa, tc, rd, ra; cbn [b2n]; lia.
  - apply (extract _ (b2n nq 1) _ (b2n aa 1024 + b2n tc 512 + b2n rd 256 + b2n ra 128 + res * 16 + rc) 2048 16);
      try lia; destruct nq, aa, tc, rd, ra; cbn [b2n]; lia.
  - apply (extract _ (b2n nq 16 + op) _ (b2n tc 512 + b2n rd 256 + b2n ra 128 + res * 16 + rc) 1024 2);
      try lia; destruct nq, aa, tc, rd, ra; cbn [b2n]; lia.
  - apply (extract _ (b2n nq 32 + op * 2 + b2n aa 1) _ (b2n rd 256 + b2n ra 128 + res * 16 + rc) 512 2);
      try lia; destruct nq, aa, tc, rd, ra; cbn [b2n]; lia.
  - apply (extract _ (b2n nq 64 + op * 4 + b2n aa 2 + b2n tc 1) _ (b2n ra 128 + res * 16 + rc) 256 2);
      try lia; destruct nq, aa, tc, rd, ra; cbn [b2n]; lia.
  - apply (extract _ (b2n nq 128 + op * 8 + b2n aa 4 + b2n tc 2 + b2n rd 1) _ (res * 16 + rc) 128 2);
      try lia; destruct nq, aa, tc, rd, ra; cbn [b2n]; lia.
  - apply (extract _ (b2n nq 256 + op * 16 + b2n aa 8 + b2n tc 4 + b2n rd 2 + b2n ra 1) _ rc 16 8);
      try lia; destruct nq, aa, tc, rd, ra; cbn [b2n]; lia.
  - rewrite <- (N.div_1_r (_ + rc)).
    apply (extract _ (b2n nq 2048 + op * 128 + b2n aa 64 + b2n tc 32 + b2n rd 16 + b2n ra 8 + res) _ 0 1 16);
      try lia; destruct nq, aa, tc, rd, ra; cbn [b2n]; lia.
Qed.

Lemma bit_b2n f k b : ((f / 2 ^ k) mod 2 = b2n b 1)%N -> bit f k = b.
Proof. intros H. unfold bit. rewrite H. destruct b; reflexivity. Qed.


Lemma flags_fields m : (m_op_code m < 16)%N -> (m_reserved m < 8)%N -> (m_rcode m < 16)%N ->
  (flags_of m < 65536)%N /\ negb (bit (flags_of m) 15) = m_query m
  /\ ((flags_of m / 2048) mod 16 = m_op_code m)%N
  /\ bit (flags_of m) 10 = m_aa m /\ bit (flags_of m) 9 = m_tc m /\ bit (flags_of m) 8 = m_rd m
  /\ bit (flags_of m) 7 = m_ra m
  /\ ((flags_of m / 16) mod 8 = m_reserved m)%N /\ (flags_of m mod 16 = m_rcode m)%N.
Proof.
  intros Hop Hres Hrc.
  destruct (flags_num (m_query m) (m_aa m) (m_tc m) (m_rd m) (m_ra m) _ _ _ Hop Hres Hrc)
    as (Fl & B15 & Fop & B10 & B9 & B8 & B7 & Fres & Frc).
  unfold flags_of. repeat split; try assumption.
  - rewrite (bit_b2n _ 15 (negb (m_query m))) by exact B15. apply negb_involutive.
  - apply (bit_b2n _ 10); exact B10.
  - apply (bit_b2n _ 9); exact B9.
  - apply (bit_b2n _ 8); exact B8.
  - apply (bit_b2n _ 7); exact B7.
Qed.

(* ---------- questions ---------- *)
Lemma unpack_questions_ok qs : Forall wf_q qs -> forall buf off rest c,
  skipn off buf = flat_map qwire qs ++ rest -> keys_lt c off ->
  exists c', unpack_questions (length qs) buf off c
             = Ok (qs, off + length (flat_map qwire qs), c')
             /\ keys_lt c' (off + length (flat_map qwire qs)).
Proof.
  induction 1 as [|q r (Hn & Ht & Hc) _ IH]; intros buf off rest c Hs Hk.
  - exists c. cbn. rewrite Nat.add_0_r. auto.
  - cbn [flat_map length unpack_questions] in *. unfold qwire in Hs at 1.
    rewrite <- !app_assoc in Hs.
    destruct (unpack_domain_name_at _ _ _ _ _ Hn Hk Hs) as (c1 & U & K1). rewrite U.
    apply skipn_advance in Hs. rewrite Hs. cbn [put_u16be app].
    set (off1 := off + length (wire_name (q_name q))) in *.
    assert (Hs2 : skipn (off1 + 4) buf = flat_map qwire r ++ rest).
    { change 4 with (length (put_u16be (q_type q) ++ put_u16be (q_class q))).
      apply skipn_advance. rewrite <- app_assoc. exact Hs. }
    destruct (IH buf (off1 + 4) rest c1 Hs2) as (c2 & U2 & K2).
    { intros k v Hin. specialize (K1 k v Hin). lia. }
    rewrite U2. exists c2. rewrite !u16be_put' by assumption.
    assert (L : off1 + 4 + length (flat_map qwire r) = off + length (qwire q ++ flat_map qwire r)).
    { unfold qwire. rewrite !app_length. cbn [put_u16be length]. unfold off1. lia. }
    rewrite <- L. split; [|exact K2]. destruct q; reflexivity.
Qed.

(* ---------- record data without pointer-like bytes is left alone ---------- *)
Lemma decompress_loop_noptr buf off L more c todo : no_ptr_byte todo = true ->
  forall fuel i d s, skipn (off + i) buf = todo ++ more -> i + length todo = L ->
  length todo < fuel ->
  decompress_loop fuel buf off (off + L) c d i s = (Ok d, c).
Proof.
  induction todo as [|b t IH]; intros Hp fuel i d s Hs Hl Hf;
    (destruct fuel as [|f]; [cbn in Hf; lia|]); cbn [decompress_loop].
  - cbn in Hl. replace (off + L - off) with L by lia.
    destruct (i <? L) eqn:E; [apply Nat.ltb_lt in E; lia|reflexivity].
  - cbn [length] in Hl, Hf. replace (off + L - off) with L by lia.
    destruct (i <? L) eqn:E; [|apply Nat.ltb_ge in E; lia].
    unfold byte_at. rewrite Hs. cbn [app].
    cbn [no_ptr_byte forallb] in Hp. apply andb_true_iff in Hp as [Hb Ht].
    apply negb_true_iff in Hb. rewrite Hb.
    apply IH; [exact Ht| |lia|lia].
    rewrite Nat.add_assoc. change 1 with (length [b]). apply skipn_advance. exact Hs.
Qed.

Lemma decompress_noptr buf off data more c : no_ptr_byte data = true ->
  skipn off buf = data ++ more -> off + length data <= length buf ->
  decompress_from_record_data buf off (off + length data) c = (Ok data, c).
Proof.
  intros Hp Hs Hl. unfold decompress_from_record_data.
  replace (off + length data - off) with (length data) by lia.
  rewrite Hs, firstn_exact by reflexivity.
  apply (decompress_loop_noptr buf off (length data) more c data Hp); [|reflexivity|lia].
  rewrite Nat.add_0_r. exact Hs.
Qed.

(* ---------- resource records ---------- *)
Lemma unpack_rrs_ok rs : Forall wf_rr rs -> Forall rdata_guard rs -> forall buf off rest c,
  skipn off buf = flat_map rrwire rs ++ rest -> keys_lt c off ->
  exists c', unpack_rrs (length rs) buf off c
             = Ok (rs, off + length (flat_map rrwire rs), c')
             /\ keys_lt c' (off + length (flat_map rrwire rs)).
Proof.
  induction 1 as [|r rs (Hn & Ht & Hc & Hl & Hd) _ IH]; intros G buf off rest c Hs Hk.
  - exists c. cbn. rewrite Nat.add_0_r. auto.
  - apply Forall_cons_iff in G as [Gr G].
    cbn [flat_map length unpack_rrs] in *. unfold rrwire in Hs at 1.
    rewrite <- !app_assoc in Hs.
    destruct (unpack_domain_name_at _ _ _ _ _ Hn Hk Hs) as (c1 & U & K1). rewrite U.
    apply skipn_advance in Hs.
    set (off1 := off + length (wire_name (r_name r))) in *.
    pose proof Hs as Hs1. rewrite Hs. cbn [put_u16be put_u32be app].
    rewrite (u16be_put' (N.of_nat (length (r_data r)))) by lia. rewrite Nnat.Nat2N.id.
    rewrite (u16be_put' _ Ht).
    assert (Hs2 : skipn (off1 + 10) buf = r_data r ++ flat_map rrwire rs ++ rest).
    { change 10 with (length (put_u16be (r_type r) ++ put_u16be (r_class r) ++ put_u32be (r_ttl r)
                                ++ put_u16be (N.of_nat (length (r_data r))))).
      apply skipn_advance. rewrite <- !app_assoc. exact Hs1. }
    assert (Hle : off1 + 10 + length (r_data r) <= length buf).
    { apply skipn_le in Hs1; [|cbn; discriminate].
      rewrite !app_length in Hs1. cbn [put_u16be put_u32be length] in Hs1. lia. }
    destruct (length buf <? off1 + 10 + length (r_data r)) eqn:E; [apply Nat.ltb_lt in E; lia|].
    assert (D : (if record_data_can_have_compression (r_type r)
                 then decompress_from_record_data buf (off1 + 10) (off1 + 10 + length (r_data r)) c1
                 else (Ok (firstn (length (r_data r)) (skipn (off1 + 10) buf)), c1))
                = (Ok (r_data r), c1)).
    { destruct (record_data_can_have_compression (r_type r)) eqn:Ec.
      - apply (decompress_noptr _ _ _ _ _ (Gr Ec) Hs2 Hle).
      - rewrite Hs2, firstn_exact by reflexivity. reflexivity. }
    rewrite D.
    assert (Hs3 : skipn (off1 + 10 + length (r_data r)) buf = flat_map rrwire rs ++ rest)
      by (apply skipn_advance; exact Hs2).
    destruct (IH G buf _ rest c1 Hs3) as (c2 & U2 & K2).
    { intros k v Hin. specialize (K1 k v Hin). lia. }
    rewrite U2. exists c2. rewrite (u16be_put' _ Hc), (u32be_put' _ Hl).
    assert (L : off1 + 10 + length (r_data r) + length (flat_map rrwire rs)
                = off + length (rrwire r ++ flat_map rrwire rs)).
    { unfold rrwire. rewrite !app_length. cbn [put_u16be put_u32be length]. unfold off1. lia. }
    rewrite <- L. split; [|exact K2]. destruct r; reflexivity.
Qed.

(* ---------- the message ---------- *)
Theorem message_roundtrip m : wf_msg m -> Forall rdata_guard (all_rrs m) ->
  packed m = Ok (msgwire m) /\ DnsMessage.unpack (msgwire m) = Ok m.
Proof.
  intros Hwf G. split; [apply packed_ok, Hwf|].
  destruct Hwf as (Hid & Hop & Hres & Hrc & Lq & La & Ln & Lx & Fq & Fa & Fn & Fx).
  unfold all_rrs in G. rewrite !Forall_app in G. destruct G as (Ga & Gn & Gx).
  destruct (flags_fields m Hop Hres Hrc) as (Fl & B15 & Fop & B10 & B9 & B8 & B7 & Fres & Frc).
  unfold DnsMessage.unpack, DnsMessage.unpack_from, msgwire, hdrwire, all_rrs.
  cbn [skipn put_u16be app].
  rewrite !u16be_put' by lia. rewrite !Nnat.Nat2N.id.
  set (buf := _ :: _).
  assert (S0 : skipn (0 + 12) buf = flat_map qwire (m_questions m)
                 ++ flat_map rrwire (m_answers m) ++ flat_map rrwire (m_authorities m)
                 ++ flat_map rrwire (m_additionals m) ++ []).
  { unfold buf. cbn [skipn Nat.add]. rewrite !flat_map_app, app_nil_r. reflexivity. }
  destruct (unpack_questions_ok _ Fq buf (0 + 12) _ [] S0) as (c1 & U1 & K1);
    [intros k v []|]. rewrite U1.
  apply skipn_advance in S0.
  destruct (unpack_rrs_ok _ Fa Ga buf _ _ c1 S0 K1) as (c2 & U2 & K2). rewrite U2.
  apply skipn_advance in S0.
  destruct (unpack_rrs_ok _ Fn Gn buf _ _ c2 S0 K2) as (c3 & U3 & K3). rewrite U3.
  apply skipn_advance in S0.
  destruct (unpack_rrs_ok _ Fx Gx buf _ _ c3 S0 K3) as (c4 & U4 & K4). rewrite U4.
  apply skipn_advance in S0.
  assert (Hlen : 0 + 12 + length (flat_map qwire (m_questions m))
                 + length (flat_map rrwire (m_answers m)) + length (flat_map rrwire (m_authorities m))
                 + length (flat_map rrwire (m_additionals m)) = length buf).
  { pose proof (skipn_length (0 + 12 + length (flat_map qwire (m_questions m))
                 + length (flat_map rrwire (m_answers m)) + length (flat_map rrwire (m_authorities m))
                 + length (flat_map rrwire (m_additionals m))) buf) as SL.
    rewrite S0 in SL. cbn [length] in SL.
    assert (12 <= length buf) by (unfold buf; cbn [length]; lia).
    unfold buf in *. cbn [length] in *. rewrite !flat_map_app, !app_length in *. lia. }
  rewrite Hlen, Nat.eqb_refl. rewrite B15, Fop, B10, B9, B8, B7, Fres, Frc.
  destruct m; reflexivity.
Qed.
