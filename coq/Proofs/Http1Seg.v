(* Proofs/Http1Seg.v -- segmentation independence of the HTTP/1 connection model (Model/Http1Seg.v, repaired tree:
   blank_loop = true), for every choice of the message-level parameter functions.
   1. cache irrelevance: step / run give the same result on buffers with the same data (buf_inv);
   2. termination: fuel_for is always enough (measure 2 * len(buf) + [state = read_body]);
   3. one step against appended data (M), then by induction on the measure: feeding a then x equals feeding a ++ x
      up to merging adjacent data events (flat) and up to the contents of the buffer of a closed connection. *)
From Coq Require Import List Bool NArith ZArith Arith Lia.
From MV Require Import Base.Bytes Model.Http1Seg Proofs.Http1SegBuf.
Import ListNotations.

Section P.
Variables Req Resp : Type.
Variable server_head : list bytes -> head_result Req.
Variable client_head : Req -> list bytes -> head_result Resp.
Variable is_connect : Req -> bool.
Variable after : role -> Req -> Resp -> after_done.
Variable trailer : list bytes -> trailer_result.

Notation conn := (Http1Seg.conn Req Resp).
Notation sres := (Http1Seg.sres Req Resp).
Notation rres := (Http1Seg.rres Req Resp).
Notation out := (Http1Seg.out Req Resp).
Notation make_pipe := (Http1Seg.make_pipe Req Resp).
Notation mark_done := (Http1Seg.mark_done Req Resp after).
Notation end_of_message := (Http1Seg.end_of_message Req Resp is_connect after).
Notation protocol_error := (Http1Seg.protocol_error Req Resp).
Notation crash := (Http1Seg.crash Req Resp).
Notation read_body := (Http1Seg.read_body Req Resp is_connect after trailer).
Notation read_headers := (Http1Seg.read_headers Req Resp server_head client_head true).
Notation step := (Http1Seg.step Req Resp server_head client_head is_connect after trailer true).
Notation run := (Http1Seg.run Req Resp server_head client_head is_connect after trailer true).
Notation handle_data := (Http1Seg.handle_data Req Resp server_head client_head is_connect after trailer true).
Notation sid_of := (Http1Seg.sid_of Req Resp).
Notation set_state := (Http1Seg.set_state Req Resp).
Notation set_reader := (Http1Seg.set_reader Req Resp).
Notation set_closed := (Http1Seg.set_closed Req Resp).

(* ---------------------------------------------------------------- observations *)
Inductive atom := AByte (sid : N) (b : byte) | AOther (o : out).

Definition flat1 (o : out) : list atom :=
  match o with
  | OData sid d => map (AByte sid) d
  | _ => [AOther o]
  end.
(* the output stream with adjacent data events of a stream merged: data as single bytes *)
Definition flat (l : list out) : list atom := flat_map flat1 l.

Lemma flat_app l1 l2 : flat (l1 ++ l2) = flat l1 ++ flat l2.
Proof. apply flat_map_app. Qed.

Lemma flat_data_app sid a b : flat [OData sid (a ++ b)] = flat [OData sid a; OData sid b].
Proof. simpl. rewrite map_app, !app_nil_r. reflexivity. Qed.

Definition beq (b1 b2 : rbuf) : Prop := b_data b1 = b_data b2.

Definition triple := (conn * rbuf * list out)%type.
Definition pre (o : list out) (t : triple) : triple := let '(c, b, o') := t in (c, b, o ++ o').

(* same end: the same connection object and buffered data, or both connections closed by the proxy *)
Definition fin_rel (c1 : conn) (b1 : rbuf) (c2 : conn) (b2 : rbuf) : Prop :=
  (c_closed c1 = true /\ c_closed c2 = true) \/ (c1 = c2 /\ beq b1 b2).

Definition tr_rel (t1 t2 : triple) : Prop :=
  let '(c1, b1, o1) := t1 in let '(c2, b2, o2) := t2 in fin_rel c1 b1 c2 b2 /\ flat o1 = flat o2.

Lemma tr_rel_refl t : tr_rel t t.
Proof. destruct t as [[c b] o]. split; [right; split; reflexivity|reflexivity]. Qed.

Lemma tr_rel_trans t1 t2 t3 : tr_rel t1 t2 -> tr_rel t2 t3 -> tr_rel t1 t3.
Proof.
  destruct t1 as [[c1 b1] o1], t2 as [[c2 b2] o2], t3 as [[c3 b3] o3]. unfold tr_rel, fin_rel, beq.
  intros [[[A B]|[A B]] E1] [[[C D]|[C D]] E2]; (split; [|congruence]); subst; auto.
  right. split; congruence.
Qed.

Lemma tr_rel_pre o t1 t2 : tr_rel t1 t2 -> tr_rel (pre o t1) (pre o t2).
Proof.
  destruct t1 as [[c1 b1] o1], t2 as [[c2 b2] o2]. unfold tr_rel, pre. intros [A B]. split; [exact A|].
  rewrite !flat_app. congruence.
Qed.

Lemma pre_pre o1 o2 t : pre o1 (pre o2 t) = pre (o1 ++ o2) t.
Proof. destruct t as [[c b] o]. simpl. rewrite app_assoc. reflexivity. Qed.

Lemma pre_nil t : pre [] t = t.
Proof. destruct t as [[c b] o]. reflexivity. Qed.

(* ---------------------------------------------------------------- cache irrelevance *)
Ltac fin5 := split; [reflexivity|split; [reflexivity|split; [try reflexivity; try (unfold beq; simpl; congruence)|split; auto using buf_inv_zero]]].

Inductive sres_eq : sres -> sres -> Prop :=
| SE_go c b1 b2 o : beq b1 b2 -> buf_inv b1 -> buf_inv b2 -> sres_eq (Go c b1 o) (Go c b2 o)
| SE_stop c b1 b2 o : beq b1 b2 -> buf_inv b1 -> buf_inv b2 -> sres_eq (Stop c b1 o) (Stop c b2 o).

Lemma at_most_cong b1 b2 n : beq b1 b2 -> buf_inv b1 -> buf_inv b2 ->
  exists r b1' b2', maybe_extract_at_most b1 n = (r, b1') /\ maybe_extract_at_most b2 n = (r, b2') /\
                    beq b1' b2' /\ buf_inv b1' /\ buf_inv b2'.
Proof.
  intros E I1 I2. unfold maybe_extract_at_most. rewrite <- E.
  destruct (splitN (b_data b1) n) as [[|a o] r].
  - exists None, b1, b2. fin5.
  - exists (Some (a :: o)), (mkBuf r 0 0), (mkBuf r 0 0). fin5.
Qed.

Lemma next_line_cong b1 b2 : beq b1 b2 -> buf_inv b1 -> buf_inv b2 ->
  exists r b1' b2', maybe_extract_next_line b1 = (r, b1') /\ maybe_extract_next_line b2 = (r, b2') /\
                    beq b1' b2' /\ buf_inv b1' /\ buf_inv b2'.
Proof.
  intros E I1 I2. pose proof (next_line_inv _ I1) as J1. pose proof (next_line_inv _ I2) as J2.
  rewrite (next_line_spec _ I1) in *. rewrite (next_line_spec _ I2) in *. rewrite <- E in *.
  destruct (find_crlf (b_data b1)); eexists _, _, _; fin5.
Qed.

Lemma lines_cong b1 b2 : beq b1 b2 -> buf_inv b1 -> buf_inv b2 ->
  exists r b1' b2', maybe_extract_lines b1 = (r, b1') /\ maybe_extract_lines b2 = (r, b2') /\
                    beq b1' b2' /\ buf_inv b1' /\ buf_inv b2'.
Proof.
  intros E I1 I2. pose proof (lines_inv _ I1) as J1. pose proof (lines_inv _ I2) as J2.
  rewrite (lines_spec _ I1) in *. rewrite (lines_spec _ I2) in *. cbv zeta in *. rewrite <- E in *.
  destruct (starts_with [LF] (b_data b1)); [eexists _, _, _; fin5|].
  destruct (starts_with CRLF (b_data b1)); [eexists _, _, _; fin5|].
  destruct (blank_search (b_data b1)); eexists _, _, _; fin5.
Qed.

Lemma buf_bool_beq b1 b2 : beq b1 b2 -> buf_bool b1 = buf_bool b2.
Proof. unfold beq, buf_bool. intros ->. reflexivity. Qed.

Lemma make_pipe_cong c b1 b2 : beq b1 b2 -> buf_inv b1 -> buf_inv b2 -> sres_eq (make_pipe c b1) (make_pipe c b2).
Proof.
  intros E I1 I2. unfold Http1Seg.make_pipe. rewrite (buf_bool_beq _ _ E).
  destruct (buf_bool b2); [|constructor; auto].
  rewrite E. destruct (at_most_cong b1 b2 (N.of_nat (length (b_data b2))) E I1 I2) as (r & b1' & b2' & E1 & E2 & Hb & J1 & J2).
  rewrite E1, E2. destruct (lstrip_crlf match r with Some d => d | None => [] end); constructor; auto.
Qed.

Lemma mark_done_cong c b1 b2 rq rs : beq b1 b2 -> buf_inv b1 -> buf_inv b2 ->
  sres_eq (mark_done c b1 rq rs) (mark_done c b2 rq rs).
Proof.
  intros E I1 I2. unfold Http1Seg.mark_done. cbv zeta.
  match goal with |- context [if ?X then _ else _] => destruct X end.
  - match goal with |- context [c_request ?X] => destruct (c_request X); [|constructor; auto] end.
    match goal with |- context [c_response ?X] => destruct (c_response X); [|constructor; auto] end.
    match goal with |- context [after ?A ?B ?C] => destruct (after A B C) end.
    + apply make_pipe_cong; auto.
    + constructor; auto.
    + rewrite (buf_bool_beq _ _ E). destruct (buf_bool b2); constructor; auto.
  - match goal with |- context [c_role ?X] => destruct (c_role X) end.
    + match goal with |- context [if ?X then _ else _] => destruct X end; constructor; auto.
    + match goal with |- context [if ?X then _ else _] => destruct X end; constructor; auto.
Qed.

Lemma eom_cong c b1 b2 : beq b1 b2 -> buf_inv b1 -> buf_inv b2 -> sres_eq (end_of_message c b1) (end_of_message c b2).
Proof.
  intros E I1 I2. unfold Http1Seg.end_of_message. destruct (c_request c); [|constructor; auto].
  match goal with |- context [mark_done ?C b1 ?A ?B] => pose proof (mark_done_cong C b1 b2 A B E I1 I2) as H end.
  inversion H; constructor; auto.
Qed.

Ltac use_cong L b1 b2 E I1 I2 :=
  let r := fresh "r" in let b1' := fresh "b1'" in let b2' := fresh "b2'" in
  let E1 := fresh "E1" in let E2 := fresh "E2" in let Hb := fresh "Hb" in let J1 := fresh "J1" in let J2 := fresh "J2" in
  destruct (L b1 b2 E I1 I2) as (r & b1' & b2' & E1 & E2 & Hb & J1 & J2); rewrite E1, E2; clear E1 E2.

Lemma read_body_cong c b1 b2 : beq b1 b2 -> buf_inv b1 -> buf_inv b2 -> sres_eq (read_body c b1) (read_body c b2).
Proof.
  intros E I1 I2. unfold Http1Seg.read_body, Http1Seg.protocol_error, Http1Seg.crash.
  destruct (c_reader c) as [rem|inc td tr|].
  - destruct (N.eqb rem 0); [apply eom_cong; auto|].
    destruct (at_most_cong b1 b2 rem E I1 I2) as (r & b1' & b2' & E1 & E2 & Hb & J1 & J2). rewrite E1, E2.
    destruct r; constructor; auto.
  - destruct tr.
    + use_cong lines_cong b1 b2 E I1 I2. destruct r as [[|l ls]|]; [apply eom_cong; auto| |constructor; auto].
      destruct (trailer (l :: ls)); constructor; auto.
    + destruct td as [|t0 td'].
      * destruct (N.eqb inc 0).
        -- use_cong next_line_cong b1 b2 E I1 I2. destruct r as [line|]; [|constructor; auto].
           destruct (parse_chunk_header line); constructor; auto.
        -- destruct (at_most_cong b1 b2 inc E I1 I2) as (r & b1' & b2' & E1 & E2 & Hb & J1 & J2). rewrite E1, E2.
           destruct r; constructor; auto.
      * destruct (at_most_cong b1 b2 (N.of_nat (length (t0 :: td'))) E I1 I2) as (r & b1' & b2' & E1 & E2 & Hb & J1 & J2).
        rewrite E1, E2. destruct r as [d|]; [|constructor; auto].
        destruct (negb (is_prefix d (t0 :: td'))); [constructor; auto|].
        destruct (skipn (length d) (t0 :: td')); constructor; auto.
  - destruct (at_most_cong b1 b2 HTTP10_MAX E I1 I2) as (r & b1' & b2' & E1 & E2 & Hb & J1 & J2). rewrite E1, E2.
    destruct r; constructor; auto.
Qed.

Lemma read_headers_cong c b1 b2 : beq b1 b2 -> buf_inv b1 -> buf_inv b2 -> sres_eq (read_headers c b1) (read_headers c b2).
Proof.
  intros E I1 I2. unfold Http1Seg.read_headers, Http1Seg.crash. destruct (c_role c).
  - use_cong lines_cong b1 b2 E I1 I2. destruct r as [[|l ls]|]; try (constructor; auto).
    destruct (server_head (l :: ls)); constructor; auto.
  - destruct (c_request c); [|constructor; auto].
    use_cong lines_cong b1 b2 E I1 I2. destruct r0 as [[|l ls]|]; try (constructor; auto).
    destruct (client_head r (l :: ls)); constructor; auto.
Qed.

Lemma step_cong c b1 b2 : beq b1 b2 -> buf_inv b1 -> buf_inv b2 -> sres_eq (step c b1) (step c b2).
Proof.
  intros E I1 I2. unfold Http1Seg.step. destruct (c_state c);
    [apply read_headers_cong|apply read_body_cong|constructor|constructor|constructor]; auto.
Qed.

Lemma step_inv c b : buf_inv b ->
  match step c b with Go _ b' _ => buf_inv b' | Stop _ b' _ => buf_inv b' end.
Proof.
  intros I. pose proof (step_cong c b b eq_refl I I) as H. inversion H; auto.
Qed.

Definition rres_eq (r1 r2 : rres) : Prop :=
  match r1, r2 with
  | Finished c1 b1 o1, Finished c2 b2 o2 => c1 = c2 /\ o1 = o2 /\ beq b1 b2 /\ buf_inv b1 /\ buf_inv b2
  | OutOfFuel, OutOfFuel => True
  | _, _ => False
  end.

Lemma run_cong : forall f c b1 b2, beq b1 b2 -> buf_inv b1 -> buf_inv b2 -> rres_eq (run f c b1) (run f c b2).
Proof.
  induction f as [|f IH]; intros c b1 b2 E I1 I2; simpl; [exact I|].
  pose proof (step_cong c b1 b2 E I1 I2) as H. inversion H as [c' b1' b2' o Hb J1 J2|c' b1' b2' o Hb J1 J2]; simpl; auto.
  specialize (IH c' b1' b2' Hb J1 J2). unfold rres_eq in IH.
  destruct (run f c' b1'), (run f c' b2'); try contradiction; auto.
  destruct IH as (-> & -> & ? & ? & ?). simpl. auto.
Qed.

(* ---------------------------------------------------------------- termination *)
Definition mu (c : conn) (b : rbuf) : nat :=
  2 * length (b_data b) + match c_state c with ReadBody => 1 | _ => 0 end.

Lemma at_most_shrinks b n d b' : maybe_extract_at_most b n = (Some d, b') -> length (b_data b') < length (b_data b).
Proof.
  unfold maybe_extract_at_most. destruct (splitN (b_data b) n) as [[|a o] r] eqn:E; [discriminate|].
  intros H; inversion H; subst. apply splitN_concat in E. rewrite <- E. simpl. rewrite app_length. lia.
Qed.

Lemma next_line_shrinks b l b' : buf_inv b -> maybe_extract_next_line b = (Some l, b') ->
  length (b_data b') + 2 <= length (b_data b).
Proof.
  intros I. rewrite (next_line_spec _ I). destruct (find_crlf (b_data b)) eqn:E; [|discriminate].
  intros H; inversion H; subst. simpl. apply find_crlf_bound in E. rewrite skipn_length. lia.
Qed.

Lemma starts_with_nonempty p d : p <> [] -> starts_with p d = true -> length p <= length d.
Proof.
  revert d; induction p as [|a p IH]; intros d Hp H; [congruence|].
  destruct d as [|y d]; [discriminate|]. simpl in *. apply andb_true_iff in H. destruct H as [_ H].
  destruct p; [simpl; lia|]. specialize (IH d). simpl in *. assert (S (length p) <= length d) by (apply IH; [discriminate|exact H]). lia.
Qed.

Lemma lines_shrinks b ls b' : buf_inv b -> maybe_extract_lines b = (Some ls, b') ->
  length (b_data b') + 1 <= length (b_data b).
Proof.
  intros I. rewrite (lines_spec _ I). cbv zeta.
  destruct (starts_with [LF] (b_data b)) eqn:E1.
  { intros H; apply (f_equal snd) in H; cbn [snd] in H; subst b'. cbn [b_data]. apply starts_with_nonempty in E1; [|discriminate]. rewrite skipn_length. simpl in E1. lia. }
  destruct (starts_with CRLF (b_data b)) eqn:E2.
  { intros H; apply (f_equal snd) in H; cbn [snd] in H; subst b'. cbn [b_data]. apply starts_with_nonempty in E2; [|discriminate]. rewrite skipn_length. simpl in E2. lia. }
  destruct (blank_search (b_data b)) eqn:E3; [|discriminate].
  intros H; apply (f_equal snd) in H; cbn [snd] in H; subst b'. cbn [b_data]. apply blank_search_bound in E3. rewrite skipn_length. lia.
Qed.

Ltac dmatch H := match type of H with context [match ?X with _ => _ end] => destruct X eqn:? end.
Ltac dmatches H := repeat (first [discriminate | dmatch H]).

Lemma make_pipe_stop c b : exists c' b' o, make_pipe c b = Stop c' b' o.
Proof.
  unfold Http1Seg.make_pipe. destruct (buf_bool b); [|eauto].
  destruct (maybe_extract_at_most b (N.of_nat (length (b_data b)))) as [r b'].
  destruct (lstrip_crlf match r with Some d => d | None => [] end); eauto.
Qed.

Lemma mark_done_go c b rq rs c' b' o : mark_done c b rq rs = Go c' b' o ->
  b' = b /\ c_state c' = ReadHeaders /\ c_closed c' = c_closed c /\ o = [] /\ buf_bool b = true.
Proof.
  unfold Http1Seg.mark_done. cbv zeta. intros H.
  match type of H with context [if ?X then _ else _] => destruct X end.
  - match type of H with context [c_request ?X] => destruct (c_request X); [|discriminate] end.
    match type of H with context [c_response ?X] => destruct (c_response X); [|discriminate] end.
    match type of H with context [after ?A ?B ?C] => destruct (after A B C) end.
    + destruct (make_pipe_stop (Http1Seg.set_done_flags Req Resp c (c_request_done c || rq) (c_response_done c || rs)) b)
        as (? & ? & ? & E). rewrite E in H. discriminate.
    + discriminate.
    + destruct (buf_bool b) eqn:Eb; [|discriminate]. inversion H; subst. simpl. auto.
  - dmatches H.
Qed.

Lemma eom_go c b c' b' o : end_of_message c b = Go c' b' o ->
  b' = b /\ c_state c' = ReadHeaders /\ c_closed c' = c_closed c /\ buf_bool b = true.
Proof.
  unfold Http1Seg.end_of_message. intros H. destruct (c_request c); [|discriminate].
  match type of H with context [mark_done ?C b ?A ?B] => destruct (mark_done C b A B) eqn:E end; [|discriminate].
  inversion H; subst. apply mark_done_go in E. tauto.
Qed.

Lemma read_body_go c b c' b' o : buf_inv b -> c_state c = ReadBody -> read_body c b = Go c' b' o ->
  mu c' b' < mu c b /\ c_closed c' = c_closed c /\ c_state c' <> Passthrough.
Proof.
  intros I S H. unfold mu. rewrite S. unfold Http1Seg.read_body, Http1Seg.protocol_error, Http1Seg.crash in H.
  dmatches H;
    repeat match goal with
           | E : maybe_extract_at_most _ _ = (Some _, _) |- _ => apply at_most_shrinks in E
           | E : maybe_extract_next_line _ = (Some _, _) |- _ => apply (next_line_shrinks _ _ _ I) in E
           | E : maybe_extract_lines _ = (Some _, _) |- _ => apply (lines_shrinks _ _ _ I) in E
           end;
    first [ apply eom_go in H; destruct H as (Hb & Hs & Hc & _); subst b'; rewrite Hs, Hc; simpl
          | inversion H; subst; clear H; simpl; rewrite ?S ];
    (repeat split; try lia; try congruence; try discriminate).
Qed.

Lemma read_headers_go c b c' b' o : buf_inv b -> c_state c = ReadHeaders -> read_headers c b = Go c' b' o ->
  mu c' b' < mu c b /\ c_closed c' = c_closed c /\ c_state c' <> Passthrough.
Proof.
  intros I S H. unfold mu. rewrite S. unfold Http1Seg.read_headers, Http1Seg.crash in H.
  dmatches H; inversion H; subst; clear H; simpl; rewrite ?S;
    repeat match goal with
           | E : maybe_extract_lines _ = (Some _, _) |- _ => apply (lines_shrinks _ _ _ I) in E
           end; (repeat split; try lia; try congruence; try discriminate).
Qed.

Lemma step_go c b c' b' o : buf_inv b -> step c b = Go c' b' o ->
  mu c' b' < mu c b /\ c_closed c' = c_closed c /\ c_state c' <> Passthrough.
Proof.
  intros I H. unfold Http1Seg.step in H. destruct (c_state c) eqn:S; try discriminate.
  - eapply read_headers_go; eauto.
  - eapply read_body_go; eauto.
Qed.

Lemma run_total : forall f c b, buf_inv b -> mu c b < f -> exists c' b' o, run f c b = Finished c' b' o.
Proof.
  induction f as [|f IH]; intros c b I Hm; [lia|]. simpl.
  pose proof (step_inv c b I) as J. destruct (step c b) as [c' b' o|c' b' o] eqn:E; [|eauto].
  destruct (step_go _ _ _ _ _ I E) as (Hlt & _ & _).
  destruct (IH c' b' J) as (c'' & b'' & o' & E2); [lia|]. rewrite E2. eauto.
Qed.

Lemma run_mono : forall f c b c' b' o, run f c b = Finished c' b' o -> forall k, run (f + k) c b = Finished c' b' o.
Proof.
  induction f as [|f IH]; intros c b c' b' o H k; [discriminate|]. simpl in *.
  destruct (step c b) as [c1 b1 o1|c1 b1 o1]; [|exact H].
  destruct (run f c1 b1) as [c2 b2 o2|] eqn:E; [|discriminate]. rewrite (IH _ _ _ _ _ E k). exact H.
Qed.

(* the result of running to the end, as a total function *)
Definition ev (c : conn) (b : rbuf) : triple :=
  match run (fuel_for b) c b with Finished c' b' o => (c', b', o) | OutOfFuel => (c, b, []) end.

Lemma fuel_enough c b : mu c b < fuel_for b.
Proof. unfold mu, fuel_for. destruct (c_state c); lia. Qed.

Lemma ev_run c b : buf_inv b -> forall f, mu c b < f -> run f c b = let '(c', b', o) := ev c b in Finished c' b' o.
Proof.
  intros I f Hf. unfold ev. destruct (run_total (fuel_for b) c b I (fuel_enough c b)) as (c1 & b1 & o1 & E1).
  rewrite E1. destruct (run_total f c b I Hf) as (c2 & b2 & o2 & E2). rewrite E2.
  pose proof (run_mono _ _ _ _ _ _ E1 f) as M1. pose proof (run_mono _ _ _ _ _ _ E2 (fuel_for b)) as M2.
  rewrite Nat.add_comm in M2. congruence.
Qed.

(* ev after a first activation with result r *)
Definition evK (r : sres) : triple :=
  match r with Go c b o => pre o (ev c b) | Stop c b o => (c, b, o) end.

Lemma ev_step c b : buf_inv b -> ev c b = evK (step c b).
Proof.
  intros I. pose proof (ev_run c b I (S (mu c b)) (Nat.lt_succ_diag_r _)) as H. simpl in H.
  pose proof (step_inv c b I) as J.
  destruct (step c b) as [c' b' o|c' b' o] eqn:E; simpl.
  - destruct (step_go _ _ _ _ _ I E) as (Hlt & _ & _).
    rewrite (ev_run c' b' J (mu c b)) in H by exact Hlt.
    destruct (ev c' b') as [[c1 b1] o1]. destruct (ev c b) as [[c2 b2] o2]. inversion H; subst. reflexivity.
  - destruct (ev c b) as [[c2 b2] o2]. inversion H; subst. reflexivity.
Qed.

Lemma ev_inv c b : buf_inv b -> let '(_, b', _) := ev c b in buf_inv b'.
Proof.
  intros I. unfold ev. pose proof (run_cong (fuel_for b) c b b eq_refl I I) as H. unfold rres_eq in H.
  destruct (run (fuel_for b) c b); [tauto|exact I].
Qed.

Lemma ev_cong c b1 b2 : beq b1 b2 -> buf_inv b1 -> buf_inv b2 -> tr_rel (ev c b1) (ev c b2).
Proof.
  intros E I1 I2. unfold ev. assert (F : fuel_for b1 = fuel_for b2) by (unfold fuel_for; rewrite E; reflexivity).
  rewrite F. pose proof (run_cong (fuel_for b2) c b1 b2 E I1 I2) as H. unfold rres_eq in H.
  destruct (run (fuel_for b2) c b1), (run (fuel_for b2) c b2); try contradiction.
  - destruct H as (-> & -> & Hb & _). split; [right; split; auto|reflexivity].
  - split; [right; split; auto|reflexivity].
Qed.

Lemma handle_data_ev c b d : buf_inv b ->
  handle_data c b d =
  let '(c', b', o) := (if c_closed c then (c, b, [])
                       else match c_state c with Passthrough => (c, b, [OData (sid_of c) d]) | _ => ev c (buf_add b d) end)
  in Finished c' b' o.
Proof.
  intros I. unfold Http1Seg.handle_data. destruct (c_closed c); [reflexivity|].
  pose proof (buf_inv_add b d I) as J.
  destruct (c_state c); try reflexivity; apply (ev_run c _ J); apply fuel_enough.
Qed.

(* ---------------------------------------------------------------- one activation against appended data *)
(* what the connection does with a further segment x after an activation that returned (Stop) *)
Definition hd (c : conn) (b : rbuf) (x : bytes) : triple :=
  if c_closed c then (c, b, [])
  else match c_state c with Passthrough => (c, b, [OData (sid_of c) x]) | _ => ev c (buf_add b x) end.

Definition K (r : sres) (x : bytes) : triple :=
  match r with Go c b o => pre o (ev c (buf_add b x)) | Stop c b o => pre o (hd c b x) end.

(* the one place where the code itself depends on the cut (finding): bytes following a switch to passthrough are
   lstripped only if already buffered *)
Definition ok_stop (c : conn) (x : bytes) : Prop :=
  c_state c = Passthrough -> lstrip_crlf x = x.
Definition guard (r : sres) (x : bytes) : Prop :=
  match r with Stop c _ _ => ok_stop c x | Go _ _ _ => True end.

Definition pre_s (o : list out) (r : sres) : sres :=
  match r with Go c b o' => Go c b (o ++ o') | Stop c b o' => Stop c b (o ++ o') end.

Lemma evK_pre_s o r : evK (pre_s o r) = pre o (evK r).
Proof. destruct r; simpl; [rewrite pre_pre|]; reflexivity. Qed.
Lemma K_pre_s o r x : K (pre_s o r) x = pre o (K r x).
Proof. destruct r; simpl; rewrite pre_pre; reflexivity. Qed.
Lemma guard_pre_s o r x : guard (pre_s o r) x = guard r x.
Proof. destruct r; reflexivity. Qed.

Lemma closed_pattern c' b bx o x : c_closed c' = true -> tr_rel (evK (Stop c' bx o)) (K (Stop c' b o) x).
Proof.
  intros H. simpl. unfold hd. rewrite H. simpl. rewrite app_nil_r. split; [left; auto|reflexivity].
Qed.

Lemma retry_pattern c b b0 x : buf_inv b -> buf_inv b0 -> beq b0 b -> c_closed c = false -> c_state c <> Passthrough ->
  tr_rel (ev c (buf_add b x)) (K (Stop c b0 []) x).
Proof.
  intros I I0 E Hc Hs. simpl. unfold hd. rewrite Hc. rewrite pre_nil.
  assert (T : tr_rel (ev c (buf_add b x)) (ev c (buf_add b0 x))).
  { apply ev_cong; auto using buf_inv_add. unfold beq in *. simpl. congruence. }
  destruct (c_state c); try exact T. congruence.
Qed.

Lemma quiet_pattern c' b bx o x : c_closed c' = false -> c_state c' = Wait -> bx = buf_add b x -> buf_inv b ->
  tr_rel (evK (Stop c' bx o)) (K (Stop c' b o) x).
Proof.
  intros Hc Hs -> I. simpl. unfold hd. rewrite Hc, Hs. rewrite (ev_step _ _ (buf_inv_add b x I)).
  unfold Http1Seg.step. rewrite Hs. simpl. rewrite app_nil_r. apply (tr_rel_refl (c', buf_add b x, o)).
Qed.

Lemma splitN_all d : splitN d (N.of_nat (length d)) = (d, []).
Proof.
  induction d as [|y t IH]; [reflexivity|]. cbn [length splitN].
  destruct (N.eqb (N.of_nat (S (length t))) 0) eqn:E; [apply N.eqb_eq in E; lia|].
  replace (N.pred (N.of_nat (S (length t)))) with (N.of_nat (length t)) by lia. rewrite IH. reflexivity.
Qed.

Lemma at_most_all b : b_data b <> [] ->
  maybe_extract_at_most b (N.of_nat (length (b_data b))) = (Some (b_data b), mkBuf [] 0 0).
Proof.
  intros H. unfold maybe_extract_at_most. rewrite splitN_all. destruct (b_data b); [congruence|reflexivity].
Qed.

Lemma buf_bool_true b : buf_bool b = true <-> b_data b <> [].
Proof. unfold buf_bool. destruct (b_data b); split; congruence. Qed.

Lemma buf_bool_add b x : x <> [] -> buf_bool (buf_add b x) = true.
Proof. intros H. apply buf_bool_true. simpl. destruct (b_data b); simpl; congruence. Qed.

Lemma make_pipe_conn c b c' b' o : make_pipe c b = Stop c' b' o -> c' = set_state c Passthrough.
Proof.
  unfold Http1Seg.make_pipe. intros H. dmatches H; inversion H; reflexivity.
Qed.

Lemma make_pipe_M c b x : buf_inv b -> x <> [] -> c_closed c = false -> lstrip_crlf x = x ->
  tr_rel (evK (make_pipe c (buf_add b x))) (K (make_pipe c b) x).
Proof.
  intros I Hx Hc Hl. unfold Http1Seg.make_pipe. rewrite (buf_bool_add b x Hx).
  assert (Hne : b_data (buf_add b x) <> []) by (apply buf_bool_true, buf_bool_add, Hx).
  rewrite (at_most_all _ Hne). cbn [b_data buf_add].
  assert (Hx' : exists y ys, x = y :: ys) by (destruct x; [congruence|eauto]). destruct Hx' as (y & ys & Ex).
  destruct (buf_bool b) eqn:Eb.
  - apply buf_bool_true in Eb. rewrite (at_most_all _ Eb).
    destruct (lstrip_crlf (b_data b)) as [|z zs] eqn:El.
    + rewrite (lstrip_app_empty _ _ El), Hl. rewrite Ex. simpl. unfold hd. simpl. rewrite Hc. simpl.
      split; [right; split; reflexivity|reflexivity].
    + rewrite lstrip_app_nonempty by congruence. rewrite El. simpl. unfold hd. simpl. rewrite Hc. simpl.
      split; [right; split; reflexivity|]. rewrite map_app, !app_nil_r. reflexivity.
  - assert (Ed : b_data b = []) by (unfold buf_bool in Eb; destruct (b_data b); [reflexivity|discriminate]).
    rewrite Ed. cbn [app]. rewrite Hl, Ex. simpl. unfold hd. simpl. rewrite Hc. simpl.
    split; [right; split; [reflexivity|unfold beq; simpl; congruence]|reflexivity].
Qed.

Lemma mark_done_M c b x rq rs : buf_inv b -> x <> [] -> c_closed c = false -> c_state c = ReadBody ->
  (c_role c = Server -> rq = true) -> (c_role c = Client -> rs = true) ->
  guard (mark_done c b rq rs) x ->
  tr_rel (evK (mark_done c (buf_add b x) rq rs)) (K (mark_done c b rq rs) x).
Proof.
  intros I Hx Hc Hs Hrq Hrs G. unfold Http1Seg.mark_done in *. cbv zeta in *.
  set (c1 := Http1Seg.set_done_flags Req Resp c (c_request_done c || rq) (c_response_done c || rs)) in *.
  assert (Hc1 : c_closed c1 = false) by exact Hc.
  assert (Hs1 : c_state c1 = ReadBody) by exact Hs.
  destruct (c_request_done c1 && c_response_done c1) eqn:Eb.
  - destruct (c_request c1) as [request|]; [|apply closed_pattern; reflexivity].
    destruct (c_response c1) as [response|]; [|apply closed_pattern; reflexivity].
    destruct (after (c_role c1) request response).
    + destruct (make_pipe_stop c1 b) as (c' & b' & o & E). rewrite E in G.
      pose proof (make_pipe_conn _ _ _ _ _ E) as Ec. simpl in G.
      apply make_pipe_M; auto. apply G. rewrite Ec. reflexivity.
    + apply closed_pattern. reflexivity.
    + rewrite (buf_bool_add b x Hx). destruct (buf_bool b).
      * apply tr_rel_refl.
      * simpl. unfold hd. simpl. rewrite Hc. apply tr_rel_refl.
  - destruct (c_role c1) eqn:Er.
    + assert (Hq : c_request_done c1 = true).
      { unfold c1. simpl. rewrite (Hrq Er). apply orb_true_r. }
      rewrite Hq. rewrite Hq in Eb. destruct (c_response_done c1); [discriminate Eb|]. cbn [andb negb].
      eapply quiet_pattern; eauto.
    + assert (Hq : c_response_done c1 = true).
      { unfold c1. simpl. rewrite (Hrs Er). apply orb_true_r. }
      rewrite Hq. rewrite Hq in Eb. destruct (c_request_done c1); [discriminate Eb|]. cbn [andb negb].
      eapply quiet_pattern; eauto.
Qed.

Lemma eom_unfold c b :
  end_of_message c b =
  match c_request c with
  | None => crash c b CrashAssert
  | Some request =>
      pre_s (if is_connect request then [] else [OEndOfMessage (sid_of c)])
            (mark_done c b (match c_role c with Server => true | Client => false end)
                       (negb (match c_role c with Server => true | Client => false end)))
  end.
Proof.
  unfold Http1Seg.end_of_message. destruct (c_request c); [|reflexivity].
  match goal with |- context [mark_done ?C b ?A ?B] => destruct (mark_done C b A B) end; reflexivity.
Qed.

Lemma eom_M c b x : buf_inv b -> x <> [] -> c_closed c = false -> c_state c = ReadBody ->
  guard (end_of_message c b) x ->
  tr_rel (evK (end_of_message c (buf_add b x))) (K (end_of_message c b) x).
Proof.
  intros I Hx Hc Hs G. rewrite !eom_unfold in *. destruct (c_request c); [|apply closed_pattern; reflexivity].
  rewrite evK_pre_s, K_pre_s. rewrite guard_pre_s in G. apply tr_rel_pre.
  apply mark_done_M; auto; destruct (c_role c); simpl; intros; congruence.
Qed.

(* ---------------------------------------------------------------- buffer operations against appended data *)
Lemma lines_app b x ls b' : buf_inv b -> maybe_extract_lines b = (Some ls, b') ->
  maybe_extract_lines (buf_add b x) = (Some ls, buf_add b' x).
Proof.
  intros I. rewrite (lines_spec _ I), (lines_spec _ (buf_inv_add b x I)). cbv zeta. cbn [b_data buf_add].
  intros H. assert (Hl := f_equal fst H). assert (Hb := f_equal snd H). clear H.
  destruct (starts_with [LF] (b_data b)) eqn:E1.
  { rewrite (starts_with_app _ _ x E1). cbn [fst snd] in Hl, Hb. subst b'. rewrite <- Hl.
    apply starts_with_nonempty in E1; [|discriminate]. cbn [length] in E1.
    unfold buf_add. cbn [b_data b_nls b_mls]. rewrite skipn_app. replace (1 - length (b_data b)) with 0 by lia. reflexivity. }
  destruct (starts_with CRLF (b_data b)) eqn:E2.
  { assert (L2 : length CRLF <= length (b_data b)) by (apply starts_with_nonempty; [unfold CRLF; discriminate|exact E2]).
    unfold CRLF in L2; cbn [length] in L2.
    rewrite starts_with_app_long by (cbn [length]; lia). rewrite E1. rewrite (starts_with_app _ _ x E2).
    cbn [fst snd] in Hl, Hb. subst b'. rewrite <- Hl.
    unfold buf_add. cbn [b_data b_nls b_mls]. rewrite skipn_app. replace (2 - length (b_data b)) with 0 by lia. reflexivity. }
  destruct (blank_search (b_data b)) as [idx|] eqn:E3; cbn [fst snd] in Hl, Hb; [|discriminate Hl].
  destruct (blank_search_bound _ _ E3) as [L1 L2].
  rewrite !starts_with_app_long by (unfold CRLF; cbn [length]; lia). rewrite E1, E2. rewrite (blank_search_app _ x _ E3).
  cbn [fst snd] in Hl, Hb. subst b'. rewrite <- Hl.
  unfold buf_add. cbn [b_data b_nls b_mls]. rewrite skipn_app, firstn_app.
  replace (idx - length (b_data b)) with 0 by lia. cbn [firstn skipn]. rewrite app_nil_r. reflexivity.
Qed.

Lemma lines_none b b' : buf_inv b -> maybe_extract_lines b = (None, b') -> beq b' b /\ buf_inv b'.
Proof.
  intros I H. pose proof (lines_inv _ I) as J. rewrite H in J. split; [|exact J].
  rewrite (lines_spec _ I) in H. cbv zeta in H.
  destruct (starts_with [LF] (b_data b)); [discriminate|]. destruct (starts_with CRLF (b_data b)); [discriminate|].
  destruct (blank_search (b_data b)); [discriminate|]. apply (f_equal snd) in H. cbn [snd] in H. subst b'. reflexivity.
Qed.

Lemma next_line_app b x l b' : buf_inv b -> maybe_extract_next_line b = (Some l, b') ->
  maybe_extract_next_line (buf_add b x) = (Some l, buf_add b' x).
Proof.
  intros I. rewrite (next_line_spec _ I), (next_line_spec _ (buf_inv_add b x I)). cbn [b_data buf_add].
  destruct (find_crlf (b_data b)) as [i|] eqn:E; [|discriminate].
  rewrite (find_crlf_app _ x _ E). pose proof (find_crlf_bound _ _ E) as L.
  intros H. assert (Hl := f_equal fst H). assert (Hb := f_equal snd H). clear H. cbn [fst snd] in Hl, Hb. subst b'.
  rewrite <- Hl. unfold buf_add. cbn [b_data b_nls b_mls]. rewrite skipn_app, firstn_app.
  replace (i + 2 - length (b_data b)) with 0 by lia. cbn [firstn skipn]. rewrite app_nil_r. reflexivity.
Qed.

Lemma next_line_none b b' : buf_inv b -> maybe_extract_next_line b = (None, b') -> beq b' b /\ buf_inv b'.
Proof.
  intros I H. pose proof (next_line_inv _ I) as J. rewrite H in J. split; [|exact J].
  rewrite (next_line_spec _ I) in H. destruct (find_crlf (b_data b)); [discriminate|].
  apply (f_equal snd) in H. cbn [snd] in H. subst b'. reflexivity.
Qed.

Lemma at_most_none b n b' : maybe_extract_at_most b n = (None, b') -> b' = b.
Proof.
  unfold maybe_extract_at_most. destruct (splitN (b_data b) n) as [[|a o] r]; [|discriminate]. congruence.
Qed.

Lemma at_most_data d n : maybe_extract_at_most (mkBuf d 0 0) n =
  match splitN d n with ([], _) => (None, mkBuf d 0 0) | (out, rest) => (Some out, mkBuf rest 0 0) end.
Proof. reflexivity. Qed.

Lemma at_most_app b x n a b' : maybe_extract_at_most b n = (Some a, b') ->
  exists a' r', splitN x (n - N.of_nat (length a)) = (a', r') /\
    maybe_extract_at_most (buf_add b x) n = (Some (a ++ a'), mkBuf (b_data b' ++ r') 0 0) /\
    (a' <> [] -> b_data b' = [] /\ (N.of_nat (length a) < n)%N) /\ (a' = [] -> r' = x) /\ a <> [].
Proof.
  unfold maybe_extract_at_most. cbn [b_data buf_add]. rewrite splitN_app.
  destruct (splitN (b_data b) n) as [a0 r0] eqn:E. destruct a0 as [|y a0]; [discriminate|].
  intros H. assert (Hl := f_equal fst H). assert (Hb := f_equal snd H). clear H. cbn [fst snd] in Hl, Hb. subst b'.
  injection Hl as <-. destruct (splitN x (n - N.of_nat (length (y :: a0)))) as [a' r'] eqn:E2.
  exists a', r'. split; [reflexivity|]. split; [reflexivity|]. cbn [b_data].
  split; [|split; [|discriminate]].
  - intros Ha. destruct (splitN_cases _ _ _ _ E) as [Hc|[Hc1 Hc2]].
    + rewrite Hc, N.sub_diag, splitN_0 in E2. congruence.
    + auto.
  - intros ->. apply splitN_concat in E2. exact E2.
Qed.

(* ---------------------------------------------------------------- read_headers *)
Lemma read_headers_M c b x : buf_inv b -> x <> [] -> c_closed c = false -> c_state c = ReadHeaders ->
  tr_rel (ev c (buf_add b x)) (K (read_headers c b) x).
Proof.
  intros I Hx Hc Hs. pose proof (buf_inv_add b x I) as J.
  assert (Est : ev c (buf_add b x) = evK (read_headers c (buf_add b x))).
  { rewrite (ev_step _ _ J). unfold Http1Seg.step. rewrite Hs. reflexivity. }
  assert (Hnp : c_state c <> Passthrough) by congruence.
  unfold Http1Seg.read_headers, Http1Seg.crash in *. destruct (c_role c).
  - destruct (maybe_extract_lines b) as [[ls|] b'] eqn:E.
    + rewrite Est, (lines_app _ _ _ _ I E). destruct ls as [|l ls']; [apply tr_rel_refl|].
      destruct (server_head (l :: ls')); try (apply closed_pattern; reflexivity). apply tr_rel_refl.
    + destruct (lines_none _ _ I E). apply retry_pattern; auto.
  - destruct (c_request c) as [request|]; [|rewrite Est; apply closed_pattern; reflexivity].
    destruct (maybe_extract_lines b) as [[ls|] b'] eqn:E.
    + rewrite Est, (lines_app _ _ _ _ I E). destruct ls as [|l ls']; [apply tr_rel_refl|].
      destruct (client_head request (l :: ls')); try (apply closed_pattern; reflexivity). apply tr_rel_refl.
    + destruct (lines_none _ _ I E). apply retry_pattern; auto.
Qed.

(* ---------------------------------------------------------------- read_body *)
Lemma ev_read_body c b : buf_inv b -> c_state c = ReadBody -> ev c b = evK (read_body c b).
Proof. intros I S. rewrite (ev_step _ _ I). unfold Http1Seg.step. rewrite S. reflexivity. Qed.

(* a section of the body read with maybe_extract_at_most(n): g k is the connection after k bytes of it *)
Lemma data_merge c b x n (g : N -> conn) a b' :
  buf_inv b -> c_state c = ReadBody ->
  (forall bb, read_body c bb = match maybe_extract_at_most bb n with
                               | (None, b1) => Stop c b1 []
                               | (Some d, b1) => Go (g (N.of_nat (length d))) b1 (Http1Seg.data_out Req Resp c d)
                               end) ->
  (forall k bb, (k < n)%N ->
                read_body (g k) bb = match maybe_extract_at_most bb (n - k)%N with
                                     | (None, b1) => Stop (g k) b1 []
                                     | (Some d, b1) => Go (g (k + N.of_nat (length d))%N) b1 (Http1Seg.data_out Req Resp c d)
                                     end) ->
  (forall k, c_state (g k) = ReadBody) ->
  maybe_extract_at_most b n = (Some a, b') ->
  tr_rel (ev c (buf_add b x)) (K (Go (g (N.of_nat (length a))) b' (Http1Seg.data_out Req Resp c a)) x).
Proof.
  intros I S H1 H2 Hg E. pose proof (buf_inv_add b x I) as J.
  destruct (at_most_app _ x _ _ _ E) as (a' & r' & Es & Ea & Hne & Hnil & Hann).
  rewrite (ev_read_body _ _ J S), H1, Ea. cbn [evK K].
  pose proof (at_most_inv b n I) as Ib'. rewrite E in Ib'. cbn [snd] in Ib'.
  destruct a' as [|y a'].
  - rewrite app_nil_r. apply tr_rel_pre. rewrite (Hnil eq_refl).
    apply ev_cong; [reflexivity|apply buf_inv_zero|apply buf_inv_add; exact Ib'].
  - destruct (Hne ltac:(discriminate)) as [Hd Hlt].
    rewrite (ev_read_body _ _ (buf_inv_add b' x Ib') (Hg _)), (H2 _ _ Hlt).
    assert (Ex : maybe_extract_at_most (buf_add b' x) (n - N.of_nat (length a)) = (Some (y :: a'), mkBuf r' 0 0)).
    { unfold maybe_extract_at_most. cbn [b_data buf_add]. rewrite Hd. cbn [app]. rewrite Es. reflexivity. }
    rewrite Ex. cbn [evK]. rewrite Hd. cbn [app]. rewrite pre_pre.
    rewrite app_length, Nat2N.inj_add.
    unfold Http1Seg.data_out.
    destruct (ev (g (N.of_nat (length a) + N.of_nat (length (y :: a')))%N) (mkBuf r' 0 0)) as [[c3 b3] o3].
    cbn [pre]. split; [right; split; reflexivity|]. unfold flat. cbn [flat_map flat1 app].
    rewrite map_app, <- !app_assoc. reflexivity.
Qed.

Lemma at_most_none_data b n b' : maybe_extract_at_most b n = (None, b') -> n <> 0%N -> b_data b = [].
Proof.
  unfold maybe_extract_at_most. destruct (b_data b) as [|y t]; [reflexivity|]. intros H Hn. exfalso.
  cbn [splitN] in H. destruct (N.eqb n 0) eqn:E0; [apply N.eqb_eq in E0; congruence|].
  destruct (splitN t (N.pred n)); discriminate.
Qed.

(* read until EOF: everything buffered is passed on *)
Lemma http10_ev : forall n c b, length (b_data b) < n -> buf_inv b -> c_state c = ReadBody -> c_reader c = Http10Reader ->
  exists b' o, ev c b = (c, b', o) /\ b_data b' = [] /\ flat o = map (AByte (sid_of c)) (b_data b).
Proof.
  induction n as [|n IH]; intros c b Hl I S R; [lia|].
  rewrite (ev_read_body _ _ I S). unfold Http1Seg.read_body. rewrite R.
  destruct (maybe_extract_at_most b HTTP10_MAX) as [[d|] b1] eqn:E.
  - pose proof (at_most_shrinks _ _ _ _ E) as Hs. pose proof (at_most_inv b HTTP10_MAX I) as I1. rewrite E in I1. cbn [snd] in I1.
    destruct (IH c b1 ltac:(lia) I1 S R) as (b' & o & Ee & Hd & Hf).
    cbn [evK]. rewrite Ee. cbn [pre]. exists b', (Http1Seg.data_out Req Resp c d ++ o). split; [reflexivity|]. split; [exact Hd|].
    rewrite flat_app, Hf. unfold Http1Seg.data_out. cbn [flat flat_map flat1]. rewrite app_nil_r, <- map_app. f_equal.
    unfold maybe_extract_at_most in E.
    match type of E with context [splitN ?dd ?nn] => destruct (splitN dd nn) as [[|y a] r] eqn:Es end; [discriminate E|].
    apply splitN_concat in Es. inversion E; subst. cbn [b_data]. exact Es.
  - pose proof (at_most_none_data _ _ _ E ltac:(discriminate)) as Hd.
    apply at_most_none in E. subst b1. cbn [evK]. exists b, []. split; [reflexivity|].
    rewrite Hd. split; reflexivity.
Qed.

Lemma is_prefix_app_false d a td : is_prefix d td = false -> is_prefix (d ++ a) td = false.
Proof.
  revert td; induction d as [|y d IH]; intros td H; [discriminate|].
  destruct td as [|z td]; [reflexivity|]. simpl in *. destruct (byte_eqb y z); [simpl in *; auto|reflexivity].
Qed.

Lemma is_prefix_app_true d a td : is_prefix d td = true -> is_prefix (d ++ a) td = is_prefix a (skipn (length d) td).
Proof.
  revert td; induction d as [|y d IH]; intros td H; [reflexivity|].
  destruct td as [|z td]; [discriminate|]. simpl in *. destruct (byte_eqb y z); [simpl in *; auto|discriminate].
Qed.

Lemma skipn_skipn {A} (n m : nat) (l : list A) : skipn n (skipn m l) = skipn (m + n) l.
Proof. revert l; induction m as [|m IH]; intros l; [reflexivity|]. destruct l; [rewrite !skipn_nil; reflexivity|apply IH]. Qed.

Lemma read_body_M c b x : buf_inv b -> x <> [] -> c_closed c = false -> c_state c = ReadBody ->
  guard (read_body c b) x ->
  tr_rel (ev c (buf_add b x)) (K (read_body c b) x).
Proof.
  intros I Hx Hc Hs G. pose proof (buf_inv_add b x I) as J.
  assert (Hnp : c_state c <> Passthrough) by congruence.
  pose proof (ev_read_body _ _ J Hs) as Est.
  destruct (c_reader c) as [rem|inc td tr|] eqn:R.
  - (* ContentLengthReader *)
    destruct (N.eqb rem 0) eqn:E0.
    + unfold Http1Seg.read_body in *. rewrite R, E0 in *. rewrite Est. apply eom_M; auto.
    + destruct (maybe_extract_at_most b rem) as [[a|] b'] eqn:E.
      * assert (Hrb : read_body c b = Go (set_reader c (ContentLengthReader (rem - N.of_nat (length a)))) b' (Http1Seg.data_out Req Resp c a)).
        { unfold Http1Seg.read_body. rewrite R, E0, E. reflexivity. }
        rewrite Hrb.
        apply (data_merge c b x rem (fun k => set_reader c (ContentLengthReader (rem - k)))); auto.
        -- intros bb. unfold Http1Seg.read_body. rewrite R, E0. reflexivity.
        -- intros k bb Hk. unfold Http1Seg.read_body. cbn [c_reader Http1Seg.set_reader].
           assert (E1 : N.eqb (rem - k) 0 = false) by (apply N.eqb_neq; lia). rewrite E1.
           destruct (maybe_extract_at_most bb (rem - k)) as [[d|] b1]; [|reflexivity].
           unfold Http1Seg.set_reader, Http1Seg.data_out, Http1Seg.sid_of. cbn. rewrite N.sub_add_distr. reflexivity.
      * assert (Hrb : read_body c b = Stop c b' []) by (unfold Http1Seg.read_body; rewrite R, E0, E; reflexivity).
        rewrite Hrb. apply at_most_none in E. subst b'. apply retry_pattern; auto. reflexivity.
  - destruct tr.
    + (* trailer section *)
      unfold Http1Seg.read_body, Http1Seg.protocol_error, Http1Seg.crash in *. rewrite R in *.
      destruct (maybe_extract_lines b) as [[ls|] b'] eqn:E.
      * rewrite Est, (lines_app _ _ _ _ I E). pose proof (lines_inv _ I) as I'. rewrite E in I'. cbn [snd] in I'.
        destruct ls as [|l ls']; [apply eom_M; auto|].
        destruct (trailer (l :: ls')); apply closed_pattern; reflexivity.
      * destruct (lines_none _ _ I E). apply retry_pattern; auto.
    + destruct td as [|t0 td'].
      * destruct (N.eqb inc 0) eqn:E0.
        -- (* chunk header *)
           unfold Http1Seg.read_body, Http1Seg.protocol_error in *. rewrite R, E0 in *.
           destruct (maybe_extract_next_line b) as [[line|] b'] eqn:E.
           ++ rewrite Est, (next_line_app _ _ _ _ I E).
              destruct (parse_chunk_header line); [apply tr_rel_refl|apply closed_pattern; reflexivity].
           ++ destruct (next_line_none _ _ I E). apply retry_pattern; auto.
        -- (* chunk data *)
           destruct (maybe_extract_at_most b inc) as [[a|] b'] eqn:E.
           ++ set (g := fun k : N => set_reader c (ChunkedReader (inc - k) (if N.eqb (inc - k) 0 then CRLF else []) false)).
              assert (Hrb : read_body c b = Go (g (N.of_nat (length a))) b' (Http1Seg.data_out Req Resp c a)).
              { unfold Http1Seg.read_body. rewrite R, E0, E. reflexivity. }
              rewrite Hrb. apply (data_merge c b x inc g); auto.
              ** intros bb. unfold Http1Seg.read_body. rewrite R, E0. reflexivity.
              ** intros k bb Hk. unfold Http1Seg.read_body, g. cbn [c_reader Http1Seg.set_reader].
                 assert (E1 : N.eqb (inc - k) 0 = false) by (apply N.eqb_neq; lia). rewrite E1.
                 destruct (maybe_extract_at_most bb (inc - k)) as [[d|] b1]; [|reflexivity].
                 unfold Http1Seg.set_reader, Http1Seg.data_out, Http1Seg.sid_of. cbn. rewrite N.sub_add_distr. reflexivity.
           ++ assert (Hrb : read_body c b = Stop c b' []) by (unfold Http1Seg.read_body; rewrite R, E0, E; reflexivity).
              rewrite Hrb. apply at_most_none in E. subst b'. apply retry_pattern; auto. reflexivity.
      * (* bytes_to_discard *)
        set (tdl := t0 :: td') in *.
        assert (Hunf : forall cc bb tdx, c_reader cc = ChunkedReader inc tdx false -> tdx <> [] ->
                  read_body cc bb = match maybe_extract_at_most bb (N.of_nat (length tdx)) with
                                    | (None, b1) => Stop cc b1 []
                                    | (Some d, b1) =>
                                        if negb (is_prefix d tdx) then protocol_error cc b1
                                        else match skipn (length d) tdx with
                                             | _ :: _ => Stop (set_reader cc (ChunkedReader inc (skipn (length d) tdx) false)) b1 []
                                             | [] => Go (set_reader cc (ChunkedReader inc (skipn (length d) tdx) false)) b1 []
                                             end
                                    end).
        { intros cc bb tdx Rc Hne. unfold Http1Seg.read_body. rewrite Rc. destruct tdx; [congruence|reflexivity]. }
        rewrite (Hunf c b tdl R ltac:(discriminate)).
        destruct (maybe_extract_at_most b (N.of_nat (length tdl))) as [[a|] b'] eqn:E.
        -- destruct (at_most_app _ x _ _ _ E) as (a' & r' & Es & Ea & Hne & Hnil & Hann).
           pose proof (at_most_inv b (N.of_nat (length tdl)) I) as Ib'. rewrite E in Ib'. cbn [snd] in Ib'.
           rewrite Est, (Hunf c _ tdl R ltac:(discriminate)), Ea.
           destruct (is_prefix a tdl) eqn:Ep; cbn [negb].
           ++ rewrite (is_prefix_app_true _ a' _ Ep).
              destruct a' as [|y a'].
              ** rewrite app_nil_r. cbn [is_prefix negb]. rewrite (Hnil eq_refl).
                 destruct (skipn (length a) tdl) eqn:Esk.
                 --- cbn [evK K]. apply tr_rel_pre. apply ev_cong; [reflexivity|apply buf_inv_zero|apply buf_inv_add; exact Ib'].
                 --- cbn [evK K]. unfold hd. cbn [c_closed c_state Http1Seg.set_reader]. rewrite Hc, Hs.
                     assert (Hb' : b' = mkBuf (b_data b') 0 0).
                     { unfold maybe_extract_at_most in E. destruct (splitN (b_data b) (N.of_nat (length tdl))) as [[|? ?] ?]; inversion E; reflexivity. }
                     set (c1 := set_reader c (ChunkedReader inc (b0 :: l) false)).
                     exfalso. apply (splitN_nonempty _ _ _ _ Es Hx); [|reflexivity].
                     apply (f_equal (@length byte)) in Esk. rewrite skipn_length in Esk. cbn [length] in Esk. lia.
              ** destruct (Hne ltac:(discriminate)) as [Hd Hlt].
                 assert (Hsk : skipn (length a) tdl <> []).
                 { intros Hn. apply (f_equal (@length byte)) in Hn. rewrite skipn_length in Hn. cbn [length] in Hn. lia. }
                 destruct (skipn (length a) tdl) as [|s0 sk] eqn:Esk; [congruence|]. clear Hsk.
                 set (c1 := set_reader c (ChunkedReader inc (s0 :: sk) false)).
                 cbn [K]. unfold hd. assert (Hc1 : c_closed c1 = false) by exact Hc. assert (Hs1 : c_state c1 = ReadBody) by exact Hs.
                 rewrite Hc1, Hs1. rewrite pre_nil.
                 rewrite (ev_read_body _ _ (buf_inv_add b' x Ib') Hs1).
                 rewrite (Hunf c1 _ (s0 :: sk) eq_refl ltac:(discriminate)).
                 assert (Hlen : (N.of_nat (length tdl) - N.of_nat (length a))%N = N.of_nat (length (s0 :: sk))).
                 { rewrite <- Esk, skipn_length. lia. }
                 assert (Ex : maybe_extract_at_most (buf_add b' x) (N.of_nat (length (s0 :: sk))) = (Some (y :: a'), mkBuf r' 0 0)).
                 { unfold maybe_extract_at_most. cbn [b_data buf_add]. rewrite Hd. cbn [app]. rewrite <- Hlen, Es. reflexivity. }
                 rewrite Ex, Hd. cbn [app].
                 destruct (is_prefix (y :: a') (s0 :: sk)) eqn:Ep2; cbn [negb].
                 --- rewrite app_length, <- skipn_skipn, Esk.
                     destruct (skipn (length (y :: a')) (s0 :: sk)); apply tr_rel_refl.
                 --- unfold Http1Seg.protocol_error. cbn [evK]. split; [left; split; reflexivity|reflexivity].
           ++ rewrite (is_prefix_app_false _ a' _ Ep). cbn [negb]. apply closed_pattern. reflexivity.
        -- apply at_most_none in E. subst b'. apply retry_pattern; auto. reflexivity.
  - (* Http10Reader *)
    assert (Hrb : read_body c b = match maybe_extract_at_most b HTTP10_MAX with
                                  | (None, b1) => Stop c b1 []
                                  | (Some d, b1) => Go c b1 (Http1Seg.data_out Req Resp c d)
                                  end) by (unfold Http1Seg.read_body; rewrite R; reflexivity).
    rewrite Hrb.
    destruct (http10_ev _ c (buf_add b x) (Nat.lt_succ_diag_r _) J Hs R) as (bx & ox & Eex & Hdx & Hfx).
    destruct (maybe_extract_at_most b HTTP10_MAX) as [[a|] b'] eqn:E.
    + pose proof (at_most_inv b HTTP10_MAX I) as Ib'. rewrite E in Ib'. cbn [snd] in Ib'.
      destruct (http10_ev _ c (buf_add b' x) (Nat.lt_succ_diag_r _) (buf_inv_add _ x Ib') Hs R) as (by' & oy & Eey & Hdy & Hfy).
      cbn [K]. rewrite Eex, Eey. cbn [pre]. split; [right; split; [reflexivity|unfold beq; congruence]|].
      rewrite flat_app, Hfx, Hfy. unfold Http1Seg.data_out. cbn [flat flat_map flat1 b_data buf_add]. rewrite app_nil_r, <- map_app. f_equal.
      rewrite app_assoc. f_equal.
      unfold maybe_extract_at_most in E.
      match type of E with context [splitN ?dd ?nn] => destruct (splitN dd nn) as [[|y0 a0] r0] eqn:Es end; [discriminate E|].
      apply splitN_concat in Es. inversion E; subst. cbn [b_data]. congruence.
    + apply at_most_none in E. subst b'. apply retry_pattern; auto. reflexivity.
Qed.

(* ---------------------------------------------------------------- the main induction *)
Lemma step_M c b x : buf_inv b -> x <> [] -> c_closed c = false -> c_state c <> Passthrough ->
  guard (step c b) x -> tr_rel (ev c (buf_add b x)) (K (step c b) x).
Proof.
  intros I Hx Hc Hnp G. unfold Http1Seg.step in *. destruct (c_state c) eqn:S.
  - apply read_headers_M; auto.
  - apply read_body_M; auto.
  - cbn [K]. unfold hd. rewrite Hc, S, pre_nil. apply tr_rel_refl.
  - cbn [K]. unfold hd. rewrite Hc, S, pre_nil. apply tr_rel_refl.
  - congruence.
Qed.

Lemma feed_app_ev : forall n c b x, mu c b < n -> buf_inv b -> x <> [] -> c_closed c = false -> c_state c <> Passthrough ->
  (let '(c1, _, _) := ev c b in ok_stop c1 x) ->
  tr_rel (ev c (buf_add b x)) (let '(c1, b1, o1) := ev c b in pre o1 (hd c1 b1 x)).
Proof.
  induction n as [|n IH]; intros c b x Hm I Hx Hc Hnp G; [lia|].
  rewrite (ev_step c b I) in G |- *. pose proof (step_inv c b I) as J.
  pose proof (step_M c b x I Hx Hc Hnp) as M.
  destruct (step c b) as [c' b' o|c' b' o] eqn:E; cbn [evK guard K] in *.
  - destruct (step_go _ _ _ _ _ I E) as (Hlt & Hcl & Hst).
    specialize (IH c' b' x ltac:(lia) J Hx ltac:(congruence) Hst).
    destruct (ev c' b') as [[c1 b1] o1]. cbn [pre] in *. specialize (IH G).
    eapply tr_rel_trans; [exact (M Logic.I)|]. rewrite <- pre_pre. apply tr_rel_pre. exact IH.
  - exact (M G).
Qed.

Lemma handle_data_hd c b d : buf_inv b -> handle_data c b d = let '(c', b', o) := hd c b d in Finished c' b' o.
Proof. intros I. rewrite (handle_data_ev c b d I). reflexivity. Qed.

Lemma hd_inv c b x : buf_inv b -> let '(_, b', _) := hd c b x in buf_inv b'.
Proof.
  intros I. unfold hd. destruct (c_closed c); [exact I|].
  destruct (c_state c); try exact I; apply ev_inv, buf_inv_add, I.
Qed.

Lemma buf_add_assoc b a x : buf_add b (a ++ x) = buf_add (buf_add b a) x.
Proof. unfold buf_add. cbn [b_data b_nls b_mls]. rewrite app_assoc. reflexivity. Qed.

(* the cut between two segments is harmless: not one of the two places where the code depends on it *)
Definition cut_ok (c c1 : conn) (x : bytes) : Prop :=
  c_closed c = false -> c_state c <> Passthrough -> ok_stop c1 x.

Lemma hd_closed c b x : c_closed c = true -> hd c b x = (c, b, []).
Proof. unfold hd. intros ->. reflexivity. Qed.
Lemma hd_pass c b x : c_closed c = false -> c_state c = Passthrough -> hd c b x = (c, b, [OData (sid_of c) x]).
Proof. unfold hd. intros -> ->. reflexivity. Qed.
Lemma hd_live c b x : c_closed c = false -> c_state c <> Passthrough -> hd c b x = ev c (buf_add b x).
Proof. unfold hd. intros -> H. destruct (c_state c); congruence. Qed.

Theorem feed_app_hd c b a x : buf_inv b -> a <> [] -> x <> [] ->
  (let '(c1, _, _) := hd c b a in cut_ok c c1 x) ->
  tr_rel (hd c b (a ++ x)) (let '(c1, b1, o1) := hd c b a in pre o1 (hd c1 b1 x)).
Proof.
  intros I Ha Hx G. destruct (c_closed c) eqn:Hc.
  - rewrite !(hd_closed c b _ Hc). cbv beta iota zeta. rewrite ?(hd_closed c b _ Hc). cbn [pre app]. apply tr_rel_refl.
  - destruct (c_state c) eqn:S.
    5: { rewrite !(hd_pass c b _ Hc S). cbv beta iota zeta. rewrite ?(hd_pass c b _ Hc S). cbn [pre app].
         split; [right; split; reflexivity|]. apply flat_data_app. }
    all: assert (Hnp : c_state c <> Passthrough) by congruence;
      rewrite !(hd_live c b _ Hc Hnp) in *; rewrite buf_add_assoc;
      apply (feed_app_ev (Datatypes.S (mu c (buf_add b a)))); auto using buf_inv_add;
      destruct (ev c (buf_add b a)) as [[c1 b1] o1]; apply G; congruence.
Qed.

(* any number of segments *)
Fixpoint feed_all (c : conn) (b : rbuf) (segs : list bytes) : triple :=
  match segs with
  | [] => (c, b, [])
  | s :: rest => let '(c1, b1, o1) := hd c b s in pre o1 (feed_all c1 b1 rest)
  end.

Fixpoint cuts_ok (c : conn) (b : rbuf) (segs : list bytes) : Prop :=
  match segs with
  | [] => True
  | s :: rest => let '(c1, b1, _) := hd c b s in (rest <> [] -> cut_ok c c1 (concat rest)) /\ cuts_ok c1 b1 rest
  end.

Theorem any_segmentation : forall segs c b, buf_inv b -> Forall (fun s => s <> []) segs -> segs <> [] ->
  cuts_ok c b segs -> tr_rel (hd c b (concat segs)) (feed_all c b segs).
Proof.
  induction segs as [|s rest IH]; intros c b I Hne Hs G; [congruence|].
  inversion Hne as [|? ? Hs1 Hrest]; subst. cbn [concat feed_all cuts_ok] in *.
  pose proof (hd_inv c b s I) as J.
  destruct rest as [|s2 rest'].
  - cbn [concat feed_all]. rewrite app_nil_r. destruct (hd c b s) as [[c1 b1] o1]. cbn [pre]. rewrite app_nil_r. apply tr_rel_refl.
  - assert (Hx : concat (s2 :: rest') <> []).
    { inversion Hrest; subst. cbn [concat]. destruct s2; [congruence|discriminate]. }
    pose proof (feed_app_hd c b s (concat (s2 :: rest')) I Hs1 Hx) as F.
    destruct (hd c b s) as [[c1 b1] o1]. destruct G as [G1 G2].
    eapply tr_rel_trans; [apply F, G1; discriminate|]. apply tr_rel_pre. apply IH; auto. discriminate.
Qed.

(* no parsing while the current flow is unfinished *)
Lemma wait_defers c b d : buf_inv b -> c_state c = Wait -> c_closed c = false -> hd c b d = (c, buf_add b d, []).
Proof.
  intros I S Hc. rewrite (hd_live c b d Hc) by congruence. rewrite (ev_step _ _ (buf_inv_add b d I)).
  unfold Http1Seg.step. rewrite S. reflexivity.
Qed.

(* ---------------------------------------------------------------- the same statements about handle_data itself *)
Theorem handle_data_total c b d : buf_inv b -> exists c' b' o, handle_data c b d = Finished c' b' o /\ buf_inv b'.
Proof.
  intros I. rewrite (handle_data_hd c b d I). pose proof (hd_inv c b d I) as J.
  destruct (hd c b d) as [[c' b'] o]. eauto.
Qed.

Theorem feed_app_handle_data c b a x : buf_inv b -> a <> [] -> x <> [] ->
  exists c1 b1 o1 c2 b2 o2 c3 b3 o3,
    handle_data c b a = Finished c1 b1 o1 /\ handle_data c1 b1 x = Finished c2 b2 o2 /\
    handle_data c b (a ++ x) = Finished c3 b3 o3 /\
    (cut_ok c c1 x -> fin_rel c3 b3 c2 b2 /\ flat o3 = flat (o1 ++ o2)).
Proof.
  intros I Ha Hx. pose proof (feed_app_hd c b a x I Ha Hx) as F. pose proof (hd_inv c b a I) as J.
  destruct (hd c b a) as [[c1 b1] o1] eqn:E1. destruct (hd c1 b1 x) as [[c2 b2] o2] eqn:E2.
  destruct (hd c b (a ++ x)) as [[c3 b3] o3] eqn:E3.
  exists c1, b1, o1, c2, b2, o2, c3, b3, o3.
  split; [rewrite (handle_data_hd c b a I), E1; reflexivity|].
  split; [rewrite (handle_data_hd c1 b1 x J), E2; reflexivity|].
  split; [rewrite (handle_data_hd c b (a ++ x) I), E3; reflexivity|].
  intros G. rewrite ?E1, ?E3 in F. cbv beta iota zeta in F. rewrite ?E2 in F. exact (F G).
Qed.

Fixpoint run_segments (c : conn) (b : rbuf) (segs : list bytes) : option triple :=
  match segs with
  | [] => Some (c, b, [])
  | s :: rest => match handle_data c b s with
                 | Finished c1 b1 o1 => option_map (pre o1) (run_segments c1 b1 rest)
                 | OutOfFuel => None
                 end
  end.

Lemma run_segments_feed_all : forall segs c b, buf_inv b -> run_segments c b segs = Some (feed_all c b segs).
Proof.
  induction segs as [|s rest IH]; intros c b I; [reflexivity|]. cbn [run_segments feed_all].
  rewrite (handle_data_hd c b s I). pose proof (hd_inv c b s I) as J. destruct (hd c b s) as [[c1 b1] o1].
  rewrite (IH c1 b1 J). reflexivity.
Qed.

Theorem any_segmentation_handle_data segs c b : buf_inv b -> Forall (fun s => s <> []) segs -> segs <> [] ->
  exists c2 b2 o2 c3 b3 o3,
    run_segments c b segs = Some (c2, b2, o2) /\ handle_data c b (concat segs) = Finished c3 b3 o3 /\
    (cuts_ok c b segs -> fin_rel c3 b3 c2 b2 /\ flat o3 = flat o2).
Proof.
  intros I Hne Hs. rewrite (run_segments_feed_all segs c b I), (handle_data_hd c b _ I).
  pose proof (any_segmentation segs c b I Hne Hs) as F.
  destruct (feed_all c b segs) as [[c2 b2] o2]. destruct (hd c b (concat segs)) as [[c3 b3] o3].
  exists c2, b2, o2, c3, b3, o3. repeat (split; [reflexivity|]). exact F.
Qed.

Theorem wait_defers_handle_data c b d : buf_inv b -> c_state c = Wait -> c_closed c = false ->
  handle_data c b d = Finished c (buf_add b d) [].
Proof. intros I S Hc. rewrite (handle_data_hd c b d I), (wait_defers c b d I S Hc). reflexivity. Qed.

(* ---------------------------------------------------------------- the upgrade hand-over *)
(* On the client connection of a 101 / CONNECT exchange, send(ResponseEndOfMessage) itself turns the connection into a
   tunnel and, in the same activation, passes on what the client pipelined behind its request (it was only buffered
   while the state was wait).  Whoever sends that event must therefore be ready for tunnel data before it does:
   HttpStream.flow_done installs and starts the child layer first. *)
Theorem upgrade_end_of_message_flushes (c : conn) (b : rbuf) (sid : N) (rq : Req) (rs : Resp) (last half : bool) y ys :
  c_role c = Server -> c_sid c = Some sid -> c_request c = Some rq -> c_response c = Some rs ->
  c_request_done c = true -> after Server rq rs = MakePipe -> lstrip_crlf (b_data b) = y :: ys ->
  exists c' o, Http1Seg.handle_send Req Resp server_head client_head is_connect after trailer true c b
                 (SEndOfMessage sid last half) = Finished c' (mkBuf [] 0 0) (o ++ [OData sid (y :: ys)]) /\
               c_state c' = Passthrough /\ (o = [] \/ o = [OSendLastChunk]).
Proof.
  intros Hr Hs Hq Hp Hd Ha Hl.
  assert (Hne : b_data b <> []) by (intros E; rewrite E in Hl; discriminate).
  unfold Http1Seg.handle_send. rewrite Hr. unfold Http1Seg.sid_of at 1. rewrite Hs, N.eqb_refl. cbn [negb].
  rewrite Hq, Hp. unfold Http1Seg.mark_done. cbv zeta. cbn [c_request_done c_response_done c_request c_response c_role Http1Seg.set_done_flags].
  rewrite Hd, Hq, Hp, Hr, Ha. cbn [orb andb]. rewrite orb_true_r. cbn [andb].
  unfold Http1Seg.make_pipe. assert (Hb : buf_bool b = true) by (apply buf_bool_true; exact Hne). rewrite Hb.
  rewrite (at_most_all _ Hne), Hl. cbn [Http1Seg.continue].
  eexists _, (if last then [OSendLastChunk] else []). split.
  - unfold Http1Seg.sid_of. cbn [c_sid Http1Seg.set_state Http1Seg.set_done_flags]. rewrite Hs. destruct last; reflexivity.
  - split; [reflexivity|destruct last; auto].
Qed.

End P.
