(* Proofs/HttpRoutingC08.v -- the C08 theorems over whole histories, from the step invariant of
   Proofs/HttpRouting.v. *)
From Coq Require Import NArith List Bool Lia.
From MV Require Import Base.Bytes Model.HttpRoutingBase Gen.ConnSpec Model.HttpRouting
                       Proofs.HttpRoutingBase Proofs.HttpRouting.
Import ListNotations.
Open Scope N_scope.

(* provenance: the command (rid, g) was issued by an SGet step of l *)
Definition Pof (l : list step) : waiter -> Prop := fun w => In (SGet (fst w) (snd w)) l.
(* health of a replied connection *)
Definition Eok (k : conn) : Prop := c_error k = false /\ connected k = true.

Lemma run_cons cf s e r :
  snd (run cf s (e :: r)) = snd (step_fn cf s e) :: snd (run cf (fst (step_fn cf s e)) r).
Proof.
  cbn [run]. destruct (step_fn cf s e) as [s1 o]. cbn [fst snd].
  destruct (run cf s1 r) as [s2 os]. reflexivity.
Qed.

Lemma run_cons_fst cf s e r :
  fst (run cf s (e :: r)) = fst (run cf (fst (step_fn cf s e)) r).
Proof.
  cbn [run]. destruct (step_fn cf s e) as [s1 o]. cbn [fst snd].
  destruct (run cf s1 r) as [s2 os]. reflexivity.
Qed.

Lemma inv_mono (P P' : waiter -> Prop) R cf s :
  (forall w, P w -> P' w) -> inv P R cf s -> inv P' R cf s.
Proof.
  intros HPP (I1 & I2 & I3 & I4). split; [exact I1|]. split; [exact I2|]. split; [|exact I4].
  intros c ws x H1 H2. destruct (I3 c ws x H1 H2). split; auto.
Qed.

Lemma inv_init P R cf ctx : ctx_server cf = 1 -> inv P R cf (init_state ctx).
Proof.
  intros H. unfold inv, init_state; cbn. rewrite H. split; [lia|]. split; [discriminate|].
  split; [intros c ws x []|discriminate].
Qed.

(* assignments of state / error / alpn do not touch the spec *)
Lemma setattr_nonspec k f k' g :
  spec_field f = false -> server_setattr k f = Some k' -> spec_eq g k -> spec_eq g k'.
Proof.
  destruct f; cbn; try discriminate; intros _ H; inversion H; subst; unfold spec_eq; cbn; auto.
Qed.

(* ---------- routing ---------- *)
Lemma run_routing : forall hist cf s pre,
  inv (Pof pre) spec_eq cf s -> env_ok cf s hist = true ->
  forall i outs, nth_error (snd (run cf s hist)) i = Some outs ->
    Forall (out_ok (Pof (pre ++ firstn (S i) hist)) spec_eq Eok) outs.
Proof.
  induction hist as [|e r IH]; intros cf s pre HI HE i outs Hn.
  - cbn in Hn. destruct i; discriminate.
  - cbn [env_ok] in HE. apply andb_true_iff in HE. destruct HE as [HS HE].
    rewrite run_cons in Hn.
    destruct (step_fn cf s e) as [s1 o] eqn:ES. cbn [fst snd] in *.
    assert (HI' : inv (Pof (pre ++ [e])) spec_eq cf s).
    { eapply inv_mono; [|exact HI]. intros w Hw. unfold Pof in *. apply in_or_app. left; exact Hw. }
    destruct (step_inv (Pof (pre ++ [e])) spec_eq Eok
                (fun g k H => proj1 (matches_iff g k) H) new_server_spec
                (fun k H1 H2 => conj H1 H2) cf s e s1 o HI') as (J1 & J2 & _); auto.
    + intros rid g ->. unfold Pof. cbn. apply in_or_app. right. left. reflexivity.
    + intros l ->. cbn in HS. apply andb_true_iff in HS. destruct HS as [H1 H2].
      split; [apply negb_true_iff in H2; exact H2 | exact H1].
    + intros c f k' g -> HK HA HR. cbn in HS. rewrite HK, andb_true_r in HS. apply negb_true_iff in HS.
      eapply setattr_nonspec; eauto.
    + destruct i as [|j].
      * cbn in Hn. inversion Hn; subst. cbn [firstn]. exact J2.
      * cbn [nth_error] in Hn. specialize (IH cf s1 (pre ++ [e]) J1 HE j outs Hn).
        rewrite <- app_assoc in IH. exact IH.
Qed.

Theorem routing : forall cf ctx hist,
  ctx_server cf = 1 -> env_ok cf (init_state ctx) hist = true ->
  forall i outs rid g c k h,
    nth_error (snd (run cf (init_state ctx) hist)) i = Some outs ->
    In (OReply rid g (Some (c, k, h))) outs ->
    spec_eq g k /\ c_error k = false /\ connected k = true /\ In (SGet rid g) (firstn (S i) hist).
Proof.
  intros cf ctx hist Hc HE i outs rid g c k h Hn Hin.
  pose proof (run_routing hist cf (init_state ctx) [] (inv_init _ _ cf ctx Hc) HE i outs Hn) as HF.
  rewrite Forall_forall in HF. specialize (HF _ Hin). cbn in HF.
  destruct HF as (H1 & [H2 H3] & H4). auto.
Qed.

(* error replies also belong to an issued command, and nothing else is ever produced by a history that
   respects the contract: no KeyError, no fuel exhaustion is claimed here (they are observable results) *)

(* ---------- dispatch ---------- *)
Definition Ptrue : waiter -> Prop := fun _ => True.
Definition Rtrue : get_cmd -> conn -> Prop := fun _ _ => True.
Definition Etrue : conn -> Prop := fun _ => True.

Lemma step_struct cf s e s' outs :
  inv Ptrue Rtrue cf s -> step_fn cf s e = (s', outs) ->
  inv Ptrue Rtrue cf s' /\ (no_foreign_match s e = true -> Forall out_own outs).
Proof.
  intros HI H.
  destruct (step_inv Ptrue Rtrue Etrue (fun _ _ _ => I) (fun _ => I) (fun _ _ _ => I) cf s e s' outs HI)
    as (J1 & _ & J3); unfold Ptrue, Rtrue, Etrue; auto.
Qed.

Lemma run_dispatch : forall hist cf s,
  inv Ptrue Rtrue cf s -> guard_ok cf s hist = true ->
  forall i outs, nth_error (snd (run cf s hist)) i = Some outs -> Forall out_own outs.
Proof.
  induction hist as [|e r IH]; intros cf s HI HG i outs Hn.
  - cbn in Hn. destruct i; discriminate.
  - cbn [guard_ok] in HG. apply andb_true_iff in HG. destruct HG as [HS HG].
    rewrite run_cons in Hn. destruct (step_fn cf s e) as [s1 o] eqn:ES. cbn [fst snd] in *.
    destruct (step_struct cf s e s1 o HI ES) as [J1 J2].
    destruct i as [|j].
    + cbn in Hn. inversion Hn; subst. auto.
    + cbn [nth_error] in Hn. eapply IH; eauto.
Qed.

Theorem dispatch_partial : forall cf ctx hist,
  ctx_server cf = 1 -> guard_ok cf (init_state ctx) hist = true ->
  forall i outs rid g c k h,
    nth_error (snd (run cf (init_state ctx) hist)) i = Some outs ->
    In (OReply rid g (Some (c, k, h))) outs -> h = c.
Proof.
  intros cf ctx hist Hc HG i outs rid g c k h Hn Hin.
  pose proof (run_dispatch hist cf (init_state ctx) (inv_init _ _ cf ctx Hc) HG i outs Hn) as HF.
  rewrite Forall_forall in HF. exact (HF _ Hin).
Qed.

(* the finding: a request for the address of an upstream proxy, without via, is answered with the carrier
   connection of an established CONNECT tunnel and dispatched to the layer stack of the tunnelled connection *)
Definition a_test : bytes := [x61;x2e;x74;x65;x73;x74].
Definition proxy_host : bytes := [x70;x72;x6f;x78;x79].
Definition http_scheme : bytes := [x68;x74;x74;x70].
Definition g_tunnelled : get_cmd := mkGet (a_test, 80) false (Some (http_scheme, (proxy_host, 8080))) TCP.
Definition g_origin : get_cmd := mkGet (proxy_host, 8080) false None TCP.
Definition cfg0 : cfg := mkCfg 1 false false.
Definition ctx0 : conn := mkConn true None false None TCP Closed false false.
Definition hist_refuted : list step :=
  [SGet 0 g_tunnelled; SSet 2 (FState Open); SSet 3 (FState Open); SRegister 2 false; SGet 1 g_origin].

Lemma dispatch_refuted :
  exists cf ctx hist i outs rid g c k h,
    ctx_server cf = 1 /\ env_ok cf (init_state ctx) hist = true
    /\ nth_error (snd (run cf (init_state ctx) hist)) i = Some outs
    /\ In (OReply rid g (Some (c, k, h))) outs
    /\ h <> c
    /\ c_address (hget (l_heap (fst (run cf (init_state ctx) hist))) h) <> Some (g_address g).
Proof.
  exists cfg0, ctx0, hist_refuted, 4%nat.
  eexists. exists 1, g_origin, 3. eexists. exists 2.
  split; [reflexivity|]. split; [vm_compute; reflexivity|].
  split; [vm_compute; reflexivity|]. split; [left; reflexivity|].
  split; [discriminate|]. vm_compute. discriminate.
Qed.

Lemma routing_nonvacuous :
  let g := mkGet (a_test, 443) true None TCP in
  let hist := [SGet 0 g; SGet 1 g; SSet 2 (FState Open); SRegister 2 false; SGet 2 g] in
  env_ok cfg0 (init_state ctx0) hist = true /\ guard_ok cfg0 (init_state ctx0) hist = true
  /\ exists k, nth_error (snd (run cfg0 (init_state ctx0) hist)) 3 = Some [OReply 0 g (Some (2, k, 2)); OReply 1 g (Some (2, k, 2))]
  /\ nth_error (snd (run cfg0 (init_state ctx0) hist)) 4 = Some [OReply 2 g (Some (2, k, 2))].
Proof.
  cbv zeta. split; [vm_compute; reflexivity|]. split; [vm_compute; reflexivity|].
  eexists. split; vm_compute; reflexivity.
Qed.

(* ---------- Server.__setattr__ ---------- *)
Lemma setattr_guard_address k a :
  c_server k = true -> connected k = true -> c_address k <> a -> server_setattr k (FAddress a) = None.
Proof.
  intros H1 H2 H3. cbn. rewrite H1, H2. cbn.
  destruct (option_eqb addr_eqb (c_address k) a) eqn:E; [|reflexivity].
  apply (option_eqb_eq addr_eqb addr_eqb_eq) in E. contradiction.
Qed.

Lemma setattr_guard_via k v :
  c_server k = true -> connected k = true -> c_via k <> v -> server_setattr k (FVia v) = None.
Proof.
  intros H1 H2 H3. cbn. rewrite H1, H2. cbn.
  destruct (via_eqb (c_via k) v) eqn:E; [|reflexivity].
  apply via_eqb_eq in E. contradiction.
Qed.

Lemma setattr_open_keeps k f k' :
  c_server k = true -> connected k = true -> server_setattr k f = Some k' ->
  c_address k' = c_address k /\ c_via k' = c_via k /\ c_server k' = true.
Proof.
  intros H1 H2. destruct f; cbn; rewrite ?H1, ?H2; cbn.
  - destruct (option_eqb addr_eqb (c_address k) a) eqn:E; cbn; [|discriminate].
    apply (option_eqb_eq addr_eqb addr_eqb_eq) in E. intros H; inversion H; subst; cbn. auto.
  - destruct (via_eqb (c_via k) v) eqn:E; cbn; [|discriminate].
    apply via_eqb_eq in E. intros H; inversion H; subst; cbn. auto.
  - intros H; inversion H; subst; cbn; auto.
  - intros H; inversion H; subst; cbn; auto.
  - intros H; inversion H; subst; cbn; auto.
  - intros H; inversion H; subst; cbn; auto.
  - intros H; inversion H; subst; cbn; auto.
Qed.

Lemma step_open_stable cf s e s' outs c :
  inv Ptrue Rtrue cf s -> step_fn cf s e = (s', outs) ->
  c < l_next s -> c_server (hget (l_heap s) c) = true -> connected (hget (l_heap s) c) = true ->
  c < l_next s'
  /\ c_address (hget (l_heap s') c) = c_address (hget (l_heap s) c)
  /\ c_via (hget (l_heap s') c) = c_via (hget (l_heap s) c)
  /\ c_server (hget (l_heap s') c) = true.
Proof.
  intros HI H Hc HS HO. destruct e as [rid g | l err | c0 f]; cbn [step_fn] in H.
  - destruct (proj1 (get_register_ok Ptrue Rtrue Etrue (fun _ _ _ => I) (fun _ => I) (fun _ _ _ => I) nest_fuel cf)
                s (rid, g) true s' outs HI I H) as [(_ & _ & J3 & J4) _].
    rewrite J4 by exact Hc. repeat split; auto. lia.
  - destruct (proj2 (get_register_ok Ptrue Rtrue Etrue (fun _ _ _ => I) (fun _ => I) (fun _ _ _ => I) nest_fuel cf)
                s l err s' outs HI (fun _ => I) H) as [(_ & _ & J3 & J4) _].
    rewrite J4 by exact Hc. repeat split; auto. lia.
  - destruct (server_setattr (hget (l_heap s) c0) f) as [k'|] eqn:ES; inversion H; subst; clear H; cbn.
    + destruct (N.eq_dec c c0) as [-> | D].
      * rewrite hget_hset_same. destruct (setattr_open_keeps _ _ _ HS HO ES) as (A1 & A2 & A3). auto.
      * rewrite hget_hset_other by exact D. auto.
    + auto.
Qed.

(* the object stays open in every state of the history *)
Fixpoint open_throughout (cf : cfg) (s : lstate) (c : N) (hist : list step) : Prop :=
  connected (hget (l_heap s) c) = true
  /\ match hist with
     | [] => True
     | e :: r => open_throughout cf (fst (step_fn cf s e)) c r
     end.

Lemma run_open_stable : forall hist cf s c,
  inv Ptrue Rtrue cf s -> c < l_next s -> c_server (hget (l_heap s) c) = true ->
  open_throughout cf s c hist ->
  c_address (hget (l_heap (fst (run cf s hist))) c) = c_address (hget (l_heap s) c)
  /\ c_via (hget (l_heap (fst (run cf s hist))) c) = c_via (hget (l_heap s) c).
Proof.
  induction hist as [|e r IH]; intros cf s c HI Hc HS HO.
  - cbn. auto.
  - cbn [open_throughout] in HO. destruct HO as [HO1 HO2].
    rewrite run_cons_fst. destruct (step_fn cf s e) as [s1 o] eqn:ES. cbn [fst] in *.
    destruct (step_open_stable cf s e s1 o c HI ES Hc HS HO1) as (A1 & A2 & A3 & A4).
    destruct (step_struct cf s e s1 o HI ES) as [J1 _].
    destruct (IH cf s1 c J1 A1 A4 HO2) as [B1 B2]. rewrite B1, B2. auto.
Qed.

Theorem open_immutable : forall cf ctx pre hist c,
  ctx_server cf = 1 ->
  let s := fst (run cf (init_state ctx) pre) in
  c < l_next s -> c_server (hget (l_heap s) c) = true ->
  open_throughout cf s c hist ->
  c_address (hget (l_heap (fst (run cf s hist))) c) = c_address (hget (l_heap s) c)
  /\ c_via (hget (l_heap (fst (run cf s hist))) c) = c_via (hget (l_heap s) c).
Proof.
  intros cf ctx pre hist c Hc s. apply run_open_stable.
  subst s. clear hist c. generalize (inv_init Ptrue Rtrue cf ctx Hc). generalize (init_state ctx).
  induction pre as [|e r IH]; intros s0 HI; [exact HI|].
  rewrite run_cons_fst. destruct (step_fn cf s0 e) as [s1 o] eqn:ES. cbn [fst].
  apply IH. exact (proj1 (step_struct cf s0 e s1 o HI ES)).
Qed.

Lemma setattr_guard : forall k,
  c_server k = true -> connected k = true ->
  (forall a, c_address k <> a -> server_setattr k (FAddress a) = None)
  /\ (forall v, c_via k <> v -> server_setattr k (FVia v) = None).
Proof.
  intros k H1 H2. split; [intros a; apply setattr_guard_address | intros v; apply setattr_guard_via]; assumption.
Qed.
