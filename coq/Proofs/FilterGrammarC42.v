(* Proofs/FilterGrammarC42.v -- concrete witnesses: the documented renderings outside the guard of the main
   theorem on which the grammar deviates, and a non-trivial instance inside the guard. *)
From Coq Require Import List Bool NArith.
From MV Require Import Base.Bytes Gen.FlowFilterAtoms Model.FilterGrammar Proofs.FilterGrammarExpr.
Import ListNotations.

Definition uq : expr := EAtom (EUnary [x71]).
Definition us : expr := EAtom (EUnary [x73]).
Definition ua : expr := EAtom (EUnary [x61]).
Definition sty (j : bool) (k : qstyle) (nk : bool) (a b : style) : style := Sty [] nk k j [] [] a b.

(* not (q s) with juxtaposition: rendered with the parentheses the documented precedence requires *)
Definition e_group : expr := ENot (EAnd uq us).
Definition st_group : style := sty false (QEsc false) false (sty true (QEsc false) false SNil SNil) SNil.
Lemma juxt_in_group : atoms_ok e_group = true /\ quoting_ok e_group st_group = true
  /\ render_top e_group st_group [] [] = [x21; x28; x7e; x71; x20; x7e; x73; x29]
  /\ parse_grammar (render_top e_group st_group [] []) = Fail.
Proof. vm_compute. repeat split. Qed.

(* q | s a  where  s a  is a juxtaposition: documented as q | (s & a) *)
Definition e_or : expr := EOr uq (EAnd us ua).
Definition st_or : style := sty false (QEsc false) false SNil (sty true (QEsc false) false SNil SNil).
Definition rho_q (a : atom) : bool := match a with AUnary [x71] => true | _ => false end.
Lemma juxt_or : atoms_ok e_or = true /\ quoting_ok e_or st_or = true
  /\ parse_grammar (render_top e_or st_or [] [])
     = Ok (And [Or [Atom (AUnary [x71]); Atom (AUnary [x73])]; Atom (AUnary [x61])])
  /\ eval rho_q (And [Or [Atom (AUnary [x71]); Atom (AUnary [x73])]; Atom (AUnary [x61])]) <> evalE rho_q e_or.
Proof. vm_compute. repeat split. discriminate. Qed.

(* ~u with backslash-d written between quotes without doubling the backslash *)
Definition e_raw : expr := EAtom (ERex [x75] [x5c; x64]).
Definition st_raw : style := sty false (QRaw false) false SNil SNil.
Definition rho_d (a : atom) : bool := match a with ARex _ [x5c; x64] => true | _ => false end.
Lemma raw_backslash : atoms_ok e_raw = true /\ juxt_top e_raw st_raw = true
  /\ parse_grammar (render_top e_raw st_raw [] []) = Ok (Atom (ARex [x75] [x64]))
  /\ eval rho_d (Atom (ARex [x75] [x64])) <> evalE rho_d e_raw.
Proof. vm_compute. repeat split. discriminate. Qed.

Lemma full_statement_false :
  ~ (forall e st, atoms_ok e = true ->
       exists t, parse_grammar (render_top e st [] []) = Ok t /\ forall rho, eval rho t = evalE rho e).
Proof.
  intros H. destruct (H e_group st_group) as [t [Hp _]]; [reflexivity |].
  destruct juxt_in_group as [_ [_ [_ F]]]. rewrite F in Hp. discriminate.
Qed.

(* inside the guard: (!~q | a-space-b quoted) ~c 0200  with odd spacing *)
Definition e_ok : expr :=
  EAnd (EOr (ENot uq) (EAtom (ERex [x75] [x61; x20; x62]))) (EAtom (EInt [x63] [x30; x32; x30; x30])).
Definition st_ok : style :=
  Sty [] false QBare true [WLf] []
      (Sty [] false QBare false [] [WTab] (sty false QBare false SNil SNil) (sty false (QEsc true) true SNil SNil))
      (sty false QBare false SNil SNil).
Lemma sample_ok : atoms_ok e_ok = true /\ quoting_ok e_ok st_ok = true /\ juxt_top e_ok st_ok = true
  /\ parse_grammar (render_top e_ok st_ok [WSp] [WCr])
     = Ok (And [Or [Not (Atom (AUnary [x71])); Atom (ARex [x75] [x61; x20; x62])]; Atom (AInt [x63] 200%N)]).
Proof. vm_compute. repeat split. Qed.
