(* Proofs/HeadersRoundtripExact.v -- converse of the round trip for LF-free fields: if names and
   values contain no LF, the HTTP/1 round trip returns the same fields ONLY IF every field is valid.
   Together with Proofs/HeadersRoundtrip.v: for LF-free fields, round trip <-> valid. *)
From Coq Require Import List Bool Arith NArith Lia.
From MV Require Import Base.Bytes Model.Headers Proofs.HeadersRoundtrip.
Import ListNotations.

(* ---------------------------------------------------------------- strip leaves no blank at the ends *)
Lemma lstrip_head s : match lstrip s with [] => true | c :: _ => negb (is_ws c) end = true.
Proof.
  induction s as [|c s IH]; [reflexivity|]. simpl.
  destruct (is_ws c) eqn:E; [exact IH | rewrite E; reflexivity].
Qed.

Lemma lstrip_suffix s : exists p, s = p ++ lstrip s.
Proof.
  induction s as [|c s [p IH]]; [exists []; reflexivity|]. simpl.
  destruct (is_ws c); [exists (c :: p); simpl; f_equal; exact IH | exists []; reflexivity].
Qed.

Lemma strip_ends s :
  match strip s with [] => true | c :: _ => negb (is_ws c) end = true
  /\ match rev (strip s) with [] => true | c :: _ => negb (is_ws c) end = true.
Proof.
  unfold strip, rstrip. split.
  - destruct (lstrip_suffix (rev (lstrip s))) as [p Hp].
    apply (f_equal (@rev byte)) in Hp. rewrite rev_involutive, rev_app_distr in Hp.
    pose proof (lstrip_head s) as Hh. rewrite Hp in Hh.
    destruct (rev (lstrip (rev (lstrip s)))); [reflexivity | exact Hh].
  - rewrite rev_involutive. apply lstrip_head.
Qed.

Lemma split_colon_spec s : forall a b,
  split_colon s = Some (a, b) ->
  s = a ++ x3a :: b /\ forallb (fun c => negb (byte_eqb c x3a)) a = true.
Proof.
  induction s as [|c s IH]; intros a b H; simpl in H; [discriminate|].
  destruct (byte_eqb c x3a) eqn:E.
  - inversion H; subst. apply byte_eqb_eq in E. subst c. split; reflexivity.
  - destruct (split_colon s) as [[a' b']|]; [|discriminate]. inversion H; subst.
    destruct (IH a' b eq_refl) as [H1 H2]. subst s. split; [reflexivity|].
    simpl. rewrite E, H2. reflexivity.
Qed.

(* ---------------------------------------------------------------- shape of the parser loop *)
Lemma set_last_length {A} (a : A) l x : length (removelast (a :: l) ++ [x]) = length (a :: l).
Proof.
  revert a. induction l as [|b l IH]; intros a; [reflexivity|].
  change (removelast (a :: b :: l)) with (a :: removelast (b :: l)).
  simpl. simpl in IH. rewrite IH. reflexivity.
Qed.

Lemma loop_length lines : forall acc r,
  read_headers_loop lines acc = RhOk r -> length r <= length acc + length lines.
Proof.
  induction lines as [|line lines IH]; intros acc r H; simpl in H.
  - inversion H; subst. lia.
  - destruct line as [|c line]; [discriminate|].
    destruct (byte_eqb c x20 || byte_eqb c x09).
    + destruct acc as [|a acc]; [discriminate|]. apply IH in H. rewrite set_last_length in H.
      simpl in *. lia.
    + destruct (split_colon (c :: line)) as [[name value]|]; [|discriminate].
      destruct name; [discriminate|]. apply IH in H. rewrite app_length in H. simpl in *. lia.
Qed.

Lemma loop_prefix lines : forall acc r,
  read_headers_loop lines acc = RhOk r -> length r = length acc + length lines ->
  firstn (length acc) r = acc.
Proof.
  induction lines as [|line lines IH]; intros acc r H Hl; simpl in H.
  - inversion H; subst. apply firstn_all.
  - destruct line as [|c line]; [discriminate|].
    destruct (byte_eqb c x20 || byte_eqb c x09).
    + destruct acc as [|a acc]; [discriminate|]. apply loop_length in H.
      rewrite set_last_length in H. simpl in *. lia.
    + destruct (split_colon (c :: line)) as [[name value]|]; [|discriminate].
      destruct name as [|n0 name]; [discriminate|].
      pose proof (IH _ _ H) as P. rewrite app_length in P. simpl in P, Hl.
      assert (P' : firstn (length acc + 1) r = acc ++ [(n0 :: name, strip value)]) by (apply P; lia).
      apply (f_equal (firstn (length acc))) in P'.
      rewrite firstn_firstn, Nat.min_l in P' by lia. rewrite P'.
      rewrite firstn_app, firstn_all, Nat.sub_diag. simpl. apply app_nil_r.
Qed.

(* ---------------------------------------------------------------- converse for the parser *)
Definition lf_free (f : field) : bool := no_lf (fst f) && no_lf (snd f).

Lemma forallb_and {A} (P Q : A -> bool) l :
  forallb P l = true -> forallb Q l = true -> forallb (fun x => P x && Q x) l = true.
Proof.
  induction l as [|x l IH]; simpl; [reflexivity|]. intros HP HQ.
  apply andb_true_iff in HP as [HP1 HP2]. apply andb_true_iff in HQ as [HQ1 HQ2].
  rewrite HP1, HQ1, (IH HP2 HQ2). reflexivity.
Qed.

Lemma read_headers_loop_only_valid fs : forall acc,
  forallb lf_free fs = true ->
  read_headers_loop (map line_of fs) acc = RhOk (acc ++ fs) ->
  forallb valid_field fs = true.
Proof.
  induction fs as [|[n v] fs IH]; intros acc Hlf H; [reflexivity|].
  simpl in Hlf. apply andb_true_iff in Hlf as [Hf Hlf].
  unfold lf_free in Hf. simpl in Hf. apply andb_true_iff in Hf as [Hn Hv].
  rewrite map_cons in H. unfold line_of at 1 in H. simpl fst in H. simpl snd in H.
  destruct n as [|c n].
  - simpl in H. discriminate.
  - change ((c :: n) ++ COLON_SP ++ v) with (c :: (n ++ COLON_SP ++ v)) in H.
    unfold read_headers_loop in H; fold read_headers_loop in H.
    destruct (byte_eqb c x20 || byte_eqb c x09) eqn:Ec.
    + destruct acc as [|a acc]; [discriminate|]. apply loop_length in H.
      rewrite set_last_length, app_length, map_length in H. simpl in H. lia.
    + destruct (split_colon (c :: n ++ COLON_SP ++ v)) as [[name value]|] eqn:Es; [|discriminate].
      destruct name as [|n0 name]; [discriminate|].
      pose proof (loop_prefix _ _ _ H) as P.
      rewrite !app_length, map_length in P. simpl in P.
      assert (P' : firstn (length acc + 1) (acc ++ (c :: n, v) :: fs)
                   = acc ++ [(n0 :: name, strip value)]) by (apply P; lia).
      rewrite firstn_app_2 in P'. simpl in P'. apply app_inv_head in P'.
      inversion P' as [[Hc Hname Hval]]. clear P'.
      apply split_colon_spec in Es. destruct Es as [Es Hnc]. subst n0 name.
      change (c :: n ++ COLON_SP ++ v) with ((c :: n) ++ x3a :: x20 :: v) in Es.
      apply app_inv_head in Es. inversion Es as [Hvalue]. clear Es.
      rewrite <- Hvalue in *.
      (* the remaining fields *)
      assert (Hrest : forallb valid_field fs = true).
      { apply (IH (acc ++ [(c :: n, v)]) Hlf). rewrite <- app_assoc. rewrite <- Hval in H. exact H. }
      simpl. rewrite Hrest, andb_true_r.
      unfold valid_field. simpl fst. simpl snd. apply andb_true_iff. split.
      * unfold valid_name. rewrite Ec. simpl negb. rewrite andb_true_l.
        assert (Hboth := forallb_and _ _ _ Hnc Hn).
        revert Hboth. apply forallb_weaken. intros x Hx. apply andb_true_iff in Hx as [H1 H2].
        apply negb_true_iff in H1. apply negb_true_iff in H2. rewrite H1, H2. reflexivity.
      * unfold valid_value. destruct (strip_ends (x20 :: v)) as [S1 S2].
        rewrite <- Hval in S1, S2. rewrite <- ?Hval. unfold no_lf in Hv. rewrite Hv, S1, S2. reflexivity.
Qed.

(* ---------------------------------------------------------------- exact characterisation *)
Lemma line_nolf_of_lf_free f : lf_free f = true -> no_lf (line_of f) = true.
Proof.
  unfold lf_free, line_of, no_lf. intros H. apply andb_true_iff in H as [Hn Hv].
  rewrite !forallb_app, Hn, Hv. reflexivity.
Qed.

Lemma line_nonempty f : match line_of f with [] => false | _ :: _ => true end = true.
Proof. destruct f as [[|c n] v]; reflexivity. Qed.

Theorem roundtrip_exact : forall fs,
  forallb lf_free fs = true ->
  (read_back fs = Some (RhOk fs) <-> forallb valid_field fs = true).
Proof.
  intros fs Hlf. split; [|apply roundtrip].
  unfold read_back, maybe_extract_lines, _read_headers.
  rewrite headers_bytes_ser, split_lf_ser, take_head_lines.
  - intros H. inversion H as [H']. apply (read_headers_loop_only_valid fs [] Hlf). exact H'.
  - clear. induction fs as [|f fs IH]; simpl; [reflexivity|]. rewrite line_nonempty. exact IH.
  - revert Hlf. apply forallb_weaken. apply line_nolf_of_lf_free.
Qed.
