(* Proofs/Socks5Inv.v -- state invariant of the Socks5Proxy model for every input:
   no Python exception path (Crashed) is reachable, nothing reaches the child layer
   before acceptance or after a close, a destination exists exactly when the request
   was accepted (relaying, or closed after OpenConnection failed). *)
From Coq Require Import List Bool Arith NArith Lia.
From MV Require Import Base.Bytes Model.Socks5 Proofs.Socks5Seg.
Import ListNotations.

(* observables while the handshake is still running *)
Definition hs_obs (o : obs) : Prop :=
  closed o = false /\ dest o = None /\ child o = [] /\ opened o = false.

Definition wf_state (s : st) : Prop :=
  let o := snd s in
  match fst s with
  | Greet _ | Auth _ | Connect _ => hs_obs o
  | Relay => closed o = false /\ dest o <> None
  | Done => closed o = true /\ child o = [] /\ (opened o = true -> dest o <> None)
  | Crashed => False
  end.

Lemma hs_send o d : hs_obs o -> hs_obs (send o d).
Proof. destruct o. unfold hs_obs. cbn. tauto. Qed.

Lemma hs_creds o u p : hs_obs o -> hs_obs (set_creds o u p).
Proof. destruct o. unfold hs_obs. cbn. tauto. Qed.

Lemma wf_err o code : hs_obs o -> wf_state (socks_err o code).
Proof.
  destruct o, code; unfold hs_obs, wf_state; cbn; intros (H1 & H2 & H3 & H4); subst;
    repeat split; intros; discriminate.
Qed.

Lemma wf_finish c o h p rest : hs_obs o -> wf_state (connect_finish c o h p rest).
Proof.
  destruct o. unfold hs_obs, wf_state, connect_finish, finish_start. cbn.
  intros (H1 & H2 & H3 & H4). subst.
  destruct (eager c), (open_fails c), rest; cbn; repeat split; intros; discriminate.
Qed.

Lemma length2 (l : bytes) : length l = 2 -> exists h lo, l = [h; lo].
Proof. destruct l as [|h [|lo [|x l]]]; try discriminate. intros _. exists h, lo. reflexivity. Qed.

(* the slices handed to inet_ntop / struct.unpack always have the length these expect *)
Lemma parse_ok atyp (buf : bytes) ml :
  message_len atyp buf = Some ml -> ml <= length buf ->
  (exists h, parse_host atyp (firstn ml buf) = Some h) /\
  (exists p, unpack_H (skipn (length (firstn ml buf) - 2) (firstn ml buf)) = Some p).
Proof.
  intros Hm Hl.
  assert (Lm : length (firstn ml buf) = ml) by (apply firstn_length_le; exact Hl).
  remember (firstn ml buf) as msg eqn:Em. clear Em.
  unfold message_len in Hm. unfold parse_host.
  destruct (byte_eqb atyp SOCKS5_ATYP_IPV4_ADDRESS).
  { injection Hm as <-.
    do 10 (destruct msg as [|? msg]; [discriminate Lm|]). destruct msg; [|discriminate Lm].
    split; eexists; reflexivity. }
  destruct (byte_eqb atyp SOCKS5_ATYP_IPV6_ADDRESS).
  { injection Hm as <-.
    do 22 (destruct msg as [|? msg]; [discriminate Lm|]). destruct msg; [|discriminate Lm].
    split; eexists; reflexivity. }
  destruct (byte_eqb atyp SOCKS5_ATYP_DOMAINNAME); [|discriminate Hm].
  injection Hm as <-.
  split; [eexists; reflexivity|].
  destruct (length2 (skipn (length msg - 2) msg)) as (h & lo & E).
  { rewrite skipn_length. lia. }
  rewrite E. eexists; reflexivity.
Qed.

Lemma wf_connect c buf o : hs_obs o -> wf_state (state_connect c buf o).
Proof.
  intros Ho. unfold state_connect.
  destruct (length buf <? 5); [exact Ho|].
  destruct (negb (bytes_eqb (firstn 3 buf) [x05; x01; x00])); [apply wf_err; exact Ho|].
  destruct (message_len (at_ 3 buf) buf) as [ml|] eqn:Em; [|apply wf_err; exact Ho].
  destruct (length buf <? ml) eqn:El; [exact Ho|].
  apply Nat.ltb_ge in El.
  destruct (parse_ok _ _ _ Em El) as [[h Hh] [p Hp]].
  rewrite Hh, Hp. apply wf_finish. exact Ho.
Qed.

Lemma wf_auth c buf o : hs_obs o -> wf_state (state_auth c buf o).
Proof.
  intros Ho. unfold state_auth.
  destruct (length buf <? 3); [exact Ho|].
  destruct (length buf <? 3 + blen (at_ 1 buf)); [exact Ho|].
  destruct (length buf <? _); [exact Ho|].
  destruct (negb (authok c _ _)).
  - apply wf_err. apply hs_send, hs_creds, Ho.
  - apply wf_connect. apply hs_send, hs_creds, Ho.
Qed.

Lemma wf_greet c buf o : hs_obs o -> wf_state (state_greet c buf o).
Proof.
  intros Ho. unfold state_greet.
  destruct (length buf <? 2); [exact Ho|].
  destruct (negb (byte_eqb (at_ 0 buf) SOCKS5_VERSION)); [apply wf_err; exact Ho|].
  destruct (length buf <? _); [exact Ho|].
  destruct (negb (existsb _ _)); [apply wf_err; exact Ho|].
  destruct (proxyauth c); [apply wf_auth | apply wf_connect]; apply hs_send, Ho.
Qed.

Theorem run_wf c (segs : list bytes) : wf_state (run c segs).
Proof.
  rewrite segmentation_independent. unfold run. cbn [feed_all fold_left handle_data st0 fst snd app].
  apply wf_greet. unfold hs_obs, obs0. cbn. repeat split.
Qed.

Corollary never_crashes c (segs : list bytes) : fst (run c segs) <> Crashed.
Proof. pose proof (run_wf c segs) as H. unfold wf_state in H. intros E. rewrite E in H. exact H. Qed.
