(* Proofs/MvMultipartMain.v -- the decoder reads back what the encoder wrote, for representable
   boundaries and parts; counterexamples outside the guard (C34). *)
From Coq Require Import List Bool NArith Lia.
From MV Require Import Base.Bytes Model.MvCommon Model.MvUrl Model.MvMultipart
  Proofs.MvCommonLemmas Proofs.MvMultipartProofs.
Import ListNotations.

Lemma Dl_chars b : boundary_ok b = true -> forallb okb (Dl b) = true.
Proof. intros H. apply andb_true_iff in H as [_ H]. unfold Dl, DD. simpl. exact H. Qed.

Lemma Dl_ne b : Dl b <> [].
Proof. discriminate. Qed.

Lemma Dl_no b c : boundary_ok b = true -> okb c = false -> memb c (Dl b) = false.
Proof. intros H Hc. apply (forallb_memb_false okb); [apply Dl_chars, H|exact Hc]. Qed.

Definition CDP : bytes := removelast CD_PREFIX.

Lemma CDL_split k : CDL k = CDP ++ DQ :: (k ++ DQ :: []).
Proof. reflexivity. Qed.

Lemma const_no_dd b s : contains DD s = false -> contains (Dl b) s = false.
Proof. unfold Dl, DD. simpl app. apply contains2. Qed.

Lemma chunk_nocontain b k v :
  boundary_ok b = true -> key_ok b k = true -> val_ok b v = true ->
  contains (Dl b) (chunk (k, v)) = false.
Proof.
  intros Hb Hk Hv. unfold key_ok in Hk. unfold val_ok in Hv.
  apply andb_true_iff in Hk as [Hk Hk4]. apply andb_true_iff in Hk as [Hk _].
  apply negb_true_iff in Hk4. apply andb_true_iff in Hv as [_ Hv2]. apply negb_true_iff in Hv2.
  pose proof (Dl_ne b) as Hne.
  pose proof (Dl_no b CR Hb eq_refl) as Hcr. pose proof (Dl_no b LF Hb eq_refl) as Hlf.
  pose proof (Dl_no b DQ Hb eq_refl) as Hdq.
  unfold chunk. cbn [fst snd].
  rewrite (contains_cons_sep _ CR) by assumption. rewrite (contains_cons_sep _ LF) by assumption.
  rewrite (contains_sep _ CR) by assumption. rewrite (contains_cons_sep _ LF) by assumption.
  rewrite (contains_sep _ CR) by assumption. rewrite (contains_cons_sep _ LF) by assumption.
  rewrite (contains_cons_sep _ CR) by assumption. rewrite (contains_cons_sep _ LF) by assumption.
  rewrite (contains_sep _ CR) by assumption. rewrite (contains_cons_sep _ LF) by assumption.
  rewrite (contains_cons_sep _ CR) by assumption. rewrite (contains_cons_sep _ LF) by assumption.
  rewrite (contains_nil _ Hne), Hv2.
  rewrite (const_no_dd b CT_LINE) by (vm_compute; reflexivity).
  rewrite CDL_split. rewrite (contains_sep _ DQ) by assumption. rewrite (contains_sep _ DQ) by assumption.
  rewrite (contains_nil _ Hne), Hk4.
  rewrite (const_no_dd b CDP) by (vm_compute; reflexivity). reflexivity.
Qed.

Definition chunk_init (kv : bytes * bytes) : bytes :=
  CR :: LF :: (CDL (fst kv) ++ CR :: LF :: (CT_LINE ++ CR :: LF :: CR :: LF :: (snd kv ++ [CR; LF; CR]))).

Lemma chunk_last kv : chunk kv = chunk_init kv ++ [LF].
Proof.
  unfold chunk, chunk_init. cbn [app]. repeat (progress (rewrite <- ?app_assoc; cbn [app])). reflexivity.
Qed.

Lemma chunk_nomatch b kv t :
  boundary_ok b = true -> key_ok b (fst kv) = true -> val_ok b (snd kv) = true ->
  nomatch (Dl b) (chunk kv) t = true.
Proof.
  intros Hb Hk Hv. rewrite chunk_last. apply nomatch_intro.
  - apply Dl_ne.
  - apply Dl_no; [exact Hb|reflexivity].
  - rewrite <- chunk_last. destruct kv as [k v]. apply chunk_nocontain; assumption.
Qed.

Lemma LAST_nomatch b : boundary_ok b = true -> nomatch (Dl b) LAST [] = true.
Proof.
  intros Hb. change LAST with ([x2d; x2d; x0d] ++ [LF]). apply nomatch_intro.
  - apply Dl_ne.
  - apply Dl_no; [exact Hb|reflexivity].
  - change ([x2d; x2d; x0d] ++ [LF]) with ([x2d; x2d] ++ CR :: [LF]).
    rewrite (contains_sep _ CR) by (first [apply Dl_ne | apply Dl_no; [exact Hb|reflexivity]]).
    change [LF] with ([] ++ LF :: []).
    rewrite (contains_sep _ LF) by (first [apply Dl_ne | apply Dl_no; [exact Hb|reflexivity]]).
    rewrite (contains_nil _ (Dl_ne b)).
    apply andb_true_iff in Hb as [Hb _]. destruct b as [|b0 b]; [discriminate|]. reflexivity.
Qed.

Lemma split_body b parts :
  boundary_ok b = true -> parts_ok b parts = true ->
  split_sub (Dl b) (body b parts) = [] :: map chunk parts ++ [LAST].
Proof.
  intros Hb Hp. unfold split_sub, body. induction parts as [|kv parts IH].
  - cbn [map concat]. rewrite app_nil_l. rewrite split_match by apply Dl_ne.
    rewrite <- (app_nil_r LAST) at 1.
    rewrite (split_nomatch (Dl b) LAST [] [] []); [rewrite app_nil_r; reflexivity|apply LAST_nomatch, Hb|reflexivity].
  - unfold parts_ok in Hp. simpl in Hp. apply andb_true_iff in Hp as [H1 H2].
    apply andb_true_iff in H1 as [Hk Hv]. specialize (IH H2).
    cbn [map concat]. rewrite <- !app_assoc. rewrite split_match by apply Dl_ne.
    rewrite (split_nomatch (Dl b) (chunk kv) _ [] (map chunk parts ++ [LAST])).
    + rewrite app_nil_r. reflexivity.
    + apply chunk_nomatch; assumption.
    + exact IH.
Qed.

(* ---------- one chunk ---------- *)
Lemma noline_const s : forallb (fun c => negb (nl c)) s = true -> noline s = true.
Proof. intros H; exact H. Qed.

Lemma rx_search_CDL k :
  nonempty k = true -> memb DQ k = false -> rx_search (CDL k) = Some k.
Proof.
  intros Hne Hq. unfold rx_search, CDL, CD_PREFIX. cbn [app].
  cbn -[span skipn app].
  cbn [skipn].
  rewrite (span_app (fun b => negb (byte_eqb b DQ)) k DQ []).
  - destruct k; [discriminate|reflexivity].
  - rewrite forallb_forall. intros x Hx. apply negb_true_iff. rewrite byte_eqb_sym.
    eapply memb_false_neq; eauto.
  - reflexivity.
Qed.

Lemma decode_chunk_ok b k v :
  key_ok b k = true -> val_ok b v = true -> decode_chunk (chunk (k, v)) = Add (k, v).
Proof.
  intros Hk Hv. unfold key_ok in Hk. unfold val_ok in Hv.
  apply andb_true_iff in Hk as [Hk _]. apply andb_true_iff in Hk as [Hk Hq].
  apply andb_true_iff in Hk as [Hne Hnl]. apply negb_true_iff in Hq.
  apply andb_true_iff in Hv as [Hvl _].
  assert (Hcdl : noline (CDL k) = true).
  { unfold CDL, noline. rewrite !forallb_app. fold (noline k). rewrite Hnl. reflexivity. }
  unfold decode_chunk, chunk. cbn [fst snd].
  change (CR :: LF :: CDL k ++ ?r) with ([] ++ CR :: LF :: CDL k ++ r).
  rewrite splitlines_line by reflexivity.
  rewrite splitlines_line by exact Hcdl.
  rewrite splitlines_line by reflexivity.
  change (CR :: LF :: v ++ ?r) with ([] ++ CR :: LF :: v ++ r).
  rewrite splitlines_line by reflexivity.
  rewrite splitlines_line by exact Hvl.
  change [CR; LF] with ([] ++ CR :: LF :: []).
  rewrite splitlines_line by reflexivity.
  cbn [splitlines]. cbn [starts_with DD negb].
  rewrite rx_search_CDL by assumption.
  cbn [index_empty CT_LINE]. cbn [skipn concat]. rewrite !app_nil_r. reflexivity.
Qed.

Lemma collect_chunks b parts :
  parts_ok b parts = true -> collect (map decode_chunk (map chunk parts ++ [LAST])) = Some parts.
Proof.
  intros Hp. induction parts as [|[k v] parts IH].
  - vm_compute. reflexivity.
  - unfold parts_ok in Hp. simpl in Hp. apply andb_true_iff in Hp as [H1 H2].
    apply andb_true_iff in H1 as [Hk Hv]. cbn [map app]. rewrite (decode_chunk_ok b k v Hk Hv).
    cbn [collect]. rewrite (IH H2). reflexivity.
Qed.

(* ---------- main theorem ---------- *)
Theorem multipart_roundtrip b parts :
  boundary_ok b = true -> parts_ok b parts = true ->
  exists content, set_multipart_form b parts = Some content /\ get_multipart_form b content = parts.
Proof.
  intros Hb Hp. exists (body b parts). split.
  - apply encode_ok; assumption.
  - unfold get_multipart_form, decode_multipart. fold (Dl b).
    rewrite split_body by assumption. simpl map.
    change (decode_chunk []) with Skip. cbn [collect].
    rewrite (collect_chunks b parts Hp). reflexivity.
Qed.

Theorem multipart_functions_roundtrip b parts :
  boundary_ok b = true -> parts_ok b parts = true ->
  exists content, encode_multipart (Some b) parts = Some content
                  /\ decode_multipart (Some b) content = Some parts.
Proof.
  intros Hb Hp. exists (body b parts). split; [apply encode_ok; assumption|].
  unfold decode_multipart. fold (Dl b). rewrite split_body by assumption. simpl map.
  change (decode_chunk []) with Skip. cbn [collect]. apply (collect_chunks b parts Hp).
Qed.

(* ---------- outside the guard: concrete losses (each clause of the guard is needed) ---------- *)
Definition bnd : bytes := [x58; x59].                       (* XY *)
Definition view (b : bytes) (parts : pairs) : option pairs :=
  match set_multipart_form b parts with Some c => Some (get_multipart_form b c) | None => None end.

(* value a CR LF b reads back as ab *)
Lemma refuted_value_newline : view bnd [([x6b], [x61; x0d; x0a; x62])] = Some [([x6b], [x61; x62])].
Proof. vm_compute. reflexivity. Qed.
(* name a, double quote, b reads back as a *)
Lemma refuted_name_quote : view bnd [([x61; x22; x62], [x76])] = Some [([x61], [x76])].
Proof. vm_compute. reflexivity. Qed.
(* a part with an empty name is dropped *)
Lemma refuted_empty_name : view bnd [([], [x76]); ([x6b], [x77])] = Some [([x6b], [x77])].
Proof. vm_compute. reflexivity. Qed.
(* boundary a=b: the body uses a%3Db, the header keeps a=b: everything is lost *)
Lemma refuted_boundary_quoted : view [x61; x3d; x62] [([x6b], [x76])] = Some [].
Proof. vm_compute. reflexivity. Qed.
(* a value containing the delimiter is cut there (not representable with this boundary) *)
Lemma delimiter_in_value : view bnd [([x6b], [x61; x2d; x2d; x58; x59; x62])] = Some [([x6b], [x61])].
Proof. vm_compute. reflexivity. Qed.

Lemma nonvacuous_sample :
  boundary_ok bnd = true /\ parts_ok bnd [([x6b; x31], [x61; x20; x2d; x2d; xff]); ([x6b; x31], [])] = true
  /\ view bnd [([x6b; x31], [x61; x20; x2d; x2d; xff]); ([x6b; x31], [])]
     = Some [([x6b; x31], [x61; x20; x2d; x2d; xff]); ([x6b; x31], [])].
Proof. vm_compute. repeat split; reflexivity. Qed.
