(* Proofs/Http1FramingMain.v -- framing_agree for requests and responses, and the rejection theorems (d). *)
From Coq Require Import List Bool NArith ZArith Lia ZifyBool.
From MV Require Import Base.Bytes Model.Http1Msg Model.BodySizePrelude Gen.BodySize Model.Rfc9112
  Proofs.Http1Regex Proofs.Http1Validate Proofs.Http1TeNorm Proofs.Http1Lower Proofs.Http1Framing.
Import ListNotations.

Definition IDENTITY : bytes := [x69;x64;x65;x6e;x74;x69;x74;x79].

(* rules 5-7 of expected_http_body_size, shared by all its branches *)
Definition cl_part (is_resp : bool) (hs : headers) : res (option Z) :=
  let cl := hget CONTENT_LENGTH hs in
  if opt_truthy cl then bind (parse_content_length true (opt_val cl)) (fun n => Ok (Some n))
  else if is_resp then Ok (Some (-1)%Z) else Ok (Some 0%Z).

Definition te_part (is_resp : bool) (hs : headers) : res (option Z) :=
  let te := hget TRANSFER_ENCODING hs in
  if opt_truthy te then
    bind (parse_transfer_encoding true (opt_val te))
      (fun t => if in_set t (firstn 4 SET) then Ok None
                else if in_set t (skipn 4 SET) then
                       (if is_resp then Ok (Some (-1)%Z)
                        else if bytes_eqb t IDENTITY || hcontains CONTENT_LENGTH hs then cl_part is_resp hs
                             else Ok (Some (-1)%Z))
                     else OtherError)
  else cl_part is_resp hs.

Lemma ehbs_request r : expected_http_body_size r None = te_part false (rq_headers r).
Proof. reflexivity. Qed.

Lemma ehbs_response q r :
  expected_http_body_size q (Some r) =
  if bytes_eqb (upper (rq_method q)) HEAD then Ok (Some 0%Z)
  else if Z.leb 100 (rs_status r) && Z.leb (rs_status r) 199 then Ok (Some 0%Z)
  else if Z.eqb (rs_status r) 204 || Z.eqb (rs_status r) 304 then Ok (Some 0%Z)
  else if (Z.leb 200 (rs_status r) && Z.leb (rs_status r) 299) && bytes_eqb (upper (rq_method q)) CONNECT then Ok (Some 0%Z)
  else te_part true (rs_headers r).
Proof. reflexivity. Qed.

Lemma hget_of key hs : hget key hs = match get_all key hs with [] => None | vs => Some (join_comma_sp vs) end.
Proof. reflexivity. Qed.

(* what an accepted message looks like *)
Inductive accepted_framing (m : message) : Prop :=
| AF_none : get_all TRANSFER_ENCODING (msg_headers m) = [] -> get_all CONTENT_LENGTH (msg_headers m) = [] -> accepted_framing m
| AF_cl v n : get_all TRANSFER_ENCODING (msg_headers m) = [] -> get_all CONTENT_LENGTH (msg_headers m) = [v] ->
    v <> [] -> forallb is_digit v = true -> dec_value v 0%N = Some n -> canon_dec v = true ->
    parse_content_length false v = Ok (Z.of_N n) -> accepted_framing m
| AF_te v t : get_all TRANSFER_ENCODING (msg_headers m) = [v] -> get_all CONTENT_LENGTH (msg_headers m) = [] ->
    is_http11 m = true -> parse_transfer_encoding false v = Ok t ->
    (is_request m = true -> in_set t (firstn 4 SET) = true) ->
    (is_response m = true -> (Z.leb 100 (status_code m) && Z.leb (status_code m) 199) || Z.eqb (status_code m) 204 = false) ->
    accepted_framing m.

Lemma validate_accepts m : validate_headers m = Ok tt ->
  forallb field_ok (msg_headers m) = true /\ accepted_framing m.
Proof.
  rewrite validate_headers_spec. destruct (forallb field_ok (msg_headers m)) eqn:F; [|discriminate].
  intros H. split; auto. unfold vh_decide in H.
  destruct (get_all TRANSFER_ENCODING (msg_headers m)) as [|v te] eqn:Ete;
  destruct (get_all CONTENT_LENGTH (msg_headers m)) as [|c cl] eqn:Ecl; cbn [nonempty andb] in H; try discriminate.
  - apply AF_none; auto.
  - destruct cl; cbn [len_gt1] in H; [|discriminate]. cbn [first_or_empty] in H.
    destruct (parse_content_length false c) as [z| |] eqn:P; try discriminate.
    assert (B : bad_value c = false) by (apply (field_ok_value _ CONTENT_LENGTH _ F); rewrite Ecl; left; reflexivity).
    destruct (pcl_ok c z (not_bad_nolf _ B) P) as (Hne & Hd & n & Hn & ->).
    apply (AF_cl m c n); auto.
    unfold parse_content_length in P. cbv zeta in P.
    rewrite (re_match_anchored_nolf _ _ (not_bad_nolf _ B)), cl_lang_bytes in P.
    destruct (canon_dec c); auto; discriminate.
  - destruct te; cbn [len_gt1] in H; [|discriminate]. cbn [first_or_empty] in H.
    destruct (is_http11 m) eqn:V; cbn [negb] in H; [|discriminate].
    destruct (is_response m && ((100 <=? status_code m)%Z && (status_code m <=? 199)%Z || (status_code m =? 204)%Z)) eqn:S;
      [discriminate|].
    destruct (parse_transfer_encoding false v) as [t| |] eqn:P; try discriminate. cbn [bind] in H.
    apply (AF_te m v t); auto.
    + intros R. fold SET in H. destruct (in_set t (firstn 4 SET)); auto.
      destruct (in_set t (skipn 4 SET)); [rewrite R in H|]; discriminate.
    + intros R. rewrite R in S. exact S.
Qed.

(* ---------- (a) framing_agree *)
Theorem framing_agree_request r :
  validate_headers (MReq r) = Ok tt ->
  exists sz bl, expected_http_body_size r None = Ok sz
             /\ request_body_length (rq_version r) (rq_headers r) = Some bl /\ size_agrees sz bl.
Proof.
  intros H. destruct (validate_accepts _ H) as [F A]. rewrite ehbs_request.
  unfold request_body_length, fields_body_length. rewrite field_values_te, field_values_cl.
  unfold te_part, cl_part. rewrite !hget_of.
  destruct A as [Ete Ecl | v n Ete Ecl Hne Hd Hn _ P | v t Ete Ecl V P Rq _]; simpl msg_headers in *; rewrite Ete, Ecl.
  - exists (Some 0%Z), BLZero. simpl. auto.
  - exists (Some (Z.of_N n)), (BLLen n). cbn [join_comma_sp opt_truthy opt_val].
    destruct v as [|x v]; [congruence|]. rewrite pcl_flag, P. cbn [bind].
    split; auto. split; [|reflexivity]. apply (ref_cl_single (x :: v) n Hne Hd Hn).
  - destruct (ref_te_single v t P) as (n & ns & Hc & Hl & _).
    assert (Hv : v <> []) by (intros ->; vm_compute in P; discriminate).
    exists None, BLChunked. cbn [join_comma_sp opt_truthy opt_val].
    destruct v as [|x v]; [congruence|]. rewrite pte_flag, P. cbn [bind]. rewrite (Rq eq_refl).
    split; auto. split; [|exact I].
    unfold is_http11 in V. simpl msg_version in V. apply bytes_eqb_eq in V. rewrite V.
    change (version_lt_11 HTTP11) with false. cbv iota. rewrite Hc, Hl, (Rq eq_refl). reflexivity.
Qed.

(* the request method as the reference reads it (case-sensitive) agrees with mitmproxy's upper-cased test *)
Definition method_case_ok (m : bytes) : Prop :=
  bytes_eqb (upper m) HEAD = bytes_eqb m r_HEAD /\ bytes_eqb (upper m) CONNECT = bytes_eqb m r_CONNECT.

Theorem framing_agree_response q r st :
  validate_headers (MResp r) = Ok tt ->
  rs_status r = Z.of_N st -> method_case_ok (rq_method q) ->
  exists sz bl, expected_http_body_size q (Some r) = Ok sz
             /\ response_body_length (rq_method q) st (rs_version r) (rs_headers r) = Some bl /\ size_agrees sz bl.
Proof.
  intros H Hst [Mh Mc]. destruct (validate_accepts _ H) as [F A]. rewrite ehbs_response, Mh, Mc, Hst.
  unfold response_body_length.
  destruct (bytes_eqb (rq_method q) r_HEAD); [exists (Some 0%Z), BLZero; simpl; auto|].
  replace (Z.leb 100 (Z.of_N st) && Z.leb (Z.of_N st) 199) with ((100 <=? st) && (st <=? 199))%N
    by (destruct (100 <=? st)%N eqn:A1, (st <=? 199)%N eqn:A2, (Z.leb 100 (Z.of_N st)) eqn:B1, (Z.leb (Z.of_N st) 199) eqn:B2; auto; lia).
  destruct ((100 <=? st) && (st <=? 199))%N; [exists (Some 0%Z), BLZero; simpl; auto|].
  replace (Z.eqb (Z.of_N st) 204 || Z.eqb (Z.of_N st) 304) with (N.eqb st 204 || N.eqb st 304)
    by (destruct (N.eqb st 204) eqn:A1, (N.eqb st 304) eqn:A2, (Z.eqb (Z.of_N st) 204) eqn:B1, (Z.eqb (Z.of_N st) 304) eqn:B2; auto; lia).
  destruct (N.eqb st 204 || N.eqb st 304); [exists (Some 0%Z), BLZero; simpl; auto|].
  replace (Z.leb 200 (Z.of_N st) && Z.leb (Z.of_N st) 299) with ((200 <=? st) && (st <=? 299))%N
    by (destruct (200 <=? st)%N eqn:A1, (st <=? 299)%N eqn:A2, (Z.leb 200 (Z.of_N st)) eqn:B1, (Z.leb (Z.of_N st) 299) eqn:B2; auto; lia).
  rewrite andb_comm.
  destruct (bytes_eqb (rq_method q) r_CONNECT && ((200 <=? st) && (st <=? 299))%N); [exists (Some 0%Z), BLTunnel; simpl; auto|].
  unfold fields_body_length. rewrite field_values_te, field_values_cl.
  unfold te_part, cl_part. rewrite !hget_of.
  destruct A as [Ete Ecl | v n Ete Ecl Hne Hd Hn _ P | v t Ete Ecl V P _ _]; simpl msg_headers in *; rewrite Ete, Ecl.
  - exists (Some (-1)%Z), BLUntilClose. simpl. auto.
  - exists (Some (Z.of_N n)), (BLLen n). cbn [join_comma_sp opt_truthy opt_val].
    destruct v as [|x v]; [congruence|]. rewrite pcl_flag, P. cbn [bind].
    split; auto. split; [|reflexivity]. apply (ref_cl_single (x :: v) n Hne Hd Hn).
  - destruct (ref_te_single v t P) as (n & ns & Hc & Hl & Hk).
    assert (Hv : v <> []) by (intros ->; vm_compute in P; discriminate).
    unfold is_http11 in V. simpl msg_version in V. apply bytes_eqb_eq in V. rewrite V.
    change (version_lt_11 HTTP11) with false. cbv iota. rewrite Hc, Hl.
    cbn [join_comma_sp opt_truthy opt_val].
    destruct v as [|x v]; [congruence|]. rewrite pte_flag, P. cbn [bind]. rewrite Hk.
    destruct (in_set t (firstn 4 SET)); cbn [negb].
    + exists None, BLChunked. repeat split.
    + exists (Some (-1)%Z), BLUntilClose. repeat split.
Qed.

(* ---------- (d) ambiguous framing is rejected by validate_headers *)
Theorem rejects_te_and_cl m :
  get_all TRANSFER_ENCODING (msg_headers m) <> [] -> get_all CONTENT_LENGTH (msg_headers m) <> [] ->
  validate_headers m <> Ok tt.
Proof.
  intros Ht Hc H. destruct (validate_accepts _ H) as [_ [A B|? ? A B|? ? A B]]; congruence.
Qed.

Theorem rejects_duplicate_cl m a b rest :
  get_all CONTENT_LENGTH (msg_headers m) = a :: b :: rest -> validate_headers m <> Ok tt.
Proof.
  intros Hc H. destruct (validate_accepts _ H) as [_ [A B|? ? A B|? ? A B]]; congruence.
Qed.

Theorem rejects_duplicate_te m a b rest :
  get_all TRANSFER_ENCODING (msg_headers m) = a :: b :: rest -> validate_headers m <> Ok tt.
Proof.
  intros Hc H. destruct (validate_accepts _ H) as [_ [A B|? ? A B|? ? A B]]; congruence.
Qed.

Theorem rejects_malformed_cl m v :
  get_all CONTENT_LENGTH (msg_headers m) = [v] -> canon_dec v = false -> validate_headers m <> Ok tt.
Proof.
  intros Hc Hv H. destruct (validate_accepts _ H) as [_ [A B|? ? A B ? ? ? C|? ? A B]]; congruence.
Qed.

Theorem rejects_unknown_te m v :
  get_all TRANSFER_ENCODING (msg_headers m) = [v] -> in_set (norm (lower v)) SET = false -> validate_headers m <> Ok tt.
Proof.
  intros Hc Hv H. destruct (validate_accepts _ H) as [_ [A B|? ? A B|? t A B _ P]]; try congruence.
  rewrite Hc in A. injection A as <-. destruct (pte_ok _ _ P) as [-> K]. congruence.
Qed.

Theorem rejects_te_before_http11 m :
  get_all TRANSFER_ENCODING (msg_headers m) <> [] -> msg_version m <> HTTP11 -> validate_headers m <> Ok tt.
Proof.
  intros Hc Hv H. destruct (validate_accepts _ H) as [_ [A B|? ? A B|? t A B V]]; try congruence.
  unfold is_http11 in V. apply bytes_eqb_eq in V. congruence.
Qed.

Theorem rejects_te_not_chunked_request r v :
  get_all TRANSFER_ENCODING (rq_headers r) = [v] -> in_set (norm (lower v)) (firstn 4 SET) = false ->
  validate_headers (MReq r) <> Ok tt.
Proof.
  intros Hc Hv H. destruct (validate_accepts _ H) as [_ [A B|? ? A B|? t A B _ P Rq]]; simpl in *; try congruence.
  rewrite Hc in A. injection A as <-. destruct (pte_ok _ _ P) as [-> K]. rewrite (Rq eq_refl) in Hv. discriminate.
Qed.

Theorem rejects_invalid_name m n v :
  In (n, v) (msg_headers m) -> existsb (byte_eqb LF) n = false -> is_token n = false -> validate_headers m <> Ok tt.
Proof.
  intros Hin Hlf Ht H. destruct (validate_accepts _ H) as [F _].
  rewrite forallb_forall in F. specialize (F _ Hin). unfold field_ok in F. simpl in F.
  apply andb_true_iff in F as [F _]. rewrite (valid_name_token _ Hlf) in F. congruence.
Qed.

Theorem rejects_cr_lf_nul_value m n v c :
  In (n, v) (msg_headers m) -> In c v -> (c = x0d \/ c = x0a \/ c = x00) -> validate_headers m <> Ok tt.
Proof.
  intros Hin Hc Hcc H. destruct (validate_accepts _ H) as [F _].
  rewrite forallb_forall in F. specialize (F _ Hin). unfold field_ok in F. simpl in F.
  apply andb_true_iff in F as [_ F]. apply negb_true_iff in F. unfold bad_value in F.
  apply orb_false_iff in F as [F F3]. apply orb_false_iff in F as [F1 F2].
  rewrite contains1 in F1, F2, F3.
  assert (E : forall d, In d v -> existsb (byte_eqb d) v = true).
  { intros d Hd. apply existsb_exists. exists d. split; auto using byte_eqb_refl. }
  destruct Hcc as [->|[->| ->]]; rewrite (E _ Hc) in *; discriminate.
Qed.

(* "head" in lower case: mitmproxy upper-cases the method, the reference (RFC 9110 9.1) does not *)
Lemma head_case_refuted : exists q r sz bl,
  validate_headers (MResp r) = Ok tt /\ expected_http_body_size q (Some r) = Ok sz
  /\ response_body_length (rq_method q) 200 (rs_version r) (rs_headers r) = Some bl /\ ~ size_agrees sz bl.
Proof.
  exists (mkReq [] 0 [x68;x65;x61;x64] [] [] [x2f] HTTP11 []),
         (mkResp HTTP11 200 [x4f;x4b] [(CONTENT_LENGTH, [x35])]), (Some 0%Z), (BLLen 5).
  split; [vm_compute; reflexivity|]. split; [vm_compute; reflexivity|]. split; [vm_compute; reflexivity|].
  simpl. discriminate.
Qed.
