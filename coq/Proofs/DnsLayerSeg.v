(* Proofs/DnsLayerSeg.v -- segmentation independence of DNSLayer over TCP, closing on malformed
   frames, and the structure of the SERVFAIL path. *)
From Coq Require Import List Bool Arith NArith Lia.
From MV Require Import Base.Bytes Model.DnsLayer Proofs.DnsLayerFrame.
Import ListNotations.

Lemma apply_act_req a f : f_req (apply_act a f) = f_req f.
Proof. destruct a; try reflexivity. cbn [apply_act]. destruct (f_req f) eqn:E; [reflexivity | exact E]. Qed.

(* ---------- the handlers never look at the TCP buffers ---------- *)

Definition wb (fc : bool) (b : bytes) (p : st * list out) : st * list out :=
  (with_buf (fst p) fc b, snd p).

Lemma pop_act_buf s fc b :
  pop_act (with_buf s fc b) = (fst (pop_act s), with_buf (snd (pop_act s)) fc b).
Proof. unfold pop_act. cbn [s_script with_buf]. destruct (s_script s); reflexivity. Qed.

Lemma handle_response_buf c s fc b i f m :
  handle_response c (with_buf s fc b) i f m = wb fc b (handle_response c s i f m).
Proof.
  unfold handle_response. rewrite pop_act_buf. destruct (pop_act s) as [a s1]. reflexivity.
Qed.

Lemma handle_error_buf c s fc b i f :
  handle_error c (with_buf s fc b) i f = wb fc b (handle_error c s i f).
Proof.
  unfold handle_error. rewrite pop_act_buf. destruct (pop_act s) as [a s1]. cbn [fst snd].
  destruct (f_req _); reflexivity.
Qed.

Lemma wb_cons fc b p (h : out) :
  (let (s2, o) := wb fc b p in (s2, h :: o)) = wb fc b (let (s2, o) := p in (s2, h :: o)).
Proof. destruct p; reflexivity. Qed.

Lemma wb_cons2 fc b p (h h' : out) :
  (let (s2, o) := wb fc b p in (s2, h :: h' :: o)) = wb fc b (let (s2, o) := p in (s2, h :: h' :: o)).
Proof. destruct p; reflexivity. Qed.

Lemma handle_request_buf c s fc b i f m :
  handle_request c (with_buf s fc b) i f m = wb fc b (handle_request c s i f m).
Proof.
  unfold handle_request. rewrite pop_act_buf. destruct (pop_act s) as [a s1]. cbn [fst snd].
  destruct (f_resp _).
  { rewrite handle_response_buf. apply wb_cons. }
  destruct (f_err _).
  { rewrite handle_error_buf. apply wb_cons. }
  destruct (negb (has_addr c)).
  { rewrite handle_error_buf. apply wb_cons. }
  change (s_srv (with_buf s1 fc b)) with (s_srv s1).
  destruct (s_srv s1); [reflexivity|].
  change (s_conn (with_buf s1 fc b)) with (s_conn s1).
  destruct (s_conn s1) as [|[|] cn].
  - rewrite handle_error_buf. apply wb_cons2.
  - reflexivity.
  - change (with_srv (with_buf s1 fc b) false cn) with (with_buf (with_srv s1 false cn) fc b).
    rewrite handle_error_buf. apply wb_cons2.
Qed.

Lemma handle_msg_buf c fc' s fc b m :
  handle_msg c fc' (with_buf s fc b) m = wb fc b (handle_msg c fc' s m).
Proof.
  unfold handle_msg.
  change (s_crashed (with_buf s fc b)) with (s_crashed s).
  destruct (s_crashed s); [reflexivity|].
  change (s_flows (with_buf s fc b)) with (s_flows s).
  destruct (find_flow (m_id m) (s_flows s)) as [f|].
  - destruct fc'.
    + destruct (fix_fresh c && answered f).
      * change (new_flow (retire (note_msg (with_buf s fc b) true m) f))
          with (let p := new_flow (retire (note_msg s true m) f) in (fst p, with_buf (snd p) fc b)).
        destruct (new_flow (retire (note_msg s true m) f)) as [g s1]. cbn [fst snd].
        apply handle_request_buf.
      * change (note_msg (with_buf s fc b) true m) with (with_buf (note_msg s true m) fc b).
        apply handle_request_buf.
    + change (note_msg (with_buf s fc b) false m) with (with_buf (note_msg s false m) fc b).
      apply handle_response_buf.
  - destruct fc'.
    + change (new_flow (note_msg (with_buf s fc b) true m))
        with (let p := new_flow (note_msg s true m) in (fst p, with_buf (snd p) fc b)).
      destruct (new_flow (note_msg s true m)) as [g s1]. cbn [fst snd].
      apply handle_request_buf.
    + destruct (fix_drop c); [reflexivity|].
      change (new_flow (note_msg (with_buf s fc b) false m))
        with (let p := new_flow (note_msg s false m) in (fst p, with_buf (snd p) fc b)).
      destruct (new_flow (note_msg s false m)) as [g s1]. cbn [fst snd].
      apply handle_response_buf.
Qed.

Lemma handle_msgs_buf c fc' ms : forall s fc b,
  handle_msgs c fc' (with_buf s fc b) ms = wb fc b (handle_msgs c fc' s ms).
Proof.
  induction ms as [|m r IH]; intros s fc b; [reflexivity|].
  cbn [handle_msgs]. rewrite handle_msg_buf.
  destruct (handle_msg c fc' s m) as [s1 o1]. unfold wb at 1. cbn [fst snd].
  rewrite IH. destruct (handle_msgs c fc' s1 r) as [s2 o2]. reflexivity.
Qed.

Lemma handle_msgs_app c fc a : forall s b,
  handle_msgs c fc s (a ++ b) =
  let (s1, o1) := handle_msgs c fc s a in
  let (s2, o2) := handle_msgs c fc s1 b in (s2, o1 ++ o2).
Proof.
  induction a as [|m a IH]; intros s b.
  - cbn [app handle_msgs]. destruct (handle_msgs c fc s b); reflexivity.
  - cbn [app handle_msgs]. destruct (handle_msg c fc s m) as [s1 o1].
    rewrite IH. destruct (handle_msgs c fc s1 a) as [s2 o2].
    destruct (handle_msgs c fc s2 b) as [s3 o3]. rewrite app_assoc. reflexivity.
Qed.

(* ---------- structure: phase, crash flag; SERVFAIL immediately after the error hook ---------- *)

(* every dns_error hook carries a request and is directly followed by the packed SERVFAIL of
   that request, sent to the client *)
Fixpoint servfail_ok (tcp : bool) (outs : list out) : Prop :=
  match outs with
  | [] => True
  | OHook HErr _ rq _ _ :: rest =>
      match rq, rest with
      | Some q, OSend true d :: _ => d = pack_message (fail q) tcp /\ servfail_ok tcp rest
      | _, _ => False
      end
  | _ :: rest => servfail_ok tcp rest
  end.

Lemma servfail_ok_app tcp a : forall b, servfail_ok tcp a -> servfail_ok tcp b -> servfail_ok tcp (a ++ b).
Proof.
  induction a as [|x a IH]; intros b Ha Hb; [exact Hb|].
  destruct x as [k ord rq rs e| | | |]; cbn [app servfail_ok] in *; try (apply IH; assumption).
  destruct k; try (apply IH; assumption).
  destruct rq as [q|]; [|contradiction].
  destruct a as [|y a']; [contradiction|].
  destruct y as [| |tc d| |]; try contradiction. destruct tc; [|contradiction].
  destruct Ha as [Hd Ha]. split; [exact Hd|]. apply IH; assumption.
Qed.

Definition same_ctl (s s' : st) : Prop :=
  s_phase s' = s_phase s /\ s_crashed s' = s_crashed s
  /\ s_req_buf s' = s_req_buf s /\ s_resp_buf s' = s_resp_buf s.

Lemma same_ctl_refl s : same_ctl s s.
Proof. repeat split. Qed.
Lemma same_ctl_trans a b d : same_ctl a b -> same_ctl b d -> same_ctl a d.
Proof. unfold same_ctl. intros (A1&A2&A3&A4) (B1&B2&B3&B4). repeat split; congruence. Qed.

Lemma pop_act_ctl s : same_ctl s (snd (pop_act s)).
Proof. unfold pop_act. destruct (s_script s); repeat split. Qed.

Lemma handle_response_struct c s i f m :
  same_ctl s (fst (handle_response c s i f m)) /\ servfail_ok (ctcp c) (snd (handle_response c s i f m)).
Proof.
  unfold handle_response. pose proof (pop_act_ctl s) as P. destruct (pop_act s) as [a s1].
  cbn [fst snd] in *. split.
  - destruct P as (P1&P2&P3&P4). repeat split; cbn; assumption.
  - cbn. destruct (f_resp _); cbn; exact I.
Qed.

Lemma handle_error_struct c s i f q :
  f_req f = Some q ->
  same_ctl s (fst (handle_error c s i f)) /\ servfail_ok (ctcp c) (snd (handle_error c s i f)).
Proof.
  intros Hq. unfold handle_error. pose proof (pop_act_ctl s) as P. destruct (pop_act s) as [a s1].
  cbn [fst snd] in *.
  assert (E : f_req (apply_act a (mkFlow (f_ord f) (f_req f) (f_resp f) true (f_live f))) = Some q)
    by (rewrite apply_act_req; exact Hq).
  rewrite E. cbn [fst snd]. split.
  - destruct P as (P1&P2&P3&P4). repeat split; cbn; assumption.
  - cbn. rewrite Hq. auto.
Qed.

Lemma servfail_ok_cons_hook tcp k ord rq rs e l :
  k <> HErr -> servfail_ok tcp l -> servfail_ok tcp (OHook k ord rq rs e :: l).
Proof. intros Hk Hl. destruct k; try exact Hl. congruence. Qed.

Lemma handle_request_struct c s i f m :
  same_ctl s (fst (handle_request c s i f m)) /\ servfail_ok (ctcp c) (snd (handle_request c s i f m)).
Proof.
  unfold handle_request. pose proof (pop_act_ctl s) as P. destruct (pop_act s) as [a s1].
  cbn [fst snd] in *.
  set (f2 := apply_act a _).
  assert (E : f_req f2 = Some m) by (subst f2; rewrite apply_act_req; reflexivity).
  assert (Herr : forall s0, same_ctl s s0 ->
     same_ctl s (fst (handle_error c s0 i f2)) /\ servfail_ok (ctcp c) (snd (handle_error c s0 i f2))).
  { intros s0 H0. destruct (handle_error_struct c s0 i f2 m E) as [H1 H2].
    split; [eapply same_ctl_trans; eassumption | exact H2]. }
  destruct (f_resp f2) as [r|].
  { destruct (handle_response_struct c s1 i f2 r) as [H1 H2].
    destruct (handle_response c s1 i f2 r) as [s2 o]. cbn [fst snd] in *.
    split; [eapply same_ctl_trans; eassumption | exact H2]. }
  destruct (f_err f2).
  { destruct (Herr s1 P) as [H1 H2]. destruct (handle_error c s1 i f2) as [s2 o]. cbn [fst snd] in *.
    split; [exact H1 | exact H2]. }
  destruct (negb (has_addr c)).
  { destruct (Herr s1 P) as [H1 H2]. destruct (handle_error c s1 i f2) as [s2 o]. cbn [fst snd] in *.
    split; [exact H1 | exact H2]. }
  destruct (s_srv s1).
  { cbn [fst snd]. split; [|cbn; exact I]. destruct P as (P1&P2&P3&P4). repeat split; cbn; assumption. }
  destruct (s_conn s1) as [|[|] cn].
  - destruct (Herr s1 P) as [H1 H2]. destruct (handle_error c s1 i f2) as [s2 o]. cbn [fst snd] in *.
    split; [exact H1 | exact H2].
  - cbn [fst snd]. split; [|cbn; exact I]. destruct P as (P1&P2&P3&P4). repeat split; cbn; assumption.
  - assert (P' : same_ctl s (with_srv s1 false cn))
      by (destruct P as (P1&P2&P3&P4); repeat split; cbn; assumption).
    destruct (Herr _ P') as [H1 H2]. destruct (handle_error c (with_srv s1 false cn) i f2) as [s2 o].
    cbn [fst snd] in *. split; [exact H1 | exact H2].
Qed.

Lemma handle_msg_struct c fc s m :
  same_ctl s (fst (handle_msg c fc s m)) /\ servfail_ok (ctcp c) (snd (handle_msg c fc s m)).
Proof.
  unfold handle_msg. destruct (s_crashed s) eqn:Ec; [split; [apply same_ctl_refl | exact I]|].
  assert (N1 : forall b, same_ctl s (note_msg s b m)) by (intros b; repeat split).
  assert (N2 : forall s0, same_ctl s s0 -> same_ctl s (snd (new_flow s0)))
    by (intros s0 (A1&A2&A3&A4); repeat split; cbn; assumption).
  assert (N3 : forall s0 f, same_ctl s s0 -> same_ctl s (retire s0 f))
    by (intros s0 f (A1&A2&A3&A4); repeat split; cbn; assumption).
  assert (Rq : forall s0 i f, same_ctl s s0 ->
     same_ctl s (fst (handle_request c s0 i f m)) /\ servfail_ok (ctcp c) (snd (handle_request c s0 i f m))).
  { intros s0 i f H0. destruct (handle_request_struct c s0 i f m) as [H1 H2].
    split; [eapply same_ctl_trans; eassumption | exact H2]. }
  assert (Rs : forall s0 i f, same_ctl s s0 ->
     same_ctl s (fst (handle_response c s0 i f m)) /\ servfail_ok (ctcp c) (snd (handle_response c s0 i f m))).
  { intros s0 i f H0. destruct (handle_response_struct c s0 i f m) as [H1 H2].
    split; [eapply same_ctl_trans; eassumption | exact H2]. }
  destruct (find_flow (m_id m) (s_flows s)) as [f|].
  - destruct fc.
    + destruct (fix_fresh c && answered f).
      * pose proof (N2 _ (N3 _ f (N1 true))) as H0.
        destruct (new_flow (retire (note_msg s true m) f)) as [g s1]. apply Rq. exact H0.
      * apply Rq. apply N1.
    + apply Rs. apply N1.
  - destruct fc.
    + pose proof (N2 _ (N1 true)) as H0.
      destruct (new_flow (note_msg s true m)) as [g s1]. apply Rq. exact H0.
    + destruct (fix_drop c); [split; [apply same_ctl_refl | exact I]|].
      pose proof (N2 _ (N1 false)) as H0.
      destruct (new_flow (note_msg s false m)) as [g s1]. apply Rs. exact H0.
Qed.

Lemma handle_msgs_struct c fc ms : forall s,
  same_ctl s (fst (handle_msgs c fc s ms)) /\ servfail_ok (ctcp c) (snd (handle_msgs c fc s ms)).
Proof.
  induction ms as [|m r IH]; intros s; [split; [apply same_ctl_refl | exact I]|].
  cbn [handle_msgs]. destruct (handle_msg_struct c fc s m) as [H1 H2].
  destruct (handle_msg c fc s m) as [s1 o1]. cbn [fst snd] in *.
  destruct (IH s1) as [H3 H4]. destruct (handle_msgs c fc s1 r) as [s2 o2]. cbn [fst snd] in *.
  split; [eapply same_ctl_trans; eassumption | apply servfail_ok_app; assumption].
Qed.

Section Seg.
Variable unpack : bytes -> ures.
Notation utcp := (unpack_tcp unpack).
Notation step := (step unpack).
Notation run := (run unpack).

Definition buf_of (s : st) (fc : bool) : bytes := if fc then s_req_buf s else s_resp_buf s.

Definition working (s : st) : Prop := s_phase s = PQuery /\ s_crashed s = false.

Lemma with_buf_buf s fc b : buf_of (with_buf s fc b) fc = b.
Proof. destruct fc; reflexivity. Qed.

Lemma with_buf_twice s fc b b' : with_buf (with_buf s fc b) fc b' = with_buf s fc b'.
Proof. destruct fc; reflexivity. Qed.

Lemma step_tcp_ok c s fc d ms r :
  working s -> ctcp c = true -> utcp (buf_of s fc ++ d) = ROk ms r ->
  step c s (EData fc d) = wb fc r (handle_msgs c fc s ms).
Proof.
  intros [Hp Hc] Ht Hu. unfold DnsLayer.step. rewrite Hc, Hp. unfold unpack_message. rewrite Ht.
  change (unpack_tcp unpack ((if fc then s_req_buf s else s_resp_buf s) ++ d)) with (utcp (buf_of s fc ++ d)).
  rewrite Hu. apply handle_msgs_buf.
Qed.

Lemma working_after c fc s ms b : working s -> working (fst (wb fc b (handle_msgs c fc s ms))).
Proof.
  intros [Hp Hc]. destruct (handle_msgs_struct c fc ms s) as [(A1&A2&_) _].
  unfold wb. cbn [fst]. split; cbn; congruence.
Qed.

Lemma buf_after c fc s ms b : buf_of (fst (wb fc b (handle_msgs c fc s ms))) fc = b.
Proof. unfold wb. cbn [fst]. apply with_buf_buf. Qed.

(* Two consecutive segments from one side are handled exactly like their concatenation, provided
   the complete frames of the concatenation contain no malformed one. *)
Lemma step_split c s fc a b ms r :
  working s -> ctcp c = true ->
  utcp (buf_of s fc ++ a ++ b) = ROk ms r ->
  forall rest, run c s (EData fc a :: EData fc b :: rest) = run c s (EData fc (a ++ b) :: rest).
Proof.
  intros Hw Ht Hu rest.
  pose proof Hu as Hu0. rewrite app_assoc in Hu0.
  destruct (utcp_prefix_ok unpack _ _ _ _ Hu0) as (m1 & r1 & m2 & H1 & H2 & Hm).
  cbn [DnsLayer.run].
  rewrite (step_tcp_ok c s fc a m1 r1 Hw Ht H1).
  rewrite (step_tcp_ok c s fc (a ++ b) ms r Hw Ht Hu).
  pose proof (working_after c fc s m1 r1 Hw) as Hw1.
  pose proof (buf_after c fc s m1 r1) as Hb1.
  destruct (wb fc r1 (handle_msgs c fc s m1)) as [s1 o1] eqn:E1. cbn [fst] in Hw1, Hb1.
  rewrite <- Hb1 in H2.
  rewrite (step_tcp_ok c s1 fc b m2 r Hw1 Ht H2).
  subst ms. rewrite handle_msgs_app.
  unfold wb in E1. destruct (handle_msgs c fc s m1) as [s1' o1'] eqn:E0. cbn [fst snd] in E1.
  inversion E1; subst s1 o1. clear E1.
  rewrite handle_msgs_buf.
  destruct (handle_msgs c fc s1' m2) as [s2 o2]. unfold wb. cbn [fst snd].
  rewrite with_buf_twice.
  destruct (DnsLayer.run unpack c (with_buf s2 fc r) rest) as [s3 o3].
  rewrite app_assoc. reflexivity.
Qed.

(* any segmentation: chunks arriving one by one from the same side = their concatenation *)
Lemma run_any_split c fc : forall (n : nat) chunks s ms r,
  length chunks = S n ->
  working s -> ctcp c = true ->
  utcp (buf_of s fc ++ concat chunks) = ROk ms r ->
  forall rest, run c s (map (EData fc) chunks ++ rest) = run c s (EData fc (concat chunks) :: rest).
Proof.
  induction n as [|n IH]; intros chunks s ms r Hl Hw Ht Hu rest.
  - destruct chunks as [|a [|? ?]]; try discriminate. cbn [concat map app]. rewrite app_nil_r. reflexivity.
  - destruct chunks as [|a [|b tl]]; try discriminate.
    cbn [map app concat] in *.
    assert (Hl' : length ((a ++ b) :: tl) = S n) by (cbn [length] in *; lia).
    assert (Hu' : utcp (buf_of s fc ++ concat ((a ++ b) :: tl)) = ROk ms r)
      by (cbn [concat]; rewrite <- app_assoc; exact Hu).
    pose proof (IH ((a ++ b) :: tl) s ms r Hl' Hw Ht Hu' rest) as IH'.
    cbn [map app concat] in IH'. rewrite <- app_assoc in IH'. rewrite <- IH'.
    assert (Hu2 : utcp ((buf_of s fc ++ a ++ b) ++ concat tl) = ROk ms r)
      by (rewrite <- !app_assoc; exact Hu).
    destruct (utcp_prefix_ok unpack _ _ _ _ Hu2) as (m1 & r1 & m2 & H1 & _ & _).
    apply (step_split c s fc a b m1 r1 Hw Ht H1).
Qed.

(* ---------- malformed frames close the connection, in every segmentation ---------- *)

Lemma done_silent c : forall es s, s_phase s = PDone -> run c s es = (s, []).
Proof.
  induction es as [|e es IH]; intros s Hp; [reflexivity|].
  cbn [DnsLayer.run]. unfold DnsLayer.step. rewrite Hp.
  destruct (s_crashed s); rewrite (IH s Hp); reflexivity.
Qed.

Lemma step_tcp_err c s fc d :
  working s -> ctcp c = true -> utcp (buf_of s fc ++ d) = RErr ->
  snd (step c s (EData fc d)) = [OClose fc] /\ s_phase (fst (step c s (EData fc d))) = PDone.
Proof.
  intros [Hp Hc] Ht Hu. unfold DnsLayer.step. rewrite Hc, Hp. unfold unpack_message. rewrite Ht.
  change (unpack_tcp unpack ((if fc then s_req_buf s else s_resp_buf s) ++ d)) with (utcp (buf_of s fc ++ d)).
  rewrite Hu. split; reflexivity.
Qed.

Lemma step_udp_err c s fc d :
  working s -> ctcp c = false -> unpack d = UStruct ->
  snd (step c s (EData fc d)) = [OClose fc] /\ s_phase (fst (step c s (EData fc d))) = PDone.
Proof.
  intros [Hp Hc] Ht Hu. unfold DnsLayer.step. rewrite Hc, Hp. unfold unpack_message. rewrite Ht, Hu.
  split; reflexivity.
Qed.

(* if the stream of one side (buffer plus the segments to come) contains a zero length prefix or
   a frame rejected with struct.error before any other failure, then however it is segmented the
   layer ends in state_done and the last command is the close of that connection *)
Lemma closes_any_split c fc : forall chunks s,
  chunks <> [] -> working s -> ctcp c = true ->
  utcp (buf_of s fc ++ concat chunks) = RErr ->
  forall rest,
  exists pre, snd (run c s (map (EData fc) chunks ++ rest)) = pre ++ [OClose fc]
           /\ s_phase (fst (run c s (map (EData fc) chunks ++ rest))) = PDone.
Proof.
  induction chunks as [|a tl IH]; intros s Hne Hw Ht Hu rest; [congruence|].
  cbn [map app concat DnsLayer.run] in *.
  rewrite app_assoc in Hu. rewrite (utcp_app unpack) in Hu.
  destruct (utcp (buf_of s fc ++ a)) as [m1 r1| | |] eqn:E1; cbn [continue_with] in Hu; try discriminate.
  - (* this segment is fine; the error is still to come *)
    rewrite (step_tcp_ok c s fc a m1 r1 Hw Ht E1).
    pose proof (working_after c fc s m1 r1 Hw) as Hw1.
    pose proof (buf_after c fc s m1 r1) as Hb1.
    destruct (wb fc r1 (handle_msgs c fc s m1)) as [s1 o1]. cbn [fst] in Hw1, Hb1.
    assert (Hu1 : utcp (buf_of s1 fc ++ concat tl) = RErr).
    { rewrite Hb1. destruct (utcp (r1 ++ concat tl)); try discriminate; reflexivity. }
    destruct tl as [|b tl].
    { exfalso. cbn [concat] in Hu1. rewrite app_nil_r in Hu1.
      rewrite Hb1 in Hu1. rewrite (utcp_idem unpack _ _ _ E1) in Hu1. discriminate. }
    destruct (IH s1 ltac:(discriminate) Hw1 Ht Hu1 rest) as (pre & Hpre & Hph).
    destruct (DnsLayer.run unpack c s1 (map (EData fc) (b :: tl) ++ rest)) as [s2 o2]. cbn [fst snd] in *.
    exists (o1 ++ pre). rewrite Hpre, app_assoc. auto.
  - destruct (step_tcp_err c s fc a Hw Ht E1) as [Ho Hp].
    destruct (step c s (EData fc a)) as [s1 o1]. cbn [fst snd] in *.
    rewrite (done_silent c _ s1 Hp). cbn [fst snd]. exists []. subst o1. auto.
Qed.

End Seg.
