(* Proofs/CompatChain.v -- facts about the translated converter table (Gen/CompatChain.v) and the
   concrete witnesses used by Props/C38.v. Re-proved on every run against the regenerated table. *)
From Coq Require Import ZArith List Bool Lia.
From MV Require Import Model.CompatPrelude Model.Compat Gen.CompatChain Proofs.Compat.
Import ListNotations.

Lemma converters_ok : chain_ok FLOW_FORMAT_VERSION converters = true.
Proof. vm_compute. reflexivity. Qed.

(* ---- the stale bytes-version loop of the unguarded driver ---- *)
Definition id_body (k : fver) (s : state unit) : option (state unit) := Some s.
(* the state a 25-byte file decodes to: one entry, bytes key, value [3, 0] *)
Definition stale_state : state unit := mk_state (Some (VSeq [EInt 3%Z; EInt 0%Z])) None tt.
Definition stale_state' : state unit := mk_state (Some (VSeq [EInt 3%Z; EInt 0%Z])) (Some (VInt 4%Z)) tt.

Lemma id_body_frame : frame unit id_body.
Proof. intros k s s1 H. inversion H. reflexivity. Qed.

Lemma stale_loops' : forall fuel prev,
  snd (migrate_flow id_body converters FLOW_FORMAT_VERSION false fuel prev stale_state') = OutOfFuel.
Proof.
  induction fuel as [|f IH]; intros prev.
  - reflexivity.
  - rewrite (migrate_unfold unit id_body converters FLOW_FORMAT_VERSION false (S f) prev stale_state').
    change (key_of unit stale_state') with (Some (FTup [EInt 3%Z; EInt 0%Z])).
    change (snd (let tr := migrate_flow id_body converters FLOW_FORMAT_VERSION false f
                              (Some (FTup [EInt 3%Z; EInt 0%Z])) stale_state' in
                 ((FTup [EInt 3%Z; EInt 0%Z], Some (bver stale_state', sver stale_state')) :: fst tr, snd tr))
            = OutOfFuel).
    cbn [snd]. apply IH.
Qed.

Lemma stale_loops : forall fuel,
  snd (migrate_flow id_body converters FLOW_FORMAT_VERSION false fuel None stale_state) = OutOfFuel.
Proof.
  destruct fuel as [|f].
  - reflexivity.
  - rewrite (migrate_unfold unit id_body converters FLOW_FORMAT_VERSION false (S f) None stale_state).
    change (key_of unit stale_state) with (Some (FTup [EInt 3%Z; EInt 0%Z])).
    change (snd (let tr := migrate_flow id_body converters FLOW_FORMAT_VERSION false f
                              (Some (FTup [EInt 3%Z; EInt 0%Z])) stale_state' in
                 ((FTup [EInt 3%Z; EInt 0%Z], Some (bver stale_state', sver stale_state')) :: fst tr, snd tr))
            = OutOfFuel).
    cbn [snd]. apply stale_loops'.
Qed.

Lemma stale_is_stale : ~ not_stale unit converters stale_state.
Proof.
  intros [H|H].
  - discriminate.
  - apply (H (FTup [EInt 3%Z; EInt 0%Z]) WS (VInt 4%Z)); reflexivity.
Qed.

(* with the guard the same state is rejected after one converter call *)
Lemma stale_guarded : forall fuel,
  snd (migrate_flow id_body converters FLOW_FORMAT_VERSION true (S (S fuel)) None stale_state) = Rejected false.
Proof. intros fuel. reflexivity. Qed.

(* ---- a non-trivial run: a 0.18 state (str keys) walks the remaining 22 converters ---- *)
Definition count_body (k : fver) (s : state nat) : option (state nat) :=
  Some (mk_state (bver s) (sver s) (S (rest s))).
Definition sample_018 : state nat := mk_state None (Some (VSeq [EInt 0%Z; EInt 18%Z; EInt 2%Z])) O.

Lemma count_body_frame : frame nat count_body.
Proof. intros k s s1 H. inversion H. reflexivity. Qed.

Lemma sample_018_run :
  not_stale nat converters sample_018
  /\ length (fst (migrate_flow count_body converters FLOW_FORMAT_VERSION false (length converters) None sample_018))
     = (length converters - 7)%nat
  /\ snd (migrate_flow count_body converters FLOW_FORMAT_VERSION false (length converters) None sample_018)
     = Migrated (mk_state None (Some (VInt FLOW_FORMAT_VERSION)) (length converters - 7)%nat).
Proof. split; [left; reflexivity|]. split; vm_compute; reflexivity. Qed.

(* ---- the driver as translated from the tree under check ---- *)
Lemma source_total : forall R body (s : state R) prev fuel,
  frame R body -> (progress_guard = true \/ not_stale R converters s) -> (length converters <= fuel)%nat ->
  let tr := migrate_flow body converters FLOW_FORMAT_VERSION progress_guard fuel prev s in
  good R FLOW_FORMAT_VERSION (snd tr) /\ (length (fst tr) <= length converters)%nat.
Proof.
  intros R body s prev fuel Hf Hg Hl. cbv zeta.
  destruct progress_guard eqn:G.
  - destruct (guarded_total R body converters FLOW_FORMAT_VERSION true converters_ok eq_refl
                (frame_body_ok R body Hf) s prev fuel Hl) as [A [B _]].
    split; assumption.
  - destruct Hg as [Hg|Hg]; [discriminate|].
    destruct (unguarded_frame_total R body converters FLOW_FORMAT_VERSION false converters_ok Hf s prev fuel Hg Hl)
      as [A [B _]].
    split; assumption.
Qed.
