(* Proofs/LeafCertCtxC16.v -- the chain presented after cert-store reloads (Model/LeafCertCtx.v). *)
From Coq Require Import List Bool Arith NArith Lia.
From MV Require Import Model.LeafCertCtx Gen.LeafCertConst.
Import ListNotations.
Local Open Scope N_scope.

(* every cached context was created for a dhparams object that already exists, and the ones created for
   the current store's object hold the chain that store was loaded from *)
Definition Inv (s : st) : Prop :=
  store_dh s < next_dh s
  /\ forall k c, In (k, c) (cache s) -> snd k < next_dh s /\ (snd k = store_dh s -> c = store_ca s).

Lemma lookup_in k c v : lookup k c = Some v -> exists k', In (k', v) c /\ snd k' = snd k.
Proof.
  induction c as [|[k' v'] r IH]; simpl; [discriminate|].
  destruct (key_eqb k' k) eqn:E.
  - intros H; inversion H; subst. exists k'. split; [left; reflexivity|].
    unfold key_eqb in E. apply andb_true_iff in E as [_ E]. apply N.eqb_eq in E. exact E.
  - intros H. destruct (IH H) as [k'' [Hin Hs]]. exists k''. split; [right; exact Hin | exact Hs].
Qed.

Lemma remove_nth_in {A} i (l : list A) x : In x (remove_nth i l) -> In x l.
Proof.
  revert i; induction l as [|y l IH]; intros i H; simpl in *; [destruct i; exact H|].
  destruct i; [right; exact H|]. destruct H as [H|H]; [left; exact H | right; eapply IH; exact H].
Qed.

Lemma init_inv : Inv init.
Proof. split; [reflexivity | intros k c []]. Qed.

Lemma all_complete_from s ops :
  Inv s ->
  (forall x, In x (run false s ops) -> synced x = true) ->
  forall x, In x (run false s ops) -> complete x = true.
Proof.
  revert s; induction ops as [|o ops IH]; intros s [Hlt Hc] Hs x Hx; simpl in *; [contradiction|].
  destruct o as [c| |k|i]; simpl in *.
  - (* Rewrite *) eapply IH; [|exact Hs|exact Hx]. split; [exact Hlt | exact Hc].
  - (* Reload *) eapply IH; [|exact Hs|exact Hx]. unfold Inv; simpl. split; [lia|].
    intros k c Hin. destruct (Hc k c Hin) as [H1 _]. split; [lia | intros E; lia].
  - (* Handshake *)
    destruct (lookup (k, store_dh s) (cache s)) as [c|] eqn:El; simpl in *.
    + destruct Hx as [Hx|Hx].
      * subst x. unfold complete. simpl. apply N.eqb_eq.
        apply lookup_in in El as [k' [Hin Hk]]. simpl in Hk. apply (Hc k' c Hin). exact Hk.
      * eapply IH; [| |exact Hx]; [split; assumption | intros y Hy; apply Hs; right; exact Hy].
    + assert (Hsync : file s = store_ca s).
      { apply N.eqb_eq. apply (Hs (mkShown (file s =? store_ca s) (store_ca s) (file s))). left; reflexivity. }
      destruct Hx as [Hx|Hx].
      * subst x. unfold complete. simpl. apply N.eqb_eq. exact Hsync.
      * eapply IH; [| |exact Hx]; [|intros y Hy; apply Hs; right; exact Hy].
        unfold Inv; simpl. split; [exact Hlt|]. intros k0 c0 [Hin|Hin].
        -- inversion Hin; subst. simpl. split; [exact Hlt | intros _; exact Hsync].
        -- apply Hc; exact Hin.
  - (* Evict *) eapply IH; [|exact Hs|exact Hx]. unfold Inv; simpl. split; [exact Hlt|].
    intros k c Hin. apply Hc. eapply remove_nth_in; exact Hin.
Qed.

(* a fresh dhparams object per reload: every handshake presents the chain of the store that issued the leaf,
   for every history in which clients connect only while the CA file is the one the store was loaded from *)
Theorem presented_chain_fresh ops :
  (forall x, In x (run false init ops) -> synced x = true) ->
  forall x, In x (run false init ops) -> complete x = true.
Proof. apply all_complete_from. exact init_inv. Qed.

(* the tree: load_dhparam must not be memoised *)
Theorem presented_chain_source ops :
  (forall x, In x (run DH_SHARED init ops) -> synced x = true) ->
  forall x, In x (run DH_SHARED init ops) -> complete x = true.
Proof. change DH_SHARED with false. apply presented_chain_fresh. Qed.

(* with one shared object per path the cache key does not change on reload: rotation in place breaks the chain *)
Definition rotation : list op := [Rewrite 1; Reload; Handshake 0; Rewrite 2; Reload; Handshake 0].

Lemma shared_dh_stale :
  run true init rotation = [mkShown true 1 1; mkShown true 2 1].
Proof. vm_compute. reflexivity. Qed.

Lemma fresh_dh_rotation :
  run false init rotation = [mkShown true 1 1; mkShown true 2 2].
Proof. vm_compute. reflexivity. Qed.

(* without a reload the file is read late: the hypothesis of presented_chain_fresh is needed *)
Lemma unsynced_needed :
  run false init [Rewrite 1; Reload; Rewrite 2; Handshake 0] = [mkShown false 1 2].
Proof. vm_compute. reflexivity. Qed.
