(* Proofs/UrlC33.v -- the statements exported to Props/C33.v: edits keep the Host header on the
   destination, refutations with computed witnesses, non-vacuity. *)
From Coq Require Import List Bool Arith NArith ZArith Lia.
From MV Require Import Base.Bytes Model.Url Proofs.UrlLemmas Proofs.UrlDec Proofs.UrlParse
  Proofs.UrlRequest Proofs.UrlDest.
Import ListNotations.

(* the port a Host header shows: none when it is the default of the scheme *)
Definition shown_port (s : bytes) (p : Z) : option Z :=
  match default_port s with
  | Some d => if (d =? p)%Z then None else Some p
  | None => Some p
  end.

Lemma shown_port_tail s p : (if is_nil (port_tail s p) then None else Some p) = shown_port s p.
Proof.
  unfold shown_port, port_tail. destruct (default_port s) as [d|]; [destruct (d =? p)%Z|]; reflexivity.
Qed.

(* a destination that a Host header can denote *)
Definition dest_ok (ace : bytes -> option str) (uenc : str -> option bytes) (h : str) (p : Z) : Prop :=
  all_ascii h = true /\ h <> [] /\ is_valid_host_s ace uenc h = true
  /\ starts_with [cLBR] h = false /\ mem cLF h = false /\ (0 <= p <= 65535)%Z.

Section Statements.
Variable ace : bytes -> option str.
Variable uenc : str -> option bytes.

Lemma bracket_nonempty h : h <> [] -> bracket h <> [].
Proof. unfold bracket. destruct (mem cCOLON h && negb (starts_with [cLBR] h)); [discriminate | auto]. Qed.

Lemma encode_authority_ascii v : all_ascii v = true -> encode_authority uenc v = v.
Proof.
  intros A. unfold encode_authority, idna_encode. destruct (is_nil v) eqn:N.
  - apply is_nil_true in N. subst. reflexivity.
  - rewrite A. destruct (label_len_ok _); reflexivity.
Qed.

Lemma hostport_ascii s h p : all_ascii h = true -> (0 <= p)%Z -> all_ascii (hostport s h p) = true.
Proof.
  intros Ah Hp. rewrite hostport_eq, all_ascii_app. apply andb_true_iff. split.
  - unfold bracket. destruct (mem cCOLON h && negb (starts_with [cLBR] h)); [|exact Ah].
    simpl. rewrite all_ascii_app, Ah. reflexivity.
  - apply (forallb_imp pt_char is_ascii); [vm_compute; reflexivity | apply pt_char_tail; exact Hp].
Qed.

(* after any successful edit, a Host header that exists denotes the destination (HTTP/1) *)
Theorem edit_host_header_http1 r o r1 :
  step ace uenc r o = (r1, true) ->
  r_h2 r1 = false -> has_header s_Host (r_headers r1) = true ->
  dest_ok ace uenc (r_host r1) (r_port r1) ->
  exists a, host_header ace r1 = Some a
    /\ get_all s_Host (r_headers r1) = [a]
    /\ parse_authority ace uenc a = PA_ok (r_host r1) (shown_port (r_scheme r1) (r_port r1)).
Proof.
  intros S H2 HH (A & NE & V & NB & NL & P).
  pose proof (step_ok_consistent ace uenc _ _ _ S) as C.
  exists (dest_text r1). split; [apply (host_header_http1 ace uenc); assumption|].
  split; [apply C; exact HH|].
  unfold dest_text. rewrite <- shown_port_tail. apply parse_authority_hostport; assumption.
Qed.

Theorem hostport_denotes_destination s h p :
  all_ascii h = true -> h <> [] -> is_valid_host_s ace uenc h = true ->
  starts_with [cLBR] h = false -> mem cLF h = false -> (0 <= p <= 65535)%Z ->
  parse_authority ace uenc (hostport s h p) = PA_ok h (shown_port s p).
Proof. intros. rewrite <- shown_port_tail. apply parse_authority_hostport; assumption. Qed.

(* the same for the authority of an HTTP/2 or HTTP/3 request *)
Theorem edit_authority_http2 r o r1 :
  step ace uenc r o = (r1, true) ->
  r_h2 r1 = true -> r_authority r1 <> [] ->
  dest_ok ace uenc (r_host r1) (r_port r1) ->
  idna_decode ace (dest_text r1) = Some (dest_text r1) ->
  r_authority r1 = dest_text r1
  /\ host_header ace r1 = Some (dest_text r1)
  /\ parse_authority ace uenc (dest_text r1) = PA_ok (r_host r1) (shown_port (r_scheme r1) (r_port r1)).
Proof.
  intros S H2 NA (A & NE & V & NB & NL & P) D.
  pose proof (step_ok_consistent ace uenc _ _ _ S) as [_ C].
  assert (all_ascii (dest_text r1) = true) as AD by (apply hostport_ascii; [exact A | lia]).
  assert (r_authority r1 = dest_text r1) as EA by (rewrite (C NA); apply encode_authority_ascii; exact AD).
  split; [exact EA|]. split.
  - unfold host_header, get_authority. rewrite H2, EA, D.
    assert (dest_text r1 <> []) as NE2.
    { unfold dest_text. rewrite hostport_eq. pose proof (bracket_nonempty _ NE).
      destruct (bracket (r_host r1)); [congruence | discriminate]. }
    destruct (dest_text r1); [congruence | reflexivity].
  - unfold dest_text. rewrite <- shown_port_tail. apply parse_authority_hostport; assumption.
Qed.

(* ---------- refutations that hold for every codec ---------- *)
Lemma bracket_not_ascii h : all_ascii h = false -> all_ascii (bracket h) = false.
Proof.
  intros H. unfold bracket. destruct (mem cCOLON h && negb (starts_with [cLBR] h)); [|exact H].
  simpl. rewrite all_ascii_app, H. reflexivity.
Qed.

Theorem non_ascii_url_rejected r u : all_ascii u = false -> set_url ace uenc r u = (r, false).
Proof. intros H. unfold set_url, parse. rewrite H. reflexivity. Qed.

Theorem idn_host_not_reassignable r :
  all_ascii (r_host r) = false -> r_connect r = false ->
  set_url ace uenc r (get_url r) = (r, false).
Proof.
  intros H NC. apply non_ascii_url_rejected. unfold get_url, unparse. rewrite NC.
  rewrite hostport_eq, !all_ascii_app, (bracket_not_ascii _ H).
  rewrite andb_false_l, !andb_false_r. reflexivity.
Qed.

End Statements.

(* ---------- computed witnesses ---------- *)
Module Wit.
Import Strings.String.
Definition S (s : String.string) : bytes := UrlLit.B s.
Arguments S _%string_scope.
Definition req0 : request :=
  mkReq s_http (S "example.com") 8080 (S "/") (S "example.com:8080") [(s_Host, S "example.com:8080")] false false.

(* the real codec maps the ACE label xn--bcher-kva to b-u-umlaut-cher (UTF-8: 62 c3 bc 63 68 65 72);
   this single fact is re-checked against CPython by the corpus seed of the correspondence *)
Definition bucher : bytes := [x62; xc3; xbc; x63; x68; x65; x72].
Definition ace0 (l : bytes) : option str := if bytes_eqb l (S "xn--bcher-kva") then Some bucher else None.
Definition uenc0 (s : str) : option bytes := None.

Lemma idn_witness :
  let '(r1, ok) := set_url ace0 uenc0 req0 (S "http://xn--bcher-kva.de/") in
  ok = true /\ r_host r1 = bucher ++ S ".de" /\ get_url r1 = S "http://" ++ bucher ++ S ".de/"
  /\ set_url ace0 uenc0 r1 (get_url r1) = (r1, false).
Proof. vm_compute. repeat split. Qed.

Lemma port_zero_witness : forall ace uenc,
  parse ace uenc (S "http://example.com:0/") = Some (s_http, S "example.com", 80%Z, S "/")
  /\ get_url (fst (set_url ace uenc req0 (S "http://example.com:0/"))) = S "http://example.com/".
Proof. intros. vm_compute. split; reflexivity. Qed.

(* a host with a trailing dot after an IPv6 literal passes is_valid_host (the dot is stripped before
   ip_address) although urlsplit only validated the first bracket pair, which sits in the userinfo *)
Lemma ipv6_trailing_dot_witness : forall ace uenc,
  let '(r1, ok) := set_url ace uenc req0 (S "http://[::1]@[::1.]/") in
  ok = true /\ r_host r1 = S "::1." /\ get_url r1 = S "http://[::1.]/"
  /\ set_url ace uenc r1 (get_url r1) = (r1, false).
Proof. intros. vm_compute. repeat split. Qed.

(* without the repair (hostport writing host:port verbatim) the Host header of an IPv6 destination
   is not a valid authority *)
Definition hostport_unrepaired (scheme host : bytes) (port : Z) : bytes :=
  match default_port scheme with
  | Some d => if (d =? port)%Z then host else host ++ cCOLON :: dec_of_Z port
  | None => host ++ cCOLON :: dec_of_Z port
  end.
Lemma unrepaired_ipv6_witness : forall ace uenc,
  parse_authority ace uenc (hostport_unrepaired s_http (S "::1") 8080) = PA_err
  /\ parse_authority ace uenc (hostport s_http (S "::1") 8080) = PA_ok (S "::1") (Some 8080%Z).
Proof. intros. vm_compute. split; reflexivity. Qed.

(* ---------- non-vacuity ---------- *)
Lemma wf_dest_ipv6 ace : wf_dest ace s_http (S "::1") 8080.
Proof.
  constructor; try (vm_compute; reflexivity).
  - left. reflexivity.
  - discriminate.
  - vm_compute. split; reflexivity.
  - lia.
Qed.

Lemma wf_dest_name ace : wf_dest ace s_https (S "exa_mple.com.") 443.
Proof.
  constructor; try (vm_compute; reflexivity).
  - right. reflexivity.
  - discriminate.
  - lia.
Qed.

Lemma wf_path_sample : wf_path (S "/a;b/c;d?x=1#f").
Proof. repeat split; vm_compute; reflexivity. Qed.

Lemma nonvacuous : forall ace uenc,
  wf_dest ace s_http (S "::1") 8080 /\ wf_path (S "/a;b/c;d?x=1#f")
  /\ idna_decode ace (S "::1") = Some (S "::1")
  /\ unparse s_http (S "::1") 8080 (S "/a;b/c;d?x=1#f") = S "http://[::1]:8080/a;b/c;d?x=1#f"
  /\ dest_ok ace uenc (S "::1") 8080
  /\ fst (step ace uenc req0 (SetHost (S "::1")))
     = mkReq s_http (S "::1") 8080 (S "/") (S "[::1]:8080") [(s_Host, S "[::1]:8080")] false false.
Proof.
  intros. split; [apply wf_dest_ipv6|]. split; [apply wf_path_sample|].
  split; [reflexivity|]. split; [vm_compute; reflexivity|]. split.
  - unfold dest_ok. repeat split; try (vm_compute; reflexivity); try discriminate; lia.
  - vm_compute. reflexivity.
Qed.
End Wit.
Export Wit.
