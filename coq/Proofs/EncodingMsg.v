(* Proofs/EncodingMsg.v -- Message.set_content / get_content / decode / encode:
   round trip, Content-Length rule, invalid codings, decode-then-encode, and histories. *)
From Coq Require Import List Bool NArith.
From MV Require Import Base.Bytes Model.Encoding Proofs.EncodingCache.
Import ListNotations.

(* ce or identity *)
Definition coding_of (m : msg) : bytes :=
  match m_ce m with Some (b :: n) => b :: n | _ => s_identity end.

Section Msg.
Variable C : codecs.
Variable lenient : bool.

Lemma with_length_ce m : m_ce (with_length m) = m_ce m.
Proof. unfold with_length. destruct (m_te m); [reflexivity |]. destruct (m_raw m); reflexivity. Qed.
Lemma with_length_raw m : m_raw (with_length m) = m_raw m.
Proof. unfold with_length. destruct (m_te m); [reflexivity |]. destruct (m_raw m) eqn:E; [reflexivity | exact E]. Qed.
Lemma with_length_te m : m_te (with_length m) = m_te m.
Proof. unfold with_length. destruct (m_te m) eqn:E; [exact E |]. destruct (m_raw m); first [exact E | reflexivity]. Qed.
Lemma with_length_cl m :
  (m_te m = true -> m_cl (with_length m) = m_cl m) /\
  (m_te m = false -> forall r, m_raw m = Some r -> m_cl (with_length m) = Some (dec_of_N (N.of_nat (length r)))).
Proof.
  unfold with_length. split; intros H.
  - rewrite H. reflexivity.
  - intros r Hr. rewrite H, Hr. reflexivity.
Qed.

(* ---- cache state after each message operation ---- *)
Lemma set_content_snd st m v :
  snd (set_content C lenient st m v) =
  match v with None => st | Some x => snd (encode C st (Some x) (coding_of m) s_strict) end.
Proof.
  destruct v as [x |]; [| reflexivity]. unfold set_content, coding_of.
  destruct (encode C st (Some x) _ s_strict) as [r st1]. cbn [snd].
  destruct r; try reflexivity; destruct (m_ce m); try reflexivity; destruct lenient; reflexivity.
Qed.

Lemma inv_set_content st m v : contract C -> Inv C st -> Inv C (snd (set_content C lenient st m v)).
Proof.
  intros K I. rewrite set_content_snd. destruct v; [apply inv_encode; assumption | exact I].
Qed.

Lemma inv_get_content st m s : Inv C st -> Inv C (snd (get_content C lenient st m s)).
Proof.
  intros I. unfold get_content. destruct (m_raw m) as [raw |]; [| exact I].
  destruct (m_ce m) as [[| b n] |]; try exact I.
  pose proof (inv_decode C st (Some raw) (b :: n) s_strict I) as J.
  destruct (decode C st (Some raw) (b :: n) s_strict) as [r st1]. cbn [snd] in J.
  destruct r; try exact J; destruct s; try exact J; destruct lenient; exact J.
Qed.

Lemma inv_msg_decode st m s : contract C -> Inv C st -> Inv C (snd (msg_decode C lenient st m s)).
Proof.
  intros K I. unfold msg_decode. destruct (m_raw m) as [[| b0 r0] |]; try exact I.
  pose proof (inv_get_content st m s I) as J.
  destruct (get_content C lenient st m s) as [g st1]. cbn [snd] in J.
  destruct g; try exact J. apply inv_set_content; assumption.
Qed.

Lemma inv_msg_encode st m n : contract C -> Inv C st -> Inv C (snd (msg_encode C lenient st m n)).
Proof.
  intros K I. unfold msg_encode.
  pose proof (inv_set_content st (Build_msg (Some n) (m_te m) (m_cl m) (m_raw m)) (m_raw m) K I) as J.
  destruct (set_content C lenient st _ (m_raw m)) as [[o m2] st1]. cbn [snd] in J.
  destruct o; try exact J. destruct (m_ce m2); exact J.
Qed.

Lemma inv_step st c : contract C -> Inv C st -> Inv C (step C lenient st c).
Proof.
  intros K I. destruct c; cbn [step].
  - apply inv_decode; assumption.
  - apply inv_encode; assumption.
  - apply inv_set_content; assumption.
  - apply inv_get_content; assumption.
  - apply inv_msg_decode; assumption.
  - apply inv_msg_encode; assumption.
Qed.

Lemma inv_run_from h : forall st, contract C -> Inv C st -> Inv C (run_from C lenient st h).
Proof.
  induction h as [| c h IH]; intros st K I; [exact I |].
  cbn [run_from fold_left]. apply IH; [exact K | apply inv_step; assumption].
Qed.

Lemma inv_run h : contract C -> Inv C (run C lenient h).
Proof. intros K. apply inv_run_from; [exact K | exact Logic.I]. Qed.

(* ---- get_content never depends on the cache ---- *)
Lemma get_content_transparent st m s : Inv C st ->
  fst (get_content C lenient st m s) = fst (get_content C lenient None m s).
Proof.
  intros I. unfold get_content. destruct (m_raw m) as [raw |]; [| reflexivity].
  destruct (m_ce m) as [[| b n] |]; try reflexivity.
  pose proof (decode_transparent C st (Some raw) (b :: n) s_strict I) as T.
  destruct (decode C st (Some raw) (b :: n) s_strict) as [r st1].
  destruct (decode C None (Some raw) (b :: n) s_strict) as [r' st1'].
  cbn [fst] in T. subst r'.
  destruct r; try reflexivity; destruct s; try reflexivity; destruct lenient; reflexivity.
Qed.

(* reading a message whose raw body decodes (cache-free) to v *)
Lemma get_content_of_valid st m s e v : Inv C st ->
  m_raw m = Some e -> pure_decode C (lower (coding_of m)) s_strict e = PBytes v ->
  supported (lower (coding_of m)) = true ->
  fst (get_content C lenient st m s) = GBytes v.
Proof.
  intros I Hr Hd S. rewrite get_content_transparent by exact I.
  unfold get_content. rewrite Hr. unfold coding_of in Hd, S.
  destruct (m_ce m) as [[| b n] |].
  - cbn in Hd. injection Hd as Hd. subst. reflexivity.
  - pose proof (decode_none_fst C e (b :: n) s_strict) as D. rewrite Hd in D.
    destruct (decode C None (Some e) (b :: n) s_strict) as [r st1]. cbn [fst to_res] in D. subst r. reflexivity.
  - cbn in Hd. injection Hd as Hd. subst. reflexivity.
Qed.

(* ---- set_content with a supported coding ---- *)
Lemma set_content_supported st m v : contract C -> Inv C st ->
  supported (lower (coding_of m)) = true ->
  exists e, set_content C lenient st m (Some v)
            = (Done, with_length (Build_msg (m_ce m) (m_te m) (m_cl m) (Some e)),
               snd (encode C st (Some v) (coding_of m) s_strict))
            /\ pure_decode C (lower (coding_of m)) s_strict e = PBytes v.
Proof.
  intros K I S. destruct (encode_supported C st v (coding_of m) s_strict K I S) as (e & He & Hd).
  exists e. split; [| exact Hd]. unfold set_content. fold (coding_of m).
  destruct (encode C st (Some v) (coding_of m) s_strict) as [r st1]. cbn [fst] in He. subst r. reflexivity.
Qed.

Theorem set_get_roundtrip st m v o m' st' : contract C -> Inv C st ->
  supported (lower (coding_of m)) = true ->
  set_content C lenient st m (Some v) = (o, m', st') ->
  o = Done /\ m_ce m' = m_ce m /\ m_te m' = m_te m
  /\ (exists e, m_raw m' = Some e /\ pure_decode C (lower (coding_of m)) s_strict e = PBytes v)
  /\ forall st2 s, Inv C st2 -> fst (get_content C lenient st2 m' s) = GBytes v.
Proof.
  intros K I S E. destruct (set_content_supported st m v K I S) as (e & E' & Hd).
  rewrite E' in E. injection E as <- <- <-.
  assert (Hce : m_ce (with_length (Build_msg (m_ce m) (m_te m) (m_cl m) (Some e))) = m_ce m)
    by (rewrite with_length_ce; reflexivity).
  repeat split.
  - exact Hce.
  - rewrite with_length_te. reflexivity.
  - exists e. rewrite with_length_raw. auto.
  - intros st2 s I2. apply get_content_of_valid with (e := e); try exact I2.
    + rewrite with_length_raw. reflexivity.
    + unfold coding_of at 1. rewrite Hce. exact Hd.
    + unfold coding_of at 1. rewrite Hce. exact S.
Qed.

(* ---- Content-Length rule: for every coding whatsoever ---- *)
Theorem content_length st m v o m' st' :
  set_content C lenient st m (Some v) = (o, m', st') -> o = Done ->
  m_te m' = m_te m
  /\ (m_te m = true -> m_cl m' = m_cl m)
  /\ (m_te m = false -> exists r, m_raw m' = Some r /\ m_cl m' = Some (dec_of_N (N.of_nat (length r)))).
Proof.
  unfold set_content. destruct (encode C st (Some v) _ s_strict) as [r st1].
  assert (G : forall ce raw, let m0 := with_length (Build_msg ce (m_te m) (m_cl m) (Some raw)) in
    m_te m0 = m_te m /\ (m_te m = true -> m_cl m0 = m_cl m)
    /\ (m_te m = false -> exists r, m_raw m0 = Some r /\ m_cl m0 = Some (dec_of_N (N.of_nat (length r))))).
  { intros ce raw m0. subst m0.
    set (X := Build_msg ce (m_te m) (m_cl m) (Some raw)).
    split; [exact (with_length_te X) |]. split; intros T.
    - exact (proj1 (with_length_cl X) T).
    - exists raw. split; [exact (with_length_raw X) |]. exact (proj2 (with_length_cl X) T raw eq_refl). }
  intros E D.
  destruct r; try (injection E as <- _ _; discriminate D).
  - injection E as _ <- _. apply G.
  - destruct (m_ce m); [| injection E as <- _ _; discriminate D]. injection E as _ <- _. apply G.
  - destruct lenient; [| injection E as <- _ _; discriminate D].
    destruct (m_ce m); [| injection E as <- _ _; discriminate D]. injection E as _ <- _. apply G.
Qed.

(* ---- a coding the encoder rejects: header removed, body stored as is ---- *)
Lemma encode_identity st v :
  exists e, fst (encode C st (Some v) s_identity s_strict) = RBytes e.
Proof.
  cbn [encode]. destruct st as [c |].
  - destruct (bytes_eqb (c_decoded c) v && _ && _); [eexists; reflexivity |].
    rewrite encode_miss_fst. eexists; reflexivity.
  - rewrite encode_miss_fst. eexists; reflexivity.
Qed.

Theorem invalid_coding st m v r :
  fst (encode C st (Some v) (coding_of m) s_strict) = r ->
  r = RValueError \/ (r = RTypeError /\ lenient = true) ->
  exists cl' st',
    set_content C lenient st m (Some v) = (Done, Build_msg None (m_te m) cl' (Some v), st')
    /\ forall st2 s, fst (get_content C lenient st2 (Build_msg None (m_te m) cl' (Some v)) s) = GBytes v.
Proof.
  intros E H.
  assert (Hce : exists x, m_ce m = Some x).
  { destruct (m_ce m) as [x |] eqn:Ce; [eauto |]. exfalso.
    unfold coding_of in E. rewrite Ce in E. destruct (encode_identity st v) as (e & He).
    rewrite He in E. destruct H as [H | [H _]]; subst r; discriminate H. }
  destruct Hce as (x & Ce).
  exists (m_cl (with_length (Build_msg None (m_te m) (m_cl m) (Some v)))),
         (snd (encode C st (Some v) (coding_of m) s_strict)).
  split; [| intros; reflexivity].
  unfold set_content. fold (coding_of m).
  destruct (encode C st (Some v) (coding_of m) s_strict) as [r0 st1]. cbn [fst snd] in *. subst r0.
  assert (W : with_length (Build_msg None (m_te m) (m_cl m) (Some v))
              = Build_msg None (m_te m) (m_cl (with_length (Build_msg None (m_te m) (m_cl m) (Some v)))) (Some v)).
  { unfold with_length. cbn [m_te m_raw m_ce m_cl]. destruct (m_te m); reflexivity. }
  destruct H as [H | [H L]]; subst r; rewrite Ce; [| rewrite L]; rewrite <- W; reflexivity.
Qed.

(* ---- Message.decode then Message.encode preserves the content (non-empty body) ---- *)
Theorem decode_encode_preserves st0 st1 st2 m c s (n : bytes) b0 (r0 : bytes) o1 m1 st1' o2 m2 st2' :
  contract C -> Inv C st0 -> Inv C st1 -> Inv C st2 ->
  m_raw m = Some (b0 :: r0) ->
  fst (get_content C lenient st0 m true) = GBytes c ->
  msg_decode C lenient st1 m s = (o1, m1, st1') ->
  supported (lower (match n with [] => s_identity | _ => n end)) = true ->
  msg_encode C lenient st2 m1 n = (o2, m2, st2') ->
  o1 = Done /\ o2 = Done /\ m_ce m1 = None /\ m_raw m1 = Some c /\ m_ce m2 = Some n
  /\ forall st3 s3, Inv C st3 -> fst (get_content C lenient st3 m2 s3) = GBytes c.
Proof.
  intros K I0 I1 I2 Hraw G0 D S E.
  (* the decode step *)
  assert (G1 : fst (get_content C lenient st1 m s) = GBytes c).
  { rewrite get_content_transparent by exact I1. rewrite get_content_transparent in G0 by exact I0.
    unfold get_content in G0 |- *. rewrite Hraw in G0 |- *. cbn beta iota in G0 |- *.
    destruct (m_ce m) as [[| b n'] |]; try exact G0.
    revert G0. match goal with |- context [decode ?a1 ?a2 ?a3 ?a4 ?a5] => destruct (decode a1 a2 a3 a4 a5) as [r st'] end.
    destruct r; cbn [fst]; intros G0; try discriminate G0; try exact G0.
    destruct lenient; cbn [fst] in G0; discriminate G0. }
  unfold msg_decode in D. rewrite Hraw in D.
  pose proof (inv_get_content st1 m s I1) as J1.
  destruct (get_content C lenient st1 m s) as [g st1a]. cbn [fst snd] in G1, J1. subst g.
  set (mi := Build_msg None (m_te m) (m_cl m) (Some (b0 :: r0))) in D.
  assert (Si : supported (lower (coding_of mi)) = true) by reflexivity.
  destruct (set_get_roundtrip st1a mi c o1 m1 st1' K J1 Si D) as (Ho1 & Hce1 & Hte1 & (e1 & Hr1 & Hd1) & _).
  cbn in Hd1. injection Hd1 as Hd1. subst e1.
  (* the encode step *)
  unfold msg_encode in E. rewrite Hr1 in E.
  pose (me := Build_msg (Some n) (m_te m1) (m_cl m1) (Some c)).
  assert (Se : supported (lower (coding_of me)) = true).
  { unfold coding_of, me. cbn [m_ce]. destruct n; exact S. }
  match type of E with context [set_content ?a1 ?a2 ?a3 ?a4 ?a5] =>
    destruct (set_content a1 a2 a3 a4 a5) as [[o m2a] st2a] eqn:E2 end.
  destruct (set_get_roundtrip st2 me c o m2a st2a K I2 Se E2) as (Ho2 & Hce2 & _ & _ & G2).
  subst o. cbn [m_ce me] in Hce2. rewrite Hce2 in E. injection E as <- <- _.
  repeat split; try assumption; try reflexivity.
Qed.

(* ---- ... and with an empty or missing body (decode is a no-op there) ---- *)
Theorem decode_encode_preserves_empty st0 st1 st2 m g s (n : bytes) o1 m1 st1' o2 m2 st2' :
  contract C -> Inv C st0 -> Inv C st1 -> Inv C st2 ->
  m_raw m = None \/ m_raw m = Some [] ->
  supported (lower (coding_of m)) = true ->
  fst (get_content C lenient st0 m true) = g ->
  msg_decode C lenient st1 m s = (o1, m1, st1') ->
  supported (lower (match n with [] => s_identity | _ => n end)) = true ->
  msg_encode C lenient st2 m1 n = (o2, m2, st2') ->
  o1 = Done /\ m1 = m /\ o2 = Done /\ m_ce m2 = Some n
  /\ forall st3 s3, Inv C st3 -> fst (get_content C lenient st3 m2 s3) = g.
Proof.
  intros K I0 I1 I2 Hraw Sm G0 D S E.
  assert (D' : o1 = Done /\ m1 = m).
  { unfold msg_decode in D. destruct Hraw as [Hr | Hr]; rewrite Hr in D; injection D as <- <- _; auto. }
  destruct D' as [-> ->]. unfold msg_encode in E.
  destruct Hraw as [Hr | Hr]; rewrite Hr in E.
  - cbn [set_content m_ce] in E. injection E as <- <- _. subst g.
    repeat split; try reflexivity. intros st3 s3 _.
    unfold get_content. cbn [m_raw]. rewrite Hr. reflexivity.
  - assert (G : g = GBytes []).
    { rewrite <- G0.
      apply get_content_of_valid with (e := []); try assumption.
      clear - Sm. unfold pure_decode. apply supported_cases in Sm.
      destruct Sm as [H | [H | H]]; [rewrite H; reflexivity | rewrite H; reflexivity |].
      apply cached_cases in H. destruct H as [H | [H | [H | [H | H]]]]; rewrite H; reflexivity. }
    clear G0. subst g.
    pose (me := Build_msg (Some n) (m_te m) (m_cl m) (Some [])).
    assert (Se : supported (lower (coding_of me)) = true).
    { unfold coding_of, me. cbn [m_ce]. destruct n; exact S. }
    match type of E with context [set_content ?a1 ?a2 ?a3 ?a4 ?a5] =>
      destruct (set_content a1 a2 a3 a4 a5) as [[o m2a] st2a] eqn:E2 end.
    destruct (set_get_roundtrip st2 me [] o m2a st2a K I2 Se E2) as (Ho2 & Hce2 & _ & _ & G2).
    subst o. cbn [m_ce me] in Hce2. rewrite Hce2 in E. injection E as <- <- _.
    repeat split; try assumption; try reflexivity.
Qed.

End Msg.
