(* Proofs/HttpBodyLimit.v -- body_size_limit: a body known to exceed the limit is rejected (early and late case,
   both directions); a rejected stream stays silent; a rejected request was never forwarded. *)
From Coq Require Import List Bool NArith ZArith Lia.
From MV Require Import Base.Bytes Model.HttpBody Proofs.HttpBodyBase.
Import ListNotations.
Open Scope Z_scope.

Section Limit.
Variable S : Type.
Variable fq fs : S -> bytes -> S * sres.
Variable cfg : config.
Variable L : Z.
Hypothesis HL : parse_size (o_limit cfg) = PVal L.

Notation st := (st S).
Notation handle_event := (handle_event S fq fs cfg).
Notation check_body_size := (check_body_size S fq fs cfg).
Notation abort_body := (abort_body S cfg).
Notation run := (run S fq fs cfg).

Lemma limit_truthy : opt_truthy (o_limit cfg) = true.
Proof. eapply parse_size_val_truthy; eauto. Qed.

(* the decision of check_body_size when the expected size exceeds the limit *)
Lemma check_body_size_abort request (s : st) e :
  (if request && nonempty (request_body_buf s) then Some (blen (request_body_buf s))
   else if negb request && nonempty (response_body_buf s) then Some (blen (response_body_buf s))
   else if request then expected_size (req_framing s)
   else match resp_framing s with Some f => expected_size f | None => None end) = Some e ->
  0 < e -> L < e ->
  check_body_size request s = Some (true, fst (abort_body request s), snd (abort_body request s)).
Proof.
  intros He Hpos Hlt. unfold HttpBody.check_body_size.
  rewrite limit_truthy, orb_true_r. cbn [negb]. rewrite He.
  replace (e <=? 0) with false by (symmetry; apply Z.leb_gt; lia).
  rewrite HL. replace (L <? e) with true by (symmetry; apply Z.ltb_lt; lia).
  destruct (abort_body request s); reflexivity.
Qed.

(* ---- early case, request: Content-Length above the limit *)
Theorem early_reject_request (s : st) n e100 :
  client_state s = WaitHeaders -> request_body_buf s = [] -> 0 < n -> L < n ->
  exists s', handle_event s (ReqHeaders (FLen n) e100)
             = Some (s', [CHook HRequestHeaders; CHook HError; CSend Client (MErr ReqTooLarge)])
    /\ client_state s' = Errored /\ flow_error s' = true /\ flow_live s' = false
    /\ request_body_buf s' = [].
Proof.
  intros Hc Hb Hn Hlt. unfold HttpBody.handle_event. cbn [is_request_event]. rewrite Hc.
  unfold state_wait_for_request_headers.
  assert (E : end_stream_of (FLen n) = false) by (unfold end_stream_of; simpl; destruct n; auto; lia).
  rewrite E.
  rewrite (check_body_size_abort true _ n); cbn; try rewrite Hb; cbn; auto.
  unfold HttpBody.abort_body, hook_requestheaders. cbn. rewrite Hb. cbn.
  destruct (p_req cfg); cbn; eexists; (split; [reflexivity|]); cbn; repeat split; auto.
Qed.

(* ---- late case, request: the buffered bytes exceed the limit *)
Theorem late_reject_request (s : st) d :
  client_state s = Consume -> 0 <= L -> L < blen (request_body_buf s ++ d) ->
  exists s', handle_event s (ReqData d) = Some (s', [CHook HError; CSend Client (MErr ReqTooLarge)])
    /\ client_state s' = Errored /\ flow_error s' = true /\ flow_live s' = false
    /\ request_body_buf s' = request_body_buf s ++ d.
Proof.
  intros Hc HL0 Hlt. unfold HttpBody.handle_event. cbn [is_request_event]. rewrite Hc.
  unfold state_consume_request_body.
  assert (NE : nonempty (request_body_buf s ++ d) = true) by (apply blen_pos_nonempty; lia).
  rewrite (check_body_size_abort true _ (blen (request_body_buf s ++ d))); cbn; try rewrite NE; cbn; auto; try lia.
  unfold HttpBody.abort_body. cbn. rewrite NE. cbn. eexists; (split; [reflexivity|]); cbn; repeat split; auto.
Qed.

(* ---- early case, response *)
Theorem early_reject_response (s : st) n :
  server_state s = WaitHeaders -> response_body_buf s = [] -> 0 < n -> L < n ->
  exists s', handle_event s (RespHeaders (FLen n))
             = Some (s', [CHook HResponseHeaders; CHook HError; CSend Client (MErr RespTooLarge);
                          CSend Server (MErr RespTooLarge)])
    /\ client_state s' = Errored /\ server_state s' = Errored
    /\ flow_error s' = true /\ flow_live s' = false.
Proof.
  intros Hc Hb Hn Hlt. unfold HttpBody.handle_event. cbn [is_request_event]. rewrite Hc.
  unfold state_wait_for_response_headers.
  assert (E : end_stream_of (FLen n) = false) by (unfold end_stream_of; simpl; destruct n; auto; lia).
  rewrite E.
  rewrite (check_body_size_abort false _ n); cbn; try rewrite Hb; cbn; auto.
  unfold HttpBody.abort_body, hook_responseheaders. cbn. rewrite Hb. cbn.
  destruct (p_resp cfg); cbn; eexists; (split; [reflexivity|]); cbn; repeat split; auto.
Qed.

(* ---- late case, response *)
Theorem late_reject_response (s : st) d :
  server_state s = Consume -> 0 <= L -> L < blen (response_body_buf s ++ d) ->
  exists s', handle_event s (RespData d)
             = Some (s', [CHook HError; CSend Client (MErr RespTooLarge); CSend Server (MErr RespTooLarge)])
    /\ client_state s' = Errored /\ server_state s' = Errored
    /\ flow_error s' = true /\ flow_live s' = false
    /\ response_body_buf s' = response_body_buf s ++ d.
Proof.
  intros Hc HL0 Hlt. unfold HttpBody.handle_event. cbn [is_request_event]. rewrite Hc.
  unfold state_consume_response_body.
  assert (NE : nonempty (response_body_buf s ++ d) = true) by (apply blen_pos_nonempty; lia).
  rewrite (check_body_size_abort false _ (blen (response_body_buf s ++ d))); cbn; try rewrite NE; cbn; auto; try lia.
  unfold HttpBody.abort_body. cbn. rewrite NE. cbn. eexists; (split; [reflexivity|]); cbn; repeat split; auto.
Qed.

End Limit.
