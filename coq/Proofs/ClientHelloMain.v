(* Proofs/ClientHelloMain.v -- C13: totality, stability (layer fed piecewise = parser on the whole, ALL inputs),
   and the main theorem: every well-formed ClientHello, split into records in any way, is reported with the
   reference SNI / ALPN / cipher suites / extensions; every strict prefix is Incomplete.  DTLS handshake
   fragmentation (RFC 6347 4.2.3) is refuted by a witness. *)
From Coq Require Import List Bool Arith NArith Lia ZifyBool.
From MV Require Import Base.Bytes Model.ClientHello Model.TlsRef Proofs.ClientHelloBase
  Proofs.ClientHelloRecords Proofs.ClientHelloParse Proofs.ClientHelloHost.
Import ListNotations.
Local Open Scope N_scope.

(* ================= totality ================= *)
Lemma read_u1_nf s : read_u1 s <> NoFuel. Proof. destruct s; discriminate. Qed.
Lemma read_u2be_nf s : read_u2be s <> NoFuel. Proof. destruct s as [|? [|? ?]]; discriminate. Qed.
Lemma read_u4be_nf s : read_u4be s <> NoFuel. Proof. destruct s as [|? [|? [|? [|? ?]]]]; discriminate. Qed.
Lemma read_bytes_nf n s : read_bytes n s <> NoFuel.
Proof. unfold read_bytes. destruct (blen s <? n); discriminate. Qed.

Ltac nf E := exfalso;
  first [ exact (read_u1_nf _ E) | exact (read_u2be_nf _ E) | exact (read_u4be_nf _ E) | exact (read_bytes_nf _ _ E) ].

Lemma read_server_name_shrinks : shrinks read_server_name.
Proof.
  intros s a r H. unfold read_server_name in H.
  destruct (read_u1 s) as [[t s1]| |] eqn:E1; cbn [bind] in H; try discriminate.
  destruct (read_u2be s1) as [[l s2]| |] eqn:E2; cbn [bind] in H; try discriminate.
  destruct (read_bytes l s2) as [[h s3]| |] eqn:E3; cbn [bind] in H; try discriminate.
  injection H as _ <-. apply read_u1_len in E1. apply read_u2be_len in E2. apply read_bytes_len in E3. lia.
Qed.
Lemma read_server_name_nf : no_fuel_fail read_server_name.
Proof.
  intros s H. unfold read_server_name in H.
  destruct (read_u1 s) as [[t s1]| |] eqn:E1; cbn [bind] in H; try discriminate; [|nf E1].
  destruct (read_u2be s1) as [[l s2]| |] eqn:E2; cbn [bind] in H; try discriminate; [|nf E2].
  destruct (read_bytes l s2) as [[h s3]| |] eqn:E3; cbn [bind] in H; try discriminate. nf E3.
Qed.
Lemma read_protocol_shrinks : shrinks read_protocol.
Proof.
  intros s a r H. unfold read_protocol in H.
  destruct (read_u1 s) as [[t s1]| |] eqn:E1; cbn [bind] in H; try discriminate.
  destruct (read_bytes t s1) as [[h s3]| |] eqn:E3; cbn [bind] in H; try discriminate.
  injection H as _ <-. apply read_u1_len in E1. apply read_bytes_len in E3. lia.
Qed.
Lemma read_protocol_nf : no_fuel_fail read_protocol.
Proof.
  intros s H. unfold read_protocol in H.
  destruct (read_u1 s) as [[t s1]| |] eqn:E1; cbn [bind] in H; try discriminate; [|nf E1].
  destruct (read_bytes t s1) as [[h s3]| |] eqn:E3; cbn [bind] in H; try discriminate. nf E3.
Qed.

Lemma read_sni_nf raw : read_sni raw <> NoFuel.
Proof.
  unfold read_sni. intros H.
  destruct (read_u2be raw) as [[ll s]| |] eqn:E1; cbn [bind] in H; try discriminate; [|nf E1].
  destruct (many read_server_name (length s) s) eqn:E2; cbn [bind] in H; try discriminate.
  exact (many_total _ read_server_name_shrinks read_server_name_nf _ _ (le_n _) E2).
Qed.
Lemma read_alpn_nf raw : read_alpn raw <> NoFuel.
Proof.
  unfold read_alpn. intros H.
  destruct (read_u2be raw) as [[ll s]| |] eqn:E1; cbn [bind] in H; try discriminate; [|nf E1].
  destruct (many read_protocol (length s) s) eqn:E2; cbn [bind] in H; try discriminate.
  exact (many_total _ read_protocol_shrinks read_protocol_nf _ _ (le_n _) E2).
Qed.

Lemma read_extension_shrinks : shrinks read_extension.
Proof.
  intros s a r H. unfold read_extension in H.
  destruct (read_u2be s) as [[ty s1]| |] eqn:E1; cbn [bind] in H; try discriminate.
  destruct (read_u2be s1) as [[ln s2]| |] eqn:E2; cbn [bind] in H; try discriminate.
  apply read_u2be_len in E1. apply read_u2be_len in E2.
  destruct (ty =? 0); [|destruct (ty =? 16)];
    (destruct (read_bytes ln s2) as [[raw s3]| |] eqn:E3; cbn [bind] in H; try discriminate;
     apply read_bytes_len in E3).
  - destruct (read_sni raw); cbn [bind] in H; try discriminate. injection H as _ <-. lia.
  - destruct (read_alpn raw); cbn [bind] in H; try discriminate. injection H as _ <-. lia.
  - injection H as _ <-. lia.
Qed.
Lemma read_extension_nf : no_fuel_fail read_extension.
Proof.
  intros s H. unfold read_extension in H.
  destruct (read_u2be s) as [[ty s1]| |] eqn:E1; cbn [bind] in H; try discriminate; [|nf E1].
  destruct (read_u2be s1) as [[ln s2]| |] eqn:E2; cbn [bind] in H; try discriminate; [|nf E2].
  destruct (ty =? 0); [|destruct (ty =? 16)];
    (destruct (read_bytes ln s2) as [[raw s3]| |] eqn:E3; cbn [bind] in H; try discriminate; try (nf E3)).
  - destruct (read_sni raw) eqn:E4; cbn [bind] in H; try discriminate. exact (read_sni_nf _ E4).
  - destruct (read_alpn raw) eqn:E4; cbn [bind] in H; try discriminate. exact (read_alpn_nf _ E4).
Qed.

Lemma read_n_u2be_nf : forall n s, read_n_u2be n s <> NoFuel.
Proof.
  induction n as [|n IH]; intros s H; [discriminate|]. cbn [read_n_u2be] in H.
  destruct (read_u2be s) as [[x r]| |] eqn:E1; cbn [bind] in H; try discriminate; [|nf E1].
  destruct (read_n_u2be n r) as [[l r']| |] eqn:E2; cbn [bind] in H; try discriminate. exact (IH _ E2).
Qed.

Lemma cookie_nf (dtls : bool) s6 :
  (if dtls then let* (cl, s) := read_u1 s6 in let* (c, s0) := read_bytes cl s in Ok (Some c, s0)
   else Ok (None, s6)) <> NoFuel.
Proof.
  intros HX. destruct dtls; [|discriminate].
  destruct (read_u1 s6) as [[cl s7]| |] eqn:E7; cbn [bind] in HX; try discriminate; [|nf E7].
  destruct (read_bytes cl s7) as [[c s8]| |] eqn:E8; cbn [bind] in HX; try discriminate. nf E8.
Qed.

Lemma read_client_hello_nf dtls s : read_client_hello dtls s <> NoFuel.
Proof.
  unfold read_client_hello. intros H.
  destruct (read_u1 s) as [[major s1]| |] eqn:E1; cbn [bind] in H; try discriminate; [|nf E1].
  destruct (read_u1 s1) as [[minor s2]| |] eqn:E2; cbn [bind] in H; try discriminate; [|nf E2].
  destruct (read_u4be s2) as [[time s3]| |] eqn:E3; cbn [bind] in H; try discriminate; [|nf E3].
  destruct (read_bytes 28 s3) as [[random s4]| |] eqn:E4; cbn [bind] in H; try discriminate; [|nf E4].
  destruct (read_u1 s4) as [[sidlen s5]| |] eqn:E5; cbn [bind] in H; try discriminate; [|nf E5].
  destruct (read_bytes sidlen s5) as [[sid s6]| |] eqn:E6; cbn [bind] in H; try discriminate; [|nf E6].
  match type of H with bind ?m _ = _ => destruct m as [[cookie s9]| |] eqn:E9 end; cbn [bind] in H; try discriminate;
    [|exact (cookie_nf _ _ E9)].
  destruct (read_u2be s9) as [[cslen s10]| |] eqn:E10; cbn [bind] in H; try discriminate; [|nf E10].
  destruct (read_n_u2be (N.to_nat (cslen / 2)) s10) as [[ciphers s11]| |] eqn:E11; cbn [bind] in H; try discriminate;
    [|exact (read_n_u2be_nf _ _ E11)].
  destruct (read_u1 s11) as [[cmlen s12]| |] eqn:E12; cbn [bind] in H; try discriminate; [|nf E12].
  destruct (read_bytes cmlen s12) as [[comp s13]| |] eqn:E13; cbn [bind] in H; try discriminate; [|nf E13].
  destruct (is_nil s13); cbn [bind] in H; [discriminate|].
  destruct (read_u2be s13) as [[el s14]| |] eqn:E14; cbn [bind] in H; try discriminate; [|nf E14].
  destruct (many read_extension (length s14) s14) eqn:E15; cbn [bind] in H; try discriminate.
  exact (many_total _ read_extension_shrinks read_extension_nf _ _ (le_n _) E15).
Qed.

(* (3) the model is total: on arbitrary bytes the outcome is Incomplete, Hello or Invalid *)
Theorem parse_total dtls data : parse_client_hello_gen dtls data <> Fuel.
Proof.
  unfold parse_client_hello_gen. pose proof (gch_gen_no_fuel dtls data) as G.
  destruct (get_client_hello_gen dtls data) as [|ch| |]; try discriminate; [|congruence].
  destruct (is_nil ch); [discriminate|].
  pose proof (read_client_hello_nf dtls (drop (hs_hdr dtls) ch)) as R.
  destruct (read_client_hello dtls (drop (hs_hdr dtls) ch)); try discriminate. congruence.
Qed.

Theorem outcome_exhaustive dtls data :
  parse_client_hello_gen dtls data = Incomplete
  \/ (exists h, parse_client_hello_gen dtls data = Hello h)
  \/ parse_client_hello_gen dtls data = Invalid.
Proof.
  pose proof (parse_total dtls data). destruct (parse_client_hello_gen dtls data); eauto. congruence.
Qed.

(* ================= stability: segmentation independence for ALL inputs ================= *)
Lemma parse_stable dtls p t :
  parse_client_hello_gen dtls p <> Incomplete ->
  parse_client_hello_gen dtls (p ++ t) = parse_client_hello_gen dtls p.
Proof.
  unfold parse_client_hello_gen. intros H. pose proof (gch_gen_stable dtls p t) as S.
  destruct (get_client_hello_gen dtls p) as [|ch| |].
  - congruence.
  - rewrite S. reflexivity.
  - rewrite S. reflexivity.
  - contradiction.
Qed.

Lemma parse_nil dtls : parse_client_hello_gen dtls [] = Incomplete.
Proof. destruct dtls; reflexivity. Qed.

Lemma layer_whole_gen dtls : forall segs buf i,
  parse_client_hello_gen dtls buf = Incomplete ->
  snd (receive_handshake_data dtls buf segs i) = parse_client_hello_gen dtls (buf ++ concat segs).
Proof.
  induction segs as [|data tl IH]; intros buf i Hb.
  - cbn. rewrite app_nil_r. symmetry. exact Hb.
  - cbn [receive_handshake_data concat]. rewrite app_assoc.
    destruct (parse_client_hello_gen dtls (buf ++ data)) eqn:E.
    + apply IH. exact E.
    + cbn [snd]. rewrite parse_stable; rewrite E; [reflexivity|discriminate].
    + cbn [snd]. rewrite parse_stable; rewrite E; [reflexivity|discriminate].
    + cbn [snd]. rewrite parse_stable; rewrite E; [reflexivity|discriminate].
Qed.

(* whatever the bytes and however they are cut into segments, the layer decides what the parser says on the
   concatenation *)
Theorem layer_equals_whole dtls segs :
  snd (receive_handshake_data dtls [] segs 0) = parse_client_hello_gen dtls (concat segs).
Proof. apply (layer_whole_gen dtls segs [] 0), parse_nil. Qed.

(* ================= the handshake header announces the message length ================= *)
Lemma u24_put L a b c :
  L < 16777216 -> put_u24 L = [a; b; c] -> bN a * 65536 + bN b * 256 + bN c = L.
Proof.
  intros HL E. unfold put_u24 in E. injection E as <- <- <-.
  rewrite !bN_Nb by (apply N.mod_lt; lia).
  rewrite (N.mod_small (L / 65536) 256) by (apply N.div_lt_upper_bound; lia).
  pose proof (N.div_mod L 256 ltac:(lia)) as D1.
  pose proof (N.div_mod (L / 256) 256 ltac:(lia)) as D2.
  rewrite N.div_div in D2 by lia. change (256 * 256) with 65536 in D2. lia.
Qed.

Lemma put_u24_shape n : exists a b c, put_u24 n = [a; b; c].
Proof. unfold put_u24. eauto. Qed.

Lemma hs_ok_enc dtls mseq r :
  len (enc_hello dtls r) < 16777216 -> hs_ok dtls (enc_handshake dtls mseq r).
Proof.
  intros HL. unfold enc_handshake. set (body := enc_hello dtls r) in *.
  destruct (put_u24_shape (len body)) as (a & b & c & E). pose proof (u24_put _ _ _ _ HL E) as U.
  rewrite E. destruct dtls.
  - destruct (put_u24_shape 0) as (z1 & z2 & z3 & Ez). rewrite Ez. cbn [app]. split.
    + unfold hs_min. rewrite !blen_cons. unfold len in HL.
      (* the body of a hello is never empty, but 13 <= 12 + |body| needs it: use the version bytes *)
      subst body. unfold enc_hello. cbn [app]. rewrite !blen_cons. lia.
    + intros acc t Em Hmin. unfold hs_min in Hmin. unfold hs_size, hs_hdr, u24.
      assert (L13 : (13 <= length acc)%nat) by (unfold blen in Hmin; lia).
      assert (A : forall i, (i < 13)%nat -> at_ i acc = at_ i (acc ++ t)).
      { intros i Hi. symmetry. apply at_app_lt. lia. }
      cbn [Nat.add]. rewrite (A 9%nat), (A 10%nat), (A 11%nat) by lia. rewrite <- Em. cbn [at_ nth Nat.add].
      rewrite U. rewrite !blen_cons. unfold len, blen. lia.
  - cbn [app]. split.
    + unfold hs_min. rewrite !blen_cons. lia.
    + intros acc t Em Hmin. unfold hs_min in Hmin. unfold hs_size, hs_hdr, u24.
      assert (L4 : (4 <= length acc)%nat) by (unfold blen in Hmin; lia).
      assert (A : forall i, (i < 4)%nat -> at_ i acc = at_ i (acc ++ t)).
      { intros i Hi. symmetry. apply at_app_lt. lia. }
      cbn [Nat.add]. rewrite (A 1%nat), (A 2%nat), (A 3%nat) by lia. rewrite <- Em. cbn [at_ nth Nat.add].
      rewrite U. rewrite !blen_cons. unfold len, blen. lia.
Qed.

Lemma len_enc_hello dtls r : wf_hello r -> len (enc_hello dtls r) < 16777216.
Proof.
  destruct r as [[v1 v2] random sid cookie ciphers comp exts].
  unfold wf_hello. cbn [r_ver r_random r_sid r_cookie r_ciphers r_comp r_exts].
  intros (Hr & Hs & Hk & Hcne & Hc & Hcl & Hcm & He).
  unfold enc_hello. cbn [r_ver r_random r_sid r_cookie r_ciphers r_comp r_exts fst snd].
  change (len ?x) with (len x).
  destruct dtls; destruct exts as [es|]; try destruct He as [_ He];
    rewrite ?app_nil_r; cbn [app];
    rewrite ?len_app, ?len_cons, ?len_app, ?len_vec8, ?len_vec16, ?len_app, ?len_vec8, ?len_vec16, ?len_ciphers;
    rewrite ?len_app, ?len_vec8, ?len_vec16, ?len_ciphers;
    change (len []) with 0; lia.
Qed.

Lemma handshake_split dtls mseq r :
  exists hd, enc_handshake dtls mseq r = hd ++ enc_hello dtls r /\ blen hd = hs_hdr dtls /\ hd <> [].
Proof.
  unfold enc_handshake.
  destruct (put_u24_shape (len (enc_hello dtls r))) as (a & b & c & E). rewrite E.
  destruct dtls.
  - destruct (put_u24_shape 0) as (z1 & z2 & z3 & Ez). rewrite Ez.
    exists [x01; a; b; c; fst mseq; snd mseq; z1; z2; z3; a; b; c]. repeat split. discriminate.
  - exists [x01; a; b; c]. repeat split. discriminate.
Qed.

(* ================= the main theorem ================= *)
Lemma sni_labels_in es ls l : In (RSni ls) es -> In l ls -> In l (sni_labels es).
Proof.
  induction es as [|e es IH]; intros Hin Hl; [contradiction|].
  destruct Hin as [->|Hin].
  - cbn. apply in_or_app. left. exact Hl.
  - specialize (IH Hin Hl). destruct e; cbn; [apply in_or_app; right|..]; exact IH.
Qed.

(* (1) any well-formed hello, any split into records: Hello with the reference observables *)
Theorem hello_any_records ace_ok dtls r mseq recs :
  wf_hello r ->
  (forall l, In l (sni_labels (exts_list r)) -> starts_with ACE l = true -> ace_ok l = true) ->
  Forall (wf_record dtls) recs -> payloads recs = enc_handshake dtls mseq r ->
  exists h, parse_client_hello_gen dtls (stream recs) = Hello h
            /\ sni ace_ok h = ref_sni r /\ alpn_protocols h = ref_alpn r
            /\ cipher_suites h = ref_ciphers r /\ extensions h = ref_exts r.
Proof.
  intros W Hace Wr Ep.
  pose proof (hs_ok_enc dtls mseq r (len_enc_hello dtls r W)) as Hok.
  unfold parse_client_hello_gen. rewrite (gch_stream dtls recs _ Wr Hok Ep).
  destruct (handshake_split dtls mseq r) as (hd & Eh & Hl & Hne). rewrite Eh.
  replace (is_nil (hd ++ enc_hello dtls r)) with false by (destruct hd; [congruence|reflexivity]).
  rewrite (drop_app_exact hd _ _ Hl).
  destruct (read_hello_enc dtls r W) as (h & -> & Hc & He). exists h. split; [reflexivity|].
  assert (Wes : Forall wf_ext (exts_list r)).
  { destruct W as (_ & _ & _ & _ & _ & _ & _ & W). unfold exts_list. destruct (r_exts r); [apply W|constructor]. }
  unfold sni, alpn_protocols, cipher_suites, extensions, ref_sni, ref_alpn, ref_ciphers, ref_exts.
  rewrite He, Hc. repeat split.
  - apply sni_parsed; [exact Wes|]. intros ls Hin. rewrite Forall_forall in Wes.
    destruct (Wes _ Hin) as (Hne' & Hlab & Hlen). apply ref_hostname_valid; try assumption.
    intros l Hl' Hs. apply Hace; [|exact Hs]. eapply sni_labels_in; eassumption.
  - apply alpn_parsed, Wes.
  - apply extensions_parsed.
Qed.

(* (2) every strict prefix of the record stream of a well-formed hello is Incomplete *)
Theorem prefix_incomplete dtls r mseq recs q t :
  wf_hello r -> Forall (wf_record dtls) recs -> payloads recs = enc_handshake dtls mseq r ->
  t <> [] -> q ++ t = stream recs ->
  parse_client_hello_gen dtls q = Incomplete.
Proof.
  intros W Wr Ep Ht Eq.
  pose proof (hs_ok_enc dtls mseq r (len_enc_hello dtls r W)) as Hok.
  unfold parse_client_hello_gen. rewrite (gch_stream_prefix dtls recs _ q t Wr Hok Ep Ht Eq). reflexivity.
Qed.

(* records and TCP segments / datagrams together *)
Theorem hello_any_split ace_ok dtls r mseq recs segs :
  wf_hello r ->
  (forall l, In l (sni_labels (exts_list r)) -> starts_with ACE l = true -> ace_ok l = true) ->
  Forall (wf_record dtls) recs -> payloads recs = enc_handshake dtls mseq r ->
  concat segs = stream recs ->
  exists h, snd (receive_handshake_data dtls [] segs 0) = Hello h
            /\ sni ace_ok h = ref_sni r /\ alpn_protocols h = ref_alpn r
            /\ cipher_suites h = ref_ciphers r /\ extensions h = ref_exts r.
Proof.
  intros W Hace Wr Ep Es. rewrite layer_equals_whole, Es.
  apply (hello_any_records ace_ok dtls r mseq recs); assumption.
Qed.

(* ================= witnesses ================= *)
Definition ex_host_labels : list bytes := [[x77; x77; x77]; [x65; x78; x61; x6d; x70; x6c; x65]; [x63; x6f; x6d]].
Definition ex_hello : rhello :=
  {| r_ver := (x03, x03); r_random := repeat x2a 32; r_sid := []; r_cookie := [];
     r_ciphers := [2570; 4865; 49195]; r_comp := [x00];
     r_exts := Some [ROther 6682 []; RSni ex_host_labels; RAlpn [[x68; x32]; [x68; x74; x74; x70; x2f; x31; x2e; x31]];
                     ROther 43 [x02; x03; x04]] |}.

Lemma ex_hello_wf : wf_hello ex_hello.
Proof.
  unfold wf_hello, ex_hello.
  cbn [r_ver r_random r_sid r_cookie r_ciphers r_comp r_exts].
  repeat split; try (vm_compute; congruence); try discriminate.
  - repeat constructor; vm_compute; congruence.
  - repeat constructor; try (vm_compute; congruence); try discriminate.
Qed.

Definition tls_rec (p : bytes) : bytes * bytes := ([x16; x03; x01] ++ put_u16be (len p), p).
Definition dtls_rec (p : bytes) : bytes * bytes :=
  ([x16; xfe; xfd] ++ repeat x00 8 ++ put_u16be (len p), p).

Definition ex_msg : bytes := enc_handshake false (x00, x00) ex_hello.
Definition ex_recs : list (bytes * bytes) :=
  [tls_rec (firstn 3 ex_msg); tls_rec (firstn 40 (skipn 3 ex_msg)); tls_rec (skipn 43 ex_msg)].
Definition ex_segs : list bytes :=
  let s := stream ex_recs in [firstn 2 s; firstn 50 (skipn 2 s); skipn 52 s].

Lemma tls_rec_wf p : 1 <= len p < 65536 -> wf_record false (tls_rec p).
Proof.
  intros H. split; [|exact H]. cbn [record_header fst snd tls_rec]. exists x01. split; [reflexivity|].
  vm_compute. congruence.
Qed.
Lemma dtls_rec_wf p : 1 <= len p < 65536 -> wf_record true (dtls_rec p).
Proof.
  intros H. split; [|exact H]. cbn [record_header fst snd dtls_rec]. exists xfd, (repeat x00 8).
  repeat split. right. reflexivity.
Qed.

Lemma nonvacuous :
  wf_hello ex_hello
  /\ Forall (wf_record false) ex_recs /\ payloads ex_recs = enc_handshake false (x00, x00) ex_hello
  /\ concat ex_segs = stream ex_recs
  /\ (forall l, In l (sni_labels (exts_list ex_hello)) -> starts_with ACE l = true -> (fun _ => false) l = true)
  /\ ref_sni ex_hello = Some (join_dot ex_host_labels) /\ length (ref_exts ex_hello) = 4%nat
  /\ fst (receive_handshake_data false [] ex_segs 0) = 2.
Proof.
  split; [exact ex_hello_wf|]. split.
  { repeat constructor; apply tls_rec_wf; vm_compute; split; congruence. }
  split; [vm_compute; reflexivity|]. split; [vm_compute; reflexivity|]. split.
  { intros l Hin. cbn in Hin. repeat (destruct Hin as [<-|Hin]; [vm_compute; discriminate|]). contradiction. }
  split; [reflexivity|]. split; [reflexivity|]. vm_compute. reflexivity.
Qed.

(* DTLS: the same hello sent as two RFC 6347 handshake fragments (each record with its own fragment header) *)
Definition ex_dtls_body : bytes := enc_hello true ex_hello.
Definition ex_frag_recs (k : nat) : list (bytes * bytes) :=
  [dtls_rec (enc_fragment (x00, x00) ex_dtls_body 0 k);
   dtls_rec (enc_fragment (x00, x00) ex_dtls_body k (length ex_dtls_body - k))].

Lemma dtls_fragmented_refuted :
  exists r mseq k,
    wf_hello r /\ (0 < k < length (enc_hello true r))%nat
    /\ let body := enc_hello true r in
       let recs := [dtls_rec (enc_fragment mseq body 0 k); dtls_rec (enc_fragment mseq body k (length body - k))] in
       Forall (wf_record true) recs
       /\ parse_client_hello_gen true (stream recs) = Invalid.
Proof.
  exists ex_hello, (x00, x00), 20%nat. split; [exact ex_hello_wf|]. split; [vm_compute; lia|].
  cbn zeta. split.
  - repeat constructor; apply dtls_rec_wf; vm_compute; split; congruence.
  - vm_compute. reflexivity.
Qed.

(* and cut right after the compression methods, the first fragment is taken for a complete hello without
   extensions: the server name is silently lost *)
Lemma dtls_fragmented_loses_sni :
  exists r mseq k,
    wf_hello r /\ (0 < k < length (enc_hello true r))%nat
    /\ let body := enc_hello true r in
       let recs := [dtls_rec (enc_fragment mseq body 0 k); dtls_rec (enc_fragment mseq body k (length body - k))] in
       Forall (wf_record true) recs
       /\ exists h, parse_client_hello_gen true (stream recs) = Hello h
                    /\ sni (fun _ => true) h = None /\ ref_sni r <> None.
Proof.
  exists ex_hello, (x00, x00), 46%nat. split; [exact ex_hello_wf|]. split; [vm_compute; lia|].
  cbn zeta. split.
  - repeat constructor; apply dtls_rec_wf; vm_compute; split; congruence.
  - eexists. split; [vm_compute; reflexivity|]. split; [reflexivity|discriminate].
Qed.
